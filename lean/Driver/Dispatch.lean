import OdxVerif.Spec.Attribution
/-! line-protocol driver for the dispatch model and the attribution spec (property C06)

    (decode (strict t|f) (msg HEX) (walk HEX) (layer (gnrs CO*) (svc NAME (req CO?) (pos CO*) (neg CO*))*))
       CO = (co NAME OUTCOME P*)   OUTCOME = ok|mismatch|error|foreign  (oracle for `msg`)
       P  = (c HEX) | (m POS LEN) | (o)
       → (ok (cands N*) (res ok (N N)*)|(res err decode|foreign) (attr (N (CO HEX)*)*) (unamb t|f))
         cands = tree walk over `walk`; res = model `_decode(msg, cands)`; attr = spec: attributed services
         for `msg`, each with its matching coding objects and their constant prefixes
    (info (layer …))
       → (ok (prefixes (N (CO HEX)*)*) (groups (K N*)*) (sids (N K)*))      K = byte | none -/
open OdxVerif OdxVerif.Dispatch

def parseParam : Sexp → Option Param
  | .list [.atom "c", h] => do pure (.const (← bytesOfHex? (← h.asAtom?)))
  | .list [.atom "m", p, l] => do pure (.matchReq (← p.asNat?) (← l.asNat?))
  | .list [.atom "o"] => some .other
  | _ => none

def parseOutcome : String → Option Outcome
  | "ok" => some .ok | "mismatch" => some .mismatch | "error" => some .error | "foreign" => some .foreign
  | _ => none

/-- a coding object and its oracle outcome -/
def parseCoding : Sexp → Option (Coding × Outcome)
  | .list (.atom "co" :: n :: o :: ps) => do
    let name ← n.asNat?
    let oc ← parseOutcome (← o.asAtom?)
    let params ← ps.mapM parseParam
    pure (⟨name, params⟩, oc)
  | _ => none

def parseService : Sexp → Option (Service × List (Coding × Outcome))
  | .list (.atom "svc" :: n :: fields) => do
    let name ← n.asNat?
    let req ← (← Sexp.field? fields "req").mapM parseCoding
    let pos ← (← Sexp.field? fields "pos").mapM parseCoding
    let neg ← (← Sexp.field? fields "neg").mapM parseCoding
    let r ← match req with
      | [] => some none
      | [r] => some (some r.1)
      | _ => none
    pure (⟨name, r, pos.map (·.1), neg.map (·.1)⟩, req ++ pos ++ neg)
  | _ => none

def parseLayer (fields : List Sexp) : Option (Layer × List (Coding × Outcome)) := do
  let gn ← (← Sexp.field? fields "gnrs").mapM parseCoding
  let svcs ← (fields.filter fun | .list (.atom "svc" :: _) => true | _ => false).mapM parseService
  pure (⟨svcs.map (·.1), gn.map (·.1)⟩, gn ++ svcs.flatMap (·.2))

def mkOracle (tbl : List (Coding × Outcome)) : Oracle := fun co _ =>
  match tbl.find? (fun e => e.1.name == co.name) with
  | some e => e.2
  | none => .foreign

def natsStr (xs : List Nat) : String := " ".intercalate (xs.map toString)
def keyStr : Option Byte → String
  | none => "none" | some b => toString b

def msgStr (m : Msg) : String := s!"({m.1.name} {m.2.name})"

def handle (sx : Sexp) : String :=
  match sx with
  | .list (.atom "decode" :: fields) =>
    match Sexp.field1? fields "strict", Sexp.field1? fields "msg", Sexp.field1? fields "walk",
        Sexp.field? fields "layer" with
    | some (.atom st), some (.atom m), some (.atom w), some lf =>
      match bytesOfHex? m, bytesOfHex? w, parseLayer lf with
      | some M, some W, some (L, tbl) =>
        let dec := mkOracle tbl
        let strict := st == "t"
        let cands := (buildTree L).walk W
        let res := match decodeCandidates dec strict L M cands with
          | .ok ms => "(res ok " ++ " ".intercalate (ms.map msgStr) ++ ")"
          | .error .decode => "(res err decode)"
          | .error .foreign => "(res err foreign)"
        let attr := (Spec.attributed dec L M).map fun s =>
          let cos := (Spec.ownCodings s ++ L.gnrs).filter fun co => decide (Spec.Matches dec s M co)
          s!"({s.name} " ++ " ".intercalate (cos.map fun co =>
            s!"({co.name} {hexAtom (Spec.constPrefix (Spec.requestPrefix s) co.params)})") ++ ")"
        let unamb := L.services.all fun s => decide (Spec.ownMatchCount dec s M ≤ 1)
        s!"(ok (cands {natsStr (cands.map (·.name))}) {res} (attr {" ".intercalate attr}) (unamb {if unamb then "t" else "f"}))"
      | _, _, _ => "(bad-args)"
    | _, _, _, _ => "(bad-args)"
  | .list (.atom "info" :: fields) =>
    match Sexp.field? fields "layer" with
    | some lf =>
      match parseLayer lf with
      | some (L, _) =>
        let pref := L.services.map fun s =>
          let rp := requestPrefix s
          s!"({s.name} " ++ " ".intercalate ((candidateCodings s ++ L.gnrs).map fun co =>
            s!"({co.name} {hexAtom (codedConstPrefix rp co)})") ++ ")"
        let groups := (serviceGroups L).map fun g => s!"({keyStr g.1} {natsStr (g.2.map (·.name))})"
        let sids := L.services.map fun s => s!"({s.name} {keyStr (Spec.sidOf s)})"
        s!"(ok (prefixes {" ".intercalate pref}) (groups {" ".intercalate groups}) (sids {" ".intercalate sids}))"
      | none => "(bad-args)"
    | none => "(bad-args)"
  | _ => "(bad-op)"

def main : IO Unit := driverMain handle
