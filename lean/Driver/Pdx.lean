import OdxVerif.Common.Sexp
import OdxVerif.Model.Pdx
/-! line-protocol driver for the PDX escaping model (property C11)

  strings travel as `(cp n…)`: decimal Unicode code points, the empty string as `(cp)`
  request : `(escape (cp …))`   → `(cp …)`                     -- markupsafe.escape
            `(unescape (cp …))` → `(ok (cp …))` | `(err)`      -- reference decoding only
            `(text (cp …))`     → `(ok (cp …))` | `(err)`      -- character data as an XML processor reports it
            `(attr (cp …))`     → `(ok (cp …))` | `(err)`      -- double-quoted attribute value, normalised
            `(load (f frag kind old ver (id obj)…) …)`  kind = dlc|subset|spec, old = t|f, ver = n
                                → `(ok (dlcs frag…) (subsets frag…) (specs frag…) (version n) (links (frag DOCTYPE id obj)…))` | `(err)`
                                                                 -- Database._process_xml_tree per file + _build_odxlinks; DOCTYPE =
                                                                 -- CONTAINER | COMPARAM-SUBSET | COMPARAM-SPEC (`DocType.value`)
            `(dispatch pdx|files|dir suffix name)` → `odx` | `index` | `aux` | `pdx`   -- file-type dispatch of the entry points
            `(effective fuel (files (f …)…) (raw (o obj KIND (cps (tag id proto|-)…) (locals (name tag)…) (parents ((frag id) excl…)…))…)
                        (keys (frag id)…))`
                                → `(ok (l frag id (cps tag…)|(cps none) (objs ok (name tag)…)|(objs err)|(objs none))…)` | `(err)`
                                                                 -- per layer: comparam_refs and the objects of one category after refresh()
            in `effective`, `(frag id)` denotes an id in a CONTAINER document (layers, PARENT-REFs); `(frag DOCTYPE id)` any
  anything else → `(bad-request)` -/
open OdxVerif OdxVerif.Pdx

def parseCp : Sexp → Option (List Nat)
  | .list (.atom "cp" :: xs) => xs.mapM Sexp.asNat?
  | _ => none

def cpStr (s : List Nat) : String := "(" ++ " ".intercalate ("cp" :: s.map toString) ++ ")"

def optStr : Option (List Nat) → String
  | some s => s!"(ok {cpStr s})"
  | none => "(err)"

def parseFile : Sexp → Option File
  | .list (.atom "f" :: .atom frag :: .atom kind :: .atom old :: ver :: ids) => do
    let k ← if kind == "dlc" then some Kind.dlc else if kind == "subset" then some Kind.subset
            else if kind == "spec" then some Kind.spec else none
    let v ← ver.asNat?
    let ids ← ids.mapM fun
      | .list [.atom i, o] => do pure (i, ← o.asNat?)
      | _ => none
    pure ⟨frag, k, old == "t", v, ids⟩
  | _ => none

def OdxVerif.Pdx.DocType.toStr : DocType → String
  | .container => "CONTAINER" | .comparamSubset => "COMPARAM-SUBSET" | .comparamSpec => "COMPARAM-SPEC"

def parseDocType (s : String) : Option DocType :=
  if s == "CONTAINER" then some .container else if s == "COMPARAM-SUBSET" then some .comparamSubset
  else if s == "COMPARAM-SPEC" then some .comparamSpec else none

def parseKey : Sexp → Option Key
  | .list [.atom fr, .atom i] => some ((fr, .container), i)
  | .list [.atom fr, .atom dt, .atom i] => do pure ((fr, ← parseDocType dt), i)
  | _ => none

def fragsStr (tag : String) (fs : List File) : String := "(" ++ " ".intercalate (tag :: fs.map (·.frag)) ++ ")"

/-- the effective ODXLINK map: every key with the object the last update left there, in first-insertion order -/
def linksStr (db : Db) : String :=
  let keys := (links db).map (·.1) |>.eraseDups
  "(" ++ " ".intercalate ("links" :: keys.map fun k =>
    s!"({k.1.1} {k.1.2.toStr} {k.2} {(linkLookup db k).getD 0})") ++ ")"

def handleLoad (fs : List Sexp) : String :=
  match fs.mapM parseFile with
  | none => "(bad-request)"
  | some files =>
    match processAll files with
    | .error _ => "(err)"
    | .ok db =>
      let v := match db.version with | some n => toString n | none => "none"
      s!"(ok {fragsStr "dlcs" db.dlcs} {fragsStr "subsets" db.subsets} {fragsStr "specs" db.specs} (version {v}) {linksStr db})"

def parseRaw : Sexp → Option (Nat × RawLayer)
  | .list [.atom "o", o, .atom kind, .list (.atom "cps" :: cps), .list (.atom "locals" :: ls), .list (.atom "parents" :: ps)] => do
    let o ← o.asNat?
    let k ← Gen.LayerKind.all.find? fun k => k.odxName == kind
    let cps ← cps.mapM fun
      | .list [t, .atom i, .atom pr] => do
        pure (⟨← t.asNat?, i, if pr == "-" then none else some pr, .str "", .simple i ""⟩ : Comparam.Inst)
      | _ => none
    let ls ← ls.mapM fun
      | .list [a, b] => do pure (⟨← a.asNat?, ← b.asNat?⟩ : Inherit.Obj)
      | _ => none
    let ps ← ps.mapM fun
      | .list (k :: ex) => do pure (← parseKey k, ← ex.mapM Sexp.asNat?)
      | _ => none
    pure (o, ⟨k, cps, ls, ps⟩)
  | _ => none

def handleEffective (fuel : Nat) (fs raws keys : List Sexp) : String :=
  match fs.mapM parseFile, raws.mapM parseRaw, keys.mapM parseKey with
  | some files, some raws, some keys =>
    match processAll files with
    | .error _ => "(err)"
    | .ok db =>
      let raw : Nat → Option RawLayer := fun o => raws.lookup o
      let one (k : Key) : String :=
        let cps := match effectiveComparams db raw fuel k with
          | some l => "(" ++ " ".intercalate ("cps" :: l.map fun (c : Comparam.Inst) => toString c.tag) ++ ")"
          | none => "(cps none)"
        let objs := match effectiveObjects db raw fuel k with
          | some (.ok l) => "(" ++ " ".intercalate ("objs" :: "ok" :: l.map fun (o : Inherit.Obj) => s!"({o.name} {o.tag})") ++ ")"
          | some (.error _) => "(objs err)"
          | none => "(objs none)"
        s!"(l {k.1.1} {k.2} {cps} {objs})"
      "(" ++ " ".intercalate ("ok" :: keys.map one) ++ ")"
  | _, _, _ => "(bad-request)"

def handle (sx : Sexp) : String :=
  match sx with
  | .list (.atom "load" :: fs) => handleLoad fs
  | .list [.atom "effective", fuel, .list (.atom "files" :: fs), .list (.atom "raw" :: raws), .list (.atom "keys" :: keys)] =>
    match fuel.asNat? with
    | some n => handleEffective n fs raws keys
    | none => "(bad-request)"
  | .list [.atom "dispatch", .atom ep, .atom suffix, .atom name] =>
    let ep? := if ep == "pdx" then some Entry.pdx else if ep == "files" then some Entry.files
               else if ep == "dir" then some Entry.dir else none
    match ep? with
    | some e => (dispatch e (if suffix == "-" then "" else suffix) name).toStr
    | none => "(bad-request)"
  | .list [.atom op, arg] =>
    match parseCp arg with
    | some s =>
      if op == "escape" then cpStr (escape s)
      else if op == "unescape" then optStr (unescape s)
      else if op == "text" then optStr (decodeText s)
      else if op == "attr" then optStr (decodeAttr s)
      else "(bad-request)"
    | none => "(bad-request)"
  | _ => "(bad-request)"

def main : IO Unit := driverMain handle
