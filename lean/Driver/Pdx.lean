import OdxVerif.Common.Sexp
import OdxVerif.Model.Pdx
/-! line-protocol driver for the PDX escaping model (property C11)

  strings travel as `(cp n…)`: decimal Unicode code points, the empty string as `(cp)`
  request : `(escape (cp …))`   → `(cp …)`                     -- markupsafe.escape
            `(unescape (cp …))` → `(ok (cp …))` | `(err)`      -- reference decoding only
            `(text (cp …))`     → `(ok (cp …))` | `(err)`      -- character data as an XML processor reports it
            `(attr (cp …))`     → `(ok (cp …))` | `(err)`      -- double-quoted attribute value, normalised
            `(load (f frag kind old ver (id obj)…) …)`  kind = dlc|subset|spec, old = t|f, ver = n
                                → `(ok (dlcs frag…) (subsets frag…) (specs frag…) (version n) (links (frag id obj)…))` | `(err)`
                                                                 -- Database._process_xml_tree per file + _build_odxlinks
            `(dispatch pdx|files|dir suffix name)` → `odx` | `index` | `aux` | `pdx`   -- file-type dispatch of the entry points
  anything else → `(bad-request)` -/
open OdxVerif OdxVerif.Pdx

def parseCp : Sexp → Option (List Nat)
  | .list (.atom "cp" :: xs) => xs.mapM Sexp.asNat?
  | _ => none

def cpStr (s : List Nat) : String := "(" ++ " ".intercalate ("cp" :: s.map toString) ++ ")"

def optStr : Option (List Nat) → String
  | some s => s!"(ok {cpStr s})"
  | none => "(err)"

def parseFile : Sexp → Option File
  | .list (.atom "f" :: .atom frag :: .atom kind :: .atom old :: ver :: ids) => do
    let k ← if kind == "dlc" then some Kind.dlc else if kind == "subset" then some Kind.subset
            else if kind == "spec" then some Kind.spec else none
    let v ← ver.asNat?
    let ids ← ids.mapM fun
      | .list [.atom i, o] => do pure (i, ← o.asNat?)
      | _ => none
    pure ⟨frag, k, old == "t", v, ids⟩
  | _ => none

def fragsStr (tag : String) (fs : List File) : String := "(" ++ " ".intercalate (tag :: fs.map (·.frag)) ++ ")"

/-- the effective ODXLINK map: every key with the object the last update left there, in first-insertion order -/
def linksStr (db : Db) : String :=
  let keys := (links db).map (·.1) |>.eraseDups
  "(" ++ " ".intercalate ("links" :: keys.map fun k =>
    s!"({k.1} {k.2} {(linkLookup db k).getD 0})") ++ ")"

def handleLoad (fs : List Sexp) : String :=
  match fs.mapM parseFile with
  | none => "(bad-request)"
  | some files =>
    match processAll files with
    | .error _ => "(err)"
    | .ok db =>
      let v := match db.version with | some n => toString n | none => "none"
      s!"(ok {fragsStr "dlcs" db.dlcs} {fragsStr "subsets" db.subsets} {fragsStr "specs" db.specs} (version {v}) {linksStr db})"

def handle (sx : Sexp) : String :=
  match sx with
  | .list (.atom "load" :: fs) => handleLoad fs
  | .list [.atom "dispatch", .atom ep, .atom suffix, .atom name] =>
    let ep? := if ep == "pdx" then some Entry.pdx else if ep == "files" then some Entry.files
               else if ep == "dir" then some Entry.dir else none
    match ep? with
    | some e => (dispatch e (if suffix == "-" then "" else suffix) name).toStr
    | none => "(bad-request)"
  | .list [.atom op, arg] =>
    match parseCp arg with
    | some s =>
      if op == "escape" then cpStr (escape s)
      else if op == "unescape" then optStr (unescape s)
      else if op == "text" then optStr (decodeText s)
      else if op == "attr" then optStr (decodeAttr s)
      else "(bad-request)"
    | none => "(bad-request)"
  | _ => "(bad-request)"

def main : IO Unit := driverMain handle
