import OdxVerif.Common.Sexp
import OdxVerif.Spec.OdxLink
/-! line-protocol driver for the reference-resolution model and spec (property C10)

    objects   `(o <uid> (<class> …) <short-name>)`
    fragments `(<doc-name> <doc-type>)`
    entries   `(e <local-id> (<frag> …) <obj>)`
    refs      `(ref <ref-id> (<frag> …))`
    `-` stands for `None` -/
open OdxVerif OdxVerif.OdxLink

def pFrag : Sexp → Option Frag
  | .list [.atom n, .atom t] => some ⟨n, t⟩
  | _ => none

def pFrags : Sexp → Option (List Frag)
  | .list xs => xs.mapM pFrag
  | _ => none

def pAtoms : Sexp → Option (List String)
  | .list xs => xs.mapM Sexp.asAtom?
  | _ => none

def pObj : Sexp → Option Obj
  | .list [.atom "o", u, cls, .atom n] => do
    let u ← u.asNat?
    let cls ← pAtoms cls
    pure ⟨u, cls, n⟩
  | _ => none

def pEntry : Sexp → Option (Id × Obj)
  | .list [.atom "e", .atom lid, fr, o] => do
    let fr ← pFrags fr
    let o ← pObj o
    pure (⟨lid, fr⟩, o)
  | _ => none

def pRef : Sexp → Option Ref
  | .list [.atom "ref", .atom rid, fr] => do
    let fr ← pFrags fr
    pure ⟨rid, fr⟩
  | _ => none

def pOpt : Sexp → Option (Option String)
  | .atom "-" => some none
  | .atom s => some (some s)
  | _ => none

def pBool : Sexp → Option Bool
  | .atom "t" => some true
  | .atom "f" => some false
  | _ => none

def outStr : Except Err (Option Obj) → String
  | .ok (some o) => s!"(ok {o.uid})"
  | .ok none => "(ok none)"
  | .error .key => "(err key)"
  | .error .odx => "(err odx)"

def errStr : Err → String
  | .key => "(err key)"
  | .odx => "(err odx)"

def dumpDb (db : Db) : String :=
  let frag (e : Frag × FragDb) :=
    s!"(frag {e.1.name} {e.1.ty}" ++ String.join (e.2.map fun x => s!" ({x.1} {x.2.uid})") ++ ")"
  "(db" ++ String.join (db.map fun e => " " ++ frag e) ++ ")"

/-! ### unit level: operation sequences on database objects sharing one heap -/

structure St where
  heap : Heap := ⟨[]⟩
  dbs : List DbObj := []

def runOp (st : St) : Sexp → Option (St × String)
  | .list [.atom "new"] => some ({ st with dbs := st.dbs ++ [[]] }, "ok")
  | .list [.atom "copy", i] => do
    let i ← i.asNat?
    let d ← st.dbs[i]?
    let r := copyFixed (st.heap, d)
    pure ({ heap := r.1, dbs := st.dbs ++ [r.2] }, "ok")
  | .list (.atom "update" :: i :: ow :: es) => do
    let i ← i.asNat?
    let ow ← pBool ow
    let es ← es.mapM pEntry
    let d ← st.dbs[i]?
    let r := hUpdate (st.heap, d) es ow
    pure ({ heap := r.1, dbs := st.dbs.set i r.2 }, "ok")
  | .list [.atom "resolve", i, r, exp, strict] => do
    let i ← i.asNat?
    let r ← pRef r
    let exp ← pOpt exp
    let strict ← pBool strict
    let d ← st.dbs[i]?
    pure (st, outStr (resolve (view st.heap d) r exp strict))
  | .list [.atom "lenient", i, r, exp, strict] => do
    let i ← i.asNat?
    let r ← pRef r
    let exp ← pOpt exp
    let strict ← pBool strict
    let d ← st.dbs[i]?
    pure (st, outStr (resolveLenient (view st.heap d) r exp strict))
  | .list [.atom "dump", i] => do
    let i ← i.asNat?
    let d ← st.dbs[i]?
    pure (st, dumpDb (view st.heap d))
  | _ => none

def runOps : St → List Sexp → List String → Option (List String)
  | _, [], acc => some acc.reverse
  | st, op :: ops, acc =>
    match runOp st op with
    | none => none
    | some (st', out) => runOps st' ops (out :: acc)

/-! ### database level -/

def pLinkRef : Sexp → Option LinkRef
  | .list [.atom "lr", .atom key, r, exp] => do
    let r ← pRef r
    let exp ← pOpt exp
    pure ⟨key, r, exp⟩
  | _ => none

def pSnRef : Sexp → Option SnRef
  | .list [.atom "sr", .atom key, .atom name, pools, .list items, exp] => do
    let pools ← pAtoms pools
    let items ← items.mapM pObj
    let exp ← pOpt exp
    pure ⟨key, name, pools, items, exp⟩
  | _ => none

def pPool : Sexp → Option (String × List Obj)
  | .list (.atom p :: xs) => do
    let xs ← xs.mapM pObj
    pure (p, xs)
  | _ => none

def pLayer : Sexp → Option Layer
  | .list (.atom "layer" :: fs) => do
    let obj ← (Sexp.field1? fs "obj").bind pObj
    let frags ← (Sexp.field1? fs "frags").bind pFrags
    let esd ← (Sexp.field1? fs "esd").bind pBool
    let links ← (Sexp.field? fs "links").bind (·.mapM pEntry)
    let imports ← (Sexp.field? fs "imports").bind (·.mapM pRef)
    let parents ← (Sexp.field1? fs "parents").bind pAtoms
    let prio ← (Sexp.field1? fs "prio").bind Sexp.asNat?
    let refs ← (Sexp.field? fs "refs").bind (·.mapM pLinkRef)
    let snrefs ← (Sexp.field? fs "snrefs").bind (·.mapM pSnRef)
    let locals ← (Sexp.field? fs "locals").bind (·.mapM pPool)
    pure { obj := obj, frags := frags, isEsd := esd, links := links, importRefs := imports,
           parentKeys := parents, prio := prio, refs := refs, snrefs := snrefs, locals := locals }
  | _ => none

def resStr (r : Resolved) : String := String.join (r.map fun x => s!" ({x.1} {x.2})")

def pDbArgs (fs : List Sexp) : Option (List (Id × Obj) × List Layer) := do
  let extra ← (Sexp.field? fs "extra").bind (·.mapM pEntry)
  let layers ← (Sexp.field? fs "layers").bind (·.mapM pLayer)
  pure (extra, layers)

def specLayerStr (all : List Layer) (extra : List (Id × Obj)) (l : Layer) : String :=
  match Spec.expectLayer all extra l with
  | none => s!"({l.obj.uid} import-fails)"
  | some xs =>
    s!"({l.obj.uid}" ++ String.join (xs.map fun x =>
      match x.2 with
      | some u => s!" ({x.1} {u})"
      | none => s!" ({x.1} none)") ++ ")"

def handle (sx : Sexp) : String :=
  match sx with
  | .list [.atom "ops", .list ops] =>
    match runOps {} ops [] with
    | some outs => "(r " ++ " ".intercalate outs ++ ")"
    | none => "(bad-args)"
  | .list [.atom "snref", .atom name, exp, strict, .list items] =>
    match pOpt exp, pBool strict, items.mapM pObj with
    | some exp, some strict, some items => outStr (resolveSnref name items exp strict)
    | _, _, _ => "(bad-args)"
  | .list [.atom "uniq", .atom name, .list items] =>
    match items.mapM pObj with
    | some items => (match Spec.uniqueBy items name with | some o => s!"(ok {o.uid})" | none => "(none)")
    | none => "(bad-args)"
  | .list (.atom "refresh" :: fs) =>
    match pDbArgs fs with
    | some (extra, layers) =>
      match refresh extra layers with
      | .error e => errStr e
      | .ok r => s!"(ok (links{resStr r.links}) (snrefs{resStr r.snrefs}) (global {dumpDb (view r.heap r.glob)}))"
    | none => "(bad-args)"
  | .list (.atom "links" :: fs) =>     -- link phase only (snref errors do not mask the result)
    match pDbArgs fs with
    | some (extra, layers) =>
      let s := buildGlobal extra layers
      match resolveLayers layers s.2 s.1 layers with
      | .error e => errStr e
      | .ok (h, r) => s!"(ok (links{resStr r}) (global {dumpDb (view h s.2)}))"
    | none => "(bad-args)"
  | .list (.atom "spec" :: fs) =>
    match pDbArgs fs with
    | some (extra, layers) =>
      "(spec " ++ " ".intercalate (layers.map (specLayerStr layers extra)) ++ ")"
    | none => "(bad-args)"
  | .list (.atom "retarget" :: target :: res :: fs) =>
    match target.asNat?, pDbArgs fs, res with
    | some t, some (_, layers), .list rs =>
      match rs.mapM (fun | .list [.atom k, u] => u.asNat?.map (k, ·) | _ => none), findLayer layers t with
      | some res, some tl =>
        (match retarget layers res tl with
         | .error e => errStr e
         | .ok r => s!"(ok{resStr r})")
      | _, _ => "(bad-args)"
    | _, _, _ => "(bad-args)"
  | .list (.atom "retargets" :: .list targets :: fs) =>
    -- link phase of the model, then `retarget` to each of the listed layers (one reply per target; the
    -- model's `retarget` depends on the resolved PARENT-REFs only, not on earlier calls)
    match targets.mapM Sexp.asNat?, pDbArgs fs with
    | some ts, some (extra, layers) =>
      let s := buildGlobal extra layers
      match resolveLayers layers s.2 s.1 layers with
      | .error _ => "(links-failed)"
      | .ok (_, res) =>
        "(rts" ++ String.join (ts.map fun t =>
          match findLayer layers t with
          | none => " (no-such-layer)"
          | some tl =>
            match retarget layers res tl with
            | .error e => " " ++ errStr e
            | .ok r => s!" (ok{resStr r})") ++ ")"
    | _, _ => "(bad-args)"
  | _ => "(bad-op)"

def main : IO Unit := driverMain handle
