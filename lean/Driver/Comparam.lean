import OdxVerif.Common.Sexp
import OdxVerif.Spec.Comparam
/-! line-protocol driver for the communication-parameter model and specification (property C15)

request  `(cp <layer> (gc (<name> <proto>) …) (acc (<proto> <choice> …) …))`
  `<layer>` = `(L <KIND> (insts <inst> …) (parents <layer> …))`
  `<inst>`  = `(I <tag> <id> <proto> <value> <spec>)`       `<proto>` = `-` | `<str>`
  `<value>` = `<str>` | `(v <value> …)`                     `<str>` = `x` + hex of the UTF-8 bytes
  `<spec>`  = `(S <name> <default>)` | `(C <name> (subs <spec> …) -|(v <value> …))`
  `<choice>` = tag of the instance the implementation's `get_comparam` chose for the n-th name of
              `accNames` under this protocol, or `-`
reply    `(refs <tag> …) (eff <tag> …) (gc <tag>|- …) (cand (<tag> …) …) (acc (<res> ×15) …) (sacc (<res>|? ×15) …)`
  `refs` model `comparam_refs` in order; `eff` the specification's effective definitions (sorted);
  `gc` model `get_comparam`; `cand` the specification's acceptable answers (sorted); `acc` model
  accessors per protocol; `sacc` specification accessors evaluated on the implementation's choices
  `<res>` = `-` | `(i n)` | `(b t|f)` | `(m f <neg> <mant> <exp>)` | `(m inf <neg>)` | `(m nan)` | `(e odx|foreign)` -/
open OdxVerif OdxVerif.Comparam OdxVerif.Gen

def parseKind (s : String) : Option LayerKind := LayerKind.all.find? fun k => k.odxName == s

def hexStr? (s : String) : Option String :=
  match s.toList with
  | 'x' :: cs => do
    let bs ← bytesOfHexChars cs
    String.fromUTF8? (ByteArray.mk (bs.map UInt8.ofNat).toArray)
  | _ => none

def parseStr : Sexp → Option String
  | .atom a => hexStr? a
  | _ => none

def parseProto : Sexp → Option (Option String)
  | .atom "-" => some none
  | s => (parseStr s).map some

partial def parseVal : Sexp → Option CVal
  | .atom a => (hexStr? a).map .str
  | .list (.atom "v" :: xs) => (xs.mapM parseVal).map .list
  | _ => none

partial def parseSpec : Sexp → Option CpSpec
  | .list [.atom "S", n, d] => do pure (.simple (← parseStr n) (← parseStr d))
  | .list [.atom "C", n, .list (.atom "subs" :: ss), d] => do
    let n ← parseStr n
    let ss ← ss.mapM parseSpec
    let d ← match d with
      | .atom "-" => some none
      | .list (.atom "v" :: xs) => (xs.mapM parseVal).map some
      | _ => none
    pure (.complex n ss d)
  | _ => none

def parseInst : Sexp → Option Inst
  | .list [.atom "I", t, i, p, v, s] => do
    pure ⟨← t.asNat?, ← parseStr i, ← parseProto p, ← parseVal v, ← parseSpec s⟩
  | _ => none

partial def parseLayer : Sexp → Option Layer
  | .list [.atom "L", .atom k, .list (.atom "insts" :: is), .list (.atom "parents" :: ps)] => do
    pure (.mk (← parseKind k) (← is.mapM parseInst) (← ps.mapM parseLayer))
  | _ => none

def tf (b : Bool) : String := if b then "t" else "f"
def tagStr : Option Inst → String
  | some c => toString c.tag
  | none => "-"

def decStr : Dec → String
  | .fin n m e => s!"(m f {tf n} {m} {e})"
  | .inf n => s!"(m inf {tf n})"
  | .nan => "(m nan)"

def resStr : Res → String
  | .none => "-"
  | .int i => s!"(i {i})"
  | .bool b => s!"(b {tf b})"
  | .micro d => decStr d
  | .err .odx => "(e odx)"
  | .err .foreign => "(e foreign)"

def sortedTags (cs : List Inst) : String :=
  let ts := (cs.map (·.tag)).toArray.qsort (· < ·) |>.toList.eraseDups
  " ".intercalate (ts.map toString)

/-- the short names the accessors look up, in the order of the `<choice>` lists -/
def accNames : List String :=
  ["CP_CANFDTxMaxDataLength", "CP_UniqueRespIdTable", "CP_Baudrate", "CP_CANFDBaudrate", "CP_CanFuncReqId",
   "CP_DoIPLogicalGatewayAddress", "CP_DoIPLogicalTesterAddress", "CP_DoIPLogicalFunctionalAddress",
   "CP_DoIPRoutingActivationTimeout", "CP_DoIPRoutingActivationType", "CP_TesterPresentTime"]

def handle (sx : Sexp) : String :=
  match sx with
  | .list [.atom "cp", l, .list (.atom "gc" :: qs), .list (.atom "acc" :: ps)] =>
    let qs? := qs.mapM fun
      | .list [n, p] => do pure ((← parseStr n), (← parseProto p))
      | _ => none
    let ps? : Option (List (Option String × List (Option Nat))) := ps.mapM fun
      | .list (p :: ch) => do pure ((← parseProto p), ch.map Sexp.asNat?)
      | _ => none
    match parseLayer l, qs?, ps? with
    | some L, some qs, some ps =>
      let refs := available L
      let all := allInsts L
      let gc := qs.map fun (n, p) => tagStr (getComparamIn refs n p)
      let cand := qs.map fun (n, p) => s!"({sortedTags (candidates L n p)})"
      let acc := ps.map fun (p, _) =>
        s!"({" ".intercalate (Acc.all.map fun a => resStr (accessor a fun n => getComparamIn refs n p))})"
      let sacc := ps.map fun (_, ch) =>
        let choice : String → Option Inst := fun n =>
          match (accNames.zip ch).find? (·.1 == n) with
          | some (_, some t) => all.find? (·.tag == t)
          | _ => none
        s!"({" ".intercalate (Acc.all.map fun a => match specAccessor a choice with | some r => resStr r | none => "?")})"
      s!"(refs {" ".intercalate (refs.map fun c => toString c.tag)}) (eff {sortedTags (effective L)}) " ++
      s!"(gc {" ".intercalate gc}) (cand {" ".intercalate cand}) (acc {" ".intercalate acc}) (sacc {" ".intercalate sacc})"
    | _, _, _ => "(bad-args)"
  | _ => "(bad-op)"

def main : IO Unit := driverMain handle
