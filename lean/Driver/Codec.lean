import OdxVerif.Model.CodecSexp
/-! line-protocol driver for the codec family (C01–C05, C08, C17); grammar in harness/odxgen/SEXP.md -/
open OdxVerif OdxVerif.Codec OdxVerif.Sexp

def errReply (e : Err) : String :=
  if e = .unmodelled then "(unsupported)" else s!"(err {e.name})"

def handleEmplace (fs : List Sexp) : Option String := do
  let bt ← reqField fs "bt" (atomP parseBaseType)
  let enc ← optField fs "enc" (atomP parseEnc)
  let bl ← reqField fs "bitlen" Sexp.asNat?
  let bp ← reqField fs "bitpos" Sexp.asNat?
  let hl ← reqField fs "hl" parseBool
  let mask ← optField fs "mask" (atomP bytesOfHex?)
  let pos ← reqField fs "pos" Sexp.asNat?
  let v ← reqField fs "v" parseIVal
  let strict ← reqField fs "strict" parseBool
  let pre ← field? fs "pre"
  let (m, u) ← (match pre with
    | [.atom a, .atom b] => do pure ((← bytesOfHex? a), (← bytesOfHex? b))
    | _ => none)
  let st : EncState := { msg := m, used := u, cursorByte := pos, cursorBit := bp }
  match emplaceAtomic v bl bt enc hl mask st strict with
  | .ok (_, s) => pure s!"(ok {hexAtom s.msg} {hexAtom s.used} (warn {if s.warn > 0 then "t" else "f"}) (cursor {s.cursorByte}))"
  | .error (e, _) => pure (errReply e)

def handleExtract (fs : List Sexp) : Option String := do
  let bt ← reqField fs "bt" (atomP parseBaseType)
  let enc ← optField fs "enc" (atomP parseEnc)
  let bl ← reqField fs "bitlen" Sexp.asNat?
  let bp ← reqField fs "bitpos" Sexp.asNat?
  let hl ← reqField fs "hl" parseBool
  let pos ← reqField fs "pos" Sexp.asNat?
  let m ← reqField fs "msg" (atomP bytesOfHex?)
  let strict ← reqField fs "strict" parseBool
  let st : DecState := { msg := m, cursorByte := pos, cursorBit := bp }
  match extractAtomic bl bt enc hl st strict with
  | .ok (v, s) => pure s!"(ok {printIVal v} (cursor {s.cursorByte}))"
  | .error (e, _) => pure (errReply e)

def handle (sx : Sexp) : String :=
  match sx with
  | .list (.atom "emplace" :: fs) => (handleEmplace fs).getD "(bad-args)"
  | .list (.atom "extract" :: fs) => (handleExtract fs).getD "(bad-args)"
  | _ => "(unsupported)"

def main : IO Unit := driverMain handle
