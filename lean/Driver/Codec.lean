import OdxVerif.Model.DescSexp
import OdxVerif.Spec.Layout
/-! line-protocol driver for the codec family (C01–C05, C08, C17); grammar in harness/odxgen/SEXP.md -/
open OdxVerif OdxVerif.Codec OdxVerif.Sexp

def errReply (e : Err) : String :=
  if e = .unmodelled then "(unsupported)" else s!"(err {e.name})"

def handleEmplace (fs : List Sexp) : Option String := do
  let bt ← reqField fs "bt" (atomP parseBaseType)
  let enc ← optField fs "enc" (atomP parseEnc)
  let bl ← reqField fs "bitlen" Sexp.asNat?
  let bp ← reqField fs "bitpos" Sexp.asNat?
  let hl ← reqField fs "hl" parseBool
  let mask ← optField fs "mask" (atomP bytesOfHex?)
  let pos ← reqField fs "pos" Sexp.asNat?
  let v ← reqField fs "v" parseIVal
  let strict ← reqField fs "strict" parseBool
  let pre ← field? fs "pre"
  let (m, u) ← (match pre with
    | [.atom a, .atom b] => do pure ((← bytesOfHex? a), (← bytesOfHex? b))
    | _ => none)
  let st : EncState := { msg := m, used := u, cursorByte := pos, cursorBit := bp }
  match emplaceAtomic v bl bt enc hl mask st strict with
  | .ok (_, s) => pure s!"(ok {hexAtom s.msg} {hexAtom s.used} (warn {if s.warn > 0 then "t" else "f"}) (cursor {s.cursorByte}))"
  | .error (e, _) => pure (errReply e)

def handleExtract (fs : List Sexp) : Option String := do
  let bt ← reqField fs "bt" (atomP parseBaseType)
  let enc ← optField fs "enc" (atomP parseEnc)
  let bl ← reqField fs "bitlen" Sexp.asNat?
  let bp ← reqField fs "bitpos" Sexp.asNat?
  let hl ← reqField fs "hl" parseBool
  let pos ← reqField fs "pos" Sexp.asNat?
  let m ← reqField fs "msg" (atomP bytesOfHex?)
  let strict ← reqField fs "strict" parseBool
  let st : DecState := { msg := m, cursorByte := pos, cursorBit := bp }
  match extractAtomic bl bt enc hl st strict with
  | .ok (v, s) => pure s!"(ok {printIVal v} (cursor {s.cursorByte}))"
  | .error (e, _) => pure (errReply e)

def strictOf (rest : List Sexp) : Bool :=
  match Sexp.field1? rest "strict" with
  | some (.atom "f") => false
  | _ => true

def trigOf (rest : List Sexp) : Option Bytes :=
  (Sexp.field1? rest "trig").bind fun t => t.asAtom?.bind bytesOfHex?

def handleEncode (desc pv : Sexp) (rest : List Sexp) : String :=
  match parseComposite desc, parsePVal pv with
  | some (bs, ps), some v =>
    (match encodeMessage bs ps v (trigOf rest) (strictOf rest) with
     | .ok (msg, w) => s!"(ok {hexAtom msg} (warn {if w > 0 then "t" else "f"}))"
     | .error e => errReply e)
  | _, _ => "(bad-args)"

def handleDecode (desc : Sexp) (msg : Sexp) (rest : List Sexp) : String :=
  match parseComposite desc, msg.asAtom?.bind bytesOfHex? with
  | some (bs, ps), some m =>
    (match decodeMessage bs ps m (strictOf rest) with
     | .ok (v, n) => s!"(ok {printPVal v} (consumed {n}))"
     | .error e => errReply e)
  | _, _ => "(bad-args)"

def handle (sx : Sexp) : String :=
  match sx with
  | .list (.atom "encode" :: desc :: pv :: rest) => handleEncode desc pv rest
  | .list (.atom "decode" :: desc :: msg :: rest) => handleDecode desc msg rest
  | .list (.atom "layout" :: desc :: pv :: rest) =>
    (match parseComposite desc, parsePVal pv with
     | some (bs, ps), some v =>
       (match Spec.layoutMessage bs ps v (trigOf rest) with
        | some (pdu, ov) => s!"(ok {hexAtom pdu} (overlap {if ov then "t" else "f"}))"
        | none => "(unsupported)")
     | _, _ => "(bad-args)")
  | .list [.atom "staticlen", desc] =>
    (match parseComposite desc with
     | some (bs, ps) =>
       if !paramsSupported ps then "(unsupported)"
       else (match (Dop.struct bs ps).staticBitLen with | some n => s!"(some {n})" | none => "(none)")
     | none => "(bad-args)")
  | .list (.atom "prefix" :: desc :: rest) =>
    (match parseComposite desc with
     | some (_, ps) => (match constPrefix ps ((trigOf rest).getD []) true with
        | .ok b => s!"(ok {hexAtom b})" | .error e => errReply e)
     | none => "(bad-args)")
  | .list (.atom "emplace" :: fs) => (handleEmplace fs).getD "(bad-args)"
  | .list (.atom "extract" :: fs) => (handleExtract fs).getD "(bad-args)"
  | _ => "(unsupported)"

def main : IO Unit := driverMain handle
