import OdxVerif.Common.Sexp
import OdxVerif.Spec.Visible
/-! line-protocol driver for the value-inheritance model and specification (property C09)

request  `(inherit <layer> (names n …))`
         `<layer>` = `(L <id> <KIND> (locals (<name> <tag>) …) (parents (<layer> <excluded name> …) …))`
reply    `(model (ok (<name> <tag>) …)|(err odx)) (spec (wf t|f) (conflict t|f) (vis (<name> <tag>|none) …))`
         the model's view is in dictionary order (the order of the `NamedItemList` odxtools builds) -/
open OdxVerif OdxVerif.Inherit OdxVerif.Gen

def parseKind (s : String) : Option LayerKind := LayerKind.all.find? fun k => k.odxName == s

def parseObj : Sexp → Option Obj
  | .list [a, b] => do pure ⟨← a.asNat?, ← b.asNat?⟩
  | _ => none

partial def parseLayer : Sexp → Option Layer
  | .list [.atom "L", nm, .atom k, .list (.atom "locals" :: ls), .list (.atom "parents" :: ps)] => do
    let nm ← nm.asNat?
    let k ← parseKind k
    let ls ← ls.mapM parseObj
    let ps ← ps.mapM fun
      | .list (l :: ex) => do
        let l ← parseLayer l
        let ex ← ex.mapM Sexp.asNat?
        pure (l, ex)
      | _ => none
    pure (.mk nm k ls ps)
  | _ => none

def objStr (o : Obj) : String := s!"({o.name} {o.tag})"
def tf (b : Bool) : String := if b then "t" else "f"

def handle (sx : Sexp) : String :=
  match sx with
  | .list [.atom "inherit", l, .list (.atom "names" :: ns)] =>
    match parseLayer l, ns.mapM Sexp.asNat? with
    | some L, some ns =>
      let m := match computeAvailable L with
        | .ok objs => s!"(ok {" ".intercalate (objs.map objStr)})"
        | .error .odx => "(err odx)"
      let vis := ns.map fun n => match visible odxRank L n with
        | some o => objStr o
        | none => s!"({n} none)"
      s!"(model {m}) (spec (wf {tf (wfB L)}) (conflict {tf (conflict odxRank L)}) (vis {" ".intercalate vis}))"
    | _, _ => "(bad-args)"
  | _ => "(bad-op)"

def main : IO Unit := driverMain handle
