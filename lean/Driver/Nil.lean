import OdxVerif.Common.Sexp
import OdxVerif.Model.Nil
/-! line-protocol driver for the NamedItemList model (property C16)

  request : `(nil (kw k…) (reserved r…) (hists (h <from> op…) …))`
            op = `(append I)` `(insert i I)` `(extend I…)` `(remove I)` `(pop i)` `(clear)` `(copy)` `(copy2)`
                 `(deepcopy stride)` `(pickle stride)`;  item `I = (oid shortname eqclass)`; `-` = empty name
  reply   : one trace per history joined by `;` — per step (from index `from` on)
            `(outcome (items oid…) (names (key oid)…) (attr a…) (len n))`,
            `attr` = `getattr` of every key in order (`own` | oid | `missing`) -/
open OdxVerif OdxVerif.Nil

def nameOf (s : String) : Name := if s == "-" then [] else s.toList
def nameStr (n : Name) : String := if n.isEmpty then "-" else String.ofList n

def parseItem : Sexp → Option Item
  | .list [a, b, c] => do
    let oid ← a.asNat?
    let sn ← b.asAtom?
    let e ← c.asNat?
    pure ⟨oid, nameOf sn, e⟩
  | _ => none

def parseOp : Sexp → Option Op
  | .list [.atom "append", x] => Op.append <$> parseItem x
  | .list [.atom "insert", i, x] => do pure (Op.insert (← i.asInt?) (← parseItem x))
  | .list (.atom "extend" :: xs) => Op.extend <$> xs.mapM parseItem
  | .list [.atom "remove", x] => Op.remove <$> parseItem x
  | .list [.atom "pop", i] => Op.pop <$> i.asInt?
  | .list [.atom "clear"] => some Op.clear
  | .list [.atom "copy"] => some Op.copy
  | .list [.atom "copy2"] => some Op.copy2
  | .list [.atom "deepcopy", k] => Op.deepcopy <$> k.asNat?
  | .list [.atom "pickle", k] => Op.pickle <$> k.asNat?
  | _ => none

def outcomeStr : Outcome → String
  | .ok => "ok" | .raised => "foreign" | .diverged => "diverged"

def attrStr : Attr → String
  | .own => "own" | .item x => toString x.oid | .missing => "missing"

def stateStr (env : Env) (r : State × Outcome) : String :=
  let s := r.1
  let items := " ".intercalate (s.items.map fun x => toString x.oid)
  let names := " ".intercalate (s.names.map fun kv => s!"({nameStr kv.1} {kv.2.oid})")
  let attrs := " ".intercalate (s.names.map fun kv => attrStr (getattr env s kv.1))
  let gets := " ".intercalate (s.names.map fun kv =>
    match lookup s.names kv.1 with | some x => toString x.oid | none => "missing")
  s!"({outcomeStr r.2} (items {items}) (names {names}) (attr {attrs}) (get {gets}) (len {s.items.length}))"

def histStr (env : Env) : Sexp → String
  | .list (.atom "h" :: frm :: ops) =>
    match frm.asNat?, ops.mapM parseOp with
    | some k, some ops => " ".intercalate (((trace env State.empty ops).drop k).map (stateStr env))
    | _, _ => "(bad-args)"
  | _ => "(bad-args)"

def handle (sx : Sexp) : String :=
  match sx with
  | .list (.atom "nil" :: fields) =>
    match Sexp.field? fields "kw", Sexp.field? fields "reserved", Sexp.field? fields "hists" with
    | some kw, some rs, some hs =>
      match kw.mapM Sexp.asAtom?, rs.mapM Sexp.asAtom? with
      | some kw, some rs =>
        let env : Env := ⟨kw.map nameOf, rs.map nameOf⟩
        ";".intercalate (hs.map (histStr env))
      | _, _ => "(bad-args)"
    | _, _, _ => "(bad-args)"
  | _ => "(bad-op)"

def main : IO Unit := driverMain handle
