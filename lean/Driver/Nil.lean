import OdxVerif.Common.Sexp
/-! driver stub for the nil family (to be written) -/
open OdxVerif
def main : IO Unit := driverMain fun _ => "(not-implemented)"
