import OdxVerif.Spec.Variant
/-! line-protocol driver for the variant-identification model (property C14)

    (run (strict t|f) (cache t|f) (cands <var>…) (ecu (p|f <req> <resp>)…) (script (auto) | (sess (ev <hex>)|skip …) …))
      → (ok (sess (trace (p|f <req>)…) done|abandoned|err-odx|err-runtime|err-foreign)… (final (pending t|f)
             (has_match t|f|err-runtime) (match none|<i>) (recent none|<hex>) (cache (p|f <req> <resp>)…)))
    (spec (cands …) (ecu …)) → (spec (match none|<i>) (matches t|f …))
    <var>  = (var ecu|base|other (pats (pat <mp>…)…) (svcs <svc>…))
    <mp>   = (mp <exp> <svc> none|(some <snref>) none|(some <path>) plain|bnone|btrue|bfalse)
    <svc>  = (svc <name> (ok <req>)|(err odx|foreign) (n <k>) (dec (<resp> <outcome>…)…))
    <outcome> = (val <v>) | (decerr) | (raise odx|foreign)
    <v>    = (s <hex>) (i <int>) (b t|f) (n) (y <hex>) (dtc <n>) (d (<key> <v>)…) (l <render> <v>…) (t <render> <v>…)
    all texts and byte strings are hex atoms ("-" = empty) -/
open OdxVerif OdxVerif.Variant

def hexOf? (x : Sexp) : Option Bytes := x.asAtom?.bind bytesOfHex?

partial def parseVal : Sexp → Option PVal
  | .list [.atom "s", h] => (hexOf? h).map .str
  | .list [.atom "i", n] => n.asInt?.map .int
  | .list [.atom "b", .atom "t"] => some (.bool true)
  | .list [.atom "b", .atom "f"] => some (.bool false)
  | .list [.atom "n"] => some .none
  | .list [.atom "y", h] => (hexOf? h).map .bytes
  | .list [.atom "dtc", n] => n.asNat?.map .dtc
  | .list (.atom "d" :: kvs) => do
    let kv ← kvs.mapM fun
      | .list [k, v] => do pure ((← hexOf? k), (← parseVal v))
      | _ => none
    pure (.dict kv)
  | .list (.atom "l" :: r :: xs) => do pure (.list (← hexOf? r) (← xs.mapM parseVal))
  | .list (.atom "t" :: r :: xs) => do pure (.tuple (← hexOf? r) (← xs.mapM parseVal))
  | _ => none

def parseOutcome : Sexp → Option DecOutcome
  | .list [.atom "val", v] => (parseVal v).map .val
  | .list [.atom "decerr"] => some .decodeError
  | .list [.atom "raise", .atom "odx"] => some (.raises .odx)
  | .list [.atom "raise", .atom "foreign"] => some (.raises .foreign)
  | _ => none

def parseOptStr : Sexp → Option (Option Str)
  | .atom "none" => some none
  | .list [.atom "some", h] => (hexOf? h).map some
  | _ => none

def parseMp : Sexp → Option MParam
  | .list [.atom "mp", e, s, r, pth, ph] => do
    let raw ← match ph with
      | .atom "plain" => some none
      | .atom "bnone" => some (some none)
      | .atom "btrue" => some (some (some true))
      | .atom "bfalse" => some (some (some false))
      | _ => none
    pure ⟨← hexOf? e, ← hexOf? s, ← parseOptStr r, ← parseOptStr pth, raw⟩
  | _ => none

def parseSvc : Sexp → Option Service
  | .list [.atom "svc", name, req, .list [.atom "n", k], .list (.atom "dec" :: rows)] => do
    let req : Except Err Bytes ← match req with
      | .list [.atom "ok", h] => (hexOf? h).map .ok
      | .list [.atom "err", .atom "odx"] => some (.error .odx)
      | .list [.atom "err", .atom "foreign"] => some (.error .foreign)
      | _ => none
    let k ← k.asNat?
    let table ← rows.mapM fun
      | .list (h :: outs) => do pure ((← hexOf? h), (← outs.mapM parseOutcome))
      | _ => none
    pure ⟨← hexOf? name, req, fun r => (table.lookup r).getD (List.replicate k .decodeError)⟩
  | _ => none

def parseVar : Sexp → Option Variant
  | .list [.atom "var", .atom kind, .list (.atom "pats" :: pats), .list (.atom "svcs" :: svcs)] => do
    let pats ← pats.mapM fun
      | .list (.atom "pat" :: mps) => mps.mapM parseMp
      | _ => none
    let svcs ← svcs.mapM parseSvc
    let layer ← match kind, pats with
      | "ecu", ps => some (Layer.ecu ps)
      | "base", [] => some (Layer.base none)
      | "base", [p] => some (Layer.base (some p))
      | "other", _ => some Layer.other
      | _, _ => none
    pure ⟨layer, svcs⟩
  | _ => none

def parseBool : Sexp → Option Bool
  | .atom "t" => some true
  | .atom "f" => some false
  | _ => none

def parseEcu (rows : List Sexp) : Option (List (Req × Bytes)) :=
  rows.mapM fun
    | .list [.atom a, q, r] => do
      let ph ← (if a == "p" then some true else if a == "f" then some false else none)
      pure ((ph, ← hexOf? q), ← hexOf? r)
    | _ => none

inductive Sess where
  | auto
  | inputs (is : List (Option Bytes))

def parseSess : Sexp → Option Sess
  | .list [.atom "auto"] => some .auto
  | .list (.atom "sess" :: is) => do
    let is ← is.mapM fun
      | .atom "skip" => some none
      | .list [.atom "ev", h] => (hexOf? h).map some
      | _ => none
    pure (.inputs is)
  | _ => none

def reqStr (r : Req) : String := s!"({if r.1 then "p" else "f"} {hexAtom r.2})"

def errStr : Err → String
  | .odx => "err-odx"
  | .runtime => "err-runtime"
  | .foreign => "err-foreign"

def runSessions (c : Config) (cands : List Variant) (ecu : Req → Bytes) : List Sess → MState → List String → List String × MState
  | [], s, acc => (acc.reverse, s)
  | .auto :: rest, s, acc =>
    let x := (requestLoop c cands s).run ecu
    let o := match x.result with | .ok _ => "done" | .error e => errStr e
    runSessions c cands ecu rest x.final (s!"(sess (trace {" ".intercalate (x.trace.map reqStr)}) {o})" :: acc)
  | .inputs is :: rest, s, acc =>
    let x := (requestLoop c cands s).runScript is
    let o := match x.result with | none => "abandoned" | some (.ok _) => "done" | some (.error e) => errStr e
    runSessions c cands ecu rest x.final (s!"(sess (trace {" ".intercalate (x.trace.map reqStr)}) {o})" :: acc)

def finalStr (s : MState) : String :=
  let hm := match hasMatch s with | .ok true => "t" | .ok false => "f" | .error e => errStr e
  let m := match s.matching with | none => "none" | some i => toString i
  let cache := " ".intercalate (s.cache.map fun (k, v) => s!"({if k.1 then "p" else "f"} {hexAtom k.2} {hexAtom v})")
  let recent := match s.recent with | none => "none" | some b => hexAtom b
  s!"(final (pending {if s.state = .pending then "t" else "f"}) (has_match {hm}) (match {m}) (recent {recent}) (cache {cache}))"

def handle (sx : Sexp) : String :=
  match sx with
  | .list (.atom "run" :: fields) =>
    match Sexp.field1? fields "strict", Sexp.field1? fields "cache", Sexp.field? fields "cands",
          Sexp.field? fields "ecu", Sexp.field? fields "script" with
    | some st, some ca, some cands, some ecu, some script =>
      match parseBool st, parseBool ca, cands.mapM parseVar, parseEcu ecu, script.mapM parseSess with
      | some st, some ca, some cands, some tbl, some script =>
        let ecuF : Req → Bytes := fun r => (tbl.lookup r).getD []
        let (ss, fin) := runSessions ⟨st, ca⟩ cands ecuF script {} []
        s!"(ok {" ".intercalate ss} {finalStr fin})"
      | _, _, _, _, _ => "(bad-args)"
    | _, _, _, _, _ => "(bad-args)"
  | .list (.atom "spec" :: fields) =>
    match Sexp.field? fields "cands", Sexp.field? fields "ecu" with
    | some cands, some ecu =>
      match cands.mapM parseVar, parseEcu ecu with
      | some cands, some tbl =>
        let ecuF : Req → Bytes := fun r => (tbl.lookup r).getD []
        -- as in `C14_first_match_general`: a candidate that is no variant ends the list
        let m := match Spec.identify ecuF (cands.takeWhile fun v => v.patterns?.isSome) with | none => "none" | some i => toString i
        let ms := cands.map fun v => if Spec.variantMatches ecuF v then "t" else "f"
        s!"(spec (match {m}) (matches {" ".intercalate ms}))"
      | _, _ => "(bad-args)"
    | _, _ => "(bad-args)"
  | _ => "(bad-op)"

def main : IO Unit := driverMain handle
