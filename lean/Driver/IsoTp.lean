import OdxVerif.Model.IsoTp
/-! line-protocol driver for the ISO-TP model (properties C12, C13) -/
open OdxVerif OdxVerif.IsoTp

def evStr : Ev → String
  | .single p => s!"(single {hexAtom p})"
  | .first => "(first)"
  | .consec sn => s!"(consec {sn})"
  | .flow f => s!"(flow {f})"
  | .seqErr e r => s!"(seqerr {e} {r})"
  | .typeErr ft => s!"(typeerr {ft})"
  | .complete p => s!"(complete {hexAtom p})"
  | .tele p => s!"(tele {hexAtom p})"

def slotStr (s : Slot) : String :=
  let d := match s.data with | none => "none" | some d => hexAtom d
  s!"({s.specLen} {d} {s.last})"

def parseFrames (xs : List Sexp) : Option (List (Nat × Bytes)) :=
  xs.mapM fun
    | .list [a, b] => do
      let i ← a.asNat?
      let h ← b.asAtom?
      let bs ← bytesOfHex? h
      pure (i, bs)
    | _ => none

def activeRun (rx tx : List Nat) (padSize padVal : Nat) :
    St → List ActSlot → List (Nat × Bytes) → List String → List String
  | _, _, [], acc => acc.reverse
  | st, as, f :: fs, acc =>
    let r := feed st f
    match slotIndex rx f.1 with
    | none => activeRun rx tx padSize padVal r.1 as fs acc
    | some k =>
      let a := actOnAll padSize padVal (as.getD k {}) (r.2.map (·.2))
      let sent := a.2.map fun p => s!"(send {tx.getD k 0} {hexAtom p})"
      let evs := r.2.map fun e => s!"(ev {e.1} {evStr e.2})"
      activeRun rx tx padSize padVal r.1 (as.set k a.1) fs ((sent ++ evs).reverse ++ acc)

def handle (sx : Sexp) : String :=
  match sx with
  | .list (.atom "isotp" :: fields) =>
    match Sexp.field? fields "ids", Sexp.field? fields "frames" with
    | some ids, some frs =>
      match ids.mapM Sexp.asNat?, parseFrames frs with
      | some ids, some frs =>
        let r := feedAll (St.init ids) frs
        let evs := r.2.map fun e => s!"({e.1} {evStr e.2})"
        s!"(ok (events {" ".intercalate evs}) (slots {" ".intercalate (r.1.slots.map slotStr)}))"
      | _, _ => "(bad-args)"
    | _, _ => "(bad-args)"
  | .list (.atom "isotp-active" :: fields) =>
    match Sexp.field? fields "rx", Sexp.field? fields "tx", Sexp.field? fields "pad", Sexp.field? fields "frames" with
    | some rx, some tx, some [ps, pv], some frs =>
      match rx.mapM Sexp.asNat?, tx.mapM Sexp.asNat?, ps.asNat?, pv.asNat?, parseFrames frs with
      | some rx, some tx, some ps, some pv, some frs =>
        let out := activeRun rx tx ps pv (St.init rx) (rx.map fun _ => {}) frs []
        s!"(ok {" ".intercalate out})"
      | _, _, _, _, _ => "(bad-args)"
    | _, _, _, _ => "(bad-args)"
  | _ => "(bad-op)"

def main : IO Unit := driverMain handle
