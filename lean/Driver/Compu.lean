import OdxVerif.Common.Sexp
import OdxVerif.Model.Compu
/-! line-protocol driver for the compu-method model (properties C07, C03).

    request  `(compu (cat LINEAR) (ity A_UINT32) (pty A_FLOAT64) (i2p (scales <scale>…) (default <val>)?) (p2i …)?
               (q (i2p <val>) (p2i <val>) (vi <val>) (vp <val>) …))`
    scale    `(scale (lo (<CLOSED|OPEN|INFINITE|none> <val|none>))? (hi …)? (inv <val>)? (const <val>)? (num r…)? (den r…)?)`
    val      `(i -5)` | `(f 5/2)` | `(s <hex of utf-8, "-" if empty>)`;  r = `n/d` or `n`
    reply    `(r <res>…)`, res = `(ok <val>)` | `(ok t)` | `(ok f)` | `(err decode|encode|odx|foreign)`;
             `(build (err <class>))` when the constructor rejects the description.
    Format produced/consumed by harness/compu_lib.py. -/
open OdxVerif OdxVerif.Compu

def parseRat (s : String) : Option Rat :=
  match s.splitOn "/" with
  | [n] => n.toInt?.map fun z => (z : Rat)
  | [n, d] => do
    let z ← n.toInt?
    let k ← d.toNat?
    if k = 0 then none else pure (mkRat z k)
  | _ => none

def utf8Decode? (bs : Bytes) : Option String :=
  let ba : ByteArray := ⟨(bs.map fun b => b.toUInt8).toArray⟩
  String.fromUTF8? ba

def parseVal : Sexp → Option Val
  | .list [.atom "i", .atom n] => n.toInt?.map Val.int
  | .list [.atom "f", .atom q] => (parseRat q).map Val.flt
  | .list [.atom "s", .atom h] => do
    let bs ← bytesOfHex? h
    let s ← utf8Decode? bs
    pure (Val.str s)
  | _ => none

def parseDType (s : String) : Option DType :=
  match s with
  | "A_INT32" => some .int32
  | "A_UINT32" => some .uint32
  | "A_FLOAT32" => some .float32
  | "A_FLOAT64" => some .float64
  | "A_UNICODE2STRING" | "A_UTF8STRING" | "A_ASCIISTRING" => some .str
  | _ => none

def parseCat (s : String) : Option Cat :=
  match s with
  | "IDENTICAL" => some .identical
  | "LINEAR" => some .linear
  | "SCALE-LINEAR" => some .scaleLinear
  | "TAB-INTP" => some .tabIntp
  | "RAT-FUNC" => some .ratFunc
  | "SCALE-RAT-FUNC" => some .scaleRatFunc
  | "TEXTTABLE" => some .textTable
  | "COMPUCODE" => some .compuCode
  | _ => none

def parseLimit : Sexp → Option Limit
  | .list [.atom t, v] => do
    let it ← match t with
      | "none" => some none
      | "CLOSED" => some (some IType.closed)
      | "OPEN" => some (some IType.open_)
      | "INFINITE" => some (some IType.infinite)
      | _ => none
    let value ← match v with
      | .atom "none" => some none
      | x => (parseVal x).map some
    pure { value := value, itype := it }
  | _ => none

/-- an optional field: absent → `some none`, present and well-formed → `some (some x)`, malformed → `none` -/
def optField {α} (fields : List Sexp) (key : String) (p : Sexp → Option α) : Option (Option α) :=
  match Sexp.field? fields key with
  | none => some none
  | some [x] => (p x).map some
  | some _ => none

def parseScale : Sexp → Option Scale
  | .list (.atom "scale" :: fields) => do
    let lo ← optField fields "lo" parseLimit
    let hi ← optField fields "hi" parseLimit
    let inv ← optField fields "inv" parseVal
    let const ← optField fields "const" parseVal
    let coeffs ← match Sexp.field? fields "num" with
      | none => some none
      | some ns => do
        let n ← ns.mapM fun x => x.asAtom?.bind parseRat
        let d ← ((Sexp.field? fields "den").getD []).mapM fun x => x.asAtom?.bind parseRat
        pure (some (n, d))
    pure { lo := lo, hi := hi, inv := inv, const := const, coeffs := coeffs }
  | _ => none

def parseSide (fields : List Sexp) (key : String) : Option (Option Side) :=
  match Sexp.field? fields key with
  | none => some none
  | some sub => do
    let scs ← Sexp.field? sub "scales"
    let scales ← scs.mapM parseScale
    let dflt ← optField sub "default" parseVal
    pure (some { scales := scales, default := dflt })

def parseDesc (fields : List Sexp) : Option Desc := do
  let cat ← (Sexp.field1? fields "cat").bind Sexp.asAtom? |>.bind parseCat
  let ity ← (Sexp.field1? fields "ity").bind Sexp.asAtom? |>.bind parseDType
  let pty ← (Sexp.field1? fields "pty").bind Sexp.asAtom? |>.bind parseDType
  let i2p ← parseSide fields "i2p"
  let p2i ← parseSide fields "p2i"
  pure { cat := cat, ity := ity, pty := pty, i2p := i2p, p2i := p2i }

def ratStr (q : Rat) : String := s!"{q.num}/{q.den}"

def utf8Hex (s : String) : String := hexAtom (s.toUTF8.toList.map (·.toNat))

def valStr : Val → String
  | .int z => s!"(i {z})"
  | .flt q => s!"(f {ratStr q})"
  | .str s => s!"(s {utf8Hex s})"

def errStr : Err → String
  | .encode => "(err encode)"
  | .decode => "(err decode)"
  | .odx => "(err odx)"
  | .foreign => "(err foreign)"

def resVal : R Val → String
  | .ok v => s!"(ok {valStr v})"
  | .error e => errStr e

def resBool : R Bool → String
  | .ok true => "(ok t)"
  | .ok false => "(ok f)"
  | .error e => errStr e

def runQuery (m : Method) : Sexp → String
  | .list [.atom op, v] =>
    match parseVal v with
    | none => "(bad-val)"
    | some x =>
      match op with
      | "i2p" => resVal (m.i2p x)
      | "p2i" => resVal (m.p2i x)
      | "vi" => resBool (m.validI x)
      | "vp" => resBool (m.validP x)
      | _ => "(bad-op)"
  | _ => "(bad-query)"

def handle (sx : Sexp) : String :=
  match sx with
  | .list (.atom "compu" :: fields) =>
    match parseDesc fields, Sexp.field? fields "q" with
    | some d, some qs =>
      match build d with
      | .error e => s!"(build {errStr e})"
      | .ok m => s!"(r {" ".intercalate (qs.map (runQuery m))})"
    | _, _ => "(bad-args)"
  | _ => "(bad-op)"

def main : IO Unit := driverMain handle
