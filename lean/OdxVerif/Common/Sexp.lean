/-! S-expressions: the line protocol between the Python harness and the Lean model drivers.
    Atoms are runs of characters other than whitespace and parentheses. Core Lean only. -/
namespace OdxVerif

inductive Sexp where
  | atom (s : String)
  | list (xs : List Sexp)
deriving Repr, Inhabited, BEq

namespace Sexp

inductive Tok where
  | lp | rp | at (s : String)
deriving Repr, BEq

def tokenize (s : String) : List Tok :=
  let flush (cur : List Char) (acc : List Tok) : List Tok :=
    if cur.isEmpty then acc else Tok.at (String.ofList cur.reverse) :: acc
  let rec go (cs : List Char) (cur : List Char) (acc : List Tok) : List Tok :=
    match cs with
    | [] => (flush cur acc).reverse
    | c :: rest =>
      if c == '(' then go rest [] (Tok.lp :: flush cur acc)
      else if c == ')' then go rest [] (Tok.rp :: flush cur acc)
      else if c == ' ' || c == '\t' || c == '\n' || c == '\r' then go rest [] (flush cur acc)
      else go rest (c :: cur) acc
  go s.toList [] []

/-- parse with an explicit stack of open lists; total -/
def parseToks : List Tok → List (List Sexp) → Option Sexp
  | [], [[x]] => some x
  | [], _ => none
  | Tok.lp :: rest, stack => parseToks rest ([] :: stack)
  | Tok.rp :: rest, top :: below :: stack => parseToks rest ((Sexp.list top.reverse :: below) :: stack)
  | Tok.rp :: _, _ => none
  | Tok.at s :: rest, top :: stack => parseToks rest ((Sexp.atom s :: top) :: stack)
  | Tok.at _ :: _, [] => none

def parse (s : String) : Option Sexp := parseToks (tokenize s) [[]]

partial def toString : Sexp → String
  | atom s => s
  | list xs => "(" ++ " ".intercalate (xs.map toString) ++ ")"

instance : ToString Sexp := ⟨Sexp.toString⟩

def asAtom? : Sexp → Option String
  | atom s => some s
  | _ => none

def asList? : Sexp → Option (List Sexp)
  | list xs => some xs
  | _ => none

def asNat? (x : Sexp) : Option Nat := x.asAtom?.bind String.toNat?
def asInt? (x : Sexp) : Option Int := x.asAtom?.bind String.toInt?

/-- `(key v1 v2 …)` lookup inside a list of fields -/
def field? (xs : List Sexp) (key : String) : Option (List Sexp) :=
  xs.findSome? fun
    | list (atom k :: vs) => if k == key then some vs else none
    | _ => none

def field1? (xs : List Sexp) (key : String) : Option Sexp :=
  match field? xs key with
  | some [v] => some v
  | _ => none

end Sexp

/-! hex strings for byte lists; bytes are `Nat` < 256 in the models -/
abbrev Byte := Nat
abbrev Bytes := List Nat

def hexDigit (n : Nat) : Char :=
  if n < 10 then Char.ofNat (48 + n) else Char.ofNat (87 + n)

def hexOfBytes (bs : Bytes) : String :=
  String.ofList (bs.flatMap fun b => [hexDigit (b / 16 % 16), hexDigit (b % 16)])

def hexVal? (c : Char) : Option Nat :=
  if '0' ≤ c ∧ c ≤ '9' then some (c.toNat - 48)
  else if 'a' ≤ c ∧ c ≤ 'f' then some (c.toNat - 87)
  else if 'A' ≤ c ∧ c ≤ 'F' then some (c.toNat - 55)
  else none

def bytesOfHexChars : List Char → Option Bytes
  | [] => some []
  | [_] => none
  | a :: b :: rest => do
    let x ← hexVal? a
    let y ← hexVal? b
    let r ← bytesOfHexChars rest
    pure ((x * 16 + y) :: r)

/-- "-" denotes the empty byte string on the wire (an atom cannot be empty) -/
def bytesOfHex? (s : String) : Option Bytes :=
  if s == "-" then some [] else bytesOfHexChars s.toList

def hexAtom (bs : Bytes) : String := if bs.isEmpty then "-" else hexOfBytes bs

/-- generic driver loop: one request line in, one reply line out -/
partial def driverLoop (h : IO.FS.Stream) (out : IO.FS.Stream) (handle : Sexp → String) : IO Unit := do
  let line ← h.getLine
  if line.isEmpty then return ()
  let reply := match Sexp.parse line with
    | some sx => handle sx
    | none => "(bad-line)"
  out.putStrLn reply
  driverLoop h out handle

def driverMain (handle : Sexp → String) : IO Unit := do
  let i ← IO.getStdin
  let o ← IO.getStdout
  driverLoop i o handle
  o.flush

end OdxVerif
