/-! # Model of ODXLINK / short-name reference resolution (property C10)

Mirrors `odxtools/odxlink.py` (`OdxDocFragment`, `OdxLinkId`, `OdxLinkRef`, `OdxLinkDatabase.update /
resolve / resolve_lenient`, `resolve_snref`), the import-reference step of
`odxtools/diaglayers/diaglayer.py: DiagLayer._resolve_odxlinks`, the phase order of
`odxtools/database.py: Database.refresh` and `odxtools/utils.py: retarget_snrefs`.

Two levels:
* a *value* level (`Db` = what a database stores, insertion ordered) on which `update`, `resolve`,
  `resolveSnref` are defined, and
* a *heap* level (`Heap`, `DbObj`) which makes the aliasing of the per-fragment dictionaries explicit, so
  that `copy(odxlinks)` has a meaning: `copyFixed` is the `OdxLinkDatabase.__copy__` of the repaired code
  (fixes/c10-odxlinkdatabase-copy.patch), `copyAlias` is what `copy.copy` did at the pinned commit.

Core Lean only. -/
namespace OdxVerif.OdxLink

/-- `OdxDocFragment(doc_name, doc_type)` — a frozen dataclass, compared by value -/
structure Frag where
  name : String
  ty : String
deriving DecidableEq, Repr

/-- what the model keeps of a Python object: its identity, the classes `isinstance` succeeds for,
    and its `short_name` -/
structure Obj where
  uid : Nat
  classes : List String
  name : String
deriving DecidableEq, Repr

/-- `OdxLinkId(local_id, doc_fragments)` -/
structure Id where
  localId : String
  frags : List Frag
deriving DecidableEq, Repr

/-- `OdxLinkRef(ref_id, ref_docs)` -/
structure Ref where
  refId : String
  docs : List Frag
deriving DecidableEq, Repr

/-- exception classes that reference resolution can raise: `KeyError` and `OdxError` -/
inductive Err where
  | key
  | odx
deriving DecidableEq, Repr

/-! ## Python `dict` as an insertion-ordered association list -/
section Dict
variable {κ ν : Type} [DecidableEq κ]

/-- `d.get(k)` -/
def dget : List (κ × ν) → κ → Option ν
  | [], _ => none
  | (k', v) :: r, k => if k' = k then some v else dget r k

/-- `d[k] = v` (an existing key keeps its position) -/
def dset (k : κ) (v : ν) : List (κ × ν) → List (κ × ν)
  | [] => [(k, v)]
  | (k', v') :: r => if k' = k then (k', v) :: r else (k', v') :: dset k v r

/-- `d.setdefault(k, v)` -/
def dsetDefault (k : κ) (v : ν) : List (κ × ν) → List (κ × ν)
  | [] => [(k, v)]
  | (k', v') :: r => if k' = k then (k', v') :: r else (k', v') :: dsetDefault k v r

end Dict

/-- the dictionary of one document fragment: local id ↦ object -/
abbrev FragDb := List (String × Obj)
/-- `OdxLinkDatabase._db` by value: document fragment ↦ (local id ↦ object) -/
abbrev Db := List (Frag × FragDb)

/-- the object stored under local id `i` in fragment `f` -/
def stored (db : Db) (f : Frag) (i : String) : Option Obj :=
  match dget db f with
  | none => none
  | some fd => dget fd i

/-- the store `self._db[doc_frag][local_id] = obj` / `.setdefault(local_id, obj)` of `update` -/
def storeIn (ow : Bool) (lid : String) (o : Obj) (fd : FragDb) : FragDb :=
  if ow then dset lid o fd else dsetDefault lid o fd

/-- `if doc_frag not in self._db: self._db[doc_frag] = {}` followed by `self._db[doc_frag]` -/
def fragDict (db : Db) (f : Frag) : FragDb :=
  match dget db f with
  | some fd => fd
  | none => []

/-- inner loop of `update`: `for doc_frag in odx_id.doc_fragments` -/
def updateFrags (ow : Bool) (lid : String) (o : Obj) : List Frag → Db → Db
  | [], db => db
  | f :: fs, db => updateFrags ow lid o fs (dset f (storeIn ow lid o (fragDict db f)) db)

/-- `OdxLinkDatabase.update(new_entries, overwrite=ow)`; `entries` = `new_entries.items()` -/
def update (db : Db) (entries : List (Id × Obj)) (ow : Bool) : Db :=
  entries.foldl (fun db e => updateFrags ow e.1.localId e.2 e.1.frags db) db

/-- `isinstance(obj, expected_type)`; `expected_type=None` means no check -/
def Obj.isInst (o : Obj) : Option String → Bool
  | none => true
  | some c => o.classes.contains c

/-- the loop `for ref_frag in reversed(ref.ref_docs)` of `resolve`, over the already reversed list -/
def findIn (db : Db) (rid : String) : List Frag → Option Obj
  | [] => none
  | f :: fs =>
    match dget db f with
    | none => findIn db rid fs            -- unknown fragment: warning, `continue`
    | some fd =>
      match dget fd rid with
      | some o => some o                  -- `if (obj := doc_frag_db.get(ref.ref_id)) is not None`
      | none => findIn db rid fs

/-- `odxassert(isinstance(obj, expected_type))` then `return obj` -/
def typed (o : Obj) (exp : Option String) (strict : Bool) : Except Err (Option Obj) :=
  if o.isInst exp then .ok (some o) else if strict then .error .odx else .ok (some o)

/-- `OdxLinkDatabase.resolve(ref, expected_type)`; `.ok none` = returned `None` (non-strict mode only) -/
def resolve (db : Db) (r : Ref) (exp : Option String) (strict : Bool) : Except Err (Option Obj) :=
  match findIn db r.refId r.docs.reverse with
  | some o => typed o exp strict
  | none => if strict then .error .key else .ok none     -- `odxraise(…, KeyError); return None`

/-- `OdxLinkDatabase.resolve_lenient(ref, expected_type)` -/
def resolveLenient (db : Db) (r : Ref) (exp : Option String) (strict : Bool) : Except Err (Option Obj) :=
  match findIn db r.refId r.docs.reverse with
  | some o => typed o exp strict
  | none => .ok none

/-- `resolve_snref(target_short_name, items, expected_type)` -/
def resolveSnref (name : String) (items : List Obj) (exp : Option String) (strict : Bool) :
    Except Err (Option Obj) :=
  match items.filter (fun x => x.name = name) with
  | [] => if strict then .error .odx else .ok none       -- "Cannot resolve short name reference"
  | [c] => typed c exp strict                            -- one candidate: type check
  | c :: _ :: _ => if strict then .error .odx else .ok (some c)   -- "Cannot uniquely resolve"

/-- `imported_links[OdxLinkId(link_id.local_id, self.odx_id.doc_fragments)] = obj` for every link of the
    imported layers (a Python dict keyed by the re-homed id: a later import of the same local id replaces
    the value and keeps the position) -/
def rekey (selfFrags : List Frag) (imported : List (Id × Obj)) : List (Id × Obj) :=
  imported.foldl (fun acc e => dset (Id.mk e.1.localId selfFrags) e.2 acc) []

/-- the link database a layer with IMPORT-REFS resolves its own references in (by value) -/
def extendView (db : Db) (selfFrags : List Frag) (imported : List (Id × Obj)) : Db :=
  update db (rekey selfFrags imported) false

/-! ## Heap level: which dictionaries are shared between database objects -/

/-- the inner (per-fragment) dictionaries live at addresses = indices into `cells` -/
structure Heap where
  cells : List FragDb
deriving Repr

def Heap.read (h : Heap) (a : Nat) : FragDb :=
  match h.cells[a]? with
  | some d => d
  | none => []

def Heap.write (h : Heap) (a : Nat) (d : FragDb) : Heap := ⟨h.cells.set a d⟩

/-- a new dictionary object -/
def Heap.alloc (h : Heap) (d : FragDb) : Heap × Nat := (⟨h.cells ++ [d]⟩, h.cells.length)

/-- one `OdxLinkDatabase` object: its `_db` dictionary maps a fragment to the address of the inner dict -/
abbrev DbObj := List (Frag × Nat)

/-- what a database object stores, by value -/
def view (h : Heap) (d : DbObj) : Db := d.map fun e => (e.1, h.read e.2)

/-- `updateFrags` on the heap: a known fragment's dictionary is mutated in place, an unknown fragment
    gets a fresh dictionary which is entered into this object's `_db` only -/
def hUpdateFrags (ow : Bool) (lid : String) (o : Obj) : List Frag → Heap × DbObj → Heap × DbObj
  | [], s => s
  | f :: fs, (h, d) =>
    match dget d f with
    | some a => hUpdateFrags ow lid o fs (h.write a (storeIn ow lid o (h.read a)), d)
    | none =>
      let r := h.alloc (storeIn ow lid o [])
      hUpdateFrags ow lid o fs (r.1, d ++ [(f, r.2)])

def hUpdate (s : Heap × DbObj) (entries : List (Id × Obj)) (ow : Bool) : Heap × DbObj :=
  entries.foldl (fun s e => hUpdateFrags ow e.1.localId e.2 e.1.frags s) s

/-- `copy.copy(odxlinks)` at the pinned commit (no `__copy__`): a second `OdxLinkDatabase` object whose
    `_db` attribute *is* the outer dictionary of the original — a complete alias. Kept only for the
    counter-example theorem `C10_import_local_pinned_counterexample`. -/
def copyAlias (s : Heap × DbObj) : Heap × DbObj := s

/-- `OdxLinkDatabase.__copy__` of the repaired code:
    `result._db = {frag: dict(frag_db) for frag, frag_db in self._db.items()}` -/
def copyFixedAux : Heap → DbObj → Heap × DbObj
  | h, [] => (h, [])
  | h, (f, a) :: r =>
    let x := h.alloc (h.read a)
    let y := copyFixedAux x.1 r
    (y.1, (f, x.2) :: y.2)

def copyFixed (s : Heap × DbObj) : Heap × DbObj := copyFixedAux s.1 s.2

/-! ## Database level: `Database.refresh` (strict mode) -/

/-- one ODXLINK reference attribute of some object (`key` names the attribute for the report) -/
structure LinkRef where
  key : String
  ref : Ref
  exp : Option String
deriving Repr

/-- one short-name reference attribute: resolved among the objects of `pools` visible in the context
    layer, or — `pools = []` — among the explicit `items` (parameter list, table rows) -/
structure SnRef where
  key : String
  name : String
  pools : List String
  items : List Obj
  exp : Option String
deriving Repr

structure Layer where
  obj : Obj                          -- the DiagLayer object itself
  frags : List Frag                  -- `self.odx_id.doc_fragments`
  isEsd : Bool                       -- `variant_type == ECU_SHARED_DATA`
  links : List (Id × Obj)            -- `self._build_odxlinks()`
  importRefs : List Ref
  parentKeys : List String           -- keys of the PARENT-REF links, in `PARENT-REFS` order
  prio : Nat                         -- `variant_type.inheritance_priority`
  refs : List LinkRef                -- in the order `_resolve_odxlinks` visits them
  snrefs : List SnRef                -- in the order `_resolve_snrefs` visits them
  locals : List (String × List Obj)  -- pool name ↦ locally defined objects
deriving Repr

abbrev Resolved := List (String × Nat)   -- attribute key ↦ uid of the target

def findLayer (ls : List Layer) (uid : Nat) : Option Layer := ls.find? fun l => l.obj.uid = uid

/-- the loop over `self.import_refs`: resolve in the *global* database, require an ECU-SHARED-DATA
    layer, collect its links -/
def gatherImports (all : List Layer) (g : Db) : List Ref → Except Err (List (Id × Obj))
  | [] => .ok []
  | r :: rs =>
    match resolve g r (some "DiagLayer") true with
    | .error e => .error e
    | .ok none => .error .key
    | .ok (some o) =>
      match findLayer all o.uid with
      | none => .error .odx
      | some l =>
        if !l.isEsd then .error .odx   -- `odxassert(imported_dl.variant_type == ECU_SHARED_DATA)`
        else match gatherImports all g rs with
          | .error e => .error e
          | .ok rest => .ok (l.links ++ rest)

def resolveRefs (v : Db) : List LinkRef → Except Err Resolved
  | [] => .ok []
  | r :: rs =>
    match resolve v r.ref r.exp true with
    | .error e => .error e
    | .ok none => .error .key
    | .ok (some o) =>
      match resolveRefs v rs with
      | .error e => .error e
      | .ok rest => .ok ((r.key, o.uid) :: rest)

/-- `DiagLayer._resolve_odxlinks(odxlinks)` on the heap; `g` is the global database object -/
def resolveLayer (all : List Layer) (s : Heap × DbObj) (l : Layer) : Except Err (Heap × Resolved) :=
  if l.importRefs.isEmpty then
    match resolveRefs (view s.1 s.2) l.refs with
    | .error e => .error e
    | .ok r => .ok (s.1, r)
  else
    match gatherImports all (view s.1 s.2) l.importRefs with
    | .error e => .error e
    | .ok imported =>
      -- `extended_odxlinks = copy(odxlinks); extended_odxlinks.update(imported_links, overwrite=False)`
      let ext := hUpdate (copyFixed s) (rekey l.frags imported) false
      match resolveRefs (view ext.1 ext.2) l.refs with
      | .error e => .error e
      | .ok r => .ok (ext.1, r)

/-- the same step at the pinned commit: the update through the alias is an update of the global
    database object itself, which is returned as the new global state -/
def resolveLayerPinned (all : List Layer) (s : Heap × DbObj) (l : Layer) :
    Except Err ((Heap × DbObj) × Resolved) :=
  if l.importRefs.isEmpty then
    match resolveRefs (view s.1 s.2) l.refs with
    | .error e => .error e
    | .ok r => .ok (s, r)
  else
    match gatherImports all (view s.1 s.2) l.importRefs with
    | .error e => .error e
    | .ok imported =>
      let ext := hUpdate (copyAlias s) (rekey l.frags imported) false
      match resolveRefs (view ext.1 ext.2) l.refs with
      | .error e => .error e
      | .ok r => .ok (ext, r)

def resolveLayers (all : List Layer) (g : DbObj) : Heap → List Layer → Except Err (Heap × Resolved)
  | h, [] => .ok (h, [])
  | h, l :: ls =>
    match resolveLayer all (h, g) l with
    | .error e => .error e
    | .ok (h', r) =>
      match resolveLayers all g h' ls with
      | .error e => .error e
      | .ok (h'', rs) => .ok (h'', r ++ rs)

/-- `Database._build_odxlinks()` (dict merge of the layers' links, document order) followed by
    `self._odxlinks.update(…)` on a new `OdxLinkDatabase` -/
def buildGlobal (extra : List (Id × Obj)) (ls : List Layer) : Heap × DbObj :=
  let merged := (extra ++ ls.flatMap (·.links)).foldl (fun acc e => dset e.1 e.2 acc) []
  hUpdate (⟨[]⟩, []) merged true

/-- `[pr.layer for pr in parent_refs]`: the layers the PARENT-REF links of `l` were resolved to, in
    `PARENT-REFS` order -/
def parentsOf (all : List Layer) (res : Resolved) (l : Layer) : List Layer :=
  l.parentKeys.filterMap fun k =>
    match dget res k with
    | none => none
    | some u => findLayer all u

/-- stable insertion, descending by `inheritance_priority` -/
def insertDesc (x : Layer) : List Layer → List Layer
  | [] => [x]
  | y :: ys => if x.prio < y.prio then y :: insertDesc x ys else x :: y :: ys

/-- `sorted(parent_refs, key=lambda pr: pr.layer.variant_type.inheritance_priority, reverse=True)`
    (stable: parents of equal priority keep their `PARENT-REFS` order) -/
def sortDesc : List Layer → List Layer
  | [] => []
  | x :: xs => insertDesc x (sortDesc xs)

/-- objects of pool `p` available in layer `l` after value inheritance
    (`HierarchyElement._compute_available_objects` for any number of parents; restricted to hierarchies
    without NOT-INHERITED lists and without inheritance conflicts — two different objects of one name
    offered by parents of the same priority and not overridden locally raise `OdxError`, which is
    property C09's subject); `fuel` bounds the depth of the hierarchy -/
def visible (all : List Layer) (res : Resolved) (p : String) : Nat → Layer → List Obj
  | 0, l => match dget l.locals p with | some xs => xs | none => []
  | fuel + 1, l =>
    let loc := match dget l.locals p with | some xs => xs | none => []
    if l.isEsd then loc                      -- DiagLayer._compute_available_objects: local objects only
    else
      -- `for parent_ref in self._get_parent_refs_sorted_by_priority(reverse=True)`: the objects each
      -- parent offers, highest priority first
      let inh := (sortDesc (parentsOf all res l)).flatMap fun pl => visible all res p fuel pl
      -- `result_dict`: inherited objects first (the first of a name wins: a later one has a lower
      -- priority, or is the same object, or is overridden locally), then the local ones override
      let d0 := inh.foldl (fun acc o => dsetDefault o.name o acc) ([] : List (String × Obj))
      let d1 := loc.foldl (fun acc o => dset o.name o acc) d0
      d1.map (·.2)

def candidates (all : List Layer) (res : Resolved) (ctx : Layer) (s : SnRef) : List Obj :=
  if s.pools.isEmpty then s.items else s.pools.flatMap fun p => visible all res p all.length ctx

def resolveSnrefs (all : List Layer) (res : Resolved) (ctx : Layer) : List SnRef → Except Err Resolved
  | [] => .ok []
  | s :: ss =>
    match resolveSnref s.name (candidates all res ctx s) s.exp true with
    | .error e => .error e
    | .ok none => .error .odx
    | .ok (some o) =>
      match resolveSnrefs all res ctx ss with
      | .error e => .error e
      | .ok rest => .ok ((s.key, o.uid) :: rest)

def snrefPhase (all : List Layer) (res : Resolved) : List Layer → Except Err Resolved
  | [] => .ok []
  | l :: ls =>
    match resolveSnrefs all res l l.snrefs with
    | .error e => .error e
    | .ok r =>
      match snrefPhase all res ls with
      | .error e => .error e
      | .ok rs => .ok (r ++ rs)

structure Loaded where
  heap : Heap
  glob : DbObj
  links : Resolved
  snrefs : Resolved
deriving Repr

/-- `Database.refresh()`: build links, resolve all ODXLINK references (layers in document order), then
    — after inheritance — all short-name references -/
def refresh (extra : List (Id × Obj)) (ls : List Layer) : Except Err Loaded :=
  let s := buildGlobal extra ls
  match resolveLayers ls s.2 s.1 ls with
  | .error e => .error e
  | .ok (h, links) =>
    match snrefPhase ls links ls with
    | .error e => .error e
    | .ok sn => .ok ⟨h, s.2, links, sn⟩

/-! ### `refresh()` called again on the same `Database` object (generations)

    A `Database` may be modified after it has been loaded (containers replaced through the
    `diag_layer_containers` setter + `add_odx_file`, objects removed from / added to the lists of a layer)
    and is then refreshed again. On the heap this means: the dictionaries of the link database(s) of the
    earlier generation(s) are still there (`h0`; the old `OdxLinkDatabase` object may even still be
    referenced by user code), and `self._odxlinks = OdxLinkDatabase()` creates a **new** object
    (`_db = {}`) which is then filled from the *current* content. -/

/-- `self._odxlinks = OdxLinkDatabase(); self._odxlinks.update(self._build_odxlinks())` on a heap that
    already holds the dictionaries of earlier generations -/
def buildGlobalOn (h0 : Heap) (extra : List (Id × Obj)) (ls : List Layer) : Heap × DbObj :=
  let merged := (extra ++ ls.flatMap (·.links)).foldl (fun acc e => dset e.1 e.2 acc) []
  hUpdate (h0, []) merged true

/-- `Database.refresh()` on a heap left behind by earlier generations -/
def refreshOn (h0 : Heap) (extra : List (Id × Obj)) (ls : List Layer) : Except Err Loaded :=
  let s := buildGlobalOn h0 extra ls
  match resolveLayers ls s.2 s.1 ls with
  | .error e => .error e
  | .ok (h, links) =>
    match snrefPhase ls links ls with
    | .error e => .error e
    | .ok sn => .ok ⟨h, s.2, links, sn⟩

/-- NOT the code — only for the counter-example `C10_refresh_keep_counterexample`: the
    `OdxLinkDatabase` object `prev` of the previous generation is kept and merely `update`d
    (`OdxLinkDatabase()` created once in `Database.__init__`). -/
def buildGlobalKeep (prev : Heap × DbObj) (extra : List (Id × Obj)) (ls : List Layer) : Heap × DbObj :=
  let merged := (extra ++ ls.flatMap (·.links)).foldl (fun acc e => dset e.1 e.2 acc) []
  hUpdate prev merged true

/-- the layers `retarget_snrefs` visits, in the order it visits them: the layer itself, then — for each
    PARENT-REF in `PARENT-REFS` order — everything the recursive call on that parent visits (depth first;
    a layer reachable over several paths is visited once per path) -/
def reach (all : List Layer) (res : Resolved) : Nat → Layer → List Layer
  | 0, l => [l]
  | fuel + 1, l => l :: (parentsOf all res l).flatMap fun p => reach all res fuel p

/-- `retarget_snrefs(database, diag_layer)`: the short-name references of the layer and of all its
    direct and indirect parents are resolved again, all in the context of `diag_layer` (the context
    object is shared by the recursive calls; its `diag_layer` is set by the outermost call only) -/
def retarget (all : List Layer) (res : Resolved) (target : Layer) : Except Err Resolved :=
  let rec go : List Layer → Except Err Resolved
    | [] => .ok []
    | l :: ls =>
      match resolveSnrefs all res target l.snrefs with
      | .error e => .error e
      | .ok r =>
        match go ls with
        | .error e => .error e
        | .ok rs => .ok (r ++ rs)
  go (reach all res all.length target)

end OdxVerif.OdxLink
