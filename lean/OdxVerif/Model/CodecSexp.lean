import OdxVerif.Model.Atomic
/-! s-expression glue for the codec family (grammar: harness/odxgen/SEXP.md). Core Lean only. -/
namespace OdxVerif.Codec
open OdxVerif OdxVerif.Sexp

def parseBaseType : String → Option BaseType
  | "A_INT32" => some .int32 | "A_UINT32" => some .uint32 | "A_FLOAT32" => some .float32
  | "A_FLOAT64" => some .float64 | "A_ASCIISTRING" => some .ascii | "A_UTF8STRING" => some .utf8
  | "A_UNICODE2STRING" => some .unicode2 | "A_BYTEFIELD" => some .bytefield | _ => none

def parseEnc : String → Option Enc
  | "BCD-P" => some .bcdp | "BCD-UP" => some .bcdup | "1C" => some .onec | "2C" => some .twoc
  | "SM" => some .sm | "UTF-8" => some .utf8 | "UCS-2" => some .ucs2 | "ISO-8859-1" => some .iso1
  | "ISO-8859-2" => some .iso2 | "WINDOWS-1252" => some .cp1252 | "NONE" => some .none_ | _ => none

def parseBool : Sexp → Option Bool
  | .atom "t" => some true | .atom "f" => some false | _ => none

def hexNat? (s : String) : Option Nat :=
  s.toList.foldlM (fun acc c => (hexVal? c).map (acc * 16 + ·)) 0

def parseIVal : Sexp → Option IVal
  | .list [.atom "int", v] => v.asInt?.map IVal.int
  | .list [.atom "bytes", .atom h] => (bytesOfHex? h).map IVal.bytes
  | .list [.atom "str", .atom h] => do
    let bs ← bytesOfHex? h
    let cps ← Text.decode .utf8 bs
    pure (IVal.str cps)
  | .list [.atom "float", .atom h] => (hexNat? h).map IVal.flt
  | _ => none

def hex16 (n : Nat) : String := hexOfBytes (Bits.toBytesBE 8 n)

def printIVal : IVal → String
  | .int i => s!"(int {i})"
  | .bytes b => s!"(bytes {hexAtom b})"
  | .str cps => match Text.encode .utf8 cps with
    | some b => s!"(str {hexAtom b})"
    | none => "(str ?)"
  | .flt b => s!"(float {hex16 b})"

/-- optional field with a parser: absent → `some none`, malformed → `none` -/
def optField {α} (fs : List Sexp) (key : String) (p : Sexp → Option α) : Option (Option α) :=
  match field1? fs key with
  | none => some none
  | some v => (p v).map some

def reqField {α} (fs : List Sexp) (key : String) (p : Sexp → Option α) : Option α :=
  (field1? fs key).bind p

def atomP {α} (p : String → Option α) : Sexp → Option α := fun s => s.asAtom?.bind p

end OdxVerif.Codec
