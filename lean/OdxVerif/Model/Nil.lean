/-! # Model of `odxtools/nameditemlist.py` (`ItemAttributeList` / `NamedItemList`), property C16

  Core Lean only (linked into `drv_nil`).  The model follows the code *with* the proposed fix
  `fixes/c16-remove-pop-one-name.patch` (remove/pop delete exactly the name of the removed occurrence).

  Python object            | here
  -------------------------|--------------------------------------------------------------
  an item (dataclass)      | `Item = (oid, sn, eqc)`; `a is b` ⇔ `a = b`, `a == b` ⇔ same `eqc`
  `list` part of the object| `State.items`
  `self._item_dict`        | `State.names`, association list in insertion order (dict semantics)
  `hasattr(self, name)`    | `name ∈ reserved` (ordinary attribute lookup: class/instance attributes)
                           | or `name` is a key (`__getattr__`)
  `keyword.iskeyword`      | membership in `Env.kw`
  names (`str`)            | `List Char` (ASCII short names; `str.isdigit` = `Char.isDigit`)
-/
namespace OdxVerif.Nil

abbrev Name := List Char

/-- one Python object: identity `oid`, its `short_name`, and the class of objects it is `==` to -/
structure Item where
  oid : Nat
  sn  : Name
  eqc : Nat
deriving DecidableEq, Repr

/-- dataclass `__eq__` -/
def Item.pyEq (a b : Item) : Bool := a.eqc == b.eqc
/-- `a is b` -/
def Item.same (a b : Item) : Bool := decide (a = b)

abbrev Dict := List (Name × Item)

structure State where
  items : List Item
  names : Dict
deriving DecidableEq, Repr

/-- `ItemAttributeList.__init__` without input list -/
def State.empty : State := ⟨[], []⟩

/-- the two interpreter tables the code consults -/
structure Env where
  kw       : List Name     -- `keyword.kwlist`
  reserved : List Name     -- every name for which ordinary attribute lookup on the object succeeds

inductive Outcome where
  | ok
  | raised      -- a Python exception (IndexError / ValueError): class `foreign`
  | diverged    -- the model's loop fuel ran out (proved impossible: `addAttr_not_diverged`)
deriving DecidableEq, Repr

/-! ## `NamedItemList._get_item_key` -/

/-- `none` = `sn[0]` raises IndexError on an empty short name -/
def itemKey (kw : List Name) (sn : Name) : Option Name :=
  match sn with
  | [] => none                                            -- sn[0]
  | c :: _ =>
    if c.isDigit || kw.contains sn then some ('_' :: sn)  -- if sn[0].isdigit() or iskeyword(sn): return f"_{sn}"
    else some sn                                          -- return sn

/-! ## `_add_attribute_item` -/

/-- `f"{item_name}{i}"` if `item_name.endswith("_")` else `f"{item_name}_{i}"` -/
def suffixed (base : Name) (i : Nat) : Name :=
  if base.getLast? = some '_' then base ++ Nat.toDigits 10 i
  else base ++ '_' :: Nat.toDigits 10 i

/-- value of `tmp` when the loop counter is `i` (`i = 1`: the unchanged name) -/
def cand (base : Name) (i : Nat) : Name :=
  if i ≤ 1 then base else suffixed base i

def hasKey (d : Dict) (n : Name) : Bool := (d.map (·.1)).contains n

/-- `hasattr(self, tmp)`: class/instance attributes first, then `__getattr__` (keys of `_item_dict`) -/
def hasattr (reserved : List Name) (d : Dict) (n : Name) : Bool :=
  reserved.contains n || hasKey d n

/-- `while True: if not hasattr(self, tmp): break; i += 1; tmp = …` with explicit fuel -/
def findFree (taken : Name → Bool) (base : Name) : (fuel : Nat) → (i : Nat) → Option Name
  | 0, _ => none
  | fuel + 1, i =>
    if !taken (cand base i) then some (cand base i)       -- if not hasattr(self, tmp): break
    else findFree taken base fuel (i + 1)                 -- i += 1; tmp = …

/-- `d[k] = v` -/
def dictSet : Dict → Name → Item → Dict
  | [], k, v => [(k, v)]
  | (k', v') :: r, k, v => if k' = k then (k', v) :: r else (k', v') :: dictSet r k v

/-- `del d[k]` (the key is always present where this is used) -/
def dictDel (d : Dict) (k : Name) : Dict := d.eraseP (fun kv => kv.1 == k)

def addAttr (env : Env) (s : State) (it : Item) : Except Outcome State :=
  match itemKey env.kw it.sn with                         -- item_name = self._get_item_key(item)
  | none => .error .raised
  | some base =>
    match findFree (hasattr env.reserved s.names) base (env.reserved.length + s.names.length + 1) 1 with
    | none => .error .diverged
    | some nm => .ok { s with names := dictSet s.names nm it }   -- self._item_dict[item_name] = item

/-! ## list primitives of CPython -/

/-- `ins1`: `if where < 0: where += n; if where < 0: where = 0; if where > n: where = n` -/
def normInsert (n : Nat) (i : Int) : Nat :=
  let w := if i < 0 then i + n else i
  let w := if w < 0 then 0 else w
  if w > n then n else w.toNat

/-- `list.pop` index handling: `none` = IndexError (also "pop from empty list") -/
def normIndex (n : Nat) (i : Int) : Option Nat :=
  let j := if i < 0 then i + n else i
  if j < 0 ∨ j ≥ n then none else some j.toNat

/-- `list.index(self, obj)`: first position whose element `is obj or == obj`; `none` = ValueError -/
def index (l : List Item) (x : Item) : Option Nat := l.findIdx? (fun y => y.same x || y.pyEq x)

/-! ## the mutators -/

def append (env : Env) (s : State) (x : Item) : Except Outcome State :=
  match addAttr env s x with                              -- self._add_attribute_item(item)
  | .error e => .error e
  | .ok s' => .ok { s' with items := s'.items ++ [x] }    -- super().append(item)

def insert (env : Env) (s : State) (i : Int) (x : Item) : Except Outcome State :=
  match addAttr env s x with                              -- self._add_attribute_item(obj)
  | .error e => .error e
  | .ok s' => .ok { s' with items := s'.items.insertIdx (normInsert s'.items.length i) x }  -- list.insert

/-- `for item in items: self.append(item)` — an exception leaves the items appended so far -/
def extend (env : Env) : State → List Item → State × Outcome
  | s, [] => (s, .ok)
  | s, x :: xs =>
    match append env s x with
    | .ok s' => extend env s' xs
    | .error e => (s, e)

/-- fixed code: `for key, value in self._item_dict.items(): if value is result: del …[key]; break` -/
def dropNameOf (d : Dict) (r : Item) : Dict :=
  match d.find? (fun kv => kv.2.same r) with
  | some kv => dictDel d kv.1
  | none => d

def popAt (s : State) (j : Nat) : Except Outcome (State × Item) :=
  match s.items[j]? with
  | none => .error .raised
  | some r => .ok ({ items := s.items.eraseIdx j, names := dropNameOf s.names r }, r)

def pop (s : State) (i : Int) : Except Outcome (State × Item) :=
  match normIndex s.items.length i with                   -- result = list.pop(self, index)
  | none => .error .raised
  | some j => popAt s j

/-- fixed code: `self.pop(list.index(self, obj))` -/
def remove (s : State) (x : Item) : Except Outcome State :=
  match index s.items x with
  | none => .error .raised                                -- ValueError
  | some j =>
    match pop s (Int.ofNat j) with
    | .ok (s', _) => .ok s'
    | .error e => .error e

/-- `cls(list_of_items)`: `__init__` appends every item to a fresh object (`__copy__`, `__reduce__`,
    and the loop of `__deepcopy__`) -/
def rebuild (env : Env) (xs : List Item) : Except Outcome State :=
  match extend env State.empty xs with
  | (s, .ok) => .ok s
  | (_, e) => .error e

/-- `deepcopy(x, memo)` / unpickling of an item: a new object, equal to the old one; the memo keeps
    sharing, i.e. the map on identities is injective (`oid + stride`, the harness picks `stride`) -/
def fresh (stride : Nat) (x : Item) : Item := { x with oid := x.oid + stride }

inductive Op where
  | append (x : Item)
  | insert (i : Int) (x : Item)
  | extend (xs : List Item)
  | remove (x : Item)
  | pop (i : Int)
  | clear
  | copy                    -- nil.copy()
  | copy2                   -- copy.copy(nil)  → __copy__
  | deepcopy (stride : Nat) -- copy.deepcopy(nil)
  | pickle (stride : Nat)   -- pickle.loads(pickle.dumps(nil))
deriving Repr

def ofExcept (s : State) : Except Outcome State → State × Outcome
  | .ok s' => (s', .ok)
  | .error e => (s, e)            -- every raising operation raises before it mutates anything

/-- one operation of the history; copy-like operations continue on the copy -/
def step (env : Env) (s : State) : Op → State × Outcome
  | .append x => ofExcept s (append env s x)
  | .insert i x => ofExcept s (insert env s i x)
  | .extend xs => extend env s xs
  | .remove x => ofExcept s (remove s x)
  | .pop i => ofExcept s ((pop s i).map (·.1))
  | .clear => (⟨[], []⟩, .ok)                               -- super().clear(); self._item_dict = {}
  | .copy => (⟨s.items, s.names⟩, .ok)                      -- list.append each; _item_dict.copy()
  | .copy2 => ofExcept s (rebuild env s.items)
  | .deepcopy k => ofExcept s (rebuild env (s.items.map (fresh k)))
  | .pickle k => ofExcept s (rebuild env (s.items.map (fresh k)))

def run (env : Env) (ops : List Op) : State := ops.foldl (fun s op => (step env s op).1) State.empty

/-- the trace the driver prints: state and outcome after every operation -/
def trace (env : Env) : State → List Op → List (State × Outcome)
  | _, [] => []
  | s, op :: ops => let r := step env s op; r :: trace env r.1 ops

/-! ## the code before the fix (kept only to state the defect, `C16_unfixed_counterexample`) -/

/-- pinned commit: `list.remove(self, obj)`, then `del` **every** key whose value `== obj` -/
def removeUnfixed (s : State) (x : Item) : Except Outcome State :=
  match index s.items x with
  | none => .error .raised
  | some j => .ok ⟨s.items.eraseIdx j, s.names.filter (fun kv => !kv.2.pyEq x)⟩

/-! ## observers -/

/-- `self._item_dict[key]` / `nil[key]`; `none` = KeyError -/
def lookup (d : Dict) (k : Name) : Option Item := (d.find? (fun kv => kv.1 == k)).map (·.2)

inductive Attr where
  | own                 -- an attribute of the list object itself (method, `_item_dict`, …)
  | item (x : Item)     -- via `__getattr__`
  | missing             -- AttributeError
deriving DecidableEq, Repr

/-- `getattr(nil, key)` -/
def getattr (env : Env) (s : State) (k : Name) : Attr :=
  if env.reserved.contains k then .own
  else match lookup s.names k with
    | some x => .item x
    | none => .missing

end OdxVerif.Nil
