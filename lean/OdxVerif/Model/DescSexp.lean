import OdxVerif.Model.Decode
import OdxVerif.Model.CodecSexp
/-! parsing codec descriptions and values from s-expressions (harness/odxgen/SEXP.md). Core Lean only. -/
namespace OdxVerif.Codec
open OdxVerif OdxVerif.Sexp

def parseTerm : String → Option Term
  | "zero" => some .zero | "hex-ff" => some .hexff | "end-of-pdu" => some .eop | _ => none

def parseDct : Sexp → Option Dct
  | .list (.atom "std" :: fs) => do
    let bt ← reqField fs "bt" (atomP parseBaseType)
    let enc ← optField fs "enc" (atomP parseEnc)
    let hl ← reqField fs "hl" parseBool
    let bl ← reqField fs "bitlen" Sexp.asNat?
    let mask ← optField fs "mask" (atomP hexNat?)
    let cond ← optField fs "condensed" parseBool
    pure (.std bt enc hl bl mask (cond.getD false))
  | .list (.atom "minmax" :: fs) => do
    let bt ← reqField fs "bt" (atomP parseBaseType)
    let enc ← optField fs "enc" (atomP parseEnc)
    let hl ← reqField fs "hl" parseBool
    let mn ← reqField fs "min" Sexp.asNat?
    let mx ← optField fs "max" Sexp.asNat?
    let t ← reqField fs "term" (atomP parseTerm)
    pure (.minmax bt enc hl mn mx t)
  | .list (.atom "leading" :: fs) => do
    let bt ← reqField fs "bt" (atomP parseBaseType)
    let enc ← optField fs "enc" (atomP parseEnc)
    let hl ← reqField fs "hl" parseBool
    let bl ← reqField fs "bitlen" Sexp.asNat?
    pure (.leading bt enc hl bl)
  | .list (.atom "paramlen" :: fs) => do
    let bt ← reqField fs "bt" (atomP parseBaseType)
    let enc ← optField fs "enc" (atomP parseEnc)
    let hl ← reqField fs "hl" parseBool
    let k ← reqField fs "key" Sexp.asAtom?
    pure (.paramLen bt enc hl k)
  | _ => none

/-- `(lower V open|closed)` / `(upper V open|closed)`: absent → `some none`, malformed → `none` -/
def parseLinLimit (fs : List Sexp) (key : String) : Option (Option (Int × Bool)) :=
  match field? fs key with
  | none => some none
  | some [v, .atom "open"] => v.asInt?.map fun i => some (i, true)
  | some [v, .atom "closed"] => v.asInt?.map fun i => some (i, false)
  | some _ => none

def parseTScale : Sexp → Option TScale
  | .list [.atom "scale", lo, hi, .atom t] => do
    let cps ← (bytesOfHex? t).bind (Text.decode .utf8)
    pure { lo := ← parseIVal lo, hi := ← parseIVal hi, text := cps, inv := none }
  | .list [.atom "scale", lo, hi, .atom t, inv] => do
    let cps ← (bytesOfHex? t).bind (Text.decode .utf8)
    pure { lo := ← parseIVal lo, hi := ← parseIVal hi, text := cps, inv := some (← parseIVal inv) }
  | _ => none

def parseCompu : Sexp → CCompu
  | .list [.atom "identical"] => .identical
  | .list (.atom "linear" :: fs) =>
    match field? fs "num", reqField fs "den" Sexp.asInt?, parseLinLimit fs "lower", parseLinLimit fs "upper" with
    | some [a, b], some d, some lo, some up =>
      (match a.asInt?, b.asInt? with
       | some n0, some n1 => .linear { num0 := n0, num1 := n1, den := d, lower := lo, upper := up }
       | _, _ => .other)
    | _, _, _, _ => .other
  | .list (.atom "texttable" :: scs) =>
    match scs.mapM parseTScale with
    | some ts => .texttable ts
    | none => .other
  | _ => .other

mutual
partial def parsePVal : Sexp → Option PVal
  | .list [.atom "none"] => some .none
  | .list (.atom "dict" :: kvs) => do
    let xs ← kvs.mapM fun
      | .list [.atom k, v] => do pure (k, ← parsePVal v)
      | _ => none
    pure (.dict xs)
  | .list (.atom "list" :: xs) => do pure (.list (← xs.mapM parsePVal))
  | .list [.atom "pair", .atom name, v] => do pure (.pair name (← parsePVal v))
  | .list [.atom "keyed", k, v] => do pure (.keyed (← k.asInt?) (← parsePVal v))
  | .list [.atom "nokey", v] => do pure (.nokey (← parsePVal v))
  -- the value of a DTC-DOP: the harness hands the integer trouble code to odxtools (a DiagnosticTroubleCode object, as
  -- returned by decoding, is converted to exactly that by `convert_to_numerical_trouble_code`)
  | .list [.atom "dtc", c] => do pure (.atom (.int (← c.asInt?)))
  | sx => (parseIVal sx).map PVal.atom
end

partial def printPVal : PVal → String
  | .atom v => printIVal v
  | .none => "(none)"
  | .list xs => "(list" ++ String.join (xs.map fun x => " " ++ printPVal x) ++ ")"
  | .dict kvs => "(dict" ++ String.join (kvs.map fun (k, v) => s!" ({k} {printPVal v})") ++ ")"
  | .pair n v => s!"(pair {n} {printPVal v})"
  | .keyed k v => s!"(keyed {k} {printPVal v})"
  | .nokey v => s!"(nokey {printPVal v})"
  | .dtc c => s!"(dtc {c})"

mutual
partial def parseDop : Sexp → Dop
  | .list (.atom "simple" :: fs) =>
    match reqField fs "dct" parseDct, reqField fs "phys" (atomP parseBaseType) with
    | some dct, some phys => .simple dct phys (match field1? fs "compu" with | some c => parseCompu c | none => .other)
    | _, _ => .unsupported
  | .list (.atom "dtc" :: fs) =>
    match reqField fs "dct" parseDct, reqField fs "phys" (atomP parseBaseType), field? fs "dtcs" with
    | some dct, some phys, some ds =>
      (match ds.mapM (fun | .list [c, .atom n] => c.asInt?.map (·, n) | _ => none) with
       | some dtcs => .dtc dct phys (match field1? fs "compu" with | some c => parseCompu c | none => .other) dtcs
       | none => .unsupported)
    | _, _, _ => .unsupported
  | .list (.atom "struct" :: fs) =>
    match field? fs "params" with
    | some ps => .struct ((field1? fs "bytesize").bind Sexp.asNat?) (ps.map parseParam)
    | none => .unsupported
  | .list (.atom "static-field" :: fs) =>
    match reqField fs "count" Sexp.asNat?, reqField fs "itemsize" Sexp.asNat?, field1? fs "item" with
    | some c, some sz, some it => .staticField c sz (parseDop it)
    | _, _, _ => .unsupported
  | .list (.atom "dyn-length-field" :: fs) =>
    match reqField fs "offset" Sexp.asNat?, reqField fs "countbytepos" Sexp.asNat?, field1? fs "countdop", field1? fs "item" with
    | some off, some cbp, some cd, some it =>
      .dynLenField off cbp (((field1? fs "countbitpos").bind Sexp.asNat?).getD 0) (parseDop cd) (parseDop it)
    | _, _, _, _ => .unsupported
  | .list (.atom "end-marker-field" :: fs) =>
    match reqField fs "term" parseIVal, field1? fs "termdop", field1? fs "item" with
    | some t, some td, some it => .endMarkerField t (parseDop td) (parseDop it)
    | _, _, _ => .unsupported
  | .list (.atom "eop-field" :: fs) =>
    match field1? fs "item" with
    | some it => .eopField ((field1? fs "min").bind Sexp.asNat?) ((field1? fs "max").bind Sexp.asNat?) (parseDop it)
    | none => .unsupported
  | .list (.atom "mux" :: fs) =>
    match reqField fs "bytepos" Sexp.asNat?, field? fs "switch", field? fs "cases" with
    | some bp, some sw, some cs =>
      (match reqField sw "bytepos" Sexp.asNat?, field1? sw "dop" with
       | some sbp, some sd =>
         let cases := cs.mapM fun
           | .list (.atom "case" :: cf) =>
             (match (field1? cf "name").bind Sexp.asAtom?, (reqField cf "lower" parseIVal), (reqField cf "upper" parseIVal) with
              | some n, some (.int lo), some (.int up) => some (MuxCaseD.mk n lo up ((field1? cf "struct").map parseDop))
              | _, _, _ => none)
           | _ => none
         let dflt : Option (Option (String × Option Dop)) :=
           match field? fs "default" with
           | none => some none
           | some df => (match (field1? df "name").bind Sexp.asAtom? with
             | some n => some (some (n, (field1? df "struct").map parseDop))
             | none => none)
         (match cases, dflt with
          | some cl, some d => .mux bp sbp ((field1? sw "bitpos").bind Sexp.asNat?) (parseDop sd) cl d
          | _, _ => .unsupported)
       | _, _ => .unsupported)
    | _, _, _ => .unsupported
  | _ => .unsupported

partial def parseParam : Sexp → Param
  | .list (.atom "param" :: fs) =>
    let name := ((field1? fs "name").bind Sexp.asAtom?).getD "?"
    let bytePos := (field1? fs "bytepos").bind Sexp.asNat?
    let bitPos := (field1? fs "bitpos").bind Sexp.asNat?
    let kind : PKind :=
      match (field1? fs "type").bind Sexp.asAtom? with
      | some "coded-const" =>
        (match reqField fs "dct" parseDct, reqField fs "value" parseIVal with
         | some d, some v => .codedConst d v | _, _ => .unsupported)
      | some "phys-const" =>
        (match field1? fs "dop", reqField fs "value" parsePVal with
         | some d, some v => .physConst (parseDop d) v | _, _ => .unsupported)
      | some "value" =>
        (match field1? fs "dop" with
         | some d =>
           (match field1? fs "default" with
            | none => .value (parseDop d) none
            | some dv => (match parsePVal dv with | some v => .value (parseDop d) (some v) | none => .unsupported))
         | none => .unsupported)
      | some "reserved" => (match reqField fs "bitlen" Sexp.asNat? with | some b => .reserved b | none => .unsupported)
      | some "matching-request" =>
        (match reqField fs "reqpos" Sexp.asNat?, reqField fs "bytelen" Sexp.asNat? with
         | some a, some b => .matchingReq a b | _, _ => .unsupported)
      | some "nrc-const" =>
        (match reqField fs "dct" parseDct, (field? fs "values").bind (·.mapM parseIVal) with
         | some d, some vs => .nrcConst d vs | _, _ => .unsupported)
      | some "length-key" => (match field1? fs "dop" with | some d => .lengthKey (parseDop d) | none => .unsupported)
      | _ => .unsupported
    .mk name bytePos bitPos kind
  | _ => .mk "?" none none .unsupported
end

mutual
/-- does the description use only constructs the model covers? -/
def Dop.supported : Dop → Bool
  | .simple _ _ _ => true
  | .struct _ ps => paramsSupported ps
  | .staticField _ _ item => item.supported
  | .dynLenField _ _ _ cd item => cd.supported && item.supported
  | .endMarkerField _ td item => td.supported && item.supported
  | .eopField _ _ item => item.supported
  | .mux _ _ _ sd cases dflt => sd.supported && casesSupported cases &&
      (match dflt with | some (_, some d) => d.supported | _ => true)
  | .unsupported => false
  | .dtc .. => true
def casesSupported : List MuxCaseD → Bool
  | [] => true
  | .mk _ _ _ st :: cs => (match st with | some d => d.supported | none => true) && casesSupported cs
def PKind.supported : PKind → Bool
  | .physConst d _ | .value d _ | .lengthKey d => d.supported
  | .unsupported => false
  | _ => true
def paramsSupported : List Param → Bool
  | [] => true
  | .mk _ _ _ k :: ps => k.supported && paramsSupported ps
end

/-- `(composite (name N) (kind K) [(bytesize N)] (params …))` → (byte size, parameters) -/
def parseComposite : Sexp → Option (Option Nat × List Param)
  | .list (.atom "composite" :: fs) => do
    let ps ← field? fs "params"
    pure ((field1? fs "bytesize").bind Sexp.asNat?, ps.map parseParam)
  | _ => none

end OdxVerif.Codec
