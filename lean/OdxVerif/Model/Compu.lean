import OdxVerif.Spec.CompuExact
/-! # Executable model of `odxtools/compumethods/*.py` over exact rationals. Core Lean only.

    The model follows the code **with the fixes of `fixes/c07-*.patch` applied** (marked `[fix …]`).
    `exceptions.strict_mode` is `True` (the default): `odxraise`/`odxassert`/`odxrequire` raise.

    Python ↔ model
    * `int`, `float`, `str` values ↔ `Val` (a float is the exact rational it denotes; Python's float
      rounding error is outside the model, see DESIGN.md §5); `a == b` ↔ `Val.pyEq`
    * `round` ↔ `roundHalfEven`; `x / y` ↔ `Rat` division with an explicit `ZeroDivisionError` outcome
    * `compare_odx_values` ↔ `compareOdx`; `Limit.complies_to_lower/upper` ↔ `Limit.compliesLower/Upper`
    * `CompuScale.applies` ↔ `Scale.applies`
    * `LinearSegment` (`from_compu_scale`, `__compute_physical_limits`, `convert_*`, `*_applies`) ↔ `LinSeg`, `mkLinSeg`
    * `ScaleLinearCompuMethod.__post_init__` invertibility loop ↔ `invertibleLoop`
    * `TabIntpCompuMethod.__piecewise_linear_interpolate` ↔ `interp`
    * `RatFuncSegment` ↔ `RatSeg`; Horner loop ↔ `horner`
    * the eight `*CompuMethod` classes ↔ the constructors of `Method`; their `__post_init__` ↔ `build`
    * exceptions ↔ `Err`: `EncodeError`, `DecodeError`, other `OdxError`, anything else (`foreign`) -/
namespace OdxVerif.Compu

inductive Err where
  | encode | decode | odx | foreign
deriving DecidableEq, Repr, Inhabited

abbrev R := Except Err

/-- the 1e-10 thresholds in `linearsegment.py` and `scalelinearcompumethod.py` -/
def eps : Rat := 1 / 10000000000

def absR (q : Rat) : Rat := if q < 0 then -q else q

/-- Python `round(x)` on the exact value: nearest integer, ties to even -/
def roundHalfEven (q : Rat) : Int :=
  let f := q.floor
  let r := q - (f : Rat)
  if r < 1/2 then f
  else if 1/2 < r then f + 1
  else if f % 2 = 0 then f else f + 1

/-- Python `a == b` on values: numbers compare numerically across `int`/`float`, strings by content,
    a number never equals a string -/
def Val.pyEq (a b : Val) : Bool :=
  match a.num?, b.num? with
  | some x, some y => x == y
  | none, none => (match a, b with | .str s, .str t => s == t | _, _ => false)
  | _, _ => false

/-- `isinstance(v, ty.python_type)` with the "float also admits int" rule used by
    `LinearSegment.*_applies`, `RatFuncSegment.applies` and `DataType.isinstance` -/
def typeOk (ty : DType) (v : Val) : Bool :=
  match ty, v with
  | .int32, .int _ | .uint32, .int _ => true
  | .float32, .int _ | .float32, .flt _ | .float64, .int _ | .float64, .flt _ => true
  | .str, .str _ => true
  | _, _ => false

/-- `odxtypes.compare_odx_values(a, b)`: sign of `a - b` for numbers, lexicographic for strings,
    `odxraise()` when the kinds differ. Result: `-1`, `0`, `1`. -/
def compareOdx (a b : Val) : R Int :=
  match a with
  | .str s =>
    match b with
    | .str t => .ok (if s < t then -1 else if t < s then 1 else 0)   -- odxtypes.py:128-134
    | _ => .error .odx                                              -- odxtypes.py:126
  | _ =>
    match a.num?, b.num? with
    | some x, some y => .ok (if x - y < 0 then -1 else if 0 < x - y then 1 else 0)   -- odxtypes.py:113-118
    | _, _ => .error .odx                                                          -- odxtypes.py:111

structure Limit where
  value : Option Val
  itype : Option IType
deriving DecidableEq, Repr, Inhabited

/-- `Limit.complies_to_upper` (limit.py:70-92) -/
def Limit.compliesUpper (l : Limit) (v : Val) : R Bool :=
  match l.value with
  | none => .ok true                                   -- `_value is None`
  | some a =>
    match l.itype with
    | none | some .closed => do let c ← compareOdx v a; pure (decide (c ≤ 0))
    | some .open_ => do let c ← compareOdx v a; pure (decide (c < 0))
    | some .infinite => .ok true

/-- `Limit.complies_to_lower` (limit.py:94-116) -/
def Limit.compliesLower (l : Limit) (v : Val) : R Bool :=
  match l.value with
  | none => .ok true
  | some a =>
    match l.itype with
    | none | some .closed => do let c ← compareOdx v a; pure (decide (0 ≤ c))
    | some .open_ => do let c ← compareOdx v a; pure (decide (0 < c))
    | some .infinite => .ok true

/-- `lower is not None and not lower.complies_to_lower(v)` … `upper …` (the common tail of
    `LinearSegment.*_applies` and `RatFuncSegment.applies`): an absent limit is no restriction,
    the upper limit is only consulted when the lower one is met -/
def withinLimits (lo hi : Option Limit) (v : Val) : R Bool := do
  let a ← match lo with
    | none => pure true
    | some l => l.compliesLower v
  if !a then return false
  match hi with
  | none => pure true
  | some h => h.compliesUpper v

/-- one COMPU-SCALE; `coeffs` = (COMPU-NUMERATOR values, COMPU-DENOMINATOR values) -/
structure Scale where
  lo : Option Limit := none
  hi : Option Limit := none
  inv : Option Val := none
  const : Option Val := none
  coeffs : Option (List Rat × List Rat) := none
deriving DecidableEq, Repr, Inhabited

/-- `CompuScale.applies` (compuscale.py:76-102) -/
def Scale.applies (s : Scale) (v : Val) : R Bool :=
  match s.lo, s.hi with
  | none, none => .ok true
  | some l, none => .ok (match l.value with | some a => v.pyEq a | none => false)   -- `== lower_limit.value`
  | none, some h => .ok (match h.value with | some a => v.pyEq a | none => false)
  | some l, some h => do
    let a ← l.compliesLower v
    if !a then return false
    h.compliesUpper v

/-! ## LinearSegment -/

structure LinSeg where
  offset : Rat
  factor : Rat
  denom : Rat
  ilo : Option Limit
  ihi : Option Limit
  inv : Val
  ity : DType
  pty : DType
  plo : Option Limit := none
  phi : Option Limit := none
deriving DecidableEq, Repr, Inhabited

/-- `LinearSegment.convert_internal_to_physical` (linearsegment.py:78-92) -/
def LinSeg.convI2P (s : LinSeg) (v : Val) : R Val :=
  match v.num? with
  | none => .error .odx                                -- not int/float: odxraise
  | some x =>
    if s.denom = 0 then .error .foreign                -- ZeroDivisionError
    else
      let r := (s.offset + s.factor * x) / s.denom
      .ok (if s.pty.isInt then .int (roundHalfEven r) else .flt r)

/-- `LinearSegment.convert_physical_to_internal` (linearsegment.py:94-112) -/
def LinSeg.convP2I (s : LinSeg) (v : Val) : R Val :=
  match v.num? with
  | none => .error .odx
  | some p =>
    if absR s.factor < eps then .ok s.inv              -- "If factor = 0 then COMPU-INVERSE-VALUE shall be specified"
    else
      let r := (p * s.denom - s.offset) / s.factor
      .ok (if s.ity.isInt then .int (roundHalfEven r) else .flt r)

/-- `LinearSegment.physical_applies` (linearsegment.py:152-170) -/
def LinSeg.physApplies (s : LinSeg) (v : Val) : R Bool :=
  if !typeOk s.pty v then .ok false else withinLimits s.plo s.phi v

/-- `LinearSegment.internal_applies` (linearsegment.py:172-190) -/
def LinSeg.intApplies (s : LinSeg) (v : Val) : R Bool :=
  if !typeOk s.ity v then .ok false else withinLimits s.ilo s.ihi v

/-- `convert_internal_to_physical_limit` (linearsegment.py:120-133) -/
def LinSeg.physLimit (s : LinSeg) : Option Limit → R (Option Limit)
  | none => .ok none
  | some l =>
    match l.value with
    | none => .ok none
    | some a => do
      let p ← s.convI2P a
      pure (some { value := some p, itype := l.itype })

/-- the coefficient part of `LinearSegment.from_compu_scale` (linearsegment.py:37-46):
    `(offset, factor, denominator)` -/
def linCoeffs (sc : Scale) : R (Rat × Rat × Rat) :=
  match sc.coeffs with
  | none => .error .odx                                -- odxrequire(scale.compu_rational_coeffs)
  | some ([], _) => .error .foreign                    -- numerators[0]: IndexError
  | some (o :: rest, dens) => .ok (o, (rest.head?).getD 0, (dens.head?).getD 1)

/-- the COMPU-INVERSE-VALUE part of `from_compu_scale` (linearsegment.py:48-53) -/
def linInverse (sc : Scale) : R Val :=
  match sc.inv with
  | none => .ok (.int 0)
  | some x => match x.num? with | some _ => .ok x | none => .error .odx

/-- `LinearSegment.from_compu_scale` followed by `__post_init__`/`__compute_physical_limits`.
    `[fix c07-linear-negative-denominator]`: the limits are swapped when the *slope*
    `factor/denominator` is negative (the unfixed code looks at `factor` alone). -/
def mkLinSeg (ity pty : DType) (sc : Scale) : R LinSeg := do
  let c ← linCoeffs sc
  let inv ← linInverse sc
  let s0 : LinSeg := { offset := c.1, factor := c.2.1, denom := c.2.2, ilo := sc.lo, ihi := sc.hi, inv := inv, ity := ity, pty := pty }
  if 0 ≤ s0.factor * s0.denom then
    let lo ← s0.physLimit sc.lo
    let hi ← s0.physLimit sc.hi
    pure { s0 with plo := lo, phi := hi }
  else
    let lo ← s0.physLimit sc.hi
    let hi ← s0.physLimit sc.lo
    pure { s0 with plo := lo, phi := hi }

/-! ## SCALE-LINEAR -/

def valDiff (a b : Val) : Rat :=
  match a.num?, b.num? with
  | some x, some y => x - y
  | _, _ => 0

/-- the loop of `ScaleLinearCompuMethod.__post_init__` (scalelinearcompumethod.py:76-111) over
    adjacent segments; `ref` is `ref_factor`.
    `[fix c07-scale-linear-invertibility]`: a *gap* (`|y0-y1| > 1e-10`) makes the method
    non-invertible (the unfixed code rejects the continuous case instead). -/
def invertibleLoop (ref : Rat) : List LinSeg → R Bool
  | s0 :: s1 :: rest =>
    if ref * s1.factor < 0 then .ok false
    else
      let ref' := if s1.factor ≠ 0 then s1.factor else ref
      match s0.ihi, s1.ilo with
      | some u, some l =>
        match u.value, l.value with
        | some x, some x' =>
          if u.itype = some .infinite ∨ l.itype = some .infinite then .ok false
          else if !(x.pyEq x') then .ok false            -- the intervals must use the same reference point
          else match x.num? with
            | none => .error .odx                        -- "Linear segments must use int or float"
            | some _ => do
              let y0 ← s0.convI2P x
              let y1 ← s1.convI2P x
              if eps < absR (valDiff y0 y1) then pure false
              else invertibleLoop ref' (s1 :: rest)
        | _, _ => .ok false
      | _, _ => .ok false
  | _ => .ok true

/-- first element satisfying a predicate that may raise; every element is evaluated
    (Python list comprehension followed by `[0]`) -/
def filterR {α} (p : α → R Bool) : List α → R (List α)
  | [] => .ok []
  | x :: xs => do
    let b ← p x
    let r ← filterR p xs
    pure (if b then x :: r else r)

/-- `any(p(x) for x in xs)`: stops at the first hit -/
def anyR {α} (p : α → R Bool) : List α → R Bool
  | [] => .ok false
  | x :: xs => do
    let b ← p x
    if b then pure true else anyR p xs

/-! ## TAB-INTP -/

/-- `__piecewise_linear_interpolate(x, range_samples = xs, domain_samples = ys)`
    (tabintpcompumethod.py:140-151). `[fix c07-tabintp-inverse-order]`: a pair brackets `x` in either
    order, a zero-width pair returns its first sample (the unfixed code only accepts `x0 ≤ x ≤ x1` and
    divides by `x1 - x0 = 0`). -/
def interp (x : Rat) : List Rat → List Rat → Option Rat
  | x0 :: x1 :: xs, y0 :: y1 :: ys =>
    if min x0 x1 ≤ x ∧ x ≤ max x0 x1 then
      if x0 = x1 then some y0 else some (y0 + (x - x0) * (y1 - y0) / (x1 - x0))
    else interp x (x1 :: xs) (y1 :: ys)
  | _, _ => none

def minList : List Rat → Rat
  | [] => 0
  | [x] => x
  | x :: xs => min x (minList xs)

def maxList : List Rat → Rat
  | [] => 0
  | [x] => x
  | x :: xs => max x (maxList xs)

/-- `round` then `DataType.make_from` of a float result. `[fix c07-tabintp-rounding]`: integers are
    rounded (the unfixed code truncates with `int(x)`). -/
def mkNum (ty : DType) (r : Rat) : Val := if ty.isInt then .int (roundHalfEven r) else .flt r

/-! ## RAT-FUNC -/

structure RatSeg where
  num : List Rat
  den : List Rat
  lo : Option Limit
  hi : Option Limit
  rangeTy : DType
  domTy : DType
deriving DecidableEq, Repr, Inhabited

/-- the Horner loops of `RatFuncSegment.convert` (ratfuncsegment.py:50-57): `acc = acc*x + c` over the
    reversed coefficient list -/
def horner (cs : List Rat) (x : Rat) : Rat := cs.foldr (fun c acc => acc * x + c) 0

/-- `RatFuncSegment.convert`. `[fix c07-ratfunc-missing-denominator]`: no COMPU-DENOMINATOR means 1. -/
def RatSeg.convert (s : RatSeg) (v : Val) : R Val :=
  match v.num? with
  | none => .error .odx
  | some x =>
    let d := if s.den = [] then 1 else horner s.den x
    if d = 0 then .error .foreign                      -- ZeroDivisionError
    else
      let r := horner s.num x / d
      .ok (if s.rangeTy.isInt then .int (roundHalfEven r) else .flt r)

/-- `RatFuncSegment.applies`. `[fix c07-ratfunc-domain-type]`: the argument is type-checked against
    the *domain* type (the unfixed code uses `value_type` = the range type). -/
def RatSeg.applies (s : RatSeg) (v : Val) : R Bool :=
  if !typeOk s.domTy v then .ok false else withinLimits s.lo s.hi v

def mkRatSeg (dom rng : DType) (sc : Scale) : R RatSeg :=
  match sc.coeffs with
  | none => .error .odx
  | some (n, d) => .ok { num := n, den := d, lo := sc.lo, hi := sc.hi, rangeTy := rng, domTy := dom }

/-- `for seg in segs: if seg.applies(v): return seg.convert(v)` -/
def firstRat (e : Err) (v : Val) : List RatSeg → R Val
  | [] => .error e
  | s :: ss => do
    let a ← s.applies v
    if a then s.convert v else firstRat e v ss

/-! ## The eight categories -/

/-- what the description of a compu method contains (`CompuMethod` dataclass fields) -/
structure Side where
  scales : List Scale
  default : Option Val := none
deriving DecidableEq, Repr, Inhabited

inductive Cat where
  | identical | linear | scaleLinear | tabIntp | ratFunc | scaleRatFunc | textTable | compuCode
deriving DecidableEq, Repr, Inhabited

structure Desc where
  cat : Cat
  ity : DType
  pty : DType
  i2p : Option Side
  p2i : Option Side
deriving DecidableEq, Repr, Inhabited

/-- a constructed compu method object (the private attributes the classes derive in `__post_init__`) -/
inductive Method where
  | identical (ity pty : DType)
  | linear (seg : LinSeg)
  | scaleLinear (segs : List LinSeg) (invertible : Bool)
  | tabIntp (ity pty : DType) (ipts ppts : List Rat)
  | ratFunc (fwd : RatSeg) (bwd : Option RatSeg)
  | scaleRatFunc (fwd : List RatSeg) (bwd : Option (List RatSeg))
  | textTable (ity pty : DType) (scales : List Scale) (pdef idef : Option Val)
  | compuCode
deriving DecidableEq, Repr, Inhabited

def numericType (t : DType) : Bool := t.isInt || t.isFloat

def isIntegral (q : Rat) : Bool := q.den == 1

/-- one TAB-INTP point: `odxrequire(scale.lower_limit).value`, `odxrequire(scale.compu_const).value`,
    both must be numbers (tabintpcompumethod.py:80-92) -/
def tabPoint (sc : Scale) : R (Rat × Rat) :=
  match sc.lo, sc.const with
  | some l, some c =>
    match l.value.bind Val.num?, c.num? with
    | some x, some y => .ok (x, y)
    | _, _ => .error .odx
  | _, _ => .error .odx

/-- the constructors' checks (`__post_init__` of each class) -/
def build (d : Desc) : R Method :=
  match d.cat with
  | .identical => .ok (.identical d.ity d.pty)
  | .compuCode => .ok .compuCode
  | .linear =>
    if !(numericType d.pty && numericType d.ity) then .error .odx       -- odxassert
    else match d.i2p with
      | none => .error .odx                                              -- "require COMPU-INTERNAL-TO-PHYS"
      | some side =>
        match side.scales with
        | [] => .error .odx                                              -- "at least one compu scale"
        | [sc] => do let s ← mkLinSeg d.ity d.pty sc; pure (.linear s)
        | _ => .error .odx                                               -- "at most one compu scale"
  | .scaleLinear =>
    if !(numericType d.pty && numericType d.ity) then .error .odx
    else match d.i2p with
      | none => .error .odx
      | some side => do
        let segs ← side.scales.mapM (mkLinSeg d.ity d.pty)
        match segs with
        | [] => .error .foreign                                          -- `self._segments[0]`: IndexError
        | s0 :: _ => do
          let inv ← invertibleLoop s0.factor segs
          pure (.scaleLinear segs inv)
  | .tabIntp =>
    match d.i2p with
    | none => .error .odx                                                -- odxrequire
    | some side => do
      let pts ← side.scales.mapM tabPoint
      let ipts := pts.map (·.1)
      let ppts := pts.map (·.2)
      if pts.isEmpty then .error .foreign                                -- `min([])`: ValueError
      -- the four derived `Limit`s parse `str(min/max(points))` with the declared type: a non-integral
      -- value for an integer type is rejected by `parse_int`
      else if d.pty.isInt && !(isIntegral (minList ppts) && isIntegral (maxList ppts)) then .error .odx
      else if d.ity.isInt && !(isIntegral (minList ipts) && isIntegral (maxList ipts)) then .error .odx
      else if !(numericType d.pty && numericType d.ity) then .error .odx -- __assert_validity
      else pure (.tabIntp d.ity d.pty ipts ppts)
  | .ratFunc =>
    if !(numericType d.pty && numericType d.ity) then .error .odx
    else match d.i2p with
      | none => .error .odx
      | some side =>
        match side.scales with
        | [sc] => do
          let fwd ← mkRatSeg d.ity d.pty sc
          match d.p2i with
          | none => pure (.ratFunc fwd none)
          | some back =>
            match back.scales with
            | [bs] => do let b ← mkRatSeg d.pty d.ity bs; pure (.ratFunc fwd (some b))
            | _ => .error .odx
        | _ => .error .odx                                               -- "exactly one compu scale"
  | .scaleRatFunc =>
    if !(numericType d.pty && numericType d.ity) then .error .odx
    else match d.i2p with
      | none => .error .odx
      | some side =>
        if side.scales.isEmpty then .error .odx
        else do
          let fwd ← side.scales.mapM (mkRatSeg d.ity d.pty)
          match d.p2i with
          | none => pure (.scaleRatFunc fwd none)
          | some back =>
            if back.scales.isEmpty then .error .odx
            else do let b ← back.scales.mapM (mkRatSeg d.pty d.ity); pure (.scaleRatFunc fwd (some b))
  | .textTable =>
    if d.pty ≠ .str then .error .odx                                     -- "must have string type as its physical datatype"
    else match d.i2p with
      | none => .error .odx
      | some side =>
        if !(side.scales.all fun sc => sc.lo.isSome || sc.hi.isSome) then .error .odx   -- "must provide limits"
        else pure (.textTable d.ity d.pty side.scales side.default (d.p2i.bind (·.default)))

/-- `convert_internal_to_physical` -/
def Method.i2p (m : Method) (v : Val) : R Val :=
  match m with
  | .identical _ _ => .ok v
  | .compuCode => .error .decode
  | .linear s => do
    let a ← s.intApplies v
    if !a then throw .decode                                             -- linearcompumethod.py:79
    s.convI2P v
  | .scaleLinear segs _ => do
    let app ← filterR (·.intApplies v) segs
    match app with
    | [] => throw .decode
    | s :: _ => s.convI2P v
  | .tabIntp _ pty ipts ppts =>
    match v.num? with
    | none => .error .encode                                             -- sic: tabintpcompumethod.py:170 raises EncodeError
    | some x =>
      match interp x ipts ppts with
      | none => .error .decode
      | some r => .ok (mkNum pty r)
  | .ratFunc fwd _ => do
    let a ← fwd.applies v
    if !a then throw .decode
    fwd.convert v
  | .scaleRatFunc fwd _ => firstRat .decode v fwd
  | .textTable _ _ scales pdef _ => do
    let m ← filterR (·.applies v) scales
    match m with
    | [] => match pdef with | some d => pure d | none => throw .decode
    | [sc] => match sc.const with | some c => pure c | none => throw .odx
    | _ => throw .decode                                                 -- "could not uniquely decode"

/-- TEXTTABLE: the internal value a matching scale stands for (texttablecompumethod.py:84-92) -/
def Scale.inverseValue (sc : Scale) : R Val :=
  match sc.inv with
  | some c => .ok c
  | none =>
    match sc.lo.bind (·.value) with
    | some a => .ok a
    | none =>
      match sc.hi.bind (·.value) with
      | some a => .ok a
      | none => .error .encode

/-- `convert_physical_to_internal` -/
def Method.p2i (m : Method) (v : Val) : R Val :=
  match m with
  | .identical _ _ => .ok v
  | .compuCode => .error .encode
  | .linear s => do
    let a ← s.physApplies v
    if !a then throw .encode
    s.convP2I v
  | .scaleLinear segs inv =>
    if !inv then .error .encode                                          -- "non-invertible SCALE-LINEAR"
    else do
      let app ← filterR (·.physApplies v) segs
      match app with
      | [] => throw .encode
      | s :: _ => s.convP2I v
  | .tabIntp ity _ ipts ppts =>
    match v.num? with
    | none => .error .encode
    | some x =>
      match interp x ppts ipts with
      | none => .error .encode
      | some r => .ok (mkNum ity r)
  | .ratFunc _ bwd =>
    match bwd with
    | none => .error .encode
    | some b => do
      let a ← b.applies v
      if !a then throw .encode
      b.convert v
  | .scaleRatFunc _ bwd =>
    match bwd with
    | none => .error .encode
    | some bs => firstRat .encode v bs
  | .textTable _ _ scales _ idef =>
    match scales.filter (fun sc => match sc.const with | some c => c.pyEq v | none => false) with
    | [] => match idef with | some d => .ok d | none => .error .encode
    | [sc] => sc.inverseValue
    | _ => .error .encode                                                -- "could not uniquely encode"

/-- `is_valid_internal_value` -/
def Method.validI (m : Method) (v : Val) : R Bool :=
  match m with
  | .identical ity _ => .ok (typeOk ity v)
  | .compuCode => .ok false
  | .linear s => s.intApplies v
  | .scaleLinear segs _ => anyR (·.intApplies v) segs
  | .tabIntp ity _ ipts _ =>
    -- [fix c07-tabintp-validity-type-check]: the value must have the Python type of the internal type
    match v.num? with
    | none => .ok false
    | some x => .ok (typeOk ity v && decide (minList ipts ≤ x ∧ x ≤ maxList ipts))
  | .ratFunc fwd _ => fwd.applies v
  | .scaleRatFunc fwd _ => anyR (·.applies v) fwd
  | .textTable ity _ scales pdef _ =>
    -- [fix c07-texttable-validity]: type check first; a default *physical* value makes every internal value
    -- convertible (the unfixed code looks at the default *internal* value and does not check the type)
    if !typeOk ity v then .ok false
    else if pdef.isSome then .ok true else anyR (·.applies v) scales

/-- `is_valid_physical_value` -/
def Method.validP (m : Method) (v : Val) : R Bool :=
  match m with
  | .identical _ pty => .ok (typeOk pty v)
  | .compuCode => .ok false
  | .linear s => s.physApplies v
  | .scaleLinear segs inv =>
    -- [fix c07-scale-linear-valid-physical]: nothing is encodable by a non-invertible method
    if !inv then .ok false else anyR (·.physApplies v) segs
  | .tabIntp _ pty _ ppts =>
    match v.num? with
    | none => .ok false
    | some x => .ok (typeOk pty v && decide (minList ppts ≤ x ∧ x ≤ maxList ppts))
  | .ratFunc _ bwd =>
    match bwd with
    | none => .ok false
    | some b => b.applies v
  | .scaleRatFunc _ bwd =>
    match bwd with
    | none => .ok false
    | some bs => anyR (·.applies v) bs
  | .textTable _ pty scales _ idef =>
    -- [fix c07-texttable-validity]: type check first; a default *internal* value makes every physical value encodable
    if !typeOk pty v then .ok false
    else if idef.isSome then .ok true
    else .ok (scales.any fun sc => match sc.const with | some c => c.pyEq v | none => false)

end OdxVerif.Compu
