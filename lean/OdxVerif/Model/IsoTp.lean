import OdxVerif.Common.Sexp
/-! Executable model of `odxtools/isotp_state_machine.py` (`IsoTpStateMachine.decode_rx_frame`,
    `IsoTpActiveDecoder`), branch by branch. Core Lean only.

    Python ↔ model
    * `_telegram_specified_len[i]`, `_telegram_data[i]`, `_telegram_last_rx_fragment_idx[i]` ↔ `Slot`
    * `self._can_rx_ids.index(rx_id)` ↔ `List.idxOf?`-style lookup `slotIndex`
    * callbacks `on_*` and `yield` ↔ the event list returned by `step`
    * `IsoTpActiveDecoder` ↔ `ActSlot` / `activeStep`, which consumes the events of `step`. -/
namespace OdxVerif.IsoTp

structure Slot where
  specLen : Nat := 0
  data : Option Bytes := none
  last : Nat := 0
deriving Repr, DecidableEq, Inhabited

inductive Ev where
  | single (p : Bytes)                -- on_single_frame
  | first                             -- on_first_frame
  | consec (sn : Nat)                 -- on_consecutive_frame
  | flow (flag : Nat)                 -- on_flow_control_frame
  | seqErr (expected rx : Nat)        -- on_sequence_error
  | typeErr (ft : Nat)                -- on_frame_type_error
  | complete (p : Bytes)              -- on_telegram_complete
  | tele (p : Bytes)                  -- yield (rx_id, p)
deriving Repr, DecidableEq, Inhabited

/-- `decode_rx_frame` for the slot selected by the CAN ID -/
def step (s : Slot) (f : Bytes) : Slot × List Ev :=
  match f with
  | [] => (s, [])                                                  -- `if len(data) == 0: return`
  | b0 :: rest =>
    let ft := b0 / 16
    let lo := b0 % 16
    if ft = 0 then                                                 -- FRAME_TYPE_SINGLE
      if lo = 0 ∧ 8 < f.length then                                -- CAN-FD escape: length in byte 1
        let p := (rest.drop 1).take (rest.headD 0)
        (s, [.single p, .complete p, .tele p])
      else
        let p := rest.take lo
        (s, [.single p, .complete p, .tele p])
    else if ft = 1 then                                            -- FRAME_TYPE_FIRST
      match rest with
      | [] => (s, [])                                              -- `if len(data) < 2: return`
      | b1 :: pl => ({ specLen := lo * 256 + b1, data := some pl, last := 0 }, [.first])
    else if ft = 2 then                                            -- FRAME_TYPE_CONSECUTIVE
      let expected := (s.last + 1) % 16
      match s.data with
      | none => (s, [.seqErr expected lo])
      | some d =>
        if expected = lo then
          let d' := d ++ rest                                      -- in-place `+=` on the stored bytearray
          if s.specLen ≤ d'.length then
            ({ s with data := none, last := lo },
              [.consec lo, .complete (d'.take s.specLen), .tele (d'.take s.specLen)])
          else ({ s with data := some d', last := lo }, [.consec lo])
        else (s, [.consec lo, .seqErr expected lo])
    else if ft = 3 then (s, [.flow lo])                            -- FRAME_TYPE_FLOW_CONTROL
    else (s, [.typeErr ft])

/-- one receive slot fed with a list of frames -/
def run (s : Slot) : List Bytes → Slot × List Ev
  | [] => (s, [])
  | f :: fs => let r := step s f; let rs := run r.1 fs; (rs.1, r.2 ++ rs.2)

def telegrams (es : List Ev) : List Bytes := es.filterMap fun | .tele p => some p | _ => none

/-! ### several CAN IDs -/

structure St where
  ids : List Nat
  slots : List Slot
deriving Repr, DecidableEq

def St.init (ids : List Nat) : St := { ids := ids, slots := ids.map fun _ => {} }

/-- `self._can_rx_ids.index(rx_id)` (first occurrence) or `ValueError` -/
def slotIndex : List Nat → Nat → Option Nat
  | [], _ => none
  | i :: is, x => if i = x then some 0 else (slotIndex is x).map (· + 1)

def feed (st : St) (fr : Nat × Bytes) : St × List (Nat × Ev) :=
  match slotIndex st.ids fr.1 with
  | none => (st, [])                                               -- unknown CAN ID
  | some k =>
    let r := step (st.slots.getD k {}) fr.2
    ({ st with slots := st.slots.set k r.1 }, r.2.map fun e => (fr.1, e))

def feedAll (st : St) : List (Nat × Bytes) → St × List (Nat × Ev)
  | [] => (st, [])
  | f :: fs => let r := feed st f; let rs := feedAll r.1 fs; (rs.1, r.2 ++ rs.2)

def telegramsOf (i : Nat) (es : List (Nat × Ev)) : List Bytes :=
  telegrams ((es.filter fun e => e.1 = i).map (·.2))

/-! ### active decoder: flow-control generation, driven by the callbacks of `step` -/

structure ActSlot where
  blockSize : Option Nat := none
  received : Option Nat := none
deriving Repr, DecidableEq, Inhabited

/-- `bitstruct.pack("u4u4u8u8", FLOW_CONTROL, CONTINUE, block_size, 0)` then `_send_can_message` padding -/
def fcFrame (blockSize padSize padVal : Nat) : Bytes :=
  let p := [0x30, blockSize % 256, 0]
  p ++ List.replicate (padSize - p.length) padVal

/-- effect of one callback on the active decoder's bookkeeping; returns the frames sent -/
def actOn (padSize padVal : Nat) (a : ActSlot) : Ev → ActSlot × List Bytes
  | .single _ => ({ a with received := none }, [fcFrame 0xFF padSize padVal])
  | .first => ({ blockSize := some 0xFF, received := some 0 }, [fcFrame 0xFF padSize padVal])
  | .consec _ =>
    match a.received with
    | none => (a, [])
    | some n =>
      match a.blockSize with
      | some bs => if bs ≤ n then ({ a with received := some 0 }, [fcFrame bs padSize padVal])
                   else ({ a with received := some (n + 1) }, [])
      | none => ({ a with received := some (n + 1) }, [])
  | _ => (a, [])

def actOnAll (padSize padVal : Nat) (a : ActSlot) : List Ev → ActSlot × List Bytes
  | [] => (a, [])
  | e :: es => let r := actOn padSize padVal a e; let rs := actOnAll padSize padVal r.1 es; (rs.1, r.2 ++ rs.2)

end OdxVerif.IsoTp
