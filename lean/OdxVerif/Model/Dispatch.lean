import OdxVerif.Common.Sexp
/-! Model of message dispatch (property C06): which services of a diagnostic layer a byte string is
    attributed to. Core Lean only (linked into `drv_dispatch`).

    Mirrors, branch by branch (after the `fix:` patches `fixes/c06-*.patch`):
    * `odxtools/codec.py`            `composite_codec_get_coded_const_prefix`   → `codedConstPrefix`
    * `odxtools/diaglayers/diaglayer.py`
        `_extend_prefix_tree`                                                    → `Trie.insert`
        `_prefix_tree`                                                           → `buildTree`
        `_find_services_for_uds`                                                 → `Trie.walk`
        `_decode`                                                                → `decodeCandidates`
        `decode` / `decode_response`                                             → `decode` / `decodeResponse`
    * `odxtools/diagservice.py`      `DiagService.decode_message`               → `decodeMessage`
    * `odxtools/servicebinner.py`    `ServiceBinner.__init__/__extract_sid/__getitem__` → `serviceGroups`, `extractSid`, `groupOf`

    Abstraction boundary: whether ONE coding object decodes a message is the business of C01–C05. Here it
    is an *oracle* `dec : Coding → Bytes → Outcome` (`request.decode(M)` etc. on the real code), and the
    bytes a single constant parameter encodes to are part of the description (`Param.const bs`). -/
namespace OdxVerif.Dispatch

/-- what `coding_object.decode(M)` does: returns a dictionary | raises `DecodeMismatch` | raises another
    `DecodeError` | raises anything else -/
inductive Outcome where
  | ok | mismatch | error | foreign
deriving DecidableEq, Repr, Inhabited

/-- the three kinds of parameter `composite_codec_get_coded_const_prefix` distinguishes -/
inductive Param where
  /-- CODED-CONST or PHYS-CONST together with the bytes `param.encode_into_pdu(None, …)` appends -/
  | const (bs : Bytes)
  /-- MATCHING-REQUEST-PARAM: `request_byte_position`, `byte_length` -/
  | matchReq (pos len : Nat)
  /-- every other parameter (VALUE, NRC-CONST, RESERVED, …) -/
  | other
deriving DecidableEq, Repr, Inhabited

/-- a request, a positive/negative response or a global negative response -/
structure Coding where
  name : Nat
  params : List Param
deriving DecidableEq, Repr, Inhabited

structure Service where
  name : Nat
  request : Option Coding
  pos : List Coding
  neg : List Coding
deriving DecidableEq, Repr, Inhabited

structure Layer where
  services : List Service
  gnrs : List Coding
deriving Repr, Inhabited

abbrev Oracle := Coding → Bytes → Outcome

/-- exceptions that leave `DiagLayer.decode`: `DecodeError` (incl. `DecodeMismatch`) or anything else -/
inductive Err where
  | decode | foreign
deriving DecidableEq, Repr, Inhabited

/-! ### `composite_codec_get_coded_const_prefix(codec, request_prefix)` -/

/-- the `for param in codec.parameters` loop; `acc` is `encode_state.coded_message` -/
def codedConstPrefixLoop (reqPrefix : Bytes) : List Param → Bytes → Bytes
  | [], acc => acc                                       -- return encode_state.coded_message
  | .const bs :: ps, acc =>                              -- isinstance(param, (CodedConst…, PhysicalConstant…))
    codedConstPrefixLoop reqPrefix ps (acc ++ bs)        --   param.encode_into_pdu(None, encode_state)
  | .matchReq pos len :: ps, acc =>
    -- isinstance(param, MatchingRequestParameter) and
    --   param.request_byte_position + param.byte_length <= len(request_prefix)     [fix c06-matching-request-beyond-prefix]
    if pos + len ≤ reqPrefix.length then
      -- encode_state.emplace_bytes(triggering_request[rq_pos:rq_pos + rq_len])
      codedConstPrefixLoop reqPrefix ps (acc ++ (reqPrefix.drop pos).take len)
    else acc                                             -- else: break
  | .other :: _, acc => acc                              -- else: break

def codedConstPrefix (reqPrefix : Bytes) (c : Coding) : Bytes :=
  codedConstPrefixLoop reqPrefix c.params []

/-- `request_prefix = b''; if s.request is not None: request_prefix = s.request.coded_const_prefix()` -/
def requestPrefix (s : Service) : Bytes :=
  match s.request with
  | none => []
  | some r => codedConstPrefix [] r

/-! ### The prefix tree: a `dict` from bytes to sub-trees with the leaf list under key `-1`

    `child b sub rest` is the dictionary entry `b ↦ sub` followed by the remaining entries (insertion
    order); `tip leaf` ends the entry list and carries the node's leaf list (`[]` = key `-1` absent). -/
inductive Trie (α : Type) where
  | tip (leaf : List α)
  | child (b : Byte) (sub : Trie α) (rest : Trie α)
deriving Repr, Inhabited

namespace Trie
variable {α : Type}

/-- `sub_tree.get(-1)` (`[]` when absent) -/
def leaf : Trie α → List α
  | tip l => l
  | child _ _ r => r.leaf

/-- `sub_tree[b]` if `b in sub_tree` -/
def find? (b : Byte) : Trie α → Option (Trie α)
  | tip _ => none
  | child b' t r => if b = b' then some t else r.find? b

/-- `sub_tree[-1] = [service]` / `sub_tree[-1].append(service)` -/
def addLeaf (x : α) : Trie α → Trie α
  | tip l => tip (l ++ [x])
  | child b t r => child b t (r.addLeaf x)

/-- a fresh path: `sub_tree[b] = {}` for every remaining byte, then the leaf -/
def chain (x : α) : Bytes → Trie α
  | [] => tip [x]
  | b :: bs => child b (chain x bs) (tip [])

/-- `_extend_prefix_tree(prefix_tree, coded_prefix, service)` -/
def insert (x : α) : Bytes → Trie α → Trie α
  | [], t => t.addLeaf x
  | b :: bs, tip l => child b (chain x bs) (tip l)        -- if b not in sub_tree: sub_tree[b] = {}
  | b :: bs, child b' t r =>
    if b = b' then child b' (insert x bs t) r             -- sub_tree = sub_tree[b]
    else child b' t (insert x (b :: bs) r)
termination_by structural _ t => t

/-- `_find_services_for_uds`: `for b in message: if b in tree: tree = tree[b] else: break;
    if -1 in tree: possible_services += tree[-1]`. The leaf list of the *root* is never consulted. -/
def walk : Trie α → Bytes → List α
  | _, [] => []
  | t, b :: m =>
    match t.find? b with
    | none => []                                         -- break
    | some t' => t'.leaf ++ walk t' m
end Trie

/-! ### `DiagLayer._prefix_tree` -/

/-- `prefixes = [request_prefix] + [x.coded_const_prefix(request_prefix) for x in chain(pos, neg, gnrs)]` -/
def treePrefixes (L : Layer) (s : Service) : List Bytes :=
  requestPrefix s :: (s.pos ++ s.neg ++ L.gnrs).map (codedConstPrefix (requestPrefix s))

/-- `for s in self.services: … for coded_prefix in prefixes: self._extend_prefix_tree(…)` -/
def buildTree (L : Layer) : Trie Service :=
  L.services.foldl (fun t s => (treePrefixes L s).foldl (fun t p => t.insert s p) t) (.tip [])

/-! ### `DiagService.decode_message(raw_message)` -/

/-- `candidate_coding_objects = [*positive_responses, *negative_responses]` + `[request]` -/
def candidateCodings (s : Service) : List Coding :=
  s.pos ++ s.neg ++ s.request.toList

/-- the loop over `coding_objects`: collects the coding objects which decode; `DecodeMismatch` and any
    other `DecodeError` are skipped [fix c06-coding-object-error-aborts-service]; other exceptions propagate -/
def collectResults (dec : Oracle) (M : Bytes) : List Coding → Except Err (List Coding)
  | [] => .ok []
  | co :: rest =>
    match dec co M with
    | .ok => (collectResults dec M rest).map (co :: ·)   -- result_list.append(Message(…))
    | .mismatch => collectResults dec M rest             -- except DecodeError: pass
    | .error => collectResults dec M rest
    | .foreign => .error .foreign

/-- returns the coding object of the `Message` -/
def decodeMessage (dec : Oracle) (strict : Bool) (s : Service) (M : Bytes) : Except Err Coding :=
  let rp := requestPrefix s
  -- if len(raw_message) >= len(prefix) and prefix == raw_message[:len(prefix)]
  let codingObjects := (candidateCodings s).filter fun co => (codedConstPrefix rp co).isPrefixOf M
  match collectResults dec M codingObjects with
  | .error e => .error e
  | .ok [] => .error .decode            -- raise DecodeError("… cannot decode the message"), in both modes [fix 460d650]
  | .ok [co] => .ok co
  | .ok (co :: _ :: _) => if strict then .error .decode else .ok co   -- odxraise("cannot uniquely decode"); return result_list[0]

/-! ### `DiagLayer._decode(message, candidate_services)` -/

/-- the `for gnr in self.global_negative_responses` loop for one service -/
def gnrResults (dec : Oracle) (rp : Bytes) (M : Bytes) : List Coding → Except Err (List Coding)
  | [] => .ok []
  | g :: rest =>
    -- if message[:len(gnr_prefix)] != gnr_prefix: continue        [fix c06-gnr-constant-prefix]
    if (codedConstPrefix rp g).isPrefixOf M then
      match dec g M with
      | .ok => (gnrResults dec rp M rest).map (g :: ·)
      | .mismatch => gnrResults dec rp M rest                      -- except DecodeError: pass
      | .error => gnrResults dec rp M rest
      | .foreign => .error .foreign
    else gnrResults dec rp M rest

/-- a reported `Message`: its service and its coding object -/
abbrev Msg := Service × Coding

/-- the `for service in candidate_services` loop -/
def decodeLoop (dec : Oracle) (strict : Bool) (L : Layer) (M : Bytes) : List Service → Except Err (List Msg)
  | [] => .ok []
  | s :: rest =>
    match decodeMessage dec strict s M with
    | .ok co => (decodeLoop dec strict L M rest).map ((s, co) :: ·)
    | .error .decode =>                                            -- except DecodeError:
      match gnrResults dec (requestPrefix s) M L.gnrs with
      | .error e => .error e
      | .ok gs =>
        -- if not gnr_found: continue                               [fix c06-candidate-error-aborts-decode]
        (decodeLoop dec strict L M rest).map (gs.map (fun g => (s, g)) ++ ·)
    | .error .foreign => .error .foreign

def decodeCandidates (dec : Oracle) (strict : Bool) (L : Layer) (M : Bytes) (cands : List Service) :
    Except Err (List Msg) :=
  match decodeLoop dec strict L M cands with
  | .error e => .error e
  | .ok [] => .error .decode                                        -- raise DecodeError("None of the services …")
  | .ok ms => .ok ms

/-- `DiagLayer.decode(message)` -/
def decode (dec : Oracle) (strict : Bool) (L : Layer) (M : Bytes) : Except Err (List Msg) :=
  decodeCandidates dec strict L M ((buildTree L).walk M)

/-- `DiagLayer.decode_response(response, request)` -/
def decodeResponse (dec : Oracle) (strict : Bool) (L : Layer) (response request : Bytes) : Except Err (List Msg) :=
  decodeCandidates dec strict L response ((buildTree L).walk request)

/-! ### `ServiceBinner` -/

/-- `__extract_sid` [fix c06-servicebinner-phys-const]: the first byte of the request's constant prefix -/
def extractSid (s : Service) : Option Byte :=
  match s.request with
  | none => none                                                    -- if service.request is None: return None
  | some r => (codedConstPrefix [] r).head?                         -- prefix[0] if len(prefix) >= 1 else None

/-- `service_groups[SID].append(service)` on an insertion-ordered dictionary -/
def addToGroup (k : Option Byte) (s : Service) : List (Option Byte × List Service) → List (Option Byte × List Service)
  | [] => [(k, [s])]                                                -- if SID not in service_groups: service_groups[SID] = NamedItemList()
  | (k', ss) :: rest => if k = k' then (k', ss ++ [s]) :: rest else (k', ss) :: addToGroup k s rest

def serviceGroups (L : Layer) : List (Option Byte × List Service) :=
  L.services.foldl (fun g s => addToGroup (extractSid s) s g) []

/-- `ServiceBinner.__getitem__(sid)`: `self._service_groups.get(sid, NamedItemList())` -/
def groupOf (g : List (Option Byte × List Service)) (k : Option Byte) : List Service :=
  match g.lookup k with
  | some ss => ss
  | none => []

end OdxVerif.Dispatch
