import OdxVerif.Model.Bits
import OdxVerif.Model.OdxM
import OdxVerif.Model.Text
/-! Model of `EncodeState.emplace_atomic_value`, `EncodeState.emplace_bytes`,
    `DecodeState.extract_atomic_value` (odxtools/encodestate.py, decodestate.py). Core Lean only. -/
namespace OdxVerif.Codec
open OdxVerif.Bits OdxVerif.OdxM

inductive BaseType | int32 | uint32 | float32 | float64 | ascii | utf8 | unicode2 | bytefield
deriving Repr, DecidableEq, Inhabited

inductive Enc | bcdp | bcdup | onec | twoc | sm | utf8 | ucs2 | iso1 | iso2 | cp1252 | none_
deriving Repr, DecidableEq, Inhabited

def BaseType.isNumeric : BaseType → Bool
  | .int32 | .uint32 | .float32 | .float64 => true
  | _ => false

def BaseType.isString : BaseType → Bool
  | .ascii | .utf8 | .unicode2 => true
  | _ => false

/-- internal (coded) values: Python `int`, `bytes`, `str` (code points), `float` (binary64 bit pattern) -/
inductive IVal where
  | int (i : Int)
  | bytes (b : Bytes)
  | str (cps : List Nat)
  | flt (bits : Nat)
deriving Repr, DecidableEq, Inhabited

/-- `get_string_encoding` (encoding.py): `none` = the illegal-encoding branch (odxraise, then latin-1) -/
def stringCodec (bt : BaseType) (enc : Option Enc) (hl : Bool) : Option Text.Codec :=
  if enc = some .utf8 ∨ (bt = .utf8 ∧ enc = none) then some .utf8
  else if enc = some .ucs2 ∨ (bt = .unicode2 ∧ enc = none) then some (if hl then .utf16be else .utf16le)
  else if enc = some .iso1 ∨ (bt = .ascii ∧ enc = none) then some .latin1
  else if enc = some .iso2 then some .latin2
  else if enc = some .cp1252 then some .cp1252
  else none

structure EncState where
  msg : Bytes := []
  used : Bytes := []
  origin : Nat := 0
  cursorByte : Nat := 0
  cursorBit : Nat := 0
  trig : Option Bytes := none
  lengthKeys : List (String × Int) := []
  tableKeys : List (String × String) := []
  keyPos : List (String × Nat) := []
  isEndOfPdu : Bool := true
  warn : Nat := 0                                  -- number of OdxWarning("Overlapping objects …") issued
deriving Repr, Inhabited

abbrev EncM := OdxM EncState

/-- does any byte of `used[pos:pos+n]` share a bit with the mask bytes? -/
def overlapCount : Bytes → Bytes → Nat
  | u :: us, m :: ms => (if u &&& m ≠ 0 then 1 else 0) + overlapCount us ms
  | _, _ => 0

def mergeBytes : Bytes → Bytes → Bytes → Bytes            -- old, new, mask
  | o :: os, n :: ns, m :: ms => (((o ||| m) ^^^ m) ||| (n &&& m)) :: mergeBytes os ns ms
  | _, _, _ => []

def orBytes : Bytes → Bytes → Bytes
  | a :: as, b :: bs => (a ||| b) :: orBytes as bs
  | _, _ => []

/-- masked write of `new` at byte `pos` (message zero-extended as needed) -/
def placeBytes (msg : Bytes) (pos : Nat) (new mask : Bytes) : Bytes :=
  let m := padTo msg (pos + new.length)
  m.take pos ++ mergeBytes ((m.drop pos).take new.length) new mask ++ m.drop (pos + new.length)

/-- the used-bit mask after a masked write -/
def placeUsed (used : Bytes) (pos : Nat) (n : Nat) (mask : Bytes) : Bytes :=
  let u := padTo used (pos + n)
  u.take pos ++ orBytes ((u.drop pos).take n) (mask.take n) ++ u.drop (pos + n)

/-- `EncodeState.emplace_bytes(new_data, obj_used_mask=mask)`; `msg` and `used` have equal length
    (`__post_init__`), so extending both by the same pad keeps them aligned -/
def emplaceBytes (new : Bytes) (mask : Option Bytes) : EncM Unit := do
  let s ← getS
  if s.cursorBit ≠ 0 then odxraise .foreign                -- odxraise(…, RuntimeError)
  let pos := s.cursorByte
  let n := new.length
  let used := s.used ++ List.replicate ((padTo s.msg (pos + n)).length - s.msg.length) 0   -- `used_mask += pad`
  match mask with
  | none =>
    let msg := padTo s.msg (pos + n)
    let ov := ((used.drop pos).take n).any (· ≠ 0)
    setS { s with msg := msg.take pos ++ new ++ msg.drop (pos + n),
                  used := used.take pos ++ List.replicate n 255 ++ used.drop (pos + n),
                  warn := s.warn + (if ov then 1 else 0), cursorByte := pos + n }
  | some m =>
    if m.length < n then raise .foreign                    -- obj_used_mask[i] → IndexError
    else
      let oldUsed := (used.drop pos).take n
      setS { s with msg := placeBytes s.msg pos new m,
                    used := placeUsed used pos n m,
                    warn := s.warn + overlapCount oldUsed m, cursorByte := pos + n }

/-- the four encodings `emplace_atomic_value` knows for `A_INT32` -/
def int32Known (enc : Option Enc) : Bool :=
  enc = none || enc = some .onec || enc = some .twoc || enc = some .sm

/-- `min_value <= internal_value <= max_value` for the encoding -/
def int32RangeOk (enc : Option Enc) (bl : Nat) (v : Int) : Bool :=
  let signBit : Int := if bl > 0 then 2 ^ (bl - 1) else 0
  let maxV : Int := max (signBit - 1) 0
  let minV : Int := if enc = none ∨ enc = some .twoc then -signBit else -maxV
  decide (minV ≤ v) && decide (v ≤ maxV)

/-- the raw value before the final range check (a Python `int`, possibly negative in lenient mode) -/
def int32Raw (enc : Option Enc) (bl : Nat) (v : Int) : Int :=
  let signBit : Int := if bl > 0 then 2 ^ (bl - 1) else 0
  if enc = some .onec then (if v ≥ 0 then v else (2 ^ bl - 1) + v)
  else if enc = none ∨ enc = some .twoc then (if v ≥ 0 then v else (2 ^ bl - 1) + v + 1)
  else if enc = some .sm then (if v ≥ 0 then v else signBit + v.natAbs)
  else if enc = some .bcdp then Int.ofNat (bcdEnc 4 v.natAbs v.natAbs)
  else if enc = some .bcdup then Int.ofNat (bcdEnc 8 v.natAbs v.natAbs)
  else v

/-- raw (unsigned) representation of an `A_INT32` internal value -/
def rawOfInt32 (enc : Option Enc) (bl : Nat) (v : Int) : EncM Nat := do
  if int32Known enc && !int32RangeOk enc bl v then odxraise .encode
  if !int32Known enc then odxraise .odx                      -- illegal encoding for A_INT32
  let raw := int32Raw enc bl v
  if raw < 0 ∨ bitLength raw.toNat > bl then
    odxraise .encode
    pure (raw % 2 ^ bl).toNat
  else pure raw.toNat

/-- raw representation of an `A_UINT32` internal value -/
def rawOfUInt32 (enc : Option Enc) (bl : Nat) (v : Int) : EncM Nat := do
  if v < 0 then odxraise .odx                                -- "must be a positive integer" (plain OdxError)
  let a := v.natAbs
  let raw ←
    if enc = some .bcdp then pure (bcdEnc 4 a a)
    else if enc = some .bcdup then pure (bcdEnc 8 a a)
    else if enc = none ∨ enc = some .none_ then pure a
    else do odxraise .odx; pure a
  if bitLength raw > bl then
    odxraise .encode
    pure (raw % 2 ^ bl)
  else pure raw

/-- truncate / pad the payload of byte fields and strings to `bit_length` -/
def fitBytes (raw : Bytes) (bl : Nat) : EncM Bytes := do
  if 8 * raw.length > bl then
    odxraise .encode
    pure (raw.take (bl / 8))
  else if 8 * raw.length < bl then
    odxraise .encode
    if bl > 1048576 then raise .unmodelled                     -- lenient mode would pad to an absurd length
    pure (raw ++ List.replicate ((bl + 7) / 8 - raw.length) 0)
  else pure raw

/-- `EncodeState.emplace_atomic_value` -/
def emplaceAtomic (v : IVal) (bl : Nat) (bt : BaseType) (enc : Option Enc) (hl : Bool)
    (usedMask : Option Bytes) : EncM Unit := do
  -- integer objects cannot be longer than 64 bits (the limit of the bitstruct module): unconditional EncodeError
  if (bt = .int32 ∨ bt = .uint32) ∧ bl > 64 then raise .encode
  -- the value as the number handed to bitstruct (`u`, `r`, `f` formats all produce big-endian bits)
  let (raw, bl) ← (match bt with
    | .bytefield => do
      match v with
      | .bytes b =>
        odxassert (enc = none ∨ enc = some .none_ ∨ enc = some .bcdp ∨ enc = some .bcdup)
        let r ← fitBytes b bl
        if 8 * r.length < bl then raise .foreign              -- bitstruct: "Short raw data"
        pure (ofBytesBE r / 2 ^ (8 * r.length - bl), bl)
      | _ => do odxraise .encode; raise .unmodelled          -- lenient: `return` without emplacing anything
    | .ascii | .utf8 | .unicode2 => do
      match v with
      | .str cps =>
        let codec ← (match stringCodec bt enc hl with
          | some c => pure c
          | none => do odxraise .odx; pure Text.Codec.latin1)
        let r0 ← (match Text.encode codec cps with
          | some r => pure r
          | none => do odxraise .encode; raise .unmodelled)   -- lenient: errors="replace"
        let r ← fitBytes r0 bl
        if 8 * r.length < bl then raise .foreign
        pure (ofBytesBE r / 2 ^ (8 * r.length - bl), bl)
      | _ => do odxraise .encode; raise .unmodelled           -- lenient: str(internal_value)
    | .int32 => do
      match v with
      | .int i => do let r ← rawOfInt32 enc bl i; pure (r, bl)
      | _ => do odxraise .encode; raise .unmodelled           -- lenient: int(internal_value)
    | .uint32 => do
      match v with
      | .int i => do let r ← rawOfUInt32 enc bl i; pure (r, bl)
      | _ => do odxraise .odx; raise .unmodelled
    | .float32 => do
      odxassert (enc = none ∨ enc = some .none_)
      if bl ≠ 32 then odxraise .odx
      match v with
      | .flt bits => (match Text.f64to32? bits with
          | some r => pure (r, 32)
          | none => raise .unmodelled)                         -- rounding / overflow to binary32 is outside the model
      | .int _ => raise .unmodelled                            -- float(int)
      | _ => do odxraise .encode; raise .unmodelled            -- not a number
    | .float64 => do
      odxassert (enc = none ∨ enc = some .none_)
      if bl ≠ 64 then odxraise .odx
      match v with
      | .flt bits => pure (bits, 64)
      | .int _ => raise .unmodelled
      | _ => do odxraise .encode; raise .unmodelled)
  if bl = 0 then emplaceBytes [] none
  else if !bt.isNumeric && bl % 8 ≠ 0 then raise .unmodelled   -- `r<n>`, n % 8 ≠ 0: outside the envelope
  else
    let s ← getS
    let bp := s.cursorBit
    let k := (bl + bp + 7) / 8
    -- bitstruct.pack(f"p{padding}{fmt}{bl}", raw): needs 0 ≤ raw < 2^bl
    if raw ≥ 2 ^ bl then raise .foreign
    else
      let coded := toBytesBE k (raw * 2 ^ bp)
      let maskNum ← (match usedMask with
        | none => pure (2 ^ bl - 1)
        | some m => pure (ofBytesBE m))
      let maskRaw ←
        if bp ≠ 0 ∨ usedMask.isNone then
          -- `tmp.to_bytes(k, "big")` overflows if the given mask is wider than the object
          (if maskNum * 2 ^ bp ≥ 256 ^ k then raise .foreign else pure (toBytesBE k (maskNum * 2 ^ bp)))
        else pure (usedMask.getD [])
      let rev := !hl && bt.isNumeric
      setS { s with cursorBit := 0 }
      emplaceBytes (if rev then coded.reverse else coded) (some (if rev then maskRaw.reverse else maskRaw))

/-! ### decoding -/

structure DecState where
  msg : Bytes
  origin : Nat := 0
  cursorByte : Nat := 0
  cursorBit : Nat := 0
  lengthKeys : List (String × Int) := []
  tableKeys : List (String × String) := []
deriving Repr, Inhabited

abbrev DecM := OdxM DecState

/-- interpretation of the raw bits of an `A_INT32` object (`bl ≥ 1`) -/
def int32OfRaw (enc : Option Enc) (bl raw : Nat) : Int :=
  let signBit := 2 ^ (bl - 1)
  if enc = some .onec then (if raw < signBit then raw else -((2 ^ bl : Nat) - raw - 1 : Int))
  else if enc = none ∨ enc = some .twoc then (if raw < signBit then raw else -((2 ^ bl : Nat) - raw : Int))
  else if enc = some .sm then (if raw < signBit then raw else -((raw : Int) - signBit))
  else if enc = some .bcdp then bcdDec 4 raw raw                  -- only after an odxraise in lenient mode
  else if enc = some .bcdup then bcdDec 8 raw raw
  else raw

/-- interpretation of the raw bits of an `A_UINT32` object -/
def uint32OfRaw (enc : Option Enc) (raw : Nat) : Int :=
  if enc = some .bcdp then bcdDec 4 raw raw
  else if enc = some .bcdup then bcdDec 8 raw raw
  else raw

/-- `base_data_type.python_type()` for a zero bit length -/
def emptyValue : BaseType → IVal
  | .int32 | .uint32 => .int 0
  | .float32 | .float64 => .flt 0
  | .bytefield => .bytes []
  | _ => .str []

/-- interpretation of the extracted raw bits according to base type and encoding -/
def convertRaw (bt : BaseType) (enc : Option Enc) (hl : Bool) (bl raw : Nat) : DecM IVal :=
  match bt with
  | .bytefield => do
    odxassert (enc = none ∨ enc = some .none_ ∨ enc = some .bcdp ∨ enc = some .bcdup)
    -- `r<bl>`: ceil(bl/8) bytes, value bits left-aligned
    pure (IVal.bytes (toBytesBE ((bl + 7) / 8) (raw * 2 ^ ((8 - bl % 8) % 8))))
  | .ascii | .utf8 | .unicode2 => do
    let bytes := toBytesBE ((bl + 7) / 8) (raw * 2 ^ ((8 - bl % 8) % 8))
    let codec ← (match stringCodec bt enc hl with
      | some c => pure c
      | none => do odxraise .odx; pure Text.Codec.latin1)
    match Text.decode codec bytes with
    | some cps => pure (IVal.str cps)
    | none => do odxraise .decode; raise .unmodelled              -- lenient: errors="replace"
  | .int32 => do
    if ¬ (enc = none ∨ enc = some .onec ∨ enc = some .twoc ∨ enc = some .sm) then odxraise .odx
    pure (IVal.int (int32OfRaw enc bl raw))
  | .uint32 => do
    if ¬ (enc = none ∨ enc = some .none_ ∨ enc = some .bcdp ∨ enc = some .bcdup) then odxraise .odx
    pure (IVal.int (uint32OfRaw enc raw))
  | .float32 => do
    odxassert (enc = none ∨ enc = some .none_)
    match Text.f32to64? raw with
    | some b => pure (IVal.flt b)
    | none => raise .unmodelled
  | .float64 => do
    odxassert (enc = none ∨ enc = some .none_)
    pure (IVal.flt raw)

/-- the part of `extract_atomic_value` after the bit length has been settled -/
def extractCore (bl : Nat) (bt : BaseType) (enc : Option Enc) (hl : Bool) : DecM IVal := do
  let s ← getS
  let bp := s.cursorBit
  let k := (bl + bp + 7) / 8
  if (bt = .int32 ∨ bt = .uint32) ∧ bl > 64 then raise .decode   -- integer objects cannot be longer than 64 bits
  else if s.cursorByte + k > s.msg.length then raise .decode     -- "Expected a longer message."
  else
    let rev := !hl && bt.isNumeric
    let n := readNum s.msg s.cursorByte k (!rev)
    let raw := n / 2 ^ bp % 2 ^ bl
    let v ← convertRaw bt enc hl bl raw
    modifyS fun s => { s with cursorByte := s.cursorByte + k, cursorBit := 0 }
    pure v

/-- `DecodeState.extract_atomic_value` -/
def extractAtomic (bl : Nat) (bt : BaseType) (enc : Option Enc) (hl : Bool) : DecM IVal := do
  if bl = 0 then pure (emptyValue bt)
  else if !bt.isNumeric && bl % 8 ≠ 0 then raise .decode      -- byte fields and strings: whole bytes only
  else if bt = .float32 ∧ bl ≠ 32 then do odxraise .odx; extractCore 32 bt enc hl
  else if bt = .float64 ∧ bl ≠ 64 then do odxraise .odx; extractCore 64 bt enc hl
  else extractCore bl bt enc hl

end OdxVerif.Codec
