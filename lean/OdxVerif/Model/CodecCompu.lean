import OdxVerif.Model.Atomic
import OdxVerif.Model.Compu
/-! Compu methods inside the composite codec (`DataObjectProperty.encode_into_pdu / decode_from_pdu`,
    `DtcDop`, `LengthKeyParameter`): LINEAR and TEXTTABLE, on top of the exact-rational model of the compu
    methods (`Model/Compu.lean`, property C07).  What this file adds to that model:

    * the conversion between the codec's internal values (`IVal`: Python `int`, `bytes`, `str`, `float` as a
      binary64 bit pattern) and the compu model's values (`Compu.Val`: `int`, `float` as the exact rational, `str`);
    * **both modes**: `Compu.Method.i2p / p2i` are the strict-mode functions; here every `odxraise` site of
      `linearcompumethod.py`, `linearsegment.py`, `texttablecompumethod.py` is a call of `OdxM.odxraise`, followed by
      what the Python code does when `odxraise` returns (or `unmodelled` where that continuation is not followed);
    * an **exactness guard**: odxtools computes LINEAR conversions in binary64.  The model computes over `Rat`; it
      answers only when every intermediate value of the Python expression is exactly representable and the final
      rounding (`round`, or the correctly rounded division) provably gives the exact-rational result
      (`exactI`, `exactP`, `exactDesc`); everything else is `unmodelled`.

    Core Lean only. -/
namespace OdxVerif.Codec
open OdxVerif.OdxM OdxVerif.Bits
open OdxVerif.Compu (Val DType Method LinSeg Scale Limit)

/-- LINEAR as the harness describes it: `phys = (num0 + num1·x)/den`, integer coefficients; optional limits on the
    internal value: `(value, is OPEN)` -/
structure LinDesc where
  num0 : Int
  num1 : Int
  den : Int
  lower : Option (Int × Bool)
  upper : Option (Int × Bool)
deriving Repr, Inhabited, DecidableEq

/-- one COMPU-SCALE of a TEXTTABLE: LOWER-LIMIT, UPPER-LIMIT (both CLOSED), text (code points), optional COMPU-INVERSE-VALUE -/
structure TScale where
  lo : IVal
  hi : IVal
  text : List Nat
  inv : Option IVal
deriving Repr, Inhabited, DecidableEq

def dtype? : BaseType → Option DType
  | .int32 => some .int32 | .uint32 => some .uint32 | .float32 => some .float32 | .float64 => some .float64
  | .ascii | .utf8 | .unicode2 => some .str
  | .bytefield => none

/-! ## values -/

/-- `d = 2^k` -/
def pow2? (d : Nat) : Option Nat :=
  if d ≠ 0 ∧ d &&& (d - 1) = 0 then some (Nat.log2 d) else none

/-- the exact value of a finite binary64 bit pattern (`-0.0`, infinities and NaN: `none`) -/
def f64ToRat? (b : Nat) : Option Rat :=
  if b ≥ 2 ^ 64 ∨ b = 2 ^ 63 then none
  else
    let sign := b / 2 ^ 63
    let e := b / 2 ^ 52 % 2048
    let f := b % 2 ^ 52
    if e = 2047 then none
    else
      let m : Nat := if e = 0 then f else 2 ^ 52 + f
      let ex : Nat := if e = 0 then 1 else e                     -- value = m · 2^(ex − 1075)
      let mag : Rat := if ex ≥ 1075 then (((m * 2 ^ (ex - 1075) : Nat) : Int) : Rat) else mkRat m (2 ^ (1075 - ex))
      some (if sign = 1 then -mag else mag)

/-- the bit pattern of the *normal* binary64 number equal to `q` — only for `q = a/2^k`, `|a| < 2^53`; a zero gets
    the sign `negZero` -/
def ratToF64? (q : Rat) (negZero : Bool) : Option Nat :=
  if q = 0 then some (if negZero then 2 ^ 63 else 0)
  else
    let a := q.num.natAbs
    match pow2? q.den with
    | none => none
    | some k =>
      let l := bitLength a
      if l > 53 ∨ k > 900 then none
      else
        let biased : Int := (l : Int) - 1 - k + 1023
        if biased < 1 ∨ biased > 2046 then none
        else some ((if q < 0 then 2 ^ 63 else 0) + biased.toNat * 2 ^ 52 + (a * 2 ^ (53 - l) - 2 ^ 52))

def strOfCps? (cps : List Nat) : Option String :=
  if cps.all (fun c => decide (Nat.isValidChar c)) then some (String.ofList (cps.map Char.ofNat)) else none

def toVal? : IVal → Option Val
  | .int i => some (.int i)
  | .flt b => (f64ToRat? b).map Val.flt
  | .str cps => (strOfCps? cps).map Val.str
  | .bytes _ => none

def ofVal? (v : Val) (negZero : Bool) : Option IVal :=
  match v with
  | .int i => some (.int i)
  | .flt q => (ratToF64? q negZero).map IVal.flt
  | .str s => some (.str (s.toList.map Char.toNat))

/-! ## exactness of the binary64 computation -/

/-- `q = a/2^k` with `|a| < 2^52`, `k ≤ 60`: exactly representable, and so is every sum/product of two such numbers
    that is again of this form -/
def small (q : Rat) : Bool :=
  match pow2? q.den with
  | some k => decide (k ≤ 60) && decide (q.num.natAbs < 2 ^ 52)
  | none => false

/-- `(offset + factor * x) / denominator`: product and sum are exact; with `|offset + factor·x| < 2^52` the correctly
    rounded quotient lies strictly on the same side of every half-integer as the exact one, so `round` agrees with
    `roundHalfEven`; a real result must be representable itself (checked where it is converted back) -/
def exactI (s : LinSeg) (x : Rat) : Bool :=
  small x && small (s.factor * x) && small (s.offset + s.factor * x)

/-- `(physical_value * denominator - offset) / factor` -/
def exactP (s : LinSeg) (p : Rat) : Bool :=
  small p && small (p * s.denom) && small (p * s.denom - s.offset)

def exactLimit (s : LinSeg) : Option Limit → Bool
  | none => true
  | some l =>
    match l.value with
    | none => true
    | some a =>
      match a.num? with
      | none => false
      | some x => exactI s x && s.denom != 0 && (s.pty.isInt || small ((s.offset + s.factor * x) / s.denom))

/-- the description as a whole: small coefficients, an integer internal type (real internal values are not
    followed), physical limits that `__compute_physical_limits` computes exactly -/
def exactDesc (s : LinSeg) : Bool :=
  small s.offset && small s.factor && small s.denom && s.ity.isInt && exactLimit s s.ilo && exactLimit s s.ihi

/-! ## construction (`create_any_compu_method_from_et` + `__post_init__`) -/

def LinDesc.limit (l : Option (Int × Bool)) : Option Limit :=
  l.map fun (v, o) => { value := some (.int v), itype := some (if o then .open_ else .closed) }

/-- the one COMPU-SCALE of the method -/
def LinDesc.scale (d : LinDesc) : Scale :=
  { lo := LinDesc.limit d.lower, hi := LinDesc.limit d.upper,
    coeffs := some ([(d.num0 : Rat), (d.num1 : Rat)], [(d.den : Rat)]) }

def LinDesc.desc (d : LinDesc) (ity pty : DType) : Compu.Desc :=
  { cat := .linear, ity := ity, pty := pty, i2p := some { scales := [d.scale] }, p2i := none }

/-- the LINEAR method object; `none`: the loader rejects the description, or it is outside the exactness guard -/
def linMethod? (d : LinDesc) (ity pty : BaseType) : Option Method := do
  let i ← dtype? ity
  let p ← dtype? pty
  match Compu.build (d.desc i p) with
  | .ok (.linear s) => if exactDesc s then some (.linear s) else none
  | _ => none

def TScale.scale? (t : TScale) : Option Scale := do
  let lo ← toVal? t.lo
  let hi ← toVal? t.hi
  let txt ← strOfCps? t.text
  let inv ← (match t.inv with
    | none => some none
    | some v => (toVal? v).map some)
  pure { lo := some { value := some lo, itype := none }, hi := some { value := some hi, itype := none },
         inv := inv, const := some (.str txt) }

def ttMethod? (scales : List TScale) (ity pty : BaseType) : Option Method := do
  let i ← dtype? ity
  let p ← dtype? pty
  let scs ← scales.mapM TScale.scale?
  match Compu.build { cat := .textTable, ity := i, pty := p, i2p := some { scales := scs }, p2i := none } with
  | .ok m => some m
  | .error _ => none

/-! ## conversions in both modes -/

/-- `CompuMethod.convert_physical_to_internal` (IDENTICAL, LINEAR, TEXTTABLE) -/
def methodP2I {σ : Type} (m : Method) (p : Val) : OdxM σ Val :=
  match m with
  | .identical _ _ => pure p
  | .linear s => do
    match s.physApplies p with
    | .ok true => pure ()
    | .ok false => odxraise .encode                                 -- linearcompumethod.py: "Cannot decode physical value"
    | .error _ => raise .unmodelled
    match p.num? with
    | none => do odxraise .odx; raise .unmodelled                   -- linearsegment.py: not int/float (lenient: TypeError …)
    | some y =>
      if !(Compu.absR s.factor < Compu.eps) && !exactP s y then raise .unmodelled   -- binary64 would round
      else match s.convP2I p with
        | .ok r => pure r
        | .error _ => raise .unmodelled
  | .textTable _ _ scales _ idef =>
    match scales.filter (fun sc => match sc.const with | some c => c.pyEq p | none => false) with
    | [] =>
      match idef with
      | some d => pure d
      | none => do odxraise .encode; raise .unmodelled              -- lenient: returns None
    | sc :: rest => do
      if !rest.isEmpty then odxraise .encode                        -- "could not uniquely encode"; lenient: the first match
      match sc.inverseValue with
      | .ok r => pure r
      | .error _ => do odxraise .encode; raise .unmodelled
  | _ => raise .unmodelled

/-- `CompuMethod.convert_internal_to_physical`; `none` = Python `None`; `arith` = what becomes of a
    ZeroDivisionError at the call site -/
def methodI2P {σ : Type} (arith : Err) (m : Method) (i : Val) : OdxM σ (Option Val) :=
  match m with
  | .identical _ _ => pure (some i)
  | .linear s => do
    match s.intApplies i with
    | .ok true => pure ()
    | .ok false => odxraise .decode                                 -- linearcompumethod.py: "Cannot decode internal value"
    | .error _ => raise .unmodelled
    match i.num? with
    | none => do odxraise .odx; raise .unmodelled
    | some x =>
      if s.denom = 0 then raise arith                               -- ZeroDivisionError
      else if !exactI s x then raise .unmodelled
      else match s.convI2P i with
        | .ok r => pure (some r)
        | .error _ => raise .unmodelled
  | .textTable _ _ scales pdef _ =>
    match Compu.filterR (·.applies i) scales with
    | .error _ => raise .unmodelled
    | .ok [] =>
      match pdef with
      | some d => pure (some d)
      | none => do odxraise .decode; pure none
    | .ok (sc :: rest) => do
      if !rest.isEmpty then odxraise .decode                        -- "could not uniquely decode"; lenient: the first match
      match sc.const with
      | some c => pure (some c)
      | none => do odxraise .odx; pure none
  | _ => raise .unmodelled

/-- the sign of a zero result of `(offset + factor·x)/denominator` in binary64: the numerator is `+0.0` -/
def negZeroOf : Method → Bool
  | .linear s => decide (s.denom < 0)
  | _ => false

/-- `DataObjectProperty.encode_into_pdu` up to the call of the diag-coded type -/
def dopP2I {σ : Type} (m : Method) (v : IVal) : OdxM σ IVal :=
  match v with
  | .bytes _ => raise .encode                                       -- no numeric / string type admits `bytes`
  | _ =>
    match toVal? v with
    | none => raise .unmodelled
    | some p =>
      match m.validP p with
      | .error _ => raise .unmodelled
      | .ok false => raise .encode                                  -- "is not a valid": unconditional
      | .ok true => do
        let i ← methodP2I m p
        match m.validI i with
        | .error _ => raise .unmodelled
        | .ok false => odxraise .encode                             -- "corresponds to the invalid internal value"
        | .ok true => pure ()
        match ofVal? i false with
        | some r => pure r
        | none => raise .unmodelled

/-- `DataObjectProperty.decode_from_pdu` behind the diag-coded type -/
def dopI2P {σ : Type} (m : Method) (v : IVal) : OdxM σ (Option IVal) :=
  match toVal? v with
  | none => raise .unmodelled
  | some i =>
    match m.validI i with
    | .error _ => raise .unmodelled
    | .ok true => do
      let r ← methodI2P .decode m i                                 -- except (ArithmeticError, ValueError): DecodeError
      match r with
      | none => pure none
      | some p =>
        match ofVal? p (negZeroOf m) with
        | some x => pure (some x)
        | none => raise .unmodelled
    | .ok false => do odxraise .decode; pure none                   -- "could not convert the coded value"; lenient: None

end OdxVerif.Codec
