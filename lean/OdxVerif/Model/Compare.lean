/-! # Model of the compare tool and of the metrics table (property C18)

Mirrors `odxtools/cli/compare.py` (`Comparison.compare_parameters`, `compare_services`,
`compare_diagnostic_layers`, `compare_databases`) and `odxtools/cli/_print_utils.py` (`print_dl_metrics`)
**after** the fixes `fixes/c18-*.patch`. Core Lean only.

What is an *input* of the model (computed by the real code, sent by the harness): per service its short
name, `request.coded_const_prefix()`, the equivalence class of the `DiagService` object under `==`
(`eqKey`), and per parameter the compared attributes (`short_name`, `byte_position`,
`get_static_bit_length()`, `semantic`, `parameter_type`, class-specific values, the linked DOP's `==`
class, name, unit, physical type). The model is the classification/comparison logic on top of them. -/
namespace OdxVerif.Compare

/-! ## Python values and their renderings -/

/-- a Python value as far as the tool distinguishes: an `int`, or anything else identified by its `repr` -/
inductive PyVal where
  | int (i : Int)
  | other (repr : String)
deriving DecidableEq, Repr

def PyVal.repr : PyVal → String
  | .int i => toString i
  | .other r => r

/-- `str(x)` for `x : Optional[int]` -/
def pyOptNat : Option Nat → String
  | none => "None"
  | some n => toString n

/-- `str(x)` for `x : Optional[str]` -/
def pyOptStr : Option String → String
  | none => "None"
  | some s => s

def hexUpper (n : Nat) : String := String.ofList ((Nat.toDigits 16 n).map Char.toUpper)

def padLeft (w : Nat) (s : String) : String := String.ofList (List.replicate (w - s.length) '0') ++ s

/-- `f"0x{v:0{w}X}"` (sign-aware zero padding) -/
def pyHex (v : Int) (w : Nat) : String :=
  "0x" ++ (if v < 0 then "-" ++ padLeft (w - 1) (hexUpper v.natAbs) else padLeft w (hexUpper v.toNat))

/-! ## Descriptions -/

structure UnitInfo where
  key : Nat              -- `==` class of the Unit object
  shortName : String
  displayName : String
deriving DecidableEq, Repr

structure DopInfo where
  key : Nat              -- `==` class of the DOP object
  shortName : String
  unit : Option UnitInfo       -- `getattr(dop, "unit", None)` when truthy
  physType : Option String     -- `dop.physical_type.base_data_type.name` when present and truthy
deriving DecidableEq, Repr

inductive DopSub where
  | physConst (v : PyVal)                 -- PhysicalConstantParameter.physical_constant_value
  | value (default : Option PyVal)        -- ValueParameter.physical_default_value
  | other                                 -- any other parameter class with a `dop`
deriving DecidableEq, Repr

inductive ParamKind where
  | codedConst (dataType : String) (value : PyVal)
  | nrcConst (dataType : String) (values : String)      -- `str(coded_values)`
  | withDop (dop : DopInfo) (sub : DopSub)
  | plain
deriving DecidableEq, Repr

structure Param where
  name : String
  bytePos : Option Nat
  bitLen : Option Nat        -- get_static_bit_length()
  semantic : Option String
  ptype : String             -- parameter_type
  kind : ParamKind
deriving DecidableEq, Repr

structure Service where
  name : String
  pfx : Option (List Nat)             -- None if there is no request, else request.coded_const_prefix()
  eqKey : Nat                         -- `==` class of the DiagService dataclass (shallow: names, ids, references)
  request : Option (List Param)
  pos : List (List Param)
  neg : List (List Param)
deriving DecidableEq, Repr

/-- `service1 == service2` for DiagService objects: dataclass equality; it includes the short name -/
def Service.pyEq (a b : Service) : Bool := a.eqKey == b.eqKey && a.name == b.name

/-! ## compare_parameters -/

/-- the "Property" column -/
inductive Attr where
  | paramName | bytePosition | bitLength | semantic | paramType | dataType | value | values
  | linkedDop | dopName | dopUnitName | dopUnitDisplayName | dopUnitObject | dopPhysType
  | constantValue | defaultValue
deriving DecidableEq, Repr

def Attr.label : Attr → String
  | .paramName => "Parameter name" | .bytePosition => "Byte position" | .bitLength => "Bit Length"
  | .semantic => "Semantic" | .paramType => "Parameter type" | .dataType => "Data type"
  | .value => "Value" | .values => "Values" | .linkedDop => "Linked DOP object"
  | .dopName => " DOP name" | .dopUnitName => "  DOP unit name"
  | .dopUnitDisplayName => "  DOP unit display name" | .dopUnitObject => " DOP unit object"
  | .dopPhysType => " DOP physical data type" | .constantValue => "Constant value"
  | .defaultValue => "Default value"

/-- one line of the table `{"Property": …, "Old Value": …, "New Value": …}`; `old` comes from the second
    argument (the old database), `new` from the first -/
structure Row where
  attr : Attr
  old : String
  new : String
deriving DecidableEq, Repr

def hexWidth (bl : Option Nat) : Nat := (bl.getD 0) / 4     -- `(get_static_bit_length() or 0) // 4`

/-- `if v1 != v2: if both int: hex … else: repr …` -/
def valueRows (a : Attr) (v1 v2 : PyVal) (bl1 bl2 : Option Nat) : List Row :=
  if v1 ≠ v2 then
    match v1, v2 with
    | .int i1, .int i2 => [⟨a, pyHex i2 (hexWidth bl2), pyHex i1 (hexWidth bl1)⟩]
    | _, _ => [⟨a, v2.repr, v1.repr⟩]
  else []

def unitRows (u1 u2 : Option UnitInfo) : List Row :=
  match u1, u2 with
  | some a, some b =>                                   -- both units truthy
    if a.key ≠ b.key ∧ a.shortName ≠ b.shortName then [⟨.dopUnitName, b.shortName, a.shortName⟩]
    else if a.key ≠ b.key ∧ a.displayName ≠ b.displayName then [⟨.dopUnitDisplayName, b.displayName, a.displayName⟩]
    else if a.key ≠ b.key then [⟨.dopUnitObject, "", ""⟩]
    else []
  | _, _ => []

def physRows (t1 t2 : Option String) : List Row :=
  match t1, t2 with
  | some a, some b => if a ≠ b then [⟨.dopPhysType, b, a⟩] else []
  | _, _ => []

/-- `if dop_1 != dop_2:` block -/
def dopRows (d1 d2 : DopInfo) : List Row :=
  if d1.key ≠ d2.key then
    [⟨.linkedDop, "", ""⟩]
    ++ (if d1.shortName ≠ d2.shortName then [⟨.dopName, d2.shortName, d1.shortName⟩] else [])
    ++ unitRows d1.unit d2.unit
    ++ physRows d1.physType d2.physType
  else []

/-- constant value / default value block -/
def subRows (s1 s2 : DopSub) (bl1 bl2 : Option Nat) : List Row :=
  match s1, s2 with
  | .physConst v1, .physConst v2 => valueRows .constantValue v1 v2 bl1 bl2
  | .value (some v1), .value (some v2) => valueRows .defaultValue v1 v2 bl1 bl2
  | _, _ => []

/-- class-specific part: both CodedConst / both NrcConst / both with a `dop` -/
def kindRows (p1 p2 : Param) : List Row :=
  match p1.kind, p2.kind with
  | .codedConst t1 v1, .codedConst t2 v2 =>
    (if t1 ≠ t2 then [⟨.dataType, t2, t1⟩] else []) ++ valueRows .value v1 v2 p1.bitLen p2.bitLen
  | .nrcConst t1 vs1, .nrcConst t2 vs2 =>
    (if t1 ≠ t2 then [⟨.dataType, t2, t1⟩] else []) ++ (if vs1 ≠ vs2 then [⟨.values, vs2, vs1⟩] else [])
  | .withDop d1 s1, .withDop d2 s2 => dopRows d1 d2 ++ subRows s1 s2 p1.bitLen p2.bitLen
  | _, _ => []

/-- `Comparison.compare_parameters(param1, param2)` -/
def compareParams (p1 p2 : Param) : List Row :=
  (if p1.name ≠ p2.name then [⟨.paramName, p2.name, p1.name⟩] else [])
  ++ (if p1.bytePos ≠ p2.bytePos then [⟨.bytePosition, pyOptNat p2.bytePos, pyOptNat p1.bytePos⟩] else [])
  ++ (if p1.bitLen ≠ p2.bitLen then [⟨.bitLength, pyOptNat p2.bitLen, pyOptNat p1.bitLen⟩] else [])
  ++ (if p1.semantic ≠ p2.semantic then [⟨.semantic, pyOptStr p2.semantic, pyOptStr p1.semantic⟩] else [])
  ++ (if p1.ptype ≠ p2.ptype then [⟨.paramType, p2.ptype, p1.ptype⟩] else [])
  ++ kindRows p1 p2

/-! ## compare_services -/

inductive EntryKind where
  | req | pos | neg                 -- a table of changed properties of one parameter
  | reqList                         -- request parameter lists of different length (or a request missing)
  | posParamList | posList          -- a positive response's parameter list / the list of positive responses
  | negParamList | negList
deriving DecidableEq, Repr

/-- one (infotext, table) pair of `information` together with its piece of `changed_params`;
    `name` is the parameter's short name (of the old service) for tables, the old service's name otherwise -/
structure Entry where
  kind : EntryKind
  name : String
  rows : List Row
deriving DecidableEq, Repr

/-- the piece appended to `changed_params` -/
def Entry.piece (e : Entry) : String :=
  match e.kind with
  | .req => "request parameter '" ++ e.name ++ "',\n"
  | .pos => "positive response parameter '" ++ e.name ++ "',\n"
  | .neg => "negative response parameter '" ++ e.name ++ "',\n"
  | .reqList => "request parameter list, "
  | .posParamList => "positive response parameter list, "
  | .posList => "positive responses list, "
  | .negParamList => "positive response parameter list, "     -- sic (compare.py)
  | .negList => "negative responses list, "

/-- the doubly nested `enumerate` loops with `if idx1 == idx2` over two lists of equal length: a zip -/
def compareParamLists (k : EntryKind) : List Param → List Param → List Entry
  | p1 :: r1, p2 :: r2 =>
    let t := compareParams p1 p2
    (if t ≠ [] then [⟨k, p2.name, t⟩] else []) ++ compareParamLists k r1 r2
  | _, _ => []

def compareResponses (kParam kParamList : EntryKind) (sname : String) :
    List (List Param) → List (List Param) → List Entry
  | r1 :: t1, r2 :: t2 =>
    (if r1.length = r2.length then compareParamLists kParam r1 r2 else [⟨kParamList, sname, []⟩])
    ++ compareResponses kParam kParamList sname t1 t2
  | _, _ => []

/-- `Comparison.compare_services(service1, service2)`; `changed_params` is the concatenation of the
    entries' pieces, hence empty iff the result is `[]` -/
def compareServices (s1 s2 : Service) : List Entry :=
  (match s1.request, s2.request with
   | some r1, some r2 => if r1.length = r2.length then compareParamLists .req r1 r2 else [⟨.reqList, s2.name, []⟩]
   | _, _ => [⟨.reqList, s2.name, []⟩])
  ++ (if s1.pos.length = s2.pos.length then compareResponses .pos .posParamList s2.name s1.pos s2.pos
      else [⟨.posList, s2.name, []⟩])
  ++ (if s1.neg.length = s2.neg.length then compareResponses .neg .negParamList s2.name s1.neg s2.neg
      else [⟨.negList, s2.name, []⟩])

def changedParams (es : List Entry) : String := String.join (es.map Entry.piece)

/-! ## compare_diagnostic_layers -/

/-- the returned `service_dict` (layer name and type omitted) -/
structure Result where
  new : List Service := []
  deleted : List Service := []
  renamed : List (Service × String) := []            -- (service of the new layer, old short name)
  changed : List (Service × List Entry) := []        -- (service of the new layer, detailed information)
deriving DecidableEq, Repr

def names (l : List Service) : List String := l.map (·.name)
def prefixes (l : List Service) : List (Option (List Nat)) := l.map (·.pfx)

/-- `if detailed_information[1]: … append …` -/
def addChanged (acc : Result) (s1 s2 : Service) : Result :=
  let e := compareServices s1 s2
  if e ≠ [] then { acc with changed := acc.changed ++ [(s1, e)] } else acc

/-- body of `for service2 in dl2.services:` -/
def innerStep (s1 : Service) (acc : Result) (s2 : Service) : Result :=
  if s1.name = s2.name then addChanged acc s1 s2 else acc

/-- body of `for service1 in dl1.services:` -/
def outerStep (dl2 : List Service) (acc : Result) (s1 : Service) : Result :=
  -- if service1 not in dl2.services: if rq_prefix is None or rq_prefix not in dl2_request_prefixes: new
  let acc1 :=
    if ¬ dl2.any (s1.pyEq ·) ∧ (s1.pfx = none ∨ s1.pfx ∉ prefixes dl2) then
      { acc with new := acc.new ++ [s1] } else acc
  -- if service1.short_name not in dl2_service_names: if rq_prefix is not None and rq_prefix in dl2_request_prefixes:
  --   service2 = dl2.services[dl2_request_prefixes.index(rq_prefix)]   (first service with that prefix)
  let acc2 :=
    if s1.name ∉ names dl2 ∧ s1.pfx ≠ none then
      match dl2.find? (fun s2 => s2.pfx = s1.pfx) with
      | some s2 => addChanged { acc1 with renamed := acc1.renamed ++ [(s1, s2.name)] } s1 s2
      | none => acc1                                      -- prefix not in dl2_request_prefixes
    else acc1
  dl2.foldl (innerStep s1) acc2

/-- body of the (separate) loop `for service2_idx, service2 in enumerate(dl2.services):` -/
def deletedStep (dl1 : List Service) (acc : Result) (s2 : Service) : Result :=
  if s2.name ∉ names dl1 ∧ s2.pfx ∉ prefixes dl1 then { acc with deleted := acc.deleted ++ [s2] } else acc

/-- `Comparison.compare_diagnostic_layers(dl1, dl2)`: `dl1` the new, `dl2` the old layer -/
def compareLayers (dl1 dl2 : List Service) : Result :=
  dl2.foldl (deletedStep dl1) (dl1.foldl (outerStep dl2) {})

/-! ### the pinned commit (before `fixes/c18-*.patch`), kept for the counterexample theorems -/

/-- body of `for service1 in dl1.services:` at the pinned commit: the rename branch is an `elif` of the
    same condition as the `if` before it (dead), and deleted services are searched inside this loop -/
def outerStepPinned (dl1 dl2 : List Service) (acc : Result) (s1 : Service) : Result :=
  let acc1 :=
    if ¬ dl2.any (s1.pyEq ·) ∧ (s1.pfx = none ∨ s1.pfx ∉ prefixes dl2) then
      { acc with new := acc.new ++ [s1] } else acc
  dl2.foldl (fun a s2 =>
    let a1 :=
      if s2.name ∉ names dl1 ∧ s2.pfx ∉ prefixes dl1 ∧ ¬ a.deleted.any (s2.pyEq ·) then
        { a with deleted := a.deleted ++ [s2] } else a
    innerStep s1 a1 s2) acc1

def compareLayersPinned (dl1 dl2 : List Service) : Result := dl1.foldl (outerStepPinned dl1 dl2) {}

/-! ## compare_databases -/

structure LayerD where
  name : String
  services : List Service
deriving DecidableEq, Repr

structure DbResult where
  newLayers : List String := []
  deletedLayers : List String := []
  layers : List (String × Result) := []         -- `changes_variants[dl.short_name] = service_dict`
deriving DecidableEq, Repr

/-- `dict.update({k: v})` on an insertion-ordered dictionary -/
def dictSet (d : List (String × Result)) (k : String) (v : Result) : List (String × Result) :=
  if d.any (·.1 = k) then d.map (fun kv => if kv.1 = k then (k, v) else kv) else d ++ [(k, v)]

def dbInner (dbNew : List LayerD) (sel : List String) (l1 : LayerD) (acc : DbResult) (l2 : LayerD) : DbResult :=
  let acc1 :=
    if l2.name ∉ dbNew.map (·.name) ∧ l2.name ∉ acc.deletedLayers then
      { acc with deletedLayers := acc.deletedLayers ++ [l2.name] } else acc
  if l1.name = l2.name ∧ l1.name ∈ sel then
    { acc1 with layers := dictSet acc1.layers l1.name (compareLayers l1.services l2.services) }
  else acc1

def dbOuter (dbNew dbOld : List LayerD) (sel : List String) (acc : DbResult) (l1 : LayerD) : DbResult :=
  let acc1 := if l1.name ∉ dbOld.map (·.name) then { acc with newLayers := acc.newLayers ++ [l1.name] } else acc
  dbOld.foldl (dbInner dbNew sel l1) acc1

/-- `Comparison.compare_databases(database_new, database_old)` with `self.diagnostic_layer_names = sel`.
    (Deleted layers are compared by object `==` in Python; the model compares names, which agrees
    whenever layer names are distinct within a database.) -/
def compareDatabases (dbNew dbOld : List LayerD) (sel : List String) : DbResult :=
  dbNew.foldl (dbOuter dbNew dbOld sel) {}

/-! ## print_dl_metrics -/

structure LayerM where
  name : String
  vtype : String
  services : List String             -- short names of `variant.services`
  dops : List String                 -- `variant.diag_data_dictionary_spec.data_object_props`
  comparams : Option (List String)   -- `variant.comparam_refs`; `none` when the layer class has no such attribute
deriving DecidableEq, Repr

structure MetricsRow where
  name : String
  vtype : String
  nServices : String
  nDops : String
  nComparams : String
deriving DecidableEq, Repr

/-- one `table.add_row(...)` of `print_dl_metrics` (`sorted` does not change the length) -/
def metricsRow (l : LayerM) : MetricsRow :=
  { name := l.name, vtype := l.vtype,
    nServices := toString l.services.length,
    nDops := toString l.dops.length,
    nComparams := toString ((l.comparams.getD []).length) }   -- len(getattr(variant, "comparam_refs", []))

/-- the pinned commit reads the misspelt attribute `comparams_refs`, which no layer class has -/
def metricsRowPinned (l : LayerM) : MetricsRow :=
  { metricsRow l with nComparams := toString (([] : List String).length) }

def metrics (ls : List LayerM) : List MetricsRow := ls.map metricsRow

end OdxVerif.Compare
