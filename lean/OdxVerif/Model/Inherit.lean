import OdxVerif.Gen.LayerPrio
/-! # Model of ODX value inheritance (property C09)

Mirrors `odxtools/diaglayers/hierarchyelement.py : HierarchyElement._compute_available_objects`
(and `DiagLayer._compute_available_objects` for ECU-SHARED-DATA layers), branch by branch.
Core Lean only (linked into `drv_inherit`).

* A hierarchy is a DAG of layers; `_compute_available_objects` is a pure function of the layer and
  of what it reaches, so the DAG is unfolded into a tree (`Layer`): a layer reachable over two paths
  simply occurs twice, with the *same* objects (same name and tag).
* `Obj.tag` stands for everything Python's `==` on the object looks at besides the short name
  (`obj == result_dict[...]` is dataclass equality): the same object offered twice (diamond) has the same
  tag, two different objects with the same short name have different tags.
* One object category at a time: `locals` is `get_local_objects(layer)`, the list attached to a parent
  is `get_not_inherited(parent_ref)`. That each category is wired to the right pair of callables is the
  generated-table obligation (`Gen.categoryTable`).
* `odxraise` is modelled for `strict_mode = True` (the default): a conflict is the outcome `.error .odx`.
  (Errors of parents computed by recursion and the layer's own conflict are the same class, `OdxError`;
  which of several is raised first is not observable by class.) -/
namespace OdxVerif.Inherit
open OdxVerif.Gen (LayerKind)

abbrev Name := Nat

structure Obj where
  name : Name
  tag : Nat
deriving DecidableEq, Repr, Inhabited

inductive Layer where
  | mk (name : Nat) (kind : LayerKind) (locals : List Obj) (parents : List (Layer × List Name))
deriving Inhabited

def Layer.lname : Layer → Nat | .mk n _ _ _ => n
def Layer.kind : Layer → LayerKind | .mk _ k _ _ => k
def Layer.locals : Layer → List Obj | .mk _ _ l _ => l
def Layer.parents : Layer → List (Layer × List Name) | .mk _ _ _ p => p

/-- `variant_type.inheritance_priority` -/
def Layer.prio (l : Layer) : Nat := l.kind.prio

inductive Err where
  | odx
deriving DecidableEq, Repr

deriving instance DecidableEq for Except

/-- value of `result_dict[short_name]`: `(obj, parent_dl)`; of `parent_dl` only the priority is read -/
structure Entry where
  obj : Obj
  prio : Nat
deriving DecidableEq, Repr

/-- insertion-ordered `dict` keyed by `obj.short_name` -/
abbrev Dict := List Entry

/-- `result_dict.get(n)` -/
def dictGet (d : Dict) (n : Name) : Option Entry := d.find? fun e => e.obj.name = n

/-- `result_dict[e.obj.short_name] = e`: replace in place, else append -/
def dictSet : Dict → Entry → Dict
  | [], e => [e]
  | x :: xs, e => if x.obj.name = e.obj.name then e :: xs else x :: dictSet xs e

/-- what the recursion delivers for one `parent_ref`: the type of `parent_ref.layer` (only its
    `inheritance_priority` is ever read), `get_not_inherited(parent_ref)`,
    `parent_dl._compute_available_objects(...)` -/
structure ParentRes where
  kind : LayerKind
  excl : List Name
  objs : List Obj
deriving Repr

/-- `parent_dl.variant_type.inheritance_priority` -/
def ParentRes.prio (r : ParentRes) : Nat := r.kind.prio

/-- stable insertion, descending by priority -/
def insertDesc (x : ParentRes) : List ParentRes → List ParentRes
  | [] => [x]
  | y :: ys => if x.prio < y.prio then y :: insertDesc x ys else x :: y :: ys

/-- `sorted(parent_refs, key=priority, reverse=True)` (stable: equal keys keep their order) -/
def sortDesc : List ParentRes → List ParentRes
  | [] => []
  | x :: xs => insertDesc x (sortDesc xs)

/-- body of `for obj in inherited_objects:` (hierarchyelement.py l.313-350) -/
def mergeObj (localNames : List Name) (newPrio : Nat) (d : Dict) (obj : Obj) : Except Err Dict :=
  match dictGet d obj.name with
  | none => .ok (dictSet d ⟨obj, newPrio⟩)                      -- l.317 `not in result_dict`
  | some e =>
    if newPrio < e.prio then .ok d                               -- l.327 `new_prio < orig_prio`
    else if e.prio < newPrio then .ok (dictSet d ⟨obj, newPrio⟩) -- l.329 `orig_prio < new_prio`
    else if localNames.contains obj.name then .ok d              -- l.336 overridden locally anyway
    else if obj = e.obj then .ok d                               -- l.344 identical objects
    else .error .odx                                             -- l.347 `odxraise(...)`

/-- one iteration of `for parent_ref in …sorted…` (l.297-350): filter by NOT-INHERITED, then merge -/
def mergeParent (localNames : List Name) (d : Dict) (r : ParentRes) : Except Err Dict :=
  (r.objs.filter fun x => !r.excl.contains x.name).foldlM (mergeObj localNames r.prio) d

mutual
/-- `layer._compute_available_objects(get_local_objects, get_not_inherited)` -/
def computeAvailable : Layer → Except Err (List Obj)
  | .mk _ kind locals parents =>
    -- DiagLayer._compute_available_objects (diaglayer.py l.169): ECU-SHARED-DATA layers are the only
    -- layers that are not `HierarchyElement`s; they have no parent refs
    if kind = .ecuSharedData then .ok locals
    else
      match computeParents parents with
      | .error e => .error e
      | .ok rs =>
        let localNames := locals.map (·.name)                       -- l.293
        match (sortDesc rs).foldlM (mergeParent localNames) [] with -- l.297
        | .error e => .error e
        | .ok d =>
          -- l.354: local objects override; the priority stored for them is never read again
          let d := locals.foldl (fun d o => dictSet d ⟨o, kind.prio⟩) d
          .ok (d.map (·.obj))                                       -- l.357
/-- the recursive calls `parent_dl._compute_available_objects(...)`, in declaration order -/
def computeParents : List (Layer × List Name) → Except Err (List ParentRes)
  | [] => .ok []
  | (p, excl) :: rest =>
    match computeAvailable p with
    | .error e => .error e
    | .ok objs =>
      match computeParents rest with
      | .error e => .error e
      | .ok rs => .ok (⟨p.kind, excl, objs⟩ :: rs)
end

end OdxVerif.Inherit
