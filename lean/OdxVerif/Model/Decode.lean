import OdxVerif.Model.Codec
/-! Decoding side of the composite codec model (`decode_from_pdu` of parameters, DOPs, diag-coded
    types, structures and fields). Core Lean only. -/
namespace OdxVerif.Codec
open OdxVerif.Bits OdxVerif.OdxM

/-- `bytes.find(seq, start, end)` restricted to aligned hits, as the MIN-MAX loop does it:
    first position `p ≥ start`, `p + |seq| ≤ stop`, `msg[p:p+|seq|] = seq`, `(p - orig) % |seq| = 0` -/
def findTerm (msg seq : Bytes) (orig stop : Nat) : (fuel : Nat) → (p : Nat) → Option Nat
  | 0, _ => none
  | f+1, p =>
    if p + seq.length > stop then none
    else if (msg.drop p).take seq.length = seq ∧ (p - orig) % seq.length = 0 then some p
    else findTerm msg seq orig stop f (p + 1)

def decodeDct (dct : Dct) : DecM IVal := do
  match dct with
  | .std bt enc hl bl none _ => extractAtomic bl bt enc hl
  | .std bt enc hl bl (some m) c => do
    let raw ← extractAtomic bl bt enc hl
    unapplyMask m c raw
  | .minmax bt enc hl minLen maxLen term => do
    let s ← getS
    odxassert (s.cursorBit = 0)
    if s.cursorByte + minLen > s.msg.length then raise .decode
    else
      let orig := s.cursorByte
      let tseq : Bytes := match term with
        | .zero => if bt = .unicode2 then [0, 0] else [0]
        | .hexff => if bt = .unicode2 then [255, 255] else [255]
        | .eop => []
      let maxPos := match maxLen with
        | some mx => min s.msg.length (orig + mx)
        | none => s.msg.length
      if term ≠ .eop then
        let byteLen := match findTerm s.msg tseq orig maxPos (s.msg.length + 1) (orig + minLen) with
          | some p => p - orig
          | none => maxPos - orig
        let v ← extractAtomic (8 * byteLen) bt enc hl
        let s' ← getS
        if s'.cursorByte ≠ s'.msg.length ∧ some (s'.cursorByte - orig) ≠ maxLen then
          modifyS fun s => { s with cursorByte := s.cursorByte + tseq.length }
        pure v
      else
        extractAtomic (8 * (maxPos - orig)) bt enc hl
  | .leading bt _ hl bl => do
    let n ← extractAtomic bl .uint32 none hl
    match n with
    | .int i => extractAtomic (8 * i.toNat) bt none hl
    | _ => raise .unmodelled
  | .paramLen bt enc hl key => do
    let s ← getS
    match lookup key s.lengthKeys with
    | none => do odxraise .odx; raise .unmodelled
    | some bl => if bl < 0 then do odxraise .decode; extractAtomic 0 bt enc hl else extractAtomic bl.toNat bt enc hl

mutual
def decodeDop : (fuel : Nat) → Dop → DecM PVal
  | 0, _ => raise .unmodelled
  | fuel+1, .simple dct phys cm => do
    let v ← decodeDct dct
    match cm with
    | .identical => pure (.atom v)
    | .other => raise .unmodelled
    | cm =>
      -- LINEAR / TEXTTABLE: is_valid_internal_value, convert_internal_to_physical (`dopI2P`)
      match cm.method? dct.baseType phys with
      | none => raise .unmodelled
      | some m => do
        let r ← dopI2P m v
        match r with
        | some p => pure (.atom p)
        | none => pure .none
  | fuel+1, .struct byteSize ps => do
    let s0 ← getS
    let r ← decodeComposite fuel ps
    match byteSize with
    | none => pure r
    | some bs =>
      let s ← getS
      if s.cursorByte - s0.cursorByte > bs then do odxraise .decode; pure r
      else do
        modifyS fun s => { s with cursorByte := s0.cursorByte + bs }
        pure r
  | fuel+1, .staticField count itemSize item => do
    let s ← getS
    odxassert (s.cursorBit = 0)
    modifyS fun s => { s with origin := s.cursorByte }
    let xs ← decodeStaticItems item itemSize fuel count
    modifyS fun s' => { s' with origin := s.origin }
    pure (.list xs)
  | fuel+1, .dynLenField offset cbp cbit countDop item => do
    let s ← getS
    odxassert (s.cursorBit = 0)
    modifyS fun s => { s with origin := s.cursorByte, cursorByte := s.cursorByte + cbp, cursorBit := cbit }
    let n ← decodeDop fuel countDop
    let cnt ← (match n with
      | .atom (.int i) => if i < 0 then do odxraise .decode; pure 0 else pure i.toNat
      | _ => do odxraise .odx; raise .unmodelled)
    modifyS fun s => { s with cursorByte := s.origin + offset }
    let xs ← decodeNItems item fuel cnt
    modifyS fun s' => { s' with origin := s.origin }
    pure (.list xs)
  | fuel+1, .endMarkerField termVal termDop item => do
    let s ← getS
    odxassert (s.cursorBit = 0)
    modifyS fun s => { s with origin := s.cursorByte }
    let xs ← decodeUntilMarker termVal termDop item fuel
    modifyS fun s' => { s' with origin := s.origin }
    pure (.list xs)
  | fuel+1, .eopField _ _ item => do
    let s ← getS
    odxassert (s.cursorBit = 0)
    modifyS fun s => { s with origin := s.cursorByte }
    let xs ← decodeToEnd item fuel
    modifyS fun s' => { s' with origin := s.origin }
    pure (.list xs)
  | fuel+1, .mux bytePos swBytePos swBitPos swDop cases dflt => do
    let s ← getS
    modifyS fun s' => { s' with origin := s.cursorByte }
    let kv ← decodeParam fuel (.mk "" (some swBytePos) swBitPos (.value swDop none))
    match kv with
    | .atom (.int key) => do
      modifyS fun s' => { s' with cursorByte := s.cursorByte + bytePos }
      let sel : Option (String × Option Dop) :=
        match caseOfKey key cases with
        | some c => some (c.name, c.struct)
        | none => dflt
      match sel with
      | none => do
        odxraise .decode                                         -- "Cannot find an applicable case"
        modifyS fun s' => { s' with origin := s.origin }
        pure (.list [.none, .none])
      | some (name, st) => do
        let v ← (match st with
          | some d => decodeParam fuel (.mk "" (some bytePos) none (.value d none))
          | none => pure (.dict []))
        modifyS fun s' => { s' with origin := s.origin }
        pure (.pair name v)
    | _ => do odxraise .odx; raise .unmodelled                   -- "Multiplexer keys must be integers"
  | _+1, .unsupported => raise .unmodelled
  | _+1, .dtc dct phys cm dtcs => do
    -- `DtcDop.decode_from_pdu`
    let v ← decodeDct dct
    match cm.method? dct.baseType phys, toVal? v with
    | some m, some i =>
      match m.validI i with
      | .error _ => raise .unmodelled
      | .ok false => do odxraise .decode; pure .none               -- "could not convert the coded value"; lenient: `return`
      | .ok true => do
        -- `except (ArithmeticError, ValueError): raise DecodeError` (fix c05-dtc-dop-conversion-error, /repo c6b4881):
        -- the ZeroDivisionError of a LINEAR method with COMPU-DENOMINATOR 0 is a DecodeError, as in a plain DOP
        let r ← methodI2P .decode m i
        match r with
        | some (.int code) => do                                   -- `isinstance(trouble_code, int)`
          let hits := dtcs.filter fun d => d.1 == code
          odxassert (hits.length < 2)                              -- "Multiple matching DTCs"
          -- exactly one: that DTC; otherwise "Encountered DTC … which has not been defined" and, in lenient mode, a made-up
          -- DiagnosticTroubleCode with this trouble code
          if hits.length ≠ 1 then odxraise .decode
          pure (.dtc code)
        | _ => raise .decode                                       -- "the trouble code … is not an integer" (same fix; both modes)
    | _, _ => raise .unmodelled

def decodeStaticItems (item : Dop) (itemSize : Nat) : (fuel : Nat) → Nat → DecM (List PVal)
  | 0, _ => raise .unmodelled
  | _+1, 0 => pure []
  | fuel+1, n+1 => do
    let s ← getS
    let x ← decodeDop fuel item
    modifyS fun s' => { s' with cursorByte := s.cursorByte + itemSize }
    let rest ← decodeStaticItems item itemSize fuel n
    pure (x :: rest)

def decodeNItems (item : Dop) : (fuel : Nat) → Nat → DecM (List PVal)
  | 0, _ => raise .unmodelled
  | _+1, 0 => pure []
  | fuel+1, n+1 => do
    let s ← getS
    let x ← decodeDop fuel item
    let s' ← getS
    if s'.cursorByte ≤ s.cursorByte then raise .decode          -- "items … do not consume any data"
    else do
      let rest ← decodeNItems item fuel n
      pure (x :: rest)

/-- `while cursor < len(message): result.append(item.decode())`; running out of fuel = the Python loop
    does not terminate (an item that consumes no byte) -/
def decodeToEnd (item : Dop) : (fuel : Nat) → DecM (List PVal)
  | 0 => raise .unmodelled
  | fuel+1 => do
    let s ← getS
    if s.cursorByte < s.msg.length then do
      let x ← decodeDop fuel item
      let s' ← getS
      if s'.cursorByte ≤ s.cursorByte then raise .decode          -- "items … do not consume any data"
      else do
        let rest ← decodeToEnd item fuel
        pure (x :: rest)
    else pure []

def decodeUntilMarker (termVal : IVal) (termDop : Dop) (item : Dop) : (fuel : Nat) → DecM (List PVal)
  | 0 => raise .unmodelled
  | fuel+1 => do
    let s ← getS
    if s.cursorByte = s.msg.length then pure []
    else
      -- try: tv = dyn_end_dop.decode(); except DecodeError: pass
      let hit ← tryCatch
        (do let tv ← decodeDop fuel termDop
            pure (match tv with | .atom v => v == termVal | _ => false))
        (fun e => e = .decode ∨ e = .mismatch) (fun _ => pure false)
      modifyS fun s' => { s' with cursorByte := s.cursorByte }
      if hit then pure []
      else do
        let x ← decodeDop fuel item
        let s' ← getS
        if s'.cursorByte ≤ s.cursorByte then raise .decode        -- "items … do not consume any data"
        else do
          let rest ← decodeUntilMarker termVal termDop item fuel
          pure (x :: rest)

def decodeParam : (fuel : Nat) → Param → DecM PVal
  | 0, _ => raise .unmodelled
  | fuel+1, .mk name bytePos bitPos kind => do
    modifyS fun s => { s with cursorByte := (match bytePos with | some b => s.origin + b | none => s.cursorByte),
                              cursorBit := bitPos.getD 0 }
    let r ← (match kind with
      | .codedConst dct _ => do
        let v ← decodeDct dct                                      -- a mismatch is only a warning
        pure (PVal.atom v)
      | .physConst dop value => do
        let v ← decodeDop fuel dop
        if !(pvalEq v value) then
          (if numericPair v value then raise .unmodelled            -- Python `!=` on numbers (-0.0 == 0.0)
           else odxraise .decode)
        pure v
      | .value dop _ => decodeDop fuel dop
      | .reserved bl => do
        let v ← extractAtomic bl .uint32 none false
        pure (PVal.atom v)
      | .matchingReq _ byteLen => do
        let v ← extractAtomic (8 * byteLen) .uint32 none false
        pure (PVal.atom v)
      | .nrcConst dct values => do
        let v ← decodeDct dct
        if values.contains v then pure (PVal.atom v) else raise .mismatch
      | .lengthKey dop => do
        let v ← decodeDop fuel dop
        match v with
        | .atom (.int i) => do
          modifyS fun s => { s with lengthKeys := insertKV name i s.lengthKeys }
          pure v
        | _ => do odxraise .odx; raise .unmodelled
      | .unsupported => raise .unmodelled)
    modifyS fun s => { s with cursorBit := 0 }
    pure r

def decodeParams : (fuel : Nat) → List Param → DecM (List (String × PVal))
  | 0, _ => raise .unmodelled
  | _+1, [] => pure []
  | fuel+1, p :: rest => do
    let v ← decodeParam fuel p
    let r ← decodeParams fuel rest
    pure ((p.name, v) :: r)

/-- `composite_codec_decode_from_pdu` -/
def decodeComposite : (fuel : Nat) → List Param → DecM PVal
  | 0, _ => raise .unmodelled
  | fuel+1, ps => do
    let s ← getS
    modifyS fun s => { s with origin := s.cursorByte }
    let kv ← decodeParams fuel ps
    modifyS fun s' => { s' with origin := s.origin }
    pure (.dict kv)
end

/-! ## requests and responses -/

def modelFuel : Nat := 4096

/-- `Request.encode(**kwargs)` / `Response.encode(coded_request, **kwargs)` (`bs = none`), or a stand-alone
    STRUCTURE with optional BYTE-SIZE -/
def encodeMessage (bs : Option Nat) (ps : List Param) (values : PVal) (trig : Option Bytes) (strict : Bool) :
    Except Err (Bytes × Nat) :=
  match encodeDop modelFuel (.struct bs ps) values { trig := trig, isEndOfPdu := true } strict with
  | .ok (_, s) => .ok (s.msg, s.warn)
  | .error (e, _) => .error e

/-- `Request.decode(message)` / `Response.decode(message)`; also returns the final cursor -/
def decodeMessage (bs : Option Nat) (ps : List Param) (msg : Bytes) (strict : Bool) : Except Err (PVal × Nat) :=
  match decodeDop modelFuel (.struct bs ps) { msg := msg } strict with
  | .ok (v, s) => .ok (v, s.cursorByte)
  | .error (e, _) => .error e

/-- `composite_codec_get_coded_const_prefix` -/
def constPrefix (ps : List Param) (trig : Bytes) (strict : Bool) : Except Err Bytes :=
  let rec go (fuel : Nat) (ps : List Param) : EncM Unit :=
    match fuel, ps with
    | 0, _ => raise .unmodelled
    | _, [] => pure ()
    | fuel+1, p :: rest =>
      let take : Bool := match p.kind with
        | .codedConst .. | .physConst .. => true
        | .matchingReq reqPos _ => reqPos < trig.length
        | _ => false
      if take then do encodeParam modelFuel p none; go fuel rest else pure ()
  match go modelFuel ps { trig := some trig } strict with
  | .ok (_, s) =>
    -- only the leading bytes that are completely determined by the constants
    .ok ((s.msg.zip s.used).takeWhile (fun p => p.2 == 255) |>.map (·.1))
  | .error (e, _) => .error e

end OdxVerif.Codec
