import OdxVerif.Common.Sexp
/-! # Run-time of the Python → Lean translator (`harness/extract/py2lean.py`)

    The translator renders a documented subset of Python into Lean `do` blocks in the monad `Py.M`
    (`Except Py.Err`). This file is the *hand-written, trusted* rendering of the Python primitives the
    subset uses; every definition states the Python semantics it stands for. Core Lean only.

    * Python `int` is unbounded: rendered as `Nat` where the translator's type inference shows the
      value non-negative (literals, `len`, bytes elements, bit fields, `+ * // % & | << >>` of those)
      and as `Int` otherwise (`-`, negative literals, joins with those).
    * `bytes` / `bytearray` values are `List Nat` (`Bytes`); that every element is `< 256` is a side
      condition of the theorems (`AllBytes`), not of the definitions. Copies (`bytes(x)`,
      `bytearray(x)`) are the identity; *aliasing* of a mutable `bytearray` is resolved statically by the
      translator (it refuses programs where it cannot).
    * Every operation that raises in Python is an `Except` outcome here. -/
namespace OdxVerif.Py

inductive Err where
  | indexError            -- `xs[i]` out of range
  | typeError             -- an `Optional` value was `None` where a value is needed
  | unpackError           -- `bitstruct.unpack`: not enough data
  | assertionError
  | zeroDivisionError
  | keyError              -- `d[k]` for a key that is not in the dict
  | odxError              -- `odxraise(msg)` / `odxraise(msg, OdxError)` in strict mode
  | encodeError           -- `odxraise(msg, EncodeError)`
  | decodeError           -- `odxraise(msg, DecodeError)`
  | attributeError        -- `x.attr` / `x.method(…)` where `x` is `None`
  | foreign               -- any other exception of a called function that is modelled by hand (see `call`)
deriving Repr, DecidableEq, Inhabited

abbrev M := Except Err

instance {α : Type} [DecidableEq α] : DecidableEq (M α)
  | .ok a, .ok b => if h : a = b then isTrue (by rw [h]) else isFalse (by intro e; cases e; exact h rfl)
  | .error a, .error b => if h : a = b then isTrue (by rw [h]) else isFalse (by intro e; cases e; exact h rfl)
  | .ok _, .error _ => isFalse (by intro e; cases e)
  | .error _, .ok _ => isFalse (by intro e; cases e)

/-- value of an `Optional[T]` where Python needs a `T` (`None + 1`, `len(None)`, … raise `TypeError`) -/
def unwrap {α : Type} : Option α → M α
  | some a => pure a
  | none => throw .typeError

/-- object of an attribute access / method call `x.m(…)` for an `Optional` record `x`: `None.m` raises `AttributeError` -/
def unwrapAttr {α : Type} : Option α → M α
  | some a => pure a
  | none => throw .attributeError

/-- a call to a function that is NOT translated but stands for a hand-written model function (the spec of the translation
    names it): its value is the model's value, its exception the model's error class embedded by `f` -/
def call {ε α : Type} (f : ε → Err) : Except ε α → M α
  | .ok a => pure a
  | .error e => throw (f e)

/-- `xs[i]` for `i ≥ 0` -/
def getItem {α : Type} (xs : List α) (i : Nat) : M α :=
  match xs[i]? with
  | some a => pure a
  | none => throw .indexError

/-- `xs[i]` for an arbitrary Python integer (negative indices count from the end) -/
def getItemZ {α : Type} (xs : List α) (i : Int) : M α :=
  if 0 ≤ i then getItem xs i.toNat
  else if 0 ≤ (xs.length : Int) + i then getItem xs ((xs.length : Int) + i).toNat
  else throw .indexError

/-- `xs[lo:hi]` for `lo, hi ≥ 0` (`none` = bound omitted): the elements with index in `[lo, min hi len)` -/
def slice {α : Type} (xs : List α) (lo hi : Option Nat) : List α :=
  match hi with
  | none => xs.drop (lo.getD 0)
  | some h => (xs.drop (lo.getD 0)).take (h - lo.getD 0)

/-- Python's normalisation of a slice bound: negative bounds count from the end, then clamp to `[0, len]` -/
def clampBound (len : Nat) (i : Int) : Nat :=
  if i < 0 then ((len : Int) + i).toNat else min i.toNat len

/-- `xs[lo:hi]` for arbitrary Python integers -/
def sliceZ {α : Type} (xs : List α) (lo hi : Option Int) : List α :=
  let l := match lo with | none => 0 | some i => clampBound xs.length i
  let h := match hi with | none => xs.length | some i => clampBound xs.length i
  (xs.drop l).take (h - l)

/-- `int.from_bytes(bs, "big")` -/
def beNat : List Nat → Nat
  | [] => 0
  | b :: bs => b * 256 ^ bs.length + beNat bs

/-- one unsigned field of `bitstruct.unpack("u<w0>u<w1>…", data)`: `width` bits starting `off` bits after
    the most significant bit of `data[0]` (big-endian bit numbering, bitstruct's default). Only the
    `⌈(off+width)/8⌉` leading bytes are looked at. -/
def bitsBE (data : List Nat) (off width : Nat) : Nat :=
  let k := (off + width + 7) / 8
  (beNat (data.take k) / 2 ^ (8 * k - off - width)) % 2 ^ width

/-- `bitstruct.unpack` raises when `data` holds fewer bits than the format describes -/
def needBits (data : List Nat) (total : Nat) : M Unit :=
  if data.length * 8 < total then throw .unpackError else pure ()

/-- `x or d` for an `Optional[int]` `x`: `d` when `x` is `None` or `0` (both falsy), else `x` -/
def orNat (x : Option Nat) (d : Nat) : Nat := match x with | some v => if v = 0 then d else v | none => d
def orInt (x : Option Int) (d : Int) : Int := match x with | some v => if v = 0 then d else v | none => d

/-- `xs.index(x)`: position of the first occurrence; `none` = `ValueError` -/
def listIndex : List Nat → Nat → Option Nat
  | [], _ => none
  | y :: ys, x => if y = x then some 0 else (listIndex ys x).map (· + 1)

/-- `sorted(xs)` for integers (stable insertion sort; stability is unobservable on integers) -/
def insertNat (x : Nat) : List Nat → List Nat
  | [] => [x]
  | y :: ys => if x ≤ y then x :: y :: ys else y :: insertNat x ys
def sortedNat (xs : List Nat) : List Nat := xs.foldr insertNat []
def insertInt (x : Int) : List Int → List Int
  | [] => [x]
  | y :: ys => if x ≤ y then x :: y :: ys else y :: insertInt x ys
def sortedInt (xs : List Int) : List Int := xs.foldr insertInt []

/-- `sorted(xs)` for `Tuple[int, int]` elements: tuples compare lexicographically (first components, then second ones);
    stable insertion sort (elements that compare equal are identical pairs, so stability is unobservable) -/
def insertIntPair (x : Int × Int) : List (Int × Int) → List (Int × Int)
  | [] => [x]
  | y :: ys => if x.1 < y.1 ∨ (x.1 = y.1 ∧ x.2 ≤ y.2) then x :: y :: ys else y :: insertIntPair x ys
def sortedIntPair (xs : List (Int × Int)) : List (Int × Int) := xs.foldr insertIntPair []

/-- `d[k]` for a dict literal `{k1: v1, …}` with pairwise different keys, rendered as the association list of its items -/
def dictGet {κ ν : Type} [DecidableEq κ] : List (κ × ν) → κ → M ν
  | [], _ => throw .keyError
  | (k, v) :: rest, x => if k = x then pure v else dictGet rest x

/-- `sorted(xs, key=f, reverse=r)` for natural-number keys. Python computes `f(x)` for every element first, in list order (an
    exception of `f` propagates and nothing is returned), then sorts the elements stably by key: ascending for `reverse=False`,
    descending for `reverse=True` — and in BOTH cases elements with equal keys keep their original relative order ("the reverse
    parameter still maintains sort stability"). Insertion from the right: `x` stood before everything already in the list, so
    it goes in front of the first element that may not precede it. -/
def insertByKey {α : Type} (r : Bool) (x : Nat × α) : List (Nat × α) → List (Nat × α)
  | [] => [x]
  | y :: ys => if (if r then y.1 ≤ x.1 else x.1 ≤ y.1) then x :: y :: ys else y :: insertByKey r x ys
def sortedByKeyM {α : Type} (f : α → M Nat) (r : Bool) (xs : List α) : M (List α) := do
  let keys ← xs.mapM f
  pure (((keys.zip xs).foldr (insertByKey r) []).map (·.2))

/-- `a == b` on `Optional` values whose `==` on non-`None` values is `eq` (named by the spec of the translation): `None == None`
    is `True`, a value and `None` are never equal (the values of the subset do not define an `__eq__` that accepts `None`) -/
def optEq {α : Type} (eq : α → α → Bool) : Option α → Option α → Bool
  | some a, some b => eq a b
  | none, none => true
  | _, _ => false

/-- `d[k]` on a record that stands for a Python dict, where the spec of the translation gives the lookup as an `Option`
    (`none` = the key is absent): `KeyError` -/
def unwrapKey {α : Type} : Option α → M α
  | some a => pure a
  | none => throw .keyError

/-- `[x for x in xs if c(x)]` where `c(x)` may raise: the conditions are evaluated in list order, the first exception propagates
    (nothing is returned), otherwise the elements whose condition is true, in order -/
def filterM {α : Type} (c : α → M Bool) : List α → M (List α)
  | [] => pure []
  | x :: xs => do
    let b ← c x
    let r ← filterM c xs
    pure (if b then x :: r else r)

/-- divisor of `//` and `%`: zero raises `ZeroDivisionError` -/
def nonZero (n : Nat) : M Nat := if n = 0 then throw .zeroDivisionError else pure n
def nonZeroZ (n : Int) : M Int := if n = 0 then throw .zeroDivisionError else pure n

/-- Python `//` on integers (floor division; `Int.fdiv` rounds towards −∞); the divisor is non-zero (`nonZeroZ`) -/
def floorDiv (a b : Int) : Int := a.fdiv b
/-- Python `%` on integers (sign of the divisor) -/
def floorMod (a b : Int) : Int := a.fmod b

end OdxVerif.Py
