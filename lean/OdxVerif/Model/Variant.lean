import OdxVerif.Common.Sexp
/-! Executable model of variant identification: `odxtools/variantmatcher.py` (`VariantMatcher`),
    `matchingparameter.py` (`MatchingParameter.matches`), `matchingbasevariantparameter.py`,
    `ecuvariantpattern.py`, `basevariantpattern.py`. Core Lean only. The model follows the code *with*
    `fixes/c14-empty-response.patch`, `fixes/c14-cache-key-addressing.patch` and
    `fixes/c14-cache-bytearray-request.patch` applied (`fixes/c14-float-expected-value.patch` concerns float
    leaves, which are outside the model).

    Python ↔ model
    * `VariantMatcher.req_resp_cache / _recent_ident_response / _state / _matching_variant` ↔ `MState`
    * `VariantMatcher.request_loop` (a generator) ↔ `requestLoop : … → Prog Unit`, a resumable computation:
      `Prog.ask phys req k` is `yield phys, req`; the argument of `k` is what the caller did before resuming the
      generator (`some b` = `evaluate(b)` was called, `none` = it was not); `Prog.ret` is `StopIteration`,
      `Prog.fail` an exception leaving the generator. The three nested `for` loops are `paramsLoop`,
      `patternsLoop`, `variantsLoop`; one loop body of the innermost loop is `paramStep`.
    * `VariantMatcher._get_ident_response` ↔ `getIdentResponse`; `_update_cache` ↔ `updateCache`;
      `_ident_response_matches` ↔ `identResponseMatches`; `evaluate` ↔ `evaluate`; `has_match` ↔ `hasMatch`
    * `MatchingParameter.get_ident_service` / `odxlink.resolve_snref` ↔ `identService`
    * `MatchingParameter.matches` / `__matches` ↔ `paramMatches` / `matchesAt` / `leafMatches`
    * `MatchingBaseVariantParameter.use_physical_addressing` ↔ `MParam.phys`
    * `exceptions.odxraise` ↔ `odxraise` (raises only in strict mode)

    Inputs of the model that are other properties' business: `Service.req` (the result of
    `DiagService.encode_request()`) and `Service.decode` (for a response byte string, the outcome of
    `Response.decode` for each response object of the service: positive, negative, global negative, in
    that order). Float leaves (tolerance comparison) are not part of the value universe. -/
namespace OdxVerif.Variant

/-- text (short names, expected values, `str()` renderings) as the list of its UTF-8 bytes -/
abbrev Str := List Nat

def ascii (s : String) : Str := s.toList.map Char.toNat

/-- exception classes: `OdxError` family, `RuntimeError`, anything else -/
inductive Err where
  | odx | runtime | foreign
deriving DecidableEq, Repr, Inhabited

/-- the values `Response.decode` delivers, as far as `__matches` distinguishes them -/
inductive PVal where
  | str (s : Str)
  | int (i : Int)
  | bool (b : Bool)
  | none
  | bytes (b : Bytes)                       -- bytes / bytearray (`BytesTypes`)
  | dtc (code : Nat)                        -- DiagnosticTroubleCode.trouble_code
  | dict (kv : List (Str × PVal))           -- structure
  | list (render : Str) (xs : List PVal)    -- field; `render` = `str(value)` (an input)
  | tuple (render : Str) (xs : List PVal)   -- 2 items: table-struct pair (row name, value)
deriving Inhabited

/-- `odxraise(...)` followed by `fallback` -/
def odxraise {α} (strict : Bool) (fallback : Except Err α) : Except Err α :=
  if strict then .error .odx else fallback

/-! ### `MatchingParameter.matches` -/

/-- ASCII part of `str.upper()` (bytes ≥ 128 belong to non-ASCII characters and stay) -/
def upper (s : Str) : Str := s.map fun c => if 97 ≤ c ∧ c ≤ 122 then c - 32 else c

def hexDigitU (n : Nat) : Nat := if n < 10 then 48 + n else 55 + n

/-- `b.hex().upper()` -/
def hexUpper (b : Bytes) : Str := b.flatMap fun x => [hexDigitU (x / 16 % 16), hexDigitU (x % 16)]

/-- `hex(n).upper()` : "0X" followed by the digits -/
def pyHexUpper (n : Nat) : Str := [48, 88] ++ upper ((Nat.toDigits 16 n).map Char.toNat)

/-- `str(v)` for the non-structure, non-bytes, non-DTC leaves -/
def pyStr : PVal → Str
  | .str s => s
  | .int i => ascii (toString i)
  | .bool true => ascii "True"
  | .bool false => ascii "False"
  | .none => ascii "None"
  | .list r _ => r
  | .tuple r _ => r
  | .bytes _ => []      -- not reached (leafMatches handles bytes, DTC and dict before)
  | .dtc _ => []
  | .dict _ => []

/-- `__matches` with `len(snpath_chunks) == 0` -/
def leafMatches (strict : Bool) (expected : Str) : PVal → Except Err Bool
  | .dict _ => odxraise strict (.ok false)                   -- "Parameter must not be a structure"
  | .bytes b => .ok (hexUpper b == upper expected)            -- isinstance(v, BytesTypes)
  | .dtc c => .ok (pyHexUpper c == upper expected)            -- isinstance(v, DiagnosticTroubleCode)
  | v => .ok (expected == pyStr v)                            -- expected_value == str(v)

/-- `for x in sub_value: if self.__matches(x, …): return True` / `return False` -/
def anyE {α} (f : α → Except Err Bool) : List α → Except Err Bool
  | [] => .ok false
  | x :: xs => match f x with
    | .error e => .error e
    | .ok true => .ok true
    | .ok false => anyE f xs

/-- `MatchingParameter.__matches(param_dict, snpath_chunks)` -/
def matchesAt (strict : Bool) (expected : Str) : List Str → PVal → Except Err Bool
  | [], v => leafMatches strict expected v
  | c :: rest, .dict kv =>
    match kv.lookup c with                                    -- sub_value = param_dict.get(chunk)
    | none => .ok false                                       -- if sub_value is None: return False
    | some .none => .ok false
    | some sub =>
      let sub := match sub with                               -- table struct parameter: (row, value)
        | .tuple _ [_, b] => b
        | s => s
      match sub with
      | .list _ xs => anyE (matchesAt strict expected rest) xs  -- any item of a field
      | s => matchesAt strict expected rest s
  | _ :: _, _ => odxraise strict (.ok false)                  -- "Parameter … must be a structure"

/-- Python `s.split(".")` on the byte level -/
def splitOn (sep : Nat) : Str → List Str
  | [] => [[]]
  | c :: cs =>
    if c = sep then [] :: splitOn sep cs
    else match splitOn sep cs with
      | [] => [[c]]
      | h :: t => (c :: h) :: t

/-- a `MatchingParameter` or `MatchingBaseVariantParameter` -/
structure MParam where
  expected : Str
  svc : Str                          -- diag_comm_snref
  snref : Option Str                 -- out_param_if_snref
  snpathref : Option Str             -- out_param_if_snpathref
  /-- `none`: plain `MatchingParameter`; `some raw`: `MatchingBaseVariantParameter` with
      `use_physical_addressing_raw = raw` -/
  baseRaw : Option (Option Bool)
deriving Repr, DecidableEq, Inhabited

/-- the addressing flag yielded with the request: `use_physical_addressing_raw in [None, True]` for a
    `MatchingBaseVariantParameter`, `True` otherwise -/
def MParam.phys (p : MParam) : Bool :=
  match p.baseRaw with
  | none => true
  | some raw => raw == none || raw == some true

/-- `MatchingParameter.matches(param_dict)` -/
def paramMatches (strict : Bool) (p : MParam) (v : PVal) : Except Err Bool :=
  match p.snref, p.snpathref with
  | some r, _ => matchesAt strict p.expected [r] v
  | none, some pr => matchesAt strict p.expected (splitOn 46 pr) v
  | none, none => odxraise strict (.ok false)                 -- "no out_param_if specified"

/-! ### candidates -/

/-- what `Response.decode(response_bytes)` does for one response object -/
inductive DecOutcome where
  | val (v : PVal)        -- returns the value tree
  | decodeError           -- raises DecodeError (or a subclass)
  | raises (e : Err)      -- raises something else
deriving Inhabited

structure Service where
  name : Str
  /-- `encode_request()` -/
  req : Except Err Bytes
  /-- response bytes ↦ outcome of `decode` per response object (positive, negative, global negative) -/
  decode : Bytes → List DecOutcome

abbrev Pattern := List MParam        -- `get_matching_parameters()`

/-- the `isinstance` cases of `request_loop` -/
inductive Layer where
  | ecu (patterns : List Pattern)        -- EcuVariant.ecu_variant_patterns
  | base (pattern : Option Pattern)      -- BaseVariant.base_variant_pattern
  | other                                -- anything else

structure Variant where
  layer : Layer
  services : List Service                -- diag_layer.services

/-- `variant_patterns` in `request_loop`; `none` = the `else:` branch -/
def Variant.patterns? (v : Variant) : Option (List Pattern) :=
  match v.layer with
  | .ecu ps => some ps
  | .base none => some []
  | .base (some p) => some [p]
  | .other => none

/-- `MatchingParameter.get_ident_service` = `resolve_snref(diag_comm_snref, diag_layer.services)`;
    in non-strict mode an unresolved reference yields `None`, whose `.encode_request()` is an `AttributeError` -/
def identService (strict : Bool) (v : Variant) (p : MParam) : Except Err Service :=
  match v.services.filter (fun s => s.name == p.svc) with
  | [] => if strict then .error .odx else .error .foreign
  | [s] => .ok s
  | s :: _ :: _ => if strict then .error .odx else .ok s

/-- the loop of `_ident_response_matches` over `all_responses` -/
def anyResponse (strict : Bool) (p : MParam) : List DecOutcome → Except Err Bool
  | [] => .ok false
  | .decodeError :: rest => anyResponse strict p rest         -- except DecodeError: continue
  | .raises e :: _ => .error e
  | .val v :: rest =>
    match paramMatches strict p v with
    | .error e => .error e
    | .ok true => .ok true
    | .ok false => anyResponse strict p rest

/-- `_ident_response_matches(variant, matching_param, response_bytes)` -/
def identResponseMatches (strict : Bool) (p : MParam) (svc : Service) (resp : Bytes) : Except Err Bool :=
  anyResponse strict p (svc.decode resp)

/-! ### matcher state -/

abbrev Req := Bool × Bytes            -- what `request_loop` yields: (use_physical_addressing, request)
abbrev Cache := List (Req × Bytes)    -- `req_resp_cache` (a dict: keys unique, insertion ordered)

inductive St where
  | pending | noMatch | matched
deriving DecidableEq, Repr, Inhabited

structure MState where
  cache : Cache := []
  recent : Option Bytes := none       -- _recent_ident_response
  state : St := .pending
  matching : Option Nat := none       -- _matching_variant, as its position in the candidate list
deriving Repr, DecidableEq, Inhabited

def cacheGet (c : Cache) (k : Req) : Option Bytes := c.lookup k

/-- `d[k] = v` -/
def cacheSet : Cache → Req → Bytes → Cache
  | [], k, v => [(k, v)]
  | (k', v') :: rest, k, v => if k' = k then (k', v) :: rest else (k', v') :: cacheSet rest k v

/-- `evaluate(resp_bytes)`; `none` = not called -/
def evaluate (s : MState) : Option Bytes → MState
  | none => s
  | some b => { s with recent := some b }

/-- `_get_ident_response` (fixed: only `None` means "no response available") -/
def getIdentResponse (s : MState) : Except Err Bytes :=
  match s.recent with
  | none => .error .runtime
  | some r => .ok r

/-- `_update_cache` -/
def updateCache (useCache : Bool) (s : MState) (k : Req) (resp : Bytes) : MState :=
  if useCache then { s with cache := cacheSet s.cache k resp } else s

/-- `has_match()`: `RuntimeError` while pending -/
def hasMatch (s : MState) : Except Err Bool :=
  match s.state with
  | .pending => .error .runtime
  | .matched => .ok true
  | .noMatch => .ok false

/-! ### the request loop as a resumable computation -/

inductive Prog (α : Type) where
  | ret (a : α) (s : MState)                              -- normal completion
  | fail (e : Err) (s : MState)                           -- exception leaves the generator
  /-- `yield phys, req` with the matcher in state `s`; resumed after the caller's turn -/
  | ask (phys : Bool) (req : Bytes) (s : MState) (k : Option Bytes → Prog α)

def Prog.bind {α β} : Prog α → (α → MState → Prog β) → Prog β
  | .ret a s, f => f a s
  | .fail e s, _ => .fail e s
  | .ask ph r s k, f => .ask ph r s fun i => (k i).bind f

structure Config where
  strict : Bool
  useCache : Bool
deriving Repr, DecidableEq, Inhabited

/-- the tail of the innermost loop body once the response bytes are known -/
def finishParam (c : Config) (p : MParam) (svc : Service) (resp : Bytes) (s : MState) : Prog Bool :=
  match identResponseMatches c.strict p svc resp with
  | .error e => .fail e s
  | .ok b => .ret b s

/-- one iteration of `for matching_param in pattern.get_matching_parameters()` up to `cur_response_matches` -/
def paramStep (c : Config) (v : Variant) (p : MParam) (s : MState) : Prog Bool :=
  match identService c.strict v p with                        -- matching_param.get_ident_service(variant)
  | .error e => .fail e s
  | .ok svc =>
    match svc.req with                                        -- .encode_request()
    | .error e => .fail e s
    | .ok rb =>
      let key : Req := (p.phys, rb)
      match (if c.useCache then cacheGet s.cache key else none) with
      | some resp => finishParam c p svc resp s               -- cache hit
      | none =>
        .ask p.phys rb s fun inp =>                             -- yield use_physical_addressing, req_bytes
          let s := evaluate s inp
          match getIdentResponse s with                       -- resp_values = self._get_ident_response()
          | .error e => .fail e s
          | .ok resp => finishParam c p svc resp (updateCache c.useCache s key resp)

/-- `all_params_match`: stop at the first parameter that does not match -/
def paramsLoop (c : Config) (v : Variant) : List MParam → MState → Prog Bool
  | [], s => .ret true s
  | p :: rest, s => (paramStep c v p s).bind fun b s => if b then paramsLoop c v rest s else .ret false s

/-- `any_pattern_matches`: stop at the first pattern that matches -/
def patternsLoop (c : Config) (v : Variant) : List Pattern → MState → Prog Bool
  | [], s => .ret false s
  | pat :: rest, s => (paramsLoop c v pat s).bind fun b s => if b then .ret true s else patternsLoop c v rest s

/-- `if self.is_pending(): self._state = NO_MATCH` after the `for variant` loop -/
def finishLoop (s : MState) : MState := if s.state = .pending then { s with state := .noMatch } else s

/-- `for variant in self.variant_candidates`; `i` = position of the head of the list -/
def variantsLoop (c : Config) (i : Nat) : List Variant → MState → Prog Unit
  | [], s => .ret () (finishLoop s)
  | v :: rest, s =>
    match v.patterns? with
    | none =>                                                 -- odxraise("Only EcuVariant and BaseVariant …")
      if c.strict then .fail .odx s else .ret () { s with state := .noMatch }
    | some pats =>
      (patternsLoop c v pats s).bind fun b s =>
        if b then .ret () (finishLoop { s with state := .matched, matching := some i })
        else variantsLoop c (i + 1) rest s

/-- `VariantMatcher.request_loop()` on a matcher in state `s` -/
def requestLoop (c : Config) (cands : List Variant) (s : MState) : Prog Unit :=
  if s.state ≠ .pending then .ret () s                        -- if not self.is_pending(): return
  else variantsLoop c 0 cands { s with matching := none }

/-! ### environments -/

/-- result of driving a computation -/
structure Run (α : Type) where
  trace : List Req                   -- the requests yielded, in order
  result : Except Err α              -- how the generator ended
  final : MState                     -- matcher state afterwards

/-- the caller of the docstring: every request goes to a deterministic ECU and the answer to `evaluate` -/
def Prog.run {α} (ecu : Req → Bytes) : Prog α → Run α
  | .ret a s => ⟨[], .ok a, s⟩
  | .fail e s => ⟨[], .error e, s⟩
  | .ask ph r _ k =>
    let x := (k (some (ecu (ph, r)))).run ecu
    ⟨(ph, r) :: x.trace, x.result, x.final⟩

/-- result of driving a computation with a script; `result = none`: the generator was abandoned at a yield -/
structure SRun (α : Type) where
  trace : List Req
  result : Option (Except Err α)
  final : MState

/-- an arbitrary caller: one entry per yield (`some b` = `evaluate(b)`, `none` = no call); when the script is
    exhausted the generator is abandoned (closed) at that yield. -/
def Prog.runScript {α} : Prog α → List (Option Bytes) → SRun α
  | .ret a s, _ => ⟨[], some (.ok a), s⟩
  | .fail e s, _ => ⟨[], some (.error e), s⟩
  | .ask ph r s _, [] => ⟨[(ph, r)], none, s⟩
  | .ask ph r _ k, i :: is =>
    let x := (k i).runScript is
    ⟨(ph, r) :: x.trace, x.result, x.final⟩

/-- a fresh matcher, `request_loop` driven against `ecu` -/
def runMatcher (c : Config) (cands : List Variant) (ecu : Req → Bytes) : Run Unit :=
  (requestLoop c cands {}).run ecu

end OdxVerif.Variant
