import OdxVerif.Gen.LayerPrio
/-! # Model of the communication-parameter machinery (property C15)

Mirrors, branch by branch,

* `odxtools/diaglayers/hierarchyelement.py` : `HierarchyElement._compute_available_commmunication_parameters`
  (`available`), `get_comparam` (`getComparam`) and the typed accessors `get_max_can_payload_size`,
  `uses_can`, `uses_can_fd`, `get_can_baudrate`, `get_can_fd_baudrate`, `get_can_receive_id`,
  `get_can_send_id`, `get_can_func_req_id`, `get_doip_logical_ecu_address`,
  `get_doip_logical_gateway_address`, `get_doip_logical_tester_address`,
  `get_doip_logical_functional_address`, `get_doip_routing_activation_timeout`,
  `get_doip_routing_activation_type`, `get_tester_present_time` (`accessor`);
* `odxtools/comparaminstance.py` : `ComparamInstance.get_value` (`getValue`), `get_subvalue` (`getSubvalue`);
* `_get_parent_refs_sorted_by_priority` (`sortAsc`, a stable ascending sort on
  `DiagLayerType.inheritance_priority`, the generated table `Gen.LayerKind.prio`).

The model follows the code *after* the three repairs `fixes/c15-*.patch` (protocol-specific before
generic in `get_comparam`; omitted sub-values fall back to the default in `get_subvalue`; the CAN
accessors read the value through `get_value`). `getComparamPinned` keeps the pinned-commit behaviour
of `get_comparam` for the counter-example theorem.

Conventions: a hierarchy is a DAG; `_compute_available_commmunication_parameters` is a pure function
of the layer and what it reaches, so the DAG is unfolded into a tree (`Layer`). `odxraise` is modelled
for `strict_mode = True` (the default): outcome `.odx`. Every other Python exception (`ValueError` of
`int()`/`float()`, `IndexError`) is the outcome `.foreign`. Warnings are not modelled.
Core Lean only (linked into `drv_comparam`). -/
namespace OdxVerif.Comparam
open OdxVerif.Gen (LayerKind)

/-- `ComplexValue = List[Union[str, ComplexValue]]`; a simple value is a `str` -/
inductive CVal where
  | str (s : String)
  | list (xs : List CVal)
deriving Repr, Inhabited

/-- `BaseComparam`: `Comparam` (short name, PHYSICAL-DEFAULT-VALUE) or `ComplexComparam`
    (short name, sub-parameters, COMPLEX-PHYSICAL-DEFAULT-VALUE) -/
inductive CpSpec where
  | simple (name : String) (dflt : String)
  | complex (name : String) (subs : List CpSpec) (dflt : Option (List CVal))
deriving Repr, Inhabited

def CpSpec.name : CpSpec → String
  | .simple n _ => n
  | .complex n _ _ => n

/-- `ComparamInstance` (a COMPARAM-REF element). `tag` identifies the XML element (Python object
    identity); `id` is `spec_ref.ref_id`, `proto` is `protocol_snref`, `spec` the resolved `_spec`. -/
structure Inst where
  tag : Nat
  id : String
  proto : Option String
  value : CVal
  spec : CpSpec
deriving Repr, Inhabited

/-- `ComparamInstance.short_name` = `self.spec.short_name` -/
def Inst.name (c : Inst) : String := c.spec.name

/-- the dictionary key `(cp.spec_ref.ref_id, cp.protocol_snref)` -/
abbrev Key := String × Option String
def Inst.key (c : Inst) : Key := (c.id, c.proto)

/-- a diagnostic layer: its type, `hierarchy_element_raw.comparam_refs`, the layers of its
    `parent_refs` in document order -/
inductive Layer where
  | mk (kind : LayerKind) (locals : List Inst) (parents : List Layer)
deriving Inhabited

def Layer.kind : Layer → LayerKind | .mk k _ _ => k
def Layer.locals : Layer → List Inst | .mk _ l _ => l
def Layer.parents : Layer → List Layer | .mk _ _ p => p

/-! ## `_compute_available_commmunication_parameters` -/

/-- insertion-ordered `dict` keyed by `Inst.key` (`com_params_dict`) -/
abbrev Dict := List Inst

/-- `com_params_dict[key(c)] = c`: replace in place (a Python dict keeps the position of the first
    insertion of a key), else append -/
def dictSet : Dict → Inst → Dict
  | [], c => [c]
  | x :: xs, c => if x.key = c.key then c :: xs else x :: dictSet xs c

/-- `com_params_dict.get(k)` -/
def dictGet (d : Dict) (k : Key) : Option Inst := d.find? fun c => c.key = k

/-- what the recursion delivers for one parent ref: the type of `parent_ref.layer` and
    `parent_layer._compute_available_commmunication_parameters()` -/
structure ParentRes where
  kind : LayerKind
  insts : List Inst
deriving Repr

/-- `pr.layer.variant_type.inheritance_priority` -/
def ParentRes.prio (r : ParentRes) : Nat := r.kind.prio

/-- stable insertion into an ascending list: `x` was declared before everything in the list, so it
    goes in front of the first element whose priority is not smaller -/
def insertAsc (x : ParentRes) : List ParentRes → List ParentRes
  | [] => [x]
  | y :: ys => if y.prio < x.prio then y :: insertAsc x ys else x :: y :: ys

/-- `sorted(parent_refs, key=priority)` (stable: equal keys keep their document order) -/
def sortAsc : List ParentRes → List ParentRes
  | [] => []
  | x :: xs => insertAsc x (sortAsc xs)

/-- one iteration of `for parent_ref in self._get_parent_refs_sorted_by_priority():` (l.533-539) -/
def mergeParent (d : Dict) (r : ParentRes) : Dict :=
  -- l.535 `if not isinstance(parent_layer, HierarchyElement): continue` : ECU-SHARED-DATA layers
  -- are the only layers that are not hierarchy elements
  if r.kind = .ecuSharedData then d
  else r.insts.foldl dictSet d                                 -- l.537-539

mutual
/-- `layer._compute_available_commmunication_parameters()`; the result is `layer.comparam_refs`
    (l.224; `NamedItemList(...)` keeps the order and every item) -/
def available : Layer → List Inst
  | .mk _ locals parents =>
    -- the recursive calls happen inside the loop over the sorted parents; they are pure, so they are
    -- evaluated here in document order and sorted afterwards
    let d := (sortAsc (availParents parents)).foldl mergeParent []   -- l.528-539
    locals.foldl dictSet d                                          -- l.542-543
def availParents : List Layer → List ParentRes
  | [] => []
  | p :: ps => ⟨p.kind, available p⟩ :: availParents ps
end

/-! ## `get_comparam` -/

/-- `get_comparam(cp_short_name, protocol=…)` after `fixes/c15-protocol-specific-first.patch`;
    a `Protocol` object passed as `protocol` is replaced by its short name (l.591-594) -/
def getComparamIn (refs : List Inst) (n : String) (p : Option String) : Option Inst :=
  let cps := refs.filter fun c => c.name = n                      -- l.597
  match p with
  | none => cps.head?                                              -- l.601-611 `cps[0]` / `None`
  | some q =>
    let specific := cps.filter fun c => c.proto = some q           -- fix: protocol-specific first
    match specific with
    | c :: _ => some c
    | [] => (cps.filter fun c => c.proto = none).head?             -- generic definitions as fallback

def getComparam (L : Layer) (n : String) (p : Option String) : Option Inst :=
  getComparamIn (available L) n p

/-- `get_comparam` at the pinned commit (hierarchyelement.py l.597-611): `cps[0]` of everything that
    is generic or specific, in dictionary order -/
def getComparamPinned (L : Layer) (n : String) (p : Option String) : Option Inst :=
  let cps := (available L).filter fun c => c.name = n
  match p with
  | none => cps.head?
  | some q => (cps.filter fun c => c.proto = none ∨ c.proto = some q).head?

/-! ## `get_value`, `get_subvalue` -/

inductive Err where
  | odx       -- `OdxError` raised by `odxraise`/`odxassert` in strict mode
  | foreign   -- any other exception (`ValueError`, `IndexError`, …)
deriving DecidableEq, Repr

deriving instance DecidableEq for Except

/-- Python truthiness of a `str`/`list` -/
def CVal.truthy : CVal → Bool
  | .str s => s ≠ ""
  | .list xs => !xs.isEmpty

/-- `ComparamInstance.get_value()` (comparaminstance.py l.75-95) -/
def getValue (c : Inst) : Except Err String :=
  match c.spec with
  | .complex _ _ _ => .error .odx                    -- l.82 `if not isinstance(self.spec, Comparam): odxraise()`
  | .simple _ dflt =>
    let result := if c.value.truthy then c.value     -- l.86 `if self.value:`
                  else .str dflt                     -- l.89 `self.spec.physical_default_value`
    match result with
    | .str s => .ok s
    | .list _ => .error .odx                         -- l.91 `if not isinstance(result, str): odxraise()`

/-- `name_list.index(subparam_name)` together with `comparam_spec.subparams[idx]` -/
def findSub : List CpSpec → String → Nat → Option (Nat × CpSpec)
  | [], _, _ => none
  | s :: ss, n, i => if s.name = n then some (i, s) else findSub ss n (i + 1)

/-- `subparam.physical_default_value` (a `str`, a `ComplexValue` or `None`) -/
def CpSpec.dfltVal : CpSpec → Option CVal
  | .simple _ d => some (.str d)
  | .complex _ _ d => d.map .list

/-- `ComparamInstance.get_subvalue(subparam_name)` (l.97-137) after `fixes/c15-subvalue-default.patch` -/
def getSubvalue (c : Inst) (sub : String) : Except Err (Option String) :=
  match c.spec with
  | .simple _ _ => .error .odx                       -- l.104 `if not isinstance(…, ComplexComparam): odxraise()`
  | .complex _ subs _ =>
    match c.value with
    | .str _ => .ok none                             -- l.108 `if not isinstance(value_list, list): … return None`
    | .list xs =>
      match findSub subs sub 0 with
      | none => .ok none                             -- l.122 `except ValueError: … return None`
      | some (idx, sp) =>
        let result : Option CVal := xs[idx]?         -- fix: a missing trailing sub-value is `None`
        let result := match result with
          | some v => if v.truthy then some v else sp.dfltVal   -- fix: `if not result and …`
          | none => sp.dfltVal
        match result with
        | some (.str s) => .ok (some s)
        | _ => .error .odx                           -- l.134 `if not isinstance(result, str): odxraise()`

/-! ## Python's `int(str)` and `float(str)` -/

def isWs (c : Char) : Bool := c = ' ' ∨ c = '\t' ∨ c = '\n' ∨ c = '\r' ∨ c = '\x0b' ∨ c = '\x0c'
def isDig (c : Char) : Bool := c.isDigit          -- '0' … '9'

/-- `str.strip()` as performed by `int()`/`float()` (ASCII white space) -/
def strip (cs : List Char) : List Char :=
  ((cs.dropWhile isWs).reverse.dropWhile isWs).reverse

/-- every underscore stands between two digits (`_Py_string_to_number_with_underscores`, `long_from_string`) -/
def underscoresOk : (prevDigit : Bool) → List Char → Bool
  | _, [] => true
  | prev, c :: cs =>
    if c = '_' then prev && (match cs with | d :: _ => isDig d | [] => false) && underscoresOk false cs
    else underscoresOk (isDig c) cs

def digitsVal (cs : List Char) : Nat := cs.foldl (fun n c => n * 10 + (c.toNat - 48)) 0

/-- optional sign -/
def splitSign : List Char → Bool × List Char
  | [] => (false, [])
  | c :: cs => if c = '-' then (true, cs) else if c = '+' then (false, cs) else (false, c :: cs)

/-- `int(s)` for a `str`, base 10; `none` = `ValueError` -/
def pyInt (s : String) : Option Int :=
  let (neg, cs) := splitSign (strip s.toList)
  if !underscoresOk false cs then none else
  let ds := cs.filter (· ≠ '_')
  if ds.isEmpty || !ds.all isDig then none
  else some (if neg then -(digitsVal ds : Int) else (digitsVal ds : Int))

/-- the value of `float(s)` before rounding to binary64: `±mant · 10^exp`, an infinity or a NaN -/
inductive Dec where
  | fin (neg : Bool) (mant : Nat) (exp : Int)
  | inf (neg : Bool)
  | nan
deriving DecidableEq, Repr

def lower (cs : List Char) : List Char := cs.map Char.toLower

/-- `float(s)` for a `str`; `none` = `ValueError` -/
def pyFloat (s : String) : Option Dec :=
  let (neg, cs) := splitSign (strip s.toList)
  let lc := lower cs
  if lc = "inf".toList ∨ lc = "infinity".toList then some (.inf neg)
  else if lc = "nan".toList then some .nan
  else if !underscoresOk false cs then none else
  let ds := cs.filter (· ≠ '_')
  let ip := ds.takeWhile isDig
  let r := ds.dropWhile isDig
  let (fp, r) := match r with
    | '.' :: r' => (r'.takeWhile isDig, r'.dropWhile isDig)
    | _ => ([], r)
  if ip.isEmpty && fp.isEmpty then none else
  let m := digitsVal (ip ++ fp)
  match r with
  | [] => some (.fin neg m (-(fp.length : Int)))
  | e :: r' =>
    if e = 'e' ∨ e = 'E' then
      let (eneg, es) := splitSign r'
      if es.isEmpty || !es.all isDig then none
      else
        let ev : Int := digitsVal es
        some (.fin neg m ((if eneg then -ev else ev) - fp.length))
    else none

/-! ## the typed accessors -/

/-- result of a typed accessor -/
inductive Res where
  | none                 -- `None`
  | int (i : Int)
  | bool (b : Bool)
  | micro (d : Dec)      -- `float(content) / 1e6`: `d` is the content, a number of microseconds
  | err (e : Err)
deriving DecidableEq, Repr

/-- `return int(result)` -/
def intRes (s : String) : Res :=
  match pyInt s with
  | some i => .int i
  | none => .err .foreign        -- `ValueError`

/-- `return float(result) / 1e6` -/
def microRes (s : String) : Res :=
  match pyFloat s with
  | some d => .micro d
  | none => .err .foreign

/-- `val = com_param.value; if not isinstance(val, str): …` -/
def CVal.isStr : CVal → Bool
  | .str _ => true
  | .list _ => false

/-- is `pat` a prefix of `cs`; the rest -/
def dropPrefix? : List Char → List Char → Option (List Char)
  | [], cs => some cs
  | _ :: _, [] => none
  | p :: ps, c :: cs => if p = c then dropPrefix? ps cs else none

/-- `"CANFD" in val` -/
def containsSub (pat : List Char) : List Char → Bool
  | [] => pat.isEmpty
  | c :: cs => (dropPrefix? pat (c :: cs)).isSome || containsSub pat cs

/-- `re.search("TX_DL *= *([0-9]*)", val)`: group 1 of the leftmost match -/
def searchTxDl : List Char → Option (List Char)
  | [] => none
  | c :: cs =>
    match dropPrefix? "TX_DL".toList (c :: cs) with
    | some r =>
      match r.dropWhile (· = ' ') with
      | '=' :: r' => some ((r'.dropWhile (· = ' ')).takeWhile isDig)
      | _ => searchTxDl cs
    | none => searchTxDl cs

/-- the accessors that read a simple parameter through `get_value()` and convert with `conv`
    (`get_can_func_req_id`, the DoIP addresses, `get_tester_present_time`, …) -/
def viaValue (c? : Option Inst) (conv : String → Res) : Res :=
  match c? with
  | none => .none                            -- `if com_param is None: return None`
  | some c =>
    match getValue c with
    | .error e => .err e
    | .ok s => conv s                        -- `result is None` cannot happen; `odxassert(isinstance(result, str))` holds

/-- body of `get_can_baudrate` / `get_can_fd_baudrate` after `fixes/c15-accessor-default.patch` -/
def viaGuardedValue (c? : Option Inst) : Res :=
  match c? with
  | none => .none                            -- `if com_param is None: return None`
  | some c =>
    if !c.value.isStr then .none             -- `if not isinstance(com_param.value, str): return None`
    else match getValue c with               -- fix: `int(com_param.get_value())`
      | .error e => .err e
      | .ok s => intRes s

/-- the accessors that read a sub-value of `CP_UniqueRespIdTable` -/
def viaSubvalue (c? : Option Inst) (sub : String) : Res :=
  match c? with
  | none => .none
  | some c =>
    match getSubvalue c sub with
    | .error e => .err e
    | .ok none => .none                      -- `if result is None: return None`
    | .ok (some s) => intRes s

/-- the accessors of `HierarchyElement` -/
inductive Acc where
  | maxCanPayloadSize | usesCan | usesCanFd | canBaudrate | canFdBaudrate | canReceiveId | canSendId
  | canFuncReqId | doipLogicalEcuAddress | doipLogicalGatewayAddress | doipLogicalTesterAddress
  | doipLogicalFunctionalAddress | doipRoutingActivationTimeout | doipRoutingActivationType
  | testerPresentTime
deriving DecidableEq, Repr

def Acc.all : List Acc :=
  [.maxCanPayloadSize, .usesCan, .usesCanFd, .canBaudrate, .canFdBaudrate, .canReceiveId, .canSendId,
   .canFuncReqId, .doipLogicalEcuAddress, .doipLogicalGatewayAddress, .doipLogicalTesterAddress,
   .doipLogicalFunctionalAddress, .doipRoutingActivationTimeout, .doipRoutingActivationType,
   .testerPresentTime]

/-- `get_can_receive_id` (l.707-725) -/
def canReceiveId (gc : String → Option Inst) : Res :=
  viaSubvalue (gc "CP_UniqueRespIdTable") "CP_CanPhysReqId"

/-- `uses_can` (l.645-649): `self.get_can_receive_id(protocol) is not None`; an exception propagates -/
def usesCan (gc : String → Option Inst) : Except Err Bool :=
  match canReceiveId gc with
  | .err e => .error e
  | .none => .ok false
  | _ => .ok true

/-- `uses_can_fd` (l.651-668) after `fixes/c15-accessor-default.patch` -/
def usesCanFd (gc : String → Option Inst) : Except Err Bool :=
  match usesCan gc with
  | .error e => .error e
  | .ok false => .ok false                                   -- `if not self.uses_can(protocol): return False`
  | .ok true =>
    match gc "CP_CANFDTxMaxDataLength" with
    | none => .ok false
    | some c =>
      if !c.value.isStr then .ok false                       -- fix: a complex value is no CAN-FD marker
      else match getValue c with
        | .error e => .error e
        | .ok s => .ok (containsSub "CANFD".toList s.toList)  -- `"CANFD" in …`

/-- `accessor a gc` is the accessor `a` of a layer whose `get_comparam(·, protocol=p)` is `gc` -/
def accessor (a : Acc) (gc : String → Option Inst) : Res :=
  match a with
  | .maxCanPayloadSize =>                                    -- l.613-643
    match gc "CP_CANFDTxMaxDataLength" with
    | none =>
      match canReceiveId gc with
      | .err e => .err e
      | .none => .none
      | _ => .int 8
    | some c =>
      if !c.value.isStr then .none                           -- `if not isinstance(val, str): return None`
      else match getValue c with                             -- fix: `val = com_param.get_value()`
        | .error e => .err e
        | .ok s =>
          match searchTxDl s.toList with
          | some ds => if ds.isEmpty then .err .foreign      -- `int("")`
                       else .int (digitsVal ds)
          | none => .int 8
  | .usesCan => match usesCan gc with | .ok b => .bool b | .error e => .err e
  | .usesCanFd => match usesCanFd gc with | .ok b => .bool b | .error e => .err e
  | .canBaudrate => viaGuardedValue (gc "CP_Baudrate")        -- l.670-685
  | .canFdBaudrate =>                                        -- l.687-705
    match usesCanFd gc with
    | .error e => .err e
    | .ok false => .none
    | .ok true => viaGuardedValue (gc "CP_CANFDBaudrate")
  | .canReceiveId => canReceiveId gc
  | .canSendId => viaSubvalue (gc "CP_UniqueRespIdTable") "CP_CanRespUSDTId"
  | .canFuncReqId => viaValue (gc "CP_CanFuncReqId") intRes
  | .doipLogicalEcuAddress => viaSubvalue (gc "CP_UniqueRespIdTable") "CP_DoIPLogicalEcuAddress"
  | .doipLogicalGatewayAddress => viaValue (gc "CP_DoIPLogicalGatewayAddress") intRes
  | .doipLogicalTesterAddress => viaValue (gc "CP_DoIPLogicalTesterAddress") intRes
  | .doipLogicalFunctionalAddress => viaValue (gc "CP_DoIPLogicalFunctionalAddress") intRes
  | .doipRoutingActivationTimeout => viaValue (gc "CP_DoIPRoutingActivationTimeout") microRes
  | .doipRoutingActivationType => viaValue (gc "CP_DoIPRoutingActivationType") intRes
  | .testerPresentTime => viaValue (gc "CP_TesterPresentTime") microRes

/-- `layer.get_…(protocol=p)` -/
def layerAccessor (a : Acc) (L : Layer) (p : Option String) : Res :=
  accessor a fun n => getComparam L n p

/-! ## What a layer object keeps between calls (edit histories)

A loaded database may be edited (raw COMPARAM-REF lists, parent refs, values, defaults — the way
`examples/mksomersaultmodifiedpdx.py` edits one) and `Database.refresh()` called again. The only thing
the communication-parameter machinery keeps on a layer object between two calls is `self._comparam_refs`,
assigned by `_finalize_init` (hierarchyelement.py l.224); `comparam_refs` (l.548-555), `get_comparam`
(l.578-611) and the typed accessors only *read* it and store nothing. An edit changes what the raw
objects describe, not the stored list. -/

structure LayerObj where
  /-- what the raw objects reachable from the layer describe now -/
  hier : Layer
  /-- `self._comparam_refs` -/
  refs : List Inst

inductive HistOp where
  /-- any modification of the raw objects: afterwards they describe `L'` -/
  | edit (L' : Layer)
  /-- `Database.refresh()` → `_finalize_init` → `self._comparam_refs = NamedItemList(self._compute_…())` -/
  | refresh
  /-- `get_comparam(n, protocol=p)`, directly or through a typed accessor: a read -/
  | query (n : String) (p : Option String)

def HistOp.isQuery : HistOp → Bool
  | .query _ _ => true
  | _ => false

def LayerObj.step (o : LayerObj) : HistOp → LayerObj
  | .edit L' => { o with hier := L' }
  | .refresh => { o with refs := available o.hier }
  | .query _ _ => o

def LayerObj.run (o : LayerObj) (ops : List HistOp) : LayerObj := ops.foldl LayerObj.step o

/-- loading a document ends with `refresh()` -/
def LayerObj.load (L : Layer) : LayerObj := ⟨L, available L⟩

/-- `layer.get_comparam(n, protocol=p)` on the object as it is -/
def LayerObj.getComparam (o : LayerObj) (n : String) (p : Option String) : Option Inst :=
  getComparamIn o.refs n p

/-- `layer.get_…(protocol=p)` on the object as it is -/
def LayerObj.accessor (a : Acc) (o : LayerObj) (p : Option String) : Res :=
  OdxVerif.Comparam.accessor a fun n => o.getComparam n p

end OdxVerif.Comparam
