import OdxVerif.Common.Sexp
/-! Bytes ↔ numbers, the arithmetic core of `EncodeState.emplace_atomic_value` /
    `DecodeState.extract_atomic_value` (bitstruct `p<n>u<m>` packing is big-endian bit packing).
    Core Lean only. -/
namespace OdxVerif.Bits

/-- `n.to_bytes(k, "big")` for `n < 256^k` (in general: of `n % 256^k`) -/
def toBytesBE : Nat → Nat → Bytes
  | 0, _ => []
  | k+1, n => (n / 256 ^ k % 256) :: toBytesBE k n

/-- `int.from_bytes(bs, "big")` -/
def ofBytesBE : Bytes → Nat
  | [] => 0
  | b :: bs => b * 256 ^ bs.length + ofBytesBE bs

/-- byte order of numeric objects: high-low = as is, low-high = reversed (`coded[::-1]`) -/
def ord (hl : Bool) (bs : Bytes) : Bytes := if hl then bs else bs.reverse

/-- `bytearray += b"\0" * (n - len)` -/
def padTo (bs : Bytes) (n : Nat) : Bytes := bs ++ List.replicate (n - bs.length) 0

/-- the `k` bytes at `pos` as a number, in the given byte order -/
def readNum (msg : Bytes) (pos k : Nat) (hl : Bool) : Nat :=
  ofBytesBE (ord hl ((msg.drop pos).take k))

/-- overwrite the `k` bytes at `pos` (which must exist) with the number `v` -/
def writeNum (msg : Bytes) (pos k : Nat) (hl : Bool) (v : Nat) : Bytes :=
  msg.take pos ++ ord hl (toBytesBE k v) ++ msg.drop (pos + k)

/-- Python `int.bit_length()` of a natural number -/
def bitLength (n : Nat) : Nat := if n = 0 then 0 else Nat.log2 n + 1

/-- packed BCD: decimal digits → nibbles (`__encode_bcd_p`); fuel = n suffices -/
def bcdEnc (shift : Nat) : (fuel : Nat) → Nat → Nat
  | 0, _ => 0
  | fuel+1, v => if v = 0 then 0 else (v % 10) + (bcdEnc shift fuel (v / 10)) * 2 ^ shift

/-- `__decode_bcd_p` / `__decode_bcd_up`: low nibble of every `shift`-bit group is a decimal digit -/
def bcdDec (shift : Nat) : (fuel : Nat) → Nat → Nat
  | 0, _ => 0
  | fuel+1, v => if v = 0 then 0 else (v % 16) + 10 * bcdDec shift fuel (v / 2 ^ shift)

end OdxVerif.Bits
