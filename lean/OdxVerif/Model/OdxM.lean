/-! The effect monad of all codec models (DESIGN §4.2): state σ, the process-wide strict flag read at
    the time of every `odxraise`, errors by class. An error carries the state at the point of raising
    (Python handlers see mutations made before the exception). Core Lean only. -/
namespace OdxVerif

inductive Err where
  | encode            -- EncodeError
  | decode            -- DecodeError (not DecodeMismatch)
  | mismatch          -- DecodeMismatch
  | odx               -- plain OdxError
  | foreign           -- any exception that is not an OdxError (KeyError, IndexError, OverflowError, …)
  | unmodelled        -- the model does not follow this path (only reachable in non-strict mode fall-backs)
deriving Repr, DecidableEq, Inhabited

def Err.name : Err → String
  | .encode => "encode" | .decode => "decode" | .mismatch => "mismatch" | .odx => "odx"
  | .foreign => "foreign" | .unmodelled => "unmodelled"

def OdxM (σ α : Type) := σ → (strict : Bool) → Except (Err × σ) (α × σ)

namespace OdxM
variable {σ α β : Type}
@[inline] protected def pure (a : α) : OdxM σ α := fun s _ => .ok (a, s)
@[inline] protected def bind (m : OdxM σ α) (f : α → OdxM σ β) : OdxM σ β := fun s st =>
  match m s st with
  | .ok (a, s') => f a s' st
  | .error e => .error e
instance : Monad (OdxM σ) := { pure := OdxM.pure, bind := OdxM.bind }
/-- `odxraise(msg, E)`: raises only if the flag is set *now* -/
def odxraise (e : Err) : OdxM σ Unit := fun s st => if st then .error (e, s) else .ok ((), s)
/-- plain `raise E(...)` -/
def raise (e : Err) : OdxM σ α := fun s _ => .error (e, s)
def getS : OdxM σ σ := fun s _ => .ok (s, s)
def setS (s : σ) : OdxM σ Unit := fun _ _ => .ok ((), s)
def modifyS (f : σ → σ) : OdxM σ Unit := fun s _ => .ok ((), f s)
/-- `odxassert(cond)` -/
def odxassert (c : Bool) : OdxM σ Unit := if c then OdxM.pure () else odxraise .odx
/-- `try: m  except <handles> as e: h e` -/
def tryCatch (m : OdxM σ α) (handles : Err → Bool) (h : Err → OdxM σ α) : OdxM σ α := fun s st =>
  match m s st with
  | .ok r => .ok r
  | .error (e, s') => if handles e then h e s' st else .error (e, s')
/-- reading the flag outside `odxraise` (no modelled function does it any more) -/
def readFlag : OdxM σ Bool := fun s st => .ok (st, s)
/-- lift a pure `Except Err` computation -/
def liftE (x : Except Err α) : OdxM σ α := fun s _ =>
  match x with
  | .ok a => .ok (a, s)
  | .error e => .error (e, s)
end OdxM
end OdxVerif

namespace OdxVerif.OdxM
variable {σ α β : Type}
/-! run lemmas (simp set `odxm`): evaluate a monadic term on a state and a flag -/
theorem run_ite {c : Prop} [Decidable c] (a b : OdxM σ α) (s : σ) (st : Bool) :
    (if c then a else b) s st = if c then a s st else b s st := by split <;> rfl
theorem run_bind (m : OdxM σ α) (f : α → OdxM σ β) (s : σ) (st : Bool) :
    (OdxM.bind m f) s st = match m s st with
      | .ok (a, s') => f a s' st
      | .error e => .error e := rfl
theorem run_pure (a : α) (s : σ) (st : Bool) : (OdxM.pure a : OdxM σ α) s st = .ok (a, s) := rfl
theorem run_getS (s : σ) (st : Bool) : (getS : OdxM σ σ) s st = .ok (s, s) := rfl
theorem run_setS (s' s : σ) (st : Bool) : (setS s' : OdxM σ Unit) s st = .ok ((), s') := rfl
theorem run_modifyS (f : σ → σ) (s : σ) (st : Bool) : (modifyS f : OdxM σ Unit) s st = .ok ((), f s) := rfl
theorem run_raise (e : Err) (s : σ) (st : Bool) : (raise e : OdxM σ α) s st = .error (e, s) := rfl
theorem run_odxraise_strict (e : Err) (s : σ) : (odxraise e : OdxM σ Unit) s true = .error (e, s) := rfl
theorem run_odxraise_lenient (e : Err) (s : σ) : (odxraise e : OdxM σ Unit) s false = .ok ((), s) := rfl
end OdxVerif.OdxM
