/-! The effect monad of all codec models (DESIGN §4.2): state σ, the process-wide strict flag read at
    the time of every `odxraise`, errors by class. An error carries the state at the point of raising
    (Python handlers see mutations made before the exception). Core Lean only. -/
namespace OdxVerif

inductive Err where
  | encode            -- EncodeError
  | decode            -- DecodeError (not DecodeMismatch)
  | mismatch          -- DecodeMismatch
  | odx               -- plain OdxError
  | foreign           -- any exception that is not an OdxError (KeyError, IndexError, OverflowError, …)
  | unmodelled        -- the model does not follow this path (only reachable in non-strict mode fall-backs)
deriving Repr, DecidableEq, Inhabited

def Err.name : Err → String
  | .encode => "encode" | .decode => "decode" | .mismatch => "mismatch" | .odx => "odx"
  | .foreign => "foreign" | .unmodelled => "unmodelled"

def OdxM (σ α : Type) := σ → (strict : Bool) → Except (Err × σ) (α × σ)

namespace OdxM
variable {σ α β : Type}
@[inline] protected def pure (a : α) : OdxM σ α := fun s _ => .ok (a, s)
@[inline] protected def bind (m : OdxM σ α) (f : α → OdxM σ β) : OdxM σ β := fun s st =>
  match m s st with
  | .ok (a, s') => f a s' st
  | .error e => .error e
instance : Monad (OdxM σ) := { pure := OdxM.pure, bind := OdxM.bind }
/-- `odxraise(msg, E)`: raises only if the flag is set *now* -/
def odxraise (e : Err) : OdxM σ Unit := fun s st => if st then .error (e, s) else .ok ((), s)
/-- plain `raise E(...)` -/
def raise (e : Err) : OdxM σ α := fun s _ => .error (e, s)
def get : OdxM σ σ := fun s _ => .ok (s, s)
def set (s : σ) : OdxM σ Unit := fun _ _ => .ok ((), s)
def modify (f : σ → σ) : OdxM σ Unit := fun s _ => .ok ((), f s)
/-- `odxassert(cond)` -/
def odxassert (c : Bool) : OdxM σ Unit := if c then OdxM.pure () else odxraise .odx
/-- `try: m  except <handles> as e: h e` -/
def tryCatch (m : OdxM σ α) (handles : Err → Bool) (h : Err → OdxM σ α) : OdxM σ α := fun s st =>
  match m s st with
  | .ok r => .ok r
  | .error (e, s') => if handles e then h e s' st else .error (e, s')
/-- reading the flag outside `odxraise` (no modelled function does it any more) -/
def readFlag : OdxM σ Bool := fun s st => .ok (st, s)
/-- lift a pure `Except Err` computation -/
def liftE (x : Except Err α) : OdxM σ α := fun s _ =>
  match x with
  | .ok a => .ok (a, s)
  | .error e => .error (e, s)
end OdxM
end OdxVerif
