import OdxVerif.Model.Atomic
import OdxVerif.Model.CodecCompu
/-! Executable model of the composite codec (odxtools/codec.py, parameters/*.py, basicstructure.py,
    dataobjectproperty.py, the four diag-coded types, the four field kinds), on top of the atomic layer.
    Constructs the model does not follow return `Err.unmodelled` (the driver answers `(unsupported)`).
    Core Lean only. -/
namespace OdxVerif.Codec
open OdxVerif.Bits OdxVerif.OdxM

inductive Term | zero | hexff | eop
deriving Repr, DecidableEq, Inhabited

/-- DIAG-CODED-TYPE -/
inductive Dct where
  | std (bt : BaseType) (enc : Option Enc) (hl : Bool) (bitLen : Nat) (mask : Option Nat) (condensed : Bool)
  | minmax (bt : BaseType) (enc : Option Enc) (hl : Bool) (minLen : Nat) (maxLen : Option Nat) (term : Term)
  | leading (bt : BaseType) (enc : Option Enc) (hl : Bool) (bitLen : Nat)
  | paramLen (bt : BaseType) (enc : Option Enc) (hl : Bool) (key : String)
deriving Repr, Inhabited

def Dct.baseType : Dct → BaseType
  | .std bt .. | .minmax bt .. | .leading bt .. | .paramLen bt .. => bt

/-- the compu methods the codec model follows itself: IDENTICAL, and LINEAR / TEXTTABLE through the exact-rational
    model of property C07 (`Model/CodecCompu.lean`); the other categories are C07's business only -/
inductive CCompu where
  | identical
  | other
  | linear (d : LinDesc)
  | texttable (scales : List TScale)
deriving Repr, Inhabited

/-- the compu method object of a DOP with coded type `ity` and physical type `pty`; `none`: not followed
    (the loader rejects the description, or it is outside the exactness guard of `Model/CodecCompu.lean`) -/
def CCompu.method? (cm : CCompu) (ity pty : BaseType) : Option Compu.Method :=
  match cm with
  | .identical => do
    let i ← dtype? ity
    let p ← dtype? pty
    pure (.identical i p)
  | .linear d => linMethod? d ity pty
  | .texttable scs => ttMethod? scs ity pty
  | .other => none

/-- physical values -/
inductive PVal where
  | atom (v : IVal)
  | dict (kv : List (String × PVal))
  | list (xs : List PVal)
  | none
  | pair (name : String) (v : PVal)     -- value of a multiplexer: (case name, content) — also what decoding returns
  | keyed (key : Int) (v : PVal)        -- value of a multiplexer: (switch-key value, content)
  | nokey (v : PVal)                    -- value of a multiplexer: (None, content) = the default case
  | dtc (code : Int)                    -- a `DiagnosticTroubleCode` object (what a DTC-DOP decodes to), by its trouble code
deriving Repr, Inhabited

mutual
inductive Dop where
  | simple (dct : Dct) (phys : BaseType) (cm : CCompu)
  | struct (byteSize : Option Nat) (params : List Param)
  | staticField (count itemSize : Nat) (item : Dop)
  | dynLenField (offset countBytePos countBitPos : Nat) (countDop : Dop) (item : Dop)
  | endMarkerField (termVal : IVal) (termDop : Dop) (item : Dop)
  | eopField (minItems : Option Nat) (maxItems : Option Nat) (item : Dop)
  | mux (bytePos swBytePos : Nat) (swBitPos : Option Nat) (swDop : Dop) (cases : List MuxCaseD)
        (dflt : Option (String × Option Dop))
  | unsupported
  | dtc (dct : Dct) (phys : BaseType) (cm : CCompu) (dtcs : List (Int × String))   -- DTC-DOP: (trouble code, short name)
/-- a CASE of a multiplexer: short name, limits of the switch key, content structure -/
inductive MuxCaseD where
  | mk (name : String) (lower upper : Int) (struct : Option Dop)
inductive Param where
  | mk (name : String) (bytePos : Option Nat) (bitPos : Option Nat) (kind : PKind)
inductive PKind where
  | codedConst (dct : Dct) (value : IVal)
  | physConst (dop : Dop) (value : PVal)
  | value (dop : Dop) (default : Option PVal)
  | reserved (bitLen : Nat)
  | matchingReq (reqPos byteLen : Nat)
  | nrcConst (dct : Dct) (values : List IVal)
  | lengthKey (dop : Dop)
  | unsupported
end

instance : Inhabited Dop := ⟨.unsupported⟩
instance : Inhabited Param := ⟨.mk "" none none .unsupported⟩

def Param.name : Param → String | .mk n .. => n
def Param.kind : Param → PKind | .mk _ _ _ k => k
def Param.bytePos : Param → Option Nat | .mk _ b _ _ => b
def Param.bitPos : Param → Option Nat | .mk _ _ b _ => b

def lookup {α} (k : String) : List (String × α) → Option α
  | [] => none
  | (k', v) :: rest => if k = k' then some v else lookup k rest

def insertKV {α} (k : String) (v : α) : List (String × α) → List (String × α)
  | [] => [(k, v)]
  | (k', v') :: rest => if k = k' then (k, v) :: rest else (k', v') :: insertKV k v rest

/-! ## static bit lengths (`get_static_bit_length`) -/

def popCount : (fuel : Nat) → Nat → Nat
  | 0, _ => 0
  | f+1, n => if n = 0 then 0 else n % 2 + popCount f (n / 2)

def Dct.staticBitLen : Dct → Option Nat
  | .std _ _ _ bl mask condensed =>
    match mask with
    | some m => if condensed then some (popCount (m + 1) m) else some bl
    | none => some bl
  | _ => none

mutual
def Dop.staticBitLen : Dop → Option Nat
  | .simple dct _ _ => dct.staticBitLen
  | .struct (some bs) _ => some (8 * bs)
  | .struct none ps => (paramsStaticLen ps 0 0).map (8 * ·)
  | _ => none
def PKind.staticBitLen : PKind → Option Nat
  | .codedConst dct _ => dct.staticBitLen
  | .physConst dop _ => dop.staticBitLen
  | .value dop _ => dop.staticBitLen
  | .reserved bl => some bl
  | .matchingReq _ n => some (8 * n)
  | .nrcConst dct _ => dct.staticBitLen
  | .lengthKey dop => dop.staticBitLen
  | .unsupported => none
/-- `composite_codec_get_static_bit_length`: cursor / running maximum in bytes -/
def paramsStaticLen : List Param → (cursor maxLen : Nat) → Option Nat
  | [], _, m => some m
  | .mk _ bytePos bitPos kind :: rest, cursor, m =>
    match kind.staticBitLen with
    | none => none
    | some bl =>
      let c := (match bytePos with | some b => b | none => cursor) + ((bitPos.getD 0) + bl + 7) / 8
      paramsStaticLen rest c (max m c)
end

/-! ## encoding -/

/-! ### BIT-MASK (`StandardLengthType.__apply_mask`, `__unapply_mask`, `__get_used_mask`) -/

/-- the low bits of a Python `int` as a natural number: `x & ((1 << n) - 1)` (two's complement for negatives) -/
def lowBits (x : Int) (n : Nat) : Nat := (x % (2 : Int) ^ n).toNat

/-- condensed `__apply_mask`: the bits of `v` at the one-positions of `mask`, packed towards bit 0.
    `while bit_mask >= (1 << mask_bit)`: `fuel` = remaining bit positions of the mask -/
def gatherBits (mask v : Nat) : (fuel : Nat) → (maskBit resultBit : Nat) → Nat
  | 0, _, _ => 0
  | f+1, i, o =>
    if mask.testBit i then (if v.testBit i then 2 ^ o else 0) + gatherBits mask v f (i + 1) (o + 1)
    else gatherBits mask v f (i + 1) o

/-- condensed `__unapply_mask`: bit `input_bit` of `r` goes to the next one-position of `mask` -/
def scatterBits (mask r : Nat) : (fuel : Nat) → (maskBit inputBit : Nat) → Nat
  | 0, _, _ => 0
  | f+1, i, k =>
    if mask.testBit i then (if r.testBit k then 2 ^ i else 0) + scatterBits mask r f (i + 1) (k + 1)
    else scatterBits mask r f (i + 1) k

/-- `__apply_mask(internal_value)` -/
def applyMask (mask : Nat) (condensed : Bool) (v : IVal) : EncM IVal :=
  match v with
  | .int i =>
    let u := lowBits i (bitLength mask)
    pure (.int (if condensed then gatherBits mask u (bitLength mask) 0 0 else u &&& mask))
  | .bytes b =>
    -- int.from_bytes(value, "big") … result.to_bytes(len(value), "big"): the result never has more bits than the value
    let u := ofBytesBE b
    pure (.bytes (toBytesBE b.length (if condensed then gatherBits mask u (bitLength mask) 0 0 else u &&& mask)))
  | _ => do odxraise .odx; raise .unmodelled                    -- lenient: returns None / the value itself

/-- `__get_used_mask(internal_value)`: big-endian, before the byte order is applied -/
def usedMaskOf (mask : Nat) (condensed : Bool) (bl : Nat) (v : IVal) : Bytes :=
  if condensed then
    let n := popCount (mask + 1) mask
    toBytesBE ((n + 7) / 8) (2 ^ n - 1)
  else
    let sz := match v with
      | .bytes b => b.length
      | _ => (bl + 7) / 8
    toBytesBE sz (mask % 2 ^ (8 * sz))

/-- `__unapply_mask(raw_value)` -/
def unapplyMask (mask : Nat) (condensed : Bool) (v : IVal) : OdxM σ IVal :=
  match v with
  | .int i =>
    let u := lowBits i (bitLength mask)
    pure (.int (if condensed then scatterBits mask u (bitLength mask) 0 0 else u &&& mask))
  | .bytes b =>
    let u := ofBytesBE b
    let r := if condensed then scatterBits mask u (bitLength mask) 0 0 else u &&& mask
    -- a condensed mask with one-bits beyond the object: "do not fit into a byte field" (DecodeError, both modes)
    if r ≥ 256 ^ b.length then raise .decode else pure (.bytes (toBytesBE b.length r))
  | _ => do odxraise .odx; raise .unmodelled

/-- `StandardLengthType.encode_into_pdu` and the other diag-coded types -/
def encodeDct (dct : Dct) (v : IVal) : EncM Unit := do
  match dct with
  | .std bt enc hl bl none _ => emplaceAtomic v bl bt enc hl none
  | .std bt enc hl bl (some m) c => do
    let v' ← applyMask m c v
    emplaceAtomic v' bl bt enc hl (some (usedMaskOf m c bl v))
  | .minmax bt enc hl minLen maxLen term => do
    -- raw bytes of the value
    let raw ← (match v with
      | .bytes b => pure b
      | .str cps => do
        let codec ← (match stringCodec bt enc hl with
          | some c => pure c
          | none => do odxraise .odx; pure Text.Codec.latin1)
        match Text.encode codec cps with
        | some r => pure r
        | none => do odxraise .encode; raise .unmodelled       -- lenient: errors="replace"
      | _ => do odxraise .encode; raise .unmodelled)
    let n := raw.length
    let dataLen ←
      if n < minLen then do odxraise .encode; pure minLen
      else match maxLen with
        | some mx => if n > mx then do odxraise .encode; pure mx else pure n
        | none => pure n
    -- a value that contains the (aligned) termination sequence behind MIN-LENGTH cannot be encoded
    let tseq : Bytes := match term with
      | .zero => if bt = .unicode2 then [0, 0] else [0]
      | .hexff => if bt = .unicode2 then [255, 255] else [255]
      | .eop => []
    if tseq.length > 0 ∧ (List.range ((raw.length + tseq.length - 1) / tseq.length)).any
        (fun q => decide (q * tseq.length ≥ minLen) && ((raw.drop (q * tseq.length)).take tseq.length == tseq)) then
      odxraise .encode
    emplaceAtomic (.bytes raw) (8 * dataLen) .bytefield none true none
    let s ← getS
    odxassert (term ≠ .eop || s.isEndOfPdu)
    if s.isEndOfPdu ∨ some dataLen = maxLen then pure ()
    else
      let t : Bytes := match term with
        | .zero => if bt = .unicode2 then [0, 0] else [0]
        | .hexff => if bt = .unicode2 then [255, 255] else [255]
        | .eop => []
      if t.length = 0 then raise .foreign                       -- `data_length % len(b'')` → ZeroDivisionError
      else
        odxassert (dataLen % t.length = 0)
        emplaceBytes t none
  | .leading bt _ hl bl => do
    let byteLen ← (match bt, v with
      | .bytefield, .bytes b => pure b.length
      | .bytefield, .str cps => pure cps.length                  -- len(str)
      | .unicode2, .str cps =>
        (match Text.encode .utf16le cps with | some r => pure r.length | none => do odxraise .encode; raise .unmodelled)
      | .ascii, .str cps | .utf8, .str cps =>
        (match Text.encode .utf8 cps with | some r => pure r.length | none => do odxraise .encode; raise .unmodelled)
      | _, .bytes _ => do odxraise .odx; raise .unmodelled        -- string type, bytes value
      | _, .str _ => pure 0                                      -- numeric base type: `byte_length = -1` …
      | _, _ => do odxraise .encode; raise .unmodelled)          -- lenient: `return`
    emplaceAtomic (.int byteLen) bl .uint32 none hl none
    emplaceAtomic v (8 * byteLen) bt none hl none
  | .paramLen bt enc hl key => do
    let s ← getS
    let bl ← (match lookup key s.lengthKeys with
      | some b => pure b
      | none => do
        let b : Int ← (match bt, v with
          | .bytefield, .bytes x => pure (8 * x.length : Int)
          | .ascii, .str x => pure (8 * x.length : Int)
          | .utf8, .str x => pure (8 * x.length : Int)
          | .unicode2, .str x => pure (16 * x.length : Int)
          | .int32, .int i => pure ((((bitLength i.natAbs + 1 + 7) / 8) * 8 : Nat) : Int)
          | .uint32, .int i => pure ((((bitLength i.natAbs + 7) / 8) * 8 : Nat) : Int)
          | .float32, _ => pure 32
          | .float64, _ => pure 64
          | _, _ => raise .unmodelled)
        modifyS fun s => { s with lengthKeys := insertKV key b s.lengthKeys }
        pure b)
    if bl < 0 then do odxraise .encode; raise .unmodelled   -- negative length key: every base type ends in an EncodeError
    else emplaceAtomic v bl.toNat bt enc hl none

/-- `DataType.isinstance(value)` -/
def typeAdmits (bt : BaseType) (v : IVal) : Bool :=
  match bt, v with
  | .int32, .int _ | .uint32, .int _ => true
  | .float32, .flt _ | .float64, .flt _ | .float32, .int _ | .float64, .int _ => true
  | .bytefield, .bytes _ => true
  | .ascii, .str _ | .utf8, .str _ | .unicode2, .str _ => true
  | _, _ => false

/-- state save/restore helpers of the composite walk -/
def withOrigin {α} (m : EncM α) : EncM α := do
  let s ← getS
  modifyS fun s => { s with origin := s.cursorByte }
  let r ← m
  modifyS fun s' => { s' with origin := s.origin }
  pure r

/-- two numbers of which at least one is a float (Python compares them numerically) -/
def numericPair : PVal → PVal → Bool
  | .atom (.flt _), .atom (.int _) | .atom (.int _), .atom (.flt _) | .atom (.flt _), .atom (.flt _) => true
  | _, _ => false

mutual
/-- structural equality of physical values (Python `==` on the value trees the harness sends) -/
def pvalEq : PVal → PVal → Bool
  | .atom a, .atom b => a == b
  | .none, .none => true
  | .pair n x, .pair m y => n == m && pvalEq x y
  | .keyed k x, .keyed l y => k == l && pvalEq x y
  | .nokey x, .nokey y => pvalEq x y
  | .dtc a, .dtc b => a == b
  | .list xs, .list ys => pvalListEq xs ys
  | .dict xs, .dict ys => pvalDictEq xs ys
  | _, _ => false
def pvalListEq : List PVal → List PVal → Bool
  | [], [] => true
  | x :: xs, y :: ys => pvalEq x y && pvalListEq xs ys
  | _, _ => false
def pvalDictEq : List (String × PVal) → List (String × PVal) → Bool
  | [], [] => true
  | (k, x) :: xs, (k', y) :: ys => k == k' && pvalEq x y && pvalDictEq xs ys
  | _, _ => false

end

/-! ### multiplexers -/

def MuxCaseD.name : MuxCaseD → String | .mk n _ _ _ => n
def MuxCaseD.lower : MuxCaseD → Int | .mk _ l _ _ => l
def MuxCaseD.upper : MuxCaseD → Int | .mk _ _ u _ => u
def MuxCaseD.struct : MuxCaseD → Option Dop | .mk _ _ _ s => s

/-- insertion into a list sorted by (lower, upper) — `sorted(limits)` of `_get_default_case_key` -/
def insertLimits (x : Int × Int) : List (Int × Int) → List (Int × Int)
  | [] => [x]
  | y :: ys => if x.1 < y.1 ∨ (x.1 = y.1 ∧ x.2 ≤ y.2) then x :: y :: ys else y :: insertLimits x ys

/-- `Multiplexer._get_default_case_key`: the smallest non-negative key no regular case claims -/
def defaultCaseKey (cases : List MuxCaseD) : Int :=
  let sorted := cases.foldl (fun acc c => insertLimits (c.lower, c.upper) acc) []
  sorted.foldl (fun key lu => if lu.1 ≤ key ∧ key ≤ lu.2 then lu.2 + 1 else key) 0

/-- first case whose key range contains `key` -/
def caseOfKey (key : Int) : List MuxCaseD → Option MuxCaseD
  | [] => none
  | c :: cs => if c.lower ≤ key ∧ key ≤ c.upper then some c else caseOfKey key cs

def caseOfName (name : String) : List MuxCaseD → Option MuxCaseD
  | [] => none
  | c :: cs => if c.name = name then some c else caseOfName name cs

/-- `self.dop.is_valid_physical_value(physical_value)` of `encode_placeholder_into_pdu` for a key DOP with a LINEAR /
    TEXTTABLE compu method (IDENTICAL: an `int` is valid for the integer key DOPs the model follows) -/
def cmKeyValid (cm : CCompu) (ity pty : BaseType) (i : Int) : EncM Unit :=
  match cm with
  | .identical | .other => pure ()
  | cm =>
    match cm.method? ity pty with
    | none => raise .unmodelled
    | some m =>
      match m.validP (.int i) with
      | .ok true => pure ()
      | .ok false => odxraise .odx                                -- "Invalid explicitly specified physical value"
      | .error _ => raise .unmodelled

def keyValidCheck : Dop → Int → EncM Unit
  | .simple dct phys cm, i => cmKeyValid cm dct.baseType phys i
  | .dtc .., _ => raise .unmodelled
  | _, _ => pure ()

/-- `LengthKeyParameter.encode_value_into_pdu`: "make sure that the length key is able to represent it" — the compu
    method of the key's DOP must map the bit length to an internal value that converts back to it -/
def cmKeyRepr (cm : CCompu) (ity pty : BaseType) (v : Int) : EncM Unit :=
  match cm with
  | .identical | .other => pure ()
  | cm =>
    match cm.method? ity pty with
    | none => raise .unmodelled
    | some m =>
      match m.validP (.int v) with
      | .ok true => do
        let i ← methodP2I m (.int v)
        let p ← methodI2P .foreign m i                            -- not inside a `try`: ZeroDivisionError escapes
        let same : Bool := match p with
          | some q => q.pyEq (.int v)
          | none => false
        if !same then odxraise .encode                            -- "cannot represent a length of … bits"
      | .ok false => pure ()
      | .error _ => raise .unmodelled

def keyReprCheck : Dop → Int → EncM Unit
  | .simple dct phys cm, v => cmKeyRepr cm dct.baseType phys v
  | _, _ => pure ()                                               -- `isinstance(self.dop, DataObjectProperty)`

/-- `LengthKeyParameter.encode_placeholder_into_pdu` -/
def encodeKeyPlaceholder (name : String) (bytePos bitPos : Option Nat) (dop : Dop) (pv : Option PVal) : EncM Unit := do
  match pv with
  | some (.atom (.int i)) =>
    -- is_valid_physical_value: IDENTICAL on an integer DOP admits every `int`; LINEAR / TEXTTABLE: `keyValidCheck`
    keyValidCheck dop i
    let s ← getS
    match lookup name s.lengthKeys with
    | some old => if old ≠ i then odxraise .odx
    | none => pure ()
    modifyS fun s => { s with lengthKeys := insertKV name i s.lengthKeys }
  | some _ => raise .unmodelled
  | none => pure ()
  let s ← getS
  let pos := match bytePos with | some b => s.origin + b | none => s.cursorByte
  match dop.staticBitLen with
  | none => raise .odx                                            -- odxrequire(None) raises unconditionally
  | some bl =>
    let n := bl + bitPos.getD 0
    modifyS fun s => { s with keyPos := insertKV name pos s.keyPos, cursorByte := pos, cursorBit := 0 }
    emplaceBytes (List.replicate ((n + 7) / 8) 0) (some (List.replicate ((n + 7) / 8) 0))


mutual
/-- `DopBase.encode_into_pdu` -/
def encodeDop : (fuel : Nat) → Dop → PVal → EncM Unit
  | 0, _, _ => raise .unmodelled
  | fuel+1, .simple dct phys cm, pv => do
    match cm, pv with
    | .identical, .atom v =>
      if !typeAdmits phys v then raise .encode                  -- is_valid_physical_value
      else encodeDct dct v
    | .identical, _ => raise .encode
    | .other, _ => raise .unmodelled
    | cm, .atom v =>
      -- LINEAR / TEXTTABLE: is_valid_physical_value, convert_physical_to_internal, is_valid_internal_value (`dopP2I`)
      match cm.method? dct.baseType phys with
      | none => raise .unmodelled
      | some m => do
        let i ← dopP2I m v
        encodeDct dct i
    | _, _ => raise .encode                                       -- not an atom: no numeric / string type admits it
  | fuel+1, .struct byteSize ps, pv => do
    let s0 ← getS
    let origPos := s0.cursorByte
    encodeComposite fuel ps pv
    match byteSize with
    | none => pure ()
    | some bs =>
      let s ← getS
      let actual := s.cursorByte - origPos
      -- (fix c01-byte-size-structure-content-too-long) "Attempted to encode too large instance of structure": the decoder
      -- rejects such a PDU
      if actual > bs then odxraise .encode
      else if actual < bs then
        -- pad the structure to BYTE-SIZE (relative to its own first byte); padding counts as "used"
        let endPos := origPos + bs
        let n := endPos - s.msg.length
        let used := s.used ++ List.replicate n 0
        setS { s with msg := s.msg ++ List.replicate n 0,
                      used := used.take (origPos + actual) ++ List.replicate (bs - actual) 255 ++ used.drop endPos,
                      cursorByte := endPos }
      else pure ()
  | fuel+1, .staticField count itemSize item, pv => do
    match pv with
    | .list xs =>
      if xs.length ≠ count then odxraise .odx
      let s ← getS
      modifyS fun s => { s with isEndOfPdu := false }
      encodeStaticItems item itemSize s.isEndOfPdu fuel xs
      modifyS fun s' => { s' with isEndOfPdu := s.isEndOfPdu }
    | .atom (.str _) | .atom (.bytes _) => raise .unmodelled    -- str/bytes are Sequences too
    | _ => do odxraise .odx; raise .unmodelled
  | fuel+1, .dynLenField offset cbp cbit countDop item, pv => do
    let s ← getS
    odxassert (s.cursorBit = 0)
    match pv with
    | .list xs =>
      let origOrigin := s.origin
      modifyS fun s => { s with origin := s.cursorByte, cursorBit := cbit, cursorByte := s.cursorByte + cbp }
      encodeDop fuel countDop (.atom (.int xs.length))
      let s1 ← getS
      if s1.cursorByte - s1.origin > offset then odxraise .odx
      modifyS fun s => { s with cursorByte := s.origin + offset, cursorBit := 0, isEndOfPdu := false }
      encodeItems item s.isEndOfPdu fuel xs
      modifyS fun s' => { s' with isEndOfPdu := s.isEndOfPdu }
      if xs.length = 0 then emplaceBytes [] none
      modifyS fun s' => { s' with origin := origOrigin }
    | .atom (.str _) | .atom (.bytes _) => raise .unmodelled    -- str/bytes are Sequences too
    | _ => do odxraise .encode; raise .unmodelled
  | fuel+1, .endMarkerField termVal termDop item, pv => do
    let s ← getS
    odxassert (s.cursorBit = 0)
    match pv with
    | .list xs =>
      modifyS fun s => { s with isEndOfPdu := false }
      encodeItems item s.isEndOfPdu fuel xs
      modifyS fun s' => { s' with isEndOfPdu := s.isEndOfPdu }
      if !s.isEndOfPdu then
        let s2 ← getS
        encodeDop fuel termDop (.atom termVal)
        modifyS fun s' => { s' with cursorByte := s2.cursorByte }
    | .atom (.str _) | .atom (.bytes _) => raise .unmodelled    -- str/bytes are Sequences too
    | _ => do odxraise .encode; pure ()                          -- lenient: `return`
  | fuel+1, .eopField _ _ item, pv => do
    let s ← getS
    odxassert (s.cursorBit = 0)
    odxassert s.isEndOfPdu
    match pv with
    | .list xs =>
      modifyS fun s => { s with isEndOfPdu := false }
      encodeItems item s.isEndOfPdu fuel xs
      modifyS fun s' => { s' with isEndOfPdu := s.isEndOfPdu }
    | .atom (.str _) | .atom (.bytes _) => raise .unmodelled    -- str/bytes are Sequences too
    | _ => do odxraise .encode; pure ()
  | fuel+1, .mux bytePos swBytePos swBitPos swDop cases dflt, pv => do
    let s ← getS
    if s.cursorBit ≠ 0 then raise .encode                       -- "Multiplexer parameters must be aligned"
    else
      -- (case name, switch-key value, structure of the case, content)
      let sel : Option (Int × Option Dop × PVal) :=
        match pv with
        | .pair name v | .dict [(name, v)] =>
          (match caseOfName name cases with
           | some c => some (c.lower, c.struct, v)
           | none => (match dflt with
             | some (dn, ds) => if dn = name then some (defaultCaseKey cases, ds, v) else none
             | none => none))
        | .keyed k v =>
          (match caseOfKey k cases with
           | some c => some (k, c.struct, v)
           | none => (match dflt with | some (_, ds) => some (k, ds, v) | none => none))
        | .nokey v => (match dflt with | some (_, ds) => some (defaultCaseKey cases, ds, v) | none => none)
        | _ => none
      match pv with
      | .list _ => raise .unmodelled                                -- (case_spec, value) given as a list: not forwarded
      | _ =>
      match sel with
      | none => raise .encode
      | some (key, st, content) => do
        modifyS fun s' => { s' with origin := s.cursorByte }
        -- the switch key is placed like a VALUE parameter at (BYTE-POSITION, BIT-POSITION) relative to the multiplexer
        encodeParam fuel (.mk "" (some swBytePos) swBitPos (.value swDop none)) (some (.atom (.int key)))
        -- the content is placed like a VALUE parameter at the multiplexer's BYTE-POSITION (relative to the multiplexer)
        match st with
        | some d => encodeParam fuel (.mk "" (some bytePos) none (.value d none)) (some content)
        | none => do
          modifyS fun s' => { s' with cursorByte := s.cursorByte + bytePos }
          (match content with
           | .none | .dict [] => emplaceBytes [] none
           | _ => raise .encode)
        modifyS fun s' => { s' with origin := s.origin }
  | fuel+1, .unsupported, _ => raise .unmodelled
  | _+1, .dtc dct phys cm dtcs, pv => do
    -- `DtcDop.encode_into_pdu`
    match pv with
    | .none => odxraise .encode                                   -- "No DTC specified"; lenient: `return`
    | _ =>
      -- convert_to_numerical_trouble_code
      let tc : Int ← (match pv with
        | .dtc c => pure c                                        -- a DiagnosticTroubleCode object
        | .atom (.int c) => pure c                                -- "assume that physical value is the trouble_code"
        | .atom (.str cps) =>                                     -- "assume that physical value is the short_name"
          (match dtcs.filter (fun d => d.2.toList.map Char.toNat == cps) with
           | [d] => pure d.1
           | _ => do odxraise .encode; raise .unmodelled)
        | _ => do odxraise .encode; raise .unmodelled)
      match cm.method? dct.baseType phys with
      | none => raise .unmodelled
      | some m => do
        let iv ← methodP2I m (.int tc)
        match iv with
        | .int internal => do                                     -- `int(…)`
          -- fix c03-dtc-dop-encoder-compares-coded-value: the described DTCs are compared with the PHYSICAL trouble code
          -- (as in the decoder), not with the coded value
          if !(dtcs.any fun d => d.1 == tc) then odxraise .encode          -- "Unknown diagnostic trouble code"
          encodeDct dct (.int internal)
        | _ => raise .unmodelled

/-- the item loop shared by the dynamic fields: the last item inherits `is_end_of_pdu`.
    (fix c04-field-item-consumes-nothing: an item that leaves the cursor where it was is an `odxraise`d EncodeError —
     "The items of … do not consume any data" — as in the three decoders) -/
def encodeItems (item : Dop) (origEop : Bool) : (fuel : Nat) → List PVal → EncM Unit
  | 0, _ => raise .unmodelled
  | _+1, [] => pure ()
  | fuel+1, [x] => do
    modifyS fun s => { s with isEndOfPdu := origEop }
    let s0 ← getS                                                 -- orig_cursor = encode_state.cursor_byte_position
    encodeDop fuel item x
    let s1 ← getS
    if s1.cursorByte ≤ s0.cursorByte then odxraise .encode
  | fuel+1, x :: y :: rest => do
    let s0 ← getS
    encodeDop fuel item x
    let s1 ← getS
    if s1.cursorByte ≤ s0.cursorByte then odxraise .encode
    encodeItems item origEop fuel (y :: rest)

/-- the item loop of a static field: every item is padded to ITEM-BYTE-SIZE -/
def encodeStaticItems (item : Dop) (itemSize : Nat) (origEop : Bool) : (fuel : Nat) → List PVal → EncM Unit
  | 0, _ => raise .unmodelled
  | _+1, [] => pure ()
  | fuel+1, x :: rest => do
    -- (fix c01-static-field-last-item-end-of-pdu: no item, not even the last one, is encoded with `is_end_of_pdu`;
    --  every item is potentially followed by padding up to ITEM-BYTE-SIZE.  `origEop` is restored by the caller.)
    let s0 ← getS
    encodeDop fuel item x
    let s1 ← getS
    let used := s1.cursorByte - s0.cursorByte
    if used > itemSize then
      odxraise .odx
      modifyS fun s => { s with cursorByte := s0.cursorByte + itemSize }
    else if used < itemSize then emplaceBytes (List.replicate (itemSize - used) 0) none
    encodeStaticItems item itemSize origEop fuel rest

/-- `Parameter.encode_into_pdu` (positioning) + `_encode_positioned_into_pdu` per kind -/
def encodeParam : (fuel : Nat) → Param → Option PVal → EncM Unit
  | 0, _, _ => raise .unmodelled
  | fuel+1, .mk _ bytePos bitPos kind, pv => do
    modifyS fun s => { s with cursorByte := (match bytePos with | some b => s.origin + b | none => s.cursorByte),
                              cursorBit := bitPos.getD 0 }
    (match kind with
    | .codedConst dct value => do
      match pv with
      | some (.atom v) =>
        if v ≠ value then
          (match v, value with
           | .int _, .int _ | .bytes _, .bytes _ | .str _, .str _ => odxraise .encode
           | _, _ => raise .unmodelled)                        -- Python `!=` across types (16.0 vs 16, bytes vs bytearray)
      | some _ => odxraise .encode
      | none => pure ()
      encodeDct dct value
    | .physConst dop value => do
      match pv with
      | some p =>
        if !(pvalEq p value) then
          (if numericPair p value then raise .unmodelled          -- Python `!=` on numbers: 39.0 == 39, -0.0 == 0.0
           else odxraise .encode)
      | none => pure ()
      encodeDop fuel dop value
    | .value dop dflt => do
      match pv, dflt with
      | some p, _ => encodeDop fuel dop p
      | none, some d => encodeDop fuel dop d
      | none, none => do odxraise .encode; raise .unmodelled   -- lenient: dop.encode_into_pdu(None)
    | .reserved bl => do
      modifyS fun s => { s with cursorByte := s.cursorByte + (s.cursorBit + bl + 7) / 8, cursorBit := 0 }
      emplaceBytes [] none
    | .matchingReq reqPos byteLen => do
      let s ← getS
      match s.trig with
      | none => do odxraise .encode; pure ()
      | some t =>
        if t.length < reqPos + byteLen then do odxraise .encode; pure ()
        else emplaceBytes ((t.drop reqPos).take byteLen) none
    | .nrcConst dct _ => do
      if pv.isSome then odxraise .encode
      let s ← getS
      match dct.staticBitLen with
      | none => do odxraise .odx; pure ()
      | some bl =>
        modifyS fun s' => { s' with cursorByte := s.cursorByte + (s.cursorBit + bl + 7) / 8, cursorBit := 0 }
        emplaceBytes [] none
    | .lengthKey _ => raise .foreign                              -- RuntimeError: never called for length keys
    | .unsupported => raise .unmodelled)
    modifyS fun s => { s with cursorBit := 0 }

/-- `physical_value.get(name)`: a value `None` is the same as "not supplied" -/
def lookupV (name : String) (values : List (String × PVal)) : Option PVal :=
  match lookup name values with
  | some .none => none
  | x => x

/-- first loop of `composite_codec_encode_into_pdu` -/
def encodeParams (origEop : Bool) (values : List (String × PVal)) : (fuel : Nat) → List Param → EncM Unit
  | 0, _ => raise .unmodelled
  | _+1, [] => pure ()
  | fuel+1, p :: rest => do
    if rest.isEmpty then modifyS fun s => { s with isEndOfPdu := origEop }
    (match p with
    | .mk name bytePos bitPos (.lengthKey dop) => encodeKeyPlaceholder name bytePos bitPos dop (lookupV name values)
    | .mk name _ _ kind => do
      let required : Bool := match kind with
        | .value _ none => true
        | _ => false
      if required && (lookup name values).isNone then odxraise .encode
      encodeParam fuel p (lookupV name values))
    encodeParams origEop values fuel rest

/-- second loop: the length keys get their final values -/
def encodeKeyValues : (fuel : Nat) → List Param → EncM Unit
  | 0, _ => raise .unmodelled
  | _+1, [] => pure ()
  | fuel+1, .mk name _ bitPos (.lengthKey dop) :: rest => do
    let s ← getS
    match lookup name s.lengthKeys with
    | none => do odxraise .encode; pure ()
    | some v =>
      match lookup name s.keyPos with
      | none => raise .foreign                                    -- KeyError
      | some pos =>
        keyReprCheck dop v
        modifyS fun s => { s with cursorByte := pos, cursorBit := bitPos.getD 0 }
        encodeDop fuel dop (.atom (.int v))
    encodeKeyValues fuel rest
  | fuel+1, _ :: rest => encodeKeyValues fuel rest

/-- `composite_codec_encode_into_pdu` -/
def encodeComposite : (fuel : Nat) → List Param → PVal → EncM Unit
  | 0, _, _ => raise .unmodelled
  | fuel+1, ps, pv => do
  match pv with
  | .dict values =>
    let s ← getS
    if s.cursorBit ≠ 0 then odxraise .encode
    modifyS fun s => { s with origin := s.cursorByte, isEndOfPdu := false }
    -- unknown parameter names
    if values.any (fun kv => !(ps.any fun p => p.name == kv.1)) then odxraise .odx
    encodeParams s.isEndOfPdu values fuel ps
    modifyS fun s => { s with isEndOfPdu := false }
    let s1 ← getS
    encodeKeyValues fuel ps
    modifyS fun s' => { s' with cursorByte := s1.cursorByte, origin := s.origin }   -- cursor stays behind the last parameter
  | _ => do odxraise .encode; raise .unmodelled                  -- lenient: AttributeError on `.get`
end

end OdxVerif.Codec
