import OdxVerif.Common.Sexp
import OdxVerif.Gen.TextTables
/-! Python's `str.encode` / `bytes.decode` for the codecs odxtools uses, and the exact part of the
    binary64 ↔ binary32 conversion. Strings are lists of Unicode code points. "Modelled, not verified":
    tied to the interpreter by the correspondence check only. Core Lean only. -/
namespace OdxVerif.Text

inductive Codec | utf8 | utf16be | utf16le | latin1 | latin2 | cp1252
deriving Repr, DecidableEq, Inhabited

def isSurrogate (c : Nat) : Bool := 0xD800 ≤ c && c ≤ 0xDFFF

def utf8Enc1 (c : Nat) : Option Bytes :=
  if c < 0x80 then some [c]
  else if c < 0x800 then some [0xC0 + c / 64, 0x80 + c % 64]
  else if c < 0x10000 then
    if isSurrogate c then none else some [0xE0 + c / 4096, 0x80 + c / 64 % 64, 0x80 + c % 64]
  else if c < 0x110000 then some [0xF0 + c / 262144, 0x80 + c / 4096 % 64, 0x80 + c / 64 % 64, 0x80 + c % 64]
  else none

def isCont (b : Nat) : Bool := 0x80 ≤ b && b < 0xC0

/-- strict UTF-8 decoding (no overlong forms, no surrogates, ≤ U+10FFFF) -/
def utf8Dec : (fuel : Nat) → Bytes → Option (List Nat)
  | 0, bs => if bs.isEmpty then some [] else none
  | _+1, [] => some []
  | fuel+1, b0 :: rest =>
    if b0 < 0x80 then (utf8Dec fuel rest).map (b0 :: ·)
    else if 0xC2 ≤ b0 ∧ b0 < 0xE0 then
      match rest with
      | b1 :: r => if isCont b1 then (utf8Dec fuel r).map (((b0 - 0xC0) * 64 + (b1 - 0x80)) :: ·) else none
      | _ => none
    else if 0xE0 ≤ b0 ∧ b0 < 0xF0 then
      match rest with
      | b1 :: b2 :: r =>
        let c := (b0 - 0xE0) * 4096 + (b1 - 0x80) * 64 + (b2 - 0x80)
        if isCont b1 && isCont b2 && 0x800 ≤ c && !isSurrogate c then (utf8Dec fuel r).map (c :: ·) else none
      | _ => none
    else if 0xF0 ≤ b0 ∧ b0 < 0xF5 then
      match rest with
      | b1 :: b2 :: b3 :: r =>
        let c := (b0 - 0xF0) * 262144 + (b1 - 0x80) * 4096 + (b2 - 0x80) * 64 + (b3 - 0x80)
        if isCont b1 && isCont b2 && isCont b3 && 0x10000 ≤ c && c < 0x110000 then (utf8Dec fuel r).map (c :: ·) else none
      | _ => none
    else none

def u16 (be : Bool) (w : Nat) : Bytes := if be then [w / 256, w % 256] else [w % 256, w / 256]

def utf16Enc1 (be : Bool) (c : Nat) : Option Bytes :=
  if c < 0x10000 then (if isSurrogate c then none else some (u16 be c))
  else if c < 0x110000 then
    let d := c - 0x10000
    some (u16 be (0xD800 + d / 1024) ++ u16 be (0xDC00 + d % 1024))
  else none

def utf16Dec (be : Bool) : (fuel : Nat) → Bytes → Option (List Nat)
  | 0, bs => if bs.isEmpty then some [] else none
  | _+1, [] => some []
  | _+1, [_] => none
  | fuel+1, x :: y :: rest =>
    let w := if be then x * 256 + y else y * 256 + x
    if 0xD800 ≤ w ∧ w < 0xDC00 then
      match rest with
      | x2 :: y2 :: r =>
        let w2 := if be then x2 * 256 + y2 else y2 * 256 + x2
        if 0xDC00 ≤ w2 ∧ w2 < 0xE000 then
          (utf16Dec be fuel r).map ((0x10000 + (w - 0xD800) * 1024 + (w2 - 0xDC00)) :: ·)
        else none
      | _ => none
    else if 0xDC00 ≤ w ∧ w < 0xE000 then none
    else (utf16Dec be fuel rest).map (w :: ·)

def tableEnc (t : List Nat) (c : Nat) : Option Bytes :=
  if c ≥ 0x110000 then none else (t.idxOf? c).map fun b => [b]

def tableDec (t : List Nat) (b : Nat) : Option Nat :=
  match t[b]? with
  | some c => if c < 0x110000 then some c else none
  | none => none

def encode (c : Codec) (cps : List Nat) : Option Bytes :=
  match c with
  | .utf8 => (cps.mapM utf8Enc1).map List.flatten
  | .utf16be => (cps.mapM (utf16Enc1 true)).map List.flatten
  | .utf16le => (cps.mapM (utf16Enc1 false)).map List.flatten
  | .latin1 => (cps.mapM fun c => if c < 256 then some [c] else none).map List.flatten
  | .latin2 => (cps.mapM (tableEnc Gen.latin2Table)).map List.flatten
  | .cp1252 => (cps.mapM (tableEnc Gen.cp1252Table)).map List.flatten

def decode (c : Codec) (bs : Bytes) : Option (List Nat) :=
  match c with
  | .utf8 => utf8Dec bs.length bs
  | .utf16be => utf16Dec true bs.length bs
  | .utf16le => utf16Dec false bs.length bs
  | .latin1 => some bs
  | .latin2 => bs.mapM (tableDec Gen.latin2Table)
  | .cp1252 => bs.mapM (tableDec Gen.cp1252Table)

/-- binary64 bit pattern → binary32 bit pattern when the value is exactly representable as a *normal*
    binary32 number, a zero or an infinity; `none` otherwise (rounding / subnormals / NaN: not modelled) -/
def f64to32? (b : Nat) : Option Nat :=
  let sign := b / 2 ^ 63 % 2
  let e := b / 2 ^ 52 % 2048
  let m := b % 2 ^ 52
  if e = 0 ∧ m = 0 then some (sign * 2 ^ 31)
  else if e = 2047 ∧ m = 0 then some (sign * 2 ^ 31 + 255 * 2 ^ 23)
  else if 1023 - 126 ≤ e ∧ e ≤ 1023 + 127 ∧ m % 2 ^ 29 = 0 then
    some (sign * 2 ^ 31 + (e - 896) * 2 ^ 23 + m / 2 ^ 29)
  else none

/-- binary32 bit pattern → binary64 bit pattern (normal numbers, zeros, infinities) -/
def f32to64? (b : Nat) : Option Nat :=
  let sign := b / 2 ^ 31 % 2
  let e := b / 2 ^ 23 % 256
  let m := b % 2 ^ 23
  if e = 0 ∧ m = 0 then some (sign * 2 ^ 63)
  else if e = 255 ∧ m = 0 then some (sign * 2 ^ 63 + 2047 * 2 ^ 52)
  else if 1 ≤ e ∧ e ≤ 254 then some (sign * 2 ^ 63 + (e + 896) * 2 ^ 52 + m * 2 ^ 29)
  else none

end OdxVerif.Text
