import OdxVerif.Model.Comparam
import OdxVerif.Model.Inherit
/-! # Model of the PDX/ODX write–read path of odxtools (property C11, family `Pdx`)

  Core Lean only (linked into `drv_pdx`).  Three independent parts:

  * **A — escaping.**  The writer (`odxtools/writepdxfile.py`, Jinja2 templates with `|e`) escapes text with
    `markupsafe.escape`; the reader is expat/ElementTree.  Strings are lists of Unicode code points.
  * **B — element schema.**  An element is a finite map from *slots* (child tag or `@attribute`) to contents;
    the templates write a set `W` of slots, `from_et` reads a set `R` of slots.
  * **D — load order.**  `Database._process_xml_tree` / `refresh` / `_build_odxlinks`
    (`odxtools/database.py:77-173`).
  * **E — derived state.**  What `refresh()` derives for a layer from the ODXLINK map: the PARENT-REF chains
    followed through `parent_ref.layer` and the communication parameters / inherited objects computed over them
    (`hierarchyelement.py : _compute_available_commmunication_parameters`, `_compute_available_objects`, modelled
    in `Model/Comparam.lean` and `Model/Inherit.lean`).
-/
namespace OdxVerif.Pdx

/-! ## Part A — escaping -/

/-- `markupsafe.escape` on one code point (`&`→`&amp;` `<`→`&lt;` `>`→`&gt;` `"`→`&#34;` `'`→`&#39;`) -/
def escChar (c : Nat) : List Nat :=
  if c = 38 then [38, 97, 109, 112, 59]        -- &  → &amp;
  else if c = 60 then [38, 108, 116, 59]       -- <  → &lt;
  else if c = 62 then [38, 103, 116, 59]       -- >  → &gt;
  else if c = 34 then [38, 35, 51, 52, 59]     -- "  → &#34;
  else if c = 39 then [38, 35, 51, 57, 59]     -- '  → &#39;
  else [c]

/-- `markupsafe.escape` / Jinja2 `|e` -/
def escape (s : List Nat) : List Nat := s.flatMap escChar

/-- decoding of references in XML character data / attribute values, restricted to the references the writer can
    emit (`&amp; &lt; &gt; &#34; &#39;`) plus the other two predefined entities (`&quot; &apos;`).
    `none` = not well-formed: a bare `&` (or an unknown reference), or a raw `<`. -/
def unescape : List Nat → Option (List Nat)
  | [] => some []
  | c :: rest =>
    if c = 38 then
      match rest with
      | 97 :: 109 :: 112 :: 59 :: r        => (unescape r).map (38 :: ·)   -- amp;
      | 108 :: 116 :: 59 :: r              => (unescape r).map (60 :: ·)   -- lt;
      | 103 :: 116 :: 59 :: r              => (unescape r).map (62 :: ·)   -- gt;
      | 113 :: 117 :: 111 :: 116 :: 59 :: r => (unescape r).map (34 :: ·)  -- quot;
      | 97 :: 112 :: 111 :: 115 :: 59 :: r => (unescape r).map (39 :: ·)   -- apos;
      | 35 :: 51 :: 52 :: 59 :: r          => (unescape r).map (34 :: ·)   -- #34;
      | 35 :: 51 :: 57 :: 59 :: r          => (unescape r).map (39 :: ·)   -- #39;
      | _ => none                                                          -- bare `&`
    else if c = 60 then none                                               -- raw `<`
    else (unescape rest).map (c :: ·)

/-- XML 1.0 production [2] `Char` -/
def xmlChar (c : Nat) : Bool :=
  c == 9 || c == 10 || c == 13 || (0x20 ≤ c && c ≤ 0xD7FF) || (0xE000 ≤ c && c ≤ 0xFFFD)
    || (0x10000 ≤ c && c ≤ 0x10FFFF)

/-- XML 1.0 §2.11 end-of-line handling, as a scan that remembers whether the previous raw character was a CR:
    a CR becomes LF, a LF directly after a CR is dropped -/
def normEolAux : Bool → List Nat → List Nat
  | _, [] => []
  | prevCr, c :: rest =>
    if c = 13 then 10 :: normEolAux true rest
    else if c = 10 ∧ prevCr = true then normEolAux false rest
    else c :: normEolAux false rest

/-- XML 1.0 §2.11 on the raw input: CR LF → LF, lone CR → LF -/
def normEol (s : List Nat) : List Nat := normEolAux false s

/-- the raw text contains `]]>` (XML 1.0 §2.4: must not occur in character data; expat rejects it) -/
def hasCdataEnd : List Nat → Bool
  | [] => false
  | c :: rest => (c == 93 && rest.take 2 == [93, 62]) || hasCdataEnd rest

/-- what an XML processor reports for character data: reject forbidden raw characters and a raw `]]>`, normalise
    line ends, decode references -/
def decodeText (s : List Nat) : Option (List Nat) :=
  if s.all xmlChar && !hasCdataEnd s then unescape (normEol s) else none

/-- XML 1.0 §3.3.3 on one *raw* (not reference-produced) character: TAB, LF → space -/
def attrWs (c : Nat) : Nat := if c = 9 ∨ c = 10 then 32 else c

/-- attribute-value normalisation of a value delimited by double quotes (the templates always write `NAME="…"`):
    as `decodeText`; additionally every raw TAB / LF (after line-end normalisation) becomes a space and a raw `"`
    is rejected (it would end the value).  Characters produced by references are not normalised: the white-space
    replacement acts on the raw text before references are decoded (no reference of `unescape` contains or
    produces white space, so this order is equivalent to the interleaved one of the XML specification). -/
def decodeAttr (s : List Nat) : Option (List Nat) :=
  if s.all xmlChar && !s.contains 34 then unescape ((normEol s).map attrWs) else none

/-- the text `make_xml_attrib` (`odxtools/writepdxfile.py:42-46`, `f' {attrib_name}="{attrib_val}"'`) puts between
    the double quotes: the value verbatim, **unescaped** -/
def rawAttrib (v : List Nat) : List Nat := v

/-! ## Part B — generic element / schema -/

/-- a child-tag name or (prefixed with `@`) an attribute name -/
abbrev Slot := String
/-- an element: finite map slot ↦ content as association list (`List.lookup`: first match) -/
abbrev Elem (V : Type) := List (Slot × V)

/-- the document the templates produce: for each slot of `W` in order, emitted iff the object has it -/
def write {V : Type} (W : List Slot) (e : Elem V) : Elem V :=
  W.filterMap fun s => (e.lookup s).map fun v => (s, v)

/-- what `from_et` sees: only the slots it asks for -/
def read {V : Type} (R : List Slot) (doc : Elem V) : Slot → Option V :=
  fun s => if s ∈ R then doc.lookup s else none

/-- the part of the object that `from_et` can reconstruct at all -/
def restrict {V : Type} (R : List Slot) (e : Elem V) : Slot → Option V :=
  fun s => if s ∈ R then e.lookup s else none

def subsetB (xs ys : List String) : Bool := xs.all (fun x => ys.contains x)

/-- one row of the generated read/write table: an element class as parsed from elements with one tag -/
structure ClassSchema where
  cls : String            -- element class name (Python class with a from_et)
  tag : String            -- XML tag of the elements it is applied to (one row per class × tag)
  reads : List String     -- slot paths its from_et reads  ("@A" attribute, "B" child tag, "B/C", "B/@A" below a child)
  writes : List String    -- slot paths the templates can emit below an element with this tag
deriving Repr, DecidableEq

/-- an allow-list entry: class (or `*`), tag (or `*`), slot -/
structure Allow where
  cls : String
  tag : String
  slot : String
deriving Repr, DecidableEq

def Allow.covers (a : Allow) (c : ClassSchema) (s : String) : Bool :=
  (a.cls == "*" || a.cls == c.cls) && (a.tag == "*" || a.tag == c.tag) && a.slot == s

/-- is slot `s` of row `c` excused by the list -/
def allowed (allow : List Allow) (c : ClassSchema) (s : String) : Bool := allow.any fun a => a.covers c s

def ClassSchema.ok (allow : List Allow) (c : ClassSchema) : Bool :=
  c.reads.all fun s => c.writes.contains s || allowed allow c s

def tableOk (allow : List Allow) (t : List ClassSchema) : Bool := t.all (ClassSchema.ok allow)

/-- the slots of a table that are read but not written (what an allow-list has to excuse) -/
def gaps (t : List ClassSchema) : List (String × String × String) :=
  t.flatMap fun c => (c.reads.filter fun s => !c.writes.contains s).map fun s => (c.cls, c.tag, s)

/-! ## Part D — load order (`odxtools/database.py`) -/

/-- which category element the ODX root has: DIAG-LAYER-CONTAINER / COMPARAM-SUBSET / COMPARAM-SPEC -/
inductive Kind where
  | dlc | subset | spec
deriving DecidableEq, Repr

structure File where
  frag : String                 -- document fragment name (short name of the container; ODXLINK ids are qualified by it)
  kind : Kind
  old  : Bool                   -- MODEL-VERSION < 2.2 (then a COMPARAM-SPEC is read as a comparam *subset*, database.py:104-108)
  version : Nat                 -- model version (abstract)
  ids  : List (String × Nat)    -- local ODXLINK ids defined in the file with the object each denotes
deriving DecidableEq, Repr

structure Db where
  dlcs : List File              -- `_diag_layer_containers`, insertion order
  subsets : List File           -- `_comparam_subsets`
  specs : List File             -- `_comparam_specs`
  version : Option Nat          -- `model_version`
deriving DecidableEq, Repr

/-- `Database.__init__`: empty lists, `model_version = None` -/
def Db.empty : Db := ⟨[], [], [], none⟩

/-- database.py:96-98 -/
def File.isDlc (f : File) : Bool := f.kind = .dlc
/-- database.py:100-102 (COMPARAM-SUBSET) and 104-106 (COMPARAM-SPEC of an ODX < 2.2 document) -/
def File.isSubset (f : File) : Bool := f.kind = .subset || (f.kind = .spec && f.old)
/-- database.py:107-108 -/
def File.isSpec (f : File) : Bool := f.kind = .spec && !f.old

/-- the list extensions database.py:96-112, and `self.model_version = model_version` (line 91) -/
def Db.add (db : Db) (f : File) : Db :=
  let db := { db with version := some f.version }                                   -- :91
  match f.kind with
  | .dlc => { db with dlcs := db.dlcs ++ [f] }                                      -- :96-98, :110
  | .subset => { db with subsets := db.subsets ++ [f] }                             -- :100-102, :111
  | .spec =>
    if f.old then { db with subsets := db.subsets ++ [f] }                          -- :105-106, :111
    else { db with specs := db.specs ++ [f] }                                       -- :107-108, :112

/-- `Database._process_xml_tree` in strict mode; error = `odxraise` on version mismatch (database.py:87-89) -/
def processFile (db : Db) (f : File) : Except Unit Db :=
  match db.version with
  | some v => if v ≠ f.version then .error () else .ok (db.add f)                   -- :87-89
  | none => .ok (db.add f)

/-- `add_pdx_file` / `add_odx_file` for every file, starting from the empty database -/
def processAll (fs : List File) : Except Unit Db := fs.foldlM processFile Db.empty

/-- non-strict mode: `odxraise` only warns and execution continues, so line 91 keeps the LAST file's version -/
def processFileLenient (db : Db) (f : File) : Db := db.add f
def processAllLenient (fs : List File) : Db := fs.foldl processFileLenient Db.empty

/-- `DocType` as far as the three container parsers assign it -/
inductive DocType where
  | container | comparamSubset | comparamSpec
deriving DecidableEq, Repr

/-- the DOCTYPE of the document fragment a parsed category element gets: `DiagLayerContainer.from_et` →
    `DocType.CONTAINER`, `ComparamSubset.from_et` → `COMPARAM_SUBSET` (also for the COMPARAM-SPEC of an ODX < 2.2 document,
    which database.py:104-106 hands to `ComparamSubset.from_et`), `ComparamSpec.from_et` → `COMPARAM_SPEC` -/
def File.docType (f : File) : DocType :=
  match f.kind with
  | .dlc => .container
  | .subset => .comparamSubset
  | .spec => if f.old then .comparamSubset else .comparamSpec

/-- `OdxDocFragment(doc_name, doc_type)`: a document is identified by its short name AND its type — documents of
    different categories may carry the same short name -/
abbrev Frag := String × DocType

/-- an ODXLINK id: (document fragment, local id) (`OdxLinkId.__eq__`: local id and fragments equal) -/
abbrev Key := Frag × String

def File.fragment (f : File) : Frag := (f.frag, f.docType)

/-- `File._build_odxlinks`: keys are (fragment, local id) -/
def fileLinks (f : File) : List (Key × Nat) := f.ids.map fun p => ((f.fragment, p.1), p.2)

/-- `Database._build_odxlinks` (database.py:158-170): `dict.update` over subsets, then specs, then dlcs, each in
    list order; `dict.update` = append, reading = last match -/
def links (db : Db) : List (Key × Nat) :=
  (db.subsets ++ db.specs ++ db.dlcs).flatMap fileLinks

/-- dictionary read: the last update of a key wins -/
def lookupLast {α β : Type} [BEq α] (k : α) (l : List (α × β)) : Option β := l.reverse.lookup k

def linkLookup (db : Db) (k : Key) : Option Nat := lookupLast k (links db)

/-- the three container lists (compared up to permutation) -/
def containerSet (db : Db) : List File × List File × List File := (db.dlcs, db.subsets, db.specs)

/-- the document fragments (short name AND document type) are pairwise distinct; documents of different categories
    may share a short name (round 7: before, the short names alone had to be distinct) -/
def distinctFragments (fs : List File) : Prop := (fs.map File.fragment).Nodup

/-- local ids unique within each file (not needed for `load_order`; stated for reference) -/
def localIdsUnique (fs : List File) : Prop := ∀ f ∈ fs, (f.ids.map (·.1)).Nodup

/-! ## Part E — derived state of a layer (`HierarchyElement._finalize_init`)

  `Database.refresh()` first resolves every ODXLINK reference against the map of `_build_odxlinks` (database.py:133-141;
  `ParentRef._resolve_odxlinks`: `self._layer = odxlinks.resolve(self.layer_ref)`) and then lets every layer compute the
  objects and communication parameters that apply to it (`_finalize_init`, database.py:149-154).  Both computations
  recurse through `parent_ref.layer` down to the layers without parents and read only *described* attributes of the
  layers they meet (local objects, local COMPARAM-REFs, NOT-INHERITED lists) — never a result stored by another
  layer's `_finalize_init`.  The model therefore unfolds the PARENT-REF chains through the ODXLINK map into the trees
  on which `Comparam.available` and `Inherit.computeAvailable` are defined. -/

open OdxVerif.Gen (LayerKind)

/-- what a layer element describes, as far as the two inheritance schemes read it (a property of the element, not
    of the order in which documents were added) -/
structure RawLayer where
  kind : LayerKind
  cps : List Comparam.Inst                          -- `hierarchy_element_raw.comparam_refs`
  locals : List Inherit.Obj                         -- `get_local_objects(layer)` of the object category at hand
  parents : List (Key × List Nat)                   -- PARENT-REFs in document order: (DOCREF + DOCTYPE fragment, ID-REF) and the
                                                    --   NOT-INHERITED short names of the category at hand
deriving Inhabited

/-- all parents (in document order) or nothing -/
def allSome {α β : Type} (f : α → Option β) : List α → Option (List β)
  | [] => some []
  | x :: xs => match f x, allSome f xs with
    | some y, some ys => some (y :: ys)
    | _, _ => none

/-- the tree `_compute_available_commmunication_parameters` walks from the layer the key denotes; `none`: an
    ODXLINK reference on the way does not resolve (`odxlinks.resolve` raises, `refresh()` fails) or the chain is
    longer than `fuel` (cyclic PARENT-REFs: Python ends in `RecursionError`) -/
def unfoldCp (look : Key → Option Nat) (raw : Nat → Option RawLayer) :
    Nat → Key → Option Comparam.Layer
  | 0, _ => none
  | fuel + 1, k =>
    match (look k).bind raw with
    | none => none
    | some r =>
      match allSome (fun p => unfoldCp look raw fuel p.1) r.parents with
      | none => none
      | some ps => some (.mk r.kind r.cps ps)

/-- the tree `_compute_available_objects` walks (same chains, local objects and NOT-INHERITED lists of one category) -/
def unfoldObj (look : Key → Option Nat) (raw : Nat → Option RawLayer) :
    Nat → Key → Option Inherit.Layer
  | 0, _ => none
  | fuel + 1, k =>
    match look k with
    | none => none
    | some o =>
      match raw o with
      | none => none
      | some r =>
        match allSome (fun p => (unfoldObj look raw fuel p.1).map fun l => (l, p.2)) r.parents with
        | none => none
        | some ps => some (.mk o r.kind r.locals ps)

/-- `layer.comparam_refs` after `refresh()` of the database `db`, for the layer with ODXLINK id `k` -/
def effectiveComparams (db : Db) (raw : Nat → Option RawLayer) (fuel : Nat) (k : Key) :
    Option (List Comparam.Inst) :=
  (unfoldCp (linkLookup db) raw fuel k).map Comparam.available

/-- the objects of one category the layer with ODXLINK id `k` ends up with after `refresh()` (`.error`: `odxraise`
    on an inheritance conflict) -/
def effectiveObjects (db : Db) (raw : Nat → Option RawLayer) (fuel : Nat) (k : Key) :
    Option (Except Inherit.Err (List Inherit.Obj)) :=
  (unfoldObj (linkLookup db) raw fuel k).map Inherit.computeAvailable

/-! ### file-type dispatch of the three entry points

  `Database.add_pdx_file` (database.py:50-63, members of the archive), `loadfile.load_files` (loadfile.py:33-44) and
  `loadfile.load_directory` (loadfile.py:47-63).  Inputs: the lower-cased suffix of the file name (`Path.suffix`,
  including the dot, `""` if none) and the lower-cased base name. -/

inductive Entry where
  | pdx | files | dir
deriving DecidableEq, Repr

inductive FileClass where
  | odx      -- parsed with `_process_xml_tree`
  | index    -- `index.xml`: only the archive reader looks at it (database short name); the other two skip it
  | aux      -- auxiliary file
  | pdx      -- a nested archive handed to `add_pdx_file` (only `load_files` / `load_directory`)
deriving DecidableEq, Repr

def FileClass.toStr : FileClass → String
  | .odx => "odx" | .index => "index" | .aux => "aux" | .pdx => "pdx"

def startsWithOdx (suffix : String) : Bool := (".odx".toList).isPrefixOf suffix.toList

def dispatch (e : Entry) (suffix name : String) : FileClass :=
  match e with
  | .pdx =>
    if startsWithOdx suffix then .odx                  -- database.py:55
    else if name == "index.xml" then .index            -- database.py:58
    else .aux                                          -- database.py:63
  | .files | .dir =>
    if suffix == ".pdx" then .pdx                      -- loadfile.py:37 / :55
    else if startsWithOdx suffix then .odx             -- loadfile.py:39 / :57
    else if name != "index.xml" then .aux              -- loadfile.py:41 / :59
    else .index

end OdxVerif.Pdx
