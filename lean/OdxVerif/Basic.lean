def hello := "world"
