import OdxVerif.Model.OdxLink
/-! Specification of reference resolution (property C10). It shares only the *vocabulary* with the model
    (fragments, ids, references, objects, and `stored db f i` = "the object the database stores under local
    id `i` in fragment `f`"); it has no loops over dictionaries, no copies, no heap, no exceptions.
    Core Lean only. -/
namespace OdxVerif.OdxLink.Spec

/-- a *store*: which object (if any) carries local id `i` in document fragment `f` -/
abbrev Store := Frag → String → Option Obj

/-- **ODXLINK resolution.** `o` is the object stored under the reference's id in the innermost (= last
    listed) fragment of the reference that stores this id at all. -/
def Resolves (st : Store) (r : Ref) (o : Obj) : Prop :=
  ∃ pre f post, r.docs = pre ++ f :: post ∧ st f r.refId = some o ∧ ∀ g ∈ post, st g r.refId = none

/-- no fragment of the reference stores its id -/
def Dangling (st : Store) (r : Ref) : Prop := ∀ f ∈ r.docs, st f r.refId = none

/-- executable form of `Resolves` (the oracle of the harness): of the objects stored under the id in
    the fragments of the reference, the one of the last such fragment -/
def resolveBy (st : Store) (r : Ref) : Option Obj :=
  (r.docs.filterMap fun f => st f r.refId).getLast?

/-- two databases are the same *as far as any reference can tell* -/
def SameStore (a b : Db) : Prop := ∀ f i, stored a f i = stored b f i

/-- **What a freshly built database stores**, given the `(id, object)` pairs of all documents in document
    order: the object of the last pair that carries local id `i` and lists fragment `f` -/
def carried (entries : List (Id × Obj)) : Store := fun f i =>
  ((entries.filter fun e => e.1.localId = i ∧ f ∈ e.1.frags).getLast?).map (·.2)

/-- the first such pair (what `overwrite=False` adds where nothing was stored) -/
def carriedFirst (entries : List (Id × Obj)) : Store := fun f i =>
  ((entries.filter fun e => e.1.localId = i ∧ f ∈ e.1.frags).head?).map (·.2)

/-- **Import references.** Inside a layer whose own fragments are `selfFrags` and which imports the
    `(id, object)` pairs `imported` (those of the referenced ECU-SHARED-DATA layers, in order), an id is
    bound as in the global store `g`; an id that `g` leaves unbound in one of the layer's own fragments is
    bound to the imported object of that local id (the last one, if several imported layers define it). -/
def layerStore (g : Store) (selfFrags : List Frag) (imported : List (Id × Obj)) : Store := fun f i =>
  (g f i).or
    (if f ∈ selfFrags then ((imported.filter fun e => e.1.localId = i).getLast?).map (·.2) else none)

/-- **Short-name resolution.** `o` is the one and only item called `name` -/
def UniquelyNamed (items : List Obj) (name : String) (o : Obj) : Prop :=
  ∃ pre post, items = pre ++ o :: post ∧ o.name = name ∧
    (∀ x ∈ pre, x.name ≠ name) ∧ (∀ x ∈ post, x.name ≠ name)

/-- executable form: the item called `name` if there is exactly one -/
def uniqueBy (items : List Obj) (name : String) : Option Obj :=
  match items.filter (fun x => x.name = name) with
  | [o] => some o
  | _ => none

/-! ### database level oracle (strict mode): expected target of every ODXLINK reference of a layer -/

/-- the links imported by a layer: every IMPORT-REF resolved in the global store must be an
    ECU-SHARED-DATA layer; `none` = loading must fail -/
def importedLinks (all : List Layer) (g : Store) : List Ref → Option (List (Id × Obj))
  | [] => some []
  | r :: rs =>
    match resolveBy g r with
    | none => none
    | some o =>
      match all.find? (fun l => l.obj.uid = o.uid) with
      | none => none
      | some l =>
        if l.isEsd ∧ o.isInst (some "DiagLayer") then (importedLinks all g rs).map (l.links ++ ·) else none

/-- expected outcome per reference attribute: `some uid`, or `none` = dangling or of the wrong type -/
def expectLayer (all : List Layer) (extra : List (Id × Obj)) (l : Layer) : Option (List (String × Option Nat)) :=
  let g := carried (extra ++ all.flatMap (·.links))
  match importedLinks all g l.importRefs with
  | none => none
  | some imp =>
    let st := layerStore g l.frags imp
    some (l.refs.map fun r =>
      (r.key, match resolveBy st r.ref with
        | some o => if o.isInst r.exp then some o.uid else none
        | none => none))

end OdxVerif.OdxLink.Spec
