import OdxVerif.Model.Comparam
/-! # Specification of communication-parameter resolution (property C15)

Only the vocabulary is shared with the model (`Layer`, `Inst`, `Key`, the result type `Res`, Python's
`int`/`float` on strings, the substring and `TX_DL` scanners). No dictionaries, no sorting, no folds.

* A layer *defines* `(id, protocol)` if one of its own COMPARAM-REFs has that key (if several do, the
  last in document order counts).
* `lookup L (id, protocol)` is the layer's own definition if there is one; otherwise what the parent
  of highest layer-type rank (`cpRank`) among the parents that (transitively) provide a definition
  provides (on equal rank the parent ref written later wins). ECU-SHARED-DATA layers are no hierarchy
  elements: they provide no communication parameters.
* Looking up by short name and protocol `p` answers with an effective definition for `p` if there is
  one, else with a generic (protocol-less) one, else with nothing. Without a protocol any effective
  definition of that name is acceptable. (Several specification ids may share a short name, e.g.
  `CP_Baudrate` of ISO 11898-2 and of ISO 11898-3; the property text does not rank those.)
* The effective value of a simple instance is its value, or the PHYSICAL-DEFAULT-VALUE of its
  specification when the value is omitted (empty); likewise per sub-parameter of a complex instance,
  where an omitted sub-value is an empty or a missing trailing SIMPLE-VALUE.
* A typed accessor returns the number written in the effective (sub-)value.
`List`-valued helper functions exist only because `Layer` is a nested inductive type. -/
namespace OdxVerif.Comparam
open OdxVerif.Gen (LayerKind)

/-- the layer's own definition of `k` (the last one in document order) -/
def lastDef : List Inst → Key → Option Inst
  | [], _ => none
  | c :: cs, k =>
    match lastDef cs k with
    | some x => some x
    | none => if c.key = k then some c else none

/-- the order ODX puts on the layer types that can carry communication parameters (ISO 22901-1):
    a protocol is overridden by a functional group, that by a base variant, that by an ECU variant.
    Written down here independently of the table in `diaglayertype.py`; `C15_priority_table` states that
    the two agree. (The rank of ECU-SHARED-DATA is never used.) -/
def cpRank : LayerKind → Nat
  | .protocol => 0
  | .functionalGroup => 1
  | .baseVariant => 2
  | .ecuVariant => 3
  | .ecuSharedData => 4

/-- what a parent provides, with the parent's layer type -/
structure Offer where
  kind : LayerKind
  inst : Inst

/-- an offer against the best offer of the parent refs written after it (`rank` orders the layer types) -/
def betterBy (rank : LayerKind → Nat) (x : Offer) : Option Offer → Offer
  | none => x
  | some y => if rank y.kind < rank x.kind then x else y

mutual
/-- the effective definition of `(id, protocol)` in layer `L` -/
def lookup : Layer → Key → Option Inst
  | .mk _ locals parents, k =>
    match lastDef locals k with
    | some c => some c
    | none => (bestOffer parents k).map (·.inst)
/-- the best offer among the parents (in document order) -/
def bestOffer : List Layer → Key → Option Offer
  | [], _ => none
  | p :: ps, k =>
    if p.kind = .ecuSharedData then bestOffer ps k
    else match lookup p k with
      | none => bestOffer ps k
      | some c => some (betterBy cpRank ⟨p.kind, c⟩ (bestOffer ps k))
end

mutual
/-- every COMPARAM-REF written anywhere in the hierarchy -/
def allInsts : Layer → List Inst
  | .mk _ locals parents => locals ++ allInstsIn parents
def allInstsIn : List Layer → List Inst
  | [] => []
  | p :: ps => allInsts p ++ allInstsIn ps
end

/-- `c` is an effective definition of layer `L` -/
def IsEffective (L : Layer) (c : Inst) : Prop := lookup L c.key = some c

/-- the effective definitions of `L`, as a finite set (order and multiplicity carry no meaning) -/
def effective (L : Layer) : List Inst := (allInsts L).filterMap fun c => lookup L c.key

/-- the acceptable answers to "the parameter named `n` for protocol `p`"; empty = there is none -/
def candidates (L : Layer) (n : String) (p : Option String) : List Inst :=
  let eff := (effective L).filter fun c => c.name = n
  match p with
  | none => eff
  | some q =>
    let sp := eff.filter fun c => c.proto = some q
    if sp.isEmpty then eff.filter fun c => c.proto = none else sp

/-! ## values -/

/-- effective value of a simple instance; `none` = not specified (a complex value or specification) -/
def effValue (c : Inst) : Option String :=
  match c.spec, c.value with
  | .simple _ d, .str s => some (if s = "" then d else s)
  | _, _ => none

/-- position and specification of the first sub-parameter named `n` -/
def subNamed (subs : List CpSpec) (n : String) : Option (Nat × CpSpec) :=
  (subs.zipIdx.find? fun x => x.1.name = n).map fun x => (x.2, x.1)

/-- effective sub-value of a complex instance. Outer `none` = not specified (not a complex instance, a
    complex sub-parameter, a nested value); `some none` = the parameter has no such sub-parameter -/
def effSubvalue (c : Inst) (sub : String) : Option (Option String) :=
  match c.spec, c.value with
  | .complex _ subs _, .list xs =>
    match subNamed subs sub with
    | none => some none
    | some (i, .simple _ d) =>
      match xs[i]? with
      | none => some (some d)                                  -- missing trailing sub-value
      | some (.str s) => some (some (if s = "" then d else s))
      | some (.list _) => none
    | some (_, .complex _ _ _) => none
  | _, _ => none

/-! ## typed accessors -/

/-- the integer written in `s` -/
def numInt (s : String) : Option Res := (pyInt s).map .int
/-- the number of microseconds written in `s` (the accessor reports seconds) -/
def numMicro (s : String) : Option Res := (pyFloat s).map .micro

def specValueAcc (c? : Option Inst) (num : String → Option Res) : Option Res :=
  match c? with
  | none => some .none
  | some c => (effValue c).bind num

def specSubAcc (c? : Option Inst) (sub : String) : Option Res :=
  match c? with
  | none => some .none
  | some c =>
    match effSubvalue c sub with
    | none => none
    | some none => some .none
    | some (some s) => numInt s

/-- CAN is used iff there is a physical request CAN id -/
def specUsesCan (gc : String → Option Inst) : Option Bool :=
  (specSubAcc (gc "CP_UniqueRespIdTable") "CP_CanPhysReqId").map fun r => r != .none

/-- CAN-FD is used iff CAN is used and the effective `CP_CANFDTxMaxDataLength` mentions CANFD -/
def specUsesCanFd (gc : String → Option Inst) : Option Bool :=
  match specUsesCan gc with
  | none => none
  | some false => some false
  | some true =>
    match gc "CP_CANFDTxMaxDataLength" with
    | none => some false
    | some c => (effValue c).map fun s => containsSub "CANFD".toList s.toList

/-- what the property demands of accessor `a` when `gc n` is the instance chosen for short name `n`;
    `none` = nothing is demanded (ill-typed instance, or the content is not a number) -/
def specAccessor (a : Acc) (gc : String → Option Inst) : Option Res :=
  match a with
  | .maxCanPayloadSize =>
    match gc "CP_CANFDTxMaxDataLength" with
    | none => (specUsesCan gc).map fun b => if b then .int 8 else .none
    | some c =>
      (effValue c).bind fun s =>
        match searchTxDl s.toList with
        | none => some (.int 8)
        | some ds => if ds.isEmpty then none else some (.int (digitsVal ds))
  | .usesCan => (specUsesCan gc).map .bool
  | .usesCanFd => (specUsesCanFd gc).map .bool
  | .canBaudrate => specValueAcc (gc "CP_Baudrate") numInt
  | .canFdBaudrate =>
    match specUsesCanFd gc with
    | none => none
    | some false => some .none
    | some true => specValueAcc (gc "CP_CANFDBaudrate") numInt
  | .canReceiveId => specSubAcc (gc "CP_UniqueRespIdTable") "CP_CanPhysReqId"
  | .canSendId => specSubAcc (gc "CP_UniqueRespIdTable") "CP_CanRespUSDTId"
  | .canFuncReqId => specValueAcc (gc "CP_CanFuncReqId") numInt
  | .doipLogicalEcuAddress => specSubAcc (gc "CP_UniqueRespIdTable") "CP_DoIPLogicalEcuAddress"
  | .doipLogicalGatewayAddress => specValueAcc (gc "CP_DoIPLogicalGatewayAddress") numInt
  | .doipLogicalTesterAddress => specValueAcc (gc "CP_DoIPLogicalTesterAddress") numInt
  | .doipLogicalFunctionalAddress => specValueAcc (gc "CP_DoIPLogicalFunctionalAddress") numInt
  | .doipRoutingActivationTimeout => specValueAcc (gc "CP_DoIPRoutingActivationTimeout") numMicro
  | .doipRoutingActivationType => specValueAcc (gc "CP_DoIPRoutingActivationType") numInt
  | .testerPresentTime => specValueAcc (gc "CP_TesterPresentTime") numMicro

end OdxVerif.Comparam
