import OdxVerif.Common.Sexp
/-! ISO 15765-2 segmentation of one telegram (the *sender's* side; odxtools has no such function —
    this is the specification the reassembler is proved against). Core Lean only. -/
namespace OdxVerif.IsoTp

/-- consecutive frames carrying `p` in chunks of `n` bytes, sequence numbers from `sn` (mod 16);
    the last frame is followed by arbitrary padding `pad` -/
def cfs (n : Nat) (sn : Nat) (pad : Bytes) : (fuel : Nat) → Bytes → List Bytes
  | 0, _ => []
  | fuel+1, p =>
    if p.length ≤ n then [ (32 + sn % 16) :: (p ++ pad) ]
    else ((32 + sn % 16) :: p.take n) :: cfs n (sn + 1) pad fuel (p.drop n)

/-- frames for telegram `p` on a bus with `dl` data bytes per frame (8 classic, 12…64 CAN-FD) -/
def segment (dl : Nat) (pad p : Bytes) : List Bytes :=
  if p.length ≤ 7 then [ p.length :: (p ++ pad) ]                           -- single frame
  else if p.length ≤ dl - 2 then [ 0 :: p.length :: (p ++ pad) ]            -- CAN-FD single frame (escape)
  else ((16 + p.length / 256) :: (p.length % 256) :: p.take (dl - 2))       -- first frame
         :: cfs (dl - 1) 1 pad p.length (p.drop (dl - 2))

/-- a transfer description: frame size, padding, payload -/
structure Xfer where
  dl : Nat
  pad : Bytes
  p : Bytes

def Xfer.ok (x : Xfer) : Prop := 8 ≤ x.dl ∧ 1 ≤ x.p.length ∧ x.p.length ≤ 4095
def Xfer.frames (x : Xfer) : List Bytes := segment x.dl x.pad x.p

def isFlowControl (f : Bytes) : Bool := match f with | b0 :: _ => b0 / 16 == 3 | [] => false

end OdxVerif.IsoTp
