import OdxVerif.Model.Dispatch
/-! Specification of message attribution (property C06). Shares only the vocabulary (`Param`, `Coding`,
    `Service`, `Layer`, the decoding oracle) with the model: no prefix tree, no candidate lists, no
    exceptions, no loops over coding objects. Core Lean only.

    A message `M` is attributed to a service `s` of layer `L` iff `s` has a coding object — its request,
    one of its positive/negative responses, or a global negative response of the layer — whose constant
    prefix (relative to `s`) is a prefix of `M` and which decodes `M`.  ("matches" = constant prefix equal
    and decode succeeds; the decoder does not require full consumption, so neither does the spec.) -/
namespace OdxVerif.Dispatch.Spec

/-- the bytes of the maximal run of leading constant parameters; a MATCHING-REQUEST-PARAM is constant
    when the bytes it echoes lie completely inside the constant prefix `rp` of the service's request -/
def constPrefix (rp : Bytes) : List Param → Bytes
  | [] => []
  | .const bs :: ps => bs ++ constPrefix rp ps
  | .matchReq pos len :: ps =>
    if pos + len ≤ rp.length then (rp.drop pos).take len ++ constPrefix rp ps else []
  | .other :: _ => []

/-- constant prefix of the service's request (empty if there is no request) -/
def requestPrefix (s : Service) : Bytes :=
  match s.request with
  | none => []
  | some r => constPrefix [] r.params

/-- request, positive and negative responses of a service -/
def ownCodings (s : Service) : List Coding :=
  s.request.toList ++ s.pos ++ s.neg

/-- coding object `co`, used for service `s`, matches the message -/
def Matches (dec : Oracle) (s : Service) (M : Bytes) (co : Coding) : Prop :=
  constPrefix (requestPrefix s) co.params <+: M ∧ dec co M = .ok

instance (dec : Oracle) (s : Service) (M : Bytes) (co : Coding) : Decidable (Matches dec s M co) := by
  unfold Matches; exact inferInstance

/-- **the attribution relation** -/
def Attributed (dec : Oracle) (L : Layer) (M : Bytes) (s : Service) : Prop :=
  s ∈ L.services ∧ ∃ co ∈ ownCodings s ++ L.gnrs, Matches dec s M co

/-- the attributed services as a list (the same relation, executable; used by the driver as the oracle) -/
def attributed (dec : Oracle) (L : Layer) (M : Bytes) : List Service :=
  L.services.filter fun s => (ownCodings s ++ L.gnrs).any fun co => decide (Matches dec s M co)

/-- number of own coding objects of `s` which match `M` -/
def ownMatchCount (dec : Oracle) (s : Service) (M : Bytes) : Nat :=
  ((ownCodings s).filter fun co => decide (Matches dec s M co)).length

/-- envelope: no service has two own coding objects matching the same message (in strict mode odxtools
    reports "cannot uniquely decode" for such a description) -/
def Unambiguous (dec : Oracle) (L : Layer) (M : Bytes) : Prop :=
  ∀ s ∈ L.services, ownMatchCount dec s M ≤ 1

/-- envelope for the open finding `c06-empty-prefix`: every coding object has a non-empty constant prefix -/
def NoEmptyPrefix (L : Layer) : Prop :=
  ∀ s ∈ L.services, ∀ co ∈ ownCodings s ++ L.gnrs, constPrefix (requestPrefix s) co.params ≠ []

/-- envelope (C05): decoding a message raises nothing but decode errors -/
def NoForeign (dec : Oracle) (M : Bytes) : Prop :=
  ∀ co, dec co M ≠ .foreign

/-- the service group a service belongs to: the first byte of its request -/
def sidOf (s : Service) : Option Byte :=
  (requestPrefix s).head?

end OdxVerif.Dispatch.Spec
