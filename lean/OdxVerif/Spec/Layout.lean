import OdxVerif.Model.Codec
import OdxVerif.Spec.NumRepr
/-! Positional denotation of a described message (C02's reference interpreter).
    `layout` turns a description and a value assignment into a list of *claims* — (byte index, bit mask,
    bit values) — using only ODX's positional rules: an object sits at the origin of its enclosing
    structure + BYTE-POSITION, or directly behind the previous object; bit `j` of an `n`-bit value at bit
    position `p` in `k = ⌈(n+p)/8⌉` bytes goes to byte `k-1-(j+p)/8` (high-low) or `(j+p)/8` (low-high),
    bit `(j+p) % 8`. No encode state, no used-mask, no cursor/origin juggling beyond "where the previous
    object ended". `pduOf` ORs the claims together; two claims overlap iff they share a bit.
    Written independently of `Model/Codec.lean` (it shares only the value types and `Text`). Core Lean only. -/
namespace OdxVerif.Spec
open OdxVerif OdxVerif.Codec

/-- one byte's worth of claimed bits -/
structure Claim where
  idx : Nat      -- byte index in the PDU
  mask : Nat     -- which bits of that byte are described
  bits : Nat     -- their values (subset of mask)
deriving Repr, DecidableEq

/-- byte `i` (0 = first byte on the wire) of the `k`-byte field holding `x`, in the given byte order -/
def fieldByte (k : Nat) (hl : Bool) (x i : Nat) : Nat :=
  let sig := if hl then k - 1 - i else i          -- significance of wire byte i
  x / 256 ^ sig % 256

/-- claims of an `n`-bit raw value `raw` at byte `pos`, bit position `p` -/
def numberClaims (pos n p : Nat) (hl : Bool) (raw : Nat) : List Claim :=
  let k := (n + p + 7) / 8
  (List.range k).map fun i =>
    { idx := pos + i, mask := fieldByte k hl ((2 ^ n - 1) * 2 ^ p) i, bits := fieldByte k hl (raw % 2 ^ n * 2 ^ p) i }

/-- claims of a byte string at byte `pos` (all bits described) -/
def bytesClaims (pos : Nat) (bs : Bytes) : List Claim :=
  (List.range bs.length).map fun i => { idx := pos + i, mask := 255, bits := bs.getD i 0 }

/-- BCD: decimal digit `d_i` in nibble / byte `i` -/
def bcdDigits (spacing : Nat) : (fuel : Nat) → Nat → Nat
  | 0, _ => 0
  | f+1, v => if v = 0 then 0 else v % 10 + 2 ^ spacing * bcdDigits spacing f (v / 10)

/-- the raw bit pattern of an internal value in a standard-length object; `none` = not representable -/
def rawOf (bt : BaseType) (enc : Option Enc) (n : Nat) (v : IVal) : Option Nat :=
  match bt, v with
  | .uint32, .int i =>
    if i < 0 then none else
    let r := if enc = some .bcdp then bcdDigits 4 i.toNat i.toNat
             else if enc = some .bcdup then bcdDigits 8 i.toNat i.toNat else i.toNat
    if r < 2 ^ n then some r else none
  | .int32, .int i =>
    if n = 0 then (if i = 0 then some 0 else none)
    else
      let lo : Int := if enc = none ∨ enc = some .twoc then -(2 ^ (n - 1)) else -(2 ^ (n - 1)) + 1
      if lo ≤ i ∧ i < 2 ^ (n - 1) then some (repr enc n i) else none
  | .float64, .flt b => if n = 64 then some b else none
  | .float32, .flt b => if n = 32 then Text.f64to32? b else none
  | _, _ => none

def stringCodecOf (bt : BaseType) (enc : Option Enc) (hl : Bool) : Option Text.Codec :=
  match enc with
  | some .utf8 => some .utf8
  | some .ucs2 => some (if hl then .utf16be else .utf16le)
  | some .iso1 => some .latin1
  | some .iso2 => some .latin2
  | some .cp1252 => some .cp1252
  | none => (match bt with
    | .utf8 => some .utf8
    | .unicode2 => some (if hl then .utf16be else .utf16le)
    | .ascii => some .latin1
    | _ => none)
  | _ => none

/-- the bytes of a byte-field or string value -/
def payloadOf (bt : BaseType) (enc : Option Enc) (hl : Bool) (v : IVal) : Option Bytes :=
  match bt, v with
  | .bytefield, .bytes b => some b
  | .ascii, .str cps | .utf8, .str cps | .unicode2, .str cps =>
    (stringCodecOf bt enc hl).bind fun c => Text.encode c cps
  | _, _ => none

/-- layout context: what a nested object needs to know about its surroundings -/
structure Ctx where
  trig : Option Bytes
  lastInPdu : Bool                  -- nothing follows this object in the PDU
  keys : List (String × Nat)        -- bit lengths of PARAM-LENGTH-INFO objects, by key name (first pass)

/-- result of laying out one object: its claims, the byte behind it, and length keys it determined -/
structure Out where
  claims : List Claim
  next : Nat
  keys : List (String × Nat) := []

def minBitsOf (bt : BaseType) (v : IVal) : Option Nat :=
  match bt, v with
  | .bytefield, .bytes x => some (8 * x.length)
  | .ascii, .str x | .utf8, .str x => some (8 * x.length)
  | .unicode2, .str x => some (16 * x.length)
  | .int32, .int i => some (((Bits.bitLength i.natAbs + 1 + 7) / 8) * 8)
  | .uint32, .int i => some (((Bits.bitLength i.natAbs + 7) / 8) * 8)
  | .float32, _ => some 32
  | .float64, _ => some 64
  | _, _ => none

/-- an atomic value under a diag-coded type at byte `pos`, bit position `p` -/
def layoutDct (c : Ctx) (dct : Dct) (v : IVal) (pos p : Nat) : Option Out :=
  match dct with
  | .std bt enc hl n none _ =>
    if bt.isNumeric then
      (rawOf bt enc n v).map fun r => { claims := numberClaims pos n p hl r, next := pos + (n + p + 7) / 8 }
    else
      (payloadOf bt enc hl v).bind fun b =>
        if 8 * b.length = n ∧ p = 0 then some { claims := bytesClaims pos b, next := pos + b.length } else none
  | .std .. => none
  | .minmax bt enc hl mn mx term =>
    if p ≠ 0 then none else
    (payloadOf bt enc hl v).bind fun b =>
      if decide (b.length < mn) || (match mx with | some m => decide (b.length > m) | none => false) then none
      else
        let t : Bytes := match term with
          | .zero => if bt = .unicode2 then [0, 0] else [0]
          | .hexff => if bt = .unicode2 then [255, 255] else [255]
          | .eop => []
        if term = .eop ∧ !c.lastInPdu then none
        else if c.lastInPdu ∨ some b.length = mx then some { claims := bytesClaims pos b, next := pos + b.length }
        else some { claims := bytesClaims pos (b ++ t), next := pos + b.length + t.length }
  | .leading bt _ hl n =>
    -- the length prefix counts the bytes of the UTF-8 / UTF-16 / raw representation
    let lenBytes : Option Bytes := match bt, v with
      | .bytefield, .bytes b => some b
      | .unicode2, .str cps => Text.encode (if hl then .utf16be else .utf16le) cps
      | .ascii, .str cps => Text.encode .latin1 cps
      | .utf8, .str cps => Text.encode .utf8 cps
      | _, _ => none
    lenBytes.bind fun b =>
      if b.length < 2 ^ n then
        let k := (n + p + 7) / 8
        some { claims := numberClaims pos n p hl b.length ++ bytesClaims (pos + k) b, next := pos + k + b.length }
      else none
  | .paramLen bt enc hl key =>
    let n? := match lookup key c.keys with
      | some n => some n
      | none => minBitsOf bt v
    n?.bind fun n =>
      if bt.isNumeric then
        (rawOf bt enc n v).map fun r =>
          { claims := numberClaims pos n p hl r, next := pos + (n + p + 7) / 8, keys := [(key, n)] }
      else
        (payloadOf bt enc hl v).bind fun b =>
          if 8 * b.length = n ∧ p = 0 then some { claims := bytesClaims pos b, next := pos + b.length, keys := [(key, n)] }
          else none

def zeroClaims (pos n : Nat) : List Claim :=
  (List.range n).map fun i => { idx := pos + i, mask := 255, bits := 0 }

/-- an empty claim that only records that the message extends up to (not including) byte `next` -/
def extentClaim (next : Nat) : List Claim :=
  if next = 0 then [] else [{ idx := next - 1, mask := 0, bits := 0 }]

/-- the switch key that stands for the DEFAULT-CASE: the smallest non-negative integer that no CASE claims. It is 0 or the
    successor of some case's upper limit (a smallest unclaimed k > 0 has a claimed predecessor), so searching these
    candidates is exhaustive — no sorting, no scan -/
def specDefaultKey (cases : List MuxCaseD) : Int :=
  let unclaimed (k : Int) : Bool := decide (0 ≤ k) && cases.all (fun cs => !(decide (cs.lower ≤ k ∧ k ≤ cs.upper)))
  let cands : List Int := (0 :: cases.map (fun cs => cs.upper + 1)).filter unclaimed
  cands.foldl (fun m k => if k < m then k else m) (cands.headD 0)

mutual
/-- a data object at byte `pos` (bit position `p` only for simple objects) -/
def layoutDop : (fuel : Nat) → Ctx → Dop → PVal → (pos p : Nat) → Option Out
  | 0, _, _, _, _, _ => none
  | fuel+1, c, .simple dct phys .identical, .atom v, pos, p =>
    if typeAdmits phys v then layoutDct c dct v pos p else none
  | fuel+1, c, .struct byteSize ps, .dict kv, pos, p =>
    if p ≠ 0 then none else
    -- first pass: learn the lengths the PARAM-LENGTH-INFO users imply; second pass: place everything
    (layoutParams fuel { c with keys := [] } ps kv pos pos 0 true).bind fun o1 =>
    (layoutParams fuel { c with keys := o1.keys } ps kv pos pos 0 false).bind fun o =>
      -- values for unknown parameter names are rejected
      if kv.any (fun e => !(ps.any fun q => q.name == e.1)) then none
      else match byteSize with
        | none => some o
        | some bs =>
          if o.next - pos < bs then
            -- the padding up to BYTE-SIZE belongs to the structure: it starts behind the last byte the content claims
            -- (the maximal extent — the members may be listed in any order), not behind the member listed last
            let ext := o.claims.foldl (fun m cl => max m (cl.idx + 1)) o.next
            some { claims := o.claims ++ zeroClaims ext (pos + bs - ext), next := pos + bs }
          else some o
  | fuel+1, c, .staticField count itemSize item, .list xs, pos, p =>
    if p ≠ 0 ∨ xs.length ≠ count then none else layoutStatic fuel c item itemSize xs pos
  | fuel+1, c, .dynLenField offset cbp cbit countDop item, .list xs, pos, p =>
    if p ≠ 0 then none else
    (layoutDop fuel { c with lastInPdu := false } countDop (.atom (.int xs.length)) (pos + cbp) cbit).bind fun oc =>
      if oc.next - pos > offset then none
      else (layoutItems fuel c item xs (pos + offset)).map fun oi =>
        { claims := oc.claims ++ extentClaim (pos + offset) ++ oi.claims, next := if xs.isEmpty then pos + offset else oi.next }
  | fuel+1, c, .endMarkerField termVal termDop item, .list xs, pos, p =>
    if p ≠ 0 then none else
    (layoutItems fuel c item xs pos).bind fun oi =>
      if c.lastInPdu then some oi
      else (layoutDop fuel { c with lastInPdu := false } termDop (.atom termVal) oi.next 0).map fun ot =>
        { claims := oi.claims ++ ot.claims, next := oi.next }       -- the marker is not "consumed"
  | fuel+1, c, .eopField _ _ item, .list xs, pos, p =>
    if p ≠ 0 ∨ !c.lastInPdu then none else layoutItems fuel c item xs pos
  | fuel+1, c, .mux bytePos swBytePos swBitPos swDop cases dflt, v, pos, p =>
    if p ≠ 0 then none else
    -- which switch key the value denotes and which case structure it selects (ODX 7.3.6.10: the case whose key range
    -- contains the switch key, else the DEFAULT-CASE)
    let byKey (k : Int) : Option (Option Dop) :=
      match cases.find? (fun cs => decide (cs.lower ≤ k ∧ k ≤ cs.upper)) with
      | some cs => some cs.struct
      | none => dflt.map (·.2)
    let sel : Option (Int × Option Dop × PVal) :=
      match v with
      | .keyed k content => (byKey k).map fun st => (k, st, content)
      | .pair name content | .dict [(name, content)] =>
        (match cases.find? (fun cs => cs.name == name) with
         | some cs => some (cs.lower, cs.struct, content)                       -- a case selected by name: its lower limit
         | none => (match dflt with
           | some (dn, ds) => if dn = name then some (specDefaultKey cases, ds, content) else none
           | none => none))
      | .nokey content => dflt.map fun d => (specDefaultKey cases, d.2, content)
      | _ => none
    sel.bind fun (key, st, content) =>
      (layoutDop fuel c swDop (.atom (.int key)) (pos + swBytePos) (swBitPos.getD 0)).bind fun ok =>
        match st with
        | some d => (layoutDop fuel c d content (pos + bytePos) 0).map fun oc =>
            { claims := ok.claims ++ oc.claims, next := oc.next }
        | none =>
          (match content with
           | .none | .dict [] => some { claims := ok.claims ++ extentClaim (pos + bytePos), next := pos + bytePos }
           | _ => none)
  | _+1, _, _, _, _, _ => none

/-- field items one behind the other; only the last one can be last in the PDU -/
def layoutItems : (fuel : Nat) → Ctx → Dop → List PVal → (pos : Nat) → Option Out
  | 0, _, _, _, _ => none
  | _+1, _, _, [], pos => some { claims := [], next := pos }
  | fuel+1, c, item, x :: rest, pos =>
    (layoutDop fuel { c with lastInPdu := c.lastInPdu && rest.isEmpty } item x pos 0).bind fun o =>
      (layoutItems fuel c item rest o.next).map fun r => { claims := o.claims ++ r.claims, next := r.next }

/-- static field: item `i` at `pos + i * itemSize`, each padded with zeros to ITEM-BYTE-SIZE -/
def layoutStatic : (fuel : Nat) → Ctx → Dop → Nat → List PVal → (pos : Nat) → Option Out
  | 0, _, _, _, _, _ => none
  | _+1, _, _, _, [], pos => some { claims := [], next := pos }
  | fuel+1, c, item, sz, x :: rest, pos =>
    -- an item of a static field is followed by padding up to ITEM-BYTE-SIZE: it is never the last object of the PDU
    (layoutDop fuel { c with lastInPdu := false } item x pos 0).bind fun o =>
      if o.next - pos > sz then none
      else (layoutStatic fuel c item sz rest (pos + sz)).map fun r =>
        { claims := o.claims ++ zeroClaims o.next (pos + sz - o.next) ++ r.claims, next := r.next }

/-- the parameters of a structure with origin `origin`; `cursor` = end of the previous parameter;
    `maxNext` = the byte behind everything placed so far; `learn` = first pass (keys not yet known) -/
def layoutParams : (fuel : Nat) → Ctx → List Param → List (String × PVal) → (origin cursor maxNext : Nat) →
    (learn : Bool) → Option Out
  | 0, _, _, _, _, _, _, _ => none
  | _+1, _, [], _, _, cursor, _, _ => some { claims := [], next := cursor }
  | fuel+1, c, .mk name bytePos bitPos kind :: rest, kv, origin, cursor, mx, learn =>
    let pos := match bytePos with | some b => origin + b | none => cursor
    let p := bitPos.getD 0
    let cHere : Ctx := { c with lastInPdu := c.lastInPdu && rest.isEmpty }
    let here : Option Out := match kind with
      | .codedConst dct value =>
        (match lookup name kv with
         | some (.atom v) => if v = value then layoutDct cHere dct value pos p else none
         | some _ => none
         | none => layoutDct cHere dct value pos p)
      | .physConst dop value =>
        (match lookup name kv with
         | some v => if pvalEq v value then layoutDop fuel cHere dop value pos p else none
         | none => layoutDop fuel cHere dop value pos p)
      | .value dop dflt =>
        (match lookup name kv, dflt with
         | some v, _ => layoutDop fuel cHere dop v pos p
         | none, some d => layoutDop fuel cHere dop d pos p
         | none, none => none)
      | .reserved n =>
        if (lookup name kv).isSome then none
        else some { claims := extentClaim (pos + (p + n + 7) / 8), next := pos + (p + n + 7) / 8 }
      | .matchingReq reqPos byteLen =>
        (match c.trig with
         | some t => if reqPos + byteLen ≤ t.length ∧ (lookup name kv).isNone
                     then some { claims := bytesClaims pos ((t.drop reqPos).take byteLen), next := pos + byteLen } else none
         | none => none)
      | .nrcConst dct _ =>
        if (lookup name kv).isSome then none
        else dct.staticBitLen.map fun n => { claims := extentClaim (pos + (p + n + 7) / 8), next := pos + (p + n + 7) / 8 }
      | .lengthKey dop =>
        -- the key carries the bit length its user(s) settled on, or the explicitly given value
        let given : Option Nat := match lookup name kv with
          | some (.atom (.int i)) => if i < 0 then none else some i.toNat
          | _ => none
        let val : Option Nat := match given, lookup name c.keys with
          | some g, some k => if g = k then some g else none
          | some g, none => some g
          | none, some k => some k
          | none, none => none
        (match dop.staticBitLen with
         | none => none
         | some n =>
           if learn then some { claims := [], next := pos + (p + n + 7) / 8, keys := match given with | some g => [(name, g)] | none => [] }
           else val.bind fun v => layoutDop fuel cHere dop (.atom (.int v)) pos p)
      | .unsupported => none
    here.bind fun o =>
      (layoutParams fuel { c with keys := if learn then o.keys ++ c.keys else c.keys } rest kv origin o.next (max mx o.next) learn).map fun r =>
        { claims := o.claims ++ r.claims, next := r.next, keys := o.keys ++ r.keys }
end

/-- the PDU denoted by a set of claims: OR of all claimed bits, zeros elsewhere -/
def pduOf (claims : List Claim) : Bytes :=
  let len := claims.foldl (fun m c => max m (c.idx + 1)) 0
  (List.range len).map fun i => claims.foldl (fun b c => if c.idx = i then b ||| c.bits else b) 0

/-- do two described objects claim the same bit? -/
def overlapping : List Claim → Bool
  | [] => false
  | c :: rest => rest.any (fun d => d.idx = c.idx && c.mask &&& d.mask ≠ 0) || overlapping rest

/-- the PDU a request / response / structure description denotes for a value assignment -/
def layoutMessage (bs : Option Nat) (ps : List Param) (v : PVal) (trig : Option Bytes) : Option (Bytes × Bool) :=
  (layoutDop 4096 { trig := trig, lastInPdu := true, keys := [] } (.struct bs ps) v 0 0).map fun o =>
    (pduOf o.claims, overlapping o.claims)

end OdxVerif.Spec
