/-! # Exact semantics of ODX computational methods (ASAM MCD-2 D, section 7.3.6.6)

    The vocabulary property C07 speaks about, over exact rationals (core `Rat`). Declarative: closed
    formulas and interval predicates only — no segments, no loops, no Python objects. Core Lean only
    (this file is linked into the native driver). -/
namespace OdxVerif.Compu

/-- ODX base data types that occur as internal/physical type of a compu method. The three string
    types behave identically in `compumethods/` and are one constructor. -/
inductive DType where
  | int32 | uint32 | float32 | float64 | str
deriving DecidableEq, Repr, Inhabited

def DType.isInt : DType → Bool
  | .int32 | .uint32 => true
  | _ => false

def DType.isFloat : DType → Bool
  | .float32 | .float64 => true
  | _ => false

/-- the values odxtools passes around: Python `int`, `float` (as the exact rational it denotes), `str` -/
inductive Val where
  | int (z : Int)
  | flt (q : Rat)
  | str (s : String)
deriving DecidableEq, Repr, Inhabited

/-- the number denoted by a value -/
def Val.num? : Val → Option Rat
  | .int z => some (z : Rat)
  | .flt q => some q
  | .str _ => none

inductive IType where
  | closed | open_ | infinite
deriving DecidableEq, Repr, Inhabited

/-! ## Interval semantics of LOWER-LIMIT / UPPER-LIMIT
    `none` as interval type means "CLOSED" (the ODX default when a value is given). -/

/-- `x` respects the lower limit `a` of type `t` -/
def lowerOk (t : Option IType) (a x : Rat) : Prop :=
  match t with
  | none | some .closed => a ≤ x
  | some .open_ => a < x
  | some .infinite => True

/-- `x` respects the upper limit `a` of type `t` -/
def upperOk (t : Option IType) (a x : Rat) : Prop :=
  match t with
  | none | some .closed => x ≤ a
  | some .open_ => x < a
  | some .infinite => True

instance (t a x) : Decidable (lowerOk t a x) := by unfold lowerOk; split <;> infer_instance
instance (t a x) : Decidable (upperOk t a x) := by unfold upperOk; split <;> infer_instance

/-! ## Admissible Python type for an ODX base type
    integers: `int` only; floats: `int` or `float`; strings: `str`. -/
def admissible (ty : DType) (v : Val) : Prop :=
  match ty, v with
  | .int32, .int _ | .uint32, .int _ => True
  | .float32, .int _ | .float32, .flt _ | .float64, .int _ | .float64, .flt _ => True
  | .str, .str _ => True
  | _, _ => False

instance (ty v) : Decidable (admissible ty v) := by unfold admissible; split <;> infer_instance

/-! ## Rounding -/

/-- `z` is an integer nearest to `q` (at a tie both neighbours qualify) -/
def nearest (z : Int) (q : Rat) : Prop := q - 1/2 ≤ (z : Rat) ∧ (z : Rat) ≤ q + 1/2

/-- `q` lies exactly half-way between two integers -/
def isTie (q : Rat) : Prop := q - (q.floor : Rat) = 1/2

/-! ## The conversion formulas -/

/-- LINEAR / one SCALE-LINEAR scale: `f(x) = (offset + factor·x) / denominator` -/
def linear (o f d x : Rat) : Rat := (o + f * x) / d

/-- its inverse for `factor ≠ 0` -/
def linearInv (o f d p : Rat) : Rat := (p * d - o) / f

/-- `Σ cₖ·xᵏ` for the coefficient list `c₀, c₁, …` starting at exponent `k` -/
def polySumFrom (x : Rat) : Nat → List Rat → Rat
  | _, [] => 0
  | k, c :: cs => c * x ^ k + polySumFrom x (k + 1) cs

/-- the polynomial `Σ cₖ·xᵏ` -/
def polySum (cs : List Rat) (x : Rat) : Rat := polySumFrom x 0 cs

/-- RAT-FUNC / one SCALE-RAT-FUNC scale: numerator polynomial over denominator polynomial; an absent
    COMPU-DENOMINATOR is the constant 1 -/
def ratFunc (num den : List Rat) (x : Rat) : Rat :=
  polySum num x / (if den = [] then 1 else polySum den x)

/-- TAB-INTP: the straight line through `(x0,y0)` and `(x1,y1)` at `x` -/
def lerp (x0 y0 x1 y1 x : Rat) : Rat := y0 + (x - x0) * (y1 - y0) / (x1 - x0)

/-- `x` lies between `a` and `b` (in either order) -/
def between (a b x : Rat) : Prop := min a b ≤ x ∧ x ≤ max a b

instance (a b x) : Decidable (between a b x) := by unfold between; infer_instance

/-- TAB-INTP over the sample lists `xs`, `ys`: `r` is the value at `x` of the straight line through the
    first pair of adjacent samples (in table order) that brackets `x`; on a pair of zero width the first
    sample of the pair -/
inductive Interp (x : Rat) : List Rat → List Rat → Rat → Prop where
  | here {x0 x1 y0 y1 : Rat} {xs ys : List Rat} :
      between x0 x1 x → x0 ≠ x1 → Interp x (x0 :: x1 :: xs) (y0 :: y1 :: ys) (lerp x0 y0 x1 y1 x)
  | flat {x0 x1 y0 y1 : Rat} {xs ys : List Rat} :
      between x0 x1 x → x0 = x1 → Interp x (x0 :: x1 :: xs) (y0 :: y1 :: ys) y0
  | later {x0 x1 y0 y1 r : Rat} {xs ys : List Rat} :
      ¬ between x0 x1 x → Interp x (x1 :: xs) (y1 :: ys) r → Interp x (x0 :: x1 :: xs) (y0 :: y1 :: ys) r

end OdxVerif.Compu
