import OdxVerif.Model.Nil
/-! # Specification vocabulary of C16: the abstract list semantics of a history and the
    consistency invariant between the list view and the name view. No implementation devices:
    plain `List` functions only. -/
namespace OdxVerif.Nil

/-- an item the list accepts: its short name is not empty (otherwise `sn[0]` raises) -/
def valid (x : Item) : Bool := decide (x.sn ≠ [])

/-- what a Python `list` holding the same objects would contain after the operation
    (an operation that raises leaves the list as it is; `extend` keeps what it appended) -/
def absStep (l : List Item) : Op → List Item
  | .append x => if valid x then l ++ [x] else l
  | .insert i x =>
    if valid x then
      let n : Int := l.length
      let j := (max 0 (min n (if i < 0 then i + n else i))).toNat
      l.take j ++ x :: l.drop j
    else l
  | .extend xs => l ++ xs.takeWhile valid
  | .remove x => l.eraseP (fun y => y.eqc == x.eqc)          -- first item `==` x (unchanged if none)
  | .pop i =>
    let n : Int := l.length
    if -n ≤ i ∧ i < n then l.eraseIdx (i % n).toNat else l    -- Python index modulo length
  | .clear => []
  | .copy => l
  | .copy2 => l
  | .deepcopy k => l.map (fresh k)
  | .pickle k => l.map (fresh k)

def absList (ops : List Op) : List Item := ops.foldl absStep []

/-- when an operation raises (exactly when the same operation on a plain list of acceptable items does) -/
def raises (l : List Item) : Op → Prop
  | .append x => valid x = false
  | .insert _ x => valid x = false
  | .extend xs => ∃ x ∈ xs, valid x = false
  | .remove x => ∀ y ∈ l, y.eqc ≠ x.eqc                      -- ValueError
  | .pop i => ¬ (-(l.length : Int) ≤ i ∧ i < l.length)        -- IndexError
  | _ => False

/-- the suffix forms a key may have: the identifier-safe short name itself (`n = 1`) or with `_n` / `n`
    appended (`n ≥ 2`) -/
def IsKeyFor (kw : List Name) (key : Name) (x : Item) : Prop :=
  ∃ base n, itemKey kw x.sn = some base ∧ 1 ≤ n ∧ key = cand base n

/-- **the invariant of C16** -/
structure Inv (env : Env) (s : State) : Prop where
  /-- names ↔ list occurrences, one to one: the named objects are exactly the list's objects, with
      multiplicity (an object that occurs twice has two names) -/
  perm : (s.names.map (·.2)).Perm s.items
  /-- keys pairwise distinct -/
  keysNodup : (s.names.map (·.1)).Nodup
  /-- every key is its item's short name made identifier-safe and unique -/
  shape : ∀ kv ∈ s.names, IsKeyFor env.kw kv.1 kv.2
  /-- no key shadows an attribute of the list object -/
  notReserved : ∀ kv ∈ s.names, kv.1 ∉ env.reserved

end OdxVerif.Nil
