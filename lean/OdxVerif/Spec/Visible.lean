import OdxVerif.Model.Inherit
/-! # Specification of ODX value inheritance (ISO 22901-1 §7.3.2.4; property C09)

Only the vocabulary (`Layer`, `Obj`, the priority of a layer kind) is shared with the model.

* An ECU-SHARED-DATA layer shows its local objects only (it is never a child).
* Every other layer shows, for a short name `n`,
  - its local object named `n` if there is one;
  - otherwise the object named `n` offered by the parent(s) of highest priority among the parents that
    offer one. A parent *offers* what it shows itself, except the names listed as NOT-INHERITED on the
    reference to it.
* The hierarchy is *in conflict* if some layer in it has a short name that is not defined locally and
  for which two offers of highest priority are different objects.

`List`-valued helper functions exist only because `Layer` is a nested inductive type. -/
namespace OdxVerif.Inherit
open OdxVerif.Gen (LayerKind)

/-- the order ODX puts on layer types for value inheritance (ISO 22901-1 §7.3.2.4): a protocol is
    overridden by a functional group, that by a base variant, that by an ECU variant; objects of an
    ECU-SHARED-DATA layer override those of all other parents. Written down here independently of the
    table in `diaglayertype.py`; `C09_priority_table` states that the two agree. -/
def odxRank : LayerKind → Nat
  | .protocol => 0
  | .functionalGroup => 1
  | .baseVariant => 2
  | .ecuVariant => 3
  | .ecuSharedData => 4

/-- an object offered by a parent of the given type -/
structure Offer where
  kind : LayerKind
  obj : Obj
deriving DecidableEq, Repr

/-- the offers no other offer beats (`pr` ranks the layer types) -/
def topOffers (pr : LayerKind → Nat) (os : List Offer) : List Offer :=
  os.filter fun a => os.all fun b => pr b.kind ≤ pr a.kind

/-- two offers of highest priority are different objects -/
def clash (pr : LayerKind → Nat) (os : List Offer) : Bool :=
  (topOffers pr os).any fun a => (topOffers pr os).any fun b => a.obj ≠ b.obj

def localObj (locals : List Obj) (n : Name) : Option Obj := locals.find? fun o => o.name = n

/-- lookup by short name in a computed view (`NamedItemList` access) -/
def lookup (objs : List Obj) (n : Name) : Option Obj := objs.find? fun o => o.name = n

variable (pr : LayerKind → Nat)

mutual
/-- the object named `n` that layer `L` shows -/
def visible : Layer → Name → Option Obj
  | .mk _ kind locals parents, n =>
    match localObj locals n with
    | some o => some o
    | none =>
      if kind = .ecuSharedData then none
      else ((topOffers pr (offersOf parents n)).head?).map (·.obj)
/-- what the referenced parents offer for the name `n`, in declaration order -/
def offersOf : List (Layer × List Name) → Name → List Offer
  | [], _ => []
  | (p, notInherited) :: rest, n =>
    (if notInherited.contains n then []
     else match visible p n with
       | some o => [⟨p.kind, o⟩]
       | none => []) ++ offersOf rest n
end

mutual
/-- every short name defined anywhere in the hierarchy -/
def allNames : Layer → List Name
  | .mk _ _ locals parents => locals.map (·.name) ++ allNamesIn parents
def allNamesIn : List (Layer × List Name) → List Name
  | [] => []
  | (p, _) :: rest => allNames p ++ allNamesIn rest
end

/-- layer `L` itself cannot settle the name `n` -/
def conflictAt (L : Layer) (n : Name) : Bool :=
  L.kind ≠ .ecuSharedData && (localObj L.locals n).isNone && clash pr (offersOf pr L.parents n)

mutual
/-- some layer of the hierarchy has an unsettled name -/
def conflict : Layer → Bool
  | .mk _ kind locals parents =>
    if kind = .ecuSharedData then false
    else conflictIn parents ||
      (allNamesIn parents).any fun n => (localObj locals n).isNone && clash pr (offersOf pr parents n)
def conflictIn : List (Layer × List Name) → Bool
  | [] => false
  | (p, _) :: rest => conflict p || conflictIn rest
end

mutual
/-- well-formed hierarchies: short names are unique among the local objects of each layer
    (ODX: short names are unique within their name space) -/
def WF : Layer → Prop
  | .mk _ _ locals parents => (locals.map (·.name)).Nodup ∧ WFIn parents
def WFIn : List (Layer × List Name) → Prop
  | [] => True
  | (p, _) :: rest => WF p ∧ WFIn rest
end

mutual
/-- executable form of `WF` (`wfB_iff` in `Proofs/Inherit.lean`) -/
def wfB : Layer → Bool
  | .mk _ _ locals parents => decide (locals.map (·.name)).Nodup && wfInB parents
def wfInB : List (Layer × List Name) → Bool
  | [] => true
  | (p, _) :: rest => wfB p && wfInB rest
end

end OdxVerif.Inherit
