import OdxVerif.Model.Variant
/-! Specification of variant identification (property C14). It shares only the *vocabulary* with the model
    (value universe `PVal`, the renderings `str()`, `hex()`, the candidate descriptions); it has no matcher
    state, no cache, no request loop, no short-circuiting and no exceptions. Core Lean only.

    "A candidate matches" = it has a pattern all of whose matching parameters match; a matching parameter
    matches when its expected value equals one of the values found at its SNREF/SNPATHREF target in a value
    tree decoded from the ECU's answer to the parameter's identification request. -/
namespace OdxVerif.Variant.Spec

/-- a table-struct pair `(row, value)` stands for its value -/
def unpair : PVal → PVal
  | .tuple _ [_, b] => b
  | v => v

/-- a field stands for each of its items -/
def items : PVal → List PVal
  | .list _ xs => xs
  | v => [v]

/-- all values found at a short-name path below `v` (structure member → pair value → any field item) -/
def leaves : List Str → PVal → List PVal
  | [], v => [v]
  | c :: rest, .dict kv =>
    match kv.lookup c with
    | none => []
    | some .none => []
    | some sub => (items (unpair sub)).flatMap (leaves rest)
  | _ :: _, _ => []

/-- "expected value equals the decoded value": text of the value; upper-case hex for bytes and DTCs;
    a structure is never equal to a text -/
def leafEq (expected : Str) : PVal → Bool
  | .dict _ => false
  | .bytes b => hexUpper b == upper expected
  | .dtc c => pyHexUpper c == upper expected
  | v => expected == pyStr v

/-- the target path of a matching parameter: the SNREF is one step, the SNPATHREF is split at the dots -/
def path? (p : MParam) : Option (List Str) :=
  match p.snref, p.snpathref with
  | some r, _ => some [r]
  | none, some pr => some (splitOn 46 pr)
  | none, none => none

def valueMatches (p : MParam) (v : PVal) : Bool :=
  match path? p with
  | none => false
  | some path => (leaves path v).any (leafEq p.expected)

/-- the identification request of a parameter for a candidate: the first service of that name, if it can
    be encoded, with the parameter's addressing mode -/
def identRequest? (v : Variant) (p : MParam) : Option (Service × Req) :=
  match v.services.find? (fun s => s.name == p.svc) with
  | none => none
  | some svc => match svc.req with
    | .error _ => none
    | .ok rb => some (svc, (p.phys, rb))

def paramMatches (ecu : Req → Bytes) (v : Variant) (p : MParam) : Bool :=
  match identRequest? v p with
  | none => false
  | some (svc, r) => (svc.decode (ecu r)).any fun
    | .val x => valueMatches p x
    | _ => false

def variantMatches (ecu : Req → Bytes) (v : Variant) : Bool :=
  (v.patterns?.getD []).any fun pat => pat.all (paramMatches ecu v)

/-- the identified variant: position of the first matching candidate -/
def identify (ecu : Req → Bytes) (cands : List Variant) : Option Nat :=
  cands.findIdx? (variantMatches ecu)

/-- `r` is an identification request of one of the candidates -/
def IsIdentRequest (cands : List Variant) (r : Req) : Prop :=
  ∃ v ∈ cands, ∃ pat ∈ v.patterns?.getD [], ∃ p ∈ pat, ∃ svc, identRequest? v p = some (svc, r)

/-- every candidate is an ECU variant or a base variant -/
def AllVariants (cands : List Variant) : Prop := ∀ v ∈ cands, v.patterns?.isSome = true

/-- nothing in the candidate descriptions can raise (in non-strict mode): every matching parameter's
    identification service exists, its request can be encoded, and decoding a response either succeeds
    or fails with `DecodeError` -/
def Tame (cands : List Variant) : Prop :=
  ∀ v ∈ cands, ∀ pat ∈ v.patterns?.getD [], ∀ p ∈ pat,
    ∃ svc rb, v.services.find? (fun s => s.name == p.svc) = some svc ∧ svc.req = .ok rb ∧
      ∀ resp, ∀ o ∈ svc.decode resp, ∀ e, o ≠ .raises e

end OdxVerif.Variant.Spec
