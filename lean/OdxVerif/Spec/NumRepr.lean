import OdxVerif.Model.Atomic
/-! ODX number representations as mathematics (ASAM MCD-2 D §7.3.6.3): what bit pattern represents which
    integer. No implementation devices. Core Lean only. -/
namespace OdxVerif.Spec
open OdxVerif.Codec

/-- the `bl`-bit pattern (as a natural number) representing the integer `v` -/
def repr (enc : Option Enc) (bl : Nat) (v : Int) : Nat :=
  if enc = some .onec then (if v ≥ 0 then v.toNat else 2 ^ bl - 1 - v.natAbs)          -- complement of |v|
  else if enc = some .sm then (if v ≥ 0 then v.toNat else 2 ^ (bl - 1) + v.natAbs)     -- sign bit + magnitude
  else (v % 2 ^ bl).toNat                                                               -- two's complement

/-- the integers representable in `bl` bits -/
def representable (enc : Option Enc) (bl : Nat) (v : Int) : Prop :=
  if enc = none ∨ enc = some .twoc then -(2 ^ (bl - 1) : Int) ≤ v ∧ v < 2 ^ (bl - 1)
  else -(2 ^ (bl - 1) : Int) < v ∧ v < 2 ^ (bl - 1)

end OdxVerif.Spec
