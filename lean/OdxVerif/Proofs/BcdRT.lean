import OdxVerif.Model.Bits
/-! Packed / unpacked BCD (`BCD-P`, `BCD-UP`) of `A_UINT32`: `bcdDec` inverts `bcdEnc` on every natural number
    (decimal digit `d_i` in bits `[shift*i, shift*i + 4)`, `shift` = 4 or 8). Core Lean only. -/
namespace OdxVerif.Bits

theorem bcdEnc_zero (shift fuel : Nat) : bcdEnc shift fuel 0 = 0 := by
  cases fuel <;> simp [bcdEnc]

theorem bcdDec_zero (shift fuel : Nat) : bcdDec shift fuel 0 = 0 := by
  cases fuel <;> simp [bcdDec]

/-- decoding the BCD form of `v` gives `v` again, for every fuel that covers the recursion (the model uses `v` itself) -/
theorem bcdDec_bcdEnc (shift : Nat) (hs : shift = 4 ∨ shift = 8) (v : Nat) :
    ∀ (fuel1 fuel2 : Nat), v ≤ fuel1 → bcdEnc shift fuel1 v ≤ fuel2 →
      bcdDec shift fuel2 (bcdEnc shift fuel1 v) = v := by
  induction v using Nat.strongRecOn with
  | _ v ih =>
    intro fuel1 fuel2 h1 h2
    by_cases hv : v = 0
    · subst hv
      rw [bcdEnc_zero, bcdDec_zero]
    · obtain ⟨f1, rfl⟩ : ∃ f1, fuel1 = f1 + 1 := ⟨fuel1 - 1, by omega⟩
      simp only [bcdEnc, hv, if_false] at h2 ⊢
      generalize hE : bcdEnc shift f1 (v / 10) = E at h2 ⊢
      have ihE : ∀ fuel2, E ≤ fuel2 → bcdDec shift fuel2 E = v / 10 := by
        intro fuel2 hf
        rw [← hE]
        exact ih (v / 10) (by omega) f1 fuel2 (by omega) (by rw [hE]; exact hf)
      rcases hs with rfl | rfl
      · by_cases hr : v % 10 + E * 2 ^ 4 = 0
        · have hE0 : E = 0 := by omega
          have := ihE 0 (by omega)
          rw [hE0, bcdDec_zero] at this
          omega
        · obtain ⟨f2, rfl⟩ : ∃ f2, fuel2 = f2 + 1 := ⟨fuel2 - 1, by omega⟩
          simp only [bcdDec, hr, if_false]
          have e1 : (v % 10 + E * 2 ^ 4) % 16 = v % 10 := by omega
          have e2 : (v % 10 + E * 2 ^ 4) / 2 ^ 4 = E := by omega
          rw [e1, e2, ihE f2 (by omega)]
          omega
      · by_cases hr : v % 10 + E * 2 ^ 8 = 0
        · have hE0 : E = 0 := by omega
          have := ihE 0 (by omega)
          rw [hE0, bcdDec_zero] at this
          omega
        · obtain ⟨f2, rfl⟩ : ∃ f2, fuel2 = f2 + 1 := ⟨fuel2 - 1, by omega⟩
          simp only [bcdDec, hr, if_false]
          have e1 : (v % 10 + E * 2 ^ 8) % 16 = v % 10 := by omega
          have e2 : (v % 10 + E * 2 ^ 8) / 2 ^ 8 = E := by omega
          rw [e1, e2, ihE f2 (by omega)]
          omega

/-- **BCD round trip** with the fuels the model uses -/
theorem bcd_roundtrip (shift : Nat) (hs : shift = 4 ∨ shift = 8) (a : Nat) :
    bcdDec shift (bcdEnc shift a a) (bcdEnc shift a a) = a :=
  bcdDec_bcdEnc shift hs a a _ (Nat.le_refl _) (Nat.le_refl _)

/-- what "BCD" means: decimal digit `i` of `v` sits in group `i` (bits `[shift·i, shift·i + shift)`) -/
theorem bcdEnc_digit (shift : Nat) (hs : shift = 4 ∨ shift = 8) (i : Nat) :
    ∀ (v fuel : Nat), v ≤ fuel → bcdEnc shift fuel v / 2 ^ (shift * i) % 2 ^ shift = v / 10 ^ i % 10 := by
  induction i with
  | zero =>
    intro v fuel hf
    by_cases hv : v = 0
    · subst hv; rw [bcdEnc_zero]; simp
    · obtain ⟨f, rfl⟩ : ∃ f, fuel = f + 1 := ⟨fuel - 1, by omega⟩
      simp only [bcdEnc, hv, if_false, Nat.mul_zero, Nat.pow_zero, Nat.div_one]
      generalize bcdEnc shift f (v / 10) = E
      rcases hs with rfl | rfl <;> omega
  | succ i ih =>
    intro v fuel hf
    by_cases hv : v = 0
    · subst hv; rw [bcdEnc_zero]; simp
    · obtain ⟨f, rfl⟩ : ∃ f, fuel = f + 1 := ⟨fuel - 1, by omega⟩
      have e1 : 2 ^ (shift * (i + 1)) = 2 ^ shift * 2 ^ (shift * i) := by rw [Nat.mul_succ, Nat.add_comm, Nat.pow_add]
      have e2 : (10 : Nat) ^ (i + 1) = 10 * 10 ^ i := by rw [Nat.pow_succ, Nat.mul_comm]
      rw [e1, e2, ← Nat.div_div_eq_div_mul, ← Nat.div_div_eq_div_mul, ← ih (v / 10) f (by omega)]
      simp only [bcdEnc, hv, if_false]
      generalize bcdEnc shift f (v / 10) = E
      have : (v % 10 + E * 2 ^ shift) / 2 ^ shift = E := by
        rcases hs with rfl | rfl <;> omega
      rw [this]

end OdxVerif.Bits
