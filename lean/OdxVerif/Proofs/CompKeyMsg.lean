import OdxVerif.Proofs.CompKeyItems
/-! LENGTH-KEY / PARAM-LENGTH-INFO-TYPE (task W13): the round trip.
    * `KItems.decPre_intro` — the state-passing induction over the first pass: on a message that agrees with the result of
      BOTH passes on the claimed bits, every item's decoder precondition holds (a key's cell holds its value — that is
      what the second pass wrote into the bits nobody claimed; the dictionary knows a user's key — the key is listed
      before it; a component that needs the end of the PDU is the last one).  The rest of the run is an arbitrary
      *framing* continuation `K`.
    * `kitems_roundtrip_msg` — at the API level of the model: strict `encode` returns `(pdu, 0)` ⇒ strict `decode pdu`
      returns the completed value dictionary (the keys with the bit lengths). -/
set_option linter.unusedSimpArgs false
set_option linter.unusedVariables false
namespace OdxVerif.Codec
open OdxVerif.Bits OdxVerif.OdxM

/-- one step of the key bookkeeping on the decoding side -/
theorem KItem.refs_step (W : String → Option Int) (it : KItem) (its : List KItem) (hok : it.ok W) (seen known : List String)
    (h : KItems.refsOk W seen known (it :: its)) (d : DecState) (hcb : d.cursorBit = 0) (hfit : it.toComp.pair.fits d)
    (hpre : it.toComp.decPre d) (hseen : ∀ n ∈ seen, lookup n d.lengthKeys = W n) :
    ∃ seen' known', KItems.refsOk W seen' known' its ∧ (∀ n ∈ seen', lookup n (it.toComp.pair.dec d).2.lengthKeys = W n) := by
  cases it with
  | comp g nm =>
    refine ⟨seen, known, h, ?_⟩
    intro n hn
    exact Comp.KOk.dec_keys hok d hcb hfit hpre n (hseen n hn)
  | key kd o v i b =>
    refine ⟨o.name :: seen, _, h.2, ?_⟩
    intro n hn
    show lookup n (insertKV o.name v d.lengthKeys) = W n
    by_cases hne : n = o.name
    · subst hne; rw [lookup_insertKV_self, h.1]
    · rw [lookup_insertKV_ne _ _ _ _ hne]
      cases hn with
      | head => exact absurd rfl hne
      | tail _ hm => exact hseen n hm
  | user u => exact ⟨seen, _, h.2.2, fun n hn => hseen n hn⟩
  | ouser o v key => exact ⟨seen, _, h.2.2.2, fun n hn => hseen n hn⟩

/-- what the dictionary says about the key of a user when the decoder reaches it -/
theorem KItem.ref_known (W : String → Option Int) (it : KItem) (its : List KItem) (seen known : List String)
    (h : KItems.refsOk W seen known (it :: its)) (d : DecState) (hseen : ∀ n ∈ seen, lookup n d.lengthKeys = W n)
    (k : String) (b : Int) (hr : it.ref = some (k, b)) : lookup k d.lengthKeys = some b := by
  cases it with
  | comp g nm => cases hr
  | key kd o v i b' => cases hr
  | user u =>
    simp only [KItem.ref, Option.some.injEq, Prod.mk.injEq] at hr
    rw [← hr.1, ← hr.2, hseen _ h.1, h.2.1]
  | ouser o v key =>
    simp only [KItem.ref, Option.some.injEq, Prod.mk.injEq] at hr
    rw [← hr.1, ← hr.2, hseen _ h.1, h.2.1]

/-- **the decoder preconditions from the two passes** -/
theorem KItems.decPre_intro (W : String → Option Int) : (its : List KItem) → (∀ it ∈ its, it.ok W) →
    Comps.eopLast (KItems.comps its) → ∀ (K : EncState → EncState), Framing K → ∀ (seen known : List String),
    KItems.refsOk W seen known its → ∀ (s : EncState) (d : DecState), AllBytes s.msg →
    (K ((Comps.pair (KItems.comps its)).enc s)).warn = s.warn → d.origin = s.origin → d.cursorByte = s.cursorByte →
    d.cursorBit = 0 → AllBytes d.msg → (K ((Comps.pair (KItems.comps its)).enc s)).msg.length ≤ d.msg.length →
    (∀ a, getBit (K ((Comps.pair (KItems.comps its)).enc s)).used a = true →
      getBit d.msg a = getBit (K ((Comps.pair (KItems.comps its)).enc s)).msg a) →
    (∀ c ∈ KItems.cells its s, c.holds d.msg) → (∀ n ∈ seen, lookup n d.lengthKeys = W n) →
    (Comps.anyEop (KItems.comps its) = true → ((Comps.pair (KItems.comps its)).dec d).2.cursorByte = d.msg.length) →
    Comps.decPre (KItems.comps its) d
  | [], _, _, _, _, _, _, _, _, _, _, _, _, _, _, _, _, _, _, _, _ => trivial
  | it :: its, hok, hlast, K, hK, seen, known, hrefs, s, d, hall, hw, horig, hcur, hcb, hdall, hlen, hagree, hcells, hseen, heop => by
    have hokit := hok it (List.mem_cons_self ..)
    have hokr : ∀ x ∈ its, x.ok W := fun x hx => hok x (List.mem_cons_of_mem _ hx)
    have hgood := it.good hokit
    have hgoodr := KItems.good its hokr
    rw [KItems.comps_cons] at hlast
    have hlastr := Comps.eopLast_tail _ _ hlast
    have hK' : Framing (fun t => K ((Comps.pair (KItems.comps its)).enc t)) := hK.comp (Framing.ofGood hgoodr)
    have hw' : (K ((Comps.pair (KItems.comps its)).enc (it.toComp.pair.enc s))).warn = s.warn := hw
    have hlen' : (K ((Comps.pair (KItems.comps its)).enc (it.toComp.pair.enc s))).msg.length ≤ d.msg.length := hlen
    have hagree' : ∀ a, getBit (K ((Comps.pair (KItems.comps its)).enc (it.toComp.pair.enc s))).used a = true →
        getBit d.msg a = getBit (K ((Comps.pair (KItems.comps its)).enc (it.toComp.pair.enc s))).msg a := hagree
    have h1 := hgood.warn_mono s
    have h2 := hK'.warn_mono (it.toComp.pair.enc s)
    have hwp : (it.toComp.pair.enc s).warn = s.warn := by
      have : (K ((Comps.pair (KItems.comps its)).enc (it.toComp.pair.enc s))).warn = s.warn := hw'
      have h2' : (it.toComp.pair.enc s).warn ≤ (K ((Comps.pair (KItems.comps its)).enc (it.toComp.pair.enc s))).warn := h2
      omega
    have hwK : (K ((Comps.pair (KItems.comps its)).enc (it.toComp.pair.enc s))).warn = (it.toComp.pair.enc s).warn := by
      rw [hw', hwp]
    have hagreeP : ∀ a, getBit (it.toComp.pair.enc s).used a = true → getBit d.msg a = getBit (it.toComp.pair.enc s).msg a := by
      intro a ha
      obtain ⟨m, u⟩ := hK'.frame (it.toComp.pair.enc s) hwK a ha
      rw [← m]; exact hagree' a u
    have hlenP : (it.toComp.pair.enc s).msg.length ≤ d.msg.length :=
      Nat.le_trans (hK'.len_mono (it.toComp.pair.enc s)) hlen'
    obtain ⟨hv, hcur1, horg1, hmsg1, hfit1⟩ := hgood.rt s d hall hwp horig hcur hdall hlenP hagreeP
    have heop' : Comps.anyEop (it.toComp :: KItems.comps its) = true →
        ((Comps.pair (KItems.comps its)).dec (it.toComp.pair.dec d).2).2.cursorByte = d.msg.length := heop
    have href := it.ref_known W its seen known hrefs d hseen
    have hhead : it.toComp.decPre d := by
      -- the head
      cases it with
      | comp g nm =>
        have hgok : g.KOk W nm := hokit
        show g.decPre d
        refine hgok.pre_intro _ hK' s d hall hw' horig hcur hcb hdall hlen' hagree' ?_
        intro he
        cases hc : KItems.comps its with
        | nil =>
          have := heop' (by simp [Comps.anyEop, KItem.toComp, he])
          rw [hc] at this
          exact this
        | cons g2 rest2 =>
          rw [hc] at hlast
          have := hlast.1
          simp only [KItem.toComp] at this
          rw [this] at he; cases he
      | key kd o v i b =>
        show (decStep o d).1 = .int i
        have := (hcells (o, i, o.pos s.origin s.cursorByte) (by simp [KItems.cells, KItem.cell])).2
        simp only [decStep, horig, hcur]
        exact this
      | user u => exact href _ _ rfl
      | ouser o v key => exact href _ _ rfl
    obtain ⟨seen', known', hrefs', hseen'⟩ := it.refs_step W its hokit seen known hrefs d hcb hfit1 hhead hseen
    refine ⟨hhead, ?_⟩
    · -- the rest
      apply KItems.decPre_intro W its hokr hlastr K hK seen' known' hrefs' (it.toComp.pair.enc s) (it.toComp.pair.dec d).2
        (hgood.allBytes s hall) hwK (by rw [horg1, horig, hgood.origin]) hcur1
        ((it.decOk hokit).dec_cursorBit d hcb) (by rw [hmsg1]; exact hdall)
        (by rw [hmsg1]; exact hlen') (by rw [hmsg1]; exact hagree')
      · intro c hc
        rw [hmsg1]
        exact hcells c (by simp only [KItems.cells, List.mem_append]; exact Or.inr hc)
      · exact hseen'
      · intro hany
        rw [hmsg1]
        exact heop' (by simp only [Comps.anyEop, List.any_cons] at hany ⊢; simp [hany])

/-- every key of the list has a cell -/
theorem KItems.cells_of_key : (its : List KItem) → (s : EncState) → ∀ kd o v i b, KItem.key kd o v i b ∈ its →
    ∃ pos, (o, i, pos) ∈ KItems.cells its s
  | [], _, _, _, _, _, _, h => by cases h
  | it :: its, s, kd, o, v, i, b, h => by
    cases h with
    | head => exact ⟨o.pos s.origin s.cursorByte, by simp [KItems.cells, KItem.cell]⟩
    | tail _ hm =>
      obtain ⟨pos, hp⟩ := KItems.cells_of_key its (it.toComp.pair.enc s) kd o v i b hm
      exact ⟨pos, by simp only [KItems.cells, List.mem_append]; exact Or.inr hp⟩

/-- after the first pass every key of the list has its value and its recorded position -/
theorem KItems.keys_ready {W : String → Option Int} (its : List KItem) (hrefs : KItems.refsOk W [] [] its)
    (hcov : KItems.covered its) (s s1 : EncState) (hp1 : Pass1 W its s s1) : ∀ kd o v i b, KItem.key kd o v i b ∈ its →
      lookup o.name s1.lengthKeys = some v ∧ (lookup o.name s1.keyPos).isSome = true := by
  intro kd o v i b hm
  constructor
  · cases b with
    | true => exact hp1.supplied kd o v i hm
    | false =>
      obtain ⟨it, hit, b, hb⟩ := hcov kd o v i hm
      have h1 := hp1.used it hit _ _ hb
      have h2 := KItems.refsOk_key W [] [] its hrefs kd o v i false hm
      have h3 := KItems.refsOk_ref W [] [] its hrefs it hit _ _ hb
      rw [h2] at h3
      rw [h1, Option.some.inj h3]
  · obtain ⟨pos, hpos⟩ := KItems.cells_of_key its s kd o v i b hm
    rw [hp1.pos _ hpos]; rfl

theorem KItems.need_ge (its : List KItem) : its.length + 1 ≤ Comps.need (KItems.comps its) := by
  have := Comps.need_ge (KItems.comps its)
  simp only [KItems.comps, List.length_map] at this
  exact this

/-- `Request.encode` on a list of items = the two pure passes from the empty message -/
theorem encodeMessage_kitems (W : String → Option Int) (its : List KItem) (hneed : Comps.need (KItems.comps its) + 2 ≤ modelFuel)
    (hok : ∀ it ∈ its, it.ok W) (hlast : Comps.eopLast (KItems.comps its)) (hn : Comps.namesOk (KItems.comps its))
    (hap : KItems.apart its) (hrefs : KItems.refsOk W [] [] its) (hcov : KItems.covered its) (trig : Option Bytes) :
    ∃ s0 : EncState, s0.msg = [] ∧ s0.used = [] ∧ s0.warn = 0 ∧ s0.cursorByte = 0 ∧ s0.origin = 0 ∧
      encodeMessage none (Comps.toParams (KItems.comps its)) (.dict (Comps.values (KItems.comps its))) trig true =
        .ok ((enc2 (KItems.cells its s0) ((Comps.pair (KItems.comps its)).enc s0)).msg,
             (enc2 (KItems.cells its s0) ((Comps.pair (KItems.comps its)).enc s0)).warn) := by
  let s0 : EncState := { trig := trig, isEndOfPdu := false }
  refine ⟨s0, rfl, rfl, rfl, rfl, rfl, ?_⟩
  obtain ⟨f, hf⟩ : ∃ f, modelFuel = f + 1 + 1 := ⟨modelFuel - 2, by unfold modelFuel; omega⟩
  have hf' : Comps.need (KItems.comps its) ≤ f := by omega
  obtain ⟨s1, hrun1, hp1⟩ := KItems.encode1 W its hok hlast hap [] [] hrefs (Comps.values (KItems.comps its))
    (fun g hg => KItems.lookupV_values its hok hn g hg) f hf' true (fun _ => rfl) s0 (fun n x h => by cases h)
    (fun n h => by cases h)
  -- every key has its value and its position
  have hkeys : ∀ kd o v i b, KItem.key kd o v i b ∈ its →
      lookup o.name ({ s1 with isEndOfPdu := false } : EncState).lengthKeys = some v ∧
      (lookup o.name ({ s1 with isEndOfPdu := false } : EncState).keyPos).isSome = true :=
    KItems.keys_ready its hrefs hcov s0 s1 hp1
  have hrun2 := KItems.encode2 its hok f hf' { s1 with isEndOfPdu := false } hkeys
  have hcs : KItems.cells2 ({ s1 with isEndOfPdu := false } : EncState).keyPos its = KItems.cells its s0 :=
    KItems.cells2_eq s1.keyPos its s0 hp1.pos
  rw [hcs] at hrun2
  have hcore : SameCore (enc2 (KItems.cells its s0) { s1 with isEndOfPdu := false })
      (enc2 (KItems.cells its s0) ((Comps.pair (KItems.comps its)).enc s0)) :=
    enc2_sameCore _ _ _ ⟨hp1.core.1, hp1.core.2.1, hp1.core.2.2.1, hp1.core.2.2.2.1, hp1.core.2.2.2.2⟩
  have hrun1' : encodeParams true (Comps.values (KItems.comps its)) f (Comps.toParams (KItems.comps its))
      { trig := trig, isEndOfPdu := false } true = .ok ((), s1) := hrun1
  unfold encodeMessage
  rw [hf]
  simp only [encodeDop, encodeComposite, bind, pure, run_bind, run_getS, run_modifyS, run_pure, run_ite,
    Comps.known_values, Bool.false_eq_true, if_false, ne_eq, not_true_eq_false]
  rw [hrun1']
  simp only []
  rw [hrun2]
  simp only [hcore.1, hcore.2.2.1]

/-- `Request.decode` on a list of items = the pure decoder from cursor 0 -/
theorem decodeMessage_kitems (its : List KItem) (hneed : Comps.need (KItems.comps its) + 2 ≤ modelFuel)
    (hok : ∀ it ∈ its, it.ok W) (msg : Bytes) (hfit : (Comps.pair (KItems.comps its)).fits { msg := msg })
    (hpre : Comps.decPre (KItems.comps its) { msg := msg }) :
    decodeMessage none (Comps.toParams (KItems.comps its)) msg true =
      .ok (.dict ((Comps.pair (KItems.comps its)).dec { msg := msg }).1,
           ((Comps.pair (KItems.comps its)).dec { msg := msg }).2.cursorByte) := by
  obtain ⟨f, hf⟩ : ∃ f, modelFuel = f + 1 + 1 := ⟨modelFuel - 2, by unfold modelFuel; omega⟩
  have hf' : Comps.need (KItems.comps its) ≤ f := by omega
  have hdec := KItems.decode_eq its hok f hf' { msg := msg } rfl hfit hpre
  have hdec' : decodeParams f (Comps.toParams (KItems.comps its)) { msg := msg, origin := 0, cursorByte := 0 } true = _ := hdec
  unfold decodeMessage
  rw [hf]
  simp only [decodeDop, decodeComposite, bind, pure, run_bind, run_getS, run_modifyS, run_pure]
  rw [hdec']

/-- **the round trip at the API level of the model for a request / response / structure with LENGTH-KEY parameters**: the
    parameters are components that do not touch the key dictionaries, LENGTH-KEY parameters (unsigned, standard length,
    identical compu method, any byte / bit position) and VALUE parameters over PARAM-LENGTH-INFO-TYPE byte fields / strings,
    each referring to a key of the same structure that is listed before it.  The dictionary handed to the encoder holds the
    users' values and, for the keys, the bit length or nothing; the decoded dictionary holds every key with the bit length. -/
theorem kitems_roundtrip_msg (W : String → Option Int) (its : List KItem) (hneed : Comps.need (KItems.comps its) + 2 ≤ modelFuel)
    (hok : ∀ it ∈ its, it.ok W) (hlast : Comps.eopLast (KItems.comps its)) (hn : Comps.namesOk (KItems.comps its))
    (hap : KItems.apart its) (hrefs : KItems.refsOk W [] [] its) (hcov : KItems.covered its) (trig : Option Bytes) (pdu : Bytes)
    (hend : Comps.anyEop (KItems.comps its) = true → ((Comps.pair (KItems.comps its)).enc {}).cursorByte = pdu.length)
    (henc : encodeMessage none (Comps.toParams (KItems.comps its)) (.dict (Comps.values (KItems.comps its))) trig true
      = .ok (pdu, 0)) :
    ∃ cursor, decodeMessage none (Comps.toParams (KItems.comps its)) pdu true =
      .ok (.dict (Comps.pair (KItems.comps its)).val, cursor) := by
  obtain ⟨s0, hm, hu, hw0, hc, ho, hrun⟩ := encodeMessage_kitems W its hneed hok hlast hn hap hrefs hcov trig
  rw [hrun] at henc
  simp only [Except.ok.injEq, Prod.mk.injEq] at henc
  obtain ⟨hpdu, hwarn⟩ := henc
  have hg := KItems.good its hok
  have hall : AllBytes s0.msg := by rw [hm]; intro b hb; cases hb
  have hall1 := hg.allBytes s0 hall
  have hF := Framing.enc2 (KItems.cells its s0)
  -- no step of either pass warned
  have hw1 := hg.warn_mono s0
  have hw2 := hF.warn_mono ((Comps.pair (KItems.comps its)).enc s0)
  have hwP : ((Comps.pair (KItems.comps its)).enc s0).warn = s0.warn := by omega
  have hwF : (enc2 (KItems.cells its s0) ((Comps.pair (KItems.comps its)).enc s0)).warn =
      ((Comps.pair (KItems.comps its)).enc s0).warn := by omega
  have hwF0 : (enc2 (KItems.cells its s0) ((Comps.pair (KItems.comps its)).enc s0)).warn = s0.warn := by omega
  have hdall : AllBytes pdu := by rw [← hpdu]; exact enc2_allBytes _ _ hall1
  have hagreeF : ∀ a, getBit (enc2 (KItems.cells its s0) ((Comps.pair (KItems.comps its)).enc s0)).used a = true →
      getBit pdu a = getBit (enc2 (KItems.cells its s0) ((Comps.pair (KItems.comps its)).enc s0)).msg a := by
    intro a _; rw [hpdu]
  have hagreeP : ∀ a, getBit ((Comps.pair (KItems.comps its)).enc s0).used a = true →
      getBit pdu a = getBit ((Comps.pair (KItems.comps its)).enc s0).msg a := by
    intro a ha
    obtain ⟨m, u⟩ := hF.frame _ hwF a ha
    rw [← m, hpdu]
  have hlenP : ((Comps.pair (KItems.comps its)).enc s0).msg.length ≤ pdu.length := by
    rw [← hpdu]; exact hF.len_mono _
  obtain ⟨hv, hcur, _, _, hfit⟩ := hg.rt s0 { msg := pdu } hall hwP (by simp [ho]) (by simp [hc]) hdall hlenP hagreeP
  have hcells := enc2_cells (KItems.cells its s0) (KItems.cells_ok its hok s0) _ hall1 hwF pdu hdall
    (by rw [hpdu]; exact Nat.le_refl _) hagreeF
  have hcore0 : SameCore s0 {} := ⟨hm, hu, hw0, hc, ho⟩
  have hpre : Comps.decPre (KItems.comps its) { msg := pdu } := by
    apply KItems.decPre_intro W its hok hlast (enc2 (KItems.cells its s0)) hF [] [] hrefs s0 { msg := pdu } hall hwF0
      (by simp [ho]) (by simp [hc]) rfl hdall (by rw [hpdu]; exact Nat.le_refl _) hagreeF hcells (fun n h => by cases h)
    intro hany
    rw [hcur, (hg.core _ _ hcore0).2.2.2.1]
    exact hend hany
  refine ⟨((Comps.pair (KItems.comps its)).dec { msg := pdu }).2.cursorByte, ?_⟩
  rw [decodeMessage_kitems its hneed hok pdu hfit hpre, hv]

end OdxVerif.Codec
