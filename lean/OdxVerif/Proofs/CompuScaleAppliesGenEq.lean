import OdxVerif.Gen.CompuScaleApplies
import OdxVerif.Proofs.CompuLimitGenEq
/-! # The generated `CompuScale.applies` equals the hand-written `Scale.applies`

    `Gen/CompuScaleApplies.lean` is regenerated from `odxtools/compumethods/compuscale.py` (and `Limit.value` from `limit.py`)
    by `harness/extract/py2lean.py`: an `if / elif` chain over the two optional limits, two `assert`s, `==` on
    `AtomicOdxType` values (the model's `Val.pyEq`), and a short-circuit `and` whose operands are the GENERATED
    `complies_to_lower` / `complies_to_upper` (`Gen/CompuLimit.lean`, tied by `gen_compliesLower_eq` / `gen_compliesUpper_eq`). -/
namespace OdxVerif.Compu
open OdxVerif Py

@[simp] theorem unwrapAttr_some' {α : Type} (a : α) : unwrapAttr (some a) = pure a := rfl

/-- **Tie.** For every COMPU-SCALE and every value: the rendered source has the model's outcome — the same Boolean, or the
    exception class of the model's error; the `assert`s never fire and no `Optional` limit is used while `None` -/
theorem gen_scaleApplies_eq (s : Scale) (v : Val) :
    Gen.scaleAppliesE s v = Py.call Gen.errOfCompu (s.applies v) := by
  unfold Gen.scaleAppliesE Scale.applies Gen.limitValueE
  rcases hlo : s.lo with _ | l <;> rcases hhi : s.hi with _ | h
  · simp [py_rt] <;> rfl
  · cases hv : h.value <;> simp [py_rt, hv, Py.optEq] <;> rfl
  · cases hv : l.value <;> simp [py_rt, hv, Py.optEq] <;> rfl
  · simp only [gen_compliesLower_eq, gen_compliesUpper_eq]
    cases hl : l.compliesLower v with
    | error e => simp [py_rt, hl] <;> rfl
    | ok a =>
      cases a with
      | false => simp [py_rt, hl] <;> rfl
      | true =>
        cases hu : h.compliesUpper v with
        | error e => simp [py_rt, hl, hu] <;> rfl
        | ok b => cases b <;> simp [py_rt, hl, hu] <;> rfl

end OdxVerif.Compu
