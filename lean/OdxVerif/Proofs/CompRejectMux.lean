import OdxVerif.Proofs.CompRejectFields
/-! Compositional tier, rejection side (task W14, C04), closure of `DDesc.Ok` under MULTIPLEXER.  A multiplexer description
    `MuxDesc` lists ALL its cases with their content descriptions; the supplied value selects one of them in any of the ways
    `Multiplexer.encode_into_pdu` admits — `(case name, content)` (`PVal.pair`, or the one-entry dictionary `{name: content}`),
    `(switch key, content)` (`PVal.keyed`), `(None, content)` (`PVal.nokey` = the DEFAULT-CASE).  Accepted ⇔ a case is selected,
    the switch-key object can hold the key and the case's content description accepts the content; the decoder returns
    `(name of the selected case, completed content)`. -/
namespace OdxVerif.Codec
open OdxVerif.Bits OdxVerif.OdxM

structure MuxCaseDesc where
  name : String
  lo : Int
  up : Int
  d : DDesc                      -- the case's structure

def MuxCaseDesc.toD (c : MuxCaseDesc) : MuxCaseD := .mk c.name c.lo c.up (some c.d.dop)

def findCaseName (n : String) : List MuxCaseDesc → Option MuxCaseDesc
  | [] => none
  | c :: cs => if c.name = n then some c else findCaseName n cs

def findCaseKey (k : Int) : List MuxCaseDesc → Option MuxCaseDesc
  | [] => none
  | c :: cs => if c.lo ≤ k ∧ k ≤ c.up then some c else findCaseKey k cs

theorem caseOfName_map (n : String) (cs : List MuxCaseDesc) :
    caseOfName n (cs.map MuxCaseDesc.toD) = (findCaseName n cs).map MuxCaseDesc.toD := by
  induction cs with
  | nil => rfl
  | cons c cs ih =>
    simp only [List.map_cons, caseOfName, findCaseName]
    by_cases h : c.name = n
    · simp [h, MuxCaseDesc.toD, MuxCaseD.name]
    · simp only [MuxCaseDesc.toD, MuxCaseD.name, h, if_false]
      exact ih

theorem caseOfKey_map (k : Int) (cs : List MuxCaseDesc) :
    caseOfKey k (cs.map MuxCaseDesc.toD) = (findCaseKey k cs).map MuxCaseDesc.toD := by
  induction cs with
  | nil => rfl
  | cons c cs ih =>
    simp only [List.map_cons, caseOfKey, findCaseKey]
    by_cases h : c.lo ≤ k ∧ k ≤ c.up
    · simp [h, MuxCaseDesc.toD, MuxCaseD.lower, MuxCaseD.upper]
    · simp only [MuxCaseDesc.toD, MuxCaseD.lower, MuxCaseD.upper, h, if_false]
      exact ih

theorem findCaseName_mem (n : String) (cs : List MuxCaseDesc) (c : MuxCaseDesc) (h : findCaseName n cs = some c) :
    c ∈ cs ∧ c.name = n := by
  induction cs with
  | nil => cases h
  | cons x xs ih =>
    simp only [findCaseName] at h
    split at h
    · rename_i hx
      simp only [Option.some.injEq] at h
      subst h
      exact ⟨List.mem_cons_self .., hx⟩
    · exact ⟨List.mem_cons_of_mem _ (ih h).1, (ih h).2⟩

theorem findCaseKey_mem (k : Int) (cs : List MuxCaseDesc) (c : MuxCaseDesc) (h : findCaseKey k cs = some c) : c ∈ cs := by
  induction cs with
  | nil => cases h
  | cons x xs ih =>
    simp only [findCaseKey] at h
    split at h
    · simp only [Option.some.injEq] at h
      subst h
      exact List.mem_cons_self ..
    · exact List.mem_cons_of_mem _ (ih h)

structure MuxDesc where
  muxBp : Nat
  swBp : Nat
  key : Obj
  cases : List MuxCaseDesc
  dflt : Option (String × DDesc)

def MuxDesc.caseDs (m : MuxDesc) : List MuxCaseD := m.cases.map MuxCaseDesc.toD

def MuxDesc.dfltD (m : MuxDesc) : Option (String × Option Dop) :=
  match m.dflt with
  | some (n, d) => some (n, some d.dop)
  | none => none

def MuxDesc.layout (m : MuxDesc) (caseName : String) (lo : Int) : MuxLayout :=
  { muxBp := m.muxBp, swBp := m.swBp, key := m.key, cases := m.caseDs, dflt := m.dfltD, caseName := caseName, lo := lo }

def MuxDesc.keyObj (m : MuxDesc) : Obj := (m.layout "" 0).keyObj

def MuxDesc.dop (m : MuxDesc) : Dop := .mux m.muxBp m.swBp m.key.bitPos (m.layout "" 0).keyDop m.caseDs m.dfltD

/-- selection by case name -/
def MuxDesc.selName (m : MuxDesc) (name : String) (v : PVal) : Option (String × Int × DDesc × PVal) :=
  match findCaseName name m.cases with
  | some c => some (c.name, c.lo, c.d, v)
  | none =>
    match m.dflt with
    | some (dn, dd) => if dn = name then some (dn, defaultCaseKey m.caseDs, dd, v) else none
    | none => none

/-- the case a supplied value selects: (name of the case, switch key written, content description, content) -/
def MuxDesc.sel (m : MuxDesc) : PVal → Option (String × Int × DDesc × PVal)
  | .pair name v => m.selName name v
  | .dict [(name, v)] => m.selName name v
  | .keyed k v =>
    (match findCaseKey k m.cases with
     | some c => some (c.name, k, c.d, v)
     | none =>
       match m.dflt with
       | some (dn, dd) => some (dn, k, dd, v)
       | none => none)
  | .nokey v =>
    (match m.dflt with
     | some (dn, dd) => some (dn, defaultCaseKey m.caseDs, dd, v)
     | none => none)
  | _ => none

/-! ### unfoldings of the multiplexer encoder -/

/-- what the encoder does once a case with a structure is selected -/
def muxRun (f : Nat) (bp sbp : Nat) (sbit : Option Nat) (sd : Dop) (key : Int) (d : Dop) (v : PVal) (s : EncState) :
    Except (Err × EncState) (Unit × EncState) :=
  match encodeParam f (.mk "" (some sbp) sbit (.value sd none)) (some (.atom (.int key))) { s with origin := s.cursorByte } true with
  | .ok (_, s1) =>
    (match encodeParam f (.mk "" (some bp) none (.value d none)) (some v) s1 true with
     | .ok (_, s2) => .ok ((), { s2 with origin := s.origin })
     | .error e => .error e)
  | .error e => .error e

theorem encodeDop_mux_dict1 (f : Nat) (bp sbp : Nat) (sbit : Option Nat) (sd : Dop) (cases : List MuxCaseD)
    (dflt : Option (String × Option Dop)) (name : String) (v : PVal) (s : EncState) :
    encodeDop (f + 1) (.mux bp sbp sbit sd cases dflt) (.dict [(name, v)]) s true =
      encodeDop (f + 1) (.mux bp sbp sbit sd cases dflt) (.pair name v) s true := by
  simp only [encodeDop]

theorem encodeDop_mux_name_step (f : Nat) (bp sbp : Nat) (sbit : Option Nat) (sd : Dop) (cases : List MuxCaseD)
    (dflt : Option (String × Option Dop)) (name : String) (v : PVal) (s : EncState) (hcb : s.cursorBit = 0)
    (key : Int) (d : Dop)
    (hsel : (∃ c, caseOfName name cases = some c ∧ c.lower = key ∧ c.struct = some d) ∨
            (caseOfName name cases = none ∧ dflt = some (name, some d) ∧ key = defaultCaseKey cases)) :
    encodeDop (f + 1) (.mux bp sbp sbit sd cases dflt) (.pair name v) s true = muxRun f bp sbp sbit sd key d v s :=
  encodeDop_mux_step f bp sbp sbit sd cases dflt name v s hcb key d hsel

theorem encodeDop_mux_name_fail (f : Nat) (bp sbp : Nat) (sbit : Option Nat) (sd : Dop) (cases : List MuxCaseD)
    (dflt : Option (String × Option Dop)) (name : String) (v : PVal) (s : EncState) (hcb : s.cursorBit = 0)
    (hc : caseOfName name cases = none) (hd : dflt = none ∨ ∃ dn ds, dflt = some (dn, ds) ∧ dn ≠ name) :
    encodeDop (f + 1) (.mux bp sbp sbit sd cases dflt) (.pair name v) s true = .error (.encode, s) := by
  rcases hd with hd | ⟨dn, ds, hd, hne⟩
  · simp only [encodeDop, bind, run_bind, run_getS, run_ite, hcb, hc, hd, ne_eq, not_true_eq_false, if_false, run_raise]
  · simp only [encodeDop, bind, run_bind, run_getS, run_ite, hcb, hc, hd, hne, ne_eq, not_true_eq_false, if_false, run_raise]

theorem encodeDop_mux_keyed_step (f : Nat) (bp sbp : Nat) (sbit : Option Nat) (sd : Dop) (cases : List MuxCaseD)
    (dflt : Option (String × Option Dop)) (k : Int) (v : PVal) (s : EncState) (hcb : s.cursorBit = 0) (d : Dop)
    (hsel : (∃ c, caseOfKey k cases = some c ∧ c.struct = some d) ∨
            (caseOfKey k cases = none ∧ ∃ dn, dflt = some (dn, some d))) :
    encodeDop (f + 1) (.mux bp sbp sbit sd cases dflt) (.keyed k v) s true = muxRun f bp sbp sbit sd k d v s := by
  unfold muxRun
  rcases hsel with ⟨c, hc, hst⟩ | ⟨hc, dn, hd⟩
  · simp only [encodeDop, bind, run_bind, run_getS, run_modifyS, run_ite, hcb, hc, hst, ne_eq,
      not_true_eq_false, if_false]
    generalize encodeParam f (.mk "" (some sbp) sbit (.value sd none)) _ _ true = r1
    cases r1 with
    | error e => rfl
    | ok p =>
      obtain ⟨u, s1⟩ := p
      simp only []
      generalize encodeParam f (.mk "" (some bp) none (.value d none)) _ _ true = r2
      cases r2 with
      | error e => rfl
      | ok q => cases q; rfl
  · simp only [encodeDop, bind, run_bind, run_getS, run_modifyS, run_ite, hcb, hc, hd, ne_eq,
      not_true_eq_false, if_false]
    generalize encodeParam f (.mk "" (some sbp) sbit (.value sd none)) _ _ true = r1
    cases r1 with
    | error e => rfl
    | ok p =>
      obtain ⟨u, s1⟩ := p
      simp only []
      generalize encodeParam f (.mk "" (some bp) none (.value d none)) _ _ true = r2
      cases r2 with
      | error e => rfl
      | ok q => cases q; rfl

theorem encodeDop_mux_keyed_fail (f : Nat) (bp sbp : Nat) (sbit : Option Nat) (sd : Dop) (cases : List MuxCaseD)
    (k : Int) (v : PVal) (s : EncState) (hcb : s.cursorBit = 0) (hc : caseOfKey k cases = none) :
    encodeDop (f + 1) (.mux bp sbp sbit sd cases none) (.keyed k v) s true = .error (.encode, s) := by
  simp only [encodeDop, bind, run_bind, run_getS, run_ite, hcb, hc, ne_eq, not_true_eq_false, if_false, run_raise]

theorem encodeDop_mux_nokey_step (f : Nat) (bp sbp : Nat) (sbit : Option Nat) (sd : Dop) (cases : List MuxCaseD)
    (dn : String) (v : PVal) (s : EncState) (hcb : s.cursorBit = 0) (d : Dop) :
    encodeDop (f + 1) (.mux bp sbp sbit sd cases (some (dn, some d))) (.nokey v) s true =
      muxRun f bp sbp sbit sd (defaultCaseKey cases) d v s := by
  unfold muxRun
  simp only [encodeDop, bind, run_bind, run_getS, run_modifyS, run_ite, hcb, ne_eq,
    not_true_eq_false, if_false]
  generalize encodeParam f (.mk "" (some sbp) sbit (.value sd none)) _ _ true = r1
  cases r1 with
  | error e => rfl
  | ok p =>
    obtain ⟨u, s1⟩ := p
    simp only []
    generalize encodeParam f (.mk "" (some bp) none (.value d none)) _ _ true = r2
    cases r2 with
    | error e => rfl
    | ok q => cases q; rfl

theorem encodeDop_mux_nokey_fail (f : Nat) (bp sbp : Nat) (sbit : Option Nat) (sd : Dop) (cases : List MuxCaseD)
    (v : PVal) (s : EncState) (hcb : s.cursorBit = 0) :
    encodeDop (f + 1) (.mux bp sbp sbit sd cases none) (.nokey v) s true = .error (.encode, s) := by
  simp only [encodeDop, bind, run_bind, run_getS, run_ite, hcb, ne_eq, not_true_eq_false, if_false, run_raise]

/-! ### the selected case, in the terms of the model -/

theorem MuxDesc.dfltD_some (m : MuxDesc) (dn : String) (dd : DDesc) (h : m.dflt = some (dn, dd)) :
    m.dfltD = some (dn, some dd.dop) := by
  simp only [MuxDesc.dfltD, h]

theorem MuxDesc.dfltD_none (m : MuxDesc) (h : m.dflt = none) : m.dfltD = none := by
  simp only [MuxDesc.dfltD, h]

/-- a selected case: the model's encoder writes the key and the content -/
theorem MuxDesc.sel_step (m : MuxDesc) (pv : PVal) (name : String) (key : Int) (d : DDesc) (v : PVal)
    (h : m.sel pv = some (name, key, d, v)) (f : Nat) (s : EncState) (hcb : s.cursorBit = 0) :
    encodeDop (f + 1) m.dop pv s true = muxRun f m.muxBp m.swBp m.key.bitPos (m.layout "" 0).keyDop key d.dop v s := by
  have hname : ∀ n w, m.selName n w = some (name, key, d, v) →
      encodeDop (f + 1) m.dop (.pair n w) s true = muxRun f m.muxBp m.swBp m.key.bitPos (m.layout "" 0).keyDop key d.dop v s := by
    intro n w hs
    simp only [MuxDesc.selName] at hs
    cases hc : findCaseName n m.cases with
    | some c =>
      rw [hc] at hs
      simp only [Option.some.injEq, Prod.mk.injEq] at hs
      obtain ⟨_, hk, hd, hv⟩ := hs
      subst hk; subst hd; subst hv
      apply encodeDop_mux_name_step
      · exact hcb
      · left
        refine ⟨c.toD, ?_, rfl, rfl⟩
        show caseOfName n m.caseDs = _
        rw [MuxDesc.caseDs, caseOfName_map, hc]; rfl
    | none =>
      rw [hc] at hs
      cases hdf : m.dflt with
      | none => rw [hdf] at hs; cases hs
      | some q =>
        obtain ⟨dn, dd⟩ := q
        rw [hdf] at hs
        by_cases hn : dn = n
        · simp only [hn, if_true, Option.some.injEq, Prod.mk.injEq] at hs
          obtain ⟨_, hk, hd, hv⟩ := hs
          subst hk; subst hd; subst hv; subst hn
          apply encodeDop_mux_name_step
          · exact hcb
          · right
            refine ⟨?_, m.dfltD_some dn dd hdf, rfl⟩
            show caseOfName dn m.caseDs = _
            rw [MuxDesc.caseDs, caseOfName_map, hc]; rfl
        · simp [hn] at hs
  cases pv with
  | pair n w => exact hname n w h
  | dict kvs =>
    cases kvs with
    | nil => cases h
    | cons kv rest =>
      cases rest with
      | nil =>
        obtain ⟨n, w⟩ := kv
        unfold MuxDesc.dop
        rw [encodeDop_mux_dict1]
        exact hname n w h
      | cons kv2 rest2 => cases h
  | keyed k w =>
    simp only [MuxDesc.sel] at h
    cases hc : findCaseKey k m.cases with
    | some c =>
      rw [hc] at h
      simp only [Option.some.injEq, Prod.mk.injEq] at h
      obtain ⟨_, hk, hd, hv⟩ := h
      subst hk; subst hd; subst hv
      apply encodeDop_mux_keyed_step
      · exact hcb
      · left
        refine ⟨c.toD, ?_, rfl⟩
        show caseOfKey k m.caseDs = _
        rw [MuxDesc.caseDs, caseOfKey_map, hc]; rfl
    | none =>
      rw [hc] at h
      cases hdf : m.dflt with
      | none => rw [hdf] at h; cases h
      | some q =>
        obtain ⟨dn, dd⟩ := q
        rw [hdf] at h
        simp only [Option.some.injEq, Prod.mk.injEq] at h
        obtain ⟨_, hk, hd, hv⟩ := h
        subst hk; subst hd; subst hv
        apply encodeDop_mux_keyed_step
        · exact hcb
        · right
          refine ⟨?_, dn, m.dfltD_some dn dd hdf⟩
          show caseOfKey k m.caseDs = _
          rw [MuxDesc.caseDs, caseOfKey_map, hc]; rfl
  | nokey w =>
    simp only [MuxDesc.sel] at h
    cases hdf : m.dflt with
    | none => rw [hdf] at h; cases h
    | some q =>
      obtain ⟨dn, dd⟩ := q
      rw [hdf] at h
      simp only [Option.some.injEq, Prod.mk.injEq] at h
      obtain ⟨_, hk, hd, hv⟩ := h
      subst hk; subst hd; subst hv
      unfold MuxDesc.dop
      rw [m.dfltD_some dn dd hdf]
      exact encodeDop_mux_nokey_step f _ _ _ _ _ dn w s hcb dd.dop
  | atom _ | list _ | none | dtc _ => cases h

/-- no case selected (and not a list): `EncodeError` -/
theorem MuxDesc.sel_none (m : MuxDesc) (pv : PVal) (h : m.sel pv = none) (hnl : ∀ xs, pv ≠ .list xs) (f : Nat) (s : EncState)
    (hcb : s.cursorBit = 0) : encodeDop (f + 1) m.dop pv s true = .error (.encode, s) := by
  have hname : ∀ n w, m.selName n w = none → encodeDop (f + 1) m.dop (.pair n w) s true = .error (.encode, s) := by
    intro n w hs
    simp only [MuxDesc.selName] at hs
    cases hc : findCaseName n m.cases with
    | some c => rw [hc] at hs; cases hs
    | none =>
      rw [hc] at hs
      have hcn : caseOfName n m.caseDs = none := by rw [MuxDesc.caseDs, caseOfName_map, hc]; rfl
      cases hdf : m.dflt with
      | none => exact encodeDop_mux_name_fail f _ _ _ _ _ _ n w s hcb hcn (Or.inl (m.dfltD_none hdf))
      | some q =>
        obtain ⟨dn, dd⟩ := q
        rw [hdf] at hs
        by_cases hn : dn = n
        · simp [hn] at hs
        · exact encodeDop_mux_name_fail f _ _ _ _ _ _ n w s hcb hcn (Or.inr ⟨dn, some dd.dop, m.dfltD_some dn dd hdf, hn⟩)
  cases pv with
  | pair n w => exact hname n w h
  | dict kvs =>
    cases kvs with
    | nil => simp only [MuxDesc.dop, encodeDop, bind, run_bind, run_getS, run_ite, hcb, ne_eq, not_true_eq_false, if_false, run_raise]
    | cons kv rest =>
      cases rest with
      | nil =>
        obtain ⟨n, w⟩ := kv
        unfold MuxDesc.dop
        rw [encodeDop_mux_dict1]
        exact hname n w h
      | cons kv2 rest2 =>
        simp only [MuxDesc.dop, encodeDop, bind, run_bind, run_getS, run_ite, hcb, ne_eq, not_true_eq_false, if_false, run_raise]
  | keyed k w =>
    simp only [MuxDesc.sel] at h
    cases hc : findCaseKey k m.cases with
    | some c => rw [hc] at h; cases h
    | none =>
      rw [hc] at h
      cases hdf : m.dflt with
      | some q => obtain ⟨dn, dd⟩ := q; rw [hdf] at h; cases h
      | none =>
        unfold MuxDesc.dop
        rw [m.dfltD_none hdf]
        exact encodeDop_mux_keyed_fail f _ _ _ _ _ k w s hcb (by rw [MuxDesc.caseDs, caseOfKey_map, hc]; rfl)
  | nokey w =>
    simp only [MuxDesc.sel] at h
    cases hdf : m.dflt with
    | some q => obtain ⟨dn, dd⟩ := q; rw [hdf] at h; cases h
    | none =>
      unfold MuxDesc.dop
      rw [m.dfltD_none hdf]
      exact encodeDop_mux_nokey_fail f _ _ _ _ _ w s hcb
  | list xs => exact absurd rfl (hnl xs)
  | atom _ | none | dtc _ =>
    simp only [MuxDesc.dop, encodeDop, bind, run_bind, run_getS, run_ite, hcb, ne_eq, not_true_eq_false, if_false, run_raise]

/-! ### the multiplexer component for any way of selecting the case -/

/-- the multiplexer component `DComp.mux m c`, encoded from the value `sup` as it was supplied -/
def DComp.muxSup (m : MuxLayout) (c : DComp) (sup : PVal) : DComp := { DComp.mux m c with sup := sup }

theorem DComp.muxSup_ok (m : MuxLayout) (c : DComp) (sup : PVal) (hc : c.Ok) (hk : m.keyObj.ok) (hr : m.keyObj.inRange (.int m.lo))
    (hdsel : m.decSel c.dop) (hsup : sup ≠ PVal.none)
    (hstep : ∀ (f : Nat) (s : EncState), s.cursorBit = 0 →
      encodeDop (f + 1) (DComp.mux m c).dop sup s true = muxRun f m.muxBp m.swBp m.key.bitPos m.keyDop m.lo c.dop c.sup s) :
    (DComp.muxSup m c sup).Ok := by
  have hgk : Good (Pair.ofObj m.keyObj (.int m.lo)) := Good.ofObj m.keyObj hk (.int m.lo) hr
  have hgk' : Good ((Pair.ofObj m.keyObj (.int m.lo)).guard (· = IVal.int m.lo)) := hgk.guard _ rfl
  have hG := Comp.ofValue_ok "" (some m.muxBp) c hc
  exact {
    good := ((hgk'.seq (hc.good.atPos (some m.muxBp))).map _).inOrigin
    sup_ne_none := hsup
    originFree := OriginFree.inOrigin _
    dec_originFree := fun _ _ => rfl
    fits_originFree := fun _ _ => rfl
    encode_eq := by
      intro fuel hf s hcb heop
      obtain ⟨f, rfl⟩ : ∃ f, fuel = f + 2 + 1 := ⟨fuel - 3, by simp only [DComp.muxSup, DComp.mux] at hf; omega⟩
      let s2 : EncState := { s with origin := s.cursorByte }
      have hkey : encodeParam (f + 2) (.mk "" (some m.swBp) m.key.bitPos (.value m.keyDop none))
          (some (.atom (.int m.lo))) s2 true = .ok ((), encStep m.keyObj (.int m.lo) s2) :=
        encodeParam_obj m.keyObj hk (.int m.lo) hr f s2
      obtain ⟨s3, hrun3, hcore3⟩ := hG.encode_eq (f + 2) (by simp only [Comp.ofValue, DComp.muxSup, DComp.mux] at hf ⊢; omega)
        (encStep m.keyObj (.int m.lo) s2) heop
      have hrun3' : encodeParam (f + 2) (.mk "" (some m.muxBp) none (.value c.dop none)) (some c.sup)
          (encStep m.keyObj (.int m.lo) s2) true = .ok ((), s3) := hrun3
      have hcb3 : s3.cursorBit = 0 := encodeParam_cursorBit _ _ _ _ _ _ hrun3
      refine ⟨{ s3 with origin := s.origin }, ?_, ?_, hcb3⟩
      · show encodeDop (f + 2 + 1) (DComp.mux m c).dop sup s true = _
        rw [hstep (f + 2) s hcb]
        unfold muxRun
        rw [hkey]
        simp only []
        rw [hrun3']
      · exact ⟨hcore3.1, hcore3.2.1, hcore3.2.2.1, hcore3.2.2.2.1, rfl⟩
    enc_cursor := by
      intro s
      show (c.pair.enc _).cursorByte = _
      rw [hc.enc_cursor]
      show s.cursorByte + m.muxBp + c.size = s.cursorByte + (m.muxBp + c.size)
      omega
    dec_cursorBit := fun d _ => hc.dec_cursorBit _ rfl
    dec_msg := fun d => by
      show (c.pair.dec _).2.msg = d.msg
      rw [hc.dec_msg]
      rfl
    dec_origin := fun _ => rfl
    decode_eq := by
      intro fuel hf d hcb hfit hpre
      obtain ⟨f, rfl⟩ : ∃ f, fuel = f + 2 + 1 := ⟨fuel - 3, by simp only [DComp.muxSup, DComp.mux] at hf; omega⟩
      let d2 : DecState := { d with origin := d.cursorByte }
      have hfit' : (m.keyObj.fitsIn d2 ∧
            (decStep m.keyObj d2).1 = IVal.int m.lo) ∧
          (Comp.ofValue "" (some m.muxBp) c).pair.fits (decStep m.keyObj d2).2 := hfit
      obtain ⟨⟨⟨hkfit, hkdec⟩, hkval⟩, hcfit⟩ := hfit'
      have hkey : decodeParam (f + 2) (.mk "" (some m.swBp) m.key.bitPos (.value m.keyDop none)) d2 true =
          .ok (.atom (.int m.lo), (decStep m.keyObj d2).2) := by
        have := decodeParam_obj m.keyObj hk f d2 hkfit hkdec
        rw [hkval] at this
        exact this
      have hcont := hG.decode_eq (f + 2) (by simp only [Comp.ofValue, DComp.muxSup, DComp.mux] at hf ⊢; omega)
        (decStep m.keyObj d2).2 rfl hcfit hpre
      have hcont' : decodeParam (f + 2) (.mk "" (some m.muxBp) none (.value c.dop none)) (decStep m.keyObj d2).2 true = _ := hcont
      show decodeDop (f + 2 + 1) (DComp.mux m c).dop d true = _
      simp only [DComp.mux]
      rw [decodeDop_mux_step (f + 2) _ _ _ _ _ _ _ m.lo _ hkey m.caseName c.dop hdsel]
      rw [decodeParam_explicit_cursor, hcont']
      rfl }

theorem DComp.muxSup_endOk (m : MuxLayout) (c : DComp) (sup : PVal) (hc : c.EndOk) : (DComp.muxSup m c sup).EndOk :=
  let h0 := DComp.mux_endOk m c hc
  ⟨h0.of_end, h0.trivial⟩

/-! ### closure -/

def MuxDesc.anyEop (m : MuxDesc) : Bool :=
  m.cases.any (fun c => c.d.mayEop) || (match m.dflt with | some (_, dd) => dd.mayEop | none => false)

def DDesc.mux (m : MuxDesc) : DDesc where
  dop := m.dop
  fill := fun pv => match m.sel pv with
    | some (name, key, d, v) =>
      if m.keyObj.accepts (.int key) then (d.fill v).map (fun c => DComp.muxSup (m.layout name key) c pv) else none
    | none => none
  complete := fun pv => match m.sel pv with
    | some (name, _, d, v) => .pair name (d.complete v)
    | none => .none
  typed := fun pv => match pv with
    | .list _ => false
    | pv => match m.sel pv with
      | some (_, _, d, v) => d.typed v
      | none => true
  need := fun pv => match m.sel pv with
    | some (_, _, d, v) => d.need v + 4
    | none => 1
  mayEop := m.anyEop
  minSize := m.muxBp

/-- every description the selection can return is one of the multiplexer's -/
def MuxDesc.descs (m : MuxDesc) (d : DDesc) : Prop :=
  (∃ c ∈ m.cases, c.d = d) ∨ (∃ dn, m.dflt = some (dn, d))

theorem MuxDesc.sel_descs (m : MuxDesc) (pv : PVal) (name : String) (key : Int) (d : DDesc) (v : PVal)
    (h : m.sel pv = some (name, key, d, v)) : m.descs d := by
  have hname : ∀ n w, m.selName n w = some (name, key, d, v) → m.descs d := by
    intro n w hs
    simp only [MuxDesc.selName] at hs
    cases hc : findCaseName n m.cases with
    | some c =>
      rw [hc] at hs
      simp only [Option.some.injEq, Prod.mk.injEq] at hs
      exact Or.inl ⟨c, (findCaseName_mem n _ c hc).1, hs.2.2.1⟩
    | none =>
      rw [hc] at hs
      cases hdf : m.dflt with
      | none => rw [hdf] at hs; cases hs
      | some q =>
        obtain ⟨dn, dd⟩ := q
        rw [hdf] at hs
        by_cases hn : dn = n
        · simp only [hn, if_true, Option.some.injEq, Prod.mk.injEq] at hs
          exact Or.inr ⟨dn, by rw [← hs.2.2.1]; exact hdf⟩
        · simp [hn] at hs
  cases pv with
  | pair n w => exact hname n w h
  | dict kvs =>
    cases kvs with
    | nil => cases h
    | cons kv rest =>
      cases rest with
      | nil => obtain ⟨n, w⟩ := kv; exact hname n w h
      | cons kv2 rest2 => cases h
  | keyed k w =>
    simp only [MuxDesc.sel] at h
    cases hc : findCaseKey k m.cases with
    | some c =>
      rw [hc] at h
      simp only [Option.some.injEq, Prod.mk.injEq] at h
      exact Or.inl ⟨c, findCaseKey_mem k _ c hc, h.2.2.1⟩
    | none =>
      rw [hc] at h
      cases hdf : m.dflt with
      | none => rw [hdf] at h; cases h
      | some q =>
        obtain ⟨dn, dd⟩ := q
        rw [hdf] at h
        simp only [Option.some.injEq, Prod.mk.injEq] at h
        exact Or.inr ⟨dn, by rw [← h.2.2.1]; exact hdf⟩
  | nokey w =>
    simp only [MuxDesc.sel] at h
    cases hdf : m.dflt with
    | none => rw [hdf] at h; cases h
    | some q =>
      obtain ⟨dn, dd⟩ := q
      rw [hdf] at h
      simp only [Option.some.injEq, Prod.mk.injEq] at h
      exact Or.inr ⟨dn, by rw [← h.2.2.1]; exact hdf⟩
  | atom _ | list _ | none | dtc _ => cases h

theorem MuxDesc.descs_eop (m : MuxDesc) (d : DDesc) (h : m.descs d) (he : d.mayEop = true) : m.anyEop = true := by
  rcases h with ⟨c, hc, rfl⟩ | ⟨dn, hd⟩
  · simp only [MuxDesc.anyEop, Bool.or_eq_true, List.any_eq_true]
    exact Or.inl ⟨c, hc, he⟩
  · simp only [MuxDesc.anyEop, hd, he, Bool.or_true]

/-- the decoder, reading the switch key the encoder wrote for a case selected by NAME, finds a case of the same name and
    structure (first of its name ⇒ first claiming its lower limit: no overlapping limits before it) -/
def MuxDesc.casesOk (m : MuxDesc) : Prop :=
  ∀ n c, findCaseName n m.cases = some c → ∃ c', findCaseKey c.lo m.cases = some c' ∧ c'.name = c.name ∧ c'.d.dop = c.d.dop

/-- encoder and decoder agree on the selected case -/
theorem MuxDesc.sel_decSel (m : MuxDesc) (hcases : m.casesOk) (pv : PVal) (name : String) (key : Int) (d : DDesc) (v : PVal)
    (h : m.sel pv = some (name, key, d, v)) : (m.layout name key).decSel d.dop := by
  have hdefault : ∀ dn dd, m.dflt = some (dn, dd) → (m.layout dn (defaultCaseKey m.caseDs)).decSel dd.dop := by
    intro dn dd hdf
    right
    exact ⟨caseOfKey_default m.caseDs, m.dfltD_some dn dd hdf⟩
  have hname : ∀ n w, m.selName n w = some (name, key, d, v) → (m.layout name key).decSel d.dop := by
    intro n w hs
    simp only [MuxDesc.selName] at hs
    cases hc : findCaseName n m.cases with
    | some c =>
      rw [hc] at hs
      simp only [Option.some.injEq, Prod.mk.injEq] at hs
      obtain ⟨hn, hk, hd, _⟩ := hs
      subst hn; subst hk; subst hd
      obtain ⟨c', hc', hn', hd'⟩ := hcases n c hc
      left
      refine ⟨c'.toD, ?_, hn', by simp only [MuxCaseDesc.toD, MuxCaseD.struct, hd']⟩
      show caseOfKey c.lo m.caseDs = _
      rw [MuxDesc.caseDs, caseOfKey_map, hc']; rfl
    | none =>
      rw [hc] at hs
      cases hdf : m.dflt with
      | none => rw [hdf] at hs; cases hs
      | some q =>
        obtain ⟨dn, dd⟩ := q
        rw [hdf] at hs
        by_cases hn : dn = n
        · simp only [hn, if_true, Option.some.injEq, Prod.mk.injEq] at hs
          obtain ⟨hn2, hk, hd, _⟩ := hs
          subst hn2; subst hk; subst hd
          exact hdefault _ _ (by rw [hdf, hn])
        · simp [hn] at hs
  cases pv with
  | pair n w => exact hname n w h
  | dict kvs =>
    cases kvs with
    | nil => cases h
    | cons kv rest =>
      cases rest with
      | nil => obtain ⟨n, w⟩ := kv; exact hname n w h
      | cons kv2 rest2 => cases h
  | keyed k w =>
    simp only [MuxDesc.sel] at h
    cases hc : findCaseKey k m.cases with
    | some c =>
      rw [hc] at h
      simp only [Option.some.injEq, Prod.mk.injEq] at h
      obtain ⟨hn, hk, hd, _⟩ := h
      subst hn; subst hk; subst hd
      left
      refine ⟨c.toD, ?_, rfl, rfl⟩
      show caseOfKey k m.caseDs = _
      rw [MuxDesc.caseDs, caseOfKey_map, hc]; rfl
    | none =>
      rw [hc] at h
      cases hdf : m.dflt with
      | none => rw [hdf] at h; cases h
      | some q =>
        obtain ⟨dn, dd⟩ := q
        rw [hdf] at h
        simp only [Option.some.injEq, Prod.mk.injEq] at h
        obtain ⟨hn, hk, hd, _⟩ := h
        subst hn; subst hk; subst hd
        right
        refine ⟨?_, m.dfltD_some dn dd hdf⟩
        show caseOfKey k m.caseDs = _
        rw [MuxDesc.caseDs, caseOfKey_map, hc]; rfl
  | nokey w =>
    simp only [MuxDesc.sel] at h
    cases hdf : m.dflt with
    | none => rw [hdf] at h; cases h
    | some q =>
      obtain ⟨dn, dd⟩ := q
      rw [hdf] at h
      simp only [Option.some.injEq, Prod.mk.injEq] at h
      obtain ⟨hn, hk, hd, _⟩ := h
      subst hn; subst hk; subst hd
      exact hdefault _ _ hdf
  | atom _ | list _ | none | dtc _ => cases h

theorem MuxDesc.sel_ne_none (m : MuxDesc) (pv : PVal) (h : (m.sel pv).isSome = true) : pv ≠ PVal.none := by
  intro hp
  subst hp
  cases h

theorem MuxDesc.sel_not_list (m : MuxDesc) (xs : List PVal) : m.sel (.list xs) = none := rfl

/-- **closure under MULTIPLEXER**: the switch key is an integer object, every case's content description is `Ok`, and the
    decoder finds the case back (`casesOk`) -/
theorem DDesc.mux_ok (m : MuxDesc) (hk : m.keyObj.ok) (hint : m.keyObj.isInt) (hds : ∀ d, m.descs d → d.Ok)
    (hcases : m.casesOk) : (DDesc.mux m).Ok where
  acc := by
    intro pv c0 hf
    have key : ∃ name key d v c, m.sel pv = some (name, key, d, v) ∧ m.keyObj.accepts (.int key) = true ∧ d.fill v = some c ∧
        c0 = DComp.muxSup (m.layout name key) c pv := by
      simp only [DDesc.mux] at hf
      cases hs : m.sel pv with
      | none => rw [hs] at hf; cases hf
      | some q =>
        obtain ⟨name, key, d, v⟩ := q
        rw [hs] at hf
        simp only at hf
        cases ha : m.keyObj.accepts (.int key) with
        | false => rw [ha] at hf; simp at hf
        | true =>
          rw [ha] at hf
          simp only [if_true] at hf
          cases hc : d.fill v with
          | none => rw [hc] at hf; cases hf
          | some c => rw [hc] at hf; exact ⟨name, key, d, v, c, rfl, ha, hc, by simpa using hf.symm⟩
    obtain ⟨name, key, d, v, c, hs, ha, hc, rfl⟩ := key
    have hd := hds d (m.sel_descs pv name key d v hs)
    have hfc := hd.acc v c hc
    have hr : m.keyObj.inRange (.int key) := (m.keyObj.accepts_iff hk _).mp ha
    have hdsel : (m.layout name key).decSel c.dop := by rw [hfc.dop]; exact m.sel_decSel hcases pv name key d v hs
    exact {
      ok := DComp.muxSup_ok (m.layout name key) c pv hfc.ok hk hr hdsel (m.sel_ne_none pv (by rw [hs]; rfl)) (by
        intro f s hcb
        have := m.sel_step pv name key d v hs f s hcb
        rw [hfc.dop, hfc.sup]
        exact this)
      endOk := DComp.muxSup_endOk _ c pv hfc.endOk
      dop := rfl
      sup := rfl
      need := by
        have := hfc.need
        simp only [DComp.muxSup, DComp.mux, DDesc.mux, hs]
        omega
      eop := fun he => m.descs_eop d (m.sel_descs pv name key d v hs) (hfc.eop he)
      size := by simp only [DComp.muxSup, DComp.mux, DDesc.mux, MuxDesc.layout]; omega
      val := by
        show PVal.pair name c.pair.val = _
        simp only [DDesc.mux, hs, hfc.val] }
  rej := by
    intro pv hf fuel hfu s hcb heop
    cases hs : m.sel pv with
    | none =>
      simp only [DDesc.mux, hs] at hfu
      obtain ⟨f, rfl⟩ : ∃ f, fuel = f + 1 := ⟨fuel - 1, by omega⟩
      by_cases hl : ∃ xs, pv = .list xs
      · obtain ⟨xs, rfl⟩ := hl
        refine ⟨.unmodelled, s, ?_, Or.inr ⟨rfl, rfl⟩⟩
        simp only [DDesc.mux, MuxDesc.dop, encodeDop, bind, run_bind, run_getS, run_ite, hcb, ne_eq, not_true_eq_false, if_false,
          run_raise]
      · refine ⟨.encode, s, ?_, RejErr.encode _⟩
        exact m.sel_none pv hs (fun xs h => hl ⟨xs, h⟩) f s hcb
    | some q =>
      obtain ⟨name, key, d, v⟩ := q
      have hty : (DDesc.mux m).typed pv = d.typed v := by
        cases pv with
        | list xs => cases hs
        | _ => simp only [DDesc.mux, hs]
      simp only [DDesc.mux, hs] at hfu
      obtain ⟨f, rfl⟩ : ∃ f, fuel = f + 2 + 1 := ⟨fuel - 3, by omega⟩
      have hd := hds d (m.sel_descs pv name key d v hs)
      have hstep := m.sel_step pv name key d v hs (f + 2) s hcb
      let s2 : EncState := { s with origin := s.cursorByte }
      cases ha : m.keyObj.accepts (.int key) with
      | false =>
        obtain ⟨e, s', hrun, he⟩ := m.keyObj.rejects_of_int hk hint (some (.atom (.int key))) (by simp)
          (fun w hw => by simp only [Option.some.injEq, PVal.atom.injEq] at hw; subst hw; exact ha) f s2
        have hrun' : encodeParam (f + 2) (.mk "" (some m.swBp) m.key.bitPos (.value (m.layout "" 0).keyDop none))
            (some (.atom (.int key))) { s with origin := s.cursorByte } true = .error (e, s') := hrun
        refine ⟨e, s', ?_, ?_⟩
        · show encodeDop (f + 2 + 1) m.dop pv s true = _
          rw [hstep]
          unfold muxRun
          rw [hrun']
        · rcases he with he | ⟨_, hff⟩
          · exact Or.inl he
          · cases hff
      | true =>
        have hr : m.keyObj.inRange (.int key) := (m.keyObj.accepts_iff hk _).mp ha
        have hc : d.fill v = none := by
          simp only [DDesc.mux, hs, ha, if_true] at hf
          cases hc : d.fill v with
          | none => rfl
          | some c => rw [hc] at hf; cases hf
        have hkey : encodeParam (f + 2) (.mk "" (some m.swBp) m.key.bitPos (.value (m.layout "" 0).keyDop none))
            (some (.atom (.int key))) s2 true = .ok ((), encStep m.keyObj (.int key) s2) :=
          encodeParam_obj m.keyObj hk (.int key) hr f s2
        let s3 : EncState := encStep m.keyObj (.int key) s2
        obtain ⟨e, s', hrun, he⟩ := hd.rej v hc (f + 1) (by omega)
          { s3 with cursorByte := posOf (some m.muxBp) s3.origin s3.cursorByte, cursorBit := 0 } rfl
          (fun hm => heop (m.descs_eop d (m.sel_descs pv name key d v hs) hm))
        have hrun' : encodeParam (f + 2) (.mk "" (some m.muxBp) none (.value d.dop none)) (some v)
            (encStep m.keyObj (.int key) s2) true = .error (e, s') := by
          rw [encodeParam_value_step]
          simp only [Option.getD_none]
          rw [hrun]
        refine ⟨e, s', ?_, by rw [hty]; exact he⟩
        show encodeDop (f + 2 + 1) m.dop pv s true = _
        rw [hstep]
        unfold muxRun
        rw [hkey]
        simp only []
        rw [hrun']

end OdxVerif.Codec
