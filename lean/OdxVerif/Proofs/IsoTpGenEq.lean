import OdxVerif.Gen.IsoTpStep
import OdxVerif.Proofs.PyRt
/-! # The generated `decode_rx_frame` equals the hand-written model `step`

    `Gen/IsoTpStep.lean` is regenerated from `odxtools/isotp_state_machine.py` by `harness/extract/py2lean.py` on every
    run of C12/C13. This file proves that the rendering of *the current source* is the model all C12/C13 theorems
    are about — for every slot state and every frame (`AllBytes`: the elements of a frame are bytes), with no bound.
    When the source changes behaviour, these proofs stop compiling.

    The proof scripts do not refer to positions in the generated code: case analysis on the shape of the frame
    (`[]`, `[b0]`, `b0 :: b1 :: pl` — the shapes the *model* distinguishes) and on `s.data`, one `simp` with the run-time
    lemmas, `split` on whatever `if`s remain on either side, and `omega`/`simp_all` for the leaves. -/
set_option linter.unusedSimpArgs false
namespace OdxVerif.IsoTp
open OdxVerif.Bits (AllBytes)
open OdxVerif Py

/-- closes the leaves left after `repeat' split`: both sides took the same branch (`rfl` / `simp_all`), or the
    two branch conditions contradict each other (`omega`) -/
macro "gen_leaf" : tactic =>
  `(tactic| first
    | rfl
    | omega
    | (simp_all [List.take_of_length_le, Py.pure_eq_ok, Py.ok_bind]; done)
    | (simp_all [List.take_of_length_le, Py.pure_eq_ok, Py.ok_bind]; omega))

/-- **The tie.** The body of `decode_rx_frame` as rendered from the source never raises and computes `step`. -/
theorem gen_stepE_eq (s : Slot) (f : Bytes) (hf : AllBytes f) : Gen.decodeRxFrameE s f = .ok (step s f) := by
  rcases f with _ | ⟨b0, _ | ⟨b1, pl⟩⟩
  · simp [Gen.decodeRxFrameE, step] <;> rfl
  · have hb0 : b0 < 256 := hf b0 (by simp)
    cases hd : s.data <;>
      simp [Gen.decodeRxFrameE, step, py_rt, hb0, slice, getItem, hd, Int.natCast_inj]
    all_goals (repeat' split)
    all_goals gen_leaf
  · have hb0 : b0 < 256 := hf b0 (by simp)
    have hb1 : b1 < 256 := hf b1 (by simp)
    cases hd : s.data <;>
      simp [Gen.decodeRxFrameE, step, py_rt, hb0, hb1, slice, getItem, hd, Int.natCast_inj]
    all_goals (repeat' split)
    all_goals gen_leaf

/-- the total version of the generated function is the model's `step` -/
theorem gen_step_eq (s : Slot) (f : Bytes) (hf : AllBytes f) : Gen.decodeRxFrame s f = step s f := by
  simp [Gen.decodeRxFrame, gen_stepE_eq s f hf]

/-- the rendered Python raises nothing (no `IndexError`, no `TypeError` on `None`, no `bitstruct.Error`),
    whatever the slot state and the frame -/
theorem gen_never_raises (s : Slot) (f : Bytes) (hf : AllBytes f) : ∃ r, Gen.decodeRxFrameE s f = .ok r :=
  ⟨_, gen_stepE_eq s f hf⟩

/-! ### constructor, lookup and the multi-ID wrapper -/

theorem gen_slotInit_eq : Gen.slotInit = ({} : Slot) := rfl

theorem gen_stInit_eq (ids : List Nat) : Gen.stInit ids = St.init ids := rfl

theorem gen_lookup_eq (ids : List Nat) (x : Nat) : Gen.lookup ids x = slotIndex ids x := by
  induction ids with
  | nil => rfl
  | cons i is ih =>
    simp only [Gen.lookup, listIndex, slotIndex] at ih ⊢
    split
    · rfl
    · rw [ih]

theorem gen_feedE_eq (st : St) (fr : Nat × Bytes) (hf : AllBytes fr.2) : Gen.feedE st fr = .ok (feed st fr) := by
  unfold Gen.feedE feed
  rw [gen_lookup_eq]
  cases slotIndex st.ids fr.1 with
  | none => rfl
  | some k => simp [gen_stepE_eq _ _ hf, gen_slotInit_eq, Py.pure_eq_ok, Py.ok_bind]

theorem gen_feed_eq (st : St) (fr : Nat × Bytes) (hf : AllBytes fr.2) : Gen.feed st fr = feed st fr := by
  simp [Gen.feed, gen_feedE_eq st fr hf]

namespace Gen
/-- one receive slot fed with a list of frames, through the generated function (cf. `IsoTp.run`) -/
def run (s : Slot) : List Bytes → Slot × List Ev
  | [] => (s, [])
  | f :: fs => let r := decodeRxFrame s f; let rs := run r.1 fs; (rs.1, r.2 ++ rs.2)

/-- a stream of `(id, frame)` pairs through the generated method (cf. `IsoTp.feedAll`) -/
def feedAll (st : St) : List (Nat × Bytes) → St × List (Nat × Ev)
  | [] => (st, [])
  | f :: fs => let r := feed st f; let rs := feedAll r.1 fs; (rs.1, r.2 ++ rs.2)
end Gen

theorem gen_run_eq (fs : List Bytes) (hfs : ∀ f ∈ fs, AllBytes f) (s : Slot) : Gen.run s fs = run s fs := by
  induction fs generalizing s with
  | nil => rfl
  | cons f fs ih =>
    simp only [Gen.run, run, gen_step_eq s f (hfs f (List.mem_cons_self ..))]
    rw [ih (fun g hg => hfs g (List.mem_cons_of_mem _ hg))]

theorem gen_feedAll_eq (fs : List (Nat × Bytes)) (hfs : ∀ fr ∈ fs, AllBytes fr.2) (st : St) :
    Gen.feedAll st fs = feedAll st fs := by
  induction fs generalizing st with
  | nil => rfl
  | cons f fs ih =>
    simp only [Gen.feedAll, feedAll, gen_feed_eq st f (hfs f (List.mem_cons_self ..))]
    rw [ih (fun g hg => hfs g (List.mem_cons_of_mem _ hg))]

end OdxVerif.IsoTp
