import OdxVerif.Proofs.Compare
import Std.Data.String.ToNat
/-! Lemmas about `compareDatabases` and the metrics row (property C18). -/
namespace OdxVerif.Compare

def distinctLayerNames (db : List LayerD) : Prop := db.Pairwise (fun a b => a.name ≠ b.name)
instance (db : List LayerD) : Decidable (distinctLayerNames db) := by unfold distinctLayerNames; infer_instance

/-- every layer of the database satisfies the hypotheses of the layer theorems -/
def wfLayers (db : List LayerD) : Prop := ∀ l ∈ db, distinctNames l.services ∧ hasRequests l.services
instance (db : List LayerD) : Decidable (wfLayers db) := by unfold wfLayers; infer_instance

theorem distinctLayerNames_inj {db : List LayerD} (h : distinctLayerNames db) {x y : LayerD}
    (hx : x ∈ db) (hy : y ∈ db) (hn : x.name = y.name) : x = y := by
  induction db with
  | nil => cases hx
  | cons a l ih =>
    have hp := List.pairwise_cons.mp h
    rcases List.mem_cons.mp hx with rfl | hx' <;> rcases List.mem_cons.mp hy with rfl | hy'
    · rfl
    · exact absurd hn (hp.1 _ hy')
    · exact absurd hn.symm (hp.1 _ hx')
    · exact ih hp.2 hx' hy'

theorem foldl_inv {α β} (P : β → Prop) (f : β → α → β) (l : List α) (acc : β) (h0 : P acc)
    (hstep : ∀ a x, x ∈ l → P a → P (f a x)) : P (l.foldl f acc) := by
  induction l generalizing acc with
  | nil => exact h0
  | cons x l ih =>
    exact ih _ (hstep acc x (List.mem_cons_self ..) h0) (fun a y hy => hstep a y (List.mem_cons_of_mem _ hy))

theorem mem_dictSet {d : List (String × Result)} {k : String} {v : Result} {kv : String × Result}
    (h : kv ∈ dictSet d k v) : kv ∈ d ∨ kv = (k, v) := by
  unfold dictSet at h
  split at h
  · obtain ⟨kv0, hkv0, he⟩ := List.mem_map.mp h
    split at he
    · exact Or.inr he.symm
    · exact Or.inl (he ▸ hkv0)
  · rcases List.mem_append.mp h with h | h
    · exact Or.inl h
    · exact Or.inr (by simpa using h)

theorem key_dictSet (d : List (String × Result)) (k : String) (v : Result) : k ∈ (dictSet d k v).map (·.1) := by
  unfold dictSet
  split
  · rename_i h
    obtain ⟨kv, hkv, hk⟩ := List.any_eq_true.mp h
    simp only [List.map_map, List.mem_map, Function.comp]
    exact ⟨kv, hkv, by simp at hk; simp [hk]⟩
  · simp

theorem keys_dictSet {d : List (String × Result)} {k k' : String} {v : Result} (h : k' ∈ d.map (·.1)) :
    k' ∈ (dictSet d k v).map (·.1) := by
  unfold dictSet
  split
  · obtain ⟨kv, hkv, hk⟩ := List.mem_map.mp h
    simp only [List.map_map, List.mem_map, Function.comp]
    refine ⟨kv, hkv, ?_⟩
    split
    · rename_i he; rw [← hk]; exact he.symm
    · exact hk
  · simp only [List.map_append, List.mem_append]; exact Or.inl h

/-- what every entry of the result is, when both databases have the same layer names -/
def Sound (dbNew dbOld : List LayerD) (acc : DbResult) : Prop :=
  acc.newLayers = [] ∧ acc.deletedLayers = [] ∧
  ∀ kv ∈ acc.layers, ∃ l1 ∈ dbNew, ∃ l2 ∈ dbOld, l1.name = kv.1 ∧ l2.name = kv.1 ∧
    kv.2 = compareLayers l1.services l2.services

theorem compareDatabases_sound (dbNew dbOld : List LayerD) (sel : List String)
    (h1 : ∀ l ∈ dbNew, l.name ∈ dbOld.map (·.name)) (h2 : ∀ l ∈ dbOld, l.name ∈ dbNew.map (·.name)) :
    Sound dbNew dbOld (compareDatabases dbNew dbOld sel) := by
  unfold compareDatabases
  apply foldl_inv (Sound dbNew dbOld)
  · exact ⟨rfl, rfl, fun kv h => by cases h⟩
  · intro a l1 hl1 ha
    unfold dbOuter
    rw [if_neg (fun h => h (h1 l1 hl1))]
    apply foldl_inv (Sound dbNew dbOld) _ _ _ ha
    intro a l2 hl2 ha
    obtain ⟨hn, hd, hl⟩ := ha
    unfold dbInner
    have hin : ¬ (l2.name ∉ dbNew.map (·.name) ∧ l2.name ∉ a.deletedLayers) := fun h => h.1 (h2 l2 hl2)
    rw [if_neg hin]
    split
    · rename_i hc
      refine ⟨hn, hd, ?_⟩
      intro kv hkv
      rcases mem_dictSet hkv with hkv | rfl
      · exact hl kv hkv
      · exact ⟨l1, hl1, l2, hl2, rfl, hc.1.symm, rfl⟩
    · exact ⟨hn, hd, hl⟩

def HasKey (k : String) (a : DbResult) : Prop := k ∈ a.layers.map (·.1)

/-- keys only accumulate -/
theorem dbInner_keys {dbNew : List LayerD} {sel : List String} {l1 l2 : LayerD} {acc : DbResult} {k : String}
    (h : k ∈ acc.layers.map (·.1)) : k ∈ (dbInner dbNew sel l1 acc l2).layers.map (·.1) := by
  unfold dbInner
  split <;> split <;> first | exact keys_dictSet h | exact h

theorem dbOuter_keys {dbNew dbOld : List LayerD} {sel : List String} {l1 : LayerD} {acc : DbResult} {k : String}
    (h : k ∈ acc.layers.map (·.1)) : k ∈ (dbOuter dbNew dbOld sel acc l1).layers.map (·.1) := by
  unfold dbOuter
  show HasKey k _
  apply foldl_inv (HasKey k)
  · show HasKey k (if _ then _ else _)
    split <;> exact h
  · intro a x _ ha; exact dbInner_keys ha

theorem dbOuter_adds {dbNew dbOld : List LayerD} {sel : List String} {l1 l2 : LayerD} (acc : DbResult)
    (hl2 : l2 ∈ dbOld) (hn : l1.name = l2.name) (hs : l1.name ∈ sel) :
    l1.name ∈ (dbOuter dbNew dbOld sel acc l1).layers.map (·.1) := by
  unfold dbOuter
  obtain ⟨a, b, rfl⟩ := List.append_of_mem hl2
  rw [List.foldl_append, List.foldl_cons]
  show HasKey l1.name _
  apply foldl_inv (HasKey l1.name)
  · unfold dbInner
    rw [if_pos ⟨hn, hs⟩]
    exact key_dictSet _ _ _
  · intro a x _ ha; exact dbInner_keys ha

/-- every selected layer present in both databases gets an entry -/
theorem compareDatabases_complete (dbNew dbOld : List LayerD) (sel : List String) {l1 l2 : LayerD}
    (hl1 : l1 ∈ dbNew) (hl2 : l2 ∈ dbOld) (hn : l1.name = l2.name) (hs : l1.name ∈ sel) :
    l1.name ∈ (compareDatabases dbNew dbOld sel).layers.map (·.1) := by
  unfold compareDatabases
  obtain ⟨a, b, rfl⟩ := List.append_of_mem hl1
  rw [List.foldl_append, List.foldl_cons]
  show HasKey l1.name _
  apply foldl_inv (HasKey l1.name)
  · exact dbOuter_adds _ hl2 hn hs
  · intro a x _ ha; exact dbOuter_keys ha

/-! ## metrics -/

theorem toString_toNat? (n : Nat) : (toString n).toNat? = some n := Nat.toNat?_repr n

end OdxVerif.Compare
