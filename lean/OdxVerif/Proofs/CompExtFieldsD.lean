import OdxVerif.Proofs.CompExtFieldsM
import OdxVerif.Proofs.ItemLoop
/-! Compositional components, extension W11 (3c): **the dynamic fields over items that end with a parameter that needs
    `is_end_of_pdu` cleared**.  `encodeItems` (DYNAMIC-LENGTH-FIELD, END-OF-PDU-FIELD, DYNAMIC-ENDMARKER-FIELD) encodes every item
    but the last with the flag cleared and the last one with the flag the field was started with; an item leaves a cleared flag
    cleared (`encodeDop_keeps_eop_false`).  So all items only have to be components in the restricted sense (`DComp.OkM _ true`),
    the last one with its own flag `mid`, which the field inherits (`DComp.dynLenFieldM_okM`); an END-OF-PDU-FIELD is always
    encoded with the flag set, so its last item must not need it cleared (`DComp.eopFieldM_ok`).  The lemmas are those of the
    dynamic-field sections of `Proofs/CompFields.lean` with `c.Ok` weakened to `c.OkM true` and the flag threaded through the
    item loop. -/
set_option linter.unusedSimpArgs false
namespace OdxVerif.Codec
open OdxVerif.Bits OdxVerif.OdxM

/-! ### the item loop of the dynamic fields -/

theorem dynItemM_good (c : DComp) (hc : c.OkM true) (hsz : 1 ≤ c.size) : Good (dynItemC c) :=
  hc.good.advancing (fun s => by rw [hc.enc_cursor]; omega)

theorem dynItemsM_good (cs : List DComp) (h : ∀ c ∈ cs, c.OkM true ∧ 1 ≤ c.size) : Good (Pair.list (cs.map dynItemC)) :=
  Good.list _ (by
    intro p hp
    obtain ⟨x, hx, rfl⟩ := List.mem_map.mp hp
    exact dynItemM_good x (h x hx).1 (h x hx).2)

theorem dynItemsM_originFree (cs : List DComp) (h : ∀ c ∈ cs, c.OkM true) : OriginFree (Pair.list (cs.map dynItemC)) :=
  OriginFree.list _ (by
    intro p hp
    obtain ⟨x, hx, rfl⟩ := List.mem_map.mp hp
    exact (h x hx).originFree.advancing)

theorem dynItemsM_enc_cursor : (cs : List DComp) → (∀ c ∈ cs, c.OkM true) → ∀ (s : EncState),
    ((Pair.list (cs.map dynItemC)).enc s).cursorByte = s.cursorByte + DComps.size cs
  | [], _, s => by simp [Pair.list, Pair.nil, DComps.size]
  | c :: cs, h, s => by
    have h1 := (h c (List.mem_cons_self ..)).enc_cursor s
    have h2 := dynItemsM_enc_cursor cs (fun x hx => h x (List.mem_cons_of_mem _ hx)) (c.pair.enc s)
    simp only [List.map_cons, Pair.list, Pair.map, Pair.seq, DComps.size]
    have h2' : ((Pair.list (cs.map dynItemC)).enc ((dynItemC c).enc s)).cursorByte = _ := h2
    rw [h2']
    rw [h1]
    omega

/-- the item loop of the dynamic fields (`encodeItems`) = the pure list of items -/
theorem encodeItemsM_eq (item : Dop) (eop mid : Bool) (hmid : mid = true → eop = false) : ∀ (cs : List DComp) (m : Nat),
    (∀ c ∈ cs, c.itemOkM item ∧ 1 ≤ c.size ∧ c.need ≤ m) → (∀ c, cs.getLast? = some c → c.OkM mid) →
    ∀ (fuel : Nat), cs.length + m + 1 ≤ fuel → ∀ (s : EncState), s.cursorBit = 0 → s.isEndOfPdu = false →
    ∃ s', encodeItems item eop fuel (DComps.sups cs) s true = .ok ((), s') ∧
      SameCore s' ((Pair.list (cs.map dynItemC)).enc s) ∧ s'.cursorBit = 0 := by
  intro cs
  induction cs with
  | nil =>
    intro m _ _ fuel hf s hcb _
    obtain ⟨f, rfl⟩ : ∃ f, fuel = f + 1 := ⟨fuel - 1, by omega⟩
    exact ⟨s, by simp [DComps.sups, encodeItems, pure, run_pure], SameCore.refl _, hcb⟩
  | cons c cs ih =>
    intro m hall hlastM fuel hf s hcb hflag
    obtain ⟨f, rfl⟩ : ∃ f, fuel = f + 1 := ⟨fuel - 1, by simp only [List.length_cons] at hf; omega⟩
    simp only [List.length_cons] at hf
    obtain ⟨⟨hok, hdop, hne⟩, hsz, hneed⟩ := hall c (List.mem_cons_self ..)
    have hgk := hok.good
    cases cs with
    | nil =>
      -- the last item inherits `is_end_of_pdu`
      obtain ⟨s1, hrun1, hc1, hcb1⟩ := (hlastM c rfl).encode_eq f (by omega) { s with isEndOfPdu := eop } hcb
        (fun h => by rw [hne] at h; cases h) (fun hm => hmid hm)
      rw [hdop] at hrun1
      refine ⟨s1, ?_, ?_, hcb1⟩
      · simp only [DComps.sups, List.map_cons, List.map_nil]
        -- the item occupies `c.size ≥ 1` bytes: the cursor check of the repaired encoder passes
        refine encodeItems_one_ok _ eop f _ s s1 true hrun1 ?_
        have := hc1.2.2.2.1
        rw [hok.enc_cursor] at this
        simp only [] at this
        omega
      · have h0 : SameCore { s with isEndOfPdu := eop } s := ⟨rfl, rfl, rfl, rfl, rfl⟩
        exact hc1.trans (hgk.core _ _ h0)
    | cons c2 rest =>
      obtain ⟨s1, hrun1, hc1, hcb1⟩ := hok.encode_eq f (by omega) s hcb (fun h => by rw [hne] at h; cases h) (fun _ => hflag)
      rw [hdop] at hrun1
      have hflag1 : s1.isEndOfPdu = false := encodeDop_keeps_eop_false f _ _ s true s1 hrun1 hflag
      obtain ⟨s3, hrun3, hc3, hcb3⟩ := ih m (fun x hx => hall x (List.mem_cons_of_mem _ hx))
        (fun x hx => hlastM x (by rw [List.getLast?_cons_cons]; exact hx)) f
        (by simp only [List.length_cons] at hf ⊢; omega) s1 hcb1 hflag1
      have hg : Good (Pair.list ((c2 :: rest).map dynItemC)) :=
        dynItemsM_good _ (fun x hx => ⟨(hall x (List.mem_cons_of_mem _ hx)).1.1, (hall x (List.mem_cons_of_mem _ hx)).2.1⟩)
      refine ⟨s3, ?_, ?_, hcb3⟩
      · have hrun3' : encodeItems item eop f (c2.sup :: DComps.sups rest) s1 true = .ok ((), s3) := hrun3
        simp only [DComps.sups, List.map_cons]
        rw [encodeItems_cons_ok _ eop f _ _ _ s s1 true hrun1 (by
          have := hc1.2.2.2.1
          rw [hok.enc_cursor] at this
          omega)]
        exact hrun3'
      · show SameCore s3 ((Pair.list ((c2 :: rest).map dynItemC)).enc (c.pair.enc s))
        exact hc3.trans (hg.core _ _ hc1)

theorem dynItemsM_dec_cursorBit (cs : List DComp) (h : ∀ c ∈ cs, c.OkM true) (d : DecState) (hd : d.cursorBit = 0) :
    ((Pair.list (cs.map dynItemC)).dec d).2.cursorBit = 0 :=
  Pair.list_dec_cursorBit _ (by
    intro p hp d' hd'
    obtain ⟨x, hx, rfl⟩ := List.mem_map.mp hp
    exact (h x hx).dec_cursorBit d' hd') d hd

theorem dynItemsM_dec_msg (cs : List DComp) (h : ∀ c ∈ cs, c.OkM true) (d : DecState) :
    ((Pair.list (cs.map dynItemC)).dec d).2.msg = d.msg :=
  Pair.list_dec_msg _ (by
    intro p hp d'
    obtain ⟨x, hx, rfl⟩ := List.mem_map.mp hp
    exact (h x hx).dec_msg d') d

theorem dynItemsM_dec_origin (cs : List DComp) (h : ∀ c ∈ cs, c.OkM true) (d : DecState) :
    ((Pair.list (cs.map dynItemC)).dec d).2.origin = d.origin :=
  Pair.list_dec_origin _ (by
    intro p hp d'
    obtain ⟨x, hx, rfl⟩ := List.mem_map.mp hp
    exact (h x hx).dec_origin d') d

/-- the counted item loop of the decoder = the pure list of items -/
theorem decodeNItemsM_eq (item : Dop) : ∀ (cs : List DComp) (m : Nat),
    (∀ c ∈ cs, c.itemOkM item ∧ c.EndOk ∧ c.need ≤ m) → ∀ (fuel : Nat), cs.length + m + 1 ≤ fuel →
    ∀ (d : DecState), d.cursorBit = 0 → (Pair.list (cs.map dynItemC)).fits d →
    decodeNItems item fuel cs.length d true =
      .ok (((Pair.list (cs.map dynItemC)).dec d).1, ((Pair.list (cs.map dynItemC)).dec d).2) := by
  intro cs
  induction cs with
  | nil =>
    intro m _ fuel hf d _ _
    obtain ⟨f, rfl⟩ : ∃ f, fuel = f + 1 := ⟨fuel - 1, by omega⟩
    simp [decodeNItems, pure, run_pure, Pair.list, Pair.nil]
  | cons c cs ih =>
    intro m hall fuel hf d hcb hfit
    obtain ⟨f, rfl⟩ : ∃ f, fuel = f + 1 := ⟨fuel - 1, by simp only [List.length_cons] at hf; omega⟩
    simp only [List.length_cons] at hf
    obtain ⟨hitem, hend, hneed⟩ := hall c (List.mem_cons_self ..)
    have hok := hitem.1
    have hfit' : (c.pair.fits d ∧ d.cursorByte < (c.pair.dec d).2.cursorByte) ∧
        (Pair.list (cs.map dynItemC)).fits (c.pair.dec d).2 := hfit
    have h1 := hok.decode_eq f (by omega) d hcb hfit'.1.1 (hend.trivial hitem.2.2 d)
    rw [hitem.2.1] at h1
    have h2 := ih m (fun x hx => hall x (List.mem_cons_of_mem _ hx)) f (by omega) (c.pair.dec d).2
      (hok.dec_cursorBit d hcb) hfit'.2
    have hadv : ¬ ((c.pair.dec d).2.cursorByte ≤ d.cursorByte) := by omega
    simp only [List.length_cons, decodeNItems, bind, pure, run_bind, run_getS, run_pure, run_ite, h1, hadv, if_false, h2]
    rfl

/-! ### DYNAMIC-LENGTH-FIELD -/

theorem dynBodyM_good (cs : List DComp) (h : ∀ c ∈ cs, c.OkM true ∧ 1 ≤ c.size) : Good (dynBodyC cs) := by
  cases cs with
  | nil => exact Good.map (fun _ => []) Good.touch
  | cons c cs => exact dynItemsM_good _ h

theorem dynBodyM_enc_cursor (cs : List DComp) (h : ∀ c ∈ cs, c.OkM true) (s : EncState) :
    ((dynBodyC cs).enc s).cursorByte = s.cursorByte + DComps.size cs := by
  cases cs with
  | nil => simp [dynBodyC, Pair.map, Pair.touch, padEnc_cursor, DComps.size]
  | cons c cs => exact dynItemsM_enc_cursor (c :: cs) h s

theorem dynBodyM_dec_cursorBit (cs : List DComp) (h : ∀ c ∈ cs, c.OkM true) (d : DecState) (hd : d.cursorBit = 0) :
    ((dynBodyC cs).dec d).2.cursorBit = 0 := by
  cases cs with
  | nil => exact hd
  | cons c cs => exact dynItemsM_dec_cursorBit (c :: cs) h d hd

theorem dynBodyM_dec_msg (cs : List DComp) (h : ∀ c ∈ cs, c.OkM true) (d : DecState) : ((dynBodyC cs).dec d).2.msg = d.msg := by
  cases cs with
  | nil => rfl
  | cons c cs => exact dynItemsM_dec_msg (c :: cs) h d

/-- item loop + tail of the dynamic-length-field encoder = the pure body -/
theorem dynBodyM_encode_eq (item : Dop) (eop e2 mid : Bool) (hmid : mid = true → eop = false) (cs : List DComp) (m : Nat)
    (hall : ∀ c ∈ cs, c.itemOkM item ∧ 1 ≤ c.size ∧ c.need ≤ m) (hlastM : ∀ c, cs.getLast? = some c → c.OkM mid)
    (fuel : Nat) (hf : cs.length + m + 1 ≤ fuel) (T : EncState) (hcb : T.cursorBit = 0) (hflag : T.isEndOfPdu = false) :
    ∃ s3 s4, encodeItems item eop fuel (DComps.sups cs) T true = .ok ((), s3) ∧
      dynTail (DComps.sups cs) e2 s3 = .ok ((), s4) ∧ SameCore s4 ((dynBodyC cs).enc T) ∧ s4.cursorBit = 0 := by
  cases cs with
  | nil =>
    obtain ⟨f, rfl⟩ : ∃ f, fuel = f + 1 := ⟨fuel - 1, by omega⟩
    refine ⟨T, padEnc 0 { T with isEndOfPdu := e2 }, by simp [DComps.sups, encodeItems, pure, run_pure], ?_, ?_, hcb⟩
    · have hemp := emplaceBytes_zeros 0 { T with isEndOfPdu := e2 } hcb
      rw [show List.replicate 0 (0 : Nat) = [] from rfl] at hemp
      simp only [dynTail, DComps.sups, List.map_nil, List.length_nil, if_true, hemp]
    · exact padEnc_sameCore 0 _ _ ⟨rfl, rfl, rfl, rfl, rfl⟩
  | cons c cs =>
    obtain ⟨s3, hrun3, hc3, hcb3⟩ := encodeItemsM_eq item eop mid hmid (c :: cs) m hall hlastM fuel hf T hcb hflag
    refine ⟨s3, { s3 with isEndOfPdu := e2 }, hrun3, ?_, ?_, hcb3⟩
    · simp [dynTail, DComps.sups]
    · exact ⟨hc3.1, hc3.2.1, hc3.2.2.1, hc3.2.2.2.1, hc3.2.2.2.2⟩

theorem dynBodyM_decode_eq (item : Dop) (cs : List DComp) (m : Nat)
    (hall : ∀ c ∈ cs, c.itemOkM item ∧ c.EndOk ∧ c.need ≤ m) (fuel : Nat) (hf : cs.length + m + 1 ≤ fuel)
    (d : DecState) (hcb : d.cursorBit = 0) (hfit : (dynBodyC cs).fits d) :
    decodeNItems item fuel cs.length d true = .ok (((dynBodyC cs).dec d).1, ((dynBodyC cs).dec d).2) := by
  cases cs with
  | nil =>
    obtain ⟨f, rfl⟩ : ∃ f, fuel = f + 1 := ⟨fuel - 1, by omega⟩
    simp [decodeNItems, pure, run_pure, dynBodyC, Pair.touch, Pair.map]
  | cons c cs => exact decodeNItemsM_eq item (c :: cs) m hall fuel hf d hcb hfit

/-- **closure under DYNAMIC-LENGTH-FIELD**, items that may end with a parameter that needs the flag cleared: all items but the
    last are encoded with the flag cleared, the last one with the field's own flag — the field inherits the restriction of its
    last item -/
theorem DComp.dynLenFieldM_okM (l : DynLayout) (item : Dop) (cs : List DComp) (mid : Bool) (hl : l.ok cs.length)
    (h : ∀ c ∈ cs, c.itemOkM item ∧ c.EndOk ∧ 1 ≤ c.size) (hlastM : ∀ c, cs.getLast? = some c → c.OkM mid) :
    (DComp.dynLenField l item cs).OkM mid := by
  obtain ⟨hc, hr, hoff⟩ := hl
  have hgk : Good (Pair.ofObj l.cntObj (.int cs.length)) := Good.ofObj l.cntObj hc _ hr
  have hgb : Good (dynBodyC cs) := dynBodyM_good _ (fun c hc => ⟨(h c hc).1.1, (h c hc).2.2⟩)
  have hoks : ∀ c ∈ cs, c.OkM true := fun c hc => (h c hc).1.1
  have hgk' : Good ((Pair.ofObj l.cntObj (.int cs.length)).guard (· = IVal.int cs.length)) := hgk.guard _ rfl
  have hgood : Good (dynInnerC l cs) := (hgk'.seq (hgb.atPos (some l.offset))).map _
  exact {
    good := hgood.inOrigin
    sup_ne_none := by simp [DComp.dynLenField]
    originFree := OriginFree.inOrigin _
    dec_originFree := fun _ _ => rfl
    fits_originFree := fun _ _ => rfl
    encode_eq := by
      intro fuel hf s hcb _ hmidS
      obtain ⟨g, rfl⟩ : ∃ g, fuel = g + 1 + 1 := ⟨fuel - 2, by simp only [DComp.dynLenField] at hf; omega⟩
      have hf' : cs.length + DComps.maxNeed cs + 1 ≤ g + 1 := by simp only [DComp.dynLenField] at hf; omega
      let s2 : EncState := { s with origin := s.cursorByte }
      obtain ⟨sc, hcnt, hsc⟩ := encodeDop_obj l.cntObj hc (.int cs.length) hr g s2
      let E : EncState := encStep l.cntObj (.int cs.length) s2
      have hscE : ({ sc with cursorBit := 0 } : EncState) = E := hsc
      have hsc_cur : sc.cursorByte = E.cursorByte := by have := congrArg EncState.cursorByte hscE; exact this
      have hsc_org : sc.origin = E.origin := by have := congrArg EncState.origin hscE; exact this
      have hEcur : E.cursorByte = s.cursorByte + l.cntBp + l.cntObj.k := rfl
      have hEorg : E.origin = s.cursorByte := rfl
      let T : EncState := { E with cursorByte := E.origin + l.offset, isEndOfPdu := false }
      have hT : ({ sc with cursorByte := sc.origin + l.offset, cursorBit := 0, isEndOfPdu := false } : EncState) = T := by
        show _ = ({ E with cursorByte := E.origin + l.offset, isEndOfPdu := false } : EncState)
        rw [← hscE]
      obtain ⟨s3, s4, hrun3, htail, hc4, hcb4⟩ := dynBodyM_encode_eq item s.isEndOfPdu s.isEndOfPdu mid hmidS cs (DComps.maxNeed cs)
        (fun c hc => ⟨(h c hc).1, (h c hc).2.2, DComps.maxNeed_ge cs c hc⟩) hlastM (g + 1) hf' T rfl rfl
      have hcntRun : encodeDop (g + 1) l.cntDop (.atom (.int (DComps.sups cs).length))
          { s with origin := s.cursorByte, cursorBit := l.cnt.bp, cursorByte := s.cursorByte + l.cntBp } true = .ok ((), sc) := by
        have : (DComps.sups cs).length = cs.length := by simp [DComps.sups]
        rw [this]; exact hcnt
      have hstep := encodeDop_dyn_step (g + 1) l.offset l.cntBp l.cnt.bp l.cntDop item
        (DComps.sups cs) s sc hcb hcntRun (by rw [hsc_cur, hsc_org, hEcur, hEorg]; omega)
      rw [hT, hrun3] at hstep
      simp only [htail] at hstep
      have hcoreIn : SameCore s2 { s with origin := s.cursorByte } := SameCore.refl _
      let P : EncState := (Pair.ofObj l.cntObj (.int cs.length)).enc { s with origin := s.cursorByte }
      have hE : SameCore E P := hgk.core _ _ hcoreIn
      have hTcore : SameCore T { P with cursorByte := posOf (some l.offset) P.origin P.cursorByte } :=
        ⟨hE.1, hE.2.1, hE.2.2.1, by show E.origin + l.offset = P.origin + l.offset; rw [hE.2.2.2.2], hE.2.2.2.2⟩
      refine ⟨{ s4 with origin := s.origin }, ?_, ?_, hcb4⟩
      · simp only [DComp.dynLenField]
        rw [hstep]
      · have h1 := hc4.trans (hgb.core _ _ hTcore)
        exact ⟨h1.1, h1.2.1, h1.2.2.1, h1.2.2.2.1, rfl⟩
    enc_cursor := by
      intro s
      show ((dynBodyC cs).enc _).cursorByte = _
      rw [dynBodyM_enc_cursor cs hoks]
      show s.cursorByte + l.offset + DComps.size cs = s.cursorByte + (l.offset + DComps.size cs)
      omega
    dec_cursorBit := fun d _ => dynBodyM_dec_cursorBit cs hoks _ rfl
    dec_msg := fun d => by
      show ((dynBodyC cs).dec _).2.msg = d.msg
      rw [dynBodyM_dec_msg cs hoks]
      rfl
    dec_origin := fun _ => rfl
    decode_eq := by
      intro fuel hf d hcb hfit _
      obtain ⟨g, rfl⟩ : ∃ g, fuel = g + 1 + 1 := ⟨fuel - 2, by simp only [DComp.dynLenField] at hf; omega⟩
      have hf' : cs.length + DComps.maxNeed cs + 1 ≤ g + 1 := by simp only [DComp.dynLenField] at hf; omega
      let d2 : DecState := { d with origin := d.cursorByte }
      let D : DecState := (decStep l.cntObj d2).2
      have hfit' : (l.cntObj.fitsIn d2 ∧
            (decStep l.cntObj d2).1 = IVal.int cs.length) ∧
          (dynBodyC cs).fits { D with cursorByte := posOf (some l.offset) D.origin D.cursorByte } := hfit
      obtain ⟨⟨⟨hkfit, hkdec⟩, hkval⟩, hbfit⟩ := hfit'
      have hcnt := decodeDop_obj l.cntObj hc g d2 hkfit hkdec
      rw [hkval] at hcnt
      have hcnt' : decodeDop (g + 1) l.cntDop
          { d with origin := d.cursorByte, cursorByte := d.cursorByte + l.cntBp, cursorBit := l.cnt.bp } true =
          .ok (.atom (.int cs.length), D) := hcnt
      have hstep := decodeDop_dyn_step (g + 1) l.offset l.cntBp l.cnt.bp l.cntDop item d D cs.length hcb hcnt'
      have hbody := dynBodyM_decode_eq item cs (DComps.maxNeed cs)
        (fun c hc => ⟨(h c hc).1, (h c hc).2.1, DComps.maxNeed_ge cs c hc⟩) (g + 1) hf'
        { D with cursorByte := posOf (some l.offset) D.origin D.cursorByte } rfl hbfit
      have hbody' : decodeNItems item (g + 1) cs.length { D with cursorByte := D.origin + l.offset } true = _ := hbody
      rw [hbody'] at hstep
      simp only [DComp.dynLenField]
      rw [hstep]
      rfl }

/-- the decoder's loop to the end of the message = the pure list of items, provided the items end where the message ends -/
theorem decodeToEndM_eq (item : Dop) : ∀ (cs : List DComp) (m : Nat),
    (∀ c ∈ cs, c.itemOkM item ∧ c.EndOk ∧ c.need ≤ m) → ∀ (fuel : Nat), cs.length + m + 1 ≤ fuel →
    ∀ (d : DecState), d.cursorBit = 0 → (Pair.list (cs.map dynItemC)).fits d →
    ((Pair.list (cs.map dynItemC)).dec d).2.cursorByte = d.msg.length →
    decodeToEnd item fuel d true =
      .ok (((Pair.list (cs.map dynItemC)).dec d).1, ((Pair.list (cs.map dynItemC)).dec d).2) := by
  intro cs
  induction cs with
  | nil =>
    intro m _ fuel hf d _ _ hend
    obtain ⟨f, rfl⟩ : ∃ f, fuel = f + 1 := ⟨fuel - 1, by omega⟩
    have hend' : d.cursorByte = d.msg.length := hend
    have hlt : ¬ (d.cursorByte < d.msg.length) := by omega
    simp [decodeToEnd, bind, pure, run_bind, run_getS, run_pure, run_ite, hlt, Pair.list, Pair.nil]
  | cons c cs ih =>
    intro m hall fuel hf d hcb hfit hend
    obtain ⟨f, rfl⟩ : ∃ f, fuel = f + 1 := ⟨fuel - 1, by simp only [List.length_cons] at hf; omega⟩
    simp only [List.length_cons] at hf
    obtain ⟨hitem, hendOk, hneed⟩ := hall c (List.mem_cons_self ..)
    have hok := hitem.1
    have hfit' : (c.pair.fits d ∧ d.cursorByte < (c.pair.dec d).2.cursorByte) ∧
        (Pair.list (cs.map dynItemC)).fits (c.pair.dec d).2 := hfit
    have hend' : ((Pair.list (cs.map dynItemC)).dec (c.pair.dec d).2).2.cursorByte = d.msg.length := hend
    have hge := dynItemsC_dec_cursor_ge cs _ hfit'.2
    have hlt : d.cursorByte < d.msg.length := by have := hfit'.1.2; omega
    have h1 := hok.decode_eq f (by omega) d hcb hfit'.1.1 (hendOk.trivial hitem.2.2 d)
    rw [hitem.2.1] at h1
    have h2 := ih m (fun x hx => hall x (List.mem_cons_of_mem _ hx)) f (by omega) (c.pair.dec d).2
      (hok.dec_cursorBit d hcb) hfit'.2 (by rw [hend', hok.dec_msg])
    have hadv : ¬ ((c.pair.dec d).2.cursorByte ≤ d.cursorByte) := by have := hfit'.1.2; omega
    simp only [decodeToEnd, bind, pure, run_bind, run_getS, run_pure, run_ite, hlt, if_true, h1, hadv, if_false, h2]
    rfl

/-- **closure under END-OF-PDU-FIELD**, items that may end with a parameter that needs the flag cleared — except the last
    item, which is encoded with `is_end_of_pdu` set -/
theorem DComp.eopFieldM_ok (mn mx : Option Nat) (item : Dop) (cs : List DComp)
    (h : ∀ c ∈ cs, c.itemOkM item ∧ c.EndOk ∧ 1 ≤ c.size) (hlastM : ∀ c, cs.getLast? = some c → c.OkM false) :
    (DComp.eopField mn mx item cs).Ok := by
  have hoks : ∀ c ∈ cs, c.OkM true := fun c hc => (h c hc).1.1
  have hg : Good (Pair.list (cs.map dynItemC)) := dynItemsM_good _ (fun c hc => ⟨(h c hc).1.1, (h c hc).2.2⟩)
  exact {
    good := (hg.map _).inOrigin
    sup_ne_none := by simp [DComp.eopField]
    originFree := OriginFree.inOrigin _
    dec_originFree := fun _ _ => rfl
    fits_originFree := fun _ _ => rfl
    encode_eq := by
      intro fuel hf s hcb heop
      obtain ⟨g, rfl⟩ : ∃ g, fuel = g + 1 := ⟨fuel - 1, by simp only [DComp.eopField] at hf; omega⟩
      obtain ⟨s2, hrun, hcore, hcb2⟩ := encodeItemsM_eq item true false (fun hm => by cases hm) cs (DComps.maxNeed cs)
        (fun c hc => ⟨(h c hc).1, (h c hc).2.2, DComps.maxNeed_ge cs c hc⟩) hlastM g (by simp only [DComp.eopField] at hf; omega)
        { s with isEndOfPdu := false } hcb rfl
      refine ⟨{ s2 with isEndOfPdu := true }, ?_, ?_, hcb2⟩
      · simp only [DComp.eopField]
        rw [encodeDop_eop_step g _ _ _ _ s hcb (heop rfl)]
        rw [hrun]
      · have h1 : SameCore { s with isEndOfPdu := false } s := ⟨rfl, rfl, rfl, rfl, rfl⟩
        have h2 := hcore.trans (hg.core _ _ h1)
        have h3 := h2.trans ((dynItemsM_originFree cs hoks).sameCore_inOrigin hg s)
        exact ⟨h3.1, h3.2.1, h3.2.2.1, h3.2.2.2.1, h3.2.2.2.2⟩
    enc_cursor := fun s => dynItemsM_enc_cursor cs hoks { s with origin := s.cursorByte }
    dec_cursorBit := fun d hd => dynItemsM_dec_cursorBit cs hoks { d with origin := d.cursorByte } hd
    dec_msg := fun d => dynItemsM_dec_msg cs hoks { d with origin := d.cursorByte }
    dec_origin := fun _ => rfl
    decode_eq := by
      intro fuel hf d hcb hfit hpre
      obtain ⟨g, rfl⟩ : ∃ g, fuel = g + 1 := ⟨fuel - 1, by simp only [DComp.eopField] at hf; omega⟩
      have hst : ({ d with origin := d.cursorByte, cursorBit := 0 } : DecState) = { d with origin := d.cursorByte } := by rw [← hcb]
      have hfit' : (Pair.list (cs.map dynItemC)).fits { d with origin := d.cursorByte } := hfit
      have hrun := decodeToEndM_eq item cs (DComps.maxNeed cs)
        (fun c hc => ⟨(h c hc).1, (h c hc).2.1, DComps.maxNeed_ge cs c hc⟩) g (by simp only [DComp.eopField] at hf; omega)
        { d with origin := d.cursorByte } hcb hfit' hpre
      simp only [DComp.eopField, decodeDop, bind, pure, run_bind, run_getS, run_modifyS, run_pure, odxassert, hcb, decide_true,
        if_true]
      rw [hst, hrun]
      rfl }


end OdxVerif.Codec
