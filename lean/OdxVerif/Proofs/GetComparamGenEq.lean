import OdxVerif.Gen.GetComparam
import OdxVerif.Proofs.PyRt
/-! # The generated `HierarchyElement.get_comparam` equals the hand-written `getComparamIn`

    `Gen/GetComparam.lean` is regenerated from `odxtools/diaglayers/hierarchyelement.py` by `harness/extract/py2lean.py` (W28:
    keyword-only parameter, function-local class import, bare annotation, `isinstance` split of the union-typed parameter
    `protocol`, two filtering comprehensions, `xs or ys` on lists, `warnings.warn`, `cps[0]`). The model's `p : Option String` is the
    normalised `protocol_name` (`protoName`): a `Protocol` object stands for its short name. -/
namespace OdxVerif.Comparam
open OdxVerif Py

/-- `protocol_name` of l.590-594: None, the string itself, or the short name of the `Protocol` object -/
def protoName : Option Gen.ProtoArg → Option String
  | none => none
  | some (.name s) => some s
  | some (.layer s) => some s

/-- **Tie.** For every list of applicable parameters, short name and `protocol` argument (None, a name, a `Protocol` object) the
    rendered source raises nothing and returns the model's `getComparamIn` at the normalised protocol name -/
theorem gen_getComparam_eq (refs : List Inst) (n : String) (p : Option Gen.ProtoArg) :
    Gen.getComparamE refs n p = .ok (getComparamIn refs n (protoName p)) := by
  unfold Gen.getComparamE getComparamIn
  generalize (refs.filter fun cp => decide (cp.name = n)) = cps
  rcases p with _ | s | s
  · rcases cps with _ | ⟨c, _ | ⟨d, ds⟩⟩ <;>
      simp [protoName, Gen.ProtoArg.asName, Py.getItem, bind, Except.bind, pure, Except.pure]
  · dsimp only [protoName, Gen.ProtoArg.asName]
    simp only [Gen.ProtoArg.isProtocol, Option.any_some, decide_false, Bool.false_eq_true, if_false]
    generalize (cps.filter fun cp => decide (cp.proto = some s)) = sp
    generalize (cps.filter fun cp => decide (cp.proto = none)) = ge
    rcases sp with _ | ⟨c, _ | ⟨d, ds⟩⟩ <;> rcases ge with _ | ⟨c', _ | ⟨d', ds'⟩⟩ <;>
      simp [Py.getItem, bind, Except.bind, pure, Except.pure]
  · dsimp only [protoName, Gen.ProtoArg.asName, Py.unwrapAttr, Gen.ProtoArg.shortNameE, bind, Except.bind, pure, Except.pure]
    simp only [Gen.ProtoArg.isProtocol, Option.any_some, decide_true, if_true]
    generalize (cps.filter fun cp => decide (cp.proto = some s)) = sp
    generalize (cps.filter fun cp => decide (cp.proto = none)) = ge
    rcases sp with _ | ⟨c, _ | ⟨d, ds⟩⟩ <;> rcases ge with _ | ⟨c', _ | ⟨d', ds'⟩⟩ <;>
      simp [Py.getItem, bind, Except.bind, pure, Except.pure]

end OdxVerif.Comparam
