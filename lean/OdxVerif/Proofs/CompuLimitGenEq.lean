import OdxVerif.Gen.CompuLimit
import OdxVerif.Proofs.PyRt
/-! # The generated `Limit.complies_to_upper` / `complies_to_lower` equal the hand-written `Limit.compliesUpper` / `compliesLower`

    `Gen/CompuLimit.lean` is regenerated from `odxtools/compumethods/limit.py` by `harness/extract/py2lean.py`.
    `self._value`, `self.interval_type` are the fields of the model's `Limit`; `IntervalType.X` the constructors of `IType`;
    `compare_odx_values` is NOT translated: it stands for the model's `compareOdx` (all value kinds of `Val`: int, float, string),
    its error class embedded by `Gen.errOfCompu` (`Py.call`). Everything else — the `None` test, the interval-type dispatch, the
    four comparisons with 0, the `odxraise` behind the dispatch — is the rendered source. -/
namespace OdxVerif.Compu
open OdxVerif Py

@[simp, py_rt] theorem call_ok {ε α : Type} (f : ε → Py.Err) (a : α) : Py.call f (Except.ok a : Except ε α) = pure a := rfl
@[simp, py_rt] theorem call_error {ε α : Type} (f : ε → Py.Err) (e : ε) :
    Py.call f (Except.error e : Except ε α) = throw (f e) := rfl

/-- **Tie (upper limit).** For every limit and every value the rendered source has the model's outcome: the same Boolean, or the
    exception class of the model's error (`compare_odx_values` on values of different kinds). In particular the `odxraise` behind
    the dispatch is dead code and the `Optional` value is never used while `None`. -/
theorem gen_compliesUpper_eq (l : Limit) (v : Val) :
    Gen.compliesToUpperE l v = Py.call Gen.errOfCompu (l.compliesUpper v) := by
  obtain ⟨value, itype⟩ := l
  unfold Gen.compliesToUpperE Limit.compliesUpper
  cases value with
  | none => rfl
  | some a =>
    rcases itype with _ | _ | _ | _ <;> cases h : compareOdx v a <;> simp [h, py_rt, bind, Except.bind, pure, Except.pure] <;> rfl

/-- **Tie (lower limit).** -/
theorem gen_compliesLower_eq (l : Limit) (v : Val) :
    Gen.compliesToLowerE l v = Py.call Gen.errOfCompu (l.compliesLower v) := by
  obtain ⟨value, itype⟩ := l
  unfold Gen.compliesToLowerE Limit.compliesLower
  cases value with
  | none => rfl
  | some a =>
    rcases itype with _ | _ | _ | _ <;> cases h : compareOdx v a <;> simp [h, py_rt, bind, Except.bind, pure, Except.pure] <;> rfl

/-- the rendered source raises exactly when the model reports an error, and then the error is the `OdxError` of
    `compare_odx_values` (numbers against strings) -/
theorem gen_complies_ok_iff (l : Limit) (v : Val) (b : Bool) :
    (Gen.compliesToUpperE l v = .ok b ↔ l.compliesUpper v = .ok b) ∧
    (Gen.compliesToLowerE l v = .ok b ↔ l.compliesLower v = .ok b) := by
  rw [gen_compliesUpper_eq, gen_compliesLower_eq]
  constructor
  · cases l.compliesUpper v <;> simp [Py.call, pure, Except.pure, throw, throwThe, MonadExceptOf.throw]
  · cases l.compliesLower v <;> simp [Py.call, pure, Except.pure, throw, throwThe, MonadExceptOf.throw]

end OdxVerif.Compu
