import OdxVerif.Proofs.FieldTierItem
import OdxVerif.Proofs.ItemLoop
/-! Field tier, DYNAMIC-LENGTH-FIELD: an unsigned/signed integer count object at (`countBytePos`, `countBitPos`) relative
    to the field's first byte, the items (tier-2 structures, each with its own value tree, each consuming ≥ 1 byte) one
    after the other from `offset` on (`DynamicLengthField.encode_into_pdu` / `decode_from_pdu`; model: `encodeItems`,
    `decodeNItems`). An empty field still extends the message up to `offset` (`emplace_bytes(b"")`). -/
namespace OdxVerif.Codec
open OdxVerif.Bits OdxVerif.OdxM

/-! ### the bit cursor behind a standard-length object -/

theorem extractCore_cursorBit (bl : Nat) (bt : BaseType) (enc : Option Enc) (hl : Bool) (d d' : DecState) (st : Bool)
    (v : IVal) (h : extractCore bl bt enc hl d st = .ok (v, d')) : d'.cursorBit = 0 := by
  unfold extractCore at h
  obtain ⟨s, s1, _, h2⟩ := bind_ok h
  dsimp only at h2
  split at h2
  · simp [raise] at h2
  · split at h2
    · simp [raise] at h2
    · obtain ⟨v1, s2, _, h3⟩ := bind_ok h2
      obtain ⟨_, s3, h4, h5⟩ := bind_ok h3
      simp only [run_modifyS, Except.ok.injEq, Prod.mk.injEq, true_and] at h4
      simp only [pure, run_pure, Except.ok.injEq, Prod.mk.injEq] at h5
      rw [← h5.2, ← h4]

theorem extractAtomic_cursorBit (bl : Nat) (hbl : bl ≠ 0) (bt : BaseType) (enc : Option Enc) (hl : Bool) (d d' : DecState)
    (v : IVal) (h : extractAtomic bl bt enc hl d true = .ok (v, d')) : d'.cursorBit = 0 := by
  unfold extractAtomic at h
  rw [if_neg hbl] at h
  split at h
  · simp [raise] at h
  · split at h
    · obtain ⟨_, _, h1, _⟩ := bind_ok h
      simp [odxraise] at h1
    · split at h
      · obtain ⟨_, _, h1, _⟩ := bind_ok h
        simp [odxraise] at h1
      · exact extractCore_cursorBit _ _ _ _ _ _ _ _ h

/-- decoding a standard-length object leaves the bit cursor at 0 -/
theorem decodeDop_std_cursorBit (f : Nat) (bt : BaseType) (enc : Option Enc) (hl : Bool) (bl : Nat) (hbl : bl ≠ 0) (c : Bool)
    (phys : BaseType) (d d' : DecState) (v : PVal)
    (h : decodeDop (f + 1) (.simple (.std bt enc hl bl none c) phys .identical) d true = .ok (v, d')) : d'.cursorBit = 0 := by
  simp only [decodeDop, decodeDct] at h
  obtain ⟨iv, d1, h1, h2⟩ := bind_ok h
  simp only [pure, run_pure, Except.ok.injEq, Prod.mk.injEq] at h2
  rw [← h2.2]
  exact extractAtomic_cursorBit bl hbl bt enc hl d d1 iv h1

/-! ### the items -/

/-- one item of a dynamic-length field: a structure that consumes at least one byte -/
def dynItem (k : List Tree) : Pair PVal := (structPair k).advancing

theorem dynItem_good (k : List Tree) (hok : Trees.okAll k) (hsz : 1 ≤ Trees.size k) : Good (dynItem k) :=
  (structPair_good k hok).advancing (fun s => by rw [structPair_enc_cursor]; omega)

theorem dynItem_originFree (k : List Tree) : OriginFree (dynItem k) := (structPair_originFree k).advancing

theorem dynItems_good (ks : List (List Tree)) (h : ∀ k ∈ ks, Trees.okAll k ∧ 1 ≤ Trees.size k) :
    Good (Pair.list (ks.map dynItem)) :=
  Good.list _ (by
    intro c hc
    obtain ⟨x, hx, rfl⟩ := List.mem_map.mp hc
    exact dynItem_good x (h x hx).1 (h x hx).2)

/-- the item loop of the dynamic fields (`encodeItems`) = the pure list of items -/
theorem encodeItems_eq (shape : List Tree) (eop : Bool) : ∀ (ks : List (List Tree)) (m : Nat),
    (∀ k ∈ ks, itemOk shape k ∧ 1 ≤ Trees.size k ∧ Trees.need k ≤ m) → ∀ (fuel : Nat), ks.length + m + 3 ≤ fuel →
    ∀ (s : EncState), s.cursorBit = 0 →
    ∃ s', encodeItems (.struct none (Trees.toParams shape)) eop fuel (itemVals ks) s true = .ok ((), s') ∧
      SameCore s' ((Pair.list (ks.map dynItem)).enc s) ∧ s'.cursorBit = 0 := by
  intro ks
  induction ks with
  | nil =>
    intro m _ fuel hf s hcb
    obtain ⟨f, rfl⟩ : ∃ f, fuel = f + 1 := ⟨fuel - 1, by omega⟩
    exact ⟨s, by simp [itemVals, encodeItems, pure, run_pure], SameCore.refl _, hcb⟩
  | cons k ks ih =>
    intro m hall fuel hf s hcb
    obtain ⟨f, rfl⟩ : ∃ f, fuel = f + 1 := ⟨fuel - 1, by simp only [List.length_cons] at hf; omega⟩
    simp only [List.length_cons] at hf
    obtain ⟨⟨hshape, hok, hn⟩, hsz, hneed⟩ := hall k (List.mem_cons_self ..)
    have hgk := structPair_good k hok
    cases ks with
    | nil =>
      -- the last item inherits `is_end_of_pdu`
      obtain ⟨s1, hrun1, hc1, hcb1⟩ := encodeDop_struct_trees k hok hn f (by omega) { s with isEndOfPdu := eop } hcb
      rw [hshape] at hrun1
      refine ⟨s1, ?_, ?_, hcb1⟩
      · simp only [itemVals, List.map_cons, List.map_nil]
        -- the item occupies `Trees.size k ≥ 1` bytes: the cursor check of the repaired encoder passes
        refine encodeItems_one_ok _ eop f _ s s1 true hrun1 ?_
        have := hc1.2.2.2.1
        rw [structPair_enc_cursor] at this
        simp only [] at this
        omega
      · have h0 : SameCore { s with isEndOfPdu := eop } s := ⟨rfl, rfl, rfl, rfl, rfl⟩
        exact hc1.trans (hgk.core _ _ h0)
    | cons k2 rest =>
      obtain ⟨s1, hrun1, hc1, hcb1⟩ := encodeDop_struct_trees k hok hn f (by omega) s hcb
      rw [hshape] at hrun1
      obtain ⟨s3, hrun3, hc3, hcb3⟩ := ih m (fun x hx => hall x (List.mem_cons_of_mem _ hx)) f
        (by simp only [List.length_cons] at hf ⊢; omega) s1 hcb1
      have hg : Good (Pair.list ((k2 :: rest).map dynItem)) :=
        dynItems_good _ (fun x hx => ⟨(hall x (List.mem_cons_of_mem _ hx)).1.2.1, (hall x (List.mem_cons_of_mem _ hx)).2.1⟩)
      refine ⟨s3, ?_, ?_, hcb3⟩
      · have hrun3' : encodeItems (.struct none (Trees.toParams shape)) eop f
            (PVal.dict (Trees.pair k2).val :: itemVals rest) s1 true = .ok ((), s3) := hrun3
        simp only [itemVals, List.map_cons]
        rw [encodeItems_cons_ok _ eop f _ _ _ s s1 true hrun1 (by
          have := hc1.2.2.2.1
          rw [structPair_enc_cursor] at this
          omega)]
        exact hrun3'
      · show SameCore s3 ((Pair.list ((k2 :: rest).map dynItem)).enc ((structPair k).enc s))
        exact hc3.trans (hg.core _ _ hc1)

theorem dynItems_dec_cursorBit : ∀ (ks : List (List Tree)) (d : DecState), d.cursorBit = 0 →
    ((Pair.list (ks.map dynItem)).dec d).2.cursorBit = 0
  | [], _, h => h
  | k :: ks, d, h => by
    simp only [List.map_cons, Pair.list, Pair.map, Pair.seq]
    exact dynItems_dec_cursorBit ks _ (structPair_dec_cursorBit k d h)

/-- the counted item loop of the decoder = the pure list of items -/
theorem decodeNItems_eq (shape : List Tree) : ∀ (ks : List (List Tree)) (m : Nat),
    (∀ k ∈ ks, itemOk shape k ∧ Trees.need k ≤ m) → ∀ (fuel : Nat), ks.length + m + 3 ≤ fuel →
    ∀ (d : DecState), d.cursorBit = 0 → (Pair.list (ks.map dynItem)).fits d →
    decodeNItems (.struct none (Trees.toParams shape)) fuel ks.length d true =
      .ok (((Pair.list (ks.map dynItem)).dec d).1, ((Pair.list (ks.map dynItem)).dec d).2) := by
  intro ks
  induction ks with
  | nil =>
    intro m _ fuel hf d _ _
    obtain ⟨f, rfl⟩ : ∃ f, fuel = f + 1 := ⟨fuel - 1, by omega⟩
    simp [decodeNItems, pure, run_pure, Pair.list, Pair.nil]
  | cons k ks ih =>
    intro m hall fuel hf d hcb hfit
    obtain ⟨f, rfl⟩ : ∃ f, fuel = f + 1 := ⟨fuel - 1, by simp only [List.length_cons] at hf; omega⟩
    simp only [List.length_cons] at hf
    obtain ⟨⟨hshape, hok, hn⟩, hneed⟩ := hall k (List.mem_cons_self ..)
    have hfit' : ((structPair k).fits d ∧ d.cursorByte < ((structPair k).dec d).2.cursorByte) ∧
        (Pair.list (ks.map dynItem)).fits ((structPair k).dec d).2 := hfit
    have h1 := decodeDop_struct_trees k hok f (by omega) d hcb hfit'.1.1
    rw [hshape] at h1
    have h2 := ih m (fun x hx => hall x (List.mem_cons_of_mem _ hx)) f (by omega) ((structPair k).dec d).2
      (structPair_dec_cursorBit k d hcb) hfit'.2
    have hadv : ¬ (((structPair k).dec d).2.cursorByte ≤ d.cursorByte) := by omega
    simp only [List.length_cons, decodeNItems, bind, pure, run_bind, run_getS, run_pure, run_ite, h1, hadv, if_false, h2]
    rfl

/-! ### the DYNAMIC-LENGTH-FIELD as a VALUE parameter -/

/-- a VALUE parameter whose DOP is a DYNAMIC-LENGTH-FIELD over a tier-2 structure -/
structure DynLeaf where
  name : String
  bytePos : Option Nat          -- BYTE-POSITION of the parameter
  offset : Nat                  -- OFFSET of the first item (relative to the field's first byte)
  cntBp : Nat                   -- DETERMINE-NUMBER-OF-ITEMS / BYTE-POSITION
  cnt : Obj                     -- the count object: bit position, bit length, type (its `name`/`bytePos` are ignored)
  shape : List Tree             -- the parameters of the item structure
  items : List (List Tree)      -- one value tree per item

def DynLeaf.cntObj (f : DynLeaf) : Obj := { f.cnt with name := "", bytePos := some f.cntBp }

def DynLeaf.cntDop (f : DynLeaf) : Dop :=
  .simple (.std f.cntObj.bt f.cnt.enc f.cnt.hl f.cnt.bl none false) f.cntObj.bt .identical

def DynLeaf.dop (f : DynLeaf) : Dop :=
  .dynLenField f.offset f.cntBp f.cnt.bp f.cntDop (.struct none (Trees.toParams f.shape))

def DynLeaf.toParam (f : DynLeaf) : Param := .mk f.name f.bytePos none (.value f.dop none)

/-- the count object is an integer object able to hold the number of items and lies before `offset`; every item is a
    value assignment of the item structure that consumes at least one byte -/
def DynLeaf.ok (f : DynLeaf) : Prop :=
  f.cntObj.ok ∧ f.cntObj.inRange (.int f.items.length) ∧ f.cntBp + f.cntObj.k ≤ f.offset ∧
  ∀ k ∈ f.items, itemOk f.shape k ∧ 1 ≤ Trees.size k

def DynLeaf.need (f : DynLeaf) : Nat := f.items.length + maxNeed f.items + 8

/-- the items behind `offset`; an empty field only extends the message up to there -/
def dynBody : List (List Tree) → Pair (List PVal)
  | [] => Pair.touch.map (fun _ => [])
  | k :: ks => Pair.list ((k :: ks).map dynItem)

theorem dynBody_val (ks : List (List Tree)) : (dynBody ks).val = itemVals ks := by
  cases ks with
  | nil => rfl
  | cons k ks =>
    show (Pair.list ((k :: ks).map dynItem)).val = _
    rw [Pair.list_val, List.map_map]
    rfl

theorem dynBody_good (ks : List (List Tree)) (h : ∀ k ∈ ks, Trees.okAll k ∧ 1 ≤ Trees.size k) : Good (dynBody ks) := by
  cases ks with
  | nil => exact Good.map (fun _ => []) Good.touch
  | cons k ks => exact dynItems_good _ h

/-- pure encoder/decoder: the count, then the items from `offset` on, all relative to the field's first byte -/
def DynLeaf.inner (f : DynLeaf) : Pair PVal :=
  (((Pair.ofObj f.cntObj (.int f.items.length)).guard (· = IVal.int f.items.length)).seq
      ((dynBody f.items).atPos (some f.offset))).map (fun p => PVal.list p.2)

def DynLeaf.pair (f : DynLeaf) : Pair PVal := (f.inner.inOrigin).atPos f.bytePos

theorem DynLeaf.good (f : DynLeaf) (h : f.ok) : Good f.pair := by
  obtain ⟨hc, hr, _, hitems⟩ := h
  have h1 : Good ((Pair.ofObj f.cntObj (.int f.items.length)).guard (· = IVal.int f.items.length)) :=
    (Good.ofObj f.cntObj hc _ hr).guard _ rfl
  have h2 : Good (dynBody f.items) := dynBody_good _ (fun k hk => ⟨(hitems k hk).1.2.1, (hitems k hk).2⟩)
  exact (((h1.seq (h2.atPos (some f.offset))).map _).inOrigin).atPos f.bytePos

theorem DynLeaf.pair_val (f : DynLeaf) : f.pair.val = PVal.list (itemVals f.items) := by
  show PVal.list (dynBody f.items).val = _
  rw [dynBody_val]

/-- the count object handed to `encodeDop` directly: the same bytes as the positioned parameter, bit cursor aside -/
theorem encodeDop_obj (o : Obj) (ho : o.ok) (v : IVal) (hr : o.inRange v) (g : Nat) (s : EncState) :
    ∃ sc, encodeDop (g + 1) (.simple (.std o.bt o.enc o.hl o.bl none false) o.bt .identical) (.atom v)
        { s with cursorByte := posOf o.bytePos s.origin s.cursorByte, cursorBit := o.bitPos.getD 0 } true = .ok ((), sc) ∧
      ({ sc with cursorBit := 0 } : EncState) = encStep o v s := by
  have h := encodeParam_obj o ho v hr g s
  unfold Obj.toParam at h
  rw [encodeParam_value_step] at h
  cases hr : encodeDop (g + 1) (.simple (.std o.bt o.enc o.hl o.bl none false) o.bt .identical) (.atom v)
      { s with cursorByte := posOf o.bytePos s.origin s.cursorByte, cursorBit := o.bitPos.getD 0 } true with
  | error e => rw [hr] at h; cases h
  | ok p =>
    obtain ⟨u, sc⟩ := p
    rw [hr] at h
    simp only [Except.ok.injEq, Prod.mk.injEq, true_and] at h
    exact ⟨sc, rfl, h⟩

/-- what the dynamic-length-field encoder does behind the item loop: restore `is_end_of_pdu`; an empty field calls
    `emplace_bytes(b"")` -/
def dynTail (xs : List PVal) (eop : Bool) (s3 : EncState) : Except (Err × EncState) (Unit × EncState) :=
  if xs.length = 0 then emplaceBytes [] none { s3 with isEndOfPdu := eop } true
  else .ok ((), { s3 with isEndOfPdu := eop })

/-- one unfolding of the dynamic-length-field encoder once the count object is written (state `sc`) -/
theorem encodeDop_dyn_step (f : Nat) (offset cbp cbit : Nat) (cd item : Dop) (xs : List PVal) (s sc : EncState)
    (hcb : s.cursorBit = 0)
    (hcnt : encodeDop f cd (.atom (.int xs.length))
      { s with origin := s.cursorByte, cursorBit := cbit, cursorByte := s.cursorByte + cbp } true = .ok ((), sc))
    (hoff : sc.cursorByte - sc.origin ≤ offset) :
    encodeDop (f + 1) (.dynLenField offset cbp cbit cd item) (.list xs) s true =
      (match encodeItems item s.isEndOfPdu f xs
          { sc with cursorByte := sc.origin + offset, cursorBit := 0, isEndOfPdu := false } true with
       | .ok (_, s3) =>
         (match dynTail xs s.isEndOfPdu s3 with
          | .ok (_, s4) => .ok ((), { s4 with origin := s.origin })
          | .error e => .error e)
       | .error e => .error e) := by
  have hgt : ¬ (sc.cursorByte - sc.origin > offset) := by omega
  simp only [encodeDop, bind, pure, run_bind, run_getS, run_modifyS, run_ite, run_pure, odxassert, hcb, decide_true,
    if_true, hcnt, hgt, if_false]
  generalize encodeItems item s.isEndOfPdu f xs _ true = r
  cases r with
  | error e => rfl
  | ok p =>
    obtain ⟨u, s3⟩ := p
    simp only [dynTail]
    by_cases hz : xs.length = 0
    · simp only [hz, if_true]
      generalize emplaceBytes [] none _ true = r2
      cases r2 with
      | error e => rfl
      | ok q => cases q; rfl
    · simp only [hz, if_false]

/-- item loop + tail of the dynamic-length-field encoder = the pure body -/
theorem dynBody_encode_eq (shape : List Tree) (eop e2 : Bool) (ks : List (List Tree)) (m : Nat)
    (hall : ∀ k ∈ ks, itemOk shape k ∧ 1 ≤ Trees.size k ∧ Trees.need k ≤ m) (fuel : Nat) (hf : ks.length + m + 3 ≤ fuel)
    (T : EncState) (hcb : T.cursorBit = 0) :
    ∃ s3 s4, encodeItems (.struct none (Trees.toParams shape)) eop fuel (itemVals ks) T true = .ok ((), s3) ∧
      dynTail (itemVals ks) e2 s3 = .ok ((), s4) ∧ SameCore s4 ((dynBody ks).enc T) := by
  cases ks with
  | nil =>
    obtain ⟨f, rfl⟩ : ∃ f, fuel = f + 1 := ⟨fuel - 1, by omega⟩
    refine ⟨T, padEnc 0 { T with isEndOfPdu := e2 }, by simp [itemVals, encodeItems, pure, run_pure], ?_, ?_⟩
    · have hemp := emplaceBytes_zeros 0 { T with isEndOfPdu := e2 } hcb
      rw [show List.replicate 0 (0 : Nat) = [] from rfl] at hemp
      simp only [dynTail, itemVals, List.map_nil, List.length_nil, if_true, hemp]
    · exact padEnc_sameCore 0 _ _ ⟨rfl, rfl, rfl, rfl, rfl⟩
  | cons k ks =>
    obtain ⟨s3, hrun3, hc3, _⟩ := encodeItems_eq shape eop (k :: ks) m hall fuel hf T hcb
    refine ⟨s3, { s3 with isEndOfPdu := e2 }, hrun3, ?_, ?_⟩
    · simp [dynTail, itemVals]
    · exact ⟨hc3.1, hc3.2.1, hc3.2.2.1, hc3.2.2.2.1, hc3.2.2.2.2⟩

theorem DynLeaf.encode_eq (f : DynLeaf) (hok : f.ok) (fuel : Nat) (hf : f.need ≤ fuel) (s : EncState) :
    ∃ s', encodeParam fuel f.toParam (some f.pair.val) s true = .ok ((), s') ∧ SameCore s' (f.pair.enc s) := by
  obtain ⟨hc, hr, hoff, hitems⟩ := hok
  unfold DynLeaf.need at hf
  obtain ⟨g, rfl⟩ : ∃ g, fuel = g + 1 + 1 + 1 := ⟨fuel - 3, by omega⟩
  -- where the field starts, and the state its members are laid out in
  let s1 : EncState := { s with cursorByte := posOf f.bytePos s.origin s.cursorByte, cursorBit := 0 }
  let s2 : EncState := { s1 with origin := s1.cursorByte }
  obtain ⟨sc, hcnt, hsc⟩ := encodeDop_obj f.cntObj hc (.int f.items.length) hr g s2
  let E : EncState := encStep f.cntObj (.int f.items.length) s2
  have hscE : ({ sc with cursorBit := 0 } : EncState) = E := hsc
  have hsc_cur : sc.cursorByte = E.cursorByte := by have := congrArg EncState.cursorByte hscE; exact this
  have hsc_org : sc.origin = E.origin := by have := congrArg EncState.origin hscE; exact this
  have hEcur : E.cursorByte = s1.cursorByte + f.cntBp + f.cntObj.k := rfl
  have hEorg : E.origin = s1.cursorByte := rfl
  -- the state the items start from
  let T : EncState := { E with cursorByte := E.origin + f.offset, isEndOfPdu := false }
  have hT : ({ sc with cursorByte := sc.origin + f.offset, cursorBit := 0, isEndOfPdu := false } : EncState) = T := by
    show _ = ({ E with cursorByte := E.origin + f.offset, isEndOfPdu := false } : EncState)
    rw [← hscE]
  obtain ⟨s3, s4, hrun3, htail, hc4⟩ := dynBody_encode_eq f.shape s1.isEndOfPdu s1.isEndOfPdu f.items (maxNeed f.items)
    (fun k hk => ⟨(hitems k hk).1, (hitems k hk).2, maxNeed_ge f.items k hk⟩) (g + 1) (by omega) T rfl
  have hgk : Good (Pair.ofObj f.cntObj (.int f.items.length)) := Good.ofObj f.cntObj hc _ hr
  have hgb : Good (dynBody f.items) := dynBody_good _ (fun k hk => ⟨(hitems k hk).1.2.1, (hitems k hk).2⟩)
  have hcntRun : encodeDop (g + 1) f.cntDop (.atom (.int (itemVals f.items).length))
      { s1 with origin := s1.cursorByte, cursorBit := f.cnt.bp, cursorByte := s1.cursorByte + f.cntBp } true = .ok ((), sc) := by
    rw [itemVals_length]; exact hcnt
  have hstep := encodeDop_dyn_step (g + 1) f.offset f.cntBp f.cnt.bp f.cntDop (.struct none (Trees.toParams f.shape))
    (itemVals f.items) s1 sc rfl hcntRun (by rw [hsc_cur, hsc_org, hEcur, hEorg]; omega)
  rw [hT, hrun3] at hstep
  simp only [htail] at hstep
  -- the pure side
  have hcoreIn : SameCore s2 { s with cursorByte := posOf f.bytePos s.origin s.cursorByte,
                                      origin := posOf f.bytePos s.origin s.cursorByte } := ⟨rfl, rfl, rfl, rfl, rfl⟩
  let s0 : EncState := { s with cursorByte := posOf f.bytePos s.origin s.cursorByte,
                                origin := posOf f.bytePos s.origin s.cursorByte }
  let P : EncState := (Pair.ofObj f.cntObj (.int f.items.length)).enc s0
  have hE : SameCore E P := hgk.core _ _ hcoreIn
  have hTcore : SameCore T { P with cursorByte := posOf (some f.offset) P.origin P.cursorByte } :=
    ⟨hE.1, hE.2.1, hE.2.2.1, by show E.origin + f.offset = P.origin + f.offset; rw [hE.2.2.2.2], hE.2.2.2.2⟩
  refine ⟨{ s4 with origin := s1.origin, cursorBit := 0 }, ?_, ?_⟩
  · rw [DynLeaf.pair_val]
    unfold DynLeaf.toParam
    rw [encodeParam_value_step]
    simp only [Option.getD_none]
    unfold DynLeaf.dop
    rw [hstep]
  · have h1 := hc4.trans (hgb.core _ _ hTcore)
    exact ⟨h1.1, h1.2.1, h1.2.2.1, h1.2.2.2.1, rfl⟩

/-! ### decoding -/

/-- the count object handed to `decodeDop` directly = the pure step -/
theorem decodeDop_obj (o : Obj) (ho : o.ok) (g : Nat) (d : DecState)
    (hlen : o.pos d.origin d.cursorByte + o.k ≤ d.msg.length)
    (hdec : o.decodes (readNum d.msg (o.pos d.origin d.cursorByte) o.k o.hl / 2 ^ o.bp % 2 ^ o.bl)) :
    decodeDop (g + 1) (.simple (.std o.bt o.enc o.hl o.bl none false) o.bt .identical)
        { d with cursorByte := posOf o.bytePos d.origin d.cursorByte, cursorBit := o.bitPos.getD 0 } true =
      .ok (.atom (decStep o d).1, (decStep o d).2) := by
  have h := decodeParam_obj o ho g d hlen hdec
  unfold Obj.toParam at h
  rw [decodeParam_value_step] at h
  have hbl : o.bl ≠ 0 := by have := ho.2.1; omega
  cases hr : decodeDop (g + 1) (.simple (.std o.bt o.enc o.hl o.bl none false) o.bt .identical)
      { d with cursorByte := posOf o.bytePos d.origin d.cursorByte, cursorBit := o.bitPos.getD 0 } true with
  | error e => rw [hr] at h; cases h
  | ok p =>
    obtain ⟨v, dc⟩ := p
    rw [hr] at h
    have hcb := decodeDop_std_cursorBit g _ _ _ _ hbl _ _ _ _ _ hr
    simp only [Except.ok.injEq, Prod.mk.injEq] at h
    have hdc : dc = { dc with cursorBit := 0 } := by
      cases dc
      simp only at hcb
      subst hcb
      rfl
    rw [h.1, hdc, h.2]

/-- one unfolding of the dynamic-length-field decoder once the count `n` is read (state `dc`) -/
theorem decodeDop_dyn_step (f : Nat) (offset cbp cbit : Nat) (cd item : Dop) (d dc : DecState) (n : Nat)
    (hcb : d.cursorBit = 0)
    (hcnt : decodeDop f cd { d with origin := d.cursorByte, cursorByte := d.cursorByte + cbp, cursorBit := cbit } true =
      .ok (.atom (.int n), dc)) :
    decodeDop (f + 1) (.dynLenField offset cbp cbit cd item) d true =
      (match decodeNItems item f n { dc with cursorByte := dc.origin + offset } true with
       | .ok (xs, d3) => .ok (.list xs, { d3 with origin := d.origin })
       | .error e => .error e) := by
  have hneg : ¬ ((n : Int) < 0) := by omega
  simp only [decodeDop, bind, pure, run_bind, run_getS, run_modifyS, run_pure, run_ite, odxassert, hcb, decide_true, if_true,
    hcnt, hneg, if_false, Int.toNat_natCast]
  generalize decodeNItems item f n _ true = r
  cases r with
  | error e => rfl
  | ok p => cases p; rfl

theorem dynBody_dec_cursorBit (ks : List (List Tree)) (d : DecState) (h : d.cursorBit = 0) :
    ((dynBody ks).dec d).2.cursorBit = 0 := by
  cases ks with
  | nil => exact h
  | cons k ks => exact dynItems_dec_cursorBit (k :: ks) d h

theorem dynBody_decode_eq (shape : List Tree) (ks : List (List Tree)) (m : Nat)
    (hall : ∀ k ∈ ks, itemOk shape k ∧ Trees.need k ≤ m) (fuel : Nat) (hf : ks.length + m + 3 ≤ fuel)
    (d : DecState) (hcb : d.cursorBit = 0) (hfit : (dynBody ks).fits d) :
    decodeNItems (.struct none (Trees.toParams shape)) fuel ks.length d true =
      .ok (((dynBody ks).dec d).1, ((dynBody ks).dec d).2) := by
  cases ks with
  | nil =>
    obtain ⟨f, rfl⟩ : ∃ f, fuel = f + 1 := ⟨fuel - 1, by omega⟩
    simp [decodeNItems, pure, run_pure, dynBody, Pair.touch, Pair.map]
  | cons k ks => exact decodeNItems_eq shape (k :: ks) m hall fuel hf d hcb hfit

theorem DynLeaf.dec_cursorBit (f : DynLeaf) (d : DecState) (_h : d.cursorBit = 0) : (f.pair.dec d).2.cursorBit = 0 :=
  dynBody_dec_cursorBit f.items _ rfl

theorem DynLeaf.decode_eq (f : DynLeaf) (hok : f.ok) (fuel : Nat) (hf : f.need ≤ fuel) (d : DecState)
    (hcb : d.cursorBit = 0) (hfit : f.pair.fits d) :
    decodeParam fuel f.toParam d true = .ok ((f.pair.dec d).1, (f.pair.dec d).2) := by
  obtain ⟨hc, hr, hoff, hitems⟩ := hok
  unfold DynLeaf.need at hf
  obtain ⟨g, rfl⟩ : ∃ g, fuel = g + 1 + 1 + 1 := ⟨fuel - 3, by omega⟩
  let d1 : DecState := { d with cursorByte := posOf f.bytePos d.origin d.cursorByte, cursorBit := 0 }
  let d2 : DecState := { d1 with origin := d1.cursorByte }
  have hd2 : d2 = { d with cursorByte := posOf f.bytePos d.origin d.cursorByte,
                           origin := posOf f.bytePos d.origin d.cursorByte } := by
    show ({ d with cursorByte := posOf f.bytePos d.origin d.cursorByte, cursorBit := 0,
                   origin := posOf f.bytePos d.origin d.cursorByte } : DecState) = _
    rw [← hcb]
  -- what `fits` says
  let D : DecState := (decStep f.cntObj d2).2
  have hfit' : (f.cntObj.fitsIn d2 ∧
        (decStep f.cntObj d2).1 = IVal.int f.items.length) ∧
      (dynBody f.items).fits { D with cursorByte := posOf (some f.offset) D.origin D.cursorByte } := by
    rw [hd2]; exact hfit
  obtain ⟨⟨⟨hkfit, hkdec⟩, hkval⟩, hbfit⟩ := hfit'
  have hcnt := decodeDop_obj f.cntObj hc g d2 hkfit hkdec
  rw [hkval] at hcnt
  have hcnt' : decodeDop (g + 1) f.cntDop
      { d1 with origin := d1.cursorByte, cursorByte := d1.cursorByte + f.cntBp, cursorBit := f.cnt.bp } true =
      .ok (.atom (.int f.items.length), D) := hcnt
  have hstep := decodeDop_dyn_step (g + 1) f.offset f.cntBp f.cnt.bp f.cntDop (.struct none (Trees.toParams f.shape))
    d1 D f.items.length rfl hcnt'
  have hbody := dynBody_decode_eq f.shape f.items (maxNeed f.items)
    (fun k hk => ⟨(hitems k hk).1, maxNeed_ge f.items k hk⟩) (g + 1) (by omega)
    { D with cursorByte := posOf (some f.offset) D.origin D.cursorByte } rfl hbfit
  have hbody' : decodeNItems (.struct none (Trees.toParams f.shape)) (g + 1) f.items.length
      { D with cursorByte := D.origin + f.offset } true = _ := hbody
  rw [hbody'] at hstep
  have hcb3 := dynBody_dec_cursorBit f.items { D with cursorByte := posOf (some f.offset) D.origin D.cursorByte } rfl
  unfold DynLeaf.toParam
  rw [decodeParam_value_step]
  simp only [Option.getD_none]
  unfold DynLeaf.dop
  rw [hstep]
  simp only []
  let d0 : DecState := { d with cursorByte := posOf f.bytePos d.origin d.cursorByte,
                                origin := posOf f.bytePos d.origin d.cursorByte }
  let D0 : DecState := (decStep f.cntObj d0).2
  let B : List PVal × DecState :=
    (dynBody f.items).dec { D0 with cursorByte := posOf (some f.offset) D0.origin D0.cursorByte }
  have hpure : f.pair.dec d = (PVal.list B.1, { B.2 with origin := d.origin }) := rfl
  rw [hpure]
  have hD : D = D0 := by
    show (decStep f.cntObj d2).2 = (decStep f.cntObj d0).2
    rw [hd2]
  rw [hD] at hcb3 ⊢
  have hcb3' : B.2.cursorBit = 0 := hcb3
  show Except.ok (PVal.list B.1, ({ B.2 with origin := d.origin, cursorBit := 0 } : DecState)) = _
  simp only [Except.ok.injEq, Prod.mk.injEq, true_and]
  rw [← hcb3']

end OdxVerif.Codec
