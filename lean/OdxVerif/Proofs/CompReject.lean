import OdxVerif.Proofs.CompSkip
import OdxVerif.Proofs.StructReject
/-! Compositional tier, rejection side (task W14, C04): *descriptions without baked-in values*.
    A `PDesc` is a parameter description together with its **acceptance function** `fill`: what the value supplied for it
    (the result of `physical_value.get(name)`, any `PVal` whatsoever or nothing) makes of it — `some g`: a component `g`
    (`Proofs/CompCore.lean`) with that value baked in, `none`: the strict encoder rejects.  `DDesc` is the same for a complex
    DOP.  `PDesc.Ok` / `DDesc.Ok` are the two refinement statements against the model:
    * `acc`: `fill pv = some g` → `g` is a component (`Comp.Ok`, `Comp.EndOk`) of exactly this parameter with exactly this
      supplied value, whose decoded value is `complete pv` — so everything proved about components applies (the model's encoder
      equals the pure encoder, the round trip);
    * `rej`: `fill pv = none` → the model's strict `encodeParam` / `encodeDop` ends in `EncodeError` / `OdxError` — or in
      `unmodelled` and then `typed pv = false` (an atom of a Python type the model does not follow was supplied).
    This file: the notions, the leaves (VALUE over the integer kinds, VALUE with default, CODED-CONST, PHYS-CONST), closure
    under "VALUE parameter typed by a complex DOP" and under STRUCTURE, and the message level. Core Lean only. -/
namespace OdxVerif.Codec
open OdxVerif.Bits OdxVerif.OdxM

/-- a parameter description with its acceptance function -/
structure PDesc where
  param : Param
  fill : Option PVal → Option Comp      -- the component for the supplied value (after `lookupV`), if the value is acceptable
  complete : Option PVal → PVal         -- the value the decoder is to return for it
  typed : Option PVal → Bool            -- no atom of a Python type the model does not follow
  need : Option PVal → Nat              -- fuel the model needs
  mayEop : Bool := false                -- may contain an END-OF-PDU-FIELD in last position
  minAdv : Nat := 0                     -- lower bound of the encoder's cursor behind it

def PDesc.name (p : PDesc) : String := p.param.name

/-- `g` is the component of `p` for the supplied value `pv` -/
structure Comp.Fills (g : Comp) (p : PDesc) (pv : Option PVal) : Prop where
  ok : g.Ok
  endOk : g.EndOk
  param : g.param = p.param
  sup : g.sup = pv
  need : g.need ≤ p.need pv
  eop : g.eopOnly = true → p.mayEop = true
  adv : ∀ (org c : Nat), p.minAdv ≤ g.cur org c
  val : g.pair.val = p.complete pv

structure PDesc.Ok (p : PDesc) : Prop where
  notKey : p.param.kind.isKey = false
  acc : ∀ (pv : Option PVal) (g : Comp), pv ≠ some PVal.none → p.fill pv = some g → g.Fills p pv
  rej : ∀ (pv : Option PVal), pv ≠ some PVal.none → p.fill pv = none → ∀ (fuel : Nat), p.need pv ≤ fuel → ∀ (s : EncState),
    (p.mayEop = true → s.isEndOfPdu = true) →
    ∃ e s', encodeParam fuel p.param pv s true = .error (e, s') ∧ RejErr e (p.typed pv)

/-- a complex-DOP description with its acceptance function -/
structure DDesc where
  dop : Dop
  fill : PVal → Option DComp
  complete : PVal → PVal
  typed : PVal → Bool
  need : PVal → Nat
  mayEop : Bool := false
  minSize : Nat := 0

structure DComp.Fills (c : DComp) (d : DDesc) (pv : PVal) : Prop where
  ok : c.Ok
  endOk : c.EndOk
  dop : c.dop = d.dop
  sup : c.sup = pv
  need : c.need ≤ d.need pv
  eop : c.eopOnly = true → d.mayEop = true
  size : d.minSize ≤ c.size
  val : c.pair.val = d.complete pv

structure DDesc.Ok (d : DDesc) : Prop where
  acc : ∀ (pv : PVal) (c : DComp), d.fill pv = some c → c.Fills d pv
  rej : ∀ (pv : PVal), d.fill pv = none → ∀ (fuel : Nat), d.need pv ≤ fuel → ∀ (s : EncState), s.cursorBit = 0 →
    (d.mayEop = true → s.isEndOfPdu = true) →
    ∃ e s', encodeDop fuel d.dop pv s true = .error (e, s') ∧ RejErr e (d.typed pv)

theorem RejErr.encode (b : Bool) : RejErr .encode b := Or.inl (Or.inl rfl)
theorem RejErr.odx (b : Bool) : RejErr .odx b := Or.inl (Or.inr rfl)

theorem lookupV_ne_none (n : String) (kvs : List (String × PVal)) : lookupV n kvs ≠ some PVal.none := by
  unfold lookupV
  cases h : lookup n kvs with
  | none => simp
  | some x => cases x <;> simp

/-! ### leaves -/

/-- the leaf objects whose encoder rejects every value it cannot represent with a library error (or with `unmodelled` where
    `typed` says so) -/
def Obj.Rejects (o : Obj) (typed : Option PVal → Bool) : Prop :=
  ∀ (pv : Option PVal), pv ≠ some PVal.none → (∀ v, pv = some (.atom v) → o.accepts v = false) → ∀ (fuel : Nat) (s : EncState),
    ∃ e s', encodeParam (fuel + 2) o.toParam pv s true = .error (e, s') ∧ RejErr e (typed pv)

/-- the integer kinds (`A_INT32` in its four encodings, `A_UINT32`): `EncodeError` / `OdxError`, whatever is supplied -/
theorem Obj.rejects_of_int (o : Obj) (ho : o.ok) (hint : o.isInt) : o.Rejects (fun _ => true) := by
  intro pv hne hbad fuel s
  cases pv with
  | none =>
    obtain ⟨e, s', hrun, he⟩ := encodeParam_obj_bad o ho hint [] (by simp [Obj.pick, lookup]) fuel s
    exact ⟨e, s', by simpa [lookupV, lookup] using hrun, Or.inl he⟩
  | some x =>
    have hl : lookup o.name [(o.name, x)] = some x := by simp [lookup]
    have hlV : lookupV o.name [(o.name, x)] = some x := by
      unfold lookupV; rw [hl]
      cases x <;> simp_all
    have hp : o.pick [(o.name, x)] = none := by
      unfold Obj.pick; rw [hl]
      cases x with
      | atom v => simp [hbad v rfl]
      | _ => rfl
    obtain ⟨e, s', hrun, he⟩ := encodeParam_obj_bad o ho hint [(o.name, x)] hp fuel s
    rw [hlV] at hrun
    exact ⟨e, s', hrun, Or.inl he⟩

/-- VALUE parameter over a standard-length object, no default -/
def PDesc.ofObjValue (o : Obj) (typed : Option PVal → Bool) : PDesc where
  param := o.toParam
  fill := fun pv => match pv with
    | some (.atom v) => if o.accepts v then some (Comp.ofObjValue o v) else none
    | _ => none
  complete := fun pv => pv.getD .none
  typed := typed
  need := fun _ => 2
  minAdv := 1

theorem Obj.k_pos (o : Obj) (ho : o.ok) : 1 ≤ o.k := by
  have := ho.2.1
  unfold Obj.k
  omega

theorem PDesc.ofObjValue_ok (o : Obj) (typed : Option PVal → Bool) (ho : o.ok) (hrej : o.Rejects typed) :
    (PDesc.ofObjValue o typed).Ok where
  notKey := rfl
  acc := by
    intro pv g _ hf
    have key : ∃ v, pv = some (.atom v) ∧ o.accepts v = true ∧ g = Comp.ofObjValue o v := by
      cases pv with
      | none => simp [PDesc.ofObjValue] at hf
      | some x =>
        cases x with
        | atom v =>
          simp only [PDesc.ofObjValue] at hf
          cases hacc : o.accepts v with
          | false => rw [hacc] at hf; simp at hf
          | true => rw [hacc] at hf; simp only [if_true, Option.some.injEq] at hf; exact ⟨v, rfl, hacc, hf.symm⟩
        | _ => simp [PDesc.ofObjValue] at hf
    obtain ⟨v, rfl, hacc, rfl⟩ := key
    have hr := (o.accepts_iff ho v).mp hacc
    exact {
      ok := Comp.ofObjValue_ok o v ho hr
      endOk := Comp.ofObjValue_endOk o v
      param := rfl
      sup := rfl
      need := Nat.le_refl _
      eop := fun h => by cases h
      adv := fun org c => by
        have := o.k_pos ho
        show 1 ≤ o.pos org c + o.k
        omega
      val := rfl }
  rej := by
    intro pv hne hf fuel hfu s _
    obtain ⟨f, rfl⟩ : ∃ f, fuel = f + 2 := ⟨fuel - 2, by simp only [PDesc.ofObjValue] at hfu; omega⟩
    apply hrej pv hne _ f s
    intro v hv
    subst hv
    simp only [PDesc.ofObjValue] at hf
    cases h : o.accepts v
    · rfl
    · rw [h] at hf; simp at hf

/-- VALUE parameter with PHYSICAL-DEFAULT-VALUE `dv` -/
def PDesc.ofObjDefault (o : Obj) (dv : IVal) (typed : Option PVal → Bool) : PDesc where
  param := .mk o.name o.bytePos o.bitPos
    (.value (.simple (.std o.bt o.enc o.hl o.bl none false) o.bt .identical) (some (.atom dv)))
  fill := fun pv => match pv with
    | some (.atom v) => if o.accepts v then some (Comp.ofObjDefault o dv (some v)) else none
    | none => some (Comp.ofObjDefault o dv none)
    | _ => none
  complete := fun pv => pv.getD (.atom dv)
  typed := typed
  need := fun _ => 2
  minAdv := 1

theorem PDesc.ofObjDefault_ok (o : Obj) (dv : IVal) (typed : Option PVal → Bool) (ho : o.ok) (hdv : o.inRange dv)
    (hrej : o.Rejects typed) : (PDesc.ofObjDefault o dv typed).Ok where
  notKey := rfl
  acc := by
    intro pv g _ hf
    have key : ∃ sup : Option IVal, pv = sup.map PVal.atom ∧ o.inRange (sup.getD dv) ∧ g = Comp.ofObjDefault o dv sup := by
      cases pv with
      | none =>
        simp only [PDesc.ofObjDefault, Option.some.injEq] at hf
        exact ⟨none, rfl, hdv, hf.symm⟩
      | some x =>
        cases x with
        | atom v =>
          simp only [PDesc.ofObjDefault] at hf
          cases hacc : o.accepts v with
          | false => rw [hacc] at hf; simp at hf
          | true =>
            rw [hacc] at hf; simp only [if_true, Option.some.injEq] at hf
            exact ⟨some v, rfl, (o.accepts_iff ho v).mp hacc, hf.symm⟩
        | _ => simp [PDesc.ofObjDefault] at hf
    obtain ⟨sup, rfl, hr, rfl⟩ := key
    exact {
      ok := Comp.ofObjDefault_ok o dv sup ho hr
      endOk := Comp.ofObjDefault_endOk o dv sup
      param := rfl
      sup := by cases sup <;> rfl
      need := Nat.le_refl _
      eop := fun h => by cases h
      adv := fun org c => by
        have := o.k_pos ho
        show 1 ≤ o.pos org c + o.k
        omega
      val := by cases sup <;> rfl }
  rej := by
    intro pv hne hf fuel hfu s _
    obtain ⟨f, rfl⟩ : ∃ f, fuel = f + 2 := ⟨fuel - 2, by simp only [PDesc.ofObjDefault] at hfu; omega⟩
    cases pv with
    | none => simp [PDesc.ofObjDefault] at hf
    | some x =>
      have hbad : ∀ v, some x = some (PVal.atom v) → o.accepts v = false := by
        intro v hv
        cases hv
        simp only [PDesc.ofObjDefault] at hf
        cases h : o.accepts v
        · rfl
        · rw [h] at hf; simp at hf
      obtain ⟨e, s', hrun, he⟩ := hrej (some x) hne hbad f s
      refine ⟨e, s', ?_, he⟩
      simp only [PDesc.ofObjDefault]
      rw [encodeParam_default_some]
      exact hrun

/-- CODED-CONST parameter -/
def PDesc.ofObjConst (o : Obj) (c : IVal) : PDesc where
  param := o.toConstParam c
  fill := fun pv => match pv with
    | none => some (Comp.ofObjConst o c false)
    | some (.atom v) => if v = c then some (Comp.ofObjConst o c true) else none
    | some _ => none
  complete := fun _ => .atom c
  typed := fun pv => match pv with
    | some (.atom v) => constCmp v c
    | _ => true
  need := fun _ => 1
  minAdv := 1

theorem PDesc.ofObjConst_ok (o : Obj) (c : IVal) (ho : o.ok) (hc : o.inRange c) : (PDesc.ofObjConst o c).Ok where
  notKey := rfl
  acc := by
    intro pv g _ hf
    have key : ∃ b : Bool, pv = (if b then some (.atom c) else none) ∧ g = Comp.ofObjConst o c b := by
      cases pv with
      | none =>
        simp only [PDesc.ofObjConst, Option.some.injEq] at hf
        exact ⟨false, rfl, hf.symm⟩
      | some x =>
        cases x with
        | atom v =>
          simp only [PDesc.ofObjConst] at hf
          by_cases hv : v = c
          · subst hv
            simp only [if_true, Option.some.injEq] at hf
            exact ⟨true, rfl, hf.symm⟩
          · simp [hv] at hf
        | _ => simp [PDesc.ofObjConst] at hf
    obtain ⟨b, rfl, rfl⟩ := key
    exact {
      ok := Comp.ofObjConst_ok o c b ho hc
      endOk := Comp.ofObjConst_endOk o c b
      param := rfl
      sup := rfl
      need := Nat.le_refl _
      eop := fun h => by cases h
      adv := fun org cu => by
        have := o.k_pos ho
        show 1 ≤ o.pos org cu + o.k
        omega
      val := rfl }
  rej := by
    intro pv _ hf fuel hfu s _
    obtain ⟨f, rfl⟩ : ∃ f, fuel = f + 1 := ⟨fuel - 1, by simp only [PDesc.ofObjConst] at hfu; omega⟩
    have key : ∃ x, pv = some x ∧ x ≠ .atom c := by
      cases pv with
      | none => simp [PDesc.ofObjConst] at hf
      | some x =>
        refine ⟨x, rfl, ?_⟩
        intro hx
        subst hx
        simp [PDesc.ofObjConst] at hf
    obtain ⟨x, rfl, hne⟩ := key
    obtain ⟨e, s', hrun, he⟩ := encodeParam_const_bad o c x hne f s
    refine ⟨e, s', hrun, ?_⟩
    rcases he with he | ⟨he, v, hv, hcmp⟩
    · exact Or.inl (Or.inl he)
    · subst hv
      exact Or.inr ⟨he, by simp only [PDesc.ofObjConst, hcmp]⟩

/-- a value supplied for a PHYS-CONST parameter that is not the constant: `EncodeError`, or — a number of the other
    numeric Python type, which Python's `!=` may find equal — `unmodelled` -/
theorem encodeParam_physConst_bad (n : String) (bp bitp : Option Nat) (dop : Dop) (value p : PVal) (hp : pvalEq p value = false)
    (fuel : Nat) (s : EncState) :
    ∃ e s', encodeParam (fuel + 1) (.mk n bp bitp (.physConst dop value)) (some p) s true = .error (e, s') ∧
      ((e = .encode ∧ numericPair p value = false) ∨ (e = .unmodelled ∧ numericPair p value = true)) := by
  cases hnum : numericPair p value with
  | true =>
    refine ⟨.unmodelled, ?_, ?_, Or.inr ⟨rfl, rfl⟩⟩
    rotate_left
    · simp [encodeParam, bind, run_bind, run_modifyS, run_raise, hp, hnum]
      rfl
  | false =>
    refine ⟨.encode, ?_, ?_, Or.inl ⟨rfl, rfl⟩⟩
    rotate_left
    · simp [encodeParam, bind, run_bind, run_modifyS, odxraise, hp, hnum]
      rfl

/-- PHYS-CONST parameter over a standard-length DOP with the identical compu method -/
def PDesc.ofObjPhysConst (o : Obj) (c : IVal) : PDesc where
  param := .mk o.name o.bytePos o.bitPos (.physConst (.simple (.std o.bt o.enc o.hl o.bl none false) o.bt .identical) (.atom c))
  fill := fun pv => match pv with
    | none => some (Comp.ofObjPhysConst o c false)
    | some p => if pvalEq p (.atom c) then some (Comp.ofObjPhysConst o c true) else none
  complete := fun _ => .atom c
  typed := fun pv => match pv with
    | some p => pvalEq p (.atom c) || !numericPair p (.atom c)
    | none => true
  need := fun _ => 2
  minAdv := 1

theorem pvalEq_atom_right (p : PVal) (c : IVal) (h : pvalEq p (.atom c) = true) : p = .atom c := by
  cases p with
  | atom v => simp [pvalEq] at h; rw [h]
  | _ => simp [pvalEq] at h

theorem PDesc.ofObjPhysConst_ok (o : Obj) (c : IVal) (ho : o.ok) (hc : o.inRange c) : (PDesc.ofObjPhysConst o c).Ok where
  notKey := rfl
  acc := by
    intro pv g _ hf
    have key : ∃ b : Bool, pv = (if b then some (.atom c) else none) ∧ g = Comp.ofObjPhysConst o c b := by
      cases pv with
      | none =>
        simp only [PDesc.ofObjPhysConst, Option.some.injEq] at hf
        exact ⟨false, rfl, hf.symm⟩
      | some p =>
        simp only [PDesc.ofObjPhysConst] at hf
        cases hv : pvalEq p (.atom c) with
        | false => rw [hv] at hf; simp at hf
        | true =>
          rw [hv] at hf
          simp only [if_true, Option.some.injEq] at hf
          have := pvalEq_atom_right p c hv
          subst this
          exact ⟨true, rfl, hf.symm⟩
    obtain ⟨b, rfl, rfl⟩ := key
    exact {
      ok := Comp.ofObjPhysConst_ok o c b ho hc
      endOk := Comp.ofObjPhysConst_endOk o c b
      param := rfl
      sup := rfl
      need := Nat.le_refl _
      eop := fun h => by cases h
      adv := fun org cu => by
        have := o.k_pos ho
        show 1 ≤ o.pos org cu + o.k
        omega
      val := rfl }
  rej := by
    intro pv _ hf fuel hfu s _
    obtain ⟨f, rfl⟩ : ∃ f, fuel = f + 1 := ⟨fuel - 1, by simp only [PDesc.ofObjPhysConst] at hfu; omega⟩
    have key : ∃ p, pv = some p ∧ pvalEq p (.atom c) = false := by
      cases pv with
      | none => simp [PDesc.ofObjPhysConst] at hf
      | some p =>
        refine ⟨p, rfl, ?_⟩
        cases h : pvalEq p (.atom c)
        · rfl
        · simp [PDesc.ofObjPhysConst, h] at hf
    obtain ⟨p, rfl, hne⟩ := key
    obtain ⟨e, s', hrun, he⟩ := encodeParam_physConst_bad o.name o.bytePos o.bitPos _ (.atom c) p hne f s
    refine ⟨e, s', hrun, ?_⟩
    rcases he with ⟨he, _⟩ | ⟨he, hnum⟩
    · exact Or.inl (Or.inl he)
    · exact Or.inr ⟨he, by simp only [PDesc.ofObjPhysConst, hne, hnum]; rfl⟩

/-! ### closure: a VALUE parameter typed by a complex DOP -/

def PDesc.ofValue (name : String) (bp : Option Nat) (d : DDesc) : PDesc where
  param := .mk name bp none (.value d.dop none)
  fill := fun pv => match pv with
    | some v => (d.fill v).map (Comp.ofValue name bp)
    | none => none
  complete := fun pv => match pv with
    | some v => d.complete v
    | none => .none
  typed := fun pv => match pv with
    | some v => d.typed v
    | none => true
  need := fun pv => match pv with
    | some v => d.need v + 1
    | none => 1
  mayEop := d.mayEop
  minAdv := d.minSize

theorem PDesc.ofValue_ok (name : String) (bp : Option Nat) (d : DDesc) (hd : d.Ok) : (PDesc.ofValue name bp d).Ok where
  notKey := rfl
  acc := by
    intro pv g _ hf
    have key : ∃ v c, pv = some v ∧ d.fill v = some c ∧ g = Comp.ofValue name bp c := by
      cases pv with
      | none => simp [PDesc.ofValue] at hf
      | some v =>
        simp only [PDesc.ofValue] at hf
        cases hc : d.fill v with
        | none => rw [hc] at hf; cases hf
        | some c => rw [hc] at hf; exact ⟨v, c, rfl, hc, (Option.some.inj hf).symm⟩
    obtain ⟨v, c, rfl, hc, rfl⟩ := key
    have h := hd.acc v c hc
    exact {
      ok := Comp.ofValue_ok name bp c h.ok
      endOk := Comp.ofValue_endOk name bp c h.endOk
      param := by simp only [Comp.ofValue, PDesc.ofValue, h.dop]
      sup := by simp only [Comp.ofValue, h.sup]
      need := by have := h.need; simp only [Comp.ofValue, PDesc.ofValue]; omega
      eop := h.eop
      adv := fun org cu => by have := h.size; simp only [Comp.ofValue, PDesc.ofValue]; omega
      val := h.val }
  rej := by
    intro pv _ hf fuel hfu s heop
    cases pv with
    | none =>
      obtain ⟨f, rfl⟩ : ∃ f, fuel = f + 1 := ⟨fuel - 1, by simp only [PDesc.ofValue] at hfu; omega⟩
      refine ⟨.encode, ?_, ?_, RejErr.encode _⟩
      rotate_left
      · simp [PDesc.ofValue, encodeParam, bind, run_bind, run_modifyS, odxraise]
        rfl
    | some v =>
      obtain ⟨f, rfl⟩ : ∃ f, fuel = f + 1 := ⟨fuel - 1, by simp only [PDesc.ofValue] at hfu; omega⟩
      have hc : d.fill v = none := by
        simp only [PDesc.ofValue] at hf
        cases hc : d.fill v with
        | none => rfl
        | some c => rw [hc] at hf; cases hf
      obtain ⟨e, s', hrun, he⟩ := hd.rej v hc f (by simp only [PDesc.ofValue] at hfu; omega)
        { s with cursorByte := posOf bp s.origin s.cursorByte, cursorBit := 0 } rfl heop
      refine ⟨e, s', ?_, he⟩
      simp only [PDesc.ofValue]
      rw [encodeParam_value_step]
      simp only [Option.getD_none]
      rw [hrun]

/-! ### lists of parameter descriptions: the parameters of a structure -/

def PDescs.toParams (ps : List PDesc) : List Param := ps.map PDesc.param

def PDescs.fill : List PDesc → List (String × PVal) → Option (List Comp)
  | [], _ => some []
  | p :: ps, kvs =>
    match p.fill (lookupV p.name kvs), PDescs.fill ps kvs with
    | some g, some gs => some (g :: gs)
    | _, _ => none

def PDescs.need : List PDesc → List (String × PVal) → Nat
  | [], _ => 1
  | p :: ps, kvs => p.need (lookupV p.name kvs) + PDescs.need ps kvs + 1

def PDescs.typed : List PDesc → List (String × PVal) → Bool
  | [], _ => true
  | p :: ps, kvs => p.typed (lookupV p.name kvs) && PDescs.typed ps kvs

def PDescs.complete : List PDesc → List (String × PVal) → List (String × PVal)
  | [], _ => []
  | p :: ps, kvs => (p.name, p.complete (lookupV p.name kvs)) :: PDescs.complete ps kvs

def PDescs.namesOk : List PDesc → Prop
  | [] => True
  | p :: ps => (∀ u ∈ ps, u.name ≠ p.name) ∧ PDescs.namesOk ps

def PDescs.eopLast : List PDesc → Prop
  | [] => True
  | [_] => True
  | p :: q :: rest => p.mayEop = false ∧ PDescs.eopLast (q :: rest)

def PDescs.anyEop (ps : List PDesc) : Bool := ps.any (·.mayEop)

def PDescs.lastAdv : List PDesc → Nat
  | [] => 0
  | [p] => p.minAdv
  | _ :: q :: rest => PDescs.lastAdv (q :: rest)

/-- names the description does not know -/
def PDescs.unknown (ps : List PDesc) (kvs : List (String × PVal)) : Bool :=
  kvs.any (fun kv => !((PDescs.toParams ps).any fun p => p.name == kv.1))

theorem PDescs.eopLast_tail (p : PDesc) (ps : List PDesc) (h : PDescs.eopLast (p :: ps)) : PDescs.eopLast ps := by
  cases ps with
  | nil => trivial
  | cons q rest => exact h.2

theorem PDescs.need_ge (ps : List PDesc) (kvs : List (String × PVal)) : ps.length + 1 ≤ PDescs.need ps kvs := by
  induction ps with
  | nil => simp [PDescs.need]
  | cons p ps ih => simp only [PDescs.need, List.length_cons]; omega

/-- the components of a list of descriptions for the dictionary `kvs` -/
inductive Comps.Fill (kvs : List (String × PVal)) : List Comp → List PDesc → Prop
  | nil : Comps.Fill kvs [] []
  | cons {g : Comp} {p : PDesc} {gs : List Comp} {ps : List PDesc} :
      g.Fills p (lookupV p.name kvs) → Comps.Fill kvs gs ps → Comps.Fill kvs (g :: gs) (p :: ps)

theorem PDescs.fill_some : (ps : List PDesc) → (∀ p ∈ ps, p.Ok) → ∀ (kvs : List (String × PVal)) (gs : List Comp),
    PDescs.fill ps kvs = some gs → Comps.Fill kvs gs ps
  | [], _, kvs, gs, hf => by
    simp only [PDescs.fill, Option.some.injEq] at hf
    subst hf
    exact .nil
  | p :: ps, hok, kvs, gs, hf => by
    simp only [PDescs.fill] at hf
    cases h1 : p.fill (lookupV p.name kvs) with
    | none => rw [h1] at hf; cases hf
    | some g =>
      cases h2 : PDescs.fill ps kvs with
      | none => rw [h1, h2] at hf; cases hf
      | some gs0 =>
        rw [h1, h2] at hf
        simp only [Option.some.injEq] at hf
        subst hf
        exact .cons ((hok p (List.mem_cons_self ..)).acc _ g (lookupV_ne_none _ _) h1)
          (PDescs.fill_some ps (fun x hx => hok x (List.mem_cons_of_mem _ hx)) kvs gs0 h2)

theorem Comps.Fill.okAll {kvs : List (String × PVal)} {gs : List Comp} {ps : List PDesc} (h : Comps.Fill kvs gs ps) :
    Comps.okAll gs := by
  induction h with
  | nil => trivial
  | cons h1 _ ih => exact ⟨h1.ok, ih⟩

theorem Comps.Fill.endOkAll {kvs : List (String × PVal)} {gs : List Comp} {ps : List PDesc} (h : Comps.Fill kvs gs ps) :
    Comps.endOkAll gs := by
  induction h with
  | nil => trivial
  | cons h1 _ ih => exact ⟨h1.endOk, ih⟩

theorem Comps.Fill.toParams {kvs : List (String × PVal)} {gs : List Comp} {ps : List PDesc} (h : Comps.Fill kvs gs ps) :
    Comps.toParams gs = PDescs.toParams ps := by
  induction h with
  | nil => rfl
  | cons h1 _ ih =>
    simp only [Comps.toParams, PDescs.toParams, List.map_cons, h1.param] at ih ⊢
    rw [ih]

theorem Comps.Fill.length {kvs : List (String × PVal)} {gs : List Comp} {ps : List PDesc} (h : Comps.Fill kvs gs ps) :
    gs.length = ps.length := by
  induction h with
  | nil => rfl
  | cons _ _ ih => simp only [List.length_cons, ih]

theorem Comps.Fill.mem_name {kvs : List (String × PVal)} {gs : List Comp} {ps : List PDesc} (h : Comps.Fill kvs gs ps) :
    ∀ u ∈ gs, ∃ p ∈ ps, u.name = p.name := by
  induction h with
  | nil => intro u hu; cases hu
  | cons h1 _ ih =>
    intro u hu
    cases hu with
    | head => exact ⟨_, List.mem_cons_self .., by simp only [Comp.name, PDesc.name, h1.param]⟩
    | tail _ hm =>
      obtain ⟨p, hp, hn⟩ := ih u hm
      exact ⟨p, List.mem_cons_of_mem _ hp, hn⟩

theorem Comps.Fill.namesOk {kvs : List (String × PVal)} {gs : List Comp} {ps : List PDesc} (h : Comps.Fill kvs gs ps)
    (hn : PDescs.namesOk ps) : Comps.namesOk gs := by
  induction h with
  | nil => trivial
  | @cons g p gs ps h1 h2 ih =>
    refine ⟨?_, ih hn.2⟩
    intro u hu
    obtain ⟨q, hq, hname⟩ := h2.mem_name u hu
    rw [hname]
    have : g.name = p.name := by simp only [Comp.name, PDesc.name, h1.param]
    rw [this]
    exact hn.1 q hq

theorem Comps.Fill.eopLast {kvs : List (String × PVal)} {gs : List Comp} {ps : List PDesc} (h : Comps.Fill kvs gs ps)
    (hl : PDescs.eopLast ps) : Comps.eopLast gs := by
  induction h with
  | nil => trivial
  | cons h1 h2 ih =>
    cases h2 with
    | nil => trivial
    | cons h3 h4 =>
      refine ⟨?_, ih hl.2⟩
      cases he : Comp.eopOnly _ with
      | false => rfl
      | true => have := h1.eop he; rw [hl.1] at this; cases this

theorem Comps.Fill.need {kvs : List (String × PVal)} {gs : List Comp} {ps : List PDesc} (h : Comps.Fill kvs gs ps) :
    Comps.need gs ≤ PDescs.need ps kvs := by
  induction h with
  | nil => exact Nat.le_refl _
  | cons h1 _ ih =>
    have := h1.need
    simp only [Comps.need, PDescs.need]
    omega

theorem Comps.Fill.anyEop {kvs : List (String × PVal)} {gs : List Comp} {ps : List PDesc} (h : Comps.Fill kvs gs ps) :
    Comps.anyEop gs = true → PDescs.anyEop ps = true := by
  induction h with
  | nil => intro h; cases h
  | cons h1 _ ih =>
    intro ha
    simp only [Comps.anyEop, PDescs.anyEop, List.any_cons, Bool.or_eq_true] at ha ih ⊢
    rcases ha with ha | ha
    · exact Or.inl (h1.eop ha)
    · exact Or.inr (ih ha)

theorem Comps.Fill.val {kvs : List (String × PVal)} {gs : List Comp} {ps : List PDesc} (h : Comps.Fill kvs gs ps) :
    (Comps.pair gs).val = PDescs.complete ps kvs := by
  induction h with
  | nil => rfl
  | cons h1 _ ih =>
    rw [Comps.pair_val_cons, ih, h1.val]
    simp only [PDescs.complete, Comp.name, PDesc.name, h1.param]

theorem Comps.Fill.cur {kvs : List (String × PVal)} {gs : List Comp} {ps : List PDesc} (h : Comps.Fill kvs gs ps) :
    ∀ (org c : Nat), PDescs.lastAdv ps ≤ Comps.cur gs org c := by
  induction h with
  | nil => intro _ _; exact Nat.zero_le _
  | cons h1 h2 ih =>
    intro org c
    cases h2 with
    | nil => exact h1.adv org c
    | cons h3 h4 => exact ih org _

/-- what `Comps.encode_eq` wants to know about the dictionary -/
theorem Comps.Fill.lookups {kvs : List (String × PVal)} {gs : List Comp} {ps : List PDesc} (h : Comps.Fill kvs gs ps) :
    ∀ g ∈ gs, lookupV g.name kvs = g.sup ∧ (g.param.kind.required = true → (lookup g.name kvs).isNone = false) := by
  induction h with
  | nil => intro g hg; cases hg
  | @cons g0 p gs ps h1 _ ih =>
    intro g hg
    cases hg with
    | tail _ hm => exact ih g hm
    | head =>
      have hname : g0.name = p.name := by simp only [Comp.name, PDesc.name, h1.param]
      have hl : lookupV g0.name kvs = g0.sup := by rw [hname, h1.sup]
      refine ⟨hl, ?_⟩
      intro hr
      have hs := h1.ok.supplied hr
      rw [← hl] at hs
      unfold lookupV at hs
      cases hlk : lookup g0.name kvs with
      | none => rw [hlk] at hs; cases hs
      | some x => rfl

/-! ### closure: STRUCTURE -/

/-- the structure component of `gs`, encoded from the dictionary `kvs` as it was supplied (any order, `None` entries) -/
def DComp.structOf (gs : List Comp) (kvs : List (String × PVal)) : DComp := { DComp.struct gs with sup := .dict kvs }

theorem DComp.structOf_ok (gs : List Comp) (kvs : List (String × PVal)) (hok : Comps.okAll gs) (hn : Comps.namesOk gs)
    (hlast : Comps.eopLast gs)
    (hlook : ∀ g ∈ gs, lookupV g.name kvs = g.sup ∧ (g.param.kind.required = true → (lookup g.name kvs).isNone = false))
    (hknown : kvs.any (fun kv => !((Comps.toParams gs).any fun p => p.name == kv.1)) = false) :
    (DComp.structOf gs kvs).Ok :=
  let h0 := DComp.struct_ok gs hok hn hlast
  { good := h0.good
    sup_ne_none := by simp [DComp.structOf]
    originFree := h0.originFree
    dec_originFree := h0.dec_originFree
    fits_originFree := h0.fits_originFree
    encode_eq := by
      intro fuel hf s hcb heop
      obtain ⟨f, rfl⟩ : ∃ f, fuel = f + 1 + 1 := ⟨fuel - 2, by simp only [DComp.structOf, DComp.struct] at hf; omega⟩
      have hf' : Comps.need gs ≤ f := by simp only [DComp.structOf, DComp.struct] at hf; omega
      let sIn : EncState := { s with origin := s.cursorByte, isEndOfPdu := false, cursorBit := 0 }
      obtain ⟨sp, hrun, hcore, hspcb⟩ := Comps.encode_eq gs hok hlast kvs hlook f hf' s.isEndOfPdu heop sIn
      obtain ⟨e, rfl⟩ : ∃ e, f = gs.length + 1 + e := ⟨f - (gs.length + 1), by have := Comps.need_ge gs; omega⟩
      have hlen : (Comps.toParams gs).length = gs.length := by simp [Comps.toParams]
      have hkeys := encodeKeyValues_nonkey (Comps.toParams gs) (Comps.toParams_notKey gs hok) e { sp with isEndOfPdu := false } true
      rw [hlen] at hkeys
      have hg := Comps.good gs hok
      refine ⟨{ sp with isEndOfPdu := false, origin := s.origin }, ?_, ?_, hspcb rfl⟩
      · have hrun' : encodeParams s.isEndOfPdu kvs (gs.length + 1 + e) (Comps.toParams gs)
            { s with origin := s.cursorByte, isEndOfPdu := false, cursorBit := 0 } true = .ok ((), sp) := hrun
        simp only [DComp.structOf, DComp.struct, encodeDop, encodeComposite, bind, pure, run_bind, run_getS, run_modifyS, run_pure,
          run_ite, hcb, hknown, Bool.false_eq_true, if_false, ne_eq, not_true_eq_false]
        rw [hrun']
        simp only []
        rw [hkeys]
      · have hin : SameCore sIn { s with origin := s.cursorByte } := ⟨rfl, rfl, rfl, rfl, rfl⟩
        have h2 := hcore.trans (hg.core _ _ hin)
        exact ⟨h2.1, h2.2.1, h2.2.2.1, h2.2.2.2.1, rfl⟩
    enc_cursor := h0.enc_cursor
    dec_cursorBit := h0.dec_cursorBit
    dec_msg := h0.dec_msg
    dec_origin := h0.dec_origin
    decode_eq := h0.decode_eq }

theorem DComp.structOf_endOk (gs : List Comp) (kvs : List (String × PVal)) (hok : Comps.okAll gs) (hend : Comps.endOkAll gs)
    (hlast : Comps.eopLast gs) : (DComp.structOf gs kvs).EndOk :=
  let h0 := DComp.struct_endOk gs hok hend hlast
  ⟨h0.of_end, h0.trivial⟩

/-- one step of the first encoding loop for a parameter (not a LENGTH-KEY) whose own encoder fails -/
theorem encodeParams_cons_fail (eop : Bool) (values : List (String × PVal)) (f : Nat) (p : Param)
    (hk : p.kind.isKey = false) (rest : List Param) (s : EncState) (e : Err) (s' : EncState)
    (h : encodeParam f p (lookupV p.name values) (if rest.isEmpty then { s with isEndOfPdu := eop } else s) true = .error (e, s')) :
    ∃ e' s'', encodeParams eop values (f + 1) (p :: rest) s true = .error (e', s'') ∧ (e' = e ∨ e' = .encode) := by
  by_cases hreq : p.kind.required = true → (lookup p.name values).isNone = false
  · refine ⟨e, s', ?_, Or.inl rfl⟩
    rw [encodeParams_cons_nonkey eop values f p hk rest s hreq, h]
  · obtain ⟨name, bp, bitp, kind⟩ := p
    have hr : kind.required = true := by
      cases hr : kind.required
      · exact absurd (fun h' => by rw [Param.kind, hr] at h'; cases h') hreq
      · rfl
    cases kind with
    | value dop dflt =>
      cases dflt with
      | none => exact encodeParams_cons_value_fail eop values f name bp bitp dop rest s e s' h
      | some dv => simp [PKind.required] at hr
    | _ => simp [PKind.required] at hr

/-- **rejected values, list level**: if `fill` does not accept the dictionary, the first loop of the composite encoder fails
    with a library error (or `unmodelled` at an untyped spot) -/
theorem PDescs.rej : (ps : List PDesc) → (∀ p ∈ ps, p.Ok) → PDescs.eopLast ps → ∀ (kvs : List (String × PVal)),
    PDescs.fill ps kvs = none → ∀ (fuel : Nat), PDescs.need ps kvs ≤ fuel → ∀ (eop : Bool),
    (PDescs.anyEop ps = true → eop = true) → ∀ (s : EncState),
    ∃ e s', encodeParams eop kvs fuel (PDescs.toParams ps) s true = .error (e, s') ∧ RejErr e (PDescs.typed ps kvs)
  | [], _, _, kvs, hf, _, _, _, _, _ => by simp [PDescs.fill] at hf
  | p :: ps, hok, hlast, kvs, hf, fuel, hfu, eop, heop, s => by
    simp only [PDescs.need] at hfu
    obtain ⟨f, rfl⟩ : ∃ f, fuel = f + 1 := ⟨fuel - 1, by omega⟩
    have hpok := hok p (List.mem_cons_self ..)
    have hemp : (PDescs.toParams ps).isEmpty = ps.isEmpty := by cases ps <;> rfl
    have hsmEop : p.mayEop = true → (if ps.isEmpty then { s with isEndOfPdu := eop } else s).isEndOfPdu = true := by
      intro he
      cases ps with
      | nil =>
        have : eop = true := heop (by simp [PDescs.anyEop, he])
        simp [this]
      | cons q rest => have := hlast.1; rw [this] at he; cases he
    cases h1 : p.fill (lookupV p.name kvs) with
    | none =>
      obtain ⟨e, s', hrun, he⟩ := hpok.rej _ (lookupV_ne_none _ _) h1 f (by omega)
        (if ps.isEmpty then { s with isEndOfPdu := eop } else s) hsmEop
      have hrun' : encodeParam f p.param (lookupV p.param.name kvs)
          (if (PDescs.toParams ps).isEmpty then { s with isEndOfPdu := eop } else s) true = .error (e, s') := by
        rw [hemp]; exact hrun
      obtain ⟨e', s'', hrun2, he'⟩ := encodeParams_cons_fail eop kvs f p.param hpok.notKey (PDescs.toParams ps) s e s' hrun'
      refine ⟨e', s'', hrun2, ?_⟩
      simp only [PDescs.typed]
      rcases he' with rfl | rfl
      · exact he.and_left _
      · exact RejErr.encode _
    | some g =>
      have h2 : PDescs.fill ps kvs = none := by
        simp only [PDescs.fill, h1] at hf
        cases h2 : PDescs.fill ps kvs with
        | none => rfl
        | some x => rw [h2] at hf; cases hf
      have hg := hpok.acc _ g (lookupV_ne_none _ _) h1
      obtain ⟨s1, hstep, _⟩ := hg.ok.encode_eq f (by have := hg.need; omega)
        (if ps.isEmpty then { s with isEndOfPdu := eop } else s) (fun he => hsmEop (hg.eop he))
      obtain ⟨e, s', hrest, he⟩ := PDescs.rej ps (fun x hx => hok x (List.mem_cons_of_mem _ hx))
        (PDescs.eopLast_tail p ps hlast) kvs h2 f (by omega) eop
        (fun h => heop (by simp only [PDescs.anyEop, List.any_cons] at h ⊢; simp [h])) s1
      refine ⟨e, s', ?_, ?_⟩
      · have hreq : p.param.kind.required = true → (lookup p.param.name kvs).isNone = false := by
          intro hr
          have hs := hg.ok.supplied (by rw [hg.param]; exact hr)
          rw [hg.sup] at hs
          unfold lookupV at hs
          cases hlk : lookup p.param.name kvs with
          | none => simp only [PDesc.name] at hs; rw [hlk] at hs; cases hs
          | some x => rfl
        show encodeParams eop kvs (f + 1) (p.param :: PDescs.toParams ps) s true = _
        rw [encodeParams_cons_nonkey eop kvs f p.param hpok.notKey _ s hreq, hemp]
        rw [hg.param, hg.sup] at hstep
        have hstep' : encodeParam f p.param (lookupV p.param.name kvs)
            (if ps.isEmpty then { s with isEndOfPdu := eop } else s) true = .ok ((), s1) := hstep
        rw [hstep']
        exact hrest
      · simp only [PDescs.typed]; exact he.and_right _

/-- a STRUCTURE (without BYTE-SIZE) over the parameter descriptions `ps` -/
def DDesc.struct (ps : List PDesc) : DDesc where
  dop := .struct none (PDescs.toParams ps)
  fill := fun pv => match pv with
    | .dict kvs => if PDescs.unknown ps kvs then none else (PDescs.fill ps kvs).map (fun gs => DComp.structOf gs kvs)
    | _ => none
  complete := fun pv => match pv with
    | .dict kvs => .dict (PDescs.complete ps kvs)
    | _ => .none
  typed := fun pv => match pv with
    | .dict kvs => PDescs.typed ps kvs
    | _ => true
  need := fun pv => match pv with
    | .dict kvs => PDescs.need ps kvs + 2
    | _ => 2
  mayEop := PDescs.anyEop ps
  minSize := PDescs.lastAdv ps

/-- **closure under STRUCTURE** -/
theorem DDesc.struct_ok (ps : List PDesc) (hok : ∀ p ∈ ps, p.Ok) (hn : PDescs.namesOk ps) (hlast : PDescs.eopLast ps) :
    (DDesc.struct ps).Ok where
  acc := by
    intro pv c hf
    have key : ∃ kvs gs, pv = .dict kvs ∧ PDescs.unknown ps kvs = false ∧ PDescs.fill ps kvs = some gs ∧
        c = DComp.structOf gs kvs := by
      cases pv with
      | dict kvs =>
        simp only [DDesc.struct] at hf
        cases hu : PDescs.unknown ps kvs with
        | true => rw [hu] at hf; simp at hf
        | false =>
          rw [hu] at hf
          cases hg : PDescs.fill ps kvs with
          | none => rw [hg] at hf; simp at hf
          | some gs =>
            rw [hg] at hf
            exact ⟨kvs, gs, rfl, hu, hg, by simpa using hf.symm⟩
      | _ => simp [DDesc.struct] at hf
    obtain ⟨kvs, gs, rfl, hu, hg, rfl⟩ := key
    have hfl := PDescs.fill_some ps hok kvs gs hg
    have hknown : kvs.any (fun kv => !((Comps.toParams gs).any fun p => p.name == kv.1)) = false := by
      rw [hfl.toParams]; exact hu
    exact {
      ok := DComp.structOf_ok gs kvs hfl.okAll (hfl.namesOk hn) (hfl.eopLast hlast) hfl.lookups hknown
      endOk := DComp.structOf_endOk gs kvs hfl.okAll hfl.endOkAll (hfl.eopLast hlast)
      dop := by simp only [DComp.structOf, DComp.struct, DDesc.struct, hfl.toParams]
      sup := rfl
      need := by have := hfl.need; simp only [DComp.structOf, DComp.struct, DDesc.struct]; omega
      eop := hfl.anyEop
      size := hfl.cur 0 0
      val := by
        show PVal.dict (Comps.pair gs).val = _
        rw [hfl.val]
        rfl }
  rej := by
    intro pv hf fuel hfu s hcb heop
    cases pv with
    | dict kvs =>
      simp only [DDesc.struct] at hfu
      obtain ⟨f, rfl⟩ : ∃ f, fuel = f + 1 + 1 := ⟨fuel - 2, by omega⟩
      cases hu : PDescs.unknown ps kvs with
      | true =>
        refine ⟨.odx, ?_, ?_, RejErr.odx _⟩
        rotate_left
        · have hu' : kvs.any (fun kv => !((PDescs.toParams ps).any fun p => p.name == kv.1)) = true := hu
          simp only [DDesc.struct, encodeDop, encodeComposite, bind, pure, run_bind, run_getS, run_modifyS, run_ite,
            hcb, hu', if_true, odxraise, ne_eq, not_true_eq_false, if_false]
          rfl
      | false =>
        have hg : PDescs.fill ps kvs = none := by
          simp only [DDesc.struct, hu, Bool.false_eq_true, if_false] at hf
          cases hg : PDescs.fill ps kvs with
          | none => rfl
          | some x => rw [hg] at hf; simp at hf
        obtain ⟨e, s', hrun, he⟩ := PDescs.rej ps hok hlast kvs hg f (by omega) s.isEndOfPdu heop
          { s with origin := s.cursorByte, isEndOfPdu := false, cursorBit := 0 }
        refine ⟨e, s', ?_, he⟩
        have hu' : kvs.any (fun kv => !((PDescs.toParams ps).any fun p => p.name == kv.1)) = false := hu
        simp only [DDesc.struct, encodeDop, encodeComposite, bind, pure, run_bind, run_getS, run_modifyS, run_pure, run_ite,
          hcb, hu', Bool.false_eq_true, if_false, ne_eq, not_true_eq_false]
        rw [hrun]
    | atom _ | list _ | none | pair _ _ | keyed _ _ | nokey _ | dtc _ =>
      simp only [DDesc.struct] at hfu
      obtain ⟨f, rfl⟩ : ∃ f, fuel = f + 1 + 1 := ⟨fuel - 2, by omega⟩
      refine ⟨.encode, ?_, ?_, RejErr.encode _⟩
      rotate_left
      · simp only [DDesc.struct, encodeDop, encodeComposite, bind, pure, run_bind, run_getS, odxraise, if_true]
        rfl

end OdxVerif.Codec
