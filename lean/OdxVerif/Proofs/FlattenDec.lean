import OdxVerif.Proofs.Flatten
import OdxVerif.Proofs.FlatReencode
/-! Decoder side of the flattening, and re-encoding of a decoded PDU for nested descriptions (C03, struct tier). -/
namespace OdxVerif.Codec
open OdxVerif.Bits OdxVerif.OdxM

mutual
/-- the description with every VALUE leaf's value replaced by what the decoder reads from `msg`
    (CODED-CONST leaves keep their constant), and the byte behind the object -/
def Tree.redecode (msg : Bytes) : Tree → (origin cursor : Nat) → Tree × Nat
  | .int o _, org, cur => (.int o (o.ofRaw (o.rawAt msg org cur)), o.pos org cur + o.k)
  | .const o v, org, cur => (.const o v, o.pos org cur + o.k)
  | .struct n bp kids, org, cur =>
    let r := Trees.redecode msg kids (posOf bp org cur) (posOf bp org cur)
    (.struct n bp r.1, r.2)
def Trees.redecode (msg : Bytes) : List Tree → (origin cursor : Nat) → List Tree × Nat
  | [], _, cur => ([], cur)
  | t :: ts, org, cur =>
    let a := t.redecode msg org cur
    let b := Trees.redecode msg ts org a.2
    (a.1 :: b.1, b.2)
end

mutual
/-- what the description demands of `msg`: every leaf lies inside it, every raw pattern read is canonical, and every
    CODED-CONST leaf carries its constant -/
def Tree.reads (msg : Bytes) : Tree → (origin cursor : Nat) → Prop
  | .int o _, org, cur => o.ok ∧ o.pos org cur + o.k ≤ msg.length ∧ o.canon (o.rawAt msg org cur)
  | .const o v, org, cur => o.ok ∧ o.inRange v ∧ o.pos org cur + o.k ≤ msg.length ∧ o.rawAt msg org cur = o.raw v ∧
      o.canon (o.rawAt msg org cur)
  | .struct _ bp kids, org, cur => Trees.reads msg kids (posOf bp org cur) (posOf bp org cur)
def Trees.reads (msg : Bytes) : List Tree → (origin cursor : Nat) → Prop
  | [], _, _ => True
  | t :: ts, org, cur => t.reads msg org cur ∧ Trees.reads msg ts org (t.redecode msg org cur).2
end

mutual
theorem Tree.redecode_cursor (msg : Bytes) : (t : Tree) → ∀ (org cur : Nat),
    (t.redecode msg org cur).2 = (t.flat org cur).2
  | .int o v, org, cur => rfl
  | .const o v, org, cur => rfl
  | .struct n bp kids, org, cur => by
    simp only [Tree.redecode, Tree.flat]
    exact Trees.redecode_cursor msg kids _ _
theorem Trees.redecode_cursor (msg : Bytes) : (ts : List Tree) → ∀ (org cur : Nat),
    (Trees.redecode msg ts org cur).2 = (Trees.flat ts org cur).2
  | [], org, cur => rfl
  | t :: ts, org, cur => by
    simp only [Trees.redecode, Trees.flat]
    rw [Tree.redecode_cursor msg t org cur]
    exact Trees.redecode_cursor msg ts _ _
end

mutual
/-- the description (parameters) does not depend on the VALUE leaves' values -/
theorem Tree.redecode_toParam (msg : Bytes) : (t : Tree) → ∀ (org cur : Nat), (t.redecode msg org cur).1.toParam = t.toParam
  | .int o v, org, cur => rfl
  | .const o v, org, cur => rfl
  | .struct n bp kids, org, cur => by
    simp only [Tree.redecode, Tree.toParam]
    rw [Trees.redecode_toParams msg kids]
theorem Trees.redecode_toParams (msg : Bytes) : (ts : List Tree) → ∀ (org cur : Nat),
    Trees.toParams (Trees.redecode msg ts org cur).1 = Trees.toParams ts
  | [], org, cur => rfl
  | t :: ts, org, cur => by
    simp only [Trees.redecode, Trees.toParams]
    rw [Tree.redecode_toParam msg t, Trees.redecode_toParams msg ts]
end

mutual
theorem Tree.redecode_need (msg : Bytes) : (t : Tree) → ∀ (org cur : Nat), (t.redecode msg org cur).1.need = t.need
  | .int o v, org, cur => rfl
  | .const o v, org, cur => rfl
  | .struct n bp kids, org, cur => by
    simp only [Tree.redecode, Tree.need]
    rw [Trees.redecode_need msg kids]
theorem Trees.redecode_need (msg : Bytes) : (ts : List Tree) → ∀ (org cur : Nat),
    Trees.need (Trees.redecode msg ts org cur).1 = Trees.need ts
  | [], org, cur => rfl
  | t :: ts, org, cur => by
    simp only [Trees.redecode, Trees.need]
    rw [Tree.redecode_need msg t, Trees.redecode_need msg ts]
end

theorem Tree.redecode_name (msg : Bytes) (t : Tree) (org cur : Nat) : (t.redecode msg org cur).1.name = t.name := by
  cases t <;> rfl

mutual
theorem Tree.redecode_namesOk (msg : Bytes) : (t : Tree) → t.namesOk → ∀ (org cur : Nat), (t.redecode msg org cur).1.namesOk
  | .int o v, _, org, cur => trivial
  | .const o v, _, org, cur => trivial
  | .struct n bp kids, h, org, cur => by
    simp only [Tree.namesOk] at h
    simp only [Tree.redecode, Tree.namesOk]
    exact (Trees.redecode_namesOk msg kids h _ _).1
theorem Trees.redecode_namesOk (msg : Bytes) : (ts : List Tree) → Trees.namesOk ts → ∀ (org cur : Nat),
    Trees.namesOk (Trees.redecode msg ts org cur).1 ∧
    (∀ u ∈ (Trees.redecode msg ts org cur).1, ∃ u' ∈ ts, u.name = u'.name)
  | [], _, org, cur => ⟨trivial, by intro u hu; cases hu⟩
  | t :: ts, h, org, cur => by
    simp only [Trees.namesOk] at h
    obtain ⟨ih1, ih2⟩ := Trees.redecode_namesOk msg ts h.2.2 org (t.redecode msg org cur).2
    simp only [Trees.redecode, Trees.namesOk]
    refine ⟨⟨Tree.redecode_namesOk msg t h.1 org cur, ?_, ih1⟩, ?_⟩
    · intro u hu
      obtain ⟨u', hu', hn⟩ := ih2 u hu
      rw [hn, Tree.redecode_name]
      exact h.2.1 u' hu'
    · intro u hu
      rcases List.mem_cons.mp hu with rfl | hu
      · exact ⟨t, List.mem_cons_self .., Tree.redecode_name msg t org cur⟩
      · obtain ⟨u', hu', hn⟩ := ih2 u hu
        exact ⟨u', List.mem_cons_of_mem _ hu', hn⟩
end

mutual
/-- the re-decoded description is well formed and its values are in range -/
theorem Tree.redecode_ok (msg : Bytes) : (t : Tree) → ∀ (org cur : Nat), t.reads msg org cur → (t.redecode msg org cur).1.okAll
  | .int o v, org, cur, h => by
    simp only [Tree.reads] at h
    simp only [Tree.redecode, Tree.okAll]
    exact ⟨h.1, (o.canon_spec h.1 _ h.2.2).1⟩
  | .const o v, org, cur, h => by
    simp only [Tree.reads] at h
    simp only [Tree.redecode, Tree.okAll]
    exact ⟨h.1, h.2.1⟩
  | .struct n bp kids, org, cur, h => by
    simp only [Tree.reads] at h
    simp only [Tree.redecode, Tree.okAll]
    exact Trees.redecode_ok msg kids _ _ h
theorem Trees.redecode_ok (msg : Bytes) : (ts : List Tree) → ∀ (org cur : Nat), Trees.reads msg ts org cur →
    Trees.okAll (Trees.redecode msg ts org cur).1
  | [], org, cur, _ => trivial
  | t :: ts, org, cur, h => by
    simp only [Trees.reads] at h
    simp only [Trees.redecode, Trees.okAll]
    exact ⟨Tree.redecode_ok msg t org cur h.1, Trees.redecode_ok msg ts org _ h.2⟩
end

mutual
/-- the pure decoder returns the value tree of the re-decoded description, and stops behind it -/
theorem Tree.dec_redecode : (t : Tree) → ∀ (d : DecState), t.reads d.msg d.origin d.cursorByte →
    (t.pair.dec d).1 = (t.redecode d.msg d.origin d.cursorByte).1.pair.val ∧
    (t.pair.dec d).2.cursorByte = (t.redecode d.msg d.origin d.cursorByte).2 ∧
    (t.pair.dec d).2.origin = d.origin ∧ (t.pair.dec d).2.msg = d.msg ∧ t.pair.fits d
  | .int o v, d, h => by
    simp only [Tree.reads] at h
    exact ⟨rfl, rfl, rfl, rfl, h.2.1, o.canon_decodes _ h.2.2⟩
  | .const o v, d, h => by
    simp only [Tree.reads] at h
    obtain ⟨ho, hr, hfit, hraw, hcan⟩ := h
    refine ⟨?_, rfl, rfl, rfl, hfit, o.canon_decodes _ hcan⟩
    have : readNum d.msg (o.pos d.origin d.cursorByte) o.k o.hl / 2 ^ o.bp % 2 ^ o.bl = o.raw v := hraw
    show PVal.atom (o.ofRaw (readNum d.msg (o.pos d.origin d.cursorByte) o.k o.hl / 2 ^ o.bp % 2 ^ o.bl)) = PVal.atom v
    rw [this, (o.raw_spec ho v hr).2]
  | .struct n bp kids, d, h => by
    simp only [Tree.reads] at h
    let d' : DecState := { d with cursorByte := posOf bp d.origin d.cursorByte, origin := posOf bp d.origin d.cursorByte }
    have ih := Trees.dec_redecode kids d' h
    simp only [Tree.pair, Pair.map, Pair.atPos, Pair.inOrigin, Tree.redecode]
    exact ⟨by rw [ih.1], ih.2.1, trivial, ih.2.2.2.1, ih.2.2.2.2⟩
theorem Trees.dec_redecode : (ts : List Tree) → ∀ (d : DecState), Trees.reads d.msg ts d.origin d.cursorByte →
    ((Trees.pair ts).dec d).1 = (Trees.pair (Trees.redecode d.msg ts d.origin d.cursorByte).1).val ∧
    ((Trees.pair ts).dec d).2.cursorByte = (Trees.redecode d.msg ts d.origin d.cursorByte).2 ∧
    ((Trees.pair ts).dec d).2.origin = d.origin ∧ ((Trees.pair ts).dec d).2.msg = d.msg ∧ (Trees.pair ts).fits d
  | [], d, _ => ⟨rfl, rfl, rfl, rfl, trivial⟩
  | t :: ts, d, h => by
    simp only [Trees.reads] at h
    obtain ⟨v1, c1, o1, m1, f1⟩ := Tree.dec_redecode t d h.1
    have h2 : Trees.reads (t.pair.dec d).2.msg ts (t.pair.dec d).2.origin (t.pair.dec d).2.cursorByte := by
      rw [m1, o1, c1]; exact h.2
    obtain ⟨v2, c2, o2, m2, f2⟩ := Trees.dec_redecode ts (t.pair.dec d).2 h2
    rw [m1, o1, c1] at v2 c2
    simp only [Trees.pair, Pair.map, Pair.seq, Trees.redecode]
    exact ⟨by rw [v1, v2, Tree.redecode_name], c2, by rw [o2, o1], by rw [m2, m1], f1, f2⟩
end

mutual
/-- the byte behind an object does not depend on the values -/
theorem Tree.flat_redecode_cursor (msg : Bytes) : (t : Tree) → ∀ (org cur : Nat),
    ((t.redecode msg org cur).1.flat org cur).2 = (t.flat org cur).2
  | .int o v, org, cur => rfl
  | .const o v, org, cur => rfl
  | .struct n bp kids, org, cur => by
    simp only [Tree.redecode, Tree.flat]
    exact Trees.flat_redecode_cursor msg kids _ _
theorem Trees.flat_redecode_cursor (msg : Bytes) : (ts : List Tree) → ∀ (org cur : Nat),
    (Trees.flat (Trees.redecode msg ts org cur).1 org cur).2 = (Trees.flat ts org cur).2
  | [], org, cur => rfl
  | t :: ts, org, cur => by
    simp only [Trees.redecode, Trees.flat]
    rw [Tree.flat_redecode_cursor msg t org cur, Tree.redecode_cursor msg t org cur]
    exact Trees.flat_redecode_cursor msg ts _ _
end

mutual
/-- the pure decoder does not depend on the values baked into the description -/
theorem Tree.redecode_dec (msg : Bytes) : (t : Tree) → ∀ (org cur : Nat),
    (t.redecode msg org cur).1.pair.dec = t.pair.dec ∧ (t.redecode msg org cur).1.pair.fits = t.pair.fits
  | .int o v, org, cur => ⟨rfl, rfl⟩
  | .const o v, org, cur => ⟨rfl, rfl⟩
  | .struct n bp kids, org, cur => by
    obtain ⟨h1, h2⟩ := Trees.redecode_dec msg kids (posOf bp org cur) (posOf bp org cur)
    simp only [Tree.redecode, Tree.pair, Pair.map, Pair.atPos, Pair.inOrigin, h1, h2, and_self]
theorem Trees.redecode_dec (msg : Bytes) : (ts : List Tree) → ∀ (org cur : Nat),
    (Trees.pair (Trees.redecode msg ts org cur).1).dec = (Trees.pair ts).dec ∧
    (Trees.pair (Trees.redecode msg ts org cur).1).fits = (Trees.pair ts).fits
  | [], org, cur => ⟨rfl, rfl⟩
  | t :: ts, org, cur => by
    obtain ⟨h1, h2⟩ := Tree.redecode_dec msg t org cur
    obtain ⟨h3, h4⟩ := Trees.redecode_dec msg ts org (t.redecode msg org cur).2
    simp only [Trees.redecode, Trees.pair, Pair.map, Pair.seq, h1, h2, h3, h4, Tree.redecode_name, and_self]
end

/-! ### the flat predicates on the flattening -/

theorem reenc_append (origin : Nat) (msg : Bytes) (a b : List Obj) (c : Nat) :
    reenc origin msg (a ++ b) c = reenc origin msg a c ++ reenc origin msg b (cursorAfter origin a c) := by
  induction a generalizing c with
  | nil => rfl
  | cons o rest ih => simp [reenc, cursorAfter, ih]

theorem Fits_append (origin : Nat) (msg : Bytes) (a b : List Obj) (c : Nat) :
    Fits origin msg (a ++ b) c ↔ Fits origin msg a c ∧ Fits origin msg b (cursorAfter origin a c) := by
  induction a generalizing c with
  | nil => simp [Fits, cursorAfter]
  | cons o rest ih => simp [Fits, cursorAfter, ih, and_assoc]

theorem Canon_append (origin : Nat) (msg : Bytes) (a b : List Obj) (c : Nat) :
    Canon origin msg (a ++ b) c ↔ Canon origin msg a c ∧ Canon origin msg b (cursorAfter origin a c) := by
  induction a generalizing c with
  | nil => simp [Canon, cursorAfter]
  | cons o rest ih => simp [Canon, cursorAfter, ih, and_assoc]

theorem Obj.at_rawAt (o : Obj) (msg : Bytes) (p c : Nat) :
    (o.at p).rawAt msg 0 c = readNum msg p o.k o.hl / 2 ^ o.bp % 2 ^ o.bl := by
  simp [Obj.at, Obj.rawAt, Obj.pos, Obj.k, Obj.bp]

mutual
/-- flattening the re-decoded description = pairing the flattened objects with the values read from `msg` -/
theorem Tree.flat_redecode (msg : Bytes) : (t : Tree) → ∀ (org cur : Nat), t.reads msg org cur → ∀ c,
    ((t.redecode msg org cur).1.flat org cur).1 = reenc 0 msg ((t.flat org cur).1.map (·.1)) c ∧
    Fits 0 msg ((t.flat org cur).1.map (·.1)) c ∧ Canon 0 msg ((t.flat org cur).1.map (·.1)) c
  | .int o v, org, cur, h, c => by
    simp only [Tree.reads] at h
    have e := Obj.at_rawAt o msg (o.pos org cur) c
    have e' : o.rawAt msg org cur = readNum msg (o.pos org cur) o.k o.hl / 2 ^ o.bp % 2 ^ o.bl := rfl
    refine ⟨?_, ?_, ?_⟩
    · simp only [Tree.redecode, Tree.flat, List.map_cons, List.map_nil, reenc, e, e']
      rfl
    · simp only [Tree.flat, List.map_cons, List.map_nil, Fits, Obj.at_pos, Nat.zero_add, and_true]
      exact h.2.1
    · simp only [Tree.flat, List.map_cons, List.map_nil, Canon, e, and_true]
      exact h.2.2
  | .const o v, org, cur, h, c => by
    simp only [Tree.reads] at h
    obtain ⟨ho, hr, hfit, hraw, hcan⟩ := h
    have e := Obj.at_rawAt o msg (o.pos org cur) c
    have e' : o.rawAt msg org cur = readNum msg (o.pos org cur) o.k o.hl / 2 ^ o.bp % 2 ^ o.bl := rfl
    refine ⟨?_, ?_, ?_⟩
    · simp only [Tree.redecode, Tree.flat, List.map_cons, List.map_nil, reenc, e, ← e', hraw]
      have : (o.at (o.pos org cur)).ofRaw (o.raw v) = v := (o.raw_spec ho v hr).2
      rw [this]
    · simp only [Tree.flat, List.map_cons, List.map_nil, Fits, Obj.at_pos, Nat.zero_add, and_true]
      exact hfit
    · simp only [Tree.flat, List.map_cons, List.map_nil, Canon, e, and_true]
      exact hcan
  | .struct n bp kids, org, cur, h, c => by
    simp only [Tree.reads] at h
    simp only [Tree.redecode, Tree.flat]
    exact Trees.flat_redecode msg kids _ _ h c
theorem Trees.flat_redecode (msg : Bytes) : (ts : List Tree) → ∀ (org cur : Nat), Trees.reads msg ts org cur → ∀ c,
    (Trees.flat (Trees.redecode msg ts org cur).1 org cur).1 = reenc 0 msg ((Trees.flat ts org cur).1.map (·.1)) c ∧
    Fits 0 msg ((Trees.flat ts org cur).1.map (·.1)) c ∧ Canon 0 msg ((Trees.flat ts org cur).1.map (·.1)) c
  | [], org, cur, _, c => ⟨rfl, trivial, trivial⟩
  | t :: ts, org, cur, h, c => by
    simp only [Trees.reads] at h
    obtain ⟨e1, f1, c1⟩ := Tree.flat_redecode msg t org cur h.1 c
    have hc1 : (t.redecode msg org cur).2 = (t.flat org cur).2 := Tree.redecode_cursor msg t org cur
    have hc2 : ((t.redecode msg org cur).1.flat org cur).2 = (t.flat org cur).2 := Tree.flat_redecode_cursor msg t org cur
    rw [hc1] at h
    obtain ⟨e2, f2, c2⟩ := Trees.flat_redecode msg ts org (t.flat org cur).2 h.2
      (cursorAfter 0 ((t.flat org cur).1.map (·.1)) c)
    simp only [Trees.redecode, Trees.flat, List.map_append]
    rw [hc2, hc1, reenc_append, Fits_append, Canon_append, e1, e2]
    exact ⟨rfl, ⟨f1, f2⟩, ⟨c1, c2⟩⟩
end

end OdxVerif.Codec
