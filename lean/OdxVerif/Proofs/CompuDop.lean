import OdxVerif.Proofs.CompuSem
import OdxVerif.Model.Decode
/-! The LINEAR arm of `encodeDop` / `decodeDop` in strict and lenient mode, in terms of the compu model of property C07:
    inside the exactness guard and on valid values the DOP layer is the pure conversion `Method.p2i` / `Method.i2p`
    followed / preceded by the diag-coded type. -/
namespace OdxVerif.Codec
open OdxVerif.OdxM OdxVerif.Bits OdxVerif.Compu

/-- what `linMethod?` returns is the segment `mkLinSeg` builds from the description, inside the guard -/
theorem linMethod_spec {d : LinDesc} {ity pty : BaseType} {m : Method} (h : linMethod? d ity pty = some m) :
    ∃ s i p, m = .linear s ∧ dtype? ity = some i ∧ dtype? pty = some p ∧
      mkLinSeg i p d.scale = .ok s ∧
      numericType i = true ∧ numericType p = true ∧ exactDesc s = true := by
  unfold linMethod? at h
  cases hi : dtype? ity with
  | none => simp [hi] at h
  | some i =>
    cases hp : dtype? pty with
    | none => simp [hi, hp] at h
    | some p =>
      simp only [hi, hp, Option.bind_eq_bind, Option.bind_some] at h
      by_cases hnum : (numericType p && numericType i) = true
      · cases hmk : mkLinSeg i p d.scale with
        | error e => simp [build, LinDesc.desc, hnum, hmk, bind, Except.bind] at h
        | ok s =>
          simp only [build, LinDesc.desc, hnum, hmk, bind, Except.bind, pure, Except.pure, Bool.not_true, Bool.false_eq_true,
            if_false] at h
          split at h
          · rename_i hex
            cases h
            rw [Bool.and_eq_true] at hnum
            exact ⟨s, i, p, rfl, rfl, rfl, hmk, hnum.2, hnum.1, hex⟩
          · cases h
      · simp [build, LinDesc.desc, hnum] at h

/-- … and it is well-formed in the sense of the C07 theorems when the denominator is not zero -/
theorem linMethod_wf {d : LinDesc} {ity pty : BaseType} {s : LinSeg} (h : linMethod? d ity pty = some (.linear s))
    (hden : d.den ≠ 0) : s.WF ∧ s.denom = (d.den : Rat) ∧ s.offset = (d.num0 : Rat) ∧ s.factor = (d.num1 : Rat) ∧
      dtype? ity = some s.ity ∧ dtype? pty = some s.pty := by
  obtain ⟨s', i, p, hs, hi, hp, hmk, hni, hnp, _⟩ := linMethod_spec h
  cases hs
  obtain ⟨hity, hpty, _, _, hco, _, hder⟩ := mkLinSeg_spec hmk
  simp only [LinDesc.scale, linCoeffs, List.head?_cons, Option.getD_some, Except.ok.injEq, Prod.mk.injEq] at hco
  obtain ⟨ho, hf, hd⟩ := hco
  have hd0 : s.denom ≠ 0 := by
    rw [← hd]; exact_mod_cast hden
  exact ⟨⟨hder hd0, hd0, by rw [hity]; exact hni, by rw [hpty]; exact hnp⟩, hd.symm, ho.symm, hf.symm,
    by rw [hity]; exact hi, by rw [hpty]; exact hp⟩

/-- encoding side: a valid integer physical value inside the guard goes through `Method.p2i` -/
theorem dopP2I_linear_int {σ : Type} (s : LinSeg) (z i : Int)
    (hvp : (Method.linear s).validP (.int z) = .ok true) (hex : exactP s z = true)
    (hconv : (Method.linear s).p2i (.int z) = .ok (.int i)) (hvi : (Method.linear s).validI (.int i) = .ok true)
    (st : σ) (strict : Bool) :
    (dopP2I (.linear s) (.int z) : OdxM σ IVal) st strict = .ok (.int i, st) := by
  have hpa : s.physApplies (.int z) = .ok true := hvp
  have hcv : s.convP2I (.int z) = .ok (.int i) := by
    simpa [Method.p2i, hpa, bind, Except.bind] using hconv
  have hia : s.intApplies (.int i) = .ok true := hvi
  simp [dopP2I, toVal?, Method.validP, Method.validI, hpa, hia, methodP2I, Val.num?, hex, hcv, ofVal?, bind, run_bind, run_pure,
    pure]

/-- decoding side: a valid integer internal value inside the guard goes through `Method.i2p` -/
theorem dopI2P_linear_int {σ : Type} (s : LinSeg) (i z : Int) (hd : s.denom ≠ 0)
    (hvi : (Method.linear s).validI (.int i) = .ok true) (hex : exactI s i = true)
    (hconv : (Method.linear s).i2p (.int i) = .ok (.int z)) (st : σ) (strict : Bool) :
    (dopI2P (.linear s) (.int i) : OdxM σ (Option IVal)) st strict = .ok (some (.int z), st) := by
  have hia : s.intApplies (.int i) = .ok true := hvi
  have hcv : s.convI2P (.int i) = .ok (.int z) := by
    simpa [Method.i2p, hia, bind, Except.bind] using hconv
  simp [dopI2P, toVal?, Method.validI, hia, methodI2P, Val.num?, hd, hex, hcv, ofVal?, bind, run_bind, run_pure, pure]

/-! ## strict mode: the codec's compu layer refines the C07 model -/

/-- the scales of a TEXTTABLE whose text is `p` -/
def textHits (scales : List Scale) (p : Val) : List Scale :=
  scales.filter (fun sc => match sc.const with | some c => c.pyEq p | none => false)

theorem methodP2I_textTable {σ : Type} (ity pty : DType) (scales : List Scale) (pdef idef : Option Val) (p : Val) :
    (methodP2I (.textTable ity pty scales pdef idef) p : OdxM σ Val) =
      (match textHits scales p with
       | [] =>
         match idef with
         | some d => pure d
         | none => do odxraise .encode; raise .unmodelled
       | sc :: rest => do
         if !rest.isEmpty then odxraise .encode
         match sc.inverseValue with
         | .ok r => pure r
         | .error _ => do odxraise .encode; raise .unmodelled) := rfl

theorem p2i_textTable (ity pty : DType) (scales : List Scale) (pdef idef : Option Val) (p : Val) :
    (Method.textTable ity pty scales pdef idef).p2i p =
      (match textHits scales p with
       | [] => match idef with | some d => .ok d | none => .error .encode
       | [sc] => sc.inverseValue
       | _ => .error .encode) := rfl

/-- strict mode: whatever `methodP2I` answers is the answer of the C07 model -/
theorem methodP2I_strict {σ : Type} (m : Method) (p r : Val) (st st' : σ)
    (h : (methodP2I m p : OdxM σ Val) st true = .ok (r, st')) : m.p2i p = .ok r ∧ st' = st := by
  cases m with
  | identical a b =>
    simp [methodP2I, pure, run_pure] at h
    obtain ⟨rfl, rfl⟩ := h
    simp [Method.p2i]
  | linear s =>
    simp only [methodP2I, bind, run_bind] at h
    cases hpa : s.physApplies p with
    | error e => simp [hpa, run_bind, run_raise] at h
    | ok b =>
      cases b with
      | false => simp [hpa, run_bind, run_odxraise_strict] at h
      | true =>
        simp only [hpa, pure, run_pure] at h
        cases hn : p.num? with
        | none => simp [hn, bind, run_bind, run_odxraise_strict] at h
        | some y =>
          simp only [hn] at h
          split at h
          · simp [run_raise] at h
          · cases hc : s.convP2I p with
            | error e => simp [hc, run_raise] at h
            | ok r' =>
              simp [hc, run_pure] at h
              obtain ⟨rfl, rfl⟩ := h
              simp [Method.p2i, hpa, bind, Except.bind, hc]
  | textTable ity pty scales pdef idef =>
    rw [methodP2I_textTable] at h
    rw [p2i_textTable]
    cases hm : textHits scales p with
    | nil =>
      rw [hm] at h
      cases idef with
      | none => simp [bind, run_bind, run_odxraise_strict] at h
      | some d =>
        simp [pure, run_pure] at h
        obtain ⟨rfl, rfl⟩ := h
        simp
    | cons sc rest =>
      rw [hm] at h
      cases rest with
      | nil =>
        simp only [List.isEmpty_nil, Bool.not_true, Bool.false_eq_true, if_false, bind, run_bind, pure, run_pure] at h
        cases hi : sc.inverseValue with
        | error e => simp [hi, bind, run_bind, run_odxraise_strict] at h
        | ok r' =>
          simp [hi, run_pure] at h
          obtain ⟨rfl, rfl⟩ := h
          simp [hi]
      | cons _ _ => simp [bind, run_bind, run_odxraise_strict] at h
  | _ => simp [methodP2I, run_raise] at h

/-- strict mode: whatever `methodI2P` answers is a value (never `None`), the answer of the C07 model -/
theorem methodI2P_strict {σ : Type} (arith : Err) (m : Method) (i : Val) (r : Option Val) (st st' : σ)
    (h : (methodI2P arith m i : OdxM σ (Option Val)) st true = .ok (r, st')) : ∃ p, r = some p ∧ m.i2p i = .ok p ∧ st' = st := by
  cases m with
  | identical a b =>
    simp [methodI2P, pure, run_pure] at h
    obtain ⟨rfl, rfl⟩ := h
    exact ⟨i, rfl, rfl, rfl⟩
  | linear s =>
    simp only [methodI2P, bind, run_bind] at h
    cases hia : s.intApplies i with
    | error e => simp [hia, run_bind, run_raise] at h
    | ok b =>
      cases b with
      | false => simp [hia, run_bind, run_odxraise_strict] at h
      | true =>
        simp only [hia, pure, run_pure] at h
        cases hn : i.num? with
        | none => simp [hn, run_bind, run_odxraise_strict] at h
        | some x =>
          simp only [hn] at h
          split at h
          · simp [run_raise] at h
          · split at h
            · simp [run_raise] at h
            · cases hc : s.convI2P i with
              | error e => simp [hc, run_raise] at h
              | ok r' =>
                simp [hc, run_pure] at h
                obtain ⟨rfl, rfl⟩ := h
                exact ⟨r', rfl, by simp [Method.i2p, hia, bind, Except.bind, hc], rfl⟩
  | textTable ity pty scales pdef idef =>
    simp only [methodI2P] at h
    cases hf : filterR (fun sc : Scale => sc.applies i) scales with
    | error e => simp [hf, run_raise] at h
    | ok app =>
      simp only [hf] at h
      match app, h with
      | [], h =>
        cases pdef with
        | none => simp [bind, run_bind, run_odxraise_strict] at h
        | some d =>
          simp [pure, run_pure] at h
          obtain ⟨rfl, rfl⟩ := h
          exact ⟨d, rfl, by simp [Method.i2p, bind, Except.bind, hf, pure, Except.pure], rfl⟩
      | [sc], h =>
        simp only [List.isEmpty_nil, Bool.not_true, Bool.false_eq_true, if_false, bind, run_bind, pure, run_pure] at h
        cases hc : sc.const with
        | none => simp [hc, run_bind, run_odxraise_strict] at h
        | some c =>
          simp [hc, run_pure] at h
          obtain ⟨rfl, rfl⟩ := h
          exact ⟨c, rfl, by simp [Method.i2p, bind, Except.bind, hf, hc, pure, Except.pure], rfl⟩
      | _ :: _ :: _, h => simp [bind, run_bind, run_odxraise_strict] at h
  | _ => simp [methodI2P, run_raise] at h

/-- **strict mode: the LINEAR / TEXTTABLE arm of `DataObjectProperty.encode_into_pdu` refines the C07 model** — if it hands an
    internal value to the diag-coded type, that value is `Method.p2i` of a physical value the method declares valid, and is
    itself declared valid -/
theorem dopP2I_strict {σ : Type} (m : Method) (v r : IVal) (st st' : σ)
    (h : (dopP2I m v : OdxM σ IVal) st true = .ok (r, st')) :
    ∃ p i, toVal? v = some p ∧ m.validP p = .ok true ∧ m.p2i p = .ok i ∧ m.validI i = .ok true ∧ ofVal? i false = some r ∧
      st' = st := by
  unfold dopP2I at h
  split at h
  · simp [run_raise] at h
  · cases hv : toVal? v with
    | none => simp [hv, run_raise] at h
    | some p =>
      simp only [hv] at h
      cases hvp : m.validP p with
      | error e => simp [hvp, run_raise] at h
      | ok b =>
        cases b with
        | false => simp [hvp, run_raise] at h
        | true =>
          simp only [hvp, bind, run_bind] at h
          cases hc : (methodP2I m p : OdxM σ Val) st true with
          | error e => simp [hc] at h
          | ok x =>
            obtain ⟨i, s1⟩ := x
            obtain ⟨hp2i, rfl⟩ := methodP2I_strict m p i st s1 hc
            simp only [hc] at h
            cases hvi : m.validI i with
            | error e => simp [hvi, run_bind, run_raise] at h
            | ok b =>
              cases b with
              | false => simp [hvi, run_bind, run_odxraise_strict] at h
              | true =>
                simp only [hvi, pure, run_pure] at h
                cases ho : ofVal? i false with
                | none => simp [ho, run_raise] at h
                | some r' =>
                  simp [ho, run_pure] at h
                  obtain ⟨rfl, rfl⟩ := h
                  exact ⟨p, i, rfl, hvp, hp2i, hvi, ho, rfl⟩

/-- **strict mode: the LINEAR / TEXTTABLE arm of `DataObjectProperty.decode_from_pdu` refines the C07 model** — what it
    returns is a value (never `None`): `Method.i2p` of an internal value the method declares valid -/
theorem dopI2P_strict {σ : Type} (m : Method) (v : IVal) (r : Option IVal) (st st' : σ)
    (h : (dopI2P m v : OdxM σ (Option IVal)) st true = .ok (r, st')) :
    ∃ i p x, toVal? v = some i ∧ m.validI i = .ok true ∧ m.i2p i = .ok p ∧ ofVal? p (negZeroOf m) = some x ∧ r = some x ∧
      st' = st := by
  unfold dopI2P at h
  cases hv : toVal? v with
  | none => simp [hv, run_raise] at h
  | some i =>
    simp only [hv] at h
    cases hvi : m.validI i with
    | error e => simp [hvi, run_raise] at h
    | ok b =>
      cases b with
      | false => simp [hvi, bind, run_bind, run_odxraise_strict] at h
      | true =>
        simp only [hvi, bind, run_bind] at h
        cases hc : (methodI2P .decode m i : OdxM σ (Option Val)) st true with
        | error e => simp [hc] at h
        | ok y =>
          obtain ⟨q, s1⟩ := y
          obtain ⟨p, rfl, hi2p, rfl⟩ := methodI2P_strict .decode m i q st s1 hc
          simp only [hc] at h
          cases ho : ofVal? p (negZeroOf m) with
          | none => simp [ho, run_raise] at h
          | some x =>
            simp [ho, pure, run_pure] at h
            obtain ⟨rfl, rfl⟩ := h
            exact ⟨i, p, x, rfl, hvi, hi2p, ho, rfl, rfl⟩

end OdxVerif.Codec
