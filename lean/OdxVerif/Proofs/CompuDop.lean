import OdxVerif.Proofs.CompuSem
import OdxVerif.Model.Decode
/-! The LINEAR arm of `encodeDop` / `decodeDop` in strict and lenient mode, in terms of the compu model of property C07:
    inside the exactness guard and on valid values the DOP layer is the pure conversion `Method.p2i` / `Method.i2p`
    followed / preceded by the diag-coded type. -/
namespace OdxVerif.Codec
open OdxVerif.OdxM OdxVerif.Bits OdxVerif.Compu

/-- what `linMethod?` returns is the segment `mkLinSeg` builds from the description, inside the guard -/
theorem linMethod_spec {d : LinDesc} {ity pty : BaseType} {m : Method} (h : linMethod? d ity pty = some m) :
    ∃ s i p, m = .linear s ∧ dtype? ity = some i ∧ dtype? pty = some p ∧
      mkLinSeg i p d.scale = .ok s ∧
      numericType i = true ∧ numericType p = true ∧ exactDesc s = true := by
  unfold linMethod? at h
  cases hi : dtype? ity with
  | none => simp [hi] at h
  | some i =>
    cases hp : dtype? pty with
    | none => simp [hi, hp] at h
    | some p =>
      simp only [hi, hp, Option.bind_eq_bind, Option.bind_some] at h
      by_cases hnum : (numericType p && numericType i) = true
      · cases hmk : mkLinSeg i p d.scale with
        | error e => simp [build, LinDesc.desc, hnum, hmk, bind, Except.bind] at h
        | ok s =>
          simp only [build, LinDesc.desc, hnum, hmk, bind, Except.bind, pure, Except.pure, Bool.not_true, Bool.false_eq_true,
            if_false] at h
          split at h
          · rename_i hex
            cases h
            rw [Bool.and_eq_true] at hnum
            exact ⟨s, i, p, rfl, rfl, rfl, hmk, hnum.2, hnum.1, hex⟩
          · cases h
      · simp [build, LinDesc.desc, hnum] at h

/-- … and it is well-formed in the sense of the C07 theorems when the denominator is not zero -/
theorem linMethod_wf {d : LinDesc} {ity pty : BaseType} {s : LinSeg} (h : linMethod? d ity pty = some (.linear s))
    (hden : d.den ≠ 0) : s.WF ∧ s.denom = (d.den : Rat) ∧ s.offset = (d.num0 : Rat) ∧ s.factor = (d.num1 : Rat) ∧
      dtype? ity = some s.ity ∧ dtype? pty = some s.pty := by
  obtain ⟨s', i, p, hs, hi, hp, hmk, hni, hnp, _⟩ := linMethod_spec h
  cases hs
  obtain ⟨hity, hpty, _, _, hco, _, hder⟩ := mkLinSeg_spec hmk
  simp only [LinDesc.scale, linCoeffs, List.head?_cons, Option.getD_some, Except.ok.injEq, Prod.mk.injEq] at hco
  obtain ⟨ho, hf, hd⟩ := hco
  have hd0 : s.denom ≠ 0 := by
    rw [← hd]; exact_mod_cast hden
  exact ⟨⟨hder hd0, hd0, by rw [hity]; exact hni, by rw [hpty]; exact hnp⟩, hd.symm, ho.symm, hf.symm,
    by rw [hity]; exact hi, by rw [hpty]; exact hp⟩

/-- encoding side: a valid integer physical value inside the guard goes through `Method.p2i` -/
theorem dopP2I_linear_int {σ : Type} (s : LinSeg) (z i : Int)
    (hvp : (Method.linear s).validP (.int z) = .ok true) (hex : exactP s z = true)
    (hconv : (Method.linear s).p2i (.int z) = .ok (.int i)) (hvi : (Method.linear s).validI (.int i) = .ok true)
    (st : σ) (strict : Bool) :
    (dopP2I (.linear s) (.int z) : OdxM σ IVal) st strict = .ok (.int i, st) := by
  have hpa : s.physApplies (.int z) = .ok true := hvp
  have hcv : s.convP2I (.int z) = .ok (.int i) := by
    simpa [Method.p2i, hpa, bind, Except.bind] using hconv
  have hia : s.intApplies (.int i) = .ok true := hvi
  simp [dopP2I, toVal?, Method.validP, Method.validI, hpa, hia, methodP2I, Val.num?, hex, hcv, ofVal?, bind, run_bind, run_pure,
    pure]

/-- decoding side: a valid integer internal value inside the guard goes through `Method.i2p` -/
theorem dopI2P_linear_int {σ : Type} (s : LinSeg) (i z : Int) (hd : s.denom ≠ 0)
    (hvi : (Method.linear s).validI (.int i) = .ok true) (hex : exactI s i = true)
    (hconv : (Method.linear s).i2p (.int i) = .ok (.int z)) (st : σ) (strict : Bool) :
    (dopI2P (.linear s) (.int i) : OdxM σ (Option IVal)) st strict = .ok (some (.int z), st) := by
  have hia : s.intApplies (.int i) = .ok true := hvi
  have hcv : s.convI2P (.int i) = .ok (.int z) := by
    simpa [Method.i2p, hia, bind, Except.bind] using hconv
  simp [dopI2P, toVal?, Method.validI, hia, methodI2P, Val.num?, hd, hex, hcv, ofVal?, bind, run_bind, run_pure, pure]

end OdxVerif.Codec
