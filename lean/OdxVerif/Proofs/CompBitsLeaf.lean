import OdxVerif.Proofs.CompBits
/-! Bit-exactness for the compositional tier (task W12), part 2: the footprint law of the primitive encoders — a positioned
    leaf object (`encStep`), zero padding (`padEnc`, `Pair.padTo`: static-field items) and `emplace_bytes(b"")`
    (`Pair.touch`: empty dynamic-length field). -/
namespace OdxVerif.Codec
open OdxVerif.Bits OdxVerif.OdxM

/-! ### the state invariant -/

theorem allBytes_orBytes (a b : Bytes) (ha : AllBytes a) (hb : AllBytes b) : AllBytes (orBytes a b) := by
  induction a generalizing b with
  | nil => intro x hx; simp [orBytes] at hx
  | cons x xs ih =>
    cases b with
    | nil => intro y hy; simp [orBytes] at hy
    | cons y ys =>
      intro z hz
      simp only [orBytes, List.mem_cons] at hz
      rcases hz with rfl | hz
      · have h1 : x < 2 ^ 8 := ha x (List.mem_cons_self ..)
        have h2 : y < 2 ^ 8 := hb y (List.mem_cons_self ..)
        exact Nat.or_lt_two_pow h1 h2
      · exact ih ys (fun w hw => ha w (List.mem_cons_of_mem _ hw)) (fun w hw => hb w (List.mem_cons_of_mem _ hw)) z hz

theorem allBytes_append (a b : Bytes) (ha : AllBytes a) (hb : AllBytes b) : AllBytes (a ++ b) := by
  intro x hx
  rcases List.mem_append.mp hx with h | h
  · exact ha x h
  · exact hb x h

theorem allBytes_placeUsed (used : Bytes) (pos n : Nat) (mask : Bytes) (hu : AllBytes used) (hm : AllBytes mask) :
    AllBytes (placeUsed used pos n mask) := by
  unfold placeUsed
  have hp := allBytes_padTo used (pos + n) hu
  refine allBytes_append _ _ (allBytes_append _ _ (fun x hx => hp x (List.mem_of_mem_take hx)) ?_)
    (fun x hx => hp x (List.mem_of_mem_drop hx))
  exact allBytes_orBytes _ _ (fun x hx => hp x (List.mem_of_mem_drop (List.mem_of_mem_take hx)))
    (fun x hx => hm x (List.mem_of_mem_take hx))

theorem placeUsed_len (used : Bytes) (pos n : Nat) (mask : Bytes) (hm : mask.length = n) :
    (placeUsed used pos n mask).length = max used.length (pos + n) := by
  unfold placeUsed
  simp only [List.length_append, List.length_take, List.length_drop, orBytes_length, padTo_length, hm]
  omega

theorem encStep_usedInv (o : Obj) (v : IVal) (s : EncState) (h : UsedOk s) : UsedOk (encStep o v s) := by
  have hml : (ord o.hl (toBytesBE o.k o.mask)).length = o.k := by rw [ord_length, toBytesBE_length]
  have hused : (encStep o v s).used = placeUsed (s.used ++ List.replicate ((padTo s.msg (o.pos s.origin s.cursorByte + o.k)).length - s.msg.length) 0)
      (o.pos s.origin s.cursorByte) o.k (ord o.hl (toBytesBE o.k o.mask)) := rfl
  constructor
  · rw [hused, placeUsed_len _ _ _ _ hml, encStep_length]
    simp only [List.length_append, List.length_replicate, padTo_length, h.1]
    omega
  · rw [hused]
    exact allBytes_placeUsed _ _ _ _ (allBytes_append _ _ h.2 (allBytes_replicate_zero _))
      (allBytes_ord _ _ (toBytesBE_allBytes _ _))

/-! ### a positioned leaf object -/

theorem Obj.claims_bytes (o : Obj) (p a : Nat) (h : o.claims p a) : p ≤ a / 8 ∧ a / 8 < p + o.k := by
  obtain ⟨j, hj, rfl⟩ := h
  have hj8 : j + o.bp < 8 * o.k := by unfold Obj.k; omega
  unfold absBit
  cases o.hl <;> simp <;> omega

/-- no overlap warning ⇒ the object's bits were all unclaimed -/
theorem encStep_warn_free (o : Obj) (v : IVal) (s : EncState) (hw : (encStep o v s).warn = s.warn) (a : Nat)
    (hc : o.claims (o.pos s.origin s.cursorByte) a) : getBit s.used a = false := by
  cases hu : getBit s.used a with
  | false => rfl
  | true =>
    exfalso
    have hml : (ord o.hl (toBytesBE o.k o.mask)).length = o.k := by rw [ord_length, toBytesBE_length]
    have hov : overlapCount (((s.used ++ List.replicate ((padTo s.msg (o.pos s.origin s.cursorByte + o.k)).length - s.msg.length) 0).drop
        (o.pos s.origin s.cursorByte)).take o.k) (ord o.hl (toBytesBE o.k o.mask)) = 0 := by
      have : (encStep o v s).warn = s.warn + overlapCount (((s.used ++ List.replicate ((padTo s.msg (o.pos s.origin s.cursorByte + o.k)).length - s.msg.length) 0).drop
        (o.pos s.origin s.cursorByte)).take o.k) (ord o.hl (toBytesBE o.k o.mask)) := rfl
      omega
    have hin := Obj.claims_bytes o _ a hc
    unfold getBit at hu
    have hlt : a / 8 < s.used.length := by
      cases hlt : decide (a / 8 < s.used.length) with
      | true => exact of_decide_eq_true hlt
      | false =>
        have := of_decide_eq_false hlt
        rw [List.getD_eq_getElem?_getD, List.getElem?_eq_none (by omega)] at hu
        simp at hu
    have hz := overlapCount_zero _ _ hov (a / 8 - o.pos s.origin s.cursorByte) (by simp; omega) (by rw [hml]; omega)
    rw [getD_take_drop' _ _ _ _ (by omega), getD_append_zeros,
      show o.pos s.origin s.cursorByte + (a / 8 - o.pos s.origin s.cursorByte) = a / 8 by omega] at hz
    have hm := (mask_bit_iff o (o.pos s.origin s.cursorByte) a hin).mpr hc
    have := congrArg (fun x => x.testBit (a % 8)) hz
    simp only [Nat.testBit_and, hu, hm, Bool.and_self, Nat.zero_testBit] at this
    cases this

def Ent.ofObj (role : Role) (o : Obj) (p raw : Nat) : Ent := ⟨role, o.name, p, o.k, o.hl, o.bp, o.bl, raw⟩

/-- one leaf object at its positional-rule position -/
def Lay.obj (role : Role) (o : Obj) (raw : Nat) : Lay where
  ents := fun org c => [Ent.ofObj role o (o.pos org c) raw]
  cur := fun org c => o.pos org c + o.k
  ext := fun org c => o.pos org c + o.k

theorem LClaims_single (e : Ent) (a : Nat) : LClaims [e] a ↔ e.claims a := by
  unfold LClaims
  constructor
  · rintro ⟨x, hx, hc⟩
    simp only [List.mem_cons, List.mem_nil_iff, or_false] at hx
    subst hx; exact hc
  · intro h; exact ⟨e, List.mem_cons_self .., h⟩

theorem LDisj_single (e : Ent) : LDisj [e] := List.pairwise_singleton _ _

theorem LFree_single (u : Bytes) (e : Ent) : LFree u [e] ↔ ∀ a, e.claims a → getBit u a = false := by
  unfold LFree
  constructor
  · intro h; exact h e (List.mem_cons_self ..)
  · intro h x hx
    simp only [List.mem_cons, List.mem_nil_iff, or_false] at hx
    subst hx; exact h

theorem Ent.ofObj_claims (role : Role) (o : Obj) (p raw a : Nat) : (Ent.ofObj role o p raw).claims a ↔ o.claims p a := Iff.rfl

theorem Foot.obj (role : Role) (o : Obj) (v : IVal) : Foot (encStep o v) (Lay.obj role o (o.raw v)) where
  cursor := fun _ => rfl
  origin := fun _ => rfl
  warn_mono := encStep_warn_ge o v
  inv := encStep_usedInv o v
  inside := by
    intro s _ _ e he j hj
    simp only [Lay.obj, List.mem_cons, List.mem_nil_iff, or_false] at he
    subst he
    exact encStep_own_bits o v s j hj
  outside := by
    intro s a hno
    apply encStep_unclaimed
    intro hc
    exact hno ((LClaims_single _ a).mpr hc)
  used_iff := by
    intro s _ a
    rw [encStep_used_iff]
    show _ ↔ (_ ∨ LClaims [Ent.ofObj role o (o.pos s.origin s.cursorByte) (o.raw v)] a)
    rw [LClaims_single]
    exact Iff.rfl
  nowarn_iff := by
    intro s _
    show _ ↔ (LDisj [Ent.ofObj role o (o.pos s.origin s.cursorByte) (o.raw v)] ∧ LFree s.used [Ent.ofObj role o (o.pos s.origin s.cursorByte) (o.raw v)])
    rw [LFree_single]
    constructor
    · intro hw
      exact ⟨LDisj_single _, fun a hc => encStep_warn_free o v s hw a hc⟩
    · intro h
      exact encStep_nowarn o v s h.2
  length := encStep_length o v
  within := by
    intro org c e he
    simp only [Lay.obj, List.mem_cons, List.mem_nil_iff, or_false] at he
    subst he
    refine ⟨?_, Nat.le_refl _⟩
    show o.bl + o.bp ≤ 8 * o.k
    unfold Obj.k; omega

/-! ### zero padding: `emplace_bytes(b"\0" * n)` -/

/-- `m` zero bytes from byte `p` -/
def Ent.pad (p m : Nat) : Ent := ⟨.padding, "", p, m, true, 0, 8 * m, 0⟩

theorem Ent.pad_wf (p m : Nat) : (Ent.pad p m).wf := by
  show 8 * m + 0 ≤ 8 * m
  omega

theorem Ent.pad_claims (p m a : Nat) : (Ent.pad p m).claims a ↔ (p ≤ a / 8 ∧ a / 8 < p + m) := by
  constructor
  · intro h; exact Ent.claims_bytes _ (Ent.pad_wf p m) a h
  · rintro ⟨h1, h2⟩
    refine ⟨8 * (m - 1 - (a / 8 - p)) + a % 8, ?_, ?_⟩
    · show _ < 8 * m
      omega
    · show a = absBit p m true (8 * (m - 1 - (a / 8 - p)) + a % 8 + 0)
      unfold absBit
      simp only [if_true, Nat.add_zero]
      omega

theorem getD_splice_inside_at (a mid : Bytes) (p i : Nat) (hp : p ≤ a.length) (h1 : p ≤ i) (h2 : i < p + mid.length) :
    (a.take p ++ mid ++ a.drop (p + mid.length)).getD i 0 = mid.getD (i - p) 0 := by
  simp only [List.getD_eq_getElem?_getD]
  have hl : (a.take p).length = p := by simp; omega
  rw [List.getElem?_append_left (by simp; omega), List.getElem?_append_right (by rw [hl]; exact h1), hl]

theorem getD_replicate_in (n x i : Nat) (hi : i < n) : (List.replicate n x).getD i 0 = x := by
  simp [List.getD_eq_getElem?_getD, List.getElem?_replicate, hi]

theorem padEnc_getBit_msg (n : Nat) (s : EncState) (a : Nat) :
    getBit (padEnc n s).msg a = if s.cursorByte ≤ a / 8 ∧ a / 8 < s.cursorByte + n then false else getBit s.msg a := by
  have hlenm : s.cursorByte ≤ (padTo s.msg (s.cursorByte + n)).length := by rw [padTo_length]; omega
  unfold getBit
  simp only [padEnc]
  split
  · rename_i hin
    have := getD_splice_inside_at (padTo s.msg (s.cursorByte + n)) (List.replicate n 0) s.cursorByte (a / 8) hlenm hin.1
      (by rw [List.length_replicate]; exact hin.2)
    rw [List.length_replicate] at this
    rw [this, getD_replicate_in n 0 _ (by omega)]
    simp
  · rename_i hout
    have := getD_splice_outside (padTo s.msg (s.cursorByte + n)) (List.replicate n 0) s.cursorByte (a / 8)
      (by rw [List.length_replicate]
          by_cases h : a / 8 < s.cursorByte
          · exact Or.inl ⟨h, by omega⟩
          · exact Or.inr ⟨by omega, hlenm⟩)
    rw [List.length_replicate] at this
    rw [this, getD_padTo]

theorem padEnc_U_length (n : Nat) (s : EncState) (h : UsedOk s) :
    (s.used ++ List.replicate ((padTo s.msg (s.cursorByte + n)).length - s.msg.length) 0).length = max s.msg.length (s.cursorByte + n) := by
  simp only [List.length_append, List.length_replicate, padTo_length, h.1]
  omega

theorem padEnc_getBit_used (n : Nat) (s : EncState) (h : UsedOk s) (a : Nat) :
    getBit (padEnc n s).used a = if s.cursorByte ≤ a / 8 ∧ a / 8 < s.cursorByte + n then true else getBit s.used a := by
  have hU := padEnc_U_length n s h
  unfold getBit
  simp only [padEnc]
  split
  · rename_i hin
    have := getD_splice_inside_at (s.used ++ List.replicate ((padTo s.msg (s.cursorByte + n)).length - s.msg.length) 0)
      (List.replicate n 255) s.cursorByte (a / 8) (by rw [hU]; omega) hin.1 (by rw [List.length_replicate]; exact hin.2)
    rw [List.length_replicate] at this
    rw [this, getD_replicate_in n 255 _ (by omega)]
    have h8 : a % 8 < 8 := Nat.mod_lt _ (by decide)
    rw [show (255 : Nat) = 2 ^ 8 - 1 from rfl, Nat.testBit_two_pow_sub_one]
    simp [h8]
  · rename_i hout
    have := getD_splice_outside (s.used ++ List.replicate ((padTo s.msg (s.cursorByte + n)).length - s.msg.length) 0)
      (List.replicate n 255) s.cursorByte (a / 8)
      (by rw [List.length_replicate]
          by_cases h' : a / 8 < s.cursorByte
          · exact Or.inl ⟨h', by rw [hU]; omega⟩
          · exact Or.inr ⟨by omega, by rw [hU]; omega⟩)
    rw [List.length_replicate] at this
    rw [this, getD_append_zeros]

theorem padEnc_usedOk (n : Nat) (s : EncState) (h : UsedOk s) : UsedOk (padEnc n s) := by
  have hU := padEnc_U_length n s h
  constructor
  · rw [padEnc_length]
    simp only [padEnc, List.length_append, List.length_take, List.length_replicate, List.length_drop, hU]
    omega
  · have hUall : AllBytes (s.used ++ List.replicate ((padTo s.msg (s.cursorByte + n)).length - s.msg.length) 0) :=
      allBytes_append _ _ h.2 (allBytes_replicate_zero _)
    simp only [padEnc]
    refine allBytes_append _ _ (allBytes_append _ _ (fun x hx => hUall x (List.mem_of_mem_take hx)) ?_)
      (fun x hx => hUall x (List.mem_of_mem_drop hx))
    intro x hx
    rw [List.mem_replicate] at hx
    omega

theorem byte_zero_of_bits (x : Nat) (hx : x < 256) (h : ∀ j, j < 8 → x.testBit j = false) : x = 0 := by
  apply Nat.eq_of_testBit_eq
  intro j
  rw [Nat.zero_testBit]
  by_cases hj : j < 8
  · exact h j hj
  · exact Nat.testBit_lt_two_pow (Nat.lt_of_lt_of_le hx (by
      rw [show (256:Nat) = 2 ^ 8 from rfl]; exact Nat.pow_le_pow_right (by decide) (by omega)))

/-- the padding raises no overlap warning ⇔ none of its bytes was claimed -/
theorem padEnc_nowarn_iff (n : Nat) (s : EncState) (h : UsedOk s) :
    (padEnc n s).warn = s.warn ↔ ∀ a, (s.cursorByte ≤ a / 8 ∧ a / 8 < s.cursorByte + n) → getBit s.used a = false := by
  have hU := padEnc_U_length n s h
  have hw : (padEnc n s).warn = s.warn + (if (((s.used ++ List.replicate ((padTo s.msg (s.cursorByte + n)).length - s.msg.length) 0).drop
      s.cursorByte).take n).any (· ≠ 0) then 1 else 0) := rfl
  have hbyte : ∀ i, i < n → (((s.used ++ List.replicate ((padTo s.msg (s.cursorByte + n)).length - s.msg.length) 0).drop
      s.cursorByte).take n).getD i 0 = s.used.getD (s.cursorByte + i) 0 := by
    intro i hi
    rw [getD_take_drop' _ _ _ _ hi, getD_append_zeros]
  have hlen : (((s.used ++ List.replicate ((padTo s.msg (s.cursorByte + n)).length - s.msg.length) 0).drop
      s.cursorByte).take n).length = n := by
    rw [List.length_take, List.length_drop, hU]; omega
  constructor
  · intro hnw a hin
    have hany : (((s.used ++ List.replicate ((padTo s.msg (s.cursorByte + n)).length - s.msg.length) 0).drop
        s.cursorByte).take n).any (· ≠ 0) = false := by
      cases hh : (((s.used ++ List.replicate ((padTo s.msg (s.cursorByte + n)).length - s.msg.length) 0).drop
        s.cursorByte).take n).any (· ≠ 0) with
      | false => rfl
      | true => rw [hw, hh] at hnw; simp at hnw
    rw [List.any_eq_false] at hany
    have hi : a / 8 - s.cursorByte < n := by omega
    have hb := hbyte (a / 8 - s.cursorByte) hi
    rw [show s.cursorByte + (a / 8 - s.cursorByte) = a / 8 by omega] at hb
    have hmem : (((s.used ++ List.replicate ((padTo s.msg (s.cursorByte + n)).length - s.msg.length) 0).drop
        s.cursorByte).take n).getD (a / 8 - s.cursorByte) 0 ∈ (((s.used ++ List.replicate ((padTo s.msg (s.cursorByte + n)).length - s.msg.length) 0).drop
        s.cursorByte).take n) := by
      rw [List.getD_eq_getElem?_getD, List.getElem?_eq_getElem (by rw [hlen]; exact hi)]
      exact List.getElem_mem _
    have h0 := hany _ hmem
    rw [hb] at h0
    unfold getBit
    have : s.used.getD (a / 8) 0 = 0 := by simpa using h0
    rw [this]
    simp
  · intro hfree
    have hany : (((s.used ++ List.replicate ((padTo s.msg (s.cursorByte + n)).length - s.msg.length) 0).drop
        s.cursorByte).take n).any (· ≠ 0) = false := by
      rw [List.any_eq_false]
      intro x hx
      obtain ⟨i, hi, hxi⟩ := List.getElem_of_mem hx
      rw [hlen] at hi
      have hb := hbyte i hi
      rw [List.getD_eq_getElem?_getD, List.getElem?_eq_getElem (by rw [hlen]; exact hi), hxi] at hb
      simp only [Option.getD_some] at hb
      have hx256 : x < 256 := by
        have hUall : AllBytes (s.used ++ List.replicate ((padTo s.msg (s.cursorByte + n)).length - s.msg.length) 0) :=
          allBytes_append _ _ h.2 (allBytes_replicate_zero _)
        exact hUall x (List.mem_of_mem_drop (List.mem_of_mem_take hx))
      have : x = 0 := by
        apply byte_zero_of_bits x hx256
        intro j hj
        have := hfree (8 * (s.cursorByte + i) + j) (by omega)
        unfold getBit at this
        rw [show (8 * (s.cursorByte + i) + j) / 8 = s.cursorByte + i by omega,
          show (8 * (s.cursorByte + i) + j) % 8 = j by omega, ← hb] at this
        exact this
      simp [this]
    rw [hw, hany]
    simp

/-- zero padding behind a static-field item up to ITEM-BYTE-SIZE `n` (seen from inside the item: `org` = the item's first
    byte, `c` = the cursor behind the item's content); nothing if the content already reaches that far -/
def Lay.padTo (n : Nat) : Lay where
  ents := fun org c => if c < org + n then [Ent.pad c (org + n - c)] else []
  cur := fun org _ => org + n
  ext := fun org c => if c < org + n then org + n else 0

theorem Foot.padTo (n : Nat) : Foot (Pair.padTo n).enc (Lay.padTo n) where
  cursor := by
    intro s
    simp only [Pair.padTo, Lay.padTo]
    split
    · rw [padEnc_cursor]; omega
    · rfl
  origin := by
    intro s
    simp only [Pair.padTo]
    split <;> rfl
  warn_mono := by
    intro s
    simp only [Pair.padTo]
    split
    · exact padEnc_warn_ge _ s
    · exact Nat.le_refl _
  inv := by
    intro s h
    simp only [Pair.padTo]
    split
    · exact padEnc_usedOk _ s h
    · exact h
  inside := by
    intro s _ _ e he j hj
    simp only [Pair.padTo, Lay.padTo] at he ⊢
    by_cases hlt : s.cursorByte < s.origin + n
    · rw [if_pos hlt] at he ⊢
      simp only [List.mem_cons, List.mem_nil_iff, or_false] at he
      subst he
      have hc : (Ent.pad s.cursorByte (s.origin + n - s.cursorByte)).claims ((Ent.pad s.cursorByte (s.origin + n - s.cursorByte)).abs j) :=
        ⟨j, hj, rfl⟩
      rw [padEnc_getBit_msg, if_pos ((Ent.pad_claims _ _ _).mp hc)]
      show false = (0 : Nat).testBit j
      simp
    · rw [if_neg hlt] at he
      cases he
  outside := by
    intro s a hno
    simp only [Pair.padTo, Lay.padTo] at hno ⊢
    by_cases hlt : s.cursorByte < s.origin + n
    · rw [if_pos hlt] at hno ⊢
      rw [padEnc_getBit_msg, if_neg]
      intro hin
      exact hno ((LClaims_single _ a).mpr ((Ent.pad_claims _ _ _).mpr hin))
    · rw [if_neg hlt]
  used_iff := by
    intro s hu a
    simp only [Pair.padTo, Lay.padTo]
    by_cases hlt : s.cursorByte < s.origin + n
    · rw [if_pos hlt, if_pos hlt, padEnc_getBit_used _ s hu, LClaims_single, Ent.pad_claims]
      by_cases hin : s.cursorByte ≤ a / 8 ∧ a / 8 < s.cursorByte + (s.origin + n - s.cursorByte)
      · simp [hin]
      · simp [hin]
    · rw [if_neg hlt, if_neg hlt]
      exact ⟨Or.inl, fun h => h.elim id (fun h => absurd h (LClaims_nil a))⟩
  nowarn_iff := by
    intro s hu
    simp only [Pair.padTo, Lay.padTo]
    by_cases hlt : s.cursorByte < s.origin + n
    · rw [if_pos hlt, if_pos hlt, padEnc_nowarn_iff _ s hu, LFree_single]
      constructor
      · intro h
        exact ⟨LDisj_single _, fun a hc => h a ((Ent.pad_claims _ _ _).mp hc)⟩
      · intro h a hin
        exact h.2 a ((Ent.pad_claims _ _ _).mpr hin)
    · rw [if_neg hlt, if_neg hlt]
      exact ⟨fun _ => ⟨List.Pairwise.nil, fun e he => by cases he⟩, fun _ => rfl⟩
  length := by
    intro s
    simp only [Pair.padTo, Lay.padTo]
    by_cases hlt : s.cursorByte < s.origin + n
    · rw [if_pos hlt, if_pos hlt, padEnc_length]; omega
    · rw [if_neg hlt, if_neg hlt]
      show s.msg.length = max s.msg.length 0
      omega
  within := by
    intro org c e he
    simp only [Lay.padTo] at he ⊢
    by_cases hlt : c < org + n
    · rw [if_pos hlt] at he ⊢
      simp only [List.mem_cons, List.mem_nil_iff, or_false] at he
      subst he
      refine ⟨Ent.pad_wf _ _, ?_⟩
      show c + (org + n - c) ≤ org + n
      omega
    · rw [if_neg hlt] at he
      cases he

/-- `emplace_bytes(b"")` of an empty dynamic-length field: the message is extended up to the cursor, nothing is claimed -/
def Lay.touch : Lay := { ents := fun _ _ => [], cur := fun _ c => c, ext := fun _ c => c }

theorem Foot.touch : Foot Pair.touch.enc Lay.touch where
  cursor := fun s => by show (padEnc 0 s).cursorByte = s.cursorByte; rw [padEnc_cursor]; rfl
  origin := fun _ => rfl
  warn_mono := padEnc_warn_ge 0
  inv := fun s h => padEnc_usedOk 0 s h
  inside := fun _ _ _ e he => by cases he
  outside := by
    intro s a _
    show getBit (padEnc 0 s).msg a = _
    rw [padEnc_getBit_msg, if_neg (by omega)]
  used_iff := by
    intro s hu a
    show getBit (padEnc 0 s).used a = true ↔ _
    rw [padEnc_getBit_used 0 s hu, if_neg (by omega)]
    exact ⟨Or.inl, fun h => h.elim id (fun h => absurd h (LClaims_nil a))⟩
  nowarn_iff := by
    intro s hu
    show (padEnc 0 s).warn = s.warn ↔ _
    rw [padEnc_nowarn_iff 0 s hu]
    exact ⟨fun _ => ⟨List.Pairwise.nil, fun e he => by cases he⟩, fun _ a hin => by omega⟩
  length := fun s => by show (padEnc 0 s).msg.length = _; rw [padEnc_length]; rfl
  within := fun _ _ e he => by cases he

end OdxVerif.Codec
