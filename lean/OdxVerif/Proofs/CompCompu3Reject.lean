import OdxVerif.Proofs.CompReject2Described
import OdxVerif.Proofs.CompCompuKinds
/-! Compositional tier, rejection side, compu-method leaves (task W24, property C04).
    A **conversion specification** `ConvSpec` of a DOP over the object `o` says, for every supplied value whatsoever, whether
    the DOP converts it (`conv x = some (val, i)`: internal value `i`, which the decoder maps back to `val`) or not; `ConvSpec.Ok`
    is the refinement statement against the model (accepted ⇒ `ConvOk`, the conversion facts of `Proofs/CompCompuLeaf.lean`;
    not accepted ⇒ the model's strict `encodeDop` ends in `EncodeError` / `OdxError`, or `unmodelled` where `typed` says so).
    `PDesc.ofConv` is the VALUE parameter (no default) over such a DOP as a description of the rejection tier, and
    `PDesc.ofConv_okW` its soundness — so it is a leaf for every closure lemma of W14 / W18 (`DescribedP3`,
    `Proofs/CompCompu3RejectDescribed.lean`). -/
namespace OdxVerif.Codec
open OdxVerif.Bits OdxVerif.OdxM OdxVerif.Compu

/-- what a DOP makes of a supplied value: `some (decoded value, internal value)` or `none` (rejected) -/
structure ConvSpec where
  conv : PVal → Option (PVal × IVal)
  typed : PVal → Bool

structure ConvSpec.Ok (c : ConvSpec) (o : Obj) (dop : Dop) : Prop where
  acc : ∀ (x val : PVal) (i : IVal), c.conv x = some (val, i) → o.inRange i ∧ ConvOk dop o.dct x val i
  rej : ∀ (x : PVal), x ≠ PVal.none → x.wfAtoms = true → c.conv x = none → ∀ (f : Nat) (es : EncState),
    ∃ e s', encodeDop (f + 1) dop x (o.encAt es) true = .error (e, s') ∧ RejErr e (c.typed x)

/-- VALUE parameter (no default) at the place of `o` typed by `dop` -/
def PDesc.ofConv (o : Obj) (dop : Dop) (c : ConvSpec) : PDesc where
  param := .mk o.name o.bytePos o.bitPos (.value dop none)
  fill := fun pv => match pv with
    | some x => (c.conv x).map fun r => Comp.ofConvLeaf o dop x r.1 r.2
    | none => none
  complete := fun pv => match pv with
    | some x => ((c.conv x).map (·.1)).getD .none
    | none => .none
  typed := fun pv => match pv with
    | some x => c.typed x
    | none => true
  need := fun _ => 2
  minAdv := 1

/-- a required VALUE parameter without a value: `EncodeError` -/
theorem encodeParam_value_missing (fuel : Nat) (n : String) (bp bitp : Option Nat) (dop : Dop) (s : EncState) :
    ∃ s', encodeParam (fuel + 1) (.mk n bp bitp (.value dop none)) none s true = .error (.encode, s') := by
  refine ⟨?_, ?_⟩
  rotate_left
  · simp [encodeParam, bind, run_bind, run_modifyS, odxraise]
    rfl

theorem PDesc.ofConv_okW (o : Obj) (dop : Dop) (c : ConvSpec) (ho : o.ok) (hc : c.Ok o dop) : (PDesc.ofConv o dop c).OkW where
  notKey := rfl
  acc := by
    intro pv g _ hf
    have key : ∃ x val i, pv = some x ∧ c.conv x = some (val, i) ∧ g = Comp.ofConvLeaf o dop x val i := by
      cases pv with
      | none => simp [PDesc.ofConv] at hf
      | some x =>
        simp only [PDesc.ofConv] at hf
        cases hcx : c.conv x with
        | none => rw [hcx] at hf; cases hf
        | some r =>
          obtain ⟨val, i⟩ := r
          rw [hcx] at hf
          exact ⟨x, val, i, rfl, hcx, (Option.some.inj hf).symm⟩
    obtain ⟨x, val, i, rfl, hcx, rfl⟩ := key
    obtain ⟨hr, hconv⟩ := hc.acc x val i hcx
    exact {
      ok := Comp.ofConvLeaf_ok o dop x val i ho hr hconv
      endOk := Comp.ofConvLeaf_endOk o dop x val i
      param := rfl
      sup := rfl
      need := Nat.le_refl _
      eop := fun h => by cases h
      adv := fun org cu => by
        have := o.k_pos ho
        show 1 ≤ o.pos org cu + o.k
        omega
      val := by simp [PDesc.ofConv, hcx, Comp.ofConvLeaf_val] }
  rej := by
    intro pv hne hwf hf fuel hfu s _
    obtain ⟨f, rfl⟩ : ∃ f, fuel = f + 2 := ⟨fuel - 2, by simp only [PDesc.ofConv] at hfu; omega⟩
    cases pv with
    | none =>
      obtain ⟨s', h⟩ := encodeParam_value_missing (f + 1) o.name o.bytePos o.bitPos dop s
      exact ⟨.encode, s', h, RejErr.encode _⟩
    | some x =>
      have hx : x ≠ PVal.none := fun e => hne (by rw [e])
      have hcx : c.conv x = none := by
        simp only [PDesc.ofConv] at hf
        cases h : c.conv x with
        | none => rfl
        | some r => rw [h] at hf; cases hf
      obtain ⟨e, s', hrun, he⟩ := hc.rej x hx hwf hcx f s
      have hrun' : encodeDop (f + 1) dop x
          { s with cursorByte := posOf o.bytePos s.origin s.cursorByte, cursorBit := o.bitPos.getD 0 } true = .error (e, s') := hrun
      refine ⟨e, s', ?_, he⟩
      show encodeParam ((f + 1) + 1) (.mk o.name o.bytePos o.bitPos (.value dop none)) (some x) s true = _
      rw [encodeParam_value_step, hrun']

/-! ### the diag-coded type of an object rejects what the object cannot hold (extracted from `Obj.rejectsW`) -/

/-- an integer the object cannot hold is rejected by its diag-coded type with a library error -/
theorem encodeDct_obj_bad (o : Obj) (ho : o.ok) (v : IVal) (hv : v.wf = true) (hty : typeAdmits o.bt v = true)
    (hbad : o.accepts v = false) (es : EncState) :
    ∃ e s', encodeDct o.dct v (o.encAt es) true = .error (e, s') ∧ RejErr e (o.typedLeaf (some (.atom v))) := by
  obtain ⟨e, s', hrun, he⟩ := o.rejectsW ho (some (.atom v)) (by simp) hv (fun w hw => by cases hw; exact hbad) 0 es
  simp only [Obj.toParam] at hrun
  rw [encodeParam_value_step] at hrun
  simp only [encodeDop, hty, Bool.not_true, Bool.false_eq_true, if_false] at hrun
  cases hd : encodeDct o.dct v (o.encAt es) true with
  | error q =>
    have hd' : encodeDct (.std o.bt o.enc o.hl o.bl none false) v
        { es with cursorByte := posOf o.bytePos es.origin es.cursorByte, cursorBit := o.bitPos.getD 0 } true = .error q := hd
    rw [hd'] at hrun
    obtain ⟨e', s''⟩ := q
    simp only [Except.error.injEq, Prod.mk.injEq] at hrun
    exact ⟨e', s'', rfl, by rw [hrun.1]; exact he⟩
  | ok q =>
    have hd' : encodeDct (.std o.bt o.enc o.hl o.bl none false) v
        { es with cursorByte := posOf o.bytePos es.origin es.cursorByte, cursorBit := o.bitPos.getD 0 } true = .ok q := hd
    rw [hd'] at hrun
    cases hrun

/-! ### DTC-DOP (IDENTICAL compu method): the complete conversion specification -/

/-- a DTC-DOP description (no value): object of the coded trouble code, physical type, DTCs, the types of the method -/
structure DtcShape where
  o : Obj
  phys : BaseType
  dtcs : List (Int × String)
  ity : DType
  pty : DType

def DtcShape.dop (l : DtcShape) : Dop := .dtc l.o.dct l.phys .identical l.dtcs

/-- decidable: an integer object; the types exist; **no trouble code is listed twice** (otherwise the encoder accepts the code
    and the decoder fails on it: `exDtcDupParams`, `Props/C01Nested3.lean`); every listed code is of the internal type -/
def DtcShape.ok (l : DtcShape) : Prop :=
  l.o.ok ∧ l.o.isInt ∧ dtype? l.o.bt = some l.ity ∧ dtype? l.phys = some l.pty ∧ (l.dtcs.map (·.1)).Nodup ∧
  ∀ d ∈ l.dtcs, typeOk l.ity (.int d.1) = true

/-- `DtcDop.convert_to_numerical_trouble_code` -/
def DtcShape.code? (l : DtcShape) : PVal → Option Int
  | .dtc c => some c
  | .atom (.int c) => some c
  | .atom (.str cps) =>
    match l.dtcs.filter (fun d => d.2.toList.map Char.toNat == cps) with
    | [d] => some d.1
    | _ => none
  | _ => none

/-- accepted: a DTC object / number / short name of a **known** trouble code the object can hold; decoded: the DTC object -/
def DtcShape.spec (l : DtcShape) : ConvSpec where
  conv := fun x => match l.code? x with
    | some c => if (l.dtcs.any fun d => d.1 == c) && l.o.accepts (.int c) then some (.dtc c, .int c) else none
    | none => none
  typed := fun _ => true

theorem filter_code_length (dtcs : List (Int × String)) (c : Int) (hnd : (dtcs.map (·.1)).Nodup)
    (hk : dtcs.any (fun d => d.1 == c) = true) : (dtcs.filter fun d => d.1 == c).length = 1 := by
  induction dtcs with
  | nil => simp at hk
  | cons d ds ih =>
    simp only [List.map_cons, List.nodup_cons] at hnd
    by_cases hd : d.1 = c
    · have : ds.filter (fun d => d.1 == c) = [] := by
        rw [List.filter_eq_nil_iff]
        intro x hx hxc
        apply hnd.1
        rw [hd]
        simp only [beq_iff_eq] at hxc
        exact List.mem_map.mpr ⟨x, hx, hxc⟩
      simp [List.filter_cons, hd, this]
    · have hk' : ds.any (fun d => d.1 == c) = true := by simpa [hd] using hk
      simp [List.filter_cons, hd, ih hnd.2 hk']

theorem DtcShape.supOk_of_code (l : DtcShape) (x : PVal) (c : Int) (h : l.code? x = some c) :
    (⟨l.o, l.phys, l.dtcs, c, l.ity, l.pty⟩ : DtcLeaf).supOk x := by
  cases x with
  | dtc c' => simp only [DtcShape.code?, Option.some.injEq] at h; exact h
  | atom v =>
    cases v with
    | int c' => simp only [DtcShape.code?, Option.some.injEq] at h; exact h
    | str cps =>
      simp only [DtcShape.code?] at h
      cases hf : l.dtcs.filter (fun d => d.2.toList.map Char.toNat == cps) with
      | nil => rw [hf] at h; cases h
      | cons d rest =>
        cases rest with
        | nil => rw [hf] at h; exact ⟨d, hf, Option.some.inj h⟩
        | cons _ _ => rw [hf] at h; cases h
    | _ => simp [DtcShape.code?] at h
  | _ => simp [DtcShape.code?] at h

theorem DtcShape.spec_ok (l : DtcShape) (h : l.ok) : l.spec.Ok l.o l.dop where
  acc := by
    intro x val i hc
    obtain ⟨ho, hint, hi, hp, hnd, hty⟩ := h
    simp only [DtcShape.spec] at hc
    cases hcode : l.code? x with
    | none => rw [hcode] at hc; cases hc
    | some c =>
      rw [hcode] at hc
      dsimp only at hc
      by_cases hka : ((l.dtcs.any fun d => d.1 == c) && l.o.accepts (.int c)) = true
      · rw [if_pos hka] at hc
        simp only [Option.some.injEq, Prod.mk.injEq] at hc
        obtain ⟨rfl, rfl⟩ := hc
        simp only [Bool.and_eq_true] at hka
        have hr := (l.o.accepts_iff ho (.int c)).mp hka.2
        obtain ⟨d, hd, hdc⟩ := List.any_eq_true.mp hka.1
        have hok : (⟨l.o, l.phys, l.dtcs, c, l.ity, l.pty⟩ : DtcLeaf).ok :=
          ⟨ho, hr, hi, hp, by rw [← (beq_iff_eq.mp hdc)]; exact hty d hd, filter_code_length _ _ hnd hka.1⟩
        exact ⟨hr, DtcLeaf.convOk _ hok x (l.supOk_of_code x c hcode)⟩
      · rw [if_neg hka] at hc; cases hc
  rej := by
    intro x hx hwf hc f es
    obtain ⟨ho, hint, hi, hp, hnd, hty⟩ := h
    have hm : CCompu.identical.method? l.o.dct.baseType l.phys = some (.identical l.ity l.pty) := by
      simp [CCompu.method?, Obj.dct_baseType, hi, hp]
    simp only [DtcShape.spec] at hc
    cases hcode : l.code? x with
    | none =>
      refine ⟨.encode, ?_, ?_, RejErr.encode _⟩
      rotate_left
      · unfold DtcShape.dop encodeDop
        cases x with
        | none => exact absurd rfl hx
        | dtc c => simp [DtcShape.code?] at hcode
        | atom v =>
          cases v with
          | int c => simp [DtcShape.code?] at hcode
          | str cps =>
            simp only [DtcShape.code?] at hcode
            cases hf : l.dtcs.filter (fun d => d.2.toList.map Char.toNat == cps) with
            | nil => simp [hf, bind, run_bind, odxraise] <;> rfl
            | cons d rest =>
              cases rest with
              | nil => rw [hf] at hcode; cases hcode
              | cons _ _ => simp [hf, bind, run_bind, odxraise] <;> rfl
          | _ => simp [bind, run_bind, odxraise] <;> rfl
        | _ => simp [bind, run_bind, odxraise] <;> rfl
    | some c =>
      rw [hcode] at hc
      dsimp only at hc
      have hsup := l.supOk_of_code x c hcode
      have hconv : ∀ es : EncState, encodeDop (f + 1) l.dop x es true =
          (if !(l.dtcs.any fun d => d.1 == c) then .error (.encode, es) else encodeDct l.o.dct (.int c) es true) := by
        intro es
        unfold DtcShape.dop encodeDop
        cases x with
        | dtc c' =>
          have : c' = c := hsup
          subst this
          cases hk : l.dtcs.any fun d => d.1 == c' <;>
            simp [hm, methodP2I, bind, run_bind, pure, run_pure, hk, odxraise]
        | atom v =>
          cases v with
          | int c' =>
            have : c' = c := hsup
            subst this
            cases hk : l.dtcs.any fun d => d.1 == c' <;>
              simp [hm, methodP2I, bind, run_bind, pure, run_pure, hk, odxraise]
          | str cps =>
            obtain ⟨d, hd, hdc⟩ := hsup
            cases hk : l.dtcs.any fun d => d.1 == c <;>
              simp [hm, methodP2I, bind, run_bind, pure, run_pure, hk, hd, hdc, odxraise]
          | _ => exact absurd hsup (by simp [DtcLeaf.supOk])
        | _ => first | exact absurd rfl hx | exact absurd hsup (by simp [DtcLeaf.supOk])
      rw [hconv]
      cases hk : l.dtcs.any fun d => d.1 == c with
      | false => exact ⟨.encode, l.o.encAt es, by simp, RejErr.encode _⟩
      | true =>
        have hacc : l.o.accepts (.int c) = false := by
          cases ha : l.o.accepts (.int c) with
          | false => rfl
          | true => rw [hk, ha] at hc; simp at hc
        have hadm : typeAdmits l.o.bt (.int c) = true := by
          unfold Obj.isInt at hint
          rcases hint with h | h <;> simp [Obj.bt, h, typeAdmits]
        obtain ⟨e, s', hrun, he⟩ := encodeDct_obj_bad l.o ho (.int c) rfl hadm hacc es
        rw [l.o.typedLeaf_int hint] at he
        exact ⟨e, s', by simpa using hrun, he⟩

/-- the DTC-DOP parameter description and its soundness -/
def DtcShape.pdesc (l : DtcShape) : PDesc := PDesc.ofConv l.o l.dop l.spec
theorem DtcShape.pdesc_okW (l : DtcShape) (h : l.ok) : l.pdesc.OkW := PDesc.ofConv_okW _ _ _ h.1 (l.spec_ok h)

end OdxVerif.Codec
