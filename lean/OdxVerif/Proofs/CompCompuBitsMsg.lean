import OdxVerif.Proofs.CompCompuBits
import OdxVerif.Props.C02Nested2
/-! Bit-exactness (property C02) for messages with compu-method leaves, extension W21: the message level for `Desc3`
    (`Proofs/CompBits2Msg.lean`, copied) and the C02 statements `C02_bit_exact_nested3` / `C02_overlap_iff_nested3` — the
    statements of `C02_bit_exact_nested2` / `C02_overlap_iff_nested2` (`Props/C02Nested2.lean`) over `Desc3`.  For a LINEAR /
    TEXTTABLE / DTC leaf the layout entry carries the raw pattern of the **internal** value. -/
namespace OdxVerif.Codec
open OdxVerif.Bits OdxVerif.OdxM

/-- the layout of a request / response: origin 0, cursor 0 -/
def Descs3.layout (ds : List Desc3) : List Ent2 := (Descs3.lay ds).ents 0 0
def Descs3.extent (ds : List Desc3) : Nat := (Descs3.lay ds).ext 0 0
def Descs3.endCursor (ds : List Desc3) : Nat := (Descs3.lay ds).cur 0 0
def Descs3.params (ds : List Desc3) : List Param := Comps.toParams (Descs3.comps ds)
def Descs3.supplied (ds : List Desc3) : List (String × PVal) := Comps.values (Descs3.comps ds)
def Descs3.decoded (ds : List Desc3) : List (String × PVal) := (Comps.pair (Descs3.comps ds)).val

/-- well-formed at the top level of a response to `trig` (a request: `trig = none`): MATCHING-REQUEST-PARAMs are allowed -/
def Desc3.wfTop (trig : Option Bytes) : Desc3 → Prop
  | .matching _ _ reqPos byteLen t => trig = some t ∧ AllBytes t ∧ reqPos + byteLen ≤ t.length ∧ 1 ≤ byteLen ∧ byteLen ≤ 8
  | d => d.wf

def Descs3.wfTop (trig : Option Bytes) : List Desc3 → Prop
  | [] => True
  | d :: ds => d.wfTop trig ∧ Descs3.wfTop trig ds

/-- a well-formed request / response: well-formed parameters, distinct names, END-OF-PDU objects only last, no parameter that
    needs `is_end_of_pdu` cleared in last position, within the model's fuel -/
def Descs3.ok (trig : Option Bytes) (ds : List Desc3) : Prop :=
  Descs3.wfTop trig ds ∧ Comps.namesOk (Descs3.comps ds) ∧ Comps.eopLast (Descs3.comps ds) ∧
  MComps.midNotLast (Descs3.mcs ds) ∧ Comps.need (Descs3.comps ds) + 2 ≤ modelFuel

/-- no BYTE-SIZE padding hits a bit claimed before it (vacuous without BYTE-SIZE structures that are actually padded) -/
def Descs3.padOk (ds : List Desc3) : Prop := PadOk (Descs3.layout ds) (fun _ => False)

theorem Desc3.wfTop_cases (trig : Option Bytes) (d : Desc3) (h : d.wfTop trig) :
    d.wf ∨ ∃ n bp rp bl t, d = .matching n bp rp bl t ∧ trig = some t ∧ AllBytes t ∧ rp + bl ≤ t.length ∧ 1 ≤ bl ∧ bl ≤ 8 := by
  cases d
  case matching n bp rp bl t => exact Or.inr ⟨n, bp, rp, bl, t, rfl, h⟩
  all_goals exact Or.inl h

theorem Desc3.describedTop (trig : Option Bytes) (d : Desc3) (h : d.wfTop trig) : DescribedTop3 trig d.mc.c d.mc.mid := by
  rcases Desc3.wfTop_cases trig d h with h | ⟨n, bp, rp, bl, t, rfl, ht, hall, hlen, h1, h8⟩
  · exact DescribedTop3.nested _ _ (Desc3.described d h)
  · exact DescribedTop3.matchingReq n bp rp bl t ht hall hlen h1 h8

theorem Descs3.describedTop (trig : Option Bytes) : (ds : List Desc3) → Descs3.wfTop trig ds →
    ∀ m ∈ Descs3.mcs ds, DescribedTop3 trig m.c m.mid
  | [], _ => by intro m hm; simp [Descs3.mcs] at hm
  | d :: ds, h => by
    intro m hm
    simp only [Descs3.mcs, List.mem_cons] at hm
    rcases hm with rfl | hm
    · exact Desc3.describedTop trig d h.1
    · exact Descs3.describedTop trig ds h.2 m hm

theorem Descs3.okAllTop (trig : Option Bytes) (ds : List Desc3) (h : Descs3.wfTop trig ds) :
    MComps.okAll (TopInv trig) (Descs3.mcs ds) :=
  MComps.okAll_of_forall _ _ (fun m hm => (Descs3.describedTop trig ds h m hm).ok.1)

theorem Descs3.footTop (trig : Option Bytes) : (ds : List Desc3) → Descs3.wfTop trig ds →
    Foot2 (Comps.pair (Descs3.comps ds)).enc (Descs3.lay ds)
  | [], _ => Foot2.nil
  | d :: ds, h => by
    have hd : d.wf ∨ ∃ n bp rp bl t, d = .matching n bp rp bl t ∧ AllBytes t := by
      rcases Desc3.wfTop_cases trig d h.1 with h' | ⟨n, bp, rp, bl, t, he, _, hall, _⟩
      · exact Or.inl h'
      · exact Or.inr ⟨n, bp, rp, bl, t, he, hall⟩
    exact Foot2.seq (ea := d.mc.c.pair.enc) (eb := (Comps.pair (Descs3.comps ds)).enc) (Desc3.foot d hd) (Descs3.footTop trig ds h.2)

/-- strict `encodeMessage` = the pure encoder from the empty state -/
theorem descs3_encodeMessage (trig : Option Bytes) (ds : List Desc3) (hok : Descs3.ok trig ds) :
    encodeMessage none (Descs3.params ds) (.dict (Descs3.supplied ds)) trig true =
      .ok (((Comps.pair (Descs3.comps ds)).enc {}).msg, ((Comps.pair (Descs3.comps ds)).enc {}).warn) := by
  obtain ⟨hwf, hn, hlast, hmid, hneed⟩ := hok
  have hokAll := Descs3.okAllTop trig ds hwf
  let s0 : EncState := { trig := trig, isEndOfPdu := true }
  obtain ⟨s1, hrun, hcore, _⟩ := DComp.structM_encode_eq (ModelInv.top trig) (Descs3.mcs ds) hokAll hn hlast modelFuel hneed
    s0 rfl (fun _ => rfl) (fun h => by rw [show MComps.lastMid (Descs3.mcs ds) = false from hmid] at h; cases h)
    ⟨rfl, Nat.le_refl _⟩
  have hrun' : encodeDop modelFuel (.struct none (Comps.toParams (Descs3.comps ds))) (.dict (Comps.values (Descs3.comps ds)))
      { trig := trig, isEndOfPdu := true } true = .ok ((), s1) := hrun
  unfold encodeMessage Descs3.params Descs3.supplied
  rw [hrun']
  have hs0 : SameCore ({ s0 with origin := s0.cursorByte } : EncState) {} := ⟨rfl, rfl, rfl, rfl, rfl⟩
  have h2 := (MComps.good _ hokAll).core _ _ hs0
  have hm : s1.msg = ((Comps.pair (Descs3.comps ds)).enc {}).msg := hcore.1.trans h2.1
  have hw : s1.warn = ((Comps.pair (Descs3.comps ds)).enc {}).warn := hcore.2.2.1.trans h2.2.2.1
  simp only [hm, hw]

theorem padOk_empty_state3 (ds : List Desc3) :
    PadOk (Descs3.layout ds) (fun a => getBit ({} : EncState).used a = true) ↔ Descs3.padOk ds :=
  PadOk_congr _ _ _ (fun a => by
    show getBit [] a = true ↔ False
    rw [getBit_nil]; simp)

/-- entries pairwise disjoint ⇒ no overlap warning -/
theorem descs3_pure_nowarn_of (trig : Option Bytes) (ds : List Desc3) (hwf : Descs3.wfTop trig ds)
    (hd : LDisj ((Descs3.layout ds).map Ent2.geo)) : ((Comps.pair (Descs3.comps ds)).enc {}).warn = 0 :=
  (Descs3.footTop trig ds hwf).nowarn_of {} clean_empty hd (LFree_nil_used _)

/-- no overlap warning ⇒ entries pairwise disjoint, provided no BYTE-SIZE padding hits a bit claimed before it -/
theorem descs3_pure_disj_of (trig : Option Bytes) (ds : List Desc3) (hwf : Descs3.wfTop trig ds)
    (hw : ((Comps.pair (Descs3.comps ds)).enc {}).warn = 0) (hp : Descs3.padOk ds) :
    LDisj ((Descs3.layout ds).map Ent2.geo) :=
  ((Descs3.footTop trig ds hwf).disj_of {} clean_empty hw ((padOk_empty_state3 ds).mpr hp)).1

theorem descs3_pure_length (trig : Option Bytes) (ds : List Desc3) (hwf : Descs3.wfTop trig ds) :
    ((Comps.pair (Descs3.comps ds)).enc {}).msg.length = Descs3.extent ds := by
  have := (Descs3.footTop trig ds hwf).length {}
  rw [this]
  show max 0 _ = _
  rw [Nat.zero_max]
  rfl

theorem descs3_pure_inside (trig : Option Bytes) (ds : List Desc3) (hwf : Descs3.wfTop trig ds)
    (hd : LDisj ((Descs3.layout ds).map Ent2.geo)) :
    ∀ e ∈ Descs3.layout ds, ∀ j, j < e.bl →
      getBit ((Comps.pair (Descs3.comps ds)).enc {}).msg (absBit e.pos e.k e.hl (j + e.bp)) = e.raw.testBit j := by
  intro e he j hj
  exact (Descs3.footTop trig ds hwf).inside {} clean_empty hd (LFree_nil_used _) e.geo (List.mem_map.mpr ⟨e, he, rfl⟩) j hj

theorem descs3_pure_outside (trig : Option Bytes) (ds : List Desc3) (hwf : Descs3.wfTop trig ds) (a : Nat)
    (h : ∀ e ∈ Descs3.layout ds, ¬ e.claims a) : getBit ((Comps.pair (Descs3.comps ds)).enc {}).msg a = false := by
  rw [(Descs3.footTop trig ds hwf).outside {} a (by
    rintro ⟨e, he, hc⟩
    obtain ⟨x, hx, rfl⟩ := List.mem_map.mp he
    exact h x hx hc)]
  exact getBit_nil a

theorem descs3_pure_cursor (trig : Option Bytes) (ds : List Desc3) (hwf : Descs3.wfTop trig ds) :
    ((Comps.pair (Descs3.comps ds)).enc {}).cursorByte = Descs3.endCursor ds :=
  (Descs3.footTop trig ds hwf).cursor {}

/-- **C02, nested tier, third edition**: `C02_bit_exact_nested2` for descriptions with compu-method leaves (`Desc3`; the entry of
    a LINEAR / TEXTTABLE / DTC-DOP leaf holds `Obj.specRepr` of the INTERNAL value).  If strict `encode` returns a PDU without
    overlap warning then (1)+(3) — given `padOk` — every entry's pattern sits at its bits and the entries are pairwise
    disjoint; (2) every bit no entry claims is zero; (4) the PDU is as long as the furthest byte an entry reaches. -/
theorem C02_bit_exact_nested3 (ds : List Desc3) (trig : Option Bytes) (hok : Descs3.ok trig ds) (pdu : Bytes)
    (henc : encodeMessage none (Descs3.params ds) (.dict (Descs3.supplied ds)) trig true = .ok (pdu, 0)) :
    (Descs3.padOk ds →
      (∀ e ∈ Descs3.layout ds, ∀ j, j < e.bl → getBit pdu (absBit e.pos e.k e.hl (j + e.bp)) = e.raw.testBit j) ∧
      LDisj2 (Descs3.layout ds)) ∧
    (∀ a, (∀ e ∈ Descs3.layout ds, ¬ e.claims a) → getBit pdu a = false) ∧
    pdu.length = Descs3.extent ds := by
  rw [descs3_encodeMessage trig ds hok] at henc
  simp only [Except.ok.injEq, Prod.mk.injEq] at henc
  obtain ⟨hpdu, hwarn⟩ := henc
  subst hpdu
  refine ⟨fun hp => ?_, descs3_pure_outside trig ds hok.1, descs3_pure_length trig ds hok.1⟩
  have hd := descs3_pure_disj_of trig ds hok.1 hwarn hp
  exact ⟨descs3_pure_inside trig ds hok.1 hd, (LDisj2_iff _).mpr hd⟩

/-- **C02, overlap clause, third edition** (as `C02_overlap_iff_nested2`): strict `encode` of a well-formed description never
    fails; disjoint entries ⇒ no overlap warning; and conversely given `padOk` -/
theorem C02_overlap_iff_nested3 (ds : List Desc3) (trig : Option Bytes) (hok : Descs3.ok trig ds) :
    ∃ pdu w, encodeMessage none (Descs3.params ds) (.dict (Descs3.supplied ds)) trig true = .ok (pdu, w) ∧
      (LDisj2 (Descs3.layout ds) → w = 0) ∧ (Descs3.padOk ds → (w = 0 ↔ LDisj2 (Descs3.layout ds))) :=
  ⟨_, _, descs3_encodeMessage trig ds hok,
    fun hd => descs3_pure_nowarn_of trig ds hok.1 ((LDisj2_iff _).mp hd),
    fun hp => ⟨fun hw => (LDisj2_iff _).mpr (descs3_pure_disj_of trig ds hok.1 hw hp),
      fun hd => descs3_pure_nowarn_of trig ds hok.1 ((LDisj2_iff _).mp hd)⟩⟩

theorem Descs3.padOk_of_noSizePadding (ds : List Desc3) (h : ∀ e ∈ Descs3.layout ds, e.role ≠ .sizePadding) : Descs3.padOk ds :=
  PadOk_of_noSilent _ _ h

end OdxVerif.Codec
