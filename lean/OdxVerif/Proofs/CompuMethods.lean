import OdxVerif.Proofs.CompuMono
/-! Lemmas about the remaining categories: Horner evaluation, table interpolation, segment search,
    the SCALE-LINEAR invertibility loop. -/
namespace OdxVerif.Compu

/-! ## Horner = polynomial -/

theorem polySumFrom_eq (x : Rat) (cs : List Rat) (k : Nat) : polySumFrom x k cs = x ^ k * horner cs x := by
  induction cs generalizing k with
  | nil => simp [polySumFrom, horner]
  | cons c cs ih =>
    simp only [polySumFrom, ih (k + 1), horner, List.foldr_cons]
    have : horner cs x = List.foldr (fun c acc => acc * x + c) 0 cs := rfl
    rw [← this, pow_succ]; ring

theorem horner_eq_polySum (cs : List Rat) (x : Rat) : horner cs x = polySum cs x := by
  unfold polySum; rw [polySumFrom_eq]; simp

/-! ## searching lists with a predicate that may raise -/

theorem filterR_cons_ok {α} {p : α → R Bool} {xs : List α} {y : α} {ys : List α} (h : filterR p xs = .ok (y :: ys)) :
    ∃ pre post, xs = pre ++ y :: post ∧ (∀ t ∈ pre, p t = .ok false) ∧ p y = .ok true := by
  induction xs with
  | nil => simp [filterR] at h
  | cons x xs ih =>
    unfold filterR at h
    cases hx : p x with
    | error e => simp [hx, bind, Except.bind] at h
    | ok b =>
      cases hr : filterR p xs with
      | error e => simp [hx, hr, bind, Except.bind] at h
      | ok r =>
        simp only [hx, hr, bind, Except.bind, pure, Except.pure] at h
        cases b with
        | true =>
          simp at h
          obtain ⟨rfl, _⟩ := h
          exact ⟨[], xs, rfl, by simp, hx⟩
        | false =>
          simp at h
          subst h
          obtain ⟨pre, post, e, h1, h2⟩ := ih hr
          refine ⟨x :: pre, post, by simp [e], ?_, h2⟩
          intro t ht
          rcases List.mem_cons.mp ht with rfl | ht
          · exact hx
          · exact h1 t ht

theorem filterR_total {α} {p : α → R Bool} {xs : List α} (h : ∀ x ∈ xs, ∃ b, p x = .ok b) :
    ∃ r, filterR p xs = .ok r ∧ ∀ y, y ∈ r ↔ y ∈ xs ∧ p y = .ok true := by
  induction xs with
  | nil => exact ⟨[], rfl, by simp⟩
  | cons x xs ih =>
    obtain ⟨b, hb⟩ := h x (by simp)
    obtain ⟨r, hr, hiff⟩ := ih (fun y hy => h y (by simp [hy]))
    unfold filterR
    simp only [hb, hr, bind, Except.bind, pure, Except.pure]
    cases b with
    | true =>
      refine ⟨x :: r, rfl, ?_⟩
      intro y; simp only [List.mem_cons, hiff]
      constructor
      · rintro (rfl | ⟨h1, h2⟩)
        · exact ⟨Or.inl rfl, hb⟩
        · exact ⟨Or.inr h1, h2⟩
      · rintro ⟨rfl | h1, h2⟩
        · exact Or.inl rfl
        · exact Or.inr ⟨h1, h2⟩
    | false =>
      refine ⟨r, rfl, ?_⟩
      intro y; simp only [List.mem_cons, hiff]
      constructor
      · rintro ⟨h1, h2⟩; exact ⟨Or.inr h1, h2⟩
      · rintro ⟨rfl | h1, h2⟩
        · rw [hb] at h2; cases h2
        · exact ⟨h1, h2⟩

theorem anyR_spec {α} {p : α → R Bool} {P : α → Prop} {xs : List α}
    (h : ∀ x ∈ xs, ∃ b, p x = .ok b ∧ (b = true ↔ P x)) :
    ∃ b, anyR p xs = .ok b ∧ (b = true ↔ ∃ x ∈ xs, P x) := by
  induction xs with
  | nil => exact ⟨false, rfl, by simp⟩
  | cons x xs ih =>
    obtain ⟨b, hb, hP⟩ := h x (by simp)
    obtain ⟨c, hc, hiff⟩ := ih (fun y hy => h y (by simp [hy]))
    unfold anyR
    simp only [hb, bind, Except.bind, pure, Except.pure]
    cases b with
    | true => exact ⟨true, rfl, by simp; exact Or.inl (hP.mp rfl)⟩
    | false =>
      refine ⟨c, by simp [hc], ?_⟩
      have hnp : ¬ P x := by intro hp; have := hP.mpr hp; cases this
      rw [hiff]; simp [hnp]

theorem firstRat_ok {e : Err} {v : Val} {segs : List RatSeg} {p : Val} (h : firstRat e v segs = .ok p) :
    ∃ pre s post, segs = pre ++ s :: post ∧ (∀ t ∈ pre, t.applies v = .ok false) ∧ s.applies v = .ok true ∧
      s.convert v = .ok p := by
  induction segs with
  | nil => simp [firstRat] at h
  | cons s ss ih =>
    unfold firstRat at h
    cases ha : s.applies v with
    | error e => simp [ha, bind, Except.bind] at h
    | ok a =>
      simp only [ha, bind, Except.bind] at h
      cases a with
      | true => exact ⟨[], s, ss, rfl, by simp, ha, by simpa using h⟩
      | false =>
        simp at h
        obtain ⟨pre, s', post, e', h1, h2, h3⟩ := ih h
        refine ⟨s :: pre, s', post, by simp [e'], ?_, h2, h3⟩
        intro t ht
        rcases List.mem_cons.mp ht with rfl | ht
        · exact ha
        · exact h1 t ht

/-- if some segment applies (and none raises) the search succeeds as soon as conversion does -/
theorem firstRat_of_any {e : Err} {v : Val} {segs : List RatSeg}
    (htot : ∀ s ∈ segs, ∃ b, s.applies v = .ok b)
    (hconv : ∀ s ∈ segs, s.applies v = .ok true → ∃ p, s.convert v = .ok p)
    (hany : ∃ s ∈ segs, s.applies v = .ok true) : ∃ p, firstRat e v segs = .ok p := by
  induction segs with
  | nil => obtain ⟨s, hs, _⟩ := hany; cases hs
  | cons s ss ih =>
    unfold firstRat
    obtain ⟨b, hb⟩ := htot s (by simp)
    simp only [hb, bind, Except.bind]
    cases b with
    | true => simpa using hconv s (by simp) hb
    | false =>
      simp
      apply ih (fun t ht => htot t (by simp [ht])) (fun t ht => hconv t (by simp [ht]))
      obtain ⟨t, ht, hta⟩ := hany
      rcases List.mem_cons.mp ht with rfl | ht
      · rw [hb] at hta; cases hta
      · exact ⟨t, ht, hta⟩

/-! ## table interpolation -/

theorem interp_iff (x : Rat) (xs ys : List Rat) (r : Rat) : interp x xs ys = some r ↔ Interp x xs ys r := by
  induction xs generalizing ys with
  | nil => constructor <;> intro h <;> [simp [interp] at h; cases h]
  | cons x0 xs ih =>
    cases xs with
    | nil => constructor <;> intro h <;> [simp [interp] at h; cases h]
    | cons x1 xs =>
      cases ys with
      | nil => constructor <;> intro h <;> [simp [interp] at h; cases h]
      | cons y0 ys =>
        cases ys with
        | nil => constructor <;> intro h <;> [simp [interp] at h; cases h]
        | cons y1 ys =>
          unfold interp
          by_cases hb : min x0 x1 ≤ x ∧ x ≤ max x0 x1
          · rw [if_pos hb]
            by_cases he : x0 = x1
            · rw [if_pos he]
              constructor
              · intro h; cases h; exact Interp.flat hb he
              · intro h
                cases h with
                | here _ hne => exact absurd he hne
                | flat _ _ => rfl
                | later hnb _ => exact absurd hb hnb
            · rw [if_neg he]
              constructor
              · intro h; cases h; exact Interp.here hb he
              · intro h
                cases h with
                | here _ _ => rfl
                | flat _ heq => exact absurd heq he
                | later hnb _ => exact absurd hb hnb
          · rw [if_neg hb]
            rw [ih (y1 :: ys)]
            constructor
            · intro h; exact Interp.later hb h
            · intro h
              cases h with
              | here hb' _ => exact absurd hb' hb
              | flat hb' _ => exact absurd hb' hb
              | later _ h' => exact h'

theorem minList_cons_cons (a b : Rat) (l : List Rat) : minList (a :: b :: l) = min a (minList (b :: l)) := rfl
theorem maxList_cons_cons (a b : Rat) (l : List Rat) : maxList (a :: b :: l) = max a (maxList (b :: l)) := rfl

theorem minList_le_head (a : Rat) (l : List Rat) : minList (a :: l) ≤ a := by
  cases l with
  | nil => simp [minList]
  | cons b l => rw [minList_cons_cons]; exact min_le_left _ _

theorem head_le_maxList (a : Rat) (l : List Rat) : a ≤ maxList (a :: l) := by
  cases l with
  | nil => simp [maxList]
  | cons b l => rw [maxList_cons_cons]; exact le_max_left _ _

/-- every value between the smallest and the largest sample is bracketed by two adjacent samples -/
theorem interp_isSome (x : Rat) (xs ys : List Rat) (hlen : xs.length = ys.length) (h2 : 2 ≤ xs.length)
    (hmin : minList xs ≤ x) (hmax : x ≤ maxList xs) : ∃ r, interp x xs ys = some r := by
  induction xs generalizing ys with
  | nil => simp at h2
  | cons x0 xs ih =>
    cases xs with
    | nil => simp at h2
    | cons x1 xs =>
      cases ys with
      | nil => simp at hlen
      | cons y0 ys =>
        cases ys with
        | nil => simp at hlen
        | cons y1 ys =>
          unfold interp
          by_cases hb : min x0 x1 ≤ x ∧ x ≤ max x0 x1
          · rw [if_pos hb]; split <;> exact ⟨_, rfl⟩
          · rw [if_neg hb]
            rw [minList_cons_cons] at hmin
            rw [maxList_cons_cons] at hmax
            have hx1lo := minList_le_head x1 xs
            have hx1hi := head_le_maxList x1 xs
            cases xs with
            | nil =>
              exfalso
              simp only [minList, maxList] at hmin hmax
              exact hb ⟨hmin, hmax⟩
            | cons x2 xs =>
              apply ih (y1 :: ys) (by simpa using hlen) (by simp)
              · by_contra hc
                have hc := not_le.mp hc
                rcases min_le_iff.mp hmin with h | h
                · apply hb
                  refine ⟨le_trans (min_le_left _ _) h, ?_⟩
                  have : x < x1 := lt_of_lt_of_le hc hx1lo
                  exact le_trans this.le (le_max_right _ _)
                · exact absurd h (not_le.mpr hc)
              · by_contra hc
                have hc := not_le.mp hc
                rcases le_max_iff.mp hmax with h | h
                · apply hb
                  refine ⟨?_, le_trans h (le_max_left _ _)⟩
                  have : x1 < x := lt_of_le_of_lt hx1hi hc
                  exact le_trans (min_le_right _ _) this.le
                · exact absurd h (not_le.mpr hc)

/-! ## the SCALE-LINEAR invertibility loop -/

/-- adjacent segments meet: common finite boundary value, not INFINITE, and the (rounded) function values at
    the boundary differ by at most `eps` -/
def Meets (s0 s1 : LinSeg) : Prop :=
  ∃ u l xv xv' q, s0.ihi = some u ∧ s1.ilo = some l ∧ u.value = some xv ∧ l.value = some xv' ∧
    xv.pyEq xv' = true ∧ xv.num? = some q ∧ u.itype ≠ some IType.infinite ∧ l.itype ≠ some IType.infinite ∧
    |mkNumQ s0.pty (linear s0.offset s0.factor s0.denom q) - mkNumQ s1.pty (linear s1.offset s1.factor s1.denom q)| ≤ eps

theorem valDiff_mkNum (t0 t1 : DType) (a b : Rat) : valDiff (mkNum t0 a) (mkNum t1 b) = mkNumQ t0 a - mkNumQ t1 b := by
  simp [valDiff, mkNum_num']

theorem invertibleLoop_true (segs : List LinSeg) (ref : Rat)
    (hden : ∀ s ∈ segs, s.denom ≠ 0)
    (hsign : ∀ a ∈ segs, ∀ b ∈ segs, 0 ≤ a.factor * b.factor)
    (href : ∀ s ∈ segs.tail, 0 ≤ ref * s.factor)
    (hmeet : List.IsChain Meets segs) :
    invertibleLoop ref segs = .ok true := by
  induction segs generalizing ref with
  | nil => simp [invertibleLoop]
  | cons s0 rest ih =>
    cases rest with
    | nil => simp [invertibleLoop]
    | cons s1 rest =>
      unfold invertibleLoop
      have h01 : Meets s0 s1 := by
        cases hmeet with
        | cons_cons h _ => exact h
      have hrest : List.IsChain Meets (s1 :: rest) := by
        cases hmeet with
        | cons_cons _ h => exact h
      obtain ⟨u, l, xv, xv', q, hu, hl, huv, hlv, heq, hq, hui, hli, hcont⟩ := h01
      have hr : ¬ ref * s1.factor < 0 := not_lt.mpr (href s1 (by simp))
      rw [if_neg hr]
      simp only [hu, hl, huv, hlv, heq, hq]
      have hinf : ¬ (u.itype = some IType.infinite ∨ l.itype = some IType.infinite) := by
        rintro (h | h); exact hui h; exact hli h
      rw [if_neg hinf]
      simp only [Bool.not_true, Bool.false_eq_true, if_false]
      rw [convI2P_num s0 (hden s0 (by simp)) hq, convI2P_num s1 (hden s1 (by simp)) hq]
      simp only [bind, Except.bind, valDiff_mkNum, absR_eq_abs]
      rw [if_neg (not_lt.mpr hcont)]
      apply ih
      · intro s hs; exact hden s (by simp [hs])
      · intro a ha b hb; exact hsign a (by simp [ha]) b (by simp [hb])
      · intro s hs
        simp only [List.tail_cons] at hs
        split
        · exact hsign s1 (by simp) s (by simp [hs])
        · rename_i hz
          have : s1.factor = 0 := by simpa using hz
          exact href s (by simp [hs])
      · exact hrest

end OdxVerif.Compu
