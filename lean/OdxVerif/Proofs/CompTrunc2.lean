import OdxVerif.Proofs.CompTruncMsg
/-! C05 for the nested tier, second part (task W26): the *ghost-instrumented* decoder.

    `LState` = the decoder state of the model plus two ghost fields: `log` (one entry per call of `extractCore`, i.e. of
    the place where `DecodeState.extract_atomic_value` takes bytes out of the message: first byte, one-past-last byte) and
    `probe` (are we inside the `try: dyn_end_dop.decode() except DecodeError: pass` probe of a DYNAMIC-ENDMARKER-FIELD).
    `decodeDopL`, … are copies of the nine mutually recursive decoding functions of `Model/Decode.lean` (+ `decodeDct`,
    `extractAtomic`) in which the model's state operations are lifted (`liftD`), `extractCore` is wrapped by the logging
    `extractCoreL`, and the one `tryCatch` of the decoder is wrapped by `probeL` (sets / restores the ghost flag).
    Nothing of the model is changed: `Proofs/CompTrunc2Erase.lean` proves that erasing the ghost fields gives the model's
    decoder on every description, every state and both modes.  Core Lean only. -/
namespace OdxVerif.Codec
open OdxVerif.OdxM OdxVerif.Bits

/-- one call of `extractCore`: the bytes `start ≤ … < stop` are requested; `probe`: inside an end-marker probe -/
structure LEntry where
  start : Nat
  stop : Nat
  probe : Bool
deriving Repr, DecidableEq, Inhabited

/-- decoder state + ghost fields -/
structure LState where
  st : DecState
  log : List LEntry := []
  probe : Bool := false
deriving Repr, Inhabited

abbrev LogM := OdxM LState

/-- run a model computation on the model part of the state; the ghost fields are untouched -/
def liftD {α : Type} (m : DecM α) : LogM α := fun ls b =>
  match m ls.st b with
  | .ok (a, s') => .ok (a, { ls with st := s' })
  | .error (e, s') => .error (e, { ls with st := s' })

def getD : LogM DecState := liftD getS
def modD (f : DecState → DecState) : LogM Unit := liftD (modifyS f)

/-- the ghost action: remember the byte range the next `extractCore` is going to request -/
def logRead (bl : Nat) : LogM Unit := fun ls _ =>
  .ok ((), { ls with log := ⟨ls.st.cursorByte, ls.st.readEnd bl, ls.probe⟩ :: ls.log })

/-- `extractCore` with the ghost log: the minimal wrapper -/
def extractCoreL (bl : Nat) (bt : BaseType) (enc : Option Enc) (hl : Bool) : LogM IVal := do
  logRead bl
  liftD (extractCore bl bt enc hl)

/-- `try: m except <handles>: h` of the end-marker probe: the ghost flag is set while `m` runs and restored afterwards
    (on return and in the handler; an error that is not handled leaves the decoder altogether or is handled by an
    enclosing probe, which restores its own flag) -/
def probeL {α : Type} (m : LogM α) (handles : Err → Bool) (h : Err → LogM α) : LogM α := fun ls b =>
  match m { ls with probe := true } b with
  | .ok (a, ls') => .ok (a, { ls' with probe := ls.probe })
  | .error (e, ls') => if handles e then h e { ls' with probe := ls.probe } b else .error (e, ls')

/-- copy of `extractAtomic` -/
def extractAtomicL (bl : Nat) (bt : BaseType) (enc : Option Enc) (hl : Bool) : LogM IVal := do
  if bl = 0 then pure (emptyValue bt)
  else if !bt.isNumeric && bl % 8 ≠ 0 then raise .decode
  else if bt = .float32 ∧ bl ≠ 32 then do odxraise .odx; extractCoreL 32 bt enc hl
  else if bt = .float64 ∧ bl ≠ 64 then do odxraise .odx; extractCoreL 64 bt enc hl
  else extractCoreL bl bt enc hl

/-- copy of `decodeDct` -/
def decodeDctL (dct : Dct) : LogM IVal := do
  match dct with
  | .std bt enc hl bl none _ => extractAtomicL bl bt enc hl
  | .std bt enc hl bl (some m) c => do
    let raw ← extractAtomicL bl bt enc hl
    unapplyMask m c raw
  | .minmax bt enc hl minLen maxLen term => do
    let s ← getD
    odxassert (s.cursorBit = 0)
    if s.cursorByte + minLen > s.msg.length then raise .decode
    else
      let orig := s.cursorByte
      let tseq : Bytes := match term with
        | .zero => if bt = .unicode2 then [0, 0] else [0]
        | .hexff => if bt = .unicode2 then [255, 255] else [255]
        | .eop => []
      let maxPos := match maxLen with
        | some mx => min s.msg.length (orig + mx)
        | none => s.msg.length
      if term ≠ .eop then
        let byteLen := match findTerm s.msg tseq orig maxPos (s.msg.length + 1) (orig + minLen) with
          | some p => p - orig
          | none => maxPos - orig
        let v ← extractAtomicL (8 * byteLen) bt enc hl
        let s' ← getD
        if s'.cursorByte ≠ s'.msg.length ∧ some (s'.cursorByte - orig) ≠ maxLen then
          modD fun s => { s with cursorByte := s.cursorByte + tseq.length }
        pure v
      else
        extractAtomicL (8 * (maxPos - orig)) bt enc hl
  | .leading bt _ hl bl => do
    let n ← extractAtomicL bl .uint32 none hl
    match n with
    | .int i => extractAtomicL (8 * i.toNat) bt none hl
    | _ => raise .unmodelled
  | .paramLen bt enc hl key => do
    let s ← getD
    match lookup key s.lengthKeys with
    | none => do odxraise .odx; raise .unmodelled
    | some bl => if bl < 0 then do odxraise .decode; extractAtomicL 0 bt enc hl else extractAtomicL bl.toNat bt enc hl

mutual
def decodeDopL : (fuel : Nat) → Dop → LogM PVal
  | 0, _ => raise .unmodelled
  | fuel+1, .simple dct phys cm => do
    let v ← decodeDctL dct
    match cm with
    | .identical => pure (.atom v)
    | .other => raise .unmodelled
    | cm =>
      match cm.method? dct.baseType phys with
      | none => raise .unmodelled
      | some m => do
        let r ← dopI2P m v
        match r with
        | some p => pure (.atom p)
        | none => pure .none
  | fuel+1, .struct byteSize ps => do
    let s0 ← getD
    let r ← decodeCompositeL fuel ps
    match byteSize with
    | none => pure r
    | some bs =>
      let s ← getD
      if s.cursorByte - s0.cursorByte > bs then do odxraise .decode; pure r
      else do
        modD fun s => { s with cursorByte := s0.cursorByte + bs }
        pure r
  | fuel+1, .staticField count itemSize item => do
    let s ← getD
    odxassert (s.cursorBit = 0)
    modD fun s => { s with origin := s.cursorByte }
    let xs ← decodeStaticItemsL item itemSize fuel count
    modD fun s' => { s' with origin := s.origin }
    pure (.list xs)
  | fuel+1, .dynLenField offset cbp cbit countDop item => do
    let s ← getD
    odxassert (s.cursorBit = 0)
    modD fun s => { s with origin := s.cursorByte, cursorByte := s.cursorByte + cbp, cursorBit := cbit }
    let n ← decodeDopL fuel countDop
    let cnt ← (match n with
      | .atom (.int i) => if i < 0 then do odxraise .decode; pure 0 else pure i.toNat
      | _ => do odxraise .odx; raise .unmodelled)
    modD fun s => { s with cursorByte := s.origin + offset }
    let xs ← decodeNItemsL item fuel cnt
    modD fun s' => { s' with origin := s.origin }
    pure (.list xs)
  | fuel+1, .endMarkerField termVal termDop item => do
    let s ← getD
    odxassert (s.cursorBit = 0)
    modD fun s => { s with origin := s.cursorByte }
    let xs ← decodeUntilMarkerL termVal termDop item fuel
    modD fun s' => { s' with origin := s.origin }
    pure (.list xs)
  | fuel+1, .eopField _ _ item => do
    let s ← getD
    odxassert (s.cursorBit = 0)
    modD fun s => { s with origin := s.cursorByte }
    let xs ← decodeToEndL item fuel
    modD fun s' => { s' with origin := s.origin }
    pure (.list xs)
  | fuel+1, .mux bytePos swBytePos swBitPos swDop cases dflt => do
    let s ← getD
    modD fun s' => { s' with origin := s.cursorByte }
    let kv ← decodeParamL fuel (.mk "" (some swBytePos) swBitPos (.value swDop none))
    match kv with
    | .atom (.int key) => do
      modD fun s' => { s' with cursorByte := s.cursorByte + bytePos }
      let sel : Option (String × Option Dop) :=
        match caseOfKey key cases with
        | some c => some (c.name, c.struct)
        | none => dflt
      match sel with
      | none => do
        odxraise .decode
        modD fun s' => { s' with origin := s.origin }
        pure (.list [.none, .none])
      | some (name, st) => do
        let v ← (match st with
          | some d => decodeParamL fuel (.mk "" (some bytePos) none (.value d none))
          | none => pure (.dict []))
        modD fun s' => { s' with origin := s.origin }
        pure (.pair name v)
    | _ => do odxraise .odx; raise .unmodelled
  | _+1, .unsupported => raise .unmodelled
  | _+1, .dtc dct phys cm dtcs => do
    let v ← decodeDctL dct
    match cm.method? dct.baseType phys, toVal? v with
    | some m, some i =>
      match m.validI i with
      | .error _ => raise .unmodelled
      | .ok false => do odxraise .decode; pure .none
      | .ok true => do
        let r ← methodI2P .decode m i
        match r with
        | some (.int code) => do
          let hits := dtcs.filter fun d => d.1 == code
          odxassert (hits.length < 2)
          if hits.length ≠ 1 then odxraise .decode
          pure (.dtc code)
        | _ => raise .decode
    | _, _ => raise .unmodelled

def decodeStaticItemsL (item : Dop) (itemSize : Nat) : (fuel : Nat) → Nat → LogM (List PVal)
  | 0, _ => raise .unmodelled
  | _+1, 0 => pure []
  | fuel+1, n+1 => do
    let s ← getD
    let x ← decodeDopL fuel item
    modD fun s' => { s' with cursorByte := s.cursorByte + itemSize }
    let rest ← decodeStaticItemsL item itemSize fuel n
    pure (x :: rest)

def decodeNItemsL (item : Dop) : (fuel : Nat) → Nat → LogM (List PVal)
  | 0, _ => raise .unmodelled
  | _+1, 0 => pure []
  | fuel+1, n+1 => do
    let s ← getD
    let x ← decodeDopL fuel item
    let s' ← getD
    if s'.cursorByte ≤ s.cursorByte then raise .decode
    else do
      let rest ← decodeNItemsL item fuel n
      pure (x :: rest)

def decodeToEndL (item : Dop) : (fuel : Nat) → LogM (List PVal)
  | 0 => raise .unmodelled
  | fuel+1 => do
    let s ← getD
    if s.cursorByte < s.msg.length then do
      let x ← decodeDopL fuel item
      let s' ← getD
      if s'.cursorByte ≤ s.cursorByte then raise .decode
      else do
        let rest ← decodeToEndL item fuel
        pure (x :: rest)
    else pure []

def decodeUntilMarkerL (termVal : IVal) (termDop : Dop) (item : Dop) : (fuel : Nat) → LogM (List PVal)
  | 0 => raise .unmodelled
  | fuel+1 => do
    let s ← getD
    if s.cursorByte = s.msg.length then pure []
    else
      let hit ← probeL
        (do let tv ← decodeDopL fuel termDop
            pure (match tv with | .atom v => v == termVal | _ => false))
        (fun e => e = .decode ∨ e = .mismatch) (fun _ => pure false)
      modD fun s' => { s' with cursorByte := s.cursorByte }
      if hit then pure []
      else do
        let x ← decodeDopL fuel item
        let s' ← getD
        if s'.cursorByte ≤ s.cursorByte then raise .decode
        else do
          let rest ← decodeUntilMarkerL termVal termDop item fuel
          pure (x :: rest)

def decodeParamL : (fuel : Nat) → Param → LogM PVal
  | 0, _ => raise .unmodelled
  | fuel+1, .mk name bytePos bitPos kind => do
    modD fun s => { s with cursorByte := (match bytePos with | some b => s.origin + b | none => s.cursorByte),
                           cursorBit := bitPos.getD 0 }
    let r ← (match kind with
      | .codedConst dct _ => do
        let v ← decodeDctL dct
        pure (PVal.atom v)
      | .physConst dop value => do
        let v ← decodeDopL fuel dop
        if !(pvalEq v value) then
          (if numericPair v value then raise .unmodelled
           else odxraise .decode)
        pure v
      | .value dop _ => decodeDopL fuel dop
      | .reserved bl => do
        let v ← extractAtomicL bl .uint32 none false
        pure (PVal.atom v)
      | .matchingReq _ byteLen => do
        let v ← extractAtomicL (8 * byteLen) .uint32 none false
        pure (PVal.atom v)
      | .nrcConst dct values => do
        let v ← decodeDctL dct
        if values.contains v then pure (PVal.atom v) else raise .mismatch
      | .lengthKey dop => do
        let v ← decodeDopL fuel dop
        match v with
        | .atom (.int i) => do
          modD fun s => { s with lengthKeys := insertKV name i s.lengthKeys }
          pure v
        | _ => do odxraise .odx; raise .unmodelled
      | .unsupported => raise .unmodelled)
    modD fun s => { s with cursorBit := 0 }
    pure r

def decodeParamsL : (fuel : Nat) → List Param → LogM (List (String × PVal))
  | 0, _ => raise .unmodelled
  | _+1, [] => pure []
  | fuel+1, p :: rest => do
    let v ← decodeParamL fuel p
    let r ← decodeParamsL fuel rest
    pure ((p.name, v) :: r)

def decodeCompositeL : (fuel : Nat) → List Param → LogM PVal
  | 0, _ => raise .unmodelled
  | fuel+1, ps => do
    let s ← getD
    modD fun s => { s with origin := s.cursorByte }
    let kv ← decodeParamsL fuel ps
    modD fun s' => { s' with origin := s.origin }
    pure (.dict kv)
end

/-- `decodeMessage` with the ghost log: the result of `Request.decode(msg)` / `Response.decode(msg)` and the list of all
    byte ranges the run requested from the message (newest first), whether it returned or raised -/
def decodeMessageL (bs : Option Nat) (ps : List Param) (msg : Bytes) (strict : Bool) :
    Except Err (PVal × Nat) × List LEntry :=
  match decodeDopL modelFuel (.struct bs ps) { st := { msg := msg } } strict with
  | .ok (v, ls) => (.ok (v, ls.st.cursorByte), ls.log)
  | .error (e, ls) => (.error e, ls.log)

end OdxVerif.Codec
