import Mathlib.Tactic.Linarith
import Mathlib.Tactic.Ring
import Mathlib.Tactic.FieldSimp
import Mathlib.Algebra.Order.Field.Rat
import Mathlib.Algebra.Order.Ring.Abs
import OdxVerif.Model.Compu
/-! Lemmas about the compu model: rounding, comparison, limits. -/
namespace OdxVerif.Compu

instance {α} [DecidableEq α] : DecidableEq (R α) := fun a b =>
  match a, b with
  | .ok x, .ok y => if h : x = y then isTrue (by rw [h]) else isFalse (by intro e; cases e; exact h rfl)
  | .error x, .error y => if h : x = y then isTrue (by rw [h]) else isFalse (by intro e; cases e; exact h rfl)
  | .ok _, .error _ => isFalse (by intro e; cases e)
  | .error _, .ok _ => isFalse (by intro e; cases e)

/-! ## rounding -/

theorem roundHalfEven_nearest (q : Rat) : nearest (roundHalfEven q) q := by
  have h1 := Rat.floor_le q
  have h2 := Rat.lt_floor_add_one q
  push_cast at h2
  unfold roundHalfEven nearest
  simp only []
  split
  · constructor <;> linarith
  · split
    · constructor <;> (push_cast; linarith)
    · have hr : q - (q.floor : Rat) = 1/2 := by
        rename_i a b; linarith [not_lt.mp a, not_lt.mp b]
      split
      · constructor <;> linarith
      · constructor <;> (push_cast; linarith)

/-- away from the open interval's ends the nearest integer is unique -/
theorem nearest_unique {z z' : Int} {q : Rat} (h1 : q - 1/2 < (z : Rat)) (h2 : (z : Rat) < q + 1/2)
    (h : nearest z' q) : z' = z := by
  obtain ⟨a, b⟩ := h
  have hlt : (z' : Rat) < (z : Rat) + 1 := by linarith
  have hgt : (z : Rat) - 1 < (z' : Rat) := by linarith
  have h3 : z' < z + 1 := by exact_mod_cast hlt
  have h4 : z - 1 < z' := by exact_mod_cast hgt
  omega

theorem roundHalfEven_int_add (i : Int) (δ : Rat) (h : -(1/2) < δ) (h' : δ < 1/2) :
    roundHalfEven ((i : Rat) + δ) = i :=
  nearest_unique (by linarith) (by linarith) (roundHalfEven_nearest _)

theorem roundHalfEven_intCast (i : Int) : roundHalfEven (i : Rat) = i := by
  have := roundHalfEven_int_add i 0 (by norm_num) (by norm_num)
  simpa using this

theorem roundHalfEven_mono {a b : Rat} (h : a ≤ b) : roundHalfEven a ≤ roundHalfEven b := by
  by_contra hc
  have hc : roundHalfEven b + 1 ≤ roundHalfEven a := by omega
  have hc' : ((roundHalfEven b : Int) : Rat) + 1 ≤ (roundHalfEven a : Rat) := by exact_mod_cast hc
  obtain ⟨a1, a2⟩ := roundHalfEven_nearest a
  obtain ⟨b1, b2⟩ := roundHalfEven_nearest b
  have hab : a = b := by linarith
  subst hab
  linarith

/-- not at a tie the rounded value is the only nearest integer -/
theorem nearest_eq_round_of_not_tie {z : Int} {q : Rat} (hn : ¬ isTie q) (h : nearest z q) : z = roundHalfEven q := by
  have h1 := Rat.floor_le q
  have h2 := Rat.lt_floor_add_one q
  push_cast at h2
  unfold isTie at hn
  rcases lt_trichotomy (q - (q.floor : Rat)) (1/2) with hlt | heq | hgt
  · have hr : roundHalfEven q = q.floor := by unfold roundHalfEven; simp only []; rw [if_pos hlt]
    rw [hr]
    exact nearest_unique (by linarith) (by linarith) h
  · exact absurd heq hn
  · have hr : roundHalfEven q = q.floor + 1 := by
      unfold roundHalfEven; simp only []; rw [if_neg (by linarith), if_pos hgt]
    rw [hr]
    exact nearest_unique (by push_cast; linarith) (by push_cast; linarith) h

/-! ## comparison of numbers -/

theorem absR_eq_abs (q : Rat) : absR q = |q| := by
  unfold absR
  split
  · rw [abs_of_neg (by assumption)]
  · rw [abs_of_nonneg (by linarith [not_lt.mp (by assumption : ¬ q < 0)])]

theorem compareOdx_num {a b : Val} {x y : Rat} (ha : a.num? = some x) (hb : b.num? = some y) :
    compareOdx a b = .ok (if x - y < 0 then -1 else if 0 < x - y then 1 else 0) := by
  cases a with
  | str s => simp [Val.num?] at ha
  | int z => simp [compareOdx, ha, hb]
  | flt q => simp [compareOdx, ha, hb]

theorem compareOdx_num_le {a b : Val} {x y : Rat} (ha : a.num? = some x) (hb : b.num? = some y) :
    ∃ c, compareOdx a b = .ok c ∧ (c ≤ 0 ↔ x ≤ y) ∧ (c < 0 ↔ x < y) ∧ (0 ≤ c ↔ y ≤ x) ∧ (0 < c ↔ y < x) := by
  refine ⟨_, compareOdx_num ha hb, ?_⟩
  split
  · refine ⟨?_, ?_, ?_, ?_⟩ <;> constructor <;> intro h <;> linarith
  · split
    · refine ⟨?_, ?_, ?_, ?_⟩ <;> constructor <;> intro h <;> linarith
    · have : x = y := by linarith [not_lt.mp (by assumption : ¬ x - y < 0), not_lt.mp (by assumption : ¬ 0 < x - y)]
      subst this
      refine ⟨?_, ?_, ?_, ?_⟩ <;> constructor <;> intro h <;> linarith

/-! ## limits on numbers -/

/-- interval semantics of a limit whose value (if any) is a number -/
def Limit.lowerSem (l : Limit) (x : Rat) : Prop :=
  match l.value.bind Val.num? with
  | none => True
  | some a => lowerOk l.itype a x

def Limit.upperSem (l : Limit) (x : Rat) : Prop :=
  match l.value.bind Val.num? with
  | none => True
  | some a => upperOk l.itype a x

/-- the limit carries no value or a number -/
def Limit.numeric (l : Limit) : Prop := ∀ a, l.value = some a → ∃ q, a.num? = some q

theorem compliesLower_num {l : Limit} (hl : l.numeric) {v : Val} {x : Rat} (hv : v.num? = some x) :
    ∃ b, l.compliesLower v = .ok b ∧ (b = true ↔ l.lowerSem x) := by
  unfold Limit.compliesLower Limit.lowerSem
  cases hval : l.value with
  | none => exact ⟨true, rfl, by simp⟩
  | some a =>
    obtain ⟨q, hq⟩ := hl a hval
    obtain ⟨c, hc, h1, h2, h3, h4⟩ := compareOdx_num_le hv hq
    simp only [Option.bind_some, hq]
    cases hit : l.itype with
    | none => exact ⟨decide (0 ≤ c), by simp [hc], by simp [lowerOk, h3]⟩
    | some t =>
      cases t with
      | closed => exact ⟨decide (0 ≤ c), by simp [hc], by simp [lowerOk, h3]⟩
      | open_ => exact ⟨decide (0 < c), by simp [hc], by simp [lowerOk, h4]⟩
      | infinite => exact ⟨true, rfl, by simp [lowerOk]⟩

theorem compliesUpper_num {l : Limit} (hl : l.numeric) {v : Val} {x : Rat} (hv : v.num? = some x) :
    ∃ b, l.compliesUpper v = .ok b ∧ (b = true ↔ l.upperSem x) := by
  unfold Limit.compliesUpper Limit.upperSem
  cases hval : l.value with
  | none => exact ⟨true, rfl, by simp⟩
  | some a =>
    obtain ⟨q, hq⟩ := hl a hval
    obtain ⟨c, hc, h1, h2, h3, h4⟩ := compareOdx_num_le hv hq
    simp only [Option.bind_some, hq]
    cases hit : l.itype with
    | none => exact ⟨decide (c ≤ 0), by simp [hc], by simp [upperOk, h1]⟩
    | some t =>
      cases t with
      | closed => exact ⟨decide (c ≤ 0), by simp [hc], by simp [upperOk, h1]⟩
      | open_ => exact ⟨decide (c < 0), by simp [hc], by simp [upperOk, h2]⟩
      | infinite => exact ⟨true, rfl, by simp [upperOk]⟩

end OdxVerif.Compu
