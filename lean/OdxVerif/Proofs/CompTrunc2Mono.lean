import OdxVerif.Proofs.CompTrunc2Good
/-! C05, nested tier, second part (task W26): the ghost log is a faithful trace — no decoding function of the instrumented
    decoder ever removes or alters an entry: the log of a run (returned or raised) is the initial log with new entries in front
    (`grows_decode_all`).  Without this the invariant `LState.Inv` could be met by forgetting requests.  Core Lean only. -/
namespace OdxVerif.Codec
open OdxVerif.OdxM OdxVerif.Bits

/-- the log in the final state of a run (returned or raised) -/
def resLog {α : Type} : Except (Err × LState) (α × LState) → List LEntry
  | .ok (_, ls) => ls.log
  | .error (_, ls) => ls.log

/-- the run only adds entries, in front -/
def Grows {α : Type} (m : LogM α) : Prop := ∀ ls b, ∃ new, resLog (m ls b) = new ++ ls.log

theorem grows_pure {α} (a : α) : Grows (Pure.pure a : LogM α) := fun _ _ => ⟨[], rfl⟩
theorem grows_pure' {α} (a : α) : Grows (OdxM.pure a : LogM α) := fun _ _ => ⟨[], rfl⟩
theorem grows_raise {α} (e : Err) : Grows (raise e : LogM α) := fun _ _ => ⟨[], rfl⟩
theorem grows_odxraise (e : Err) : Grows (odxraise e : LogM Unit) := by intro ls b; cases b <;> exact ⟨[], rfl⟩
theorem grows_odxassert (c : Bool) : Grows (odxassert c : LogM Unit) := by
  unfold odxassert; split
  · exact grows_pure' ()
  · exact grows_odxraise _
theorem grows_liftD {α} (m : DecM α) : Grows (liftD m) := by
  intro ls b
  unfold liftD
  cases hm : m ls.st b with
  | ok p => obtain ⟨a, s⟩ := p; exact ⟨[], rfl⟩
  | error p => obtain ⟨e, s⟩ := p; exact ⟨[], rfl⟩
theorem grows_getD : Grows getD := grows_liftD _
theorem grows_modD (f : DecState → DecState) : Grows (modD f) := grows_liftD _

theorem grows_bind' {α β} (m : LogM α) (f : α → LogM β) (hm : Grows m) (hf : ∀ a, Grows (f a)) : Grows (OdxM.bind m f) := by
  intro ls b
  unfold OdxM.bind
  obtain ⟨n1, h1⟩ := hm ls b
  cases hms : m ls b with
  | error x => obtain ⟨e0, l0⟩ := x; rw [hms] at h1; exact ⟨n1, h1⟩
  | ok p =>
    obtain ⟨a, l1⟩ := p
    rw [hms] at h1
    obtain ⟨n2, h2⟩ := hf a l1 b
    refine ⟨n2 ++ n1, ?_⟩
    simp only []
    rw [h2, List.append_assoc]
    congr 1
theorem grows_bind {α β} (m : LogM α) (f : α → LogM β) (hm : Grows m) (hf : ∀ a, Grows (f a)) : Grows (m >>= f) :=
  grows_bind' m f hm hf
theorem grows_ite {α} (c : Prop) [Decidable c] (a b : LogM α) (ha : Grows a) (hb : Grows b) : Grows (if c then a else b) := by
  split <;> assumption

theorem grows_probeL {α} (m : LogM α) (handles : Err → Bool) (h : Err → LogM α) (hm : Grows m) (hh : ∀ e, Grows (h e)) :
    Grows (probeL m handles h) := by
  intro ls b
  unfold probeL
  obtain ⟨n1, h1⟩ := hm { ls with probe := true } b
  cases hms : m { ls with probe := true } b with
  | ok p =>
    obtain ⟨a, l1⟩ := p
    rw [hms] at h1
    exact ⟨n1, h1⟩
  | error x =>
    obtain ⟨e0, l0⟩ := x
    rw [hms] at h1
    simp only []
    by_cases hc : handles e0 = true
    · rw [if_pos hc]
      obtain ⟨n2, h2⟩ := hh e0 { l0 with probe := ls.probe } b
      refine ⟨n2 ++ n1, ?_⟩
      rw [h2, List.append_assoc]
      congr 1
    · rw [if_neg hc]
      exact ⟨n1, h1⟩

/-- the logging wrapper adds exactly one entry: the bytes `extractCore` is about to request -/
theorem grows_extractCoreL (bl : Nat) (bt : BaseType) (enc : Option Enc) (hl : Bool) : Grows (extractCoreL bl bt enc hl) := by
  intro ls b
  have hrun : extractCoreL bl bt enc hl ls b =
      liftD (extractCore bl bt enc hl) { ls with log := ⟨ls.st.cursorByte, ls.st.readEnd bl, ls.probe⟩ :: ls.log } b := rfl
  rw [hrun]
  obtain ⟨n, hn⟩ := grows_liftD (extractCore bl bt enc hl) { ls with log := ⟨ls.st.cursorByte, ls.st.readEnd bl, ls.probe⟩ :: ls.log } b
  exact ⟨n ++ [⟨ls.st.cursorByte, ls.st.readEnd bl, ls.probe⟩], by rw [hn]; simp⟩

attribute [irreducible] Grows

macro "grows_step" : tactic =>
  `(tactic| first
    | exact grows_pure _ | exact grows_pure' _ | exact grows_raise _ | exact grows_odxraise _ | exact grows_odxassert _
    | exact grows_getD | exact grows_modD _
    | assumption
    | apply grows_bind | apply grows_bind' | apply grows_ite
    | intro _)
macro "grows1" : tactic => `(tactic| first
    | grows_step | split | dsimp only
    | (simp only [Nat.succ_eq_add_one, Nat.add_right_cancel_iff] at *; subst_vars))

theorem grows_extractAtomicL (bl : Nat) (bt : BaseType) (enc : Option Enc) (hl : Bool) : Grows (extractAtomicL bl bt enc hl) := by
  unfold extractAtomicL
  repeat (first | exact grows_extractCoreL _ _ _ _ | grows1)

theorem grows_unapplyMask (m : Nat) (c : Bool) (v : IVal) : Grows (unapplyMask m c v : LogM IVal) := by
  unfold unapplyMask
  cases v <;> simp only [] <;> repeat grows1

macro "grows2" : tactic => `(tactic| first
    | exact grows_extractAtomicL _ _ _ _ | exact grows_unapplyMask _ _ _ | grows1)

theorem grows_decodeDctL (dct : Dct) : Grows (decodeDctL dct) := by
  unfold decodeDctL
  cases dct with
  | std bt enc hl bl mask c => cases mask <;> simp only [] <;> repeat grows2
  | minmax bt enc hl mn mx t => simp only []; repeat grows2
  | leading bt enc hl bl => simp only []; repeat grows2
  | paramLen bt enc hl key => simp only []; repeat grows2

theorem grows_methodI2P (arith : Err) (m : Compu.Method) (i : Compu.Val) :
    Grows (methodI2P arith m i : LogM (Option Compu.Val)) := by
  unfold methodI2P
  cases m <;> simp only [] <;> repeat grows1

theorem grows_dopI2P (m : Compu.Method) (v : IVal) : Grows (dopI2P m v : LogM (Option IVal)) := by
  unfold dopI2P
  repeat (first | exact grows_methodI2P _ _ _ | grows1)

macro "grows3" : tactic => `(tactic| first
    | exact grows_decodeDctL _ | exact grows_dopI2P _ _ | exact grows_methodI2P _ _ _ | grows2)

set_option maxHeartbeats 1600000 in
/-- **The log is never shortened**, for every decoding function of the instrumented decoder, by induction on the fuel -/
theorem grows_decode_all (fuel : Nat) :
    (∀ d, Grows (decodeDopL fuel d)) ∧
    (∀ item sz n, Grows (decodeStaticItemsL item sz fuel n)) ∧
    (∀ item n, Grows (decodeNItemsL item fuel n)) ∧
    (∀ item, Grows (decodeToEndL item fuel)) ∧
    (∀ tv td item, Grows (decodeUntilMarkerL tv td item fuel)) ∧
    (∀ p, Grows (decodeParamL fuel p)) ∧
    (∀ ps, Grows (decodeParamsL fuel ps)) ∧
    (∀ ps, Grows (decodeCompositeL fuel ps)) := by
  induction fuel with
  | zero =>
    refine ⟨?_, ?_, ?_, ?_, ?_, ?_, ?_, ?_⟩ <;> intros
    · unfold decodeDopL; exact grows_raise _
    · unfold decodeStaticItemsL; exact grows_raise _
    · unfold decodeNItemsL; exact grows_raise _
    · unfold decodeToEndL; exact grows_raise _
    · unfold decodeUntilMarkerL; exact grows_raise _
    · unfold decodeParamL; exact grows_raise _
    · unfold decodeParamsL; exact grows_raise _
    · unfold decodeCompositeL; exact grows_raise _
  | succ fuel ih =>
    obtain ⟨ihDop, ihStatic, ihN, ihEnd, ihMark, ihParam, ihParams, ihComp⟩ := ih
    refine ⟨?_, ?_, ?_, ?_, ?_, ?_, ?_, ?_⟩
    · intro d
      cases d <;> unfold decodeDopL <;>
        repeat (first
          | exact ihDop _ | exact ihStatic _ _ _ | exact ihN _ _ | exact ihEnd _ | exact ihMark _ _ _ | exact ihComp _
          | exact ihParam _ | grows3)
    · intro item sz n
      unfold decodeStaticItemsL
      repeat (first | exact ihDop _ | exact ihStatic _ _ _ | grows3)
    · intro item n
      unfold decodeNItemsL
      repeat (first | exact ihDop _ | exact ihN _ _ | grows3)
    · intro item
      unfold decodeToEndL
      repeat (first | exact ihDop _ | exact ihEnd _ | grows3)
    · intro tv td item
      unfold decodeUntilMarkerL
      repeat (first
        | exact ihDop _ | exact ihMark _ _ _
        | (apply grows_probeL)
        | grows3)
    · intro p
      cases p with
      | mk name bytePos bitPos kind =>
        unfold decodeParamL
        cases kind <;>
        repeat (first | exact ihDop _ | grows3)
    · intro ps
      unfold decodeParamsL
      repeat (first | exact ihParam _ | exact ihParams _ | grows3)
    · intro ps
      unfold decodeCompositeL
      repeat (first | exact ihParams _ | grows3)

end OdxVerif.Codec
