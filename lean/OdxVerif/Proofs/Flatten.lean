import OdxVerif.Proofs.ComposeMsg
/-! Structures are positional sugar: the pure encoder of a nested description equals the flat encoder run on the
    description's *flattening* — every leaf with the absolute byte position that the ODX positional rule gives it
    (BYTE-POSITION relative to the enclosing structure's first byte, or the byte behind the previous sibling). -/
namespace OdxVerif.Codec
open OdxVerif.Bits OdxVerif.OdxM

/-- the leaf moved to an absolute byte position (relative to origin 0) -/
def Obj.at (o : Obj) (p : Nat) : Obj := { o with bytePos := some p }

mutual
/-- the leaves of a described object with their absolute positions, and the byte behind the object; `origin` is the
    first byte of the enclosing structure, `cursor` the byte behind the previous sibling -/
def Tree.flat : Tree → (origin cursor : Nat) → List (Obj × IVal) × Nat
  | .int o v, org, cur => ([(o.at (o.pos org cur), v)], o.pos org cur + o.k)
  | .const o v, org, cur => ([(o.at (o.pos org cur), v)], o.pos org cur + o.k)
  | .struct _ bp kids, org, cur => Trees.flat kids (posOf bp org cur) (posOf bp org cur)
def Trees.flat : List Tree → (origin cursor : Nat) → List (Obj × IVal) × Nat
  | [], _, cur => ([], cur)
  | t :: ts, org, cur =>
    let a := t.flat org cur
    let b := Trees.flat ts org a.2
    (a.1 ++ b.1, b.2)
end

/-- same message, used mask and warning count; the flat run has origin 0 -/
def FlatRel (s s0 : EncState) : Prop := s.msg = s0.msg ∧ s.used = s0.used ∧ s.warn = s0.warn ∧ s0.origin = 0

theorem encStep_at (o : Obj) (v : IVal) (s s0 : EncState) (h : FlatRel s s0) :
    FlatRel (encStep o v s) (encStep (o.at (o.pos s.origin s.cursorByte)) v s0) := by
  obtain ⟨h1, h2, h3, h4⟩ := h
  have hp : (o.at (o.pos s.origin s.cursorByte)).pos s0.origin s0.cursorByte = o.pos s.origin s.cursorByte := by
    simp [Obj.at, Obj.pos, h4]
  refine ⟨?_, ?_, ?_, ?_⟩
  · simp only [encStep, hp, h1]; rfl
  · simp only [encStep, hp, h1, h2]; rfl
  · simp only [encStep, hp, h1, h2, h3]; rfl
  · simp only [encStep, h4]

mutual
theorem Tree.enc_flat : (t : Tree) → ∀ (s s0 : EncState), FlatRel s s0 →
    FlatRel (t.pair.enc s) (encAll (t.flat s.origin s.cursorByte).1 s0) ∧
    (t.pair.enc s).cursorByte = (t.flat s.origin s.cursorByte).2 ∧ (t.pair.enc s).origin = s.origin
  | .int o v, s, s0, h => by
    simp only [Tree.pair, Pair.map, Pair.ofObj, Tree.flat, encAll]
    exact ⟨encStep_at o v s s0 h, rfl, rfl⟩
  | .const o v, s, s0, h => by
    simp only [Tree.pair, Pair.map, Pair.ofObj, Tree.flat, encAll]
    exact ⟨encStep_at o v s s0 h, rfl, rfl⟩
  | .struct n bp kids, s, s0, h => by
    have ih := Trees.enc_flat kids { s with cursorByte := posOf bp s.origin s.cursorByte,
                                            origin := posOf bp s.origin s.cursorByte } s0 h
    simp only [Tree.pair, Pair.map, Pair.atPos, Pair.inOrigin, Tree.flat]
    exact ⟨⟨ih.1.1, ih.1.2.1, ih.1.2.2.1, ih.1.2.2.2⟩, ih.2.1, trivial⟩
theorem Trees.enc_flat : (ts : List Tree) → ∀ (s s0 : EncState), FlatRel s s0 →
    FlatRel ((Trees.pair ts).enc s) (encAll (Trees.flat ts s.origin s.cursorByte).1 s0) ∧
    ((Trees.pair ts).enc s).cursorByte = (Trees.flat ts s.origin s.cursorByte).2 ∧ ((Trees.pair ts).enc s).origin = s.origin
  | [], s, s0, h => by
    simp only [Trees.pair, Pair.nil, Trees.flat, encAll]
    exact ⟨h, rfl, rfl⟩
  | t :: ts, s, s0, h => by
    obtain ⟨h1, c1, o1⟩ := Tree.enc_flat t s s0 h
    obtain ⟨h2, c2, o2⟩ := Trees.enc_flat ts (t.pair.enc s) (encAll (t.flat s.origin s.cursorByte).1 s0) h1
    simp only [Trees.pair, Pair.map, Pair.seq, Trees.flat, encAll_append]
    rw [o1, c1] at h2 c2
    exact ⟨h2, c2, by rw [o2, o1]⟩
end

/-- every flattened leaf carries an explicit position -/
theorem Obj.at_pos (o : Obj) (p origin cursor : Nat) : (o.at p).pos origin cursor = origin + p := rfl

/-- `Request.encode` of a nested description = the flat encoder on the flattening, from the empty message -/
theorem encodeMessage_tree_flat (ts : List Tree) (hneed : Trees.need ts + 2 ≤ modelFuel) (hok : Trees.okAll ts)
    (hn : Trees.namesOk ts) (trig : Option Bytes) :
    ∃ s0 : EncState, s0.msg = [] ∧ s0.used = [] ∧ s0.warn = 0 ∧ s0.cursorByte = 0 ∧ s0.origin = 0 ∧
      encodeMessage none (Trees.toParams ts) (.dict (Trees.pair ts).val) trig true =
        .ok ((encAll (Trees.flat ts 0 0).1 s0).msg, (encAll (Trees.flat ts 0 0).1 s0).warn) := by
  obtain ⟨s0, hm, hu, hw, hc, ho, hrun⟩ := encodeMessage_tree ts hneed hok hn trig
  refine ⟨s0, hm, hu, hw, hc, ho, ?_⟩
  obtain ⟨hrel, _, _⟩ := Trees.enc_flat ts s0 s0 ⟨rfl, rfl, rfl, ho⟩
  rw [ho, hc] at hrel
  rw [hrun, hrel.1, hrel.2.2.1]

end OdxVerif.Codec
