import OdxVerif.Proofs.FieldTierPure
/-! Field tier: the item of a field is a tier-2 structure handed to `encodeDop` / `decodeDop` directly (not through a
    parameter). The model on `Dop.struct none (Trees.toParams k)` equals the pure pair `structPair k`, and leaves the bit
    cursor at 0 (the next item / the padding needs that). -/
namespace OdxVerif.Codec
open OdxVerif.Bits OdxVerif.OdxM

theorem bind_ok {σ α β : Type} {m : OdxM σ α} {f : α → OdxM σ β} {s : σ} {st : Bool} {b : β} {s' : σ}
    (h : (m >>= f) s st = .ok (b, s')) : ∃ a s1, m s st = .ok (a, s1) ∧ f a s1 st = .ok (b, s') := by
  simp only [bind, run_bind] at h
  cases hm : m s st with
  | error e => rw [hm] at h; cases h
  | ok p =>
    obtain ⟨a, s1⟩ := p
    rw [hm] at h
    exact ⟨a, s1, rfl, h⟩

/-- `Parameter.encode_into_pdu` always ends with `cursor_bit_position = 0` -/
theorem encodeParam_cursorBit (fuel : Nat) (p : Param) (pv : Option PVal) (s s' : EncState) (st : Bool)
    (h : encodeParam fuel p pv s st = .ok ((), s')) : s'.cursorBit = 0 := by
  cases fuel with
  | zero => simp [encodeParam, raise] at h
  | succ f =>
    obtain ⟨name, bp, bitp, kind⟩ := p
    simp only [encodeParam] at h
    obtain ⟨_, s1, _, h2⟩ := bind_ok h
    obtain ⟨_, s2, _, h3⟩ := bind_ok h2
    simp only [run_modifyS, Except.ok.injEq, Prod.mk.injEq, true_and] at h3
    rw [← h3]

/-- the first encoding loop over tier-2 parameters leaves the bit cursor at 0 -/
theorem encodeParams_trees_cursorBit (ts : List Tree) : ∀ (values : List (String × PVal)) (fuel : Nat) (eop : Bool)
    (s s' : EncState), s.cursorBit = 0 → encodeParams eop values fuel (Trees.toParams ts) s true = .ok ((), s') →
    s'.cursorBit = 0 := by
  induction ts with
  | nil =>
    intro values fuel eop s s' hcb h
    cases fuel with
    | zero => simp [Trees.toParams, encodeParams, raise] at h
    | succ f =>
      simp only [Trees.toParams, encodeParams, pure, run_pure, Except.ok.injEq, Prod.mk.injEq, true_and] at h
      rw [← h]; exact hcb
  | cons t ts ih =>
    intro values fuel eop s s' _ h
    cases fuel with
    | zero => simp [Trees.toParams, encodeParams, raise] at h
    | succ f =>
      simp only [Trees.toParams] at h
      rcases Tree.toParam_kind t with ⟨bp, bitp, dop, htp⟩ | ⟨bp, bitp, dct, v, htp⟩ <;>
      · rw [htp] at h
        simp only [encodeParams] at h
        -- `if rest.isEmpty then is_end_of_pdu = orig`, then `if required and missing then odxraise`, then the parameter
        have key : ∀ (s1 : EncState) (m : EncM Unit), (∀ sa sb, m sa true = .ok ((), sb) → sb.cursorBit = 0) →
            ((do m; encodeParams eop values f (Trees.toParams ts)) : EncM Unit) s1 true = .ok ((), s') →
            s'.cursorBit = 0 := by
          intro s1 m hm hrun
          obtain ⟨_, s2, h3, h4⟩ := bind_ok hrun
          exact ih values f eop s2 s' (hm _ _ h3) h4
        have hpar : ∀ (c : Prop) [Decidable c] (p : Param) (pv : Option PVal) (sa sb : EncState),
            ((if c then do odxraise Err.encode; encodeParam f p pv else encodeParam f p pv) : EncM Unit) sa true
              = .ok ((), sb) → sb.cursorBit = 0 := by
          intro c _ p pv sa sb hrun
          split at hrun
          · obtain ⟨_, s3, _, h5⟩ := bind_ok hrun
            exact encodeParam_cursorBit _ _ _ _ _ _ h5
          · exact encodeParam_cursorBit _ _ _ _ _ _ hrun
        split at h
        · obtain ⟨_, s1, _, h2⟩ := bind_ok h
          exact key s1 _ (hpar _ _ _) h2
        · exact key s _ (hpar _ _ _) h

/-- the structure of a field item: content relative to the item's first byte, value = the dictionary -/
def structPair (k : List Tree) : Pair PVal := ((Trees.pair k).inOrigin).map PVal.dict

theorem structPair_good (k : List Tree) (hok : Trees.okAll k) : Good (structPair k) :=
  ((Trees.good k hok).inOrigin).map _

theorem structPair_val (k : List Tree) : (structPair k).val = .dict (Trees.pair k).val := rfl

/-- `BasicStructure.encode_into_pdu` on a tier-2 structure = the pure encoder; the bit cursor stays 0 -/
theorem encodeDop_struct_trees (k : List Tree) (hok : Trees.okAll k) (hn : Trees.namesOk k) (fuel : Nat)
    (hf : Trees.need k + 2 ≤ fuel) (s : EncState) (hcb : s.cursorBit = 0) :
    ∃ s', encodeDop fuel (.struct none (Trees.toParams k)) (.dict (Trees.pair k).val) s true = .ok ((), s') ∧
      SameCore s' ((structPair k).enc s) ∧ s'.cursorBit = 0 := by
  obtain ⟨f, rfl⟩ : ∃ f, fuel = f + 1 + 1 := ⟨fuel - 2, by omega⟩
  have hf' : Trees.need k ≤ f := by omega
  let sIn : EncState := { s with origin := s.cursorByte, isEndOfPdu := false, cursorBit := 0 }
  obtain ⟨sp, hrun, hcore⟩ := Trees.encode_eq k hok hn (Trees.pair k).val
    (fun t ht => lookupV_pair_val k hn t ht) f hf' s.isEndOfPdu sIn
  have hspcb : sp.cursorBit = 0 := encodeParams_trees_cursorBit k _ _ _ sIn sp rfl hrun
  obtain ⟨e, rfl⟩ : ∃ e, f = k.length + 1 + e := ⟨f - (k.length + 1), by have := Trees.need_ge k; omega⟩
  have hkeys := encodeKeyValues_trees k e { sp with isEndOfPdu := false } true
  have hg := Trees.good k hok
  refine ⟨{ sp with isEndOfPdu := false, origin := s.origin }, ?_, ?_, hspcb⟩
  · have hrun' : encodeParams s.isEndOfPdu (Trees.pair k).val (k.length + 1 + e) (Trees.toParams k)
        { s with origin := s.cursorByte, isEndOfPdu := false, cursorBit := 0 } true = .ok ((), sp) := hrun
    simp only [encodeDop, encodeComposite, bind, pure, run_bind, run_getS, run_modifyS, run_pure, run_ite, hcb,
      known_pair_val, Bool.false_eq_true, if_false, ne_eq, not_true_eq_false]
    rw [hrun']
    simp only []
    rw [hkeys]
  · have hin : SameCore sIn { s with origin := s.cursorByte } := ⟨rfl, rfl, rfl, rfl, rfl⟩
    have h2 := hcore.trans (hg.core _ _ hin)
    exact ⟨h2.1, h2.2.1, h2.2.2.1, h2.2.2.2.1, rfl⟩

/-- `BasicStructure.decode_from_pdu` on a tier-2 structure = the pure decoder -/
theorem decodeDop_struct_trees (k : List Tree) (hok : Trees.okAll k) (fuel : Nat) (hf : Trees.need k + 2 ≤ fuel)
    (d : DecState) (hcb : d.cursorBit = 0) (hfit : (structPair k).fits d) :
    decodeDop fuel (.struct none (Trees.toParams k)) d true = .ok (((structPair k).dec d).1, ((structPair k).dec d).2) := by
  obtain ⟨f, rfl⟩ : ∃ f, fuel = f + 1 + 1 := ⟨fuel - 2, by omega⟩
  have hf' : Trees.need k ≤ f := by omega
  have hfit' : (Trees.pair k).fits { d with origin := d.cursorByte } := hfit
  have hrun := Trees.decode_eq k hok f hf' { d with origin := d.cursorByte } hcb hfit'
  simp only [decodeDop, decodeComposite, bind, pure, run_bind, run_getS, run_modifyS, run_pure]
  rw [hrun]
  rfl

theorem structPair_dec_cursorBit (k : List Tree) (d : DecState) (h : d.cursorBit = 0) :
    ((structPair k).dec d).2.cursorBit = 0 :=
  Trees.dec_cursorBit k { d with origin := d.cursorByte } h

theorem structPair_originFree (k : List Tree) : OriginFree (structPair k) :=
  (OriginFree.inOrigin (Trees.pair k)).map _

theorem structPair_enc_cursor (k : List Tree) (s : EncState) :
    ((structPair k).enc s).cursorByte = s.cursorByte + Trees.size k := Trees.enc_cursor_inOrigin k s

/-- the largest fuel demand among the items of a field -/
def maxNeed : List (List Tree) → Nat
  | [] => 0
  | k :: ks => max (Trees.need k) (maxNeed ks)

theorem maxNeed_ge (ks : List (List Tree)) : ∀ k ∈ ks, Trees.need k ≤ maxNeed ks := by
  induction ks with
  | nil => intro k hk; cases hk
  | cons x xs ih =>
    intro k hk
    simp only [maxNeed]
    cases hk with
    | head => omega
    | tail _ h => have := ih k h; omega

/-- what a field demands of each item (beyond its own condition on the size) -/
def itemOk (shape : List Tree) (k : List Tree) : Prop :=
  Trees.toParams k = Trees.toParams shape ∧ Trees.okAll k ∧ Trees.namesOk k

/-- the values handed to the encoder: one dictionary per item -/
def itemVals (ks : List (List Tree)) : List PVal := ks.map fun k => PVal.dict (Trees.pair k).val

theorem itemVals_length (ks : List (List Tree)) : (itemVals ks).length = ks.length := by
  simp [itemVals]

end OdxVerif.Codec
