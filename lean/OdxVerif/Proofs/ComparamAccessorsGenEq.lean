import OdxVerif.Gen.ComparamAccessors
import OdxVerif.Proofs.GetComparamGenEq
/-! # The generated `int()` accessors of `HierarchyElement` equal the hand-written `viaValue … intRes`

    `Gen/ComparamAccessors.lean` is regenerated from `odxtools/diaglayers/hierarchyelement.py` by `harness/extract/py2lean.py` (W28:
    string literals, a keyword argument of a spec'd method, `self.get_comparam` = the GENERATED `Gen.getComparamE`,
    `com_param.get_value()` = the model's `getValue`, `int(result)` = the model's `pyInt`). -/
namespace OdxVerif.Comparam
open OdxVerif Py

/-- a Python outcome of an `Optional[int]` accessor as the model's `Res`: `OdxError` ↔ `.odx`, any other exception ↔ `.foreign` -/
def toRes : Py.M (Option Int) → Res
  | .ok none => .none
  | .ok (some i) => .int i
  | .error .odxError => .err .odx
  | .error _ => .err .foreign

/-- the common body of the five accessors, after `get_comparam` has answered `c?` -/
theorem gen_viaValue_body (c? : Option Inst) :
    toRes (do
      let com_param : Option Inst := c?
      if com_param = none then return none
      let result : String ← Py.call Gen.errOfComparam (getValue (← Py.unwrapAttr com_param))
      if False then return none
      return some (← Gen.pyIntE result)) = viaValue c? intRes := by
  cases c? with
  | none => rfl
  | some c =>
    simp only [viaValue, intRes, Gen.pyIntE, Py.unwrapAttr, Py.call, reduceCtorEq, if_false, bind, Except.bind, pure, Except.pure]
    cases hv : getValue c with
    | error e => cases e <;> rfl
    | ok s =>
      simp only
      cases hp : pyInt s <;> rfl

/-- **Tie.** `getCanFuncReqId` for every `comparam_refs` and `protocol` argument -/
theorem gen_canFuncReqId_eq (refs : List Inst) (p : Option Gen.ProtoArg) :
    toRes (Gen.getCanFuncReqIdE refs p) = viaValue (getComparamIn refs "CP_CanFuncReqId" (protoName p)) intRes := by
  rw [← gen_viaValue_body]
  unfold Gen.getCanFuncReqIdE
  rw [gen_getComparam_eq]
  rfl

/-- **Tie.** `getDoipLogicalGatewayAddress` for every `comparam_refs` and `protocol` argument -/
theorem gen_doipLogicalGatewayAddress_eq (refs : List Inst) (p : Option Gen.ProtoArg) :
    toRes (Gen.getDoipLogicalGatewayAddressE refs p) = viaValue (getComparamIn refs "CP_DoIPLogicalGatewayAddress" (protoName p)) intRes := by
  rw [← gen_viaValue_body]
  unfold Gen.getDoipLogicalGatewayAddressE
  rw [gen_getComparam_eq]
  rfl

/-- **Tie.** `getDoipLogicalTesterAddress` for every `comparam_refs` and `protocol` argument -/
theorem gen_doipLogicalTesterAddress_eq (refs : List Inst) (p : Option Gen.ProtoArg) :
    toRes (Gen.getDoipLogicalTesterAddressE refs p) = viaValue (getComparamIn refs "CP_DoIPLogicalTesterAddress" (protoName p)) intRes := by
  rw [← gen_viaValue_body]
  unfold Gen.getDoipLogicalTesterAddressE
  rw [gen_getComparam_eq]
  rfl

/-- **Tie.** `getDoipLogicalFunctionalAddress` for every `comparam_refs` and `protocol` argument -/
theorem gen_doipLogicalFunctionalAddress_eq (refs : List Inst) (p : Option Gen.ProtoArg) :
    toRes (Gen.getDoipLogicalFunctionalAddressE refs p) = viaValue (getComparamIn refs "CP_DoIPLogicalFunctionalAddress" (protoName p)) intRes := by
  rw [← gen_viaValue_body]
  unfold Gen.getDoipLogicalFunctionalAddressE
  rw [gen_getComparam_eq]
  rfl

/-- **Tie.** `getDoipRoutingActivationType` for every `comparam_refs` and `protocol` argument -/
theorem gen_doipRoutingActivationType_eq (refs : List Inst) (p : Option Gen.ProtoArg) :
    toRes (Gen.getDoipRoutingActivationTypeE refs p) = viaValue (getComparamIn refs "CP_DoIPRoutingActivationType" (protoName p)) intRes := by
  rw [← gen_viaValue_body]
  unfold Gen.getDoipRoutingActivationTypeE
  rw [gen_getComparam_eq]
  rfl

/-- **Tie.** `get_can_baudrate` for every `comparam_refs` and `protocol` argument: the model's `viaGuardedValue` (a complex value is
    answered with `None` before `get_value()` could raise) -/
theorem gen_canBaudrate_eq (refs : List Inst) (p : Option Gen.ProtoArg) :
    toRes (Gen.getCanBaudrateE refs p) = viaGuardedValue (getComparamIn refs "CP_Baudrate" (protoName p)) := by
  unfold Gen.getCanBaudrateE
  rw [gen_getComparam_eq]
  cases getComparamIn refs "CP_Baudrate" (protoName p) with
  | none => rfl
  | some c =>
    simp only [viaGuardedValue, intRes, Gen.pyIntE, Py.unwrapAttr, Py.call, reduceCtorEq, if_false, bind, Except.bind, pure, Except.pure]
    cases hs : c.value.isStr
    · rfl
    · simp only [Bool.not_true, Bool.false_eq_true, not_true_eq_false, if_false]
      cases hv : getValue c with
      | error e => cases e <;> rfl
      | ok s =>
        simp only
        cases hp : pyInt s <;> rfl

end OdxVerif.Comparam
