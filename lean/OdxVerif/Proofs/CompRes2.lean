import OdxVerif.Proofs.CompResBits
/-! Compositional components, extension W25 (A): **the wire condition `Desc2R.resPre` derived from the layout.**

    W22 (`Proofs/CompRes.lean`) proves the round trip of `Desc2R` descriptions under the wire condition `resPre`: a conjunction
    over the RESERVED / NRC-CONST nodes of the tree, each evaluated at the DECODER state in which the node is reached.  Here:
    * `Desc2R.resAll P x org c` — a traversal of the description in LAYOUT coordinates (origin `org`, cursor `c`, the cursor
      moved by `Lay2.cur`): every bit address of every RESERVED node satisfies `P`, the node's `r` is 0, and there is no
      NRC-CONST node;
    * `RtHyp enc s d` — the hypotheses of the round-trip clause `Good.rt` packaged: the decoder state `d` sits where the
      encoder state `s` sits, and `d.msg` agrees with the encoder's output on the bits claimed so far.  They pass from a
      sequence to its parts (`RtHyp.seq_left/right`), through a BYTE-SIZE (`RtHyp.sized`), and give the decoder's cursor
      behind a component (`Good.rt`) — that is what relates the decoder states of `resPre` to the layout coordinates;
    * `Desc2R.resPre_of_zero` (induction over `Desc2R`): all RESERVED bits zero in `d.msg` ⇒ `resPre`;
    * `Descs2R.resPre_of_layout`: for an ENCODED PDU, no layout entry claims a RESERVED bit ⇒ `resPre` (with `r = 0`);
    * `Descs2R.resFree`: the decidable check. -/
namespace OdxVerif.Codec
open OdxVerif.Bits OdxVerif.OdxM

/-! ### the traversal in layout coordinates -/

/-- the absolute bit addresses of a RESERVED object started at origin `org`, cursor `c` -/
def resBit (n : String) (bp bitp : Option Nat) (bl : Nat) (org c j : Nat) : Nat :=
  absBit ((reservedObj n bp bitp bl).pos org c) (reservedObj n bp bitp bl).k false (j + bitp.getD 0)

mutual
/-- every bit of every RESERVED node satisfies `P` (and the node's `r` is 0); no NRC-CONST node.  `org`/`c`: origin and cursor
    of the layout (`Lay2`) at the node -/
def Desc2R.resAll (P : Nat → Prop) : Desc2R → Nat → Nat → Prop
  | .base _, _, _ => True
  | .reserved n bp bitp bl r, org, c => r = 0 ∧ ∀ j, j < bl → P (resBit n bp bitp bl org c j)
  | .nrcConst _ _ _, _, _ => False
  | .u16le _ _ _, _, _ => True
  | .struct _ bp _ kids, org, c => Descs2R.resAll P kids (posOf bp org c) (posOf bp org c)
def Descs2R.resAll (P : Nat → Prop) : List Desc2R → Nat → Nat → Prop
  | [], _, _ => True
  | k :: ks, org, c => k.resAll P org c ∧ Descs2R.resAll P ks org (k.lay.cur org c)
end

mutual
theorem Desc2R.resAll_mono {P Q : Nat → Prop} (h : ∀ a, P a → Q a) : (x : Desc2R) → ∀ org c, x.resAll P org c → x.resAll Q org c
  | .base _, _, _, _ => trivial
  | .reserved _ _ _ _ _, _, _, hp => by
    simp only [Desc2R.resAll] at hp ⊢
    exact ⟨hp.1, fun j hj => h _ (hp.2 j hj)⟩
  | .nrcConst _ _ _, _, _, hp => by simp only [Desc2R.resAll] at hp
  | .u16le _ _ _, _, _, _ => trivial
  | .struct _ bp _ kids, org, c, hp => by
    simp only [Desc2R.resAll] at hp ⊢
    exact Descs2R.resAll_mono h kids _ _ hp
theorem Descs2R.resAll_mono {P Q : Nat → Prop} (h : ∀ a, P a → Q a) : (ks : List Desc2R) → ∀ org c,
    Descs2R.resAll P ks org c → Descs2R.resAll Q ks org c
  | [], _, _, _ => trivial
  | k :: ks, org, c, hp => by
    simp only [Descs2R.resAll] at hp ⊢
    exact ⟨Desc2R.resAll_mono h k _ _ hp.1, Descs2R.resAll_mono h ks _ _ hp.2⟩
end

/-! ### the decidable check -/

mutual
def Desc2R.resAllB (p : Nat → Bool) : Desc2R → Nat → Nat → Bool
  | .base _, _, _ => true
  | .reserved n bp bitp bl r, org, c => r == 0 && (List.range bl).all (fun j => p (resBit n bp bitp bl org c j))
  | .nrcConst _ _ _, _, _ => false
  | .u16le _ _ _, _, _ => true
  | .struct _ bp _ kids, org, c => Descs2R.resAllB p kids (posOf bp org c) (posOf bp org c)
def Descs2R.resAllB (p : Nat → Bool) : List Desc2R → Nat → Nat → Bool
  | [], _, _ => true
  | k :: ks, org, c => k.resAllB p org c && Descs2R.resAllB p ks org (k.lay.cur org c)
end

mutual
theorem Desc2R.resAll_of_B (p : Nat → Bool) : (x : Desc2R) → ∀ org c, x.resAllB p org c = true → x.resAll (fun a => p a = true) org c
  | .base _, _, _, _ => trivial
  | .reserved n bp bitp bl r, org, c, hp => by
    simp only [Desc2R.resAllB, Bool.and_eq_true, beq_iff_eq, List.all_eq_true, List.mem_range] at hp
    exact ⟨hp.1, hp.2⟩
  | .nrcConst _ _ _, _, _, hp => by simp [Desc2R.resAllB] at hp
  | .u16le _ _ _, _, _, _ => trivial
  | .struct _ bp _ kids, org, c, hp => by
    simp only [Desc2R.resAllB] at hp
    simp only [Desc2R.resAll]
    exact Descs2R.resAll_of_B p kids _ _ hp
theorem Descs2R.resAll_of_B (p : Nat → Bool) : (ks : List Desc2R) → ∀ org c, Descs2R.resAllB p ks org c = true →
    Descs2R.resAll (fun a => p a = true) ks org c
  | [], _, _, _ => trivial
  | k :: ks, org, c, hp => by
    simp only [Descs2R.resAllB, Bool.and_eq_true] at hp
    exact ⟨Desc2R.resAll_of_B p k _ _ hp.1, Descs2R.resAll_of_B p ks _ _ hp.2⟩
end

instance Ent2.decClaims2 (e : Ent2) (a : Nat) : Decidable (e.claims a) := by unfold Ent2.claims Ent.claims; infer_instance

/-- no entry of `L` claims bit `a` -/
def unclaimedB (L : List Ent2) (a : Nat) : Bool := L.all (fun e => !decide (e.claims a))

theorem unclaimed_of_B (L : List Ent2) (a : Nat) (h : unclaimedB L a = true) : ∀ e ∈ L, ¬ e.claims a := by
  intro e he
  simp only [unclaimedB, List.all_eq_true, Bool.not_eq_true', decide_eq_false_iff_not] at h
  exact h e he

/-- **the decidable check**: no NRC-CONST node, every RESERVED node has `r = 0` and none of its bits is claimed by an entry of
    the layout of the whole parameter list -/
def Descs2R.resFree (ds : List Desc2R) : Bool := Descs2R.resAllB (unclaimedB ((Descs2R.lay ds).ents 0 0)) ds 0 0

/-! ### the hypotheses of `Good.rt`, packaged -/

/-- the decoder state `d` sits where the encoder state `s` sits, and its message agrees with what `enc` produces from `s` on
    every bit claimed so far (the hypotheses of `Good.rt`) -/
structure RtHyp (enc : EncState → EncState) (s : EncState) (d : DecState) : Prop where
  all : AllBytes s.msg
  warn : (enc s).warn = s.warn
  orig : d.origin = s.origin
  cur : d.cursorByte = s.cursorByte
  dall : AllBytes d.msg
  len : (enc s).msg.length ≤ d.msg.length
  agree : ∀ a, getBit (enc s).used a = true → getBit d.msg a = getBit (enc s).msg a

theorem RtHyp.rt {α : Type} {c : Pair α} (hc : Good c) {s : EncState} {d : DecState} (h : RtHyp c.enc s d) :
    (c.dec d).1 = c.val ∧ (c.dec d).2.cursorByte = (c.enc s).cursorByte ∧ (c.dec d).2.origin = d.origin ∧
      (c.dec d).2.msg = d.msg ∧ c.fits d :=
  hc.rt s d h.all h.warn h.orig h.cur h.dall h.len h.agree

/-- from a sequence to its first part -/
theorem RtHyp.seq_left {α β : Type} {a : Pair α} {b : Pair β} (hb : Good b) (ha : Good a) {s : EncState} {d : DecState}
    (h : RtHyp (fun s => b.enc (a.enc s)) s d) : RtHyp a.enc s d := by
  have h1 := ha.warn_mono s
  have h2 := hb.warn_mono (a.enc s)
  have hw : (b.enc (a.enc s)).warn = s.warn := h.warn
  have hwa : (a.enc s).warn = s.warn := by omega
  have hwb : (b.enc (a.enc s)).warn = (a.enc s).warn := by omega
  refine ⟨h.all, hwa, h.orig, h.cur, h.dall, Nat.le_trans (hb.len_mono _) h.len, ?_⟩
  intro x hx
  obtain ⟨m2, u2⟩ := hb.frame (a.enc s) hwb x hx
  rw [h.agree x u2, ← m2]

/-- from a sequence to its second part, at the states behind the first -/
theorem RtHyp.seq_right {α β : Type} {a : Pair α} {b : Pair β} (hb : Good b) (ha : Good a) {s : EncState} {d : DecState}
    (h : RtHyp (fun s => b.enc (a.enc s)) s d) : RtHyp b.enc (a.enc s) (a.dec d).2 := by
  have h1 := ha.warn_mono s
  have h2 := hb.warn_mono (a.enc s)
  have hw : (b.enc (a.enc s)).warn = s.warn := h.warn
  have hwb : (b.enc (a.enc s)).warn = (a.enc s).warn := by omega
  obtain ⟨_, c1, o1, g1, _⟩ := (h.seq_left hb ha).rt ha
  exact ⟨ha.allBytes s h.all, hwb, by rw [o1, h.orig, ha.origin], c1, by rw [g1]; exact h.dall, by rw [g1]; exact h.len,
    by rw [g1]; exact h.agree⟩

/-- through a BYTE-SIZE -/
theorem RtHyp.sized {α : Type} {c : Pair α} (bs : Nat)
    (hsz : ∀ s, s.cursorByte ≤ (c.enc s).cursorByte ∧ (c.enc s).cursorByte ≤ s.cursorByte + bs) {s : EncState} {d : DecState}
    (h : RtHyp (c.sized bs).enc s d) : RtHyp c.enc s d := by
  have hw := h.warn
  have hlen := h.len
  have hagree := h.agree
  refine ⟨h.all, ?_, h.orig, h.cur, h.dall, ?_, ?_⟩
  · simp only [Pair.sized] at hw; split at hw <;> exact hw
  · simp only [Pair.sized] at hlen; split at hlen
    · rw [bsPad_length] at hlen; omega
    · exact hlen
  · intro x hx
    simp only [Pair.sized] at hagree
    split at hagree
    · rename_i hlt
      obtain ⟨m2, u2⟩ := bsPad_frame s.cursorByte bs (c.enc s) (hsz s).1 (by have := (hsz s).1; omega) x hx
      rw [hagree x u2, m2]
    · exact hagree x hx

/-! ### zero bits ⇒ the wire condition -/

/-- a RESERVED node: the object lies inside the message (the encoder extended it up to there) and reads as 0 -/
theorem reserved_resPre_of_zero (n : String) (bp bitp : Option Nat) (bl : Nat) (s : EncState) (d : DecState)
    (h : RtHyp (skipPair (reservedObj n bp bitp bl) (.atom (.int ((0 : Nat) : Int)))).enc s d)
    (hz : ∀ j, j < bl → getBit d.msg (resBit n bp bitp bl s.origin s.cursorByte j) = false) :
    (Desc2R.reserved n bp bitp bl 0).resPre d := by
  have hlen := h.len
  rw [skipPair_enc, padEnc_length] at hlen
  have hin : (reservedObj n bp bitp bl).pos d.origin d.cursorByte + (reservedObj n bp bitp bl).k ≤ d.msg.length := by
    rw [h.orig, h.cur]
    have : (reservedObj n bp bitp bl).pos s.origin s.cursorByte + (reservedObj n bp bitp bl).k + 0 ≤ d.msg.length :=
      Nat.le_trans (Nat.le_max_right _ _) hlen
    omega
  refine ⟨hin, ?_⟩
  have := reserved_reads_zero n bp bitp bl d h.dall hin (by
    intro j hj
    rw [h.orig, h.cur]
    exact hz j hj)
  exact this

mutual
/-- **all RESERVED bits zero in the decoder's message ⇒ the wire condition**, for a description started at corresponding
    encoder / decoder states -/
theorem Desc2R.resPre_of_zero : (x : Desc2R) → x.wf → ∀ (s : EncState) (d : DecState), RtHyp x.mc.c.pair.enc s d →
    x.resAll (fun a => getBit d.msg a = false) s.origin s.cursorByte → x.resPre d
  | .base _, _, _, _, _, _ => trivial
  | .reserved n bp bitp bl r, _, s, d, h, hz => by
    simp only [Desc2R.resAll] at hz
    obtain ⟨hr, hz⟩ := hz
    subst hr
    exact reserved_resPre_of_zero n bp bitp bl s d h hz
  | .nrcConst _ _ _, _, _, _, _, hz => by simp only [Desc2R.resAll] at hz
  | .u16le _ _ _, _, _, _, _, _ => trivial
  | .struct name bp bso kids, hwf, s, d, h, hz => by
    simp only [Desc2R.wf] at hwf
    simp only [Desc2R.resAll] at hz
    have hpos : posOf bp d.origin d.cursorByte = posOf bp s.origin s.cursorByte := by rw [h.orig, h.cur]
    have hokAll := MComps.okAll_of_forall (fun _ => True) _ (Descs2R.okM kids hwf.1 (fun _ => True))
    -- the hypotheses for the content, at the structure's first byte
    have hk : RtHyp (Comps.pair (Descs2R.comps kids)).enc
        { s with cursorByte := posOf bp s.origin s.cursorByte, origin := posOf bp s.origin s.cursorByte }
        { d with cursorByte := posOf bp d.origin d.cursorByte, origin := posOf bp d.origin d.cursorByte } := by
      cases bso with
      | none =>
        exact ⟨h.all, h.warn, hpos, hpos, h.dall, h.len, h.agree⟩
      | some bs =>
        have hsize := (hwf.2.2.2 bs rfl).1
        have hdc := DComp.structM_okM (Descs2R.mcs kids) hokAll hwf.2.1 hwf.2.2.1
        have h' : RtHyp ((DComp.struct (Descs2R.comps kids)).pair.sized bs).enc
            { s with cursorByte := posOf bp s.origin s.cursorByte } { d with cursorByte := posOf bp d.origin d.cursorByte } :=
          ⟨h.all, h.warn, h.orig, hpos, h.dall, h.len, h.agree⟩
        have h2 := RtHyp.sized bs (fun t => by
          have : ((DComp.struct (Descs2R.comps kids)).pair.enc t).cursorByte =
              t.cursorByte + (DComp.struct (Descs2R.comps kids)).size := hdc.enc_cursor t
          have hs : (DComp.struct (Descs2R.comps kids)).size ≤ bs := hsize
          exact ⟨by omega, by omega⟩) h'
        exact ⟨h2.all, h2.warn, hpos, hpos, h2.dall, h2.len, h2.agree⟩
    exact Descs2R.resPre_of_zero kids hwf.1 _ _ hk hz
theorem Descs2R.resPre_of_zero : (ks : List Desc2R) → Descs2R.wf ks → ∀ (s : EncState) (d : DecState),
    RtHyp (Comps.pair (Descs2R.comps ks)).enc s d →
    Descs2R.resAll (fun a => getBit d.msg a = false) ks s.origin s.cursorByte → Descs2R.resPre ks d
  | [], _, _, _, _, _ => trivial
  | k :: ks, hwf, s, d, h, hz => by
    simp only [Descs2R.wf] at hwf
    simp only [Descs2R.resAll] at hz
    have hgk := (Desc2R.okM k hwf.1 (fun _ => True)).good
    have hgs : Good (Comps.pair (Descs2R.comps ks)) :=
      MComps.good _ (MComps.okAll_of_forall (fun _ => True) _ (Descs2R.okM ks hwf.2 (fun _ => True)))
    have h' : RtHyp (fun t => (Comps.pair (Descs2R.comps ks)).enc (k.mc.c.pair.enc t)) s d := h
    have hl := h'.seq_left hgs hgk
    have hr := h'.seq_right hgs hgk
    obtain ⟨_, _, _, g1, _⟩ := hl.rt hgk
    refine ⟨Desc2R.resPre_of_zero k hwf.1 s d hl hz.1, ?_⟩
    apply Descs2R.resPre_of_zero ks hwf.2 _ _ hr
    rw [g1, hgk.origin, (Desc2R.foot k hwf.1).cursor]
    exact hz.2
end

/-- the top level: MATCHING-REQUEST-PARAMs allowed -/
theorem Descs2R.resPre_of_zero_top (trig : Option Bytes) : (ks : List Desc2R) → Descs2R.wfTop trig ks →
    ∀ (s : EncState) (d : DecState), RtHyp (Comps.pair (Descs2R.comps ks)).enc s d →
    Descs2R.resAll (fun a => getBit d.msg a = false) ks s.origin s.cursorByte → Descs2R.resPre ks d
  | [], _, _, _, _, _ => trivial
  | k :: ks, hwf, s, d, h, hz => by
    simp only [Descs2R.resAll] at hz
    have hgk := (Desc2R.okTop trig k hwf.1).good
    have hgs : Good (Comps.pair (Descs2R.comps ks)) := MComps.good _ (Descs2R.okAllTop trig ks hwf.2)
    have h' : RtHyp (fun t => (Comps.pair (Descs2R.comps ks)).enc (k.mc.c.pair.enc t)) s d := h
    have hl := h'.seq_left hgs hgk
    have hr := h'.seq_right hgs hgk
    obtain ⟨_, _, _, g1, _⟩ := hl.rt hgk
    refine ⟨?_, ?_⟩
    · cases k with
      | base b => trivial
      | reserved n bp bitp bl r => exact Desc2R.resPre_of_zero _ hwf.1 s d hl hz.1
      | nrcConst o values r => exact Desc2R.resPre_of_zero _ hwf.1 s d hl hz.1
      | u16le u cps bs => trivial
      | struct name bp bso kids => exact Desc2R.resPre_of_zero _ hwf.1 s d hl hz.1
    · apply Descs2R.resPre_of_zero_top trig ks hwf.2 _ _ hr
      rw [g1, hgk.origin, (Desc2R.footTop trig k hwf.1).cursor]
      exact hz.2

/-! ### the wire condition in layout coordinates (static form) -/

mutual
/-- **the wire condition stated statically**: every RESERVED / NRC-CONST node, at its LAYOUT coordinates (`org`, `c`) in `pdu`, lies
    inside `pdu` and reads as its `r` — no decoder state involved -/
def Desc2R.resWire (pdu : Bytes) : Desc2R → Nat → Nat → Prop
  | .base _, _, _ => True
  | .reserved n bp bitp bl r, org, c => (Desc2R.reserved n bp bitp bl r).resPre { msg := pdu, origin := org, cursorByte := c }
  | .nrcConst o values r, org, c => (Desc2R.nrcConst o values r).resPre { msg := pdu, origin := org, cursorByte := c }
  | .u16le _ _ _, _, _ => True
  | .struct _ bp _ kids, org, c => Descs2R.resWire pdu kids (posOf bp org c) (posOf bp org c)
def Descs2R.resWire (pdu : Bytes) : List Desc2R → Nat → Nat → Prop
  | [], _, _ => True
  | k :: ks, org, c => k.resWire pdu org c ∧ Descs2R.resWire pdu ks org (k.lay.cur org c)
end

/-- the hypotheses for the content of a STRUCTURE, at the structure's first byte -/
theorem Desc2R.struct_rtHyp (name : String) (bp bso : Option Nat) (kids : List Desc2R) (hwf : (Desc2R.struct name bp bso kids).wf)
    (s : EncState) (d : DecState) (h : RtHyp (Desc2R.struct name bp bso kids).mc.c.pair.enc s d) :
    RtHyp (Comps.pair (Descs2R.comps kids)).enc
      { s with cursorByte := posOf bp s.origin s.cursorByte, origin := posOf bp s.origin s.cursorByte }
      { d with cursorByte := posOf bp d.origin d.cursorByte, origin := posOf bp d.origin d.cursorByte } := by
  simp only [Desc2R.wf] at hwf
  have hpos : posOf bp d.origin d.cursorByte = posOf bp s.origin s.cursorByte := by rw [h.orig, h.cur]
  have hokAll := MComps.okAll_of_forall (fun _ => True) _ (Descs2R.okM kids hwf.1 (fun _ => True))
  cases bso with
  | none => exact ⟨h.all, h.warn, hpos, hpos, h.dall, h.len, h.agree⟩
  | some bs =>
    have hsize := (hwf.2.2.2 bs rfl).1
    have hdc := DComp.structM_okM (Descs2R.mcs kids) hokAll hwf.2.1 hwf.2.2.1
    have h' : RtHyp ((DComp.struct (Descs2R.comps kids)).pair.sized bs).enc
        { s with cursorByte := posOf bp s.origin s.cursorByte } { d with cursorByte := posOf bp d.origin d.cursorByte } :=
      ⟨h.all, h.warn, h.orig, hpos, h.dall, h.len, h.agree⟩
    have h2 := RtHyp.sized bs (fun t => by
      have : ((DComp.struct (Descs2R.comps kids)).pair.enc t).cursorByte =
          t.cursorByte + (DComp.struct (Descs2R.comps kids)).size := hdc.enc_cursor t
      have hs : (DComp.struct (Descs2R.comps kids)).size ≤ bs := hsize
      exact ⟨by omega, by omega⟩) h'
    exact ⟨h2.all, h2.warn, hpos, hpos, h2.dall, h2.len, h2.agree⟩

mutual
/-- **static wire condition ⇒ the wire condition at the decoder states** -/
theorem Desc2R.resPre_of_wire : (x : Desc2R) → x.wf → ∀ (s : EncState) (d : DecState), RtHyp x.mc.c.pair.enc s d →
    x.resWire d.msg s.origin s.cursorByte → x.resPre d
  | .base _, _, _, _, _, _ => trivial
  | .reserved n bp bitp bl r, _, s, d, h, hz => by
    simp only [Desc2R.resWire, Desc2R.resPre, decStep] at hz ⊢
    rw [h.orig, h.cur]
    exact hz
  | .nrcConst o values r, _, s, d, h, hz => by
    simp only [Desc2R.resWire, Desc2R.resPre, decStep, Obj.fitsIn] at hz ⊢
    rw [h.orig, h.cur]
    exact hz
  | .u16le _ _ _, _, _, _, _, _ => trivial
  | .struct name bp bso kids, hwf, s, d, h, hz => by
    have hk := Desc2R.struct_rtHyp name bp bso kids hwf s d h
    simp only [Desc2R.wf] at hwf
    simp only [Desc2R.resWire] at hz
    exact Descs2R.resPre_of_wire kids hwf.1 _ _ hk hz
theorem Descs2R.resPre_of_wire : (ks : List Desc2R) → Descs2R.wf ks → ∀ (s : EncState) (d : DecState),
    RtHyp (Comps.pair (Descs2R.comps ks)).enc s d →
    Descs2R.resWire d.msg ks s.origin s.cursorByte → Descs2R.resPre ks d
  | [], _, _, _, _, _ => trivial
  | k :: ks, hwf, s, d, h, hz => by
    simp only [Descs2R.wf] at hwf
    simp only [Descs2R.resWire] at hz
    have hgk := (Desc2R.okM k hwf.1 (fun _ => True)).good
    have hgs : Good (Comps.pair (Descs2R.comps ks)) :=
      MComps.good _ (MComps.okAll_of_forall (fun _ => True) _ (Descs2R.okM ks hwf.2 (fun _ => True)))
    have h' : RtHyp (fun t => (Comps.pair (Descs2R.comps ks)).enc (k.mc.c.pair.enc t)) s d := h
    have hl := h'.seq_left hgs hgk
    have hr := h'.seq_right hgs hgk
    obtain ⟨_, _, _, g1, _⟩ := hl.rt hgk
    refine ⟨Desc2R.resPre_of_wire k hwf.1 s d hl hz.1, ?_⟩
    apply Descs2R.resPre_of_wire ks hwf.2 _ _ hr
    rw [g1, hgk.origin, (Desc2R.foot k hwf.1).cursor]
    exact hz.2
end

theorem Descs2R.resPre_of_wire_top (trig : Option Bytes) : (ks : List Desc2R) → Descs2R.wfTop trig ks →
    ∀ (s : EncState) (d : DecState), RtHyp (Comps.pair (Descs2R.comps ks)).enc s d →
    Descs2R.resWire d.msg ks s.origin s.cursorByte → Descs2R.resPre ks d
  | [], _, _, _, _, _ => trivial
  | k :: ks, hwf, s, d, h, hz => by
    simp only [Descs2R.resWire] at hz
    have hgk := (Desc2R.okTop trig k hwf.1).good
    have hgs : Good (Comps.pair (Descs2R.comps ks)) := MComps.good _ (Descs2R.okAllTop trig ks hwf.2)
    have h' : RtHyp (fun t => (Comps.pair (Descs2R.comps ks)).enc (k.mc.c.pair.enc t)) s d := h
    have hl := h'.seq_left hgs hgk
    have hr := h'.seq_right hgs hgk
    obtain ⟨_, _, _, g1, _⟩ := hl.rt hgk
    refine ⟨?_, ?_⟩
    · cases k with
      | base b => trivial
      | reserved n bp bitp bl r => exact Desc2R.resPre_of_wire _ hwf.1 s d hl hz.1
      | nrcConst o values r => exact Desc2R.resPre_of_wire _ hwf.1 s d hl hz.1
      | u16le u cps bs => trivial
      | struct name bp bso kids => exact Desc2R.resPre_of_wire _ hwf.1 s d hl hz.1
    · apply Descs2R.resPre_of_wire_top trig ks hwf.2 _ _ hr
      rw [g1, hgk.origin, (Desc2R.footTop trig k hwf.1).cursor]
      exact hz.2

/-- **the wire condition from its static form**, for the PDU strict `encode` returns without overlap warning -/
theorem Descs2R.resPre_of_static (ds : List Desc2R) (trig : Option Bytes) (hok : Descs2R.ok trig ds) (pdu : Bytes)
    (henc : encodeMessage none (Descs2R.params ds) (.dict (Descs2R.supplied ds)) trig true = .ok (pdu, 0))
    (hw : Descs2R.resWire pdu ds 0 0) : Descs2R.resPre ds { msg := pdu } := by
  rw [descs2R_encodeMessage trig ds hok] at henc
  simp only [Except.ok.injEq, Prod.mk.injEq] at henc
  obtain ⟨hpdu, hwarn⟩ := henc
  subst hpdu
  apply Descs2R.resPre_of_wire_top trig ds hok.1 {} { msg := ((Comps.pair (Descs2R.comps ds)).enc {}).msg }
  · exact ⟨(fun b hb => by cases hb), hwarn, rfl, rfl, descs2R_pure_allBytes trig ds hok.1, Nat.le_refl _, fun _ _ => rfl⟩
  · exact hw

/-! ### the message level -/

/-- **the wire condition from the layout.**  For the PDU strict `encode` returns without overlap warning: if the description
    has no NRC-CONST node and no entry of the layout claims a bit of a RESERVED node (all of them with `r = 0`), then the wire
    condition `resPre` holds on that PDU — every RESERVED object lies inside the PDU and reads as 0 -/
theorem Descs2R.resPre_of_layout (ds : List Desc2R) (trig : Option Bytes) (hok : Descs2R.ok trig ds) (pdu : Bytes)
    (henc : encodeMessage none (Descs2R.params ds) (.dict (Descs2R.supplied ds)) trig true = .ok (pdu, 0))
    (hfree : Descs2R.resAll (fun a => ∀ e ∈ Descs2R.layout ds, ¬ e.claims a) ds 0 0) :
    Descs2R.resPre ds { msg := pdu } := by
  rw [descs2R_encodeMessage trig ds hok] at henc
  simp only [Except.ok.injEq, Prod.mk.injEq] at henc
  obtain ⟨hpdu, hwarn⟩ := henc
  subst hpdu
  apply Descs2R.resPre_of_zero_top trig ds hok.1 {} { msg := ((Comps.pair (Descs2R.comps ds)).enc {}).msg }
  · exact ⟨(fun b hb => by cases hb), hwarn, rfl, rfl, descs2R_pure_allBytes trig ds hok.1, Nat.le_refl _, fun _ _ => rfl⟩
  · exact Descs2R.resAll_mono (fun a ha => descs2R_pure_outside trig ds hok.1 a ha) ds 0 0 hfree

theorem Descs2R.resAll_of_resFree (ds : List Desc2R) (h : Descs2R.resFree ds = true) :
    Descs2R.resAll (fun a => ∀ e ∈ Descs2R.layout ds, ¬ e.claims a) ds 0 0 :=
  Descs2R.resAll_mono (fun a ha => unclaimed_of_B _ a ha) ds 0 0 (Descs2R.resAll_of_B _ ds 0 0 h)

end OdxVerif.Codec
