import OdxVerif.Proofs.CompRejectDescribed
import OdxVerif.Proofs.CompStaticTree
/-! Compositional tier, static answers (task W14, C08).
    * **Required parameters**: a described parameter can be omitted iff it is not reported required (`DescribedP.fill_none`),
      at every depth — omission inside a nested dictionary / a field item / the content of the selected multiplexer case
      propagates to the top (`PDescs.fill_none_of_mem`, `DDesc.fillItems_none_of_mem`, `DDesc.mux_fill_none_of_content`), and by
      `C04_nested_accepts_iff` "not accepted" is "strict encode fails".
    * **Static length**: fields and multiplexers have none (`paramsStaticLen_none_of_mem`); the descriptions that have one are
      the *static* ones (`StaticP`: leaves and structures of static descriptions — now with defaulted VALUE and PHYS-CONST
      leaves), whose accepted components encode exactly like a tier-2 `Tree` of the same shape, so `Trees.enc_lengthS`
      (`Proofs/StructStatic.lean`, copied as `Proofs/CompStaticTree.lean` with suffix `S`) applies under the same side condition `Trees.cursorOkS`. -/
namespace OdxVerif.Codec
open OdxVerif.Bits OdxVerif.OdxM

/-! ### required parameters -/

/-- **a described parameter can be omitted iff it is not required** (`Parameter.is_required`: VALUE without default) -/
theorem DescribedP.fill_none {p : PDesc} (h : DescribedP p) : (p.fill none).isSome = !p.param.kind.required := by
  cases h <;> rfl

theorem PDescs.fill_none_of_mem : (ps : List PDesc) → ∀ (kvs : List (String × PVal)) (p : PDesc), p ∈ ps →
    p.fill (lookupV p.name kvs) = none → PDescs.fill ps kvs = none
  | [], _, _, hp, _ => by cases hp
  | q :: qs, kvs, p, hp, h => by
    simp only [PDescs.fill]
    cases hp with
    | head => rw [h]
    | tail _ hm =>
      rw [PDescs.fill_none_of_mem qs kvs p hm h]
      cases q.fill (lookupV q.name kvs) <;> rfl

/-- a structure does not accept a dictionary one of its parameters does not accept -/
theorem DDesc.struct_fill_none_of_mem (ps : List PDesc) (kvs : List (String × PVal)) (p : PDesc) (hp : p ∈ ps)
    (h : p.fill (lookupV p.name kvs) = none) : (DDesc.struct ps).fill (.dict kvs) = none := by
  simp only [DDesc.struct, PDescs.fill_none_of_mem ps kvs p hp h]
  split <;> rfl

/-- a field does not accept a list one of whose items the item description does not accept -/
theorem DDesc.fillItems_none_of_mem (d : DDesc) (chk : DComp → Bool) : ∀ (xs : List PVal) (x : PVal), x ∈ xs → d.fill x = none →
    d.fillItems chk xs = none
  | [], _, hx, _ => by cases hx
  | y :: ys, x, hx, h => by
    simp only [DDesc.fillItems]
    cases hx with
    | head => rw [h]
    | tail _ hm =>
      rw [DDesc.fillItems_none_of_mem d chk ys x hm h]
      cases d.fill y with
      | none => rfl
      | some c => simp only []; split <;> rfl

/-- a multiplexer does not accept a value whose content the selected case does not accept -/
theorem DDesc.mux_fill_none_of_content (m : MuxDesc) (pv : PVal) (name : String) (key : Int) (d : DDesc) (v : PVal)
    (hs : m.sel pv = some (name, key, d, v)) (h : d.fill v = none) : (DDesc.mux m).fill pv = none := by
  simp only [DDesc.mux, hs, h]
  split <;> rfl

/-- omitted non-required parameters do not matter: a dictionary that agrees with an accepted one except that it omits some
    parameters that are not required is accepted -/
theorem PDescs.fill_omit : (ps : List PDesc) → (∀ p ∈ ps, DescribedP p) → ∀ (kvs kvs2 : List (String × PVal)),
    (∀ p ∈ ps, lookupV p.name kvs2 = lookupV p.name kvs ∨ (p.param.kind.required = false ∧ lookupV p.name kvs2 = none)) →
    (PDescs.fill ps kvs).isSome = true → (PDescs.fill ps kvs2).isSome = true
  | [], _, _, _, _, _ => rfl
  | p :: ps, hd, kvs, kvs2, hag, h => by
    simp only [PDescs.fill] at h ⊢
    cases h1 : p.fill (lookupV p.name kvs) with
    | none => rw [h1] at h; cases h
    | some g =>
      cases h2 : PDescs.fill ps kvs with
      | none => rw [h1, h2] at h; cases h
      | some gs =>
        have ih := PDescs.fill_omit ps (fun x hx => hd x (List.mem_cons_of_mem _ hx)) kvs kvs2
          (fun x hx => hag x (List.mem_cons_of_mem _ hx)) (by rw [h2]; rfl)
        have hp : (p.fill (lookupV p.name kvs2)).isSome = true := by
          rcases hag p (List.mem_cons_self ..) with he | ⟨hr, he⟩
          · rw [he, h1]; rfl
          · rw [he, (hd p (List.mem_cons_self ..)).fill_none, hr]; rfl
        cases h3 : p.fill (lookupV p.name kvs2) with
        | none => rw [h3] at hp; cases hp
        | some g2 =>
          cases h4 : PDescs.fill ps kvs2 with
          | none => rw [h4] at ih; cases ih
          | some gs2 => rfl

/-! ### fields and multiplexers have no static length -/

theorem paramsStaticLen_none_of_mem : ∀ (ps : List Param) (p : Param), p ∈ ps → p.kind.staticBitLen = none →
    ∀ (c m : Nat), paramsStaticLen ps c m = none
  | [], _, hp, _, _, _ => by cases hp
  | q :: qs, p, hp, h, c, m => by
    obtain ⟨n, bp, bitp, kind⟩ := q
    simp only [paramsStaticLen]
    cases hp with
    | head => simp only [Param.kind] at h; rw [h]
    | tail _ hm =>
      cases hk : kind.staticBitLen with
      | none => rfl
      | some bl => exact paramsStaticLen_none_of_mem qs p hm h _ _

/-! ### static descriptions -/

/-- the description `p` is static with the shape of the tier-2 parameter `t` (whose baked-in values are dummies) -/
structure PDesc.Static (p : PDesc) (t : Tree) : Prop where
  step : ∀ (rest : List Param) (c m : Nat), paramsStaticLen (p.param :: rest) c m =
    paramsStaticLen rest (t.bytePosS.getD c + t.slenS) (max m (t.bytePosS.getD c + t.slenS))
  acc : ∀ (pv : Option PVal) (g : Comp), p.fill pv = some g →
    ∃ t' : Tree, t'.okAll ∧ t'.bytePosS = t.bytePosS ∧ t'.rendS = t.rendS ∧ t'.slenS = t.slenS ∧ t'.cursorOkS = t.cursorOkS ∧
      ∀ s, g.pair.enc s = t'.pair.enc s

inductive StaticPs : List PDesc → List Tree → Prop
  | nil : StaticPs [] []
  | cons {p : PDesc} {t : Tree} {ps : List PDesc} {ts : List Tree} : p.Static t → StaticPs ps ts → StaticPs (p :: ps) (t :: ts)

theorem StaticPs.static_eq {ps : List PDesc} {ts : List Tree} (h : StaticPs ps ts) :
    ∀ (c m : Nat), paramsStaticLen (PDescs.toParams ps) c m = some (Trees.statS ts c m) := by
  induction h with
  | nil => intro c m; simp only [PDescs.toParams, List.map_nil, paramsStaticLen, Trees.statS]
  | cons h1 _ ih =>
    intro c m
    simp only [PDescs.toParams, List.map_cons, Trees.statS]
    rw [h1.step]
    exact ih _ _

/-- the accepted components of a static parameter list encode like a tier-2 parameter list of the same shape -/
theorem StaticPs.acc {ps : List PDesc} {ts : List Tree} (h : StaticPs ps ts) : ∀ (kvs : List (String × PVal)) (gs : List Comp),
    PDescs.fill ps kvs = some gs →
    ∃ ts' : List Tree, Trees.okAll ts' ∧ (∀ c, Trees.rcurS ts' c = Trees.rcurS ts c) ∧ (∀ c m, Trees.statS ts' c m = Trees.statS ts c m) ∧
      Trees.cursorOkS ts' = Trees.cursorOkS ts ∧ Trees.headImplicitS ts' = Trees.headImplicitS ts ∧ ts'.isEmpty = ts.isEmpty ∧
      ∀ s, (Comps.pair gs).enc s = (Trees.pair ts').enc s := by
  induction h with
  | nil =>
    intro kvs gs hf
    simp only [PDescs.fill, Option.some.injEq] at hf
    subst hf
    exact ⟨[], trivial, fun _ => rfl, fun _ _ => rfl, rfl, rfl, rfl, fun _ => rfl⟩
  | @cons p t ps ts h1 _ ih =>
    intro kvs gs hf
    simp only [PDescs.fill] at hf
    cases hg : p.fill (lookupV p.name kvs) with
    | none => rw [hg] at hf; cases hf
    | some g =>
      cases hgs : PDescs.fill ps kvs with
      | none => rw [hg, hgs] at hf; cases hf
      | some gs0 =>
        rw [hg, hgs] at hf
        simp only [Option.some.injEq] at hf
        subst hf
        obtain ⟨t', a0, a1, a2, a3, a4, a5⟩ := h1.acc _ g hg
        obtain ⟨ts', b0, b1, b2, b3, b4, _, b6⟩ := ih kvs gs0 hgs
        refine ⟨t' :: ts', ⟨a0, b0⟩, ?_, ?_, ?_, ?_, rfl, ?_⟩
        · intro c; simp only [Trees.rcurS, a1, a2, b1]
        · intro c m; simp only [Trees.statS, a1, a3, b2]
        · simp only [Trees.cursorOkS, a2, a3, a4, b3, b4]
        · simp only [Trees.headImplicitS, a1]
        · intro s
          show (Comps.pair gs0).enc (g.pair.enc s) = (Trees.pair ts').enc (t'.pair.enc s)
          rw [a5, b6]

theorem PDesc.ofObjValue_static (o : Obj) (typed : Option PVal → Bool) (ho : o.ok) (d : IVal) :
    (PDesc.ofObjValue o typed).Static (.int o d) where
  step := Tree.static_stepS (.int o d)
  acc := by
    intro pv g hf
    cases pv with
    | none => simp [PDesc.ofObjValue] at hf
    | some x =>
      cases x with
      | atom v =>
        simp only [PDesc.ofObjValue] at hf
        cases hacc : o.accepts v with
        | false => rw [hacc] at hf; simp at hf
        | true =>
          rw [hacc] at hf
          simp only [if_true, Option.some.injEq] at hf
          subst hf
          exact ⟨.int o v, ⟨ho, (o.accepts_iff ho v).mp hacc⟩, rfl, rfl, rfl, rfl, fun _ => rfl⟩
      | _ => simp [PDesc.ofObjValue] at hf

theorem PDesc.ofObjDefault_static (o : Obj) (dv : IVal) (typed : Option PVal → Bool) (ho : o.ok) (hdv : o.inRange dv) :
    (PDesc.ofObjDefault o dv typed).Static (.int o dv) where
  step := by
    intro rest c m
    simp only [PDesc.ofObjDefault, paramsStaticLen, PKind.staticBitLen, Dop.staticBitLen, Dct.staticBitLen,
      Tree.bytePosS, Tree.slenS, obj_k_commS]
    cases o.bytePos <;> rfl
  acc := by
    intro pv g hf
    cases pv with
    | none =>
      simp only [PDesc.ofObjDefault, Option.some.injEq] at hf
      subst hf
      exact ⟨.int o dv, ⟨ho, hdv⟩, rfl, rfl, rfl, rfl, fun _ => rfl⟩
    | some x =>
      cases x with
      | atom v =>
        simp only [PDesc.ofObjDefault] at hf
        cases hacc : o.accepts v with
        | false => rw [hacc] at hf; simp at hf
        | true =>
          rw [hacc] at hf
          simp only [if_true, Option.some.injEq] at hf
          subst hf
          exact ⟨.int o v, ⟨ho, (o.accepts_iff ho v).mp hacc⟩, rfl, rfl, rfl, rfl, fun _ => rfl⟩
      | _ => simp [PDesc.ofObjDefault] at hf

theorem PDesc.ofObjConst_static (o : Obj) (c : IVal) (ho : o.ok) (hc : o.inRange c) :
    (PDesc.ofObjConst o c).Static (.const o c) where
  step := Tree.static_stepS (.const o c)
  acc := by
    intro pv g hf
    have hg : ∃ b, g = Comp.ofObjConst o c b := by
      cases pv with
      | none => simp only [PDesc.ofObjConst, Option.some.injEq] at hf; exact ⟨false, hf.symm⟩
      | some x =>
        cases x with
        | atom v =>
          simp only [PDesc.ofObjConst] at hf
          by_cases hv : v = c
          · simp only [hv, if_true, Option.some.injEq] at hf; exact ⟨true, hf.symm⟩
          · simp [hv] at hf
        | _ => simp [PDesc.ofObjConst] at hf
    obtain ⟨b, rfl⟩ := hg
    exact ⟨.const o c, ⟨ho, hc⟩, rfl, rfl, rfl, rfl, fun _ => rfl⟩

theorem PDesc.ofObjPhysConst_static (o : Obj) (c : IVal) (ho : o.ok) (hc : o.inRange c) :
    (PDesc.ofObjPhysConst o c).Static (.const o c) where
  step := by
    intro rest cu m
    simp only [PDesc.ofObjPhysConst, paramsStaticLen, PKind.staticBitLen, Dop.staticBitLen, Dct.staticBitLen,
      Tree.bytePosS, Tree.slenS, obj_k_commS]
    cases o.bytePos <;> rfl
  acc := by
    intro pv g hf
    have hg : ∃ b, g = Comp.ofObjPhysConst o c b := by
      cases pv with
      | none => simp only [PDesc.ofObjPhysConst, Option.some.injEq] at hf; exact ⟨false, hf.symm⟩
      | some p =>
        simp only [PDesc.ofObjPhysConst] at hf
        cases hv : pvalEq p (.atom c) with
        | false => rw [hv] at hf; simp at hf
        | true => rw [hv] at hf; simp only [if_true, Option.some.injEq] at hf; exact ⟨true, hf.symm⟩
    obtain ⟨b, rfl⟩ := hg
    exact ⟨.const o c, ⟨ho, hc⟩, rfl, rfl, rfl, rfl, fun _ => rfl⟩

theorem DDesc.struct_fill_inv (ps : List PDesc) (pv : PVal) (c : DComp) (hf : (DDesc.struct ps).fill pv = some c) :
    ∃ kvs gs, pv = .dict kvs ∧ PDescs.unknown ps kvs = false ∧ PDescs.fill ps kvs = some gs ∧ c = DComp.structOf gs kvs := by
  cases pv with
  | dict kvs =>
    simp only [DDesc.struct] at hf
    cases hu : PDescs.unknown ps kvs with
    | true => rw [hu] at hf; simp at hf
    | false =>
      rw [hu] at hf
      cases hg : PDescs.fill ps kvs with
      | none => rw [hg] at hf; simp at hf
      | some gs =>
        rw [hg] at hf
        exact ⟨kvs, gs, rfl, hu, hg, by simpa using hf.symm⟩
  | _ => simp [DDesc.struct] at hf

/-- **closure**: a VALUE parameter typed by a STRUCTURE of static descriptions is static -/
theorem PDesc.struct_static (name : String) (bp : Option Nat) (ps : List PDesc) (ts : List Tree) (h : StaticPs ps ts) :
    (PDesc.ofValue name bp (DDesc.struct ps)).Static (.struct name bp ts) where
  step := by
    intro rest c m
    have hs := h.static_eq 0 0
    have e : (0 + 8 * Trees.statS ts 0 0 + 7) / 8 = Trees.statS ts 0 0 := by omega
    simp only [PDesc.ofValue, DDesc.struct, paramsStaticLen, PKind.staticBitLen, Dop.staticBitLen, hs, Option.map_some,
      Option.getD_none, e, Tree.bytePosS, Tree.slenS]
    cases bp <;> rfl
  acc := by
    intro pv g hf
    cases pv with
    | none => simp [PDesc.ofValue] at hf
    | some v =>
      simp only [PDesc.ofValue] at hf
      cases hc : (DDesc.struct ps).fill v with
      | none => rw [hc] at hf; cases hf
      | some c =>
        rw [hc] at hf
        simp only [Option.map_some, Option.some.injEq] at hf
        subst hf
        obtain ⟨kvs, gs, _, _, hgs, rfl⟩ := DDesc.struct_fill_inv ps v c hc
        obtain ⟨ts', b0, b1, b2, b3, _, b5, b6⟩ := h.acc kvs gs hgs
        refine ⟨.struct name bp ts', b0, rfl, ?_, ?_, ?_, ?_⟩
        · simp only [Tree.rendS, b1]
        · simp only [Tree.slenS, b2]
        · simp only [Tree.cursorOkS, b3, b5]
        · intro s
          show ({ (Comps.pair gs).enc { s with cursorByte := posOf bp s.origin s.cursorByte,
                                                origin := posOf bp s.origin s.cursorByte } with
                  origin := s.origin } : EncState) =
               { (Trees.pair ts').enc { s with cursorByte := posOf bp s.origin s.cursorByte,
                                                origin := posOf bp s.origin s.cursorByte } with
                  origin := s.origin }
          rw [b6]

/-- **the static described descriptions**: leaves and structures of static descriptions, with their tier-2 shape -/
inductive StaticP : PDesc → Tree → Prop
  | value (o : Obj) (d : IVal) : o.ok → o.isInt → StaticP (PDesc.ofObjValue o (fun _ => true)) (.int o d)
  | valueDefault (o : Obj) (dv : IVal) : o.ok → o.isInt → o.inRange dv → StaticP (PDesc.ofObjDefault o dv (fun _ => true)) (.int o dv)
  | const (o : Obj) (c : IVal) : o.ok → o.inRange c → StaticP (PDesc.ofObjConst o c) (.const o c)
  | physConst (o : Obj) (c : IVal) : o.ok → o.inRange c → StaticP (PDesc.ofObjPhysConst o c) (.const o c)
  | struct (name : String) (bp : Option Nat) (ps : List PDesc) (ts : List Tree) :
      ps.length = ts.length → (∀ (i : Nat) (h1 : i < ps.length) (h2 : i < ts.length), StaticP ps[i] ts[i]) → PDescs.namesOk ps →
      StaticP (PDesc.ofValue name bp (DDesc.struct ps)) (.struct name bp ts)

theorem PDescs.eopLast_of_all_false : (ps : List PDesc) → (∀ p ∈ ps, p.mayEop = false) → PDescs.eopLast ps
  | [], _ => trivial
  | [_], _ => trivial
  | p :: q :: rest, h =>
    ⟨h p (List.mem_cons_self ..), PDescs.eopLast_of_all_false (q :: rest) (fun x hx => h x (List.mem_cons_of_mem _ hx))⟩

theorem StaticPs.of_pointwise : ∀ (ps : List PDesc) (ts : List Tree), ps.length = ts.length →
    (∀ (i : Nat) (h1 : i < ps.length) (h2 : i < ts.length), DescribedP ps[i] ∧ ps[i].mayEop = false ∧ ps[i].Static ts[i]) →
    (∀ p ∈ ps, DescribedP p ∧ p.mayEop = false) ∧ StaticPs ps ts
  | [], [], _, _ => And.intro (fun _ hp => nomatch hp) StaticPs.nil
  | [], _ :: _, hl, _ => by cases hl
  | _ :: _, [], hl, _ => by cases hl
  | p :: ps, t :: ts, hl, h => by
    have h0 := h 0 (Nat.zero_lt_succ _) (Nat.zero_lt_succ _)
    have ih := StaticPs.of_pointwise ps ts (by simpa using hl)
      (fun i h1 h2 => h (i + 1) (Nat.succ_lt_succ h1) (Nat.succ_lt_succ h2))
    refine ⟨?_, .cons h0.2.2 ih.2⟩
    intro x hx
    cases hx with
    | head => exact ⟨h0.1, h0.2.1⟩
    | tail _ hm => exact ih.1 x hm

/-- a static description is a described description without END-OF-PDU-FIELD, and static with the shape of its tree -/
theorem StaticP.sound {p : PDesc} {t : Tree} (h : StaticP p t) : DescribedP p ∧ p.mayEop = false ∧ p.Static t := by
  induction h with
  | value o d ho hint => exact ⟨.value o ho hint, rfl, PDesc.ofObjValue_static o _ ho d⟩
  | valueDefault o dv ho hint hdv => exact ⟨.valueDefault o dv ho hint hdv, rfl, PDesc.ofObjDefault_static o dv _ ho hdv⟩
  | const o c ho hc => exact ⟨.const o c ho hc, rfl, PDesc.ofObjConst_static o c ho hc⟩
  | physConst o c ho hc => exact ⟨.physConst o c ho hc, rfl, PDesc.ofObjPhysConst_static o c ho hc⟩
  | struct name bp ps ts hlen _ hn ih =>
    have hlist := StaticPs.of_pointwise ps ts hlen ih
    have hno : ∀ p ∈ ps, p.mayEop = false := fun p hp => (hlist.1 p hp).2
    have hany : PDescs.anyEop ps = false := by
      simp only [PDescs.anyEop, List.any_eq_false]
      intro x hx
      simp [hno x hx]
    exact ⟨.struct name bp ps (fun p hp => (hlist.1 p hp).1) hn (PDescs.eopLast_of_all_false ps hno), hany,
      PDesc.struct_static name bp ps ts hlist.2⟩

/-- **static length = 8 × the length of every accepted encoding**, for a list of static described parameters whose shape
    satisfies `Trees.cursorOkS` -/
theorem static_length_nested (ps : List PDesc) (ts : List Tree) (hlen : ps.length = ts.length)
    (hs : ∀ (i : Nat) (h1 : i < ps.length) (h2 : i < ts.length), StaticP ps[i] ts[i]) (hn : PDescs.namesOk ps)
    (hc : Trees.cursorOkS ts = true) (pv : PVal) (trig : Option Bytes) (hneed : (DDesc.struct ps).need pv ≤ modelFuel)
    (pdu : Bytes) (w : Nat) (henc : encodeMessage none (PDescs.toParams ps) pv trig true = .ok (pdu, w)) :
    (Dop.struct none (PDescs.toParams ps)).staticBitLen = some (8 * pdu.length) := by
  have hlist := StaticPs.of_pointwise ps ts hlen (fun i h1 h2 => (hs i h1 h2).sound)
  have hok : ∀ p ∈ ps, p.Ok := fun p hp => (hlist.1 p hp).1.ok
  have hl : PDescs.eopLast ps := PDescs.eopLast_of_all_false ps (fun p hp => (hlist.1 p hp).2)
  have hS := DDesc.struct_ok ps hok hn hl
  cases hf : (DDesc.struct ps).fill pv with
  | none =>
    obtain ⟨e, s', hrun, _⟩ := hS.rej pv hf modelFuel hneed { trig := trig, isEndOfPdu := true } rfl (fun _ => rfl)
    have hrun' : encodeDop modelFuel (.struct none (PDescs.toParams ps)) pv { trig := trig, isEndOfPdu := true } true
        = .error (e, s') := hrun
    unfold encodeMessage at henc
    rw [hrun'] at henc
    cases henc
  | some c =>
    have hcf := hS.acc pv c hf
    obtain ⟨kvs, gs, _, _, hgs, rfl⟩ := DDesc.struct_fill_inv ps pv c hf
    let s0 : EncState := { trig := trig, isEndOfPdu := true }
    obtain ⟨s1, hrun, hcore, _⟩ := hcf.ok.encode_eq modelFuel (Nat.le_trans hcf.need hneed) s0 rfl (fun _ => rfl)
    rw [hcf.dop, hcf.sup] at hrun
    have hrun' : encodeDop modelFuel (.struct none (PDescs.toParams ps)) pv { trig := trig, isEndOfPdu := true } true
        = .ok ((), s1) := hrun
    unfold encodeMessage at henc
    rw [hrun'] at henc
    simp only [Except.ok.injEq, Prod.mk.injEq] at henc
    obtain ⟨ts', b0, _, b2, b3, _, _, b6⟩ := hlist.2.acc kvs gs hgs
    have hmsg : s1.msg = ((Trees.pair ts').enc s0).msg := by
      rw [hcore.1]
      show ((Comps.pair gs).enc { s0 with origin := s0.cursorByte }).msg = _
      rw [b6]
    have hst := static_length_treeS ts' b0 (by rw [b3]; exact hc) s0 rfl rfl rfl
    simp only [Dop.staticBitLen, Trees.static_eqS, Option.map_some, Option.some.injEq] at hst
    simp only [Dop.staticBitLen, hlist.2.static_eq, Option.map_some]
    rw [← henc.1, hmsg, ← b2, hst]

end OdxVerif.Codec
