import OdxVerif.Proofs.ComposeMsg
/-! C05, struct tier: a message that ends before some leaf of the description is rejected with `DecodeError`. -/
namespace OdxVerif.Codec
open OdxVerif.Bits OdxVerif.OdxM

/-- a leaf whose bytes do not all lie inside the message: `DecodeError "Expected a longer message."` -/
theorem decodeParam_obj_short (o : Obj) (ho : o.ok) (fuel : Nat) (d : DecState)
    (hshort : ¬ (o.pos d.origin d.cursorByte + o.k ≤ d.msg.length)) :
    ∃ d', decodeParam (fuel + 2) o.toParam d true = .error (.decode, d') := by
  obtain ⟨hk, hbl, hsz⟩ := ho
  have hb0 : o.bl ≠ 0 := by omega
  unfold Obj.sizeOk at hsz
  unfold Obj.pos Obj.k Obj.bp at hshort
  cases hkind : o.kind <;> simp only [hkind] at hsz
  all_goals
    cases hb : o.bytePos <;> simp only [hb] at hshort
    all_goals
      have hnl : (d.msg.length < _ + (o.bl + o.bitPos.getD 0 + 7) / 8) := Nat.lt_of_not_le hshort
      have hnl' := hnl
      try rw [hsz] at hnl'
      simp [Obj.toParam, Obj.bt, hkind, decodeParam, decodeDop, decodeDct, extractAtomic, extractCore,
        bind, pure, run_bind, run_pure, run_getS, run_modifyS, run_ite, run_raise, BaseType.isNumeric, hb0, hnl, hnl', hb, hsz]

theorem decodeParam_const_obj_short (o : Obj) (ho : o.ok) (v : IVal) (fuel : Nat) (d : DecState)
    (hshort : ¬ (o.pos d.origin d.cursorByte + o.k ≤ d.msg.length)) :
    ∃ d', decodeParam (fuel + 1) (o.toConstParam v) d true = .error (.decode, d') := by
  obtain ⟨hk, hbl, hsz⟩ := ho
  have hb0 : o.bl ≠ 0 := by omega
  unfold Obj.sizeOk at hsz
  unfold Obj.pos Obj.k Obj.bp at hshort
  cases hkind : o.kind <;> simp only [hkind] at hsz
  all_goals
    cases hb : o.bytePos <;> simp only [hb] at hshort
    all_goals
      have hnl : (d.msg.length < _ + (o.bl + o.bitPos.getD 0 + 7) / 8) := Nat.lt_of_not_le hshort
      have hnl' := hnl
      try rw [hsz] at hnl'
      simp [Obj.toConstParam, Obj.bt, hkind, decodeParam, decodeDct, extractAtomic, extractCore,
        bind, pure, run_bind, run_pure, run_getS, run_modifyS, run_ite, run_raise, BaseType.isNumeric, hb0, hnl, hnl', hb, hsz]

mutual
/-- a parameter some leaf of which lies (partly) behind the end of the message is rejected with `DecodeError` -/
theorem Tree.decode_short : (t : Tree) → t.okAll → ∀ (fuel : Nat), t.need ≤ fuel → ∀ (d : DecState), d.cursorBit = 0 →
    ¬ t.pair.fits d → ∃ d', decodeParam fuel t.toParam d true = .error (.decode, d')
  | .int o v, hok, fuel, hf, d, _, hshort => by
    simp only [Tree.okAll] at hok
    simp only [Tree.need] at hf
    obtain ⟨f, rfl⟩ : ∃ f, fuel = f + 2 := ⟨fuel - 2, by omega⟩
    exact decodeParam_obj_short o hok.1 f d hshort
  | .const o v, hok, fuel, hf, d, _, hshort => by
    simp only [Tree.okAll] at hok
    simp only [Tree.need] at hf
    obtain ⟨f, rfl⟩ : ∃ f, fuel = f + 1 := ⟨fuel - 1, by omega⟩
    exact decodeParam_const_obj_short o hok.1 v f d hshort
  | .struct n bp kids, hok, fuel, hf, d, hcb, hshort => by
    simp only [Tree.okAll] at hok
    simp only [Tree.need] at hf
    obtain ⟨f, rfl⟩ : ∃ f, fuel = f + 1 + 1 + 1 := ⟨fuel - 3, by omega⟩
    have hf' : Trees.need kids ≤ f := by omega
    have hshort' : ¬ (Trees.pair kids).fits
        { d with cursorByte := posOf bp d.origin d.cursorByte, origin := posOf bp d.origin d.cursorByte } := hshort
    obtain ⟨d', hrun⟩ := Trees.decode_short kids hok f hf'
      { d with cursorByte := posOf bp d.origin d.cursorByte, origin := posOf bp d.origin d.cursorByte } hcb hshort'
    cases bp <;>
    · simp only [posOf] at hrun
      simp only [Tree.toParam, decodeParam, decodeDop, decodeComposite, bind, pure, run_bind, run_getS, run_modifyS,
        run_pure, Option.getD_none]
      simp only [hcb] at hrun ⊢
      rw [hrun]
      exact ⟨_, rfl⟩
theorem Trees.decode_short : (ts : List Tree) → Trees.okAll ts → ∀ (fuel : Nat), Trees.need ts ≤ fuel → ∀ (d : DecState),
    d.cursorBit = 0 → ¬ (Trees.pair ts).fits d → ∃ d', decodeParams fuel (Trees.toParams ts) d true = .error (.decode, d')
  | [], _, fuel, hf, d, _, hshort => absurd trivial hshort
  | t :: ts, hok, fuel, hf, d, hcb, hshort => by
    simp only [Trees.okAll] at hok
    simp only [Trees.need] at hf
    obtain ⟨f, rfl⟩ : ∃ f, fuel = f + 1 := ⟨fuel - 1, by omega⟩
    by_cases h1 : t.pair.fits d
    · -- the first parameter decodes; the short one comes later
      have hd := Tree.decode_eq t hok.1 f (by omega) d hcb h1
      have hshort' : ¬ (Trees.pair ts).fits (t.pair.dec d).2 := fun h => hshort ⟨h1, h⟩
      obtain ⟨d', hrun⟩ := Trees.decode_short ts hok.2 f (by omega) (t.pair.dec d).2 (Tree.dec_cursorBit t d hcb) hshort'
      refine ⟨d', ?_⟩
      simp only [Trees.toParams, decodeParams, bind, run_bind, hd, hrun]
    · obtain ⟨d', hrun⟩ := Tree.decode_short t hok.1 f (by omega) d hcb h1
      refine ⟨d', ?_⟩
      simp only [Trees.toParams, decodeParams, bind, run_bind, hrun]
end

/-- **C05, struct tier.** A message that ends before (or inside) some leaf of a nested description is rejected by
    `Request.decode` with the library's `DecodeError` — it is never completed with invented values. -/
theorem decodeMessage_tree_short (ts : List Tree) (hneed : Trees.need ts + 2 ≤ modelFuel) (hok : Trees.okAll ts) (msg : Bytes)
    (hshort : ¬ (Trees.pair ts).fits { msg := msg }) :
    decodeMessage none (Trees.toParams ts) msg true = .error .decode := by
  obtain ⟨f, hf⟩ : ∃ f, modelFuel = f + 1 + 1 := ⟨modelFuel - 2, by unfold modelFuel; omega⟩
  have hf' : Trees.need ts ≤ f := by omega
  obtain ⟨d', hdec⟩ := Trees.decode_short ts hok f hf' { msg := msg } rfl hshort
  have hdec' : decodeParams f (Trees.toParams ts) { msg := msg, origin := 0, cursorByte := 0 } true = _ := hdec
  unfold decodeMessage
  rw [hf]
  simp only [decodeDop, decodeComposite, bind, pure, run_bind, run_getS, run_modifyS, run_pure]
  rw [hdec']

end OdxVerif.Codec
