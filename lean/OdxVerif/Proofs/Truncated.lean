import OdxVerif.Proofs.ComposeMsg
/-! C05, struct tier: a message that ends before some leaf of the description is rejected with `DecodeError`. -/
namespace OdxVerif.Codec
open OdxVerif.Bits OdxVerif.OdxM

/-- a leaf whose bytes do not all lie inside the message: `DecodeError "Expected a longer message."` -/
theorem decodeParam_obj_short (o : Obj) (ho : o.ok) (fuel : Nat) (d : DecState)
    (hshort : ¬ (o.pos d.origin d.cursorByte + o.k ≤ d.msg.length)) :
    ∃ d', decodeParam (fuel + 2) o.toParam d true = .error (.decode, d') := by
  obtain ⟨hk, hbl, hsz⟩ := ho
  have hb0 : o.bl ≠ 0 := by omega
  unfold Obj.sizeOk at hsz
  unfold Obj.pos Obj.k Obj.bp at hshort
  cases hkind : o.kind <;> simp only [hkind] at hsz
  all_goals
    cases hb : o.bytePos <;> simp only [hb] at hshort
    all_goals
      have hnl : (d.msg.length < _ + (o.bl + o.bitPos.getD 0 + 7) / 8) := Nat.lt_of_not_le hshort
      have hnl' := hnl
      try rw [hsz] at hnl'
      simp [Obj.toParam, Obj.bt, hkind, decodeParam, decodeDop, decodeDct, extractAtomic, extractCore,
        bind, pure, run_bind, run_pure, run_getS, run_modifyS, run_ite, run_raise, BaseType.isNumeric, hb0, hnl, hnl', hb, hsz]

theorem decodeParam_const_obj_short (o : Obj) (ho : o.ok) (v : IVal) (fuel : Nat) (d : DecState)
    (hshort : ¬ (o.pos d.origin d.cursorByte + o.k ≤ d.msg.length)) :
    ∃ d', decodeParam (fuel + 1) (o.toConstParam v) d true = .error (.decode, d') := by
  obtain ⟨hk, hbl, hsz⟩ := ho
  have hb0 : o.bl ≠ 0 := by omega
  unfold Obj.sizeOk at hsz
  unfold Obj.pos Obj.k Obj.bp at hshort
  cases hkind : o.kind <;> simp only [hkind] at hsz
  all_goals
    cases hb : o.bytePos <;> simp only [hb] at hshort
    all_goals
      have hnl : (d.msg.length < _ + (o.bl + o.bitPos.getD 0 + 7) / 8) := Nat.lt_of_not_le hshort
      have hnl' := hnl
      try rw [hsz] at hnl'
      simp [Obj.toConstParam, Obj.bt, hkind, decodeParam, decodeDct, extractAtomic, extractCore,
        bind, pure, run_bind, run_pure, run_getS, run_modifyS, run_ite, run_raise, BaseType.isNumeric, hb0, hnl, hnl', hb, hsz]

/-- a leaf whose bytes are there but do not decode (ill-formed UTF-8; a binary32 NaN / subnormal pattern): the decoder
    raises — `DecodeError` for text, while the float32 patterns are outside the model (`unmodelled`) -/
theorem decodeParam_obj_undecodable (o : Obj) (ho : o.ok) (fuel : Nat) (d : DecState)
    (hlen : o.pos d.origin d.cursorByte + o.k ≤ d.msg.length)
    (hdec : ¬ o.decodes (readNum d.msg (o.pos d.origin d.cursorByte) o.k o.hl / 2 ^ o.bp % 2 ^ o.bl)) :
    ∃ e d', decodeParam (fuel + 2) o.toParam d true = .error (e, d') ∧ (o.kind ≠ .float32 → e = .decode) := by
  obtain ⟨hk, hbl, hsz⟩ := ho
  have hb0 : o.bl ≠ 0 := by omega
  unfold Obj.encOk at hk
  unfold Obj.sizeOk at hsz
  unfold Obj.pos Obj.k Obj.bp at hlen
  unfold Obj.decodes Obj.pos Obj.k Obj.bp at hdec
  cases hkind : o.kind <;> simp only [hkind, not_true_eq_false] at hk hsz hdec
  · cases hb : o.bytePos <;> simp only [hb, hsz] at hlen hdec
    all_goals
      have hnl : ¬ (d.msg.length < _ + (32 + o.bitPos.getD 0 + 7) / 8) := Nat.not_lt.mpr hlen
      have hnone := Option.not_isSome_iff_eq_none.mp hdec
      generalize hx : decodeParam (fuel + 2) o.toParam d true = x
      rcases hk with he | he
      all_goals
        simp [Obj.toParam, Obj.bt, hkind, decodeParam, decodeDop, decodeDct, extractAtomic, extractCore, convertRaw,
          bind, pure, run_bind, run_pure, run_getS, run_modifyS, run_ite, run_raise, BaseType.isNumeric, odxassert, hsz, hnl,
          he, hb, hnone] at hx
        subst hx
        exact ⟨_, _, rfl, fun h => absurd rfl h⟩
  · obtain ⟨hm8, hhl⟩ := hsz
    have e2 : (8 - o.bl % 8) % 8 = 0 := by omega
    rw [e2, Nat.pow_zero, Nat.mul_one, hhl] at hdec
    cases hb : o.bytePos <;> simp only [hb] at hlen hdec
    all_goals
      have hnl : ¬ (d.msg.length < _ + (o.bl + o.bitPos.getD 0 + 7) / 8) := Nat.not_lt.mpr hlen
      have hnone := Option.not_isSome_iff_eq_none.mp hdec
      generalize hx : decodeParam (fuel + 2) o.toParam d true = x
      rcases hk with he | he
      all_goals
        simp [Obj.toParam, Obj.bt, hkind, decodeParam, decodeDop, decodeDct, extractAtomic, extractCore, convertRaw,
          stringCodec, bind, pure, run_bind, run_pure, run_getS, run_modifyS, run_ite, run_raise, run_odxraise_strict,
          BaseType.isNumeric, odxassert, hb0, hnl, he, hb, hm8, hhl, hnone] at hx
        subst hx
        exact ⟨_, _, rfl, fun _ => rfl⟩
  · obtain ⟨hm8, hhl⟩ := hsz
    have e2 : (8 - o.bl % 8) % 8 = 0 := by omega
    rw [e2, Nat.pow_zero, Nat.mul_one, hhl] at hdec
    cases hb : o.bytePos <;> simp only [hb] at hlen hdec
    all_goals
      have hnl : ¬ (d.msg.length < _ + (o.bl + o.bitPos.getD 0 + 7) / 8) := Nat.not_lt.mpr hlen
      have hnone := Option.not_isSome_iff_eq_none.mp hdec
      generalize hx : decodeParam (fuel + 2) o.toParam d true = x
      rcases hk with he | he
      all_goals
        simp [Obj.toParam, Obj.bt, hkind, decodeParam, decodeDop, decodeDct, extractAtomic, extractCore, convertRaw,
          stringCodec, bind, pure, run_bind, run_pure, run_getS, run_modifyS, run_ite, run_raise, run_odxraise_strict,
          BaseType.isNumeric, odxassert, hb0, hnl, he, hb, hm8, hhl, hnone] at hx
        subst hx
        exact ⟨_, _, rfl, fun _ => rfl⟩

theorem decodeParam_const_obj_undecodable (o : Obj) (ho : o.ok) (v : IVal) (fuel : Nat) (d : DecState)
    (hlen : o.pos d.origin d.cursorByte + o.k ≤ d.msg.length)
    (hdec : ¬ o.decodes (readNum d.msg (o.pos d.origin d.cursorByte) o.k o.hl / 2 ^ o.bp % 2 ^ o.bl)) :
    ∃ e d', decodeParam (fuel + 1) (o.toConstParam v) d true = .error (e, d') ∧ (o.kind ≠ .float32 → e = .decode) := by
  obtain ⟨hk, hbl, hsz⟩ := ho
  have hb0 : o.bl ≠ 0 := by omega
  unfold Obj.encOk at hk
  unfold Obj.sizeOk at hsz
  unfold Obj.pos Obj.k Obj.bp at hlen
  unfold Obj.decodes Obj.pos Obj.k Obj.bp at hdec
  cases hkind : o.kind <;> simp only [hkind, not_true_eq_false] at hk hsz hdec
  · cases hb : o.bytePos <;> simp only [hb, hsz] at hlen hdec
    all_goals
      have hnl : ¬ (d.msg.length < _ + (32 + o.bitPos.getD 0 + 7) / 8) := Nat.not_lt.mpr hlen
      have hnone := Option.not_isSome_iff_eq_none.mp hdec
      generalize hx : decodeParam (fuel + 1) (o.toConstParam v) d true = x
      rcases hk with he | he
      all_goals
        simp [Obj.toConstParam, Obj.bt, hkind, decodeParam, decodeDct, extractAtomic, extractCore, convertRaw,
          bind, pure, run_bind, run_pure, run_getS, run_modifyS, run_ite, run_raise, BaseType.isNumeric, odxassert, hsz, hnl,
          he, hb, hnone] at hx
        subst hx
        exact ⟨_, _, rfl, fun h => absurd rfl h⟩
  · obtain ⟨hm8, hhl⟩ := hsz
    have e2 : (8 - o.bl % 8) % 8 = 0 := by omega
    rw [e2, Nat.pow_zero, Nat.mul_one, hhl] at hdec
    cases hb : o.bytePos <;> simp only [hb] at hlen hdec
    all_goals
      have hnl : ¬ (d.msg.length < _ + (o.bl + o.bitPos.getD 0 + 7) / 8) := Nat.not_lt.mpr hlen
      have hnone := Option.not_isSome_iff_eq_none.mp hdec
      generalize hx : decodeParam (fuel + 1) (o.toConstParam v) d true = x
      rcases hk with he | he
      all_goals
        simp [Obj.toConstParam, Obj.bt, hkind, decodeParam, decodeDct, extractAtomic, extractCore, convertRaw,
          stringCodec, bind, pure, run_bind, run_pure, run_getS, run_modifyS, run_ite, run_raise, run_odxraise_strict,
          BaseType.isNumeric, odxassert, hb0, hnl, he, hb, hm8, hhl, hnone] at hx
        subst hx
        exact ⟨_, _, rfl, fun _ => rfl⟩
  · obtain ⟨hm8, hhl⟩ := hsz
    have e2 : (8 - o.bl % 8) % 8 = 0 := by omega
    rw [e2, Nat.pow_zero, Nat.mul_one, hhl] at hdec
    cases hb : o.bytePos <;> simp only [hb] at hlen hdec
    all_goals
      have hnl : ¬ (d.msg.length < _ + (o.bl + o.bitPos.getD 0 + 7) / 8) := Nat.not_lt.mpr hlen
      have hnone := Option.not_isSome_iff_eq_none.mp hdec
      generalize hx : decodeParam (fuel + 1) (o.toConstParam v) d true = x
      rcases hk with he | he
      all_goals
        simp [Obj.toConstParam, Obj.bt, hkind, decodeParam, decodeDct, extractAtomic, extractCore, convertRaw,
          stringCodec, bind, pure, run_bind, run_pure, run_getS, run_modifyS, run_ite, run_raise, run_odxraise_strict,
          BaseType.isNumeric, odxassert, hb0, hnl, he, hb, hm8, hhl, hnone] at hx
        subst hx
        exact ⟨_, _, rfl, fun _ => rfl⟩

mutual
/-- no `A_FLOAT32` leaf: every pattern the decoder cannot turn into a value is a `DecodeError` (the model does not follow
    binary32 NaN / subnormal patterns, for which it answers `unmodelled`) -/
def Tree.strictDec : Tree → Prop
  | .int o _ => o.kind ≠ .float32
  | .const o _ => o.kind ≠ .float32
  | .struct _ _ kids => Trees.strictDec kids
def Trees.strictDec : List Tree → Prop
  | [] => True
  | t :: ts => t.strictDec ∧ Trees.strictDec ts
end

mutual
/-- a parameter some leaf of which lies (partly) behind the end of the message — or whose bytes do not decode (ill-formed
    text) — is rejected, with `DecodeError` unless an `A_FLOAT32` leaf is involved -/
theorem Tree.decode_short : (t : Tree) → t.okAll → ∀ (fuel : Nat), t.need ≤ fuel → ∀ (d : DecState), d.cursorBit = 0 →
    ¬ t.pair.fits d → ∃ e d', decodeParam fuel t.toParam d true = .error (e, d') ∧ (t.strictDec → e = .decode)
  | .int o v, hok, fuel, hf, d, _, hshort => by
    simp only [Tree.okAll] at hok
    simp only [Tree.need] at hf
    obtain ⟨f, rfl⟩ : ∃ f, fuel = f + 2 := ⟨fuel - 2, by omega⟩
    by_cases hlen : o.pos d.origin d.cursorByte + o.k ≤ d.msg.length
    · exact decodeParam_obj_undecodable o hok.1 f d hlen (fun h => hshort ⟨hlen, h⟩)
    · obtain ⟨d', h⟩ := decodeParam_obj_short o hok.1 f d hlen
      exact ⟨_, d', h, fun _ => rfl⟩
  | .const o v, hok, fuel, hf, d, _, hshort => by
    simp only [Tree.okAll] at hok
    simp only [Tree.need] at hf
    obtain ⟨f, rfl⟩ : ∃ f, fuel = f + 1 := ⟨fuel - 1, by omega⟩
    by_cases hlen : o.pos d.origin d.cursorByte + o.k ≤ d.msg.length
    · exact decodeParam_const_obj_undecodable o hok.1 v f d hlen (fun h => hshort ⟨hlen, h⟩)
    · obtain ⟨d', h⟩ := decodeParam_const_obj_short o hok.1 v f d hlen
      exact ⟨_, d', h, fun _ => rfl⟩
  | .struct n bp kids, hok, fuel, hf, d, hcb, hshort => by
    simp only [Tree.okAll] at hok
    simp only [Tree.need] at hf
    obtain ⟨f, rfl⟩ : ∃ f, fuel = f + 1 + 1 + 1 := ⟨fuel - 3, by omega⟩
    have hf' : Trees.need kids ≤ f := by omega
    have hshort' : ¬ (Trees.pair kids).fits
        { d with cursorByte := posOf bp d.origin d.cursorByte, origin := posOf bp d.origin d.cursorByte } := hshort
    obtain ⟨e, d', hrun, he⟩ := Trees.decode_short kids hok f hf'
      { d with cursorByte := posOf bp d.origin d.cursorByte, origin := posOf bp d.origin d.cursorByte } hcb hshort'
    refine ⟨e, d', ?_, he⟩
    cases bp <;>
    · simp only [posOf] at hrun
      simp only [Tree.toParam, decodeParam, decodeDop, decodeComposite, bind, pure, run_bind, run_getS, run_modifyS,
        run_pure, Option.getD_none]
      simp only [hcb] at hrun ⊢
      rw [hrun]
theorem Trees.decode_short : (ts : List Tree) → Trees.okAll ts → ∀ (fuel : Nat), Trees.need ts ≤ fuel → ∀ (d : DecState),
    d.cursorBit = 0 → ¬ (Trees.pair ts).fits d →
    ∃ e d', decodeParams fuel (Trees.toParams ts) d true = .error (e, d') ∧ (Trees.strictDec ts → e = .decode)
  | [], _, fuel, hf, d, _, hshort => absurd trivial hshort
  | t :: ts, hok, fuel, hf, d, hcb, hshort => by
    simp only [Trees.okAll] at hok
    simp only [Trees.need] at hf
    obtain ⟨f, rfl⟩ : ∃ f, fuel = f + 1 := ⟨fuel - 1, by omega⟩
    by_cases h1 : t.pair.fits d
    · -- the first parameter decodes; the short one comes later
      have hd := Tree.decode_eq t hok.1 f (by omega) d hcb h1
      have hshort' : ¬ (Trees.pair ts).fits (t.pair.dec d).2 := fun h => hshort ⟨h1, h⟩
      obtain ⟨e, d', hrun, he⟩ := Trees.decode_short ts hok.2 f (by omega) (t.pair.dec d).2 (Tree.dec_cursorBit t d hcb) hshort'
      refine ⟨e, d', ?_, fun hs => he hs.2⟩
      simp only [Trees.toParams, decodeParams, bind, run_bind, hd, hrun]
    · obtain ⟨e, d', hrun, he⟩ := Tree.decode_short t hok.1 f (by omega) d hcb h1
      refine ⟨e, d', ?_, fun hs => he hs.1⟩
      simp only [Trees.toParams, decodeParams, bind, run_bind, hrun]
end

/-- a message in which some leaf does not fit (too short, or bytes that do not decode) is rejected by `Request.decode` -/
theorem decodeMessage_tree_unfit (ts : List Tree) (hneed : Trees.need ts + 2 ≤ modelFuel) (hok : Trees.okAll ts) (msg : Bytes)
    (hshort : ¬ (Trees.pair ts).fits { msg := msg }) :
    ∃ e, decodeMessage none (Trees.toParams ts) msg true = .error e ∧ (Trees.strictDec ts → e = .decode) := by
  obtain ⟨f, hf⟩ : ∃ f, modelFuel = f + 1 + 1 := ⟨modelFuel - 2, by unfold modelFuel; omega⟩
  have hf' : Trees.need ts ≤ f := by omega
  obtain ⟨e, d', hdec, he⟩ := Trees.decode_short ts hok f hf' { msg := msg } rfl hshort
  have hdec' : decodeParams f (Trees.toParams ts) { msg := msg, origin := 0, cursorByte := 0 } true = _ := hdec
  refine ⟨e, ?_, he⟩
  unfold decodeMessage
  rw [hf]
  simp only [decodeDop, decodeComposite, bind, pure, run_bind, run_getS, run_modifyS, run_pure]
  rw [hdec']

/-- **C05, struct tier.** A message that ends before (or inside) some leaf of a nested description — or carries ill-formed
    text in a string leaf — is rejected by `Request.decode` with the library's `DecodeError` — it is never completed with
    invented values. (`Trees.strictDec`: no `A_FLOAT32` leaf; the model does not follow NaN / subnormal binary32 patterns.) -/
theorem decodeMessage_tree_short (ts : List Tree) (hneed : Trees.need ts + 2 ≤ modelFuel) (hok : Trees.okAll ts) (msg : Bytes)
    (hshort : ¬ (Trees.pair ts).fits { msg := msg }) (hs : Trees.strictDec ts) :
    decodeMessage none (Trees.toParams ts) msg true = .error .decode := by
  obtain ⟨e, h, he⟩ := decodeMessage_tree_unfit ts hneed hok msg hshort
  rw [h, he hs]

end OdxVerif.Codec
