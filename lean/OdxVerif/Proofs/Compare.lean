import OdxVerif.Model.Compare
/-! Lemmas about the compare model (property C18). Core Lean only. -/
namespace OdxVerif.Compare

/-! ## hypotheses of the property theorems, as decidable predicates -/

/-- short names are pairwise distinct within the layer -/
def distinctNames (l : List Service) : Prop := l.Pairwise (fun a b => a.name ≠ b.name)

instance (l : List Service) : Decidable (distinctNames l) := by unfold distinctNames; infer_instance

/-- every service has a request (the XML loader guarantees it: `REQUEST-REF` is required) -/
def hasRequests (l : List Service) : Prop := ∀ s ∈ l, s.request ≠ none
instance (l : List Service) : Decidable (hasRequests l) := by unfold hasRequests; infer_instance

theorem distinctNames_inj {l : List Service} (h : distinctNames l) {x y : Service}
    (hx : x ∈ l) (hy : y ∈ l) (hn : x.name = y.name) : x = y := by
  induction l with
  | nil => cases hx
  | cons a l ih =>
    have hp := List.pairwise_cons.mp h
    rcases List.mem_cons.mp hx with rfl | hx' <;> rcases List.mem_cons.mp hy with rfl | hy'
    · rfl
    · exact absurd hn (hp.1 _ hy')
    · exact absurd hn.symm (hp.1 _ hx')
    · exact ih hp.2 hx' hy'

theorem distinctNames_middle {l₁ l₂ : List Service} {s : Service} (h : distinctNames (l₁ ++ s :: l₂)) :
    distinctNames (l₁ ++ l₂) ∧ (∀ x ∈ l₁ ++ l₂, x.name ≠ s.name) := by
  unfold distinctNames at *
  rw [List.pairwise_append] at h
  obtain ⟨h1, h2, h3⟩ := h
  have h2' := List.pairwise_cons.mp h2
  refine ⟨List.pairwise_append.mpr ⟨h1, h2'.2, fun a ha b hb => h3 a ha b (List.mem_cons_of_mem _ hb)⟩, ?_⟩
  intro x hx
  rcases List.mem_append.mp hx with hx | hx
  · exact h3 x hx s (List.mem_cons_self ..)
  · exact fun e => h2'.1 x hx e.symm

/-- replacing the middle element by one of the same name keeps names distinct -/
theorem distinctNames_replace {l₁ l₂ : List Service} {s s' : Service} (h : distinctNames (l₁ ++ s :: l₂))
    (hn : s'.name = s.name) : distinctNames (l₁ ++ s' :: l₂) := by
  unfold distinctNames at *
  rw [List.pairwise_append] at h ⊢
  obtain ⟨h1, h2, h3⟩ := h
  have h2' := List.pairwise_cons.mp h2
  refine ⟨h1, List.pairwise_cons.mpr ⟨fun a ha => hn ▸ h2'.1 a ha, h2'.2⟩, ?_⟩
  intro a ha b hb
  rcases List.mem_cons.mp hb with rfl | hb
  · exact hn ▸ h3 a ha s (List.mem_cons_self ..)
  · exact h3 a ha b (List.mem_cons_of_mem _ hb)

/-! ## compare_parameters / compare_services on identical content -/

@[simp] theorem valueRows_self (a : Attr) (v : PyVal) (b1 b2 : Option Nat) : valueRows a v v b1 b2 = [] := by
  simp [valueRows]

@[simp] theorem dopRows_self (d : DopInfo) : dopRows d d = [] := by simp [dopRows]

@[simp] theorem subRows_self (s : DopSub) (b1 b2 : Option Nat) : subRows s s b1 b2 = [] := by
  cases s with
  | physConst v => simp [subRows]
  | value d => cases d <;> simp [subRows]
  | other => simp [subRows]

/-- the class-specific rows depend on the kinds and (for value formatting) the bit lengths only -/
theorem kindRows_same_kind (p1 p2 : Param) (h : p1.kind = p2.kind) : kindRows p1 p2 = [] := by
  unfold kindRows
  rw [h]
  cases p2.kind <;> simp

theorem compareParams_self (p : Param) : compareParams p p = [] := by
  simp [compareParams, kindRows_same_kind]

theorem compareParamLists_self (k : EntryKind) (l : List Param) : compareParamLists k l l = [] := by
  induction l with
  | nil => rfl
  | cons p l ih => simp [compareParamLists, compareParams_self, ih]

theorem compareResponses_self (k1 k2 : EntryKind) (n : String) (l : List (List Param)) :
    compareResponses k1 k2 n l l = [] := by
  induction l with
  | nil => rfl
  | cons r l ih => simp [compareResponses, compareParamLists_self, ih]

/-- only the parameters are compared: two services with the same request and responses give no entry
    (whatever their names and other fields) -/
theorem compareServices_same_content (s1 s2 : Service) (hr : s1.request = s2.request) (hreq : s2.request ≠ none)
    (hp : s1.pos = s2.pos) (hn : s1.neg = s2.neg) : compareServices s1 s2 = [] := by
  unfold compareServices
  rw [hr, hp, hn]
  cases h : s2.request with
  | none => exact absurd h hreq
  | some r => simp [compareParamLists_self, compareResponses_self]

/-! ## a single changed parameter -/

theorem compareParamLists_middle (k : EntryKind) (a b : List Param) (p' p : Param) :
    compareParamLists k (a ++ p' :: b) (a ++ p :: b)
      = if compareParams p' p ≠ [] then [⟨k, p.name, compareParams p' p⟩] else [] := by
  induction a with
  | nil => simp [compareParamLists, compareParamLists_self]
  | cons x a ih => simp only [List.cons_append, compareParamLists, compareParams_self, ih]; simp

theorem compareResponses_middle (k1 k2 : EntryKind) (n : String) (ra rb : List (List Param))
    (a b : List Param) (p' p : Param) :
    compareResponses k1 k2 n (ra ++ (a ++ p' :: b) :: rb) (ra ++ (a ++ p :: b) :: rb)
      = if compareParams p' p ≠ [] then [⟨k1, p.name, compareParams p' p⟩] else [] := by
  induction ra with
  | nil => simp [compareResponses, compareResponses_self, compareParamLists_middle]
  | cons x ra ih => simp only [List.cons_append, compareResponses, compareParamLists_self, ih]; simp

/-- `s'` is `s` with parameter `p` (of the request, `k = .req`, of a positive, `.pos`, or of a negative
    response, `.neg`) replaced by `p'`; everything else, including name and identity, is unchanged -/
inductive ParamEdit (p p' : Param) : Service → Service → EntryKind → Prop where
  | req (s : Service) (a b : List Param) (h : s.request = some (a ++ p :: b)) :
      ParamEdit p p' s { s with request := some (a ++ p' :: b) } .req
  | pos (s : Service) (ra rb : List (List Param)) (a b : List Param) (h : s.pos = ra ++ (a ++ p :: b) :: rb)
      (hreq : s.request ≠ none) :
      ParamEdit p p' s { s with pos := ra ++ (a ++ p' :: b) :: rb } .pos
  | neg (s : Service) (ra rb : List (List Param)) (a b : List Param) (h : s.neg = ra ++ (a ++ p :: b) :: rb)
      (hreq : s.request ≠ none) :
      ParamEdit p p' s { s with neg := ra ++ (a ++ p' :: b) :: rb } .neg

theorem ParamEdit.name_eq {p p' : Param} {s s' : Service} {k : EntryKind} (h : ParamEdit p p' s s' k) :
    s'.name = s.name ∧ s'.eqKey = s.eqKey ∧ s'.pfx = s.pfx := by
  cases h <;> exact ⟨rfl, rfl, rfl⟩

theorem compareServices_paramEdit {p p' : Param} {s s' : Service} {k : EntryKind} (h : ParamEdit p p' s s' k) :
    compareServices s' s = if compareParams p' p ≠ [] then [⟨k, p.name, compareParams p' p⟩] else [] := by
  cases h with
  | req a b h =>
    simp only [compareServices, h]
    simp [compareParamLists_middle, compareResponses_self]
  | pos ra rb a b h hreq =>
    cases hr : s.request with
    | none => exact absurd hr hreq
    | some r =>
      simp only [compareServices, h, hr]
      simp [compareParamLists_self, compareResponses_middle, compareResponses_self]
  | neg ra rb a b h hreq =>
    cases hr : s.request with
    | none => exact absurd hr hreq
    | some r =>
      simp only [compareServices, h, hr]
      simp [compareParamLists_self, compareResponses_middle, compareResponses_self]

/-! ## single-attribute edits of a parameter -/

/-- the edits named in the property: byte position, bit length, coded value, semantic, data type, linked DOP
    (re-linking also sets the static bit length, which is derived from the DOP) -/
inductive AttrEdit where
  | bytePos (b : Option Nat)
  | bitLen (b : Option Nat)
  | semantic (s : Option String)
  | codedValue (v : PyVal)
  | dataType (t : String)
  | linkedDop (d : DopInfo) (bl : Option Nat)
deriving DecidableEq, Repr

def AttrEdit.apply : AttrEdit → Param → Param
  | .bytePos b, p => { p with bytePos := b }
  | .bitLen b, p => { p with bitLen := b }
  | .semantic s, p => { p with semantic := s }
  | .codedValue v, p =>
    match p.kind with
    | .codedConst t _ => { p with kind := .codedConst t v }
    | _ => p
  | .dataType t, p =>
    match p.kind with
    | .codedConst _ v => { p with kind := .codedConst t v }
    | .nrcConst _ vs => { p with kind := .nrcConst t vs }
    | _ => p
  | .linkedDop d bl, p =>
    match p.kind with
    | .withDop _ s => { p with kind := .withDop d s, bitLen := bl }
    | _ => p

/-- the edit is applicable to the parameter's class and really changes the attribute (decidable) -/
def AttrEdit.changes : AttrEdit → Param → Bool
  | .bytePos b, p => b ≠ p.bytePos
  | .bitLen b, p => b ≠ p.bitLen
  | .semantic s, p => s ≠ p.semantic
  | .codedValue v, p => match p.kind with | .codedConst _ v0 => v ≠ v0 | _ => false
  | .dataType t, p => match p.kind with | .codedConst t0 _ => t ≠ t0 | .nrcConst t0 _ => t ≠ t0 | _ => false
  | .linkedDop d _, p => match p.kind with | .withDop d0 _ => d.key ≠ d0.key | _ => false

/-- the table the tool must show for the edit (old value, new value) -/
def AttrEdit.expected : AttrEdit → Param → List Row
  | .bytePos b, p => [⟨.bytePosition, pyOptNat p.bytePos, pyOptNat b⟩]
  | .bitLen b, p => [⟨.bitLength, pyOptNat p.bitLen, pyOptNat b⟩]
  | .semantic s, p => [⟨.semantic, pyOptStr p.semantic, pyOptStr s⟩]
  | .codedValue v, p =>
    match p.kind with
    | .codedConst _ v0 => valueRows .value v v0 p.bitLen p.bitLen
    | _ => []
  | .dataType t, p =>
    match p.kind with
    | .codedConst t0 _ => [⟨.dataType, t0, t⟩]
    | .nrcConst t0 _ => [⟨.dataType, t0, t⟩]
    | _ => []
  | .linkedDop d bl, p =>
    match p.kind with
    | .withDop d0 _ =>
      (if bl ≠ p.bitLen then [⟨.bitLength, pyOptNat p.bitLen, pyOptNat bl⟩] else []) ++ dopRows d d0
    | _ => []

def AttrEdit.isRelink : AttrEdit → Bool
  | .linkedDop _ _ => true
  | _ => false

/-- the "Property" entries that may appear for the edit -/
def AttrEdit.attrs : AttrEdit → List Attr
  | .bytePos _ => [.bytePosition]
  | .bitLen _ => [.bitLength]
  | .semantic _ => [.semantic]
  | .codedValue _ => [.value]
  | .dataType _ => [.dataType]
  | .linkedDop _ _ => [.bitLength, .linkedDop, .dopName, .dopUnitName, .dopUnitDisplayName, .dopUnitObject, .dopPhysType]

theorem valueRows_ne (a : Attr) {v1 v2 : PyVal} (h : v1 ≠ v2) (b1 b2 : Option Nat) :
    ∃ o n, valueRows a v1 v2 b1 b2 = [⟨a, o, n⟩] := by
  unfold valueRows
  rw [if_pos h]
  cases v1 <;> cases v2 <;> exact ⟨_, _, rfl⟩

theorem compareParams_edit (e : AttrEdit) (p : Param) (h : e.changes p = true) :
    compareParams (e.apply p) p = e.expected p := by
  cases e with
  | bytePos b =>
    have : b ≠ p.bytePos := by simpa [AttrEdit.changes] using h
    simp [compareParams, AttrEdit.apply, AttrEdit.expected, this, kindRows_same_kind]
  | bitLen b =>
    have : b ≠ p.bitLen := by simpa [AttrEdit.changes] using h
    have hk : kindRows { p with bitLen := b } p = [] := kindRows_same_kind _ _ rfl
    simp [compareParams, AttrEdit.apply, AttrEdit.expected, this, hk]
  | semantic s =>
    have : s ≠ p.semantic := by simpa [AttrEdit.changes] using h
    simp [compareParams, AttrEdit.apply, AttrEdit.expected, this, kindRows_same_kind]
  | codedValue v =>
    cases hk : p.kind <;> simp [AttrEdit.changes, hk] at h
    simp [compareParams, AttrEdit.apply, AttrEdit.expected, hk, kindRows]
  | dataType t =>
    cases hk : p.kind <;> simp [AttrEdit.changes, hk] at h
    · simp [compareParams, AttrEdit.apply, AttrEdit.expected, hk, kindRows, h]
    · simp [compareParams, AttrEdit.apply, AttrEdit.expected, hk, kindRows, h]
  | linkedDop d bl =>
    cases hk : p.kind <;> simp [AttrEdit.changes, hk] at h
    simp [compareParams, AttrEdit.apply, AttrEdit.expected, hk, kindRows]

theorem unitRows_attrs (u1 u2 : Option UnitInfo) :
    ∀ r ∈ unitRows u1 u2, r.attr ∈ [Attr.dopUnitName, .dopUnitDisplayName, .dopUnitObject] := by
  intro r hr
  unfold unitRows at hr
  repeat' split at hr
  all_goals simp_all

theorem physRows_attrs (t1 t2 : Option String) : ∀ r ∈ physRows t1 t2, r.attr = Attr.dopPhysType := by
  intro r hr
  unfold physRows at hr
  repeat' split at hr
  all_goals simp_all

theorem dopRows_attrs (d d0 : DopInfo) :
    ∀ r ∈ dopRows d d0, r.attr ∈ [Attr.linkedDop, .dopName, .dopUnitName, .dopUnitDisplayName, .dopUnitObject, .dopPhysType] := by
  intro r hr
  unfold dopRows at hr
  split at hr
  · simp only [List.mem_append] at hr
    rcases hr with ((hr | hr) | hr) | hr
    · simp at hr; subst hr; simp
    · split at hr <;> simp at hr; subst hr; simp
    · have := unitRows_attrs _ _ r hr
      simp only [List.mem_cons, List.not_mem_nil, or_false] at this ⊢
      rcases this with h | h | h <;> simp [h]
    · have := physRows_attrs _ _ r hr
      simp [this]
  · simp at hr

theorem expected_ne_nil (e : AttrEdit) (p : Param) (h : e.changes p = true) : e.expected p ≠ [] := by
  cases e with
  | bytePos b => simp [AttrEdit.expected]
  | bitLen b => simp [AttrEdit.expected]
  | semantic s => simp [AttrEdit.expected]
  | codedValue v =>
    cases hk : p.kind <;> simp [AttrEdit.changes, hk] at h
    obtain ⟨o, n, hv⟩ := valueRows_ne .value h p.bitLen p.bitLen
    simp [AttrEdit.expected, hk, hv]
  | dataType t =>
    cases hk : p.kind <;> simp [AttrEdit.changes, hk] at h <;> simp [AttrEdit.expected, hk]
  | linkedDop d bl =>
    cases hk : p.kind <;> simp [AttrEdit.changes, hk] at h
    simp [AttrEdit.expected, hk, dopRows, h]

theorem expected_attrs (e : AttrEdit) (p : Param) : ∀ r ∈ e.expected p, r.attr ∈ e.attrs := by
  intro r hr
  cases e with
  | bytePos b => simp [AttrEdit.expected] at hr; subst hr; simp [AttrEdit.attrs]
  | bitLen b => simp [AttrEdit.expected] at hr; subst hr; simp [AttrEdit.attrs]
  | semantic s => simp [AttrEdit.expected] at hr; subst hr; simp [AttrEdit.attrs]
  | codedValue v =>
    cases hk : p.kind <;> simp [AttrEdit.expected, hk] at hr
    rename_i t v0
    unfold valueRows at hr
    split at hr
    · split at hr <;> simp at hr <;> subst hr <;> simp [AttrEdit.attrs]
    · simp at hr
  | dataType t =>
    cases hk : p.kind <;> simp [AttrEdit.expected, hk] at hr <;> subst hr <;> simp [AttrEdit.attrs]
  | linkedDop d bl =>
    cases hk : p.kind <;> simp only [AttrEdit.expected, hk, List.not_mem_nil] at hr
    rename_i d0 s0
    rcases List.mem_append.mp hr with hr | hr
    · split at hr <;> simp at hr; subst hr; simp [AttrEdit.attrs]
    · have := dopRows_attrs d d0 r hr
      simp only [AttrEdit.attrs, List.mem_cons] at this ⊢
      exact Or.inr this

/-! ## the loops of compare_diagnostic_layers -/

theorem foldl_noop {α β} (f : β → α → β) (l : List α) (acc : β) (h : ∀ x ∈ l, ∀ a, f a x = a) :
    l.foldl f acc = acc := by
  induction l generalizing acc with
  | nil => rfl
  | cons x l ih =>
    rw [List.foldl_cons, h x (List.mem_cons_self ..), ih acc (fun y hy => h y (List.mem_cons_of_mem _ hy))]

theorem foldl_middle {α β} (f : β → α → β) (l₁ l₂ : List α) (x : α) (acc : β)
    (h : ∀ y ∈ l₁ ++ l₂, ∀ a, f a y = a) : (l₁ ++ x :: l₂).foldl f acc = f acc x := by
  rw [List.foldl_append, List.foldl_cons,
    foldl_noop f l₁ acc (fun y hy => h y (List.mem_append_left _ hy)),
    foldl_noop f l₂ _ (fun y hy => h y (List.mem_append_right _ hy))]

theorem mem_middle {α} {l₁ l₂ : List α} {s x : α} (h : x ∈ l₁ ++ l₂) : x ∈ l₁ ++ s :: l₂ := by
  rcases List.mem_append.mp h with h | h
  · exact List.mem_append_left _ h
  · exact List.mem_append_right _ (List.mem_cons_of_mem _ h)

theorem mem_names {l : List Service} {x : Service} (h : x ∈ l) : x.name ∈ names l :=
  List.mem_map.mpr ⟨x, h, rfl⟩

theorem mem_prefixes {l : List Service} {x : Service} (h : x ∈ l) : x.pfx ∈ prefixes l :=
  List.mem_map.mpr ⟨x, h, rfl⟩

theorem not_mem_names {l : List Service} {n : String} : n ∉ names l ↔ ∀ x ∈ l, x.name ≠ n := by
  simp [names]

theorem pyEq_self (s : Service) : s.pyEq s = true := by simp [Service.pyEq]

theorem pyEq_name {a b : Service} (h : a.pyEq b = true) : a.name = b.name := by
  simp [Service.pyEq] at h; exact h.2

/-- inner loop: no service of the old layer has the name, or the one that has it has the same content -/
theorem inner_noop (s1 : Service) (dl2 : List Service) (acc : Result)
    (h : ∀ s2 ∈ dl2, s1.name = s2.name → compareServices s1 s2 = []) :
    dl2.foldl (innerStep s1) acc = acc := by
  apply foldl_noop
  intro s2 hs2 a
  unfold innerStep
  split
  · rename_i hn; simp [addChanged, h s2 hs2 hn]
  · rfl

/-- a service that is literally present in the old layer contributes nothing -/
theorem outerStep_mem {dl2 : List Service} (hd : distinctNames dl2) {x : Service} (hx : x ∈ dl2) (hreq : x.request ≠ none)
    (acc : Result) : outerStep dl2 acc x = acc := by
  have hany : dl2.any (x.pyEq ·) = true := List.any_eq_true.mpr ⟨x, hx, pyEq_self x⟩
  have hname : x.name ∈ names dl2 := mem_names hx
  unfold outerStep
  simp only [hany, not_true_eq_false, false_and, if_false, hname, not_true_eq_false]
  apply inner_noop
  intro s2 hs2 hn
  have := distinctNames_inj hd hx hs2 hn
  subst this
  exact compareServices_same_content x x rfl hreq rfl rfl

theorem deletedStep_noop {dl1 : List Service} {s2 : Service} (h : s2.name ∈ names dl1) (acc : Result) :
    deletedStep dl1 acc s2 = acc := by
  simp [deletedStep, h]

theorem compareLayers_self (l : List Service) (hd : distinctNames l) (hr : hasRequests l) : compareLayers l l = {} := by
  unfold compareLayers
  rw [foldl_noop (outerStep l) l {} (fun x hx a => outerStep_mem hd hx (hr x hx) a)]
  exact foldl_noop _ _ _ (fun x hx a => deletedStep_noop (mem_names hx) a)

end OdxVerif.Compare
