import OdxVerif.Proofs.FlatStep
/-! Flat tier, pure core: used-mask lemmas, one-step frame, frame over a suffix, and the round trip of a whole
    list of positioned objects (`flat_core`). Core Lean only. -/
namespace OdxVerif.Codec
open OdxVerif.Bits OdxVerif.OdxM

theorem orBytes_length (a b : Bytes) : (orBytes a b).length = min a.length b.length := by
  induction a generalizing b with
  | nil => simp [orBytes]
  | cons x xs ih => cases b with
    | nil => simp [orBytes]
    | cons y ys => simp [orBytes, ih]

theorem getD_orBytes (a b : Bytes) (i : Nat) (h1 : i < a.length) (h2 : i < b.length) :
    (orBytes a b).getD i 0 = (a.getD i 0 ||| b.getD i 0) := by
  induction a generalizing b i with
  | nil => simp at h1
  | cons x xs ih => cases b with
    | nil => simp at h2
    | cons y ys => cases i with
      | zero => simp [orBytes]
      | succ i => simp only [orBytes, List.getD_cons_succ]; exact ih ys i (by simpa using h1) (by simpa using h2)

theorem getD_append_zeros (u : Bytes) (n i : Nat) : (u ++ List.replicate n 0).getD i 0 = u.getD i 0 := by
  simp only [List.getD_eq_getElem?_getD]
  by_cases hi : i < u.length
  · rw [List.getElem?_append_left hi]
  · rw [List.getElem?_append_right (by omega)]
    have : u[i]? = none := List.getElem?_eq_none (by omega)
    rw [this]
    by_cases h2 : i - u.length < n <;> simp [h2]

/-- byte `i` of the used-mask after a masked write -/
theorem getD_placeUsed (used : Bytes) (pos n : Nat) (mask : Bytes) (hm : mask.length = n) (i : Nat) :
    (placeUsed used pos n mask).getD i 0 =
      if pos ≤ i ∧ i < pos + n then (used.getD i 0 ||| mask.getD (i - pos) 0) else used.getD i 0 := by
  unfold placeUsed
  have hmid : (orBytes ((padTo used (pos + n)).drop pos |>.take n) (mask.take n)).length = n := by
    rw [orBytes_length]; simp [padTo_length, hm]; omega
  simp only [List.getD_eq_getElem?_getD]
  by_cases h1 : i < pos
  · have : ¬ (pos ≤ i ∧ i < pos + n) := by omega
    rw [if_neg this, List.append_assoc, List.getElem?_append_left (by simp [padTo_length]; omega)]
    rw [List.getElem?_take, if_pos h1]
    have := getD_padTo used (pos + n) i
    simpa [List.getD_eq_getElem?_getD] using this
  · by_cases h2 : i < pos + n
    · have hin : pos ≤ i ∧ i < pos + n := ⟨by omega, h2⟩
      rw [if_pos hin]
      have hlt : (List.take pos (padTo used (pos + n))).length = pos := by simp [padTo_length]; omega
      rw [List.getElem?_append_left (by simp [hlt, hmid]; omega),
        List.getElem?_append_right (by rw [hlt]; omega), hlt]
      have hg := getD_orBytes ((padTo used (pos + n)).drop pos |>.take n) (mask.take n) (i - pos)
        (by simp [padTo_length]; omega) (by simp [hm]; omega)
      simp only [List.getD_eq_getElem?_getD] at hg
      rw [hg]
      have hold : ((padTo used (pos + n)).drop pos |>.take n)[i - pos]?.getD 0 = used[i]?.getD 0 := by
        have := getD_take_drop (padTo used (pos + n)) pos n (i - pos) (by omega) (by rw [padTo_length]; omega)
        simp only [List.getD_eq_getElem?_getD] at this
        rw [this, show pos + (i - pos) = i by omega]
        have := getD_padTo used (pos + n) i
        simpa [List.getD_eq_getElem?_getD] using this
      have hmk : (mask.take n)[i - pos]?.getD 0 = mask[i - pos]?.getD 0 := by
        rw [List.getElem?_take, if_pos (by omega)]
      rw [hold, hmk]
    · have : ¬ (pos ≤ i ∧ i < pos + n) := by omega
      rw [if_neg this]
      have hlt : (List.take pos (padTo used (pos + n)) ++
          orBytes (List.take n (List.drop pos (padTo used (pos + n)))) (mask.take n)).length = pos + n := by
        simp [hmid, padTo_length]; omega
      rw [List.getElem?_append_right (by rw [hlt]; omega), hlt, List.getElem?_drop]
      rw [show pos + n + (i - (pos + n)) = i by omega]
      have := getD_padTo used (pos + n) i
      simpa [List.getD_eq_getElem?_getD] using this

theorem overlapCount_zero (us ms : Bytes) (h : overlapCount us ms = 0) (i : Nat) (h1 : i < us.length) (h2 : i < ms.length) :
    us.getD i 0 &&& ms.getD i 0 = 0 := by
  induction us generalizing ms i with
  | nil => simp at h1
  | cons u us ih => cases ms with
    | nil => simp at h2
    | cons m ms =>
      simp only [overlapCount] at h
      cases i with
      | zero =>
        simp only [List.getD_cons_zero]
        by_cases hz : u &&& m = 0
        · exact hz
        · simp [hz] at h
      | succ i =>
        simp only [List.getD_cons_succ]
        exact ih ms (by omega) i (by simpa using h1) (by simpa using h2)


theorem getD_take_drop' (u : Bytes) (pos k i : Nat) (hi : i < k) :
    ((u.drop pos).take k).getD i 0 = u.getD (pos + i) 0 := by
  simp [List.getD_eq_getElem?_getD, List.getElem?_take, hi, List.getElem?_drop]

theorem encStep_msg (o : Obj) (v : IVal) (s : EncState) :
    (encStep o v s).msg = placeBytes s.msg (o.pos s.origin s.cursorByte)
      (ord o.hl (toBytesBE o.k (o.raw v * 2 ^ o.bp))) (ord o.hl (toBytesBE o.k o.mask)) := rfl

theorem encStep_warn_ge (o : Obj) (v : IVal) (s : EncState) : s.warn ≤ (encStep o v s).warn := by
  simp [encStep]

theorem encStep_origin (o : Obj) (v : IVal) (s : EncState) : (encStep o v s).origin = s.origin := rfl
theorem encStep_cursor (o : Obj) (v : IVal) (s : EncState) :
    (encStep o v s).cursorByte = o.pos s.origin s.cursorByte + o.k := rfl

theorem encStep_allBytes (o : Obj) (v : IVal) (s : EncState) (h : AllBytes s.msg) : AllBytes (encStep o v s).msg := by
  rw [encStep_msg]; exact allBytes_placeBytes _ _ _ _ h (allBytes_ord _ _ (toBytesBE_allBytes _ _))

theorem encStep_length (o : Obj) (v : IVal) (s : EncState) :
    (encStep o v s).msg.length = max s.msg.length (o.pos s.origin s.cursorByte + o.k) := by
  rw [encStep_msg, placeBytes_length _ _ _ _ (by simp [ord_length, toBytesBE_length]), ord_length, toBytesBE_length]

/-- **Frame, one step.** A bit that an earlier object claimed (its used-bit is set) keeps its value when a
    later object is emplaced without an overlap warning — and stays claimed. -/
theorem encStep_frame (o : Obj) (v : IVal) (s : EncState) (hw : (encStep o v s).warn = s.warn) (a : Nat)
    (hu : getBit s.used a = true) :
    getBit (encStep o v s).msg a = getBit s.msg a ∧ getBit (encStep o v s).used a = true := by
  have hml : (ord o.hl (toBytesBE o.k o.mask)).length = o.k := by rw [ord_length, toBytesBE_length]
  have hnl : (ord o.hl (toBytesBE o.k (o.raw v * 2 ^ o.bp))).length = o.k := by
    rw [ord_length, toBytesBE_length]
  have hov : overlapCount (((s.used ++ List.replicate ((padTo s.msg (o.pos s.origin s.cursorByte + o.k)).length - s.msg.length) 0).drop
      (o.pos s.origin s.cursorByte)).take o.k) (ord o.hl (toBytesBE o.k o.mask)) = 0 := by
    have : (encStep o v s).warn = s.warn + overlapCount (((s.used ++ List.replicate ((padTo s.msg (o.pos s.origin s.cursorByte + o.k)).length - s.msg.length) 0).drop
      (o.pos s.origin s.cursorByte)).take o.k) (ord o.hl (toBytesBE o.k o.mask)) := rfl
    omega
  have hused : (encStep o v s).used = placeUsed (s.used ++ List.replicate ((padTo s.msg (o.pos s.origin s.cursorByte + o.k)).length - s.msg.length) 0)
      (o.pos s.origin s.cursorByte) o.k (ord o.hl (toBytesBE o.k o.mask)) := rfl
  unfold getBit at hu ⊢
  rw [encStep_msg, hused, getD_placeBytes _ _ _ _ (by rw [hnl, hml]), getD_placeUsed _ _ _ _ hml, getD_append_zeros, hnl]
  by_cases hin : o.pos s.origin s.cursorByte ≤ a / 8 ∧ a / 8 < o.pos s.origin s.cursorByte + o.k
  · rw [if_pos hin, if_pos hin]
    -- the used byte is non-zero, hence inside the old used mask
    have hlt : a / 8 < s.used.length := by
      cases hlt : decide (a / 8 < s.used.length) with
      | true => exact of_decide_eq_true hlt
      | false =>
        have := of_decide_eq_false hlt
        rw [List.getD_eq_getElem?_getD, List.getElem?_eq_none (by omega)] at hu
        simp at hu
    have hz := overlapCount_zero _ _ hov (a / 8 - o.pos s.origin s.cursorByte)
      (by simp; omega) (by rw [hml]; omega)
    rw [getD_take_drop' _ _ _ _ (by omega), getD_append_zeros,
      show o.pos s.origin s.cursorByte + (a / 8 - o.pos s.origin s.cursorByte) = a / 8 by omega] at hz
    have hmbit : ((ord o.hl (toBytesBE o.k o.mask)).getD (a / 8 - o.pos s.origin s.cursorByte) 0).testBit (a % 8) = false := by
      have := congrArg (fun x => x.testBit (a % 8)) hz
      simp only [Nat.testBit_and, hu, Bool.true_and, Nat.zero_testBit] at this
      exact this
    simp only [Nat.testBit_or, Nat.testBit_xor, Nat.testBit_and, hmbit, hu]
    simp
  · rw [if_neg hin, if_neg hin]
    exact ⟨rfl, hu⟩


/-- the object's own bits are claimed (used) after its emplacement -/
theorem encStep_own_used (o : Obj) (v : IVal) (s : EncState) (j : Nat) (hj : j < o.bl) :
    getBit (encStep o v s).used (absBit (o.pos s.origin s.cursorByte) o.k o.hl (j + o.bp)) = true := by
  have hml : (ord o.hl (toBytesBE o.k o.mask)).length = o.k := by rw [ord_length, toBytesBE_length]
  have hused : (encStep o v s).used = placeUsed (s.used ++ List.replicate ((padTo s.msg (o.pos s.origin s.cursorByte + o.k)).length - s.msg.length) 0)
      (o.pos s.origin s.cursorByte) o.k (ord o.hl (toBytesBE o.k o.mask)) := rfl
  have ht : j + o.bp < 8 * o.k := by unfold Obj.k; omega
  have hq : (j + o.bp) / 8 < o.k := by omega
  unfold getBit
  have hidx : absBit (o.pos s.origin s.cursorByte) o.k o.hl (j + o.bp) / 8
      = o.pos s.origin s.cursorByte + (if o.hl then o.k - 1 - (j + o.bp) / 8 else (j + o.bp) / 8) := by
    unfold absBit; omega
  have hbit : absBit (o.pos s.origin s.cursorByte) o.k o.hl (j + o.bp) % 8 = (j + o.bp) % 8 := by
    unfold absBit; omega
  have hoff : (if o.hl then o.k - 1 - (j + o.bp) / 8 else (j + o.bp) / 8) < o.k := by split <;> omega
  rw [hused, hidx, hbit, getD_placeUsed _ _ _ _ hml]
  have hin : o.pos s.origin s.cursorByte ≤ o.pos s.origin s.cursorByte + (if o.hl then o.k - 1 - (j + o.bp) / 8 else (j + o.bp) / 8) ∧
      o.pos s.origin s.cursorByte + (if o.hl then o.k - 1 - (j + o.bp) / 8 else (j + o.bp) / 8) < o.pos s.origin s.cursorByte + o.k := by
    omega
  rw [if_pos hin, Nat.add_sub_cancel_left, ord_getD o.hl _ (j + o.bp) o.k (toBytesBE_length _ _) hq, getD_toBytesBE]
  have hk1 : o.k - 1 - (j + o.bp) / 8 < o.k := by omega
  have h0 : o.k - 1 - (o.k - 1 - (j + o.bp) / 8) = (j + o.bp) / 8 := by omega
  simp only [hk1, if_true, h0]
  rw [Nat.testBit_or, testBit_byte_of _ _ _ (Nat.mod_lt _ (by decide))]
  have : 8 * ((j + o.bp) / 8) + (j + o.bp) % 8 = j + o.bp := by omega
  rw [this]
  unfold Obj.mask
  rw [Nat.testBit_mul_two_pow, Nat.testBit_two_pow_sub_one]
  simp [hj]

/-- the object's own bits carry the ODX representation of the value -/
theorem encStep_own_bits (o : Obj) (v : IVal) (s : EncState) (j : Nat) (hj : j < o.bl) :
    getBit (encStep o v s).msg (absBit (o.pos s.origin s.cursorByte) o.k o.hl (j + o.bp))
      = (o.raw v).testBit j := by
  have ht : j + o.bp < 8 * o.k := by unfold Obj.k; omega
  rw [encStep_msg, getBit_place_inside _ _ _ _ _ _ _ ht]
  unfold Obj.mask
  rw [Nat.testBit_mul_two_pow, Nat.testBit_mul_two_pow, Nat.testBit_two_pow_sub_one]
  simp [hj]

/-- what the decoder reads for an object depends only on the object's own bits -/
theorem C01_frame' (m1 m2 : Bytes) (h1 : AllBytes m1) (h2 : AllBytes m2) (pos bl bp : Nat) (hl : Bool)
    (hl1 : pos + (bl + bp + 7) / 8 ≤ m1.length) (hl2 : pos + (bl + bp + 7) / 8 ≤ m2.length)
    (hagree : ∀ j, j < bl → getBit m1 (absBit pos ((bl + bp + 7) / 8) hl (j + bp))
                           = getBit m2 (absBit pos ((bl + bp + 7) / 8) hl (j + bp))) :
    readNum m1 pos ((bl + bp + 7) / 8) hl / 2 ^ bp % 2 ^ bl = readNum m2 pos ((bl + bp + 7) / 8) hl / 2 ^ bp % 2 ^ bl := by
  apply Nat.eq_of_testBit_eq
  intro j
  rw [Nat.testBit_mod_two_pow, Nat.testBit_mod_two_pow, Nat.testBit_div_two_pow, Nat.testBit_div_two_pow,
    testBit_readNum _ h1 _ _ _ _ hl1, testBit_readNum _ h2 _ _ _ _ hl2]
  by_cases hj : j < bl
  · have : j + bp < 8 * ((bl + bp + 7) / 8) := by omega
    simp [hj, this, hagree j hj]
  · simp [hj]

/-- all objects of a flat parameter list, one after the other -/
def encAll : List (Obj × IVal) → EncState → EncState
  | [], s => s
  | (o, v) :: rest, s => encAll rest (encStep o v s)

def decAll : List Obj → DecState → List IVal × DecState
  | [], d => ([], d)
  | o :: rest, d => let r := decStep o d; let rs := decAll rest r.2; (r.1 :: rs.1, rs.2)

theorem encAll_warn_ge (ovs : List (Obj × IVal)) (s : EncState) : s.warn ≤ (encAll ovs s).warn := by
  induction ovs generalizing s with
  | nil => exact Nat.le_refl _
  | cons ov rest ih => exact Nat.le_trans (encStep_warn_ge ov.1 ov.2 s) (ih _)

theorem encAll_allBytes (ovs : List (Obj × IVal)) (s : EncState) (h : AllBytes s.msg) : AllBytes (encAll ovs s).msg := by
  induction ovs generalizing s with
  | nil => exact h
  | cons ov rest ih => exact ih _ (encStep_allBytes ov.1 ov.2 s h)

theorem encAll_length_ge (ovs : List (Obj × IVal)) (s : EncState) : s.msg.length ≤ (encAll ovs s).msg.length := by
  induction ovs generalizing s with
  | nil => exact Nat.le_refl _
  | cons ov rest ih =>
    refine Nat.le_trans ?_ (ih _)
    rw [encStep_length]; omega

/-- **Frame, whole suffix**: with no overlap warning, claimed bits keep their values to the end -/
theorem encAll_frame (ovs : List (Obj × IVal)) (s : EncState) (hw : (encAll ovs s).warn = s.warn) (a : Nat)
    (hu : getBit s.used a = true) : getBit (encAll ovs s).msg a = getBit s.msg a := by
  induction ovs generalizing s with
  | nil => rfl
  | cons ov rest ih =>
    obtain ⟨o, v⟩ := ov
    have h1 := encStep_warn_ge o v s
    have h2 := encAll_warn_ge rest (encStep o v s)
    have hstep : (encStep o v s).warn = s.warn := by simp only [encAll] at hw; omega
    have hrest : (encAll rest (encStep o v s)).warn = (encStep o v s).warn := by simp only [encAll] at hw; omega
    obtain ⟨hm, hu'⟩ := encStep_frame o v s hstep a hu
    simp only [encAll]
    rw [ih _ hrest hu', hm]


/-- the decoder, started where the encoder started, run on the encoder's final message, returns the
    values that were encoded and ends at the encoder's final cursor — provided no overlap was reported -/
theorem flat_core (ovs : List (Obj × IVal)) :
    ∀ (s : EncState) (d : DecState),
      (∀ ov ∈ ovs, ov.1.ok ∧ ov.1.inRange ov.2) → AllBytes s.msg →
      d.origin = s.origin → d.cursorByte = s.cursorByte → d.msg = (encAll ovs s).msg →
      (encAll ovs s).warn = s.warn →
      (decAll (ovs.map (·.1)) d).1 = ovs.map (fun ov => ov.2) ∧
      (decAll (ovs.map (·.1)) d).2.cursorByte = (encAll ovs s).cursorByte ∧
      (decAll (ovs.map (·.1)) d).2.origin = d.origin ∧ (decAll (ovs.map (·.1)) d).2.msg = d.msg := by
  induction ovs with
  | nil => intro s d _ _ _ hc _ _; simp [decAll, encAll, hc]
  | cons ov rest ih =>
    intro s d hok hall horig hcur hmsg hw
    obtain ⟨o, v⟩ := ov
    obtain ⟨ho, hr⟩ := hok (o, v) (List.mem_cons_self ..)
    have h1 := encStep_warn_ge o v s
    have h2 := encAll_warn_ge rest (encStep o v s)
    have hrest : (encAll rest (encStep o v s)).warn = (encStep o v s).warn := by simp only [encAll] at hw; omega
    simp only [encAll] at hmsg hw ⊢
    -- the first object decodes to v
    obtain ⟨hlt, hinv⟩ := o.raw_spec ho v hr
    have hall1 := encStep_allBytes o v s hall
    have hallF := encAll_allBytes rest _ hall1
    have hlen1 : o.pos s.origin s.cursorByte + o.k ≤ (encStep o v s).msg.length := by rw [encStep_length]; omega
    have hlenF : o.pos s.origin s.cursorByte + o.k ≤ (encAll rest (encStep o v s)).msg.length :=
      Nat.le_trans hlen1 (encAll_length_ge rest _)
    have hpos : o.pos d.origin d.cursorByte = o.pos s.origin s.cursorByte := by rw [horig, hcur]
    have hread : readNum d.msg (o.pos d.origin d.cursorByte) o.k o.hl / 2 ^ o.bp % 2 ^ o.bl = o.raw v := by
      rw [hmsg, hpos]
      have hfr := C01_frame' (encAll rest (encStep o v s)).msg (encStep o v s).msg hallF hall1
        (o.pos s.origin s.cursorByte) o.bl o.bp o.hl hlenF hlen1
        (fun j hj => encAll_frame rest _ hrest _ (encStep_own_used o v s j hj))
      unfold Obj.k at hfr ⊢
      rw [hfr]
      have := read_place_roundtrip s.msg hall (o.pos s.origin s.cursorByte) o.bl o.bp (o.raw v) o.hl hlt
      simp only at this
      rw [encStep_msg]
      exact this
    -- the rest by induction
    have ih' := ih (encStep o v s) (decStep o d).2 (fun ov h => hok ov (List.mem_cons_of_mem _ h)) hall1
      (by simp [decStep, encStep_origin, horig]) (by simp [decStep, encStep_cursor, hpos]) (by simp [decStep, hmsg]) hrest
    simp only [List.map_cons, decAll]
    refine ⟨?_, ih'.2.1, ?_, ?_⟩
    · rw [ih'.1]
      congr 1
      simp only [decStep, hread, hinv]
    · rw [ih'.2.2.1]; rfl
    · rw [ih'.2.2.2]; rfl

end OdxVerif.Codec
