import OdxVerif.Model.Decode
/-! `Multiplexer._get_default_case_key`: the switch key the encoder writes for the DEFAULT-CASE is claimed by no
    regular case — whatever the declaration order of the cases — so the decoder selects the default case again. -/
namespace OdxVerif.Codec

/-- lexicographic order on limits -/
def limLe (x y : Int × Int) : Prop := x.1 < y.1 ∨ (x.1 = y.1 ∧ x.2 ≤ y.2)

instance (x y : Int × Int) : Decidable (limLe x y) := by unfold limLe; infer_instance

def SortedLim : List (Int × Int) → Prop
  | [] => True
  | [_] => True
  | x :: y :: rest => limLe x y ∧ SortedLim (y :: rest)

theorem limLe_total (x y : Int × Int) : limLe x y ∨ limLe y x := by
  unfold limLe; omega

theorem mem_insertLimits (x : Int × Int) (l : List (Int × Int)) (z : Int × Int) :
    z ∈ insertLimits x l ↔ z = x ∨ z ∈ l := by
  induction l with
  | nil => simp [insertLimits]
  | cons y ys ih =>
    simp only [insertLimits]
    split
    · simp
    · simp only [List.mem_cons, ih]
      constructor
      · rintro (h | h | h)
        · exact Or.inr (Or.inl h)
        · exact Or.inl h
        · exact Or.inr (Or.inr h)
      · rintro (h | h | h)
        · exact Or.inr (Or.inl h)
        · exact Or.inl h
        · exact Or.inr (Or.inr h)

theorem sorted_insertLimits (x : Int × Int) (l : List (Int × Int)) (h : SortedLim l) : SortedLim (insertLimits x l) := by
  induction l with
  | nil => simp [insertLimits, SortedLim]
  | cons y ys ih =>
    simp only [insertLimits]
    split
    · rename_i hxy
      exact ⟨hxy, h⟩
    · rename_i hxy
      have hyx : limLe y x := by
        rcases limLe_total x y with h1 | h1
        · exact absurd h1 hxy
        · exact h1
      cases ys with
      | nil => simp [insertLimits, SortedLim, hyx]
      | cons z zs =>
        have hs := ih h.2
        simp only [insertLimits] at hs ⊢
        split
        · rename_i hxz
          rw [if_pos hxz] at hs
          exact ⟨hyx, hs⟩
        · rename_i hxz
          rw [if_neg hxz] at hs
          exact ⟨h.1, hs⟩

/-- the scan over the sorted limits -/
def scanKey (key : Int) (l : List (Int × Int)) : Int :=
  l.foldl (fun key lu => if lu.1 ≤ key ∧ key ≤ lu.2 then lu.2 + 1 else key) key

theorem scanKey_ge (key : Int) (l : List (Int × Int)) : key ≤ scanKey key l := by
  induction l generalizing key with
  | nil => exact Int.le_refl _
  | cons x xs ih =>
    simp only [scanKey, List.foldl_cons]
    split
    · rename_i h
      exact Int.le_trans (by omega) (ih (x.2 + 1))
    · exact ih key

theorem sorted_head_le (x : Int × Int) (l : List (Int × Int)) (h : SortedLim (x :: l)) : ∀ y ∈ l, x.1 ≤ y.1 := by
  induction l generalizing x with
  | nil => intro y hy; cases hy
  | cons z zs ih =>
    intro y hy
    have hxz : x.1 ≤ z.1 := by rcases h.1 with h1 | h1 <;> omega
    rcases List.mem_cons.mp hy with rfl | hy
    · exact hxz
    · exact Int.le_trans hxz (ih z h.2 y hy)

/-- scanning a sorted list: the result lies in none of the scanned intervals, provided the start key lies in none of
    the intervals that are "behind" (lower limit ≤ every remaining lower limit is all that is used) -/
theorem scanKey_unclaimed (l : List (Int × Int)) (hs : SortedLim l) (key : Int) :
    ∀ z ∈ l, ¬ (z.1 ≤ scanKey key l ∧ scanKey key l ≤ z.2) := by
  induction l generalizing key with
  | nil => intro z hz; cases hz
  | cons x xs ih =>
    intro z hz
    have hsx : SortedLim xs := by
      cases xs with
      | nil => trivial
      | cons y ys => exact hs.2
    simp only [scanKey, List.foldl_cons]
    rcases List.mem_cons.mp hz with rfl | hz
    · -- the head interval: after its step the key is outside, and it only grows … but it could re-enter? no: if it
      -- was inside it jumped behind the upper limit; if it was below the lower limit every later jump needs an
      -- interval containing the key, whose lower limit is ≥ the head's — so the key stays below; if above, it stays above
      by_cases hin : z.1 ≤ key ∧ key ≤ z.2
      · rw [if_pos hin]
        have := scanKey_ge (z.2 + 1) xs
        show ¬ (z.1 ≤ scanKey (z.2 + 1) xs ∧ scanKey (z.2 + 1) xs ≤ z.2)
        omega
      · rw [if_neg hin]
        show ¬ (z.1 ≤ scanKey key xs ∧ scanKey key xs ≤ z.2)
        by_cases hlow : key < z.1
        · -- the key never moves: every remaining interval starts at or after z.1 > key
          have hfix : scanKey key xs = key := by
            have hle := sorted_head_le z xs hs
            clear ih hz hsx hs
            induction xs with
            | nil => rfl
            | cons y ys ihy =>
              simp only [scanKey, List.foldl_cons]
              have hy := hle y (List.mem_cons_self ..)
              have : ¬ (y.1 ≤ key ∧ key ≤ y.2) := by omega
              rw [if_neg this]
              exact ihy (fun w hw => hle w (List.mem_cons_of_mem _ hw))
          rw [hfix]; omega
        · have := scanKey_ge key xs
          omega
    · exact ih hsx _ z hz

theorem sorted_foldl_insert (cases : List MuxCaseD) (acc : List (Int × Int)) (h : SortedLim acc) :
    SortedLim (cases.foldl (fun acc c => insertLimits (c.lower, c.upper) acc) acc) := by
  induction cases generalizing acc with
  | nil => exact h
  | cons c cs ih => exact ih _ (sorted_insertLimits _ _ h)

theorem mem_foldl_insert (cases : List MuxCaseD) (acc : List (Int × Int)) (c : MuxCaseD) (hc : c ∈ cases) :
    (c.lower, c.upper) ∈ cases.foldl (fun acc c => insertLimits (c.lower, c.upper) acc) acc := by
  induction cases generalizing acc with
  | nil => cases hc
  | cons x xs ih =>
    simp only [List.foldl_cons]
    rcases List.mem_cons.mp hc with rfl | hc
    · -- once inserted, it stays
      have keep : ∀ (ys : List MuxCaseD) (acc : List (Int × Int)) (z : Int × Int), z ∈ acc →
          z ∈ ys.foldl (fun acc c => insertLimits (c.lower, c.upper) acc) acc := by
        intro ys
        induction ys with
        | nil => intro acc z hz; exact hz
        | cons y ys ihy =>
          intro acc z hz
          exact ihy _ z ((mem_insertLimits _ _ _).mpr (Or.inr hz))
      exact keep xs _ _ ((mem_insertLimits _ _ _).mpr (Or.inl rfl))
    · exact ih _ hc

/-- **the default-case key is claimed by no regular case** (any declaration order, overlapping cases allowed) -/
theorem defaultCaseKey_unclaimed (cases : List MuxCaseD) :
    ∀ c ∈ cases, ¬ (c.lower ≤ defaultCaseKey cases ∧ defaultCaseKey cases ≤ c.upper) := by
  intro c hc
  have hs := sorted_foldl_insert cases [] trivial
  have hm := mem_foldl_insert cases [] c hc
  exact scanKey_unclaimed _ hs 0 _ hm

theorem defaultCaseKey_nonneg (cases : List MuxCaseD) : 0 ≤ defaultCaseKey cases := scanKey_ge 0 _

/-- hence the decoder's case look-up on that key finds no regular case and falls through to the DEFAULT-CASE -/
theorem caseOfKey_default (cases : List MuxCaseD) : caseOfKey (defaultCaseKey cases) cases = none := by
  have h := defaultCaseKey_unclaimed cases
  generalize defaultCaseKey cases = k at h
  induction cases with
  | nil => rfl
  | cons c cs ih =>
    simp only [caseOfKey]
    rw [if_neg (h c (List.mem_cons_self ..))]
    exact ih (fun x hx => h x (List.mem_cons_of_mem _ hx))

end OdxVerif.Codec
