import OdxVerif.Proofs.CompStatic2
import OdxVerif.Proofs.CompCompu3RejectDescribed
/-! Compositional tier, static answers (task W24, C08) for descriptions with conversion leaves (`DescribedP3`).
    * **Required parameters**: `DescribedP3.fill_none` (a VALUE over a compu DOP / DTC-DOP without default is required and cannot
      be omitted), `PDescs.fill_omit3`.
    * **Static length**: a VALUE parameter over a compu-method DOP (`Dop.simple` over the standard-length type of `o`, any compu
      method) reports the static length of its diag-coded type, `o.bl` bits (`PDesc.ofConv_static`: static with the shape of
      the tier-2 leaf `Tree.int o _`); `StaticP3` = `StaticP` plus such leaves, at any depth of structures; `static_length_nested3`.
      A DTC-DOP reports NO static length (`DopBase.get_static_bit_length`, not overridden by `DtcDop`). -/
namespace OdxVerif.Codec
open OdxVerif.Bits OdxVerif.OdxM

theorem DescribedP3.fill_none {p : PDesc} (h : DescribedP3 p) : (p.fill none).isSome = !p.param.kind.required := by
  cases h with
  | old p hp => exact hp.fill_none
  | _ => rfl

/-- omitted non-required parameters do not matter (`PDescs.fill_omit2` for `DescribedP3`) -/
theorem PDescs.fill_omit3 : (ps : List PDesc) → (∀ p ∈ ps, DescribedP3 p) → ∀ (kvs kvs2 : List (String × PVal)),
    (∀ p ∈ ps, lookupV p.name kvs2 = lookupV p.name kvs ∨ (p.param.kind.required = false ∧ lookupV p.name kvs2 = none)) →
    (PDescs.fill ps kvs).isSome = true → (PDescs.fill ps kvs2).isSome = true
  | [], _, _, _, _, _ => rfl
  | p :: ps, hd, kvs, kvs2, hag, h => by
    simp only [PDescs.fill] at h ⊢
    cases h1 : p.fill (lookupV p.name kvs) with
    | none => rw [h1] at h; cases h
    | some g =>
      cases h2 : PDescs.fill ps kvs with
      | none => rw [h1, h2] at h; cases h
      | some gs =>
        have ih := PDescs.fill_omit3 ps (fun x hx => hd x (List.mem_cons_of_mem _ hx)) kvs kvs2
          (fun x hx => hag x (List.mem_cons_of_mem _ hx)) (by rw [h2]; rfl)
        have hp : (p.fill (lookupV p.name kvs2)).isSome = true := by
          rcases hag p (List.mem_cons_self ..) with he | ⟨hr, he⟩
          · rw [he, h1]; rfl
          · rw [he, (hd p (List.mem_cons_self ..)).fill_none, hr]; rfl
        cases h3 : p.fill (lookupV p.name kvs2) with
        | none => rw [h3] at hp; cases hp
        | some g2 =>
          cases h4 : PDescs.fill ps kvs2 with
          | none => rw [h4] at ih; cases ih
          | some gs2 => rfl

/-! ### static length -/

/-- **a VALUE parameter over a compu-method DOP is static with the shape of the object of its internal value**: the model's
    static computation advances by the `o.bl` bits of the diag-coded type, and every accepted component encodes as the leaf
    `Tree.int o i` (`i` the internal value) -/
theorem PDesc.ofConv_static (o : Obj) (phys : BaseType) (cm : CCompu) (c : ConvSpec) (ho : o.ok)
    (hc : c.Ok o (.simple o.dct phys cm)) (d : IVal) : (PDesc.ofConv o (.simple o.dct phys cm) c).Static (.int o d) where
  step := by
    intro rest cu m
    rw [← Tree.static_stepS (.int o d) rest cu m]
    simp only [PDesc.ofConv, Tree.toParam, Obj.toParam, Obj.dct, paramsStaticLen, PKind.staticBitLen, Dop.staticBitLen]
  acc := by
    intro pv g hf
    cases pv with
    | none => simp [PDesc.ofConv] at hf
    | some x =>
      simp only [PDesc.ofConv] at hf
      cases hcx : c.conv x with
      | none => rw [hcx] at hf; cases hf
      | some r =>
        obtain ⟨val, i⟩ := r
        rw [hcx] at hf
        simp only [Option.map_some, Option.some.injEq] at hf
        subst hf
        exact ⟨.int o i, ⟨ho, (hc.acc x val i hcx).1⟩, rfl, rfl, rfl, rfl, fun _ => rfl⟩

/-- a DTC-DOP parameter has no static length (`DtcDop` inherits `DopBase.get_static_bit_length`, which answers `None`) -/
theorem DtcShape.no_static_length (l : DtcShape) : l.pdesc.param.kind.staticBitLen = none := rfl

/-- **the static descriptions, with compu-method leaves** -/
inductive StaticP3 : PDesc → Tree → Prop
  | old (p : PDesc) (t : Tree) : StaticP p t → StaticP3 p t
  | conv (o : Obj) (phys : BaseType) (cm : CCompu) (c : ConvSpec) (d : IVal) : o.ok → c.Ok o (.simple o.dct phys cm) →
      StaticP3 (PDesc.ofConv o (.simple o.dct phys cm) c) (.int o d)
  | struct (name : String) (bp : Option Nat) (ps : List PDesc) (ts : List Tree) :
      ps.length = ts.length → (∀ (i : Nat) (h1 : i < ps.length) (h2 : i < ts.length), StaticP3 ps[i] ts[i]) → PDescs.namesOk ps →
      StaticP3 (PDesc.ofValue name bp (DDesc.struct ps)) (.struct name bp ts)

theorem StaticPs.of_pointwise3 : ∀ (ps : List PDesc) (ts : List Tree), ps.length = ts.length →
    (∀ (i : Nat) (h1 : i < ps.length) (h2 : i < ts.length), ps[i].OkW ∧ ps[i].mayEop = false ∧ ps[i].Static ts[i]) →
    (∀ p ∈ ps, p.OkW ∧ p.mayEop = false) ∧ StaticPs ps ts
  | [], [], _, _ => And.intro (fun _ hp => nomatch hp) StaticPs.nil
  | [], _ :: _, hl, _ => by cases hl
  | _ :: _, [], hl, _ => by cases hl
  | p :: ps, t :: ts, hl, h => by
    have h0 := h 0 (Nat.zero_lt_succ _) (Nat.zero_lt_succ _)
    have ih := StaticPs.of_pointwise3 ps ts (by simpa using hl)
      (fun i h1 h2 => h (i + 1) (Nat.succ_lt_succ h1) (Nat.succ_lt_succ h2))
    refine ⟨?_, .cons h0.2.2 ih.2⟩
    intro x hx
    cases hx with
    | head => exact ⟨h0.1, h0.2.1⟩
    | tail _ hm => exact ih.1 x hm

theorem StaticP3.sound {p : PDesc} {t : Tree} (h : StaticP3 p t) : p.OkW ∧ p.mayEop = false ∧ p.Static t := by
  induction h with
  | old p t hs => exact ⟨hs.sound.1.ok.toW, hs.sound.2.1, hs.sound.2.2⟩
  | conv o phys cm c d ho hc => exact ⟨PDesc.ofConv_okW o _ c ho hc, rfl, PDesc.ofConv_static o phys cm c ho hc d⟩
  | struct name bp ps ts hlen _ hn ih =>
    have hlist := StaticPs.of_pointwise3 ps ts hlen ih
    have hno : ∀ p ∈ ps, p.mayEop = false := fun p hp => (hlist.1 p hp).2
    have hany : PDescs.anyEop ps = false := by
      simp only [PDescs.anyEop, List.any_eq_false]
      intro x hx
      simp [hno x hx]
    exact ⟨PDesc.ofValue_okW name bp _ (DDesc.struct_okW ps (fun p hp => (hlist.1 p hp).1) hn (PDescs.eopLast_of_all_false ps hno)),
      hany, PDesc.struct_static name bp ps ts hlist.2⟩

/-- **static length = 8 × the length of every accepted encoding** (`static_length_nested` with compu-method leaves; the input
    hypothesis `wfAtoms` as in `C04_nested`) -/
theorem static_length_nested3 (ps : List PDesc) (ts : List Tree) (hlen : ps.length = ts.length)
    (hs : ∀ (i : Nat) (h1 : i < ps.length) (h2 : i < ts.length), StaticP3 ps[i] ts[i]) (hn : PDescs.namesOk ps)
    (hc : Trees.cursorOkS ts = true) (pv : PVal) (hwf : pv.wfAtoms = true) (trig : Option Bytes)
    (hneed : (DDesc.struct ps).need pv ≤ modelFuel)
    (pdu : Bytes) (w : Nat) (henc : encodeMessage none (PDescs.toParams ps) pv trig true = .ok (pdu, w)) :
    (Dop.struct none (PDescs.toParams ps)).staticBitLen = some (8 * pdu.length) := by
  have hlist := StaticPs.of_pointwise3 ps ts hlen (fun i h1 h2 => (hs i h1 h2).sound)
  have hok : ∀ p ∈ ps, p.OkW := fun p hp => (hlist.1 p hp).1
  have hl : PDescs.eopLast ps := PDescs.eopLast_of_all_false ps (fun p hp => (hlist.1 p hp).2)
  have hS := DDesc.struct_okW ps hok hn hl
  cases hf : (DDesc.struct ps).fill pv with
  | none =>
    obtain ⟨e, s', hrun, _⟩ := hS.rej pv hwf hf modelFuel hneed { trig := trig, isEndOfPdu := true } rfl (fun _ => rfl)
    have hrun' : encodeDop modelFuel (.struct none (PDescs.toParams ps)) pv { trig := trig, isEndOfPdu := true } true
        = .error (e, s') := hrun
    unfold encodeMessage at henc
    rw [hrun'] at henc
    cases henc
  | some c =>
    have hcf := hS.acc pv c hf
    obtain ⟨kvs, gs, _, _, hgs, rfl⟩ := DDesc.struct_fill_inv ps pv c hf
    let s0 : EncState := { trig := trig, isEndOfPdu := true }
    obtain ⟨s1, hrun, hcore, _⟩ := hcf.ok.encode_eq modelFuel (Nat.le_trans hcf.need hneed) s0 rfl (fun _ => rfl)
    rw [hcf.dop, hcf.sup] at hrun
    have hrun' : encodeDop modelFuel (.struct none (PDescs.toParams ps)) pv { trig := trig, isEndOfPdu := true } true
        = .ok ((), s1) := hrun
    unfold encodeMessage at henc
    rw [hrun'] at henc
    simp only [Except.ok.injEq, Prod.mk.injEq] at henc
    obtain ⟨ts', b0, _, b2, b3, _, _, b6⟩ := hlist.2.acc kvs gs hgs
    have hmsg : s1.msg = ((Trees.pair ts').enc s0).msg := by
      rw [hcore.1]
      show ((Comps.pair gs).enc { s0 with origin := s0.cursorByte }).msg = _
      rw [b6]
    have hst := static_length_treeS ts' b0 (by rw [b3]; exact hc) s0 rfl rfl rfl
    simp only [Dop.staticBitLen, Trees.static_eqS, Option.map_some, Option.some.injEq] at hst
    simp only [Dop.staticBitLen, hlist.2.static_eq, Option.map_some]
    rw [← henc.1, hmsg, ← b2, hst]

end OdxVerif.Codec
