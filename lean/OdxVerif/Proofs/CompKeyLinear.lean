import OdxVerif.Proofs.CompKeyLeaves
import OdxVerif.Proofs.CompuDop
/-! LENGTH-KEY / PARAM-LENGTH-INFO-TYPE (task W13): a LENGTH-KEY whose DOP has a LINEAR compu method (the usual case in
    practice: the key counts bytes, `physical = 8 · coded`).  `KeyDop.linear`: such a DOP is a `KeyDop` — the checks of
    `encode_placeholder_into_pdu` (`is_valid_physical_value`) and of `encode_value_into_pdu` (fix 069655f: "make sure that
    the length key is able to represent it") pass, the second pass writes the coded value `i`, the decoder converts it back to
    the bit length `v` — given the facts about the concrete values that evaluation decides (`validP v`, `p2i v = i`, `validI i`,
    `i2p i = v`, the exactness guards of `Model/CodecCompu.lean`). -/
set_option linter.unusedSimpArgs false
set_option linter.unusedVariables false
namespace OdxVerif.Codec
open OdxVerif.Bits OdxVerif.OdxM OdxVerif.Compu

/-- the LINEAR DOP of a LENGTH-KEY over the unsigned object `o` -/
def Obj.linKeyDop (o : Obj) (phys : BaseType) (d : LinDesc) : Dop :=
  .simple (.std .uint32 o.enc o.hl o.bl none false) phys (.linear d)

theorem methodP2I_linear_int {σ : Type} (s : LinSeg) (z i : Int)
    (hvp : (Method.linear s).validP (.int z) = .ok true) (hex : exactP s z = true)
    (hconv : (Method.linear s).p2i (.int z) = .ok (.int i)) (st : σ) (strict : Bool) :
    (methodP2I (.linear s) (.int z) : OdxM σ Val) st strict = .ok (.int i, st) := by
  have hpa : s.physApplies (.int z) = .ok true := hvp
  have hcv : s.convP2I (.int z) = .ok (.int i) := by
    simpa [Method.p2i, hpa, bind, Except.bind] using hconv
  simp [methodP2I, hpa, Val.num?, hex, hcv, bind, run_bind, run_pure, pure]

theorem methodI2P_linear_int {σ : Type} (arith : Err) (s : LinSeg) (i z : Int) (hd : s.denom ≠ 0)
    (hvi : (Method.linear s).validI (.int i) = .ok true) (hex : exactI s i = true)
    (hconv : (Method.linear s).i2p (.int i) = .ok (.int z)) (st : σ) (strict : Bool) :
    (methodI2P arith (.linear s) (.int i) : OdxM σ (Option Val)) st strict = .ok (some (.int z), st) := by
  have hia : s.intApplies (.int i) = .ok true := hvi
  have hcv : s.convI2P (.int i) = .ok (.int z) := by
    simpa [Method.i2p, hia, bind, Except.bind] using hconv
  simp [methodI2P, hia, Val.num?, hd, hex, hcv, bind, run_bind, run_pure, pure]

/-- **a LENGTH-KEY behind a LINEAR compu method** -/
theorem KeyDop.linear (o : Obj) (hk : o.keyOk) (phys : BaseType) (d : LinDesc) (s : LinSeg) (v i : Int)
    (hr : o.inRange (.int i))
    (hm : linMethod? d .uint32 phys = some (.linear s)) (hd : s.denom ≠ 0)
    (hvp : (Method.linear s).validP (.int v) = .ok true) (hexP : exactP s v = true)
    (hp2i : (Method.linear s).p2i (.int v) = .ok (.int i))
    (hvi : (Method.linear s).validI (.int i) = .ok true) (hexI : exactI s i = true)
    (hi2p : (Method.linear s).i2p (.int i) = .ok (.int v)) :
    KeyDop (o.linKeyDop phys d) o v i where
  obj := ⟨hk, hr⟩
  static := rfl
  valid := by
    intro st
    simp [Obj.linKeyDop, keyValidCheck, cmKeyValid, Dct.baseType, CCompu.method?, hm, hvp, pure, run_pure]
  repr := by
    intro st
    have h1 := methodP2I_linear_int (σ := EncState) s v i hvp hexP hp2i
    have h2 := methodI2P_linear_int (σ := EncState) .foreign s i v hd hvi hexI hi2p
    simp [Obj.linKeyDop, keyReprCheck, cmKeyRepr, Dct.baseType, CCompu.method?, hm, hvp, bind, run_bind, h1, h2, Val.pyEq,
      Val.num?, pure, run_pure]
  enc := by
    intro fuel pos st
    have h := encodeDop_key o hk i hr pos fuel st
    simp only [Obj.keyDop, encodeDop, typeAdmits, Bool.not_true, Bool.false_eq_true, if_false, run_ite] at h
    simp only [Obj.linKeyDop, encodeDop, CCompu.method?, Dct.baseType, hm, bind, run_bind,
      dopP2I_linear_int s v i hvp hexP hp2i hvi]
    exact h
  dec := by
    intro fuel dd hlen hv
    have h := decodeDop_key o hk i fuel dd hlen hv
    simp only [Obj.keyDop, decodeDop, bind, run_bind, pure, run_pure] at h
    simp only [Obj.linKeyDop, decodeDop, CCompu.method?, Dct.baseType, hm, bind, run_bind]
    generalize hrun : decodeDct (.std .uint32 o.enc o.hl o.bl none false)
      { dd with cursorByte := o.pos dd.origin dd.cursorByte, cursorBit := o.bitPos.getD 0 } true = r at h ⊢
    cases r with
    | error e => simp at h
    | ok q =>
      obtain ⟨iv, d'⟩ := q
      simp only [Except.ok.injEq, Prod.mk.injEq, PVal.atom.injEq] at h
      obtain ⟨h1, h2⟩ := h
      subst h1 h2
      simp only [dopI2P_linear_int s i v hd hvi hexI hi2p, pure, run_pure]

end OdxVerif.Codec
