import OdxVerif.Proofs.Compose
/-! Compositional components, extension W11 (5a): small tools for the DYNAMIC-ENDMARKER-FIELD — the bit cursor behind
    `emplace_atomic_value` (the scheme of `Proofs/DynLeafEop.lean` with the invariant "bit cursor = 0"), and a pair whose
    cursor is put back (`Pair.peek`: MCD-2 D 7.3.6.10.5, the end marker "is not consumed").  Core Lean only. -/
namespace OdxVerif.Codec
open OdxVerif.OdxM OdxVerif.Bits

/-- the bit cursor is 0 (`ref`: dummy, keeps the shape of `Proofs/DynLeafEop.lean`) -/
def CbZero (_ref : Unit) (s : EncState) : Prop := s.cursorBit = 0

/-- a computation that keeps `CbZero ref` (on success) -/
def KB {α : Type} (ref : Unit) (m : EncM α) : Prop :=
  ∀ s st a s', CbZero ref s → m s st = .ok (a, s') → CbZero ref s'

theorem kb_pure {α : Type} (ref : Unit) (a : α) : KB ref (Pure.pure a : EncM α) := by
  intro s st b s' hs h; cases h; exact hs
theorem kb_pure' {α : Type} (ref : Unit) (a : α) : KB ref (OdxM.pure a : EncM α) := by
  intro s st b s' hs h; cases h; exact hs
theorem kb_odxraise (ref : Unit) (e : Err) : KB ref (odxraise e : EncM Unit) := by
  intro s st b s' hs h
  cases st <;> simp [odxraise] at h
  obtain ⟨_, rfl⟩ := h; exact hs
theorem kb_raise {α : Type} (ref : Unit) (e : Err) : KB ref (raise e : EncM α) := by
  intro s st b s' hs h; simp [raise] at h
theorem kb_odxassert (ref : Unit) (c : Bool) : KB ref (odxassert c : EncM Unit) := by
  unfold odxassert; split
  · exact kb_pure' ref ()
  · exact kb_odxraise ref _
theorem kb_modifyS (ref : Unit) (f : EncState → EncState) (hf : ∀ s, CbZero ref s → CbZero ref (f s)) :
    KB ref (modifyS f : EncM Unit) := by
  intro s st b s' hs h; cases h; exact hf s hs
theorem kb_setS (ref : Unit) (t : EncState) (ht : CbZero ref t) : KB ref (setS t : EncM Unit) := by
  intro s st b s' _ h; cases h; exact ht

theorem kb_bind' {α β : Type} (ref : Unit) (m : EncM α) (f : α → EncM β) (hm : KB ref m) (hf : ∀ a, KB ref (f a)) :
    KB ref (OdxM.bind m f) := by
  intro s st b s' hs h
  unfold OdxM.bind at h
  cases hms : m s st with
  | error e => rw [hms] at h; cases h
  | ok p =>
    obtain ⟨a, s1⟩ := p
    rw [hms] at h
    exact hf a s1 st b s' (hm s st a s1 hs hms) h
theorem kb_bind {α β : Type} (ref : Unit) (m : EncM α) (f : α → EncM β) (hm : KB ref m) (hf : ∀ a, KB ref (f a)) :
    KB ref (m >>= f) := kb_bind' ref m f hm hf

/-- reading the state: what follows may use that the state read satisfies the invariant (the save/restore pattern) -/
theorem kb_getS_bind' {β : Type} (ref : Unit) (f : EncState → EncM β) (hf : ∀ s0, CbZero ref s0 → KB ref (f s0)) :
    KB ref (OdxM.bind getS f) := by
  intro s st b s' hs h
  exact hf s hs s st b s' hs h
theorem kb_getS_bind {β : Type} (ref : Unit) (f : EncState → EncM β) (hf : ∀ s0, CbZero ref s0 → KB ref (f s0)) :
    KB ref (getS >>= f) := kb_getS_bind' ref f hf

theorem kb_ite {α : Type} (ref : Unit) (c : Prop) [Decidable c] (a b : EncM α) (ha : KB ref a) (hb : KB ref b) :
    KB ref (if c then a else b) := by split <;> assumption

attribute [irreducible] KB

/-- side goals of `kb_modifyS` / `kb_setS`: the flag is untouched, cleared, or restored from a state that had the invariant -/
macro "kb_side" : tactic =>
  `(tactic| ((try intro s hs); first | (dsimp only [CbZero] at *; first | assumption | rfl) | (simp only [CbZero])))

macro "kb_step" : tactic =>
  `(tactic| first
    | exact kb_pure _ _ | exact kb_pure' _ _ | exact kb_odxraise _ _ | exact kb_raise _ _ | exact kb_odxassert _ _
    | assumption
    | (with_reducible apply kb_getS_bind; intro s0 hs0) | (with_reducible apply kb_getS_bind'; intro s0 hs0)
    | (apply kb_modifyS; kb_side) | (apply kb_setS; kb_side)
    | apply kb_bind | apply kb_bind' | apply kb_ite
    | intro _)
macro "kbb" : tactic => `(tactic| repeat (first | split | kb_step))

theorem kb_emplaceBytes (ref : Unit) (new : Bytes) (mask : Option Bytes) : KB ref (emplaceBytes new mask) := by
  unfold emplaceBytes; kbb

theorem kb_rawOfInt32 (ref : Unit) (enc : Option Enc) (bl : Nat) (v : Int) : KB ref (rawOfInt32 enc bl v) := by
  unfold rawOfInt32; kbb
theorem kb_rawOfUInt32 (ref : Unit) (enc : Option Enc) (bl : Nat) (v : Int) : KB ref (rawOfUInt32 enc bl v) := by
  unfold rawOfUInt32; kbb
theorem kb_fitBytes (ref : Unit) (raw : Bytes) (bl : Nat) : KB ref (fitBytes raw bl) := by
  unfold fitBytes; kbb


macro "kbb'" : tactic => `(tactic| repeat (first
    | exact kb_emplaceBytes _ _ _ | exact kb_rawOfInt32 _ _ _ _ | exact kb_rawOfUInt32 _ _ _ _ | exact kb_fitBytes _ _ _
    | kb_step | split))

theorem kb_emplaceAtomic (ref : Unit) (v : IVal) (bl : Nat) (bt : BaseType) (enc : Option Enc) (hl : Bool) (m : Option Bytes) :
    KB ref (emplaceAtomic v bl bt enc hl m) := by
  unfold emplaceAtomic
  dsimp only
  split
  · apply kb_bind
    · exact kb_raise _ _
    · intro _
      apply kb_bind
      · cases bt <;> cases v <;> simp only [] <;> kbb'
      · intro p
        kbb'
  · apply kb_bind
    · cases bt <;> cases v <;> simp only [] <;> kbb'
    · intro p
      kbb'


/-- **encoding a standard-length simple DOP at bit cursor 0 leaves the bit cursor at 0** -/
theorem encodeDop_std_cursorBit (f : Nat) (bt : BaseType) (enc : Option Enc) (hl : Bool) (bl : Nat) (c : Bool) (phys : BaseType)
    (pv : PVal) (s s' : EncState) (st : Bool)
    (h : encodeDop (f + 1) (.simple (.std bt enc hl bl none c) phys .identical) pv s st = .ok ((), s')) (hs : s.cursorBit = 0) :
    s'.cursorBit = 0 := by
  have hk : KB () (encodeDop (f + 1) (.simple (.std bt enc hl bl none c) phys .identical) pv) := by
    unfold encodeDop
    cases pv <;> simp only [] <;> (try exact kb_raise _ _)
    split
    · exact kb_raise _ _
    · unfold encodeDct
      exact kb_emplaceAtomic _ _ _ _ _ _ _
  unfold KB at hk
  exact hk s st () s' hs h

/-! ### a pair whose cursor is put back -/

/-- encode / decode `c`, then put the cursor back where it was; `fits` records that the decoder reads `c`'s value -/
def Pair.peek {α : Type} (c : Pair α) : Pair Unit where
  enc := fun s => { c.enc s with cursorByte := s.cursorByte }
  dec := fun d => ((), d)
  val := ()
  fits := fun d => c.fits d ∧ (c.dec d).1 = c.val

theorem Good.peek {α : Type} {c : Pair α} (hc : Good c) : Good c.peek where
  warn_mono := hc.warn_mono
  frame := hc.frame
  allBytes := hc.allBytes
  len_mono := hc.len_mono
  origin := hc.origin
  rt := by
    intro s d hall hw horig hcur hdall hlen hagree
    obtain ⟨v1, _, _, _, f1⟩ := hc.rt s d hall hw horig hcur hdall hlen hagree
    exact ⟨rfl, hcur, rfl, rfl, f1, v1⟩
  core := by
    intro s t h
    have := hc.core s t h
    exact ⟨this.1, this.2.1, this.2.2.1, h.2.2.2.1, this.2.2.2.2⟩

end OdxVerif.Codec
