import OdxVerif.Proofs.CompRejectMux
/-! Compositional tier, rejection side (task W14, C04): the inductive class `DescribedP` of parameter DESCRIPTIONS (no values
    baked in) mirroring `Described` (`Proofs/CompDescribed.lean`) — leaves, structures, the three field kinds, multiplexers, in
    any nesting — is sound (`DescribedP.ok : DescribedP p → p.Ok`); and the message level: the complete case split of strict
    `Request.encode` on a list of described parameters and ANY supplied value (`encodeMessage_nested_cases`). -/
namespace OdxVerif.Codec
open OdxVerif.Bits OdxVerif.OdxM

/-- a CASE of a multiplexer with the parameter descriptions of its structure -/
structure MuxShapeCase where
  name : String
  lo : Int
  up : Int
  kids : List PDesc

def MuxShapeCase.toDesc (c : MuxShapeCase) : MuxCaseDesc := ⟨c.name, c.lo, c.up, DDesc.struct c.kids⟩

/-- a multiplexer with all its cases -/
structure MuxShape where
  muxBp : Nat
  swBp : Nat
  key : Obj
  cases : List MuxShapeCase
  dflt : Option (String × List PDesc)

def MuxShape.toDesc (m : MuxShape) : MuxDesc :=
  { muxBp := m.muxBp, swBp := m.swBp, key := m.key, cases := m.cases.map MuxShapeCase.toDesc,
    dflt := match m.dflt with
      | some (n, kids) => some (n, DDesc.struct kids)
      | none => none }

/-- **the described parameter descriptions**: VALUE (integer kinds) with or without PHYSICAL-DEFAULT-VALUE, CODED-CONST and
    PHYS-CONST over the nine leaf kinds, and VALUE parameters typed by a STRUCTURE, STATIC-FIELD, DYNAMIC-LENGTH-FIELD,
    END-OF-PDU-FIELD or MULTIPLEXER whose parameters / item structure / case structures are described again.  Side conditions
    are on the description only: distinct sibling names, an END-OF-PDU-FIELD only in last position and not inside field items,
    integer count / switch-key objects, the count object before OFFSET, items of dynamic fields that consume at least one byte
    (`lastAdv`: a lower bound read off the description), multiplexer cases the decoder finds back (`casesOk`). -/
inductive DescribedP : PDesc → Prop
  | value (o : Obj) : o.ok → o.isInt → DescribedP (PDesc.ofObjValue o (fun _ => true))
  | valueDefault (o : Obj) (dv : IVal) : o.ok → o.isInt → o.inRange dv → DescribedP (PDesc.ofObjDefault o dv (fun _ => true))
  | const (o : Obj) (c : IVal) : o.ok → o.inRange c → DescribedP (PDesc.ofObjConst o c)
  | physConst (o : Obj) (c : IVal) : o.ok → o.inRange c → DescribedP (PDesc.ofObjPhysConst o c)
  | struct (name : String) (bp : Option Nat) (ps : List PDesc) :
      (∀ p ∈ ps, DescribedP p) → PDescs.namesOk ps → PDescs.eopLast ps →
      DescribedP (PDesc.ofValue name bp (DDesc.struct ps))
  | staticField (name : String) (bp : Option Nat) (count itemSize : Nat) (shape : List PDesc) :
      (∀ p ∈ shape, DescribedP p) → PDescs.namesOk shape → PDescs.anyEop shape = false →
      DescribedP (PDesc.ofValue name bp (DDesc.staticField count itemSize (DDesc.struct shape)))
  | dynLenField (name : String) (bp : Option Nat) (l : DynLayout) (shape : List PDesc) :
      (∀ p ∈ shape, DescribedP p) → PDescs.namesOk shape → PDescs.anyEop shape = false → 1 ≤ PDescs.lastAdv shape →
      l.cntObj.ok → l.cntObj.isInt → l.cntBp + l.cntObj.k ≤ l.offset →
      DescribedP (PDesc.ofValue name bp (DDesc.dynLenField l (DDesc.struct shape)))
  | eopField (name : String) (bp : Option Nat) (mn mx : Option Nat) (shape : List PDesc) :
      (∀ p ∈ shape, DescribedP p) → PDescs.namesOk shape → PDescs.anyEop shape = false → 1 ≤ PDescs.lastAdv shape →
      DescribedP (PDesc.ofValue name bp (DDesc.eopField mn mx (DDesc.struct shape)))
  | mux (name : String) (bp : Option Nat) (m : MuxShape) :
      (∀ c ∈ m.cases, ∀ p ∈ c.kids, DescribedP p) → (∀ c ∈ m.cases, PDescs.namesOk c.kids ∧ PDescs.eopLast c.kids) →
      (∀ dn kids, m.dflt = some (dn, kids) → (∀ p ∈ kids, DescribedP p)) →
      (∀ dn kids, m.dflt = some (dn, kids) → PDescs.namesOk kids ∧ PDescs.eopLast kids) →
      m.toDesc.keyObj.ok → m.toDesc.keyObj.isInt → m.toDesc.casesOk →
      DescribedP (PDesc.ofValue name bp (DDesc.mux m.toDesc))

theorem PDescs.eopLast_of_noEop : (ps : List PDesc) → PDescs.anyEop ps = false → PDescs.eopLast ps
  | [], _ => trivial
  | [_], _ => trivial
  | p :: q :: rest, h => by
    simp only [PDescs.anyEop, List.any_cons, Bool.or_eq_false_iff] at h
    exact ⟨h.1, PDescs.eopLast_of_noEop (q :: rest) (by simp only [PDescs.anyEop, List.any_cons, Bool.or_eq_false_iff]; exact h.2)⟩

/-- **soundness of `DescribedP`** -/
theorem DescribedP.ok {p : PDesc} (h : DescribedP p) : p.Ok := by
  induction h with
  | value o ho hint => exact PDesc.ofObjValue_ok o _ ho (o.rejects_of_int ho hint)
  | valueDefault o dv ho hint hdv => exact PDesc.ofObjDefault_ok o dv _ ho hdv (o.rejects_of_int ho hint)
  | const o c ho hc => exact PDesc.ofObjConst_ok o c ho hc
  | physConst o c ho hc => exact PDesc.ofObjPhysConst_ok o c ho hc
  | struct name bp ps _ hn hl ih => exact PDesc.ofValue_ok name bp _ (DDesc.struct_ok ps ih hn hl)
  | staticField name bp count n shape _ hn hne ih =>
    exact PDesc.ofValue_ok name bp _ (DDesc.staticField_ok count n _
      (DDesc.struct_ok shape ih hn (PDescs.eopLast_of_noEop shape hne)) hne)
  | dynLenField name bp l shape _ hn hne hadv hc hint hoff ih =>
    exact PDesc.ofValue_ok name bp _ (DDesc.dynLenField_ok l _
      (DDesc.struct_ok shape ih hn (PDescs.eopLast_of_noEop shape hne)) hne hadv hc hint hoff)
  | eopField name bp mn mx shape _ hn hne hadv ih =>
    exact PDesc.ofValue_ok name bp _ (DDesc.eopField_ok mn mx _
      (DDesc.struct_ok shape ih hn (PDescs.eopLast_of_noEop shape hne)) hne hadv)
  | mux name bp m _ hcs _ hds hk hint hcases ih ihd =>
    refine PDesc.ofValue_ok name bp _ (DDesc.mux_ok m.toDesc hk hint ?_ hcases)
    intro d hd
    rcases hd with ⟨c, hc, rfl⟩ | ⟨dn, hdf⟩
    · obtain ⟨c0, hc0, rfl⟩ := List.mem_map.mp hc
      exact DDesc.struct_ok c0.kids (ih c0 hc0) (hcs c0 hc0).1 (hcs c0 hc0).2
    · cases hm : m.dflt with
      | none => simp [MuxShape.toDesc, hm] at hdf
      | some q =>
        obtain ⟨n, kids⟩ := q
        simp only [MuxShape.toDesc, hm, Option.some.injEq, Prod.mk.injEq] at hdf
        rw [← hdf.2]
        exact DDesc.struct_ok kids (ihd n kids hm) (hds n kids hm).1 (hds n kids hm).2

/-! ### the message level -/

/-- the round trip for any structure component; an END-OF-PDU-FIELD in last position must end where the PDU ends (`hsize`) -/
theorem dcomp_roundtrip_msg_end (c : DComp) (hok : c.Ok) (hend : c.EndOk) (ps : List Param) (hdop : c.dop = .struct none ps)
    (hneed : c.need ≤ modelFuel) (trig : Option Bytes) (pdu : Bytes) (hsize : c.eopOnly = true → c.size = pdu.length)
    (henc : encodeMessage none ps c.sup trig true = .ok (pdu, 0)) :
    ∃ cursor, decodeMessage none ps pdu true = .ok (c.pair.val, cursor) := by
  let s0 : EncState := { trig := trig, isEndOfPdu := true }
  obtain ⟨s1, hrun, hcore, _⟩ := hok.encode_eq modelFuel hneed s0 rfl (fun _ => rfl)
  rw [hdop] at hrun
  have hrun' : encodeDop modelFuel (.struct none ps) c.sup { trig := trig, isEndOfPdu := true } true = .ok ((), s1) := hrun
  have henc' := henc
  unfold encodeMessage at henc'
  rw [hrun'] at henc'
  simp only [Except.ok.injEq, Prod.mk.injEq] at henc'
  obtain ⟨hpdu, hwarn⟩ := henc'
  have hg := hok.good
  have hall : AllBytes s0.msg := by intro b hb; cases hb
  have hm : (c.pair.enc s0).msg = pdu := by rw [← hcore.1]; exact hpdu
  have hw : (c.pair.enc s0).warn = s0.warn := by rw [← hcore.2.2.1]; exact hwarn
  obtain ⟨_, hcur, _, _, _⟩ := hg.rt s0 { msg := pdu } hall hw rfl rfl
    (by rw [← hm]; exact hg.allBytes s0 hall) (by rw [hm]; exact Nat.le_refl _) (by intro a _; rw [hm])
  refine dcomp_roundtrip_msg c hok ps hdop hneed trig pdu ?_ henc
  cases he : c.eopOnly with
  | false => exact hend.trivial he _
  | true =>
    apply hend.of_end
    rw [hcur, hok.enc_cursor, hsize he]
    show 0 + pdu.length = pdu.length
    omega

/-- **`Request.encode` of the model on described parameters and any supplied value whatsoever**: a library error (or
    `unmodelled` at an untyped spot), or the PDU of the component `c` the value makes of the description — whose decoding
    returns `c`'s value, the completion of the supplied value -/
theorem encodeMessage_nested_cases (ps : List PDesc) (hok : ∀ p ∈ ps, p.Ok) (hn : PDescs.namesOk ps) (hl : PDescs.eopLast ps)
    (pv : PVal) (trig : Option Bytes) (hneed : (DDesc.struct ps).need pv ≤ modelFuel) :
    ((DDesc.struct ps).fill pv = none ∧
      ∃ e, encodeMessage none (PDescs.toParams ps) pv trig true = .error e ∧ RejErr e ((DDesc.struct ps).typed pv)) ∨
    (∃ c, (DDesc.struct ps).fill pv = some c ∧ c.Fills (DDesc.struct ps) pv ∧
      ∃ pdu w, encodeMessage none (PDescs.toParams ps) pv trig true = .ok (pdu, w) ∧
        (w = 0 → (c.eopOnly = true → c.size = pdu.length) →
          ∃ cursor, decodeMessage none (PDescs.toParams ps) pdu true = .ok ((DDesc.struct ps).complete pv, cursor))) := by
  have hS := DDesc.struct_ok ps hok hn hl
  cases hf : (DDesc.struct ps).fill pv with
  | none =>
    obtain ⟨e, s', hrun, he⟩ := hS.rej pv hf modelFuel hneed { trig := trig, isEndOfPdu := true } rfl (fun _ => rfl)
    refine Or.inl ⟨rfl, e, ?_, he⟩
    have hrun' : encodeDop modelFuel (.struct none (PDescs.toParams ps)) pv { trig := trig, isEndOfPdu := true } true
        = .error (e, s') := hrun
    unfold encodeMessage
    rw [hrun']
  | some c =>
    have hc := hS.acc pv c hf
    have hneed' : c.need ≤ modelFuel := Nat.le_trans hc.need hneed
    obtain ⟨s1, hrun, _, _⟩ := hc.ok.encode_eq modelFuel hneed' { trig := trig, isEndOfPdu := true } rfl (fun _ => rfl)
    rw [hc.dop, hc.sup] at hrun
    have hrun' : encodeDop modelFuel (.struct none (PDescs.toParams ps)) pv { trig := trig, isEndOfPdu := true } true
        = .ok ((), s1) := hrun
    have henc : encodeMessage none (PDescs.toParams ps) pv trig true = .ok (s1.msg, s1.warn) := by
      unfold encodeMessage
      rw [hrun']
    refine Or.inr ⟨c, rfl, hc, s1.msg, s1.warn, henc, ?_⟩
    intro hw hsize
    have henc0 : encodeMessage none (PDescs.toParams ps) c.sup trig true = .ok (s1.msg, 0) := by rw [hc.sup, henc, hw]
    obtain ⟨cursor, hdec⟩ := dcomp_roundtrip_msg_end c hc.ok hc.endOk (PDescs.toParams ps) hc.dop hneed' trig s1.msg hsize henc0
    exact ⟨cursor, by rw [hdec, hc.val]⟩

end OdxVerif.Codec
