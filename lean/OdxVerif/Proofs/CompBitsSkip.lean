import OdxVerif.Proofs.CompBitsMsg
import OdxVerif.Proofs.CompSkip
/-! Bit-exactness for the compositional tier (task W12), part 5: the semantic form of the message-level statements — for any
    list of *components* (`Comp.Ok`) whose pure encoder satisfies the footprint law for some layout — and the parameters the
    encoder skips (RESERVED, NRC-CONST: `Proofs/CompSkip.lean`): they claim no bit, their layout has no entry; only the cursor
    moves on and the message is extended up to it. -/
namespace OdxVerif.Codec
open OdxVerif.Bits OdxVerif.OdxM

/-- layouts of a list of components, one after the other -/
def Lay.seqs : List Lay → Lay
  | [] => Lay.nil
  | l :: ls => l.seq (Lay.seqs ls)

/-- components paired with their layouts -/
def Comps.footAll : List Comp → List Lay → Prop
  | [], [] => True
  | g :: gs, l :: ls => Foot g.pair.enc l ∧ Comps.footAll gs ls
  | _, _ => False

theorem Comps.foot : (gs : List Comp) → (ls : List Lay) → Comps.footAll gs ls → Foot (Comps.pair gs).enc (Lay.seqs ls)
  | [], [], _ => Foot.nil
  | g :: gs, l :: ls, h => Foot.seq (ea := g.pair.enc) (eb := (Comps.pair gs).enc) h.1 (Comps.foot gs ls h.2)
  | [], _ :: _, h => nomatch h
  | _ :: _, [], h => nomatch h

/-- strict `encodeMessage` on any list of components = the pure encoder from the empty state -/
theorem comps_encodeMessage (gs : List Comp) (hok : Comps.okAll gs) (hn : Comps.namesOk gs) (hlast : Comps.eopLast gs)
    (hneed : Comps.need gs + 2 ≤ modelFuel) (trig : Option Bytes) :
    encodeMessage none (Comps.toParams gs) (.dict (Comps.values gs)) trig true =
      .ok (((Comps.pair gs).enc {}).msg, ((Comps.pair gs).enc {}).warn) := by
  have hok' := DComp.struct_ok gs hok hn hlast
  let s0 : EncState := { trig := trig, isEndOfPdu := true }
  obtain ⟨s1, hrun, hcore, _⟩ := hok'.encode_eq modelFuel hneed s0 rfl (fun _ => rfl)
  have hrun' : encodeDop modelFuel (.struct none (Comps.toParams gs)) (.dict (Comps.values gs))
      { trig := trig, isEndOfPdu := true } true = .ok ((), s1) := hrun
  unfold encodeMessage
  rw [hrun']
  have hs0 : SameCore ({ s0 with origin := s0.cursorByte } : EncState) {} := ⟨rfl, rfl, rfl, rfl, rfl⟩
  have h2 := (Comps.good _ hok).core _ _ hs0
  have hm : s1.msg = ((Comps.pair gs).enc {}).msg := by rw [hcore.1, ← h2.1]; rfl
  have hw : s1.warn = ((Comps.pair gs).enc {}).warn := by rw [hcore.2.2.1, ← h2.2.2.1]; rfl
  simp only [hm, hw]

/-- **bit-exactness for any list of components with a footprint** (the compositional interface itself: `Comp.Ok` + `Foot`) -/
theorem comps_bit_exact (gs : List Comp) (l : Lay) (hok : Comps.okAll gs) (hF : Foot (Comps.pair gs).enc l)
    (hn : Comps.namesOk gs) (hlast : Comps.eopLast gs) (hneed : Comps.need gs + 2 ≤ modelFuel) (trig : Option Bytes) :
    ∃ pdu w, encodeMessage none (Comps.toParams gs) (.dict (Comps.values gs)) trig true = .ok (pdu, w) ∧
      (w = 0 ↔ LDisj (l.ents 0 0)) ∧
      (w = 0 → (∀ e ∈ l.ents 0 0, ∀ j, j < e.bl → getBit pdu (absBit e.pos e.k e.hl (j + e.bp)) = e.raw.testBit j)) ∧
      (∀ a, (∀ e ∈ l.ents 0 0, ¬ e.claims a) → getBit pdu a = false) ∧
      pdu.length = l.ext 0 0 := by
  refine ⟨_, _, comps_encodeMessage gs hok hn hlast hneed trig, ?_, ?_, ?_, ?_⟩
  · have := hF.nowarn_iff {} usedOk_empty
    rw [show (({} : EncState).warn) = 0 from rfl] at this
    rw [this]
    exact ⟨fun h => h.1, fun h => ⟨h, fun e _ a _ => getBit_nil a⟩⟩
  · intro hw
    exact hF.inside {} usedOk_empty hw
  · intro a ha
    rw [hF.outside {} a (by rintro ⟨e, he, hc⟩; exact ha e he hc)]
    exact getBit_nil a
  · rw [hF.length {}]
    show max 0 _ = _
    rw [Nat.zero_max]

/-! ### parameters the encoder skips -/

theorem Foot.moved (f : Nat → Nat → Nat) {enc : EncState → EncState} {l : Lay} (h : Foot enc l) :
    Foot (fun s => enc { s with cursorByte := f s.origin s.cursorByte })
      { ents := fun org c => l.ents org (f org c), cur := fun org c => l.cur org (f org c), ext := fun org c => l.ext org (f org c) } where
  cursor := fun s => h.cursor { s with cursorByte := f s.origin s.cursorByte }
  origin := fun s => h.origin { s with cursorByte := f s.origin s.cursorByte }
  warn_mono := fun s => h.warn_mono { s with cursorByte := f s.origin s.cursorByte }
  inv := fun s hu => h.inv { s with cursorByte := f s.origin s.cursorByte } hu
  inside := fun s hu hw => h.inside { s with cursorByte := f s.origin s.cursorByte } hu hw
  outside := fun s => h.outside { s with cursorByte := f s.origin s.cursorByte }
  used_iff := fun s hu => h.used_iff { s with cursorByte := f s.origin s.cursorByte } hu
  nowarn_iff := fun s hu => h.nowarn_iff { s with cursorByte := f s.origin s.cursorByte } hu
  length := fun s => h.length { s with cursorByte := f s.origin s.cursorByte }
  within := fun org c => h.within org (f org c)

/-- a skipped object: no entry; the cursor and the message length move behind it -/
def Lay.skip (o : Obj) : Lay where
  ents := fun _ _ => []
  cur := fun org c => o.pos org c + o.k
  ext := fun org c => o.pos org c + o.k

theorem foot_skip (o : Obj) (v : PVal) : Foot (skipPair o v).enc (Lay.skip o) :=
  Foot.moved (fun org c => o.pos org c + o.k) Foot.touch

/-- RESERVED: claims nothing -/
theorem foot_reserved (n : String) (bp bitp : Option Nat) (bl r : Nat) :
    Foot (Comp.reserved n bp bitp bl r).pair.enc (Lay.skip (reservedObj n bp bitp bl)) := foot_skip _ _

/-- NRC-CONST: claims nothing -/
theorem foot_nrcConst (o : Obj) (values : List IVal) (r : IVal) : Foot (Comp.nrcConst o values r).pair.enc (Lay.skip o) :=
  foot_skip _ _

end OdxVerif.Codec
