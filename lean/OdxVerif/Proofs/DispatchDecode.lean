import OdxVerif.Proofs.DispatchTrie
/-! Lemmas about candidate filtering and error handling in `DiagService.decode_message` and
    `DiagLayer._decode` (property C06). Core Lean only. -/
namespace OdxVerif.Dispatch
open Spec

/-- model-side test applied to a coding object used for a service with request prefix `rp` -/
def okFor (dec : Oracle) (rp : Bytes) (M : Bytes) (co : Coding) : Bool :=
  decide (dec co M = .ok) && (codedConstPrefix rp co).isPrefixOf M

theorem okFor_iff (dec : Oracle) (s : Service) (M : Bytes) (co : Coding) :
    okFor dec (requestPrefix s) M co = true ↔ Matches dec s M co := by
  simp only [okFor, Matches, Bool.and_eq_true, decide_eq_true_eq, codedConstPrefix_eq, requestPrefix_eq,
    List.isPrefixOf_iff_prefix]
  exact And.comm

theorem okFor_eq_decide (dec : Oracle) (s : Service) (M : Bytes) (co : Coding) :
    okFor dec (requestPrefix s) M co = decide (Matches dec s M co) := by
  rw [Bool.eq_iff_iff, okFor_iff]; simp

/-! ### `decode_message` -/

theorem collectResults_eq {dec : Oracle} {M : Bytes} (h : NoForeign dec M) :
    ∀ cs : List Coding, collectResults dec M cs = .ok (cs.filter fun co => decide (dec co M = .ok))
  | [] => rfl
  | co :: cs => by
    have ih := collectResults_eq h cs
    cases hd : dec co M <;> simp [collectResults, hd, ih, Except.map]
    exact h co hd

/-- the own coding objects which pass the prefix filter and decode, in the order `decode_message` tries them -/
def ownMatches (dec : Oracle) (s : Service) (M : Bytes) : List Coding :=
  (candidateCodings s).filter (okFor dec (requestPrefix s) M)

theorem decodeMessage_eq {dec : Oracle} {M : Bytes} (h : NoForeign dec M) (strict : Bool) (s : Service) :
    decodeMessage dec strict s M =
      match ownMatches dec s M with
      | [] => .error .decode
      | [co] => .ok co
      | co :: _ :: _ => if strict then .error .decode else .ok co := by
  unfold decodeMessage ownMatches
  simp only [collectResults_eq h, List.filter_filter]
  have : (fun a => decide (dec a M = Outcome.ok) && (codedConstPrefix (requestPrefix s) a).isPrefixOf M)
      = okFor dec (requestPrefix s) M := rfl
  rw [this]
  generalize List.filter (okFor dec (requestPrefix s) M) (candidateCodings s) = l
  match l with
  | [] => rfl
  | [x] => rfl
  | x :: y :: r => rfl

theorem mem_ownMatches (dec : Oracle) (s : Service) (M : Bytes) (co : Coding) :
    co ∈ ownMatches dec s M ↔ co ∈ ownCodings s ∧ Matches dec s M co := by
  simp only [ownMatches, List.mem_filter, okFor_iff, candidateCodings, ownCodings, List.mem_append]
  constructor
  · rintro ⟨(h | h) | h, hm⟩
    · exact ⟨.inl (.inr h), hm⟩
    · exact ⟨.inr h, hm⟩
    · exact ⟨.inl (.inl h), hm⟩
  · rintro ⟨(h | h) | h, hm⟩
    · exact ⟨.inr h, hm⟩
    · exact ⟨.inl (.inl h), hm⟩
    · exact ⟨.inl (.inr h), hm⟩

theorem length_ownMatches (dec : Oracle) (s : Service) (M : Bytes) :
    (ownMatches dec s M).length = ownMatchCount dec s M := by
  have hf : okFor dec (requestPrefix s) M = fun co => decide (Matches dec s M co) :=
    funext (okFor_eq_decide dec s M)
  simp only [ownMatches, ownMatchCount, candidateCodings, ownCodings, hf, List.filter_append,
    List.length_append]
  omega

theorem ownMatches_eq_singleton (dec : Oracle) (s : Service) (M : Bytes) (co : Coding) :
    ownMatches dec s M = [co] ↔
      ownMatchCount dec s M = 1 ∧ co ∈ ownCodings s ∧ Matches dec s M co := by
  rw [← length_ownMatches, ← mem_ownMatches]
  constructor
  · intro h; simp [h]
  · rintro ⟨h1, h2⟩
    match hm : ownMatches dec s M, h1, h2 with
    | [x], _, h2 => simp at h2; rw [h2]

/-! ### `_decode` -/

theorem gnrResults_eq {dec : Oracle} {M : Bytes} (h : NoForeign dec M) (rp : Bytes) :
    ∀ gs : List Coding, gnrResults dec rp M gs = .ok (gs.filter (okFor dec rp M))
  | [] => rfl
  | g :: gs => by
    have ih := gnrResults_eq h rp gs
    unfold gnrResults
    by_cases hp : (codedConstPrefix rp g).isPrefixOf M = true
    · cases hd : dec g M <;> simp [hp, hd, ih, okFor, Except.map]
      exact h g hd
    · simp [hp, ih, okFor]

/-- what the loop body of `_decode` contributes for one candidate service -/
def perService (dec : Oracle) (strict : Bool) (L : Layer) (M : Bytes) (s : Service) : List Msg :=
  match decodeMessage dec strict s M with
  | .ok co => [(s, co)]
  | .error _ => (L.gnrs.filter (okFor dec (requestPrefix s) M)).map fun g => (s, g)

theorem decodeMessage_ne_foreign {dec : Oracle} {M : Bytes} (h : NoForeign dec M) (strict : Bool) (s : Service) :
    decodeMessage dec strict s M ≠ .error .foreign := by
  rw [decodeMessage_eq h]
  split <;> cases strict <;> simp

theorem decodeLoop_eq {dec : Oracle} {M : Bytes} (h : NoForeign dec M) (strict : Bool) (L : Layer) :
    ∀ cands : List Service,
      decodeLoop dec strict L M cands = .ok (cands.flatMap (perService dec strict L M))
  | [] => rfl
  | s :: rest => by
    have ih := decodeLoop_eq h strict L rest
    unfold decodeLoop
    cases hd : decodeMessage dec strict s M with
    | ok co => simp [ih, perService, hd, Except.map]
    | error e =>
      cases e with
      | decode => simp [gnrResults_eq h, ih, perService, hd, Except.map]
      | foreign => exact absurd hd (decodeMessage_ne_foreign h strict s)

/-- `_decode` as a whole: the concatenated contributions, `DecodeError` iff there are none -/
theorem decodeCandidates_eq {dec : Oracle} {M : Bytes} (h : NoForeign dec M) (strict : Bool) (L : Layer)
    (cands : List Service) :
    decodeCandidates dec strict L M cands =
      if cands.flatMap (perService dec strict L M) = [] then .error .decode
      else .ok (cands.flatMap (perService dec strict L M)) := by
  unfold decodeCandidates
  rw [decodeLoop_eq h]
  cases cands.flatMap (perService dec strict L M) <;> simp

theorem mem_flatMap_perService (dec : Oracle) (strict : Bool) (L : Layer) (M : Bytes) (cands : List Service)
    (s : Service) (c : Coding) :
    (s, c) ∈ cands.flatMap (perService dec strict L M) ↔ s ∈ cands ∧ (s, c) ∈ perService dec strict L M s := by
  simp only [List.mem_flatMap]
  constructor
  · rintro ⟨s', hs', hm⟩
    have : s' = s := by
      unfold perService at hm
      split at hm
      · simp at hm; exact hm.1.symm
      · simp at hm; exact hm.2
    subst this
    exact ⟨hs', hm⟩
  · rintro ⟨h1, h2⟩; exact ⟨s, h1, h2⟩

/-! ### strict mode: the contribution of one service in the vocabulary of the specification -/

/-- what is reported for service `s` (strict mode): its unique matching own coding object, or — when the
    service itself does not decode the message uniquely — every matching global negative response -/
def Interp (dec : Oracle) (L : Layer) (M : Bytes) (s : Service) (co : Coding) : Prop :=
  Matches dec s M co ∧
    ((co ∈ ownCodings s ∧ ownMatchCount dec s M = 1) ∨ (co ∈ L.gnrs ∧ ownMatchCount dec s M ≠ 1))

theorem mem_perService_strict {dec : Oracle} {M : Bytes} (h : NoForeign dec M) (L : Layer) (s : Service)
    (co : Coding) :
    (s, co) ∈ perService dec true L M s ↔ Interp dec L M s co := by
  unfold perService Interp
  rw [decodeMessage_eq h]
  match hm : ownMatches dec s M with
  | [] =>
    have hc : ownMatchCount dec s M = 0 := by rw [← length_ownMatches, hm]; rfl
    simp only [List.mem_map, List.mem_filter, okFor_iff, Prod.mk.injEq, true_and, hc]
    constructor
    · rintro ⟨g, ⟨hg, hmg⟩, rfl⟩; exact ⟨hmg, .inr ⟨hg, by decide⟩⟩
    · rintro ⟨hmc, (⟨_, h0⟩ | ⟨hg, _⟩)⟩
      · exact absurd h0 (by decide)
      · exact ⟨co, ⟨hg, hmc⟩, rfl⟩
  | [x] =>
    have hx := (ownMatches_eq_singleton dec s M x).mp hm
    simp only [List.mem_singleton, Prod.mk.injEq, true_and]
    constructor
    · rintro rfl; exact ⟨hx.2.2, .inl ⟨hx.2.1, hx.1⟩⟩
    · rintro ⟨hmc, (⟨ho, _⟩ | ⟨_, hne⟩)⟩
      · have : co ∈ ownMatches dec s M := (mem_ownMatches dec s M co).mpr ⟨ho, hmc⟩
        rw [hm] at this; simpa using this
      · exact absurd hx.1 hne
  | x :: y :: r =>
    have hc : ownMatchCount dec s M ≠ 1 := by rw [← length_ownMatches, hm]; simp
    simp only [if_true, List.mem_map, List.mem_filter, okFor_iff, Prod.mk.injEq, true_and]
    constructor
    · rintro ⟨g, ⟨hg, hmg⟩, rfl⟩; exact ⟨hmg, .inr ⟨hg, hc⟩⟩
    · rintro ⟨hmc, (⟨_, h1⟩ | ⟨hg, _⟩)⟩
      · exact absurd h1 hc
      · exact ⟨co, ⟨hg, hmc⟩, rfl⟩

/-! ### non-strict mode: differs from strict mode only when several own coding objects match -/

/-- what is reported for service `s` in non-strict mode: the *first* matching own coding object (in the
    order `decode_message` tries them), or — when there is none — every matching global negative response -/
def InterpLenient (dec : Oracle) (L : Layer) (M : Bytes) (s : Service) (co : Coding) : Prop :=
  Matches dec s M co ∧
    ((ownMatches dec s M).head? = some co ∨ (co ∈ L.gnrs ∧ ownMatchCount dec s M = 0))

theorem mem_perService_lenient {dec : Oracle} {M : Bytes} (h : NoForeign dec M) (L : Layer) (s : Service)
    (co : Coding) :
    (s, co) ∈ perService dec false L M s ↔ InterpLenient dec L M s co := by
  unfold perService InterpLenient
  rw [decodeMessage_eq h]
  have key : ∀ x r, ownMatches dec s M = x :: r →
      ((s, co) ∈ [(s, x)] ↔ Matches dec s M co ∧
        ((x :: r).head? = some co ∨ (co ∈ L.gnrs ∧ ownMatchCount dec s M = 0))) := by
    intro x r hm
    have hx : x ∈ ownMatches dec s M := by rw [hm]; simp
    have hc : ownMatchCount dec s M ≠ 0 := by rw [← length_ownMatches, hm]; simp
    simp only [List.mem_singleton, Prod.mk.injEq, true_and, List.head?_cons, Option.some.injEq]
    constructor
    · rintro rfl; exact ⟨((mem_ownMatches dec s M co).mp hx).2, .inl rfl⟩
    · rintro ⟨_, (h1 | ⟨_, h0⟩)⟩
      · exact h1.symm
      · exact absurd h0 hc
  match hm : ownMatches dec s M with
  | [] =>
    have hc : ownMatchCount dec s M = 0 := by rw [← length_ownMatches, hm]; rfl
    simp only [List.mem_map, List.mem_filter, okFor_iff, Prod.mk.injEq, true_and, hc, List.head?_nil]
    constructor
    · rintro ⟨g, ⟨hg, hmg⟩, rfl⟩; exact ⟨hmg, .inr ⟨hg, trivial⟩⟩
    · rintro ⟨hmc, (h0 | ⟨hg, _⟩)⟩
      · cases h0
      · exact ⟨co, ⟨hg, hmc⟩, rfl⟩
  | [x] => exact key x [] hm
  | x :: y :: r => exact key x (y :: r) hm

/-- a service with at most one matching own coding object is treated alike in both modes -/
theorem perService_lenient_eq_strict {dec : Oracle} {M : Bytes} (h : NoForeign dec M) (L : Layer) (s : Service)
    (hU : ownMatchCount dec s M ≤ 1) : perService dec false L M s = perService dec true L M s := by
  unfold perService
  rw [decodeMessage_eq h, decodeMessage_eq h]
  match hm : ownMatches dec s M with
  | [] => rfl
  | [x] => rfl
  | x :: y :: r =>
    rw [← length_ownMatches, hm] at hU
    simp at hU

/-! ### the services found through the prefix tree, in the vocabulary of the specification -/

/-- `s` is found for message `M`: the constant prefix of its request, of one of its responses or of a
    global negative response (relative to `s`) is a *non-empty* prefix of `M` -/
def Found (L : Layer) (M : Bytes) (s : Service) : Prop :=
  ∃ p, p ≠ [] ∧ p <+: M ∧
    (p = Spec.requestPrefix s ∨ ∃ co ∈ s.pos ++ s.neg ++ L.gnrs, p = constPrefix (Spec.requestPrefix s) co.params)

theorem found_iff (L : Layer) (M : Bytes) (s : Service) :
    (∃ p ∈ treePrefixes L s, p ≠ [] ∧ p <+: M) ↔ Found L M s := by
  unfold Found treePrefixes
  simp only [List.mem_cons, List.mem_map, requestPrefix_eq, codedConstPrefix_eq]
  constructor
  · rintro ⟨p, (rfl | ⟨co, hco, rfl⟩), h1, h2⟩
    · exact ⟨_, h1, h2, .inl rfl⟩
    · exact ⟨_, h1, h2, .inr ⟨co, hco, rfl⟩⟩
  · rintro ⟨p, h1, h2, (rfl | ⟨co, hco, rfl⟩)⟩
    · exact ⟨_, .inl rfl, h1, h2⟩
    · exact ⟨_, .inr ⟨co, hco, rfl⟩, h1, h2⟩

theorem mem_candidates (L : Layer) (M : Bytes) (s : Service) :
    s ∈ (buildTree L).walk M ↔ s ∈ L.services ∧ Found L M s := by
  rw [mem_walk_buildTree, found_iff]

/-- a matching coding object with a non-empty constant prefix makes the service a candidate -/
theorem found_of_matches {dec : Oracle} {L : Layer} {M : Bytes} {s : Service} {co : Coding}
    (hco : co ∈ ownCodings s ++ L.gnrs) (hm : Matches dec s M co)
    (hne : constPrefix (Spec.requestPrefix s) co.params ≠ []) : Found L M s := by
  simp only [ownCodings, List.mem_append] at hco
  rcases hco with ((hr | hp) | hn) | hg
  · -- the request itself: the tree holds `constPrefix [] …`, `decode_message` uses `constPrefix rp …`
    cases hreq : s.request with
    | none => simp [hreq] at hr
    | some r =>
      simp [hreq] at hr; subst hr
      have hrp : Spec.requestPrefix s = constPrefix [] co.params := by simp [Spec.requestPrefix, hreq]
      have hpre : Spec.requestPrefix s <+: constPrefix (Spec.requestPrefix s) co.params := by
        rw [hrp]; exact constPrefix_nil_prefix _ _
      refine ⟨Spec.requestPrefix s, ?_, hpre.trans hm.1, .inl rfl⟩
      intro h0
      apply hne
      rw [h0]; rw [h0] at hrp; exact hrp.symm
  · exact ⟨_, hne, hm.1, .inr ⟨co, by simp [hp], rfl⟩⟩
  · exact ⟨_, hne, hm.1, .inr ⟨co, by simp [hn], rfl⟩⟩
  · exact ⟨_, hne, hm.1, .inr ⟨co, by simp [hg], rfl⟩⟩

/-! ### executable spec ↔ relation -/

theorem mem_attributed (dec : Oracle) (L : Layer) (M : Bytes) (s : Service) :
    s ∈ attributed dec L M ↔ Attributed dec L M s := by
  simp only [attributed, Attributed, List.mem_filter, List.any_eq_true, decide_eq_true_eq]

/-! ### service groups -/

theorem extractSid_eq (s : Service) : extractSid s = sidOf s := by
  unfold extractSid sidOf Spec.requestPrefix
  cases s.request <;> simp [codedConstPrefix_eq]

theorem lookup_addToGroup (k k' : Option Byte) (s : Service) :
    ∀ g : List (Option Byte × List Service),
      groupOf (addToGroup k s g) k' = if k' = k then groupOf g k' ++ [s] else groupOf g k'
  | [] => by
    by_cases h : k' = k
    · subst h; simp [addToGroup, groupOf, List.lookup]
    · have : (k' == k) = false := by simpa using h
      simp [addToGroup, groupOf, List.lookup, h, this]
  | (k₀, ss) :: rest => by
    have ih := lookup_addToGroup k k' s rest
    unfold addToGroup
    by_cases h0 : k = k₀
    · subst h0
      by_cases h : k' = k
      · subst h; simp [groupOf, List.lookup]
      · have : (k' == k) = false := by simpa using h
        simp [groupOf, List.lookup, h, this]
    · simp only [h0, if_false]
      by_cases h1 : k' = k₀
      · subst h1
        have : ¬ k' = k := fun h => h0 h.symm
        simp [groupOf, List.lookup, this]
      · have h1' : (k' == k₀) = false := by simpa using h1
        simp only [groupOf, List.lookup, h1'] at ih ⊢
        exact ih

theorem mem_groupOf_foldl (k : Option Byte) (x : Service) :
    ∀ (ss : List Service) (g : List (Option Byte × List Service)),
      x ∈ groupOf (ss.foldl (fun g s => addToGroup (extractSid s) s g) g) k ↔
        x ∈ groupOf g k ∨ (x ∈ ss ∧ extractSid x = k)
  | [], g => by simp
  | s :: ss, g => by
    rw [List.foldl_cons, mem_groupOf_foldl k x ss, lookup_addToGroup]
    by_cases h : k = extractSid s
    · subst h
      simp only [if_true, List.mem_append, List.mem_cons, List.not_mem_nil, or_false]
      constructor
      · rintro ((h | rfl) | ⟨h1, h2⟩)
        · exact .inl h
        · exact .inr ⟨.inl rfl, rfl⟩
        · exact .inr ⟨.inr h1, h2⟩
      · rintro (h | ⟨rfl | h1, h2⟩)
        · exact .inl (.inl h)
        · exact .inl (.inr rfl)
        · exact .inr ⟨h1, h2⟩
    · simp only [h, if_false, List.mem_cons]
      constructor
      · rintro (h' | ⟨h1, h2⟩)
        · exact .inl h'
        · exact .inr ⟨.inr h1, h2⟩
      · rintro (h' | ⟨rfl | h1, h2⟩)
        · exact .inl h'
        · exact absurd h2.symm h
        · exact .inr ⟨h1, h2⟩

end OdxVerif.Dispatch
