import OdxVerif.Proofs.CompCompuBitsMsg
import OdxVerif.Proofs.CompBits2Re
/-! Re-encoding for descriptions with compu-method leaves (task W24, property C03): `Proofs/CompBits2Re.lean` over `Desc3`.
    `Desc3.full`: every parameter's value is supplied AND, for a conversion leaf, what is supplied is what the decoder returns
    (`sup = val`: LINEAR / TEXTTABLE leaves always; a DTC leaf when the DTC object is supplied — the decoder returns the DTC
    object, never the number or the short name).  `descs3_reencode_pure`: a PDU whose bits are exactly the layout of a
    description (for a conversion leaf: the raw pattern of the INTERNAL value `i` of the leaf's `ConvOk`) is reproduced by the
    pure encoder, without overlap warning. -/
namespace OdxVerif.Codec
open OdxVerif.Bits OdxVerif.OdxM

mutual
/-- every parameter's value is supplied, as the decoder returns it — the shape of a decoded value tree; no MATCHING-REQUEST-PARAM -/
def Desc3.full : Desc3 → Prop
  | .value _ _ => True
  | .valueDefault _ _ sup => sup.isSome = true
  | .const _ _ b => b = true
  | .physConst _ _ b => b = true
  | .minmaxMid _ => True
  | .minmaxFull _ => True
  | .minmaxLast _ => True
  | .leading _ => True
  | .conv _ _ sup val _ => sup = val
  | .convConst _ _ c val _ b => b = true ∧ c = val
  | .convDefault _ _ _ om sup val _ => om = false ∧ sup = val
  | .matching _ _ _ _ _ => False
  | .struct _ _ _ kids => Descs3.full kids
  | .staticField _ _ _ _ _ items => Descss3.full items
  | .dynLenField _ _ _ _ _ items => Descss3.full items
  | .eopField _ _ _ _ _ _ items => Descss3.full items
  | .mux _ _ _ kids => Descs3.full kids
  | .endMarkerEop _ _ _ _ _ items => Descss3.full items
  | .endMarkerMid _ _ _ _ _ items => Descss3.full items
def Descs3.full : List Desc3 → Prop
  | [] => True
  | d :: ds => d.full ∧ Descs3.full ds
def Descss3.full : List (List Desc3) → Prop
  | [] => True
  | k :: ks => Descs3.full k ∧ Descss3.full ks
end

mutual
theorem Desc3.sup_eq_val : (d : Desc3) → d.full → d.mc.c.sup = some d.mc.c.pair.val
  | .value o v, _ => rfl
  | .valueDefault o dv sup, h => by
    simp only [Desc3.full] at h
    cases sup with
    | none => cases h
    | some v => rfl
  | .const o v b, h => by
    simp only [Desc3.full] at h
    subst h; rfl
  | .physConst o v b, h => by
    simp only [Desc3.full] at h
    subst h; rfl
  | .minmaxMid _, _ => rfl
  | .minmaxFull _, _ => rfl
  | .minmaxLast _, _ => rfl
  | .leading _, _ => rfl
  | .conv o dop sup val i, h => by
    simp only [Desc3.full] at h
    subst h; rfl
  | .convConst o dop c val i b, h => by
    simp only [Desc3.full] at h
    obtain ⟨hb, hc⟩ := h
    subst hb; subst hc; rfl
  | .convDefault o dop dv om sup val i, h => by
    simp only [Desc3.full] at h
    obtain ⟨hb, hc⟩ := h
    subst hb; subst hc; rfl
  | .matching _ _ _ _ _, h => by simp only [Desc3.full] at h
  | .struct name bp bso kids, h => by
    simp only [Desc3.full] at h
    have ih := Descs3.values_eq_val kids h
    show some (DComp.structO bso (Descs3.comps kids)).sup = some (DComp.structO bso (Descs3.comps kids)).pair.val
    rw [DComp.structO_sup, DComp.structO_val, ih]
  | .staticField name bp n bso shape items, h => by
    simp only [Desc3.full] at h
    have ih := Descss3.sups_eq_vals bso items h
    show some (PVal.list (DComps.sups (itemsO bso (Descss3.mcss items)))) =
      some (DComp.staticField n (.struct bso shape) (itemsO bso (Descss3.mcss items))).pair.val
    rw [DComp.staticField_val, ih]
  | .dynLenField name bp l bso shape items, h => by
    simp only [Desc3.full] at h
    have ih := Descss3.sups_eq_vals bso items h
    show some (PVal.list (DComps.sups (itemsO bso (Descss3.mcss items)))) =
      some (DComp.dynLenField l (.struct bso shape) (itemsO bso (Descss3.mcss items))).pair.val
    rw [DComp.dynLenField_val, ih]
  | .eopField name bp mn mx bso shape items, h => by
    simp only [Desc3.full] at h
    have ih := Descss3.sups_eq_vals bso items h
    show some (PVal.list (DComps.sups (itemsO bso (Descss3.mcss items)))) =
      some (DComp.eopField mn mx (.struct bso shape) (itemsO bso (Descss3.mcss items))).pair.val
    rw [DComp.eopField_val, ih]
  | .mux name bp m kids, h => by
    simp only [Desc3.full] at h
    have ih := Descs3.values_eq_val kids h
    show some (PVal.pair m.caseName (PVal.dict (Comps.values (Descs3.comps kids)))) =
      some (PVal.pair m.caseName (PVal.dict (Comps.pair (Descs3.comps kids)).val))
    rw [ih]
  | .endMarkerEop name bp l bso shape items, h => by
    simp only [Desc3.full] at h
    have ih := Descss3.sups_eq_vals bso items h
    show some (PVal.list (DComps.sups (itemsO bso (Descss3.mcss items)))) =
      some (DComp.endMarkerEop l (.struct bso shape) (itemsO bso (Descss3.mcss items))).pair.val
    rw [DComp.endMarkerEop_val, ih]
  | .endMarkerMid name bp l bso shape items, h => by
    simp only [Desc3.full] at h
    have ih := Descss3.sups_eq_vals bso items h
    show some (PVal.list (DComps.sups (itemsO bso (Descss3.mcss items)))) =
      some (DComp.endMarkerMid l (.struct bso shape) (itemsO bso (Descss3.mcss items))).pair.val
    rw [DComp.endMarkerMid_val, ih]
theorem Descs3.values_eq_val : (ds : List Desc3) → Descs3.full ds →
    Comps.values (Descs3.comps ds) = (Comps.pair (Descs3.comps ds)).val
  | [], _ => rfl
  | d :: ds, h => by
    simp only [Descs3.full] at h
    have h1 := Desc3.sup_eq_val d h.1
    have h2 := Descs3.values_eq_val ds h.2
    show Comps.values (d.mc.c :: Descs3.comps ds) = (Comps.pair (d.mc.c :: Descs3.comps ds)).val
    simp only [Comps.values, Comps.pair_val_cons, h1, h2]
theorem Descss3.sups_eq_vals (bso : Option Nat) : (items : List (List Desc3)) → Descss3.full items →
    DComps.sups (itemsO bso (Descss3.mcss items)) = DComps.vals (itemsO bso (Descss3.mcss items))
  | [], _ => rfl
  | k :: ks, h => by
    simp only [Descss3.full] at h
    have h1 := Descs3.values_eq_val k h.1
    have h2 := Descss3.sups_eq_vals bso ks h.2
    show (DComp.structO bso (Descs3.comps k)).sup :: DComps.sups (itemsO bso (Descss3.mcss ks)) =
      (DComp.structO bso (Descs3.comps k)).pair.val :: DComps.vals (itemsO bso (Descss3.mcss ks))
    rw [h2, DComp.structO_sup, DComp.structO_val, h1]
end

/-- for a fully supplied description (no MATCHING-REQUEST-PARAM), what is handed to `encode` is what `decode` returns -/
theorem Descs3.supplied_eq_decoded (ds : List Desc3) (h : Descs3.full ds) : Descs3.supplied ds = Descs3.decoded ds :=
  Descs3.values_eq_val ds h

theorem descs3_pure_allBytes (trig : Option Bytes) (ds : List Desc3) (hwf : Descs3.wfTop trig ds) :
    AllBytes ((Comps.pair (Descs3.comps ds)).enc {}).msg :=
  (MComps.good _ (Descs3.okAllTop trig ds hwf)).allBytes {} (by intro b hb; cases hb)

/-- **re-encoding, pure level** (`descs2_reencode_pure` over `Desc3`): if every entry of the layout reads in `pdu` as its
    prescribed pattern (conversion leaf: `Obj.specRepr` of the internal value), the entries are pairwise disjoint, claim every
    bit of `pdu`, and nothing the encoder touches lies beyond `pdu`, then the pure encoder produces `pdu`, without warning -/
theorem descs3_reencode_pure (trig : Option Bytes) (ds : List Desc3) (hwf : Descs3.wfTop trig ds) (pdu : Bytes) (hall : AllBytes pdu)
    (hbits : ∀ e ∈ Descs3.layout ds, ∀ j, j < e.bl → getBit pdu (absBit e.pos e.k e.hl (j + e.bp)) = e.raw.testBit j)
    (hdisj : LDisj ((Descs3.layout ds).map Ent2.geo)) (hcover : ∀ a, a < 8 * pdu.length → ∃ e ∈ Descs3.layout ds, e.claims a)
    (hext : Descs3.extent ds ≤ pdu.length) :
    ((Comps.pair (Descs3.comps ds)).enc {}).msg = pdu ∧ ((Comps.pair (Descs3.comps ds)).enc {}).warn = 0 := by
  have hw := descs3_pure_nowarn_of trig ds hwf hdisj
  refine ⟨?_, hw⟩
  have hlen := descs3_pure_length trig ds hwf
  have hF := Descs3.footTop trig ds hwf
  have hge : pdu.length ≤ Descs3.extent ds := by
    cases hlt : decide (pdu.length ≤ Descs3.extent ds) with
    | true => exact of_decide_eq_true hlt
    | false =>
      exfalso
      have hlt' := of_decide_eq_false hlt
      obtain ⟨e, he, hc⟩ := hcover (8 * Descs3.extent ds) (by omega)
      obtain ⟨hewf, hle⟩ := hF.within 0 0 e.geo (List.mem_map.mpr ⟨e, he, rfl⟩)
      have := (Ent.claims_bytes e.geo hewf _ hc).2
      have hle' : e.geo.pos + e.geo.k ≤ Descs3.extent ds := hle
      omega
  apply eq_of_getBit _ _ (descs3_pure_allBytes trig ds hwf) hall (by omega)
  intro a
  by_cases hcl : ∃ e ∈ Descs3.layout ds, e.claims a
  · obtain ⟨e, he, j, hj, rfl⟩ := hcl
    have := descs3_pure_inside trig ds hwf hdisj e he j hj
    rw [← hbits e he j hj] at this
    exact this
  · rw [descs3_pure_outside trig ds hwf a (fun e he hc => hcl ⟨e, he, hc⟩)]
    have hnot : ¬ a < 8 * pdu.length := fun h => hcl (hcover a h)
    unfold getBit
    rw [List.getD_eq_getElem?_getD, List.getElem?_eq_none (by omega)]
    simp

theorem descs3_cur_eq (trig : Option Bytes) (ds : List Desc3) (hwf : Descs3.wfTop trig ds) :
    Comps.cur (Descs3.comps ds) 0 0 = Descs3.endCursor ds := by
  rw [← descs3_pure_cursor trig ds hwf]
  exact (MComps.enc_cursor (Descs3.mcs ds) (Descs3.okAllTop trig ds hwf) {}).symm

end OdxVerif.Codec
