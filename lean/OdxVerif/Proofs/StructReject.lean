import OdxVerif.Proofs.ComposeMsg
import OdxVerif.Proofs.FlatReject
/-! Nested-structure tier, complete case split of the strict encoder (C04): for a *description* (`List Tree`, the
    values baked into the `.int` leaves are irrelevant — `Trees.toParams` does not see them) and an **arbitrary**
    supplied dictionary, `Trees.fill` decides whether every VALUE leaf has a representable supplied atom, every
    supplied constant equals its CODED-CONST, every nested STRUCTURE is given a dictionary without unknown names.
    * `Trees.fill = some ts'`: the model's encoder succeeds and equals the pure encoder of `ts'` (`Trees.encode_fill`);
    * `Trees.fill = none`: the model's encoder fails with `EncodeError`/`OdxError` — or with `unmodelled` at the one
      spot the model does not follow: Python `!=` between a supplied atom and a constant of another type
      (`Trees.encode_rej`).
    Core Lean only. -/
namespace OdxVerif.Codec
open OdxVerif.Bits OdxVerif.OdxM

mutual
/-- well-formed descriptions of the tier: VALUE leaves of the integer kinds, CODED-CONST leaves of every leaf kind
    with a representable constant, arbitrarily nested structures -/
def Tree.descOk : Tree → Prop
  | .int o _ => o.ok ∧ o.isInt
  | .const o c => o.ok ∧ o.inRange c
  | .struct _ _ kids => Trees.descOk kids
def Trees.descOk : List Tree → Prop
  | [] => True
  | t :: ts => t.descOk ∧ Trees.descOk ts
end

/-- the comparison `value != self.coded_value` as far as the model follows it: equal values, or two values of the
    same Python type out of `int`/`bytes`/`str` (everything else — `16.0 != 16`, `bytes` vs `bytearray`, two
    floats — is outside the model) -/
def constCmp (v c : IVal) : Bool :=
  match v, c with
  | .int _, .int _ | .bytes _, .bytes _ | .str _, .str _ => true
  | _, _ => decide (v = c)

mutual
/-- the description with the supplied values filled in — if the strict encoder accepts them -/
def Tree.fill : Tree → List (String × PVal) → Option Tree
  | .int o _, kvs => (o.pick kvs).map (Tree.int o)
  | .const o c, kvs =>
    match lookupV o.name kvs with
    | none => some (.const o c)
    | some (.atom v) => if v = c then some (.const o c) else none
    | some _ => none
  | .struct n bp kids, kvs =>
    match lookupV n kvs with
    | some (.dict kvs') =>
      if kvs'.any (fun kv => !((Trees.toParams kids).any fun p => p.name == kv.1)) then none
      else (Trees.fill kids kvs').map (Tree.struct n bp)
    | _ => none
def Trees.fill : List Tree → List (String × PVal) → Option (List Tree)
  | [], _ => some []
  | t :: ts, kvs =>
    match Tree.fill t kvs, Trees.fill ts kvs with
    | some t', some ts' => some (t' :: ts')
    | _, _ => none
end

mutual
/-- no atom of a foreign Python type is supplied for a CODED-CONST parameter -/
def Tree.typed : Tree → List (String × PVal) → Bool
  | .int _ _, _ => true
  | .const o c, kvs =>
    match lookupV o.name kvs with
    | some (.atom v) => constCmp v c
    | _ => true
  | .struct n _ kids, kvs =>
    match lookupV n kvs with
    | some (.dict kvs') => Trees.typed kids kvs'
    | _ => true
def Trees.typed : List Tree → List (String × PVal) → Bool
  | [], _ => true
  | t :: ts, kvs => t.typed kvs && Trees.typed ts kvs
end

mutual
/-- `complete_params` of harness/odxgen/values.py: the value tree `decode` is expected to return for
    `encode(value)` — the supplied value of every VALUE parameter, the constant of every CODED-CONST parameter,
    parameter by parameter in the order of the description -/
def Tree.complete : Tree → List (String × PVal) → PVal
  | .int o _, kvs => (lookup o.name kvs).getD .none
  | .const _ c, _ => .atom c
  | .struct n _ kids, kvs =>
    match lookup n kvs with
    | some (.dict kvs') => .dict (Trees.complete kids kvs')
    | _ => .none
def Trees.complete : List Tree → List (String × PVal) → List (String × PVal)
  | [], _ => []
  | t :: ts, kvs => (t.name, t.complete kvs) :: Trees.complete ts kvs
end

theorem lookupV_some_dict {name : String} {kvs kvs' : List (String × PVal)}
    (h : lookupV name kvs = some (.dict kvs')) : lookup name kvs = some (.dict kvs') := by
  unfold lookupV at h
  cases hl : lookup name kvs with
  | none => rw [hl] at h; cases h
  | some x => rw [hl] at h; cases x <;> simp_all

mutual
/-- what `fill` returns is a well-formed valued description of the same parameters whose value tree is the
    completion of the supplied dictionary -/
theorem Tree.fill_ok : (t : Tree) → t.descOk → ∀ (kvs : List (String × PVal)) (t' : Tree), t.fill kvs = some t' →
    t'.okAll ∧ t'.toParam = t.toParam ∧ t'.need = t.need ∧ t'.name = t.name ∧ t'.pair.val = t.complete kvs
  | .int o d, h, kvs, t', hf => by
    simp only [Tree.descOk] at h
    simp only [Tree.fill] at hf
    cases hp : o.pick kvs with
    | none => rw [hp] at hf; cases hf
    | some v =>
      rw [hp] at hf
      simp only [Option.map_some, Option.some.injEq] at hf
      subst hf
      obtain ⟨hl, hr⟩ := Obj.pick_some kvs o h.1 v hp
      refine ⟨?_, rfl, rfl, rfl, ?_⟩
      · simp only [Tree.okAll]; exact ⟨h.1, hr⟩
      · simp [Tree.pair, Pair.map, Pair.ofObj, Tree.complete, hl]
  | .const o c, h, kvs, t', hf => by
    simp only [Tree.descOk] at h
    have key : t' = .const o c := by
      simp only [Tree.fill] at hf
      split at hf
      · exact (Option.some.inj hf).symm
      · split at hf
        · exact (Option.some.inj hf).symm
        · cases hf
      · cases hf
    subst key
    refine ⟨?_, rfl, rfl, rfl, ?_⟩
    · simp only [Tree.okAll]; exact h
    · simp [Tree.pair, Pair.map, Pair.ofObj, Tree.complete]
  | .struct n bp kids, h, kvs, t', hf => by
    simp only [Tree.descOk] at h
    simp only [Tree.fill] at hf
    split at hf
    · rename_i kvs' hl
      split at hf
      · cases hf
      · cases hk : Trees.fill kids kvs' with
        | none => rw [hk] at hf; cases hf
        | some kids' =>
          rw [hk] at hf
          simp only [Option.map_some, Option.some.injEq] at hf
          subst hf
          obtain ⟨h1, h2, h3, h4⟩ := Trees.fill_ok kids h kvs' kids' hk
          refine ⟨?_, ?_, ?_, rfl, ?_⟩
          · simp only [Tree.okAll]; exact h1
          · simp only [Tree.toParam, h2]
          · simp only [Tree.need, h3]
          · simp only [Tree.pair, Pair.map, Pair.atPos, Pair.inOrigin, Tree.complete, lookupV_some_dict hl, h4]
    · cases hf
theorem Trees.fill_ok : (ts : List Tree) → Trees.descOk ts → ∀ (kvs : List (String × PVal)) (ts' : List Tree),
    Trees.fill ts kvs = some ts' →
    Trees.okAll ts' ∧ Trees.toParams ts' = Trees.toParams ts ∧ Trees.need ts' = Trees.need ts ∧
      (Trees.pair ts').val = Trees.complete ts kvs
  | [], _, kvs, ts', hf => by
    simp only [Trees.fill, Option.some.injEq] at hf
    subst hf
    exact ⟨by simp only [Trees.okAll], rfl, rfl, rfl⟩
  | t :: ts, h, kvs, ts', hf => by
    simp only [Trees.descOk] at h
    simp only [Trees.fill] at hf
    cases h1 : t.fill kvs with
    | none => rw [h1] at hf; cases hf
    | some t' =>
      cases h2 : Trees.fill ts kvs with
      | none => rw [h1, h2] at hf; cases hf
      | some ts0 =>
        rw [h1, h2] at hf
        simp only [Option.some.injEq] at hf
        subst hf
        obtain ⟨a1, a2, a3, a4, a5⟩ := Tree.fill_ok t h.1 kvs t' h1
        obtain ⟨b1, b2, b3, b4⟩ := Trees.fill_ok ts h.2 kvs ts0 h2
        refine ⟨?_, ?_, ?_, ?_⟩
        · simp only [Trees.okAll]; exact ⟨a1, b1⟩
        · simp only [Trees.toParams, a2, b2]
        · simp only [Trees.need, a3, b3]
        · rw [Trees.pair_val_cons, Trees.complete, a4, a5, b4]
end

/-- a filled VALUE parameter was supplied -/
theorem Tree.fill_kind (t : Tree) (kvs : List (String × PVal)) (t' : Tree) (hf : t.fill kvs = some t') :
    (∃ bp bitp dop pv, t.toParam = .mk t.name bp bitp (.value dop none) ∧ lookupV t.name kvs = some pv) ∨
    (∃ bp bitp dct v, t.toParam = .mk t.name bp bitp (.codedConst dct v)) := by
  cases t with
  | int o d =>
    simp only [Tree.fill] at hf
    cases hp : o.pick kvs with
    | none => rw [hp] at hf; cases hf
    | some v =>
      unfold Obj.pick at hp
      split at hp
      · rename_i w hw
        exact Or.inl ⟨_, _, _, .atom w, rfl, by simp only [Tree.name, lookupV, hw]⟩
      · cases hp
  | const o c => exact Or.inr ⟨_, _, _, _, rfl⟩
  | struct n bp kids =>
    simp only [Tree.fill] at hf
    split at hf
    · rename_i kvs' hl
      exact Or.inl ⟨_, _, _, _, rfl, hl⟩
    · cases hf

mutual
/-- **accepted values**: the model's `encodeParam` on the supplied value = the pure encoder of the filled description -/
theorem Tree.encode_fill : (t : Tree) → t.descOk → ∀ (kvs : List (String × PVal)) (t' : Tree), t.fill kvs = some t' →
    ∀ (fuel : Nat), t.need ≤ fuel → ∀ (s : EncState),
    ∃ s', encodeParam fuel t.toParam (lookupV t.name kvs) s true = .ok ((), s') ∧ SameCore s' (t'.pair.enc s)
  | .int o d, h, kvs, t', hf, fuel, hfu, s => by
    simp only [Tree.descOk] at h
    simp only [Tree.fill] at hf
    cases hp : o.pick kvs with
    | none => rw [hp] at hf; cases hf
    | some v =>
      rw [hp] at hf
      simp only [Option.map_some, Option.some.injEq] at hf
      subst hf
      obtain ⟨hl, hr⟩ := Obj.pick_some kvs o h.1 v hp
      have hlV : lookupV o.name kvs = some (.atom v) := by simp only [lookupV, hl]
      simp only [Tree.need] at hfu
      obtain ⟨f, rfl⟩ : ∃ f, fuel = f + 2 := ⟨fuel - 2, by omega⟩
      refine ⟨encStep o v s, ?_, SameCore.refl _⟩
      simp only [Tree.toParam, Tree.name, hlV]
      exact encodeParam_obj o h.1 v hr f s
  | .const o c, h, kvs, t', hf, fuel, hfu, s => by
    simp only [Tree.descOk] at h
    simp only [Tree.need] at hfu
    obtain ⟨f, rfl⟩ : ∃ f, fuel = f + 1 := ⟨fuel - 1, by omega⟩
    have key : t' = .const o c ∧ (lookupV o.name kvs = none ∨ lookupV o.name kvs = some (.atom c)) := by
      simp only [Tree.fill] at hf
      split at hf
      · rename_i hl; exact ⟨(Option.some.inj hf).symm, Or.inl hl⟩
      · rename_i v hl
        split at hf
        · rename_i hv; subst hv; exact ⟨(Option.some.inj hf).symm, Or.inr hl⟩
        · cases hf
      · cases hf
    obtain ⟨rfl, hpv⟩ := key
    refine ⟨encStep o c s, ?_, SameCore.refl _⟩
    simp only [Tree.toParam, Tree.name]
    exact encodeParam_const_obj o h.1 c h.2 _ hpv f s
  | .struct n bp kids, h, kvs, t', hf, fuel, hfu, s => by
    simp only [Tree.descOk] at h
    simp only [Tree.need] at hfu
    obtain ⟨f, rfl⟩ : ∃ f, fuel = f + 1 + 1 + 1 := ⟨fuel - 3, by omega⟩
    have hf' : Trees.need kids ≤ f := by omega
    have key : ∃ kvs' kids', lookupV n kvs = some (.dict kvs') ∧
        kvs'.any (fun kv => !((Trees.toParams kids).any fun p => p.name == kv.1)) = false ∧
        Trees.fill kids kvs' = some kids' ∧ t' = .struct n bp kids' := by
      simp only [Tree.fill] at hf
      split at hf
      · rename_i kvs' hl
        split at hf
        · cases hf
        · rename_i hk
          cases hk2 : Trees.fill kids kvs' with
          | none => rw [hk2] at hf; cases hf
          | some kids' =>
            rw [hk2] at hf
            exact ⟨kvs', kids', hl, by simpa using hk, hk2, (Option.some.inj hf).symm⟩
      · cases hf
    obtain ⟨kvs', kids', hl, hknown, hk, rfl⟩ := key
    obtain ⟨hok', _, _, _⟩ := Trees.fill_ok kids h kvs' kids' hk
    let sIn : EncState := { s with cursorByte := posOf bp s.origin s.cursorByte, cursorBit := 0,
                                   origin := posOf bp s.origin s.cursorByte, isEndOfPdu := false }
    obtain ⟨sp, hrun, hcore⟩ := Trees.encode_fill kids h kvs' kids' hk f hf' s.isEndOfPdu sIn
    obtain ⟨e, rfl⟩ : ∃ e, f = kids.length + 1 + e := ⟨f - (kids.length + 1), by have := Trees.need_ge kids; omega⟩
    have hkeys := encodeKeyValues_trees kids e { sp with isEndOfPdu := false } true
    have hg := Trees.good kids' hok'
    refine ⟨{ sp with isEndOfPdu := false, origin := s.origin, cursorBit := 0 }, ?_, ?_⟩
    · have hrun' : encodeParams s.isEndOfPdu kvs' (kids.length + 1 + e) (Trees.toParams kids)
          { s with cursorByte := posOf bp s.origin s.cursorByte, cursorBit := 0,
                   origin := posOf bp s.origin s.cursorByte, isEndOfPdu := false } true = .ok ((), sp) := hrun
      cases bp <;>
      · simp only [posOf] at hrun'
        simp only [Tree.toParam, Tree.name, hl, encodeParam, encodeDop, encodeComposite, bind, pure, run_bind,
          run_getS, run_modifyS, run_pure, run_ite, hknown, Bool.false_eq_true, if_false, ne_eq,
          not_true_eq_false, Option.getD_none]
        rw [hrun']
        simp only []
        rw [hkeys]
    · have hin : SameCore sIn { s with cursorByte := posOf bp s.origin s.cursorByte,
                                       origin := posOf bp s.origin s.cursorByte } := ⟨rfl, rfl, rfl, rfl, rfl⟩
      have h2 := hcore.trans (hg.core _ _ hin)
      exact ⟨h2.1, h2.2.1, h2.2.2.1, h2.2.2.2.1, rfl⟩
theorem Trees.encode_fill : (ts : List Tree) → Trees.descOk ts → ∀ (kvs : List (String × PVal)) (ts' : List Tree),
    Trees.fill ts kvs = some ts' → ∀ (fuel : Nat), Trees.need ts ≤ fuel → ∀ (eop : Bool) (s : EncState),
    ∃ s', encodeParams eop kvs fuel (Trees.toParams ts) s true = .ok ((), s') ∧ SameCore s' ((Trees.pair ts').enc s)
  | [], _, kvs, ts', hf, fuel, hfu, eop, s => by
    simp only [Trees.fill, Option.some.injEq] at hf
    subst hf
    simp only [Trees.need] at hfu
    obtain ⟨f, rfl⟩ : ∃ f, fuel = f + 1 := ⟨fuel - 1, by omega⟩
    exact ⟨s, by simp [Trees.toParams, encodeParams, pure, run_pure], SameCore.refl _⟩
  | t :: ts, h, kvs, ts', hf, fuel, hfu, eop, s => by
    simp only [Trees.descOk] at h
    simp only [Trees.need] at hfu
    obtain ⟨f, rfl⟩ : ∃ f, fuel = f + 1 := ⟨fuel - 1, by omega⟩
    have key : ∃ t' ts0, t.fill kvs = some t' ∧ Trees.fill ts kvs = some ts0 ∧ ts' = t' :: ts0 := by
      simp only [Trees.fill] at hf
      cases h1 : t.fill kvs with
      | none => rw [h1] at hf; cases hf
      | some t' =>
        cases h2 : Trees.fill ts kvs with
        | none => rw [h1, h2] at hf; cases hf
        | some ts0 =>
          rw [h1, h2] at hf
          exact ⟨t', ts0, rfl, rfl, (Option.some.inj hf).symm⟩
    obtain ⟨t', ts0, h1, h2, rfl⟩ := key
    let sm : EncState := if ts.isEmpty then { s with isEndOfPdu := eop } else s
    have hsm : SameCore sm s := by
      show SameCore (if ts.isEmpty then { s with isEndOfPdu := eop } else s) s
      split
      · exact ⟨rfl, rfl, rfl, rfl, rfl⟩
      · exact SameCore.refl s
    obtain ⟨s1, hstep, hc1⟩ := Tree.encode_fill t h.1 kvs t' h1 f (by omega) sm
    obtain ⟨s2, hrest, hc2⟩ := Trees.encode_fill ts h.2 kvs ts0 h2 f (by omega) eop s1
    have hgt := Tree.good t' (Tree.fill_ok t h.1 kvs t' h1).1
    have hgts := Trees.good ts0 (Trees.fill_ok ts h.2 kvs ts0 h2).1
    refine ⟨s2, ?_, ?_⟩
    · have hemp : (Trees.toParams ts).isEmpty = ts.isEmpty := by cases ts <;> rfl
      have hstep' : encodeParam f t.toParam (lookupV t.name kvs) (if ts.isEmpty then { s with isEndOfPdu := eop } else s) true
          = .ok ((), s1) := hstep
      simp only [Trees.toParams]
      rcases Tree.fill_kind t kvs t' h1 with ⟨bp, bitp, dop, pv, htp, hl⟩ | ⟨bp, bitp, dct, v, htp⟩
      · rw [hl] at hstep'
        rw [htp, encodeParams_cons_value eop kvs f t.name bp bitp dop none _ s pv hl, ← htp, hemp, hstep']
        exact hrest
      · rw [htp, encodeParams_cons_const eop kvs f t.name bp bitp dct v _ s, ← htp, hemp, hstep']
        exact hrest
    · simp only [Trees.pair, Pair.map, Pair.seq]
      exact hc2.trans (hgts.core _ _ (hc1.trans (hgt.core _ _ hsm)))
end

/-! ### rejected values -/

/-- how the strict encoder of the model may reject: the library's `EncodeError` / `OdxError`, or — the one spot of
    the tier the model does not follow — `unmodelled`, and then an atom of a foreign type was supplied for a constant -/
def RejErr (e : Err) (typed : Bool) : Prop := EncErr e ∨ (e = .unmodelled ∧ typed = false)

/-- a value supplied for a CODED-CONST parameter that is not the constant -/
theorem encodeParam_const_bad (o : Obj) (c : IVal) (pv : PVal) (hpv : pv ≠ .atom c) (fuel : Nat) (s : EncState) :
    ∃ e s', encodeParam (fuel + 1) (o.toConstParam c) (some pv) s true = .error (e, s') ∧
      (e = .encode ∨ (e = .unmodelled ∧ ∃ v, pv = .atom v ∧ constCmp v c = false)) := by
  cases pv with
  | atom v =>
    have hne : v ≠ c := fun h => hpv (by rw [h])
    cases v <;> cases c
    all_goals first
      | (refine ⟨.encode, ?_, ?_, Or.inl rfl⟩
         rotate_left
         · simp [Obj.toConstParam, encodeParam, bind, run_bind, run_modifyS, run_raise, odxraise, hne]
           rfl)
      | (refine ⟨.unmodelled, ?_, ?_, Or.inr ⟨rfl, _, rfl, by first | (simp [constCmp]; done) | simpa [constCmp] using hne⟩⟩
         rotate_left
         · simp [Obj.toConstParam, encodeParam, bind, run_bind, run_modifyS, run_raise, odxraise, hne]
           rfl)
  | dict _ | list _ | none | pair _ _ | keyed _ _ | nokey _ | dtc _ =>
    refine ⟨.encode, ?_, ?_, Or.inl rfl⟩
    rotate_left
    · simp [Obj.toConstParam, encodeParam, bind, run_bind, run_modifyS, odxraise]
      rfl

/-- one step of the first encoding loop for a VALUE parameter whose own encoder fails -/
theorem encodeParams_cons_value_fail (eop : Bool) (kvs : List (String × PVal)) (f : Nat) (name : String)
    (bp bitp : Option Nat) (dop : Dop) (rest : List Param) (s : EncState) (e : Err) (s' : EncState)
    (h : encodeParam f (.mk name bp bitp (.value dop none)) (lookupV name kvs)
        (if rest.isEmpty then { s with isEndOfPdu := eop } else s) true = .error (e, s')) :
    ∃ e' s'', encodeParams eop kvs (f + 1) (.mk name bp bitp (.value dop none) :: rest) s true = .error (e', s'') ∧
      (e' = e ∨ e' = .encode) := by
  simp only [encodeParams, bind]
  cases hl : lookup name kvs with
  | none =>
    by_cases hre : rest.isEmpty = true
    · refine ⟨.encode, ?_, ?_, Or.inr rfl⟩
      rotate_left
      · simp [run_bind, run_modifyS, hre, odxraise]
        rfl
    · have hre' : rest.isEmpty = false := by simpa using hre
      refine ⟨.encode, ?_, ?_, Or.inr rfl⟩
      rotate_left
      · simp [run_bind, hre', odxraise]
        rfl
  | some pv =>
    refine ⟨e, s', ?_, Or.inl rfl⟩
    by_cases hre : rest.isEmpty = true
    · simp only [hre, if_true] at h
      simp only [hre, if_true, run_bind, run_modifyS, Option.isNone_some, Bool.and_false, Bool.false_eq_true, if_false,
        pure, run_pure, h]
    · have hre' : rest.isEmpty = false := by simpa using hre
      simp only [hre', Bool.false_eq_true, if_false] at h
      simp only [hre', Bool.false_eq_true, if_false, run_bind, Option.isNone_some, Bool.and_false, pure, run_pure, h]

theorem RejErr.and_left {e : Err} {a : Bool} (b : Bool) (h : RejErr e a) : RejErr e (a && b) := by
  rcases h with h | ⟨h1, h2⟩
  · exact Or.inl h
  · exact Or.inr ⟨h1, by rw [h2]; rfl⟩

theorem RejErr.and_right {e : Err} {b : Bool} (a : Bool) (h : RejErr e b) : RejErr e (a && b) := by
  rcases h with h | ⟨h1, h2⟩
  · exact Or.inl h
  · exact Or.inr ⟨h1, by rw [h2]; cases a <;> rfl⟩

mutual
/-- **rejected values**: whatever is supplied for a parameter — if `fill` does not accept it, neither does the model's
    strict encoder, and the error is the library's own -/
theorem Tree.encode_rej : (t : Tree) → t.descOk → ∀ (kvs : List (String × PVal)), t.fill kvs = none →
    ∀ (fuel : Nat), t.need ≤ fuel → ∀ (s : EncState),
    ∃ e s', encodeParam fuel t.toParam (lookupV t.name kvs) s true = .error (e, s') ∧ RejErr e (t.typed kvs)
  | .int o d, h, kvs, hf, fuel, hfu, s => by
    simp only [Tree.descOk] at h
    simp only [Tree.fill] at hf
    have hp : o.pick kvs = none := by
      cases hp : o.pick kvs with
      | none => rfl
      | some v => rw [hp] at hf; cases hf
    simp only [Tree.need] at hfu
    obtain ⟨f, rfl⟩ : ∃ f, fuel = f + 2 := ⟨fuel - 2, by omega⟩
    obtain ⟨e, s', hrun, he⟩ := encodeParam_obj_bad o h.1 h.2 kvs hp f s
    exact ⟨e, s', hrun, Or.inl he⟩
  | .const o c, h, kvs, hf, fuel, hfu, s => by
    simp only [Tree.need] at hfu
    obtain ⟨f, rfl⟩ : ∃ f, fuel = f + 1 := ⟨fuel - 1, by omega⟩
    have key : ∃ pv, lookupV o.name kvs = some pv ∧ pv ≠ .atom c := by
      cases hl : lookupV o.name kvs with
      | none => simp [Tree.fill, hl] at hf
      | some pv =>
        refine ⟨pv, rfl, ?_⟩
        intro hpv
        subst hpv
        simp [Tree.fill, hl] at hf
    obtain ⟨pv, hl, hne⟩ := key
    obtain ⟨e, s', hrun, he⟩ := encodeParam_const_bad o c pv hne f s
    refine ⟨e, s', ?_, ?_⟩
    · simp only [Tree.toParam, Tree.name, hl]; exact hrun
    · rcases he with he | ⟨he, v, hv, hc⟩
      · exact Or.inl (Or.inl he)
      · refine Or.inr ⟨he, ?_⟩
        subst hv
        simp only [Tree.typed, hl, hc]
  | .struct n bp kids, h, kvs, hf, fuel, hfu, s => by
    simp only [Tree.descOk] at h
    simp only [Tree.need] at hfu
    obtain ⟨f, rfl⟩ : ∃ f, fuel = f + 1 + 1 + 1 := ⟨fuel - 3, by omega⟩
    cases hl : lookupV n kvs with
    | none =>
      refine ⟨.encode, ?_, ?_, Or.inl (Or.inl rfl)⟩
      rotate_left
      · simp [Tree.toParam, Tree.name, hl, encodeParam, bind, run_bind, run_modifyS, odxraise]
        rfl
    | some pv =>
      cases pv with
      | dict kvs' =>
        by_cases hunk : kvs'.any (fun kv => !((Trees.toParams kids).any fun p => p.name == kv.1)) = true
        · refine ⟨.odx, ?_, ?_, Or.inl (Or.inr rfl)⟩
          rotate_left
          · simp only [Tree.toParam, Tree.name, hl, encodeParam, encodeDop, encodeComposite, bind, pure, run_bind,
              run_getS, run_modifyS, run_pure, run_ite, hunk, if_true, odxraise, ne_eq, not_true_eq_false, if_false,
              Option.getD_none]
            rfl
        · have hknown : kvs'.any (fun kv => !((Trees.toParams kids).any fun p => p.name == kv.1)) = false := by
            simpa using hunk
          have hk : Trees.fill kids kvs' = none := by
            simp only [Tree.fill, hl, hknown, Bool.false_eq_true, if_false] at hf
            cases hk : Trees.fill kids kvs' with
            | none => rfl
            | some x => rw [hk] at hf; cases hf
          obtain ⟨e, s', hrun, he⟩ := Trees.encode_rej kids h kvs' hk f (by omega) s.isEndOfPdu
            { s with cursorByte := posOf bp s.origin s.cursorByte, cursorBit := 0,
                     origin := posOf bp s.origin s.cursorByte, isEndOfPdu := false }
          refine ⟨e, s', ?_, ?_⟩
          · cases bp <;>
            · simp only [posOf] at hrun
              simp only [Tree.toParam, Tree.name, hl, encodeParam, encodeDop, encodeComposite, bind, pure, run_bind,
                run_getS, run_modifyS, run_pure, run_ite, hknown, Bool.false_eq_true, if_false, ne_eq,
                not_true_eq_false, Option.getD_none]
              rw [hrun]
          · simp only [Tree.typed, hl]; exact he
      | atom _ | list _ | none | pair _ _ | keyed _ _ | nokey _ | dtc _ =>
        refine ⟨.encode, ?_, ?_, Or.inl (Or.inl rfl)⟩
        rotate_left
        · simp only [Tree.toParam, Tree.name, hl, encodeParam, encodeDop, encodeComposite, bind, pure, run_bind,
            run_getS, run_modifyS, run_pure, odxraise]
          rfl
theorem Trees.encode_rej : (ts : List Tree) → Trees.descOk ts → ∀ (kvs : List (String × PVal)), Trees.fill ts kvs = none →
    ∀ (fuel : Nat), Trees.need ts ≤ fuel → ∀ (eop : Bool) (s : EncState),
    ∃ e s', encodeParams eop kvs fuel (Trees.toParams ts) s true = .error (e, s') ∧ RejErr e (Trees.typed ts kvs)
  | [], _, kvs, hf, _, _, _, _ => by simp [Trees.fill] at hf
  | t :: ts, h, kvs, hf, fuel, hfu, eop, s => by
    simp only [Trees.descOk] at h
    simp only [Trees.need] at hfu
    obtain ⟨f, rfl⟩ : ∃ f, fuel = f + 1 := ⟨fuel - 1, by omega⟩
    have hemp : (Trees.toParams ts).isEmpty = ts.isEmpty := by cases ts <;> rfl
    cases h1 : t.fill kvs with
    | none =>
      obtain ⟨e, s', hrun, he⟩ := Tree.encode_rej t h.1 kvs h1 f (by omega)
        (if ts.isEmpty then { s with isEndOfPdu := eop } else s)
      simp only [Trees.toParams, Trees.typed]
      rcases Tree.toParam_kind t with ⟨bp, bitp, dop, htp⟩ | ⟨bp, bitp, dct, v, htp⟩
      · rw [htp, ← hemp] at hrun
        rw [htp]
        obtain ⟨e', s'', hrun', he'⟩ := encodeParams_cons_value_fail eop kvs f t.name bp bitp dop _ s e s' hrun
        refine ⟨e', s'', hrun', ?_⟩
        rcases he' with rfl | rfl
        · exact he.and_left _
        · exact Or.inl (Or.inl rfl)
      · rw [htp, encodeParams_cons_const eop kvs f t.name bp bitp dct v _ s, ← htp, hemp, hrun]
        exact ⟨e, s', rfl, he.and_left _⟩
    | some t' =>
      have h2 : Trees.fill ts kvs = none := by
        simp only [Trees.fill, h1] at hf
        cases h2 : Trees.fill ts kvs with
        | none => rfl
        | some x => rw [h2] at hf; cases hf
      obtain ⟨s1, hstep, _⟩ := Tree.encode_fill t h.1 kvs t' h1 f (by omega)
        (if ts.isEmpty then { s with isEndOfPdu := eop } else s)
      obtain ⟨e, s', hrest, he⟩ := Trees.encode_rej ts h.2 kvs h2 f (by omega) eop s1
      refine ⟨e, s', ?_, ?_⟩
      · simp only [Trees.toParams]
        rcases Tree.fill_kind t kvs t' h1 with ⟨bp, bitp, dop, pv, htp, hl⟩ | ⟨bp, bitp, dct, v, htp⟩
        · rw [hl] at hstep
          rw [htp, encodeParams_cons_value eop kvs f t.name bp bitp dop none _ s pv hl, ← htp, hemp, hstep]
          exact hrest
        · rw [htp, encodeParams_cons_const eop kvs f t.name bp bitp dct v _ s, ← htp, hemp, hstep]
          exact hrest
      · simp only [Trees.typed]; exact he.and_right _
end

/-- the `typed` side condition for a whole supplied value -/
def PVal.typedFor (ts : List Tree) : PVal → Bool
  | .dict kvs => Trees.typed ts kvs
  | _ => true

/-- the strict encoder accepts the supplied value: a dictionary without unknown names that `fill` accepts -/
def PVal.acceptedBy (ts : List Tree) : PVal → Bool
  | .dict kvs => !(kvs.any (fun kv => !((Trees.toParams ts).any fun p => p.name == kv.1))) && (Trees.fill ts kvs).isSome
  | _ => false

/-- **`Request.encode` of the model on a nested description and any supplied value whatsoever**: a library error
    (or `unmodelled` with an ill-typed constant), or the pure encoder of the filled description from the empty message -/
theorem encodeMessage_struct_cases (ts : List Tree) (hneed : Trees.need ts + 2 ≤ modelFuel) (hd : Trees.descOk ts)
    (pv : PVal) (trig : Option Bytes) :
    (pv.acceptedBy ts = false ∧
      ∃ e, encodeMessage none (Trees.toParams ts) pv trig true = .error e ∧ RejErr e (pv.typedFor ts)) ∨
    (∃ kvs ts' s0, pv = .dict kvs ∧ Trees.fill ts kvs = some ts' ∧ pv.acceptedBy ts = true ∧
      s0.msg = [] ∧ s0.used = [] ∧ s0.warn = 0 ∧ s0.cursorByte = 0 ∧ s0.origin = 0 ∧
      encodeMessage none (Trees.toParams ts) pv trig true =
        .ok (((Trees.pair ts').enc s0).msg, ((Trees.pair ts').enc s0).warn)) := by
  obtain ⟨f, hf⟩ : ∃ f, modelFuel = f + 1 + 1 := ⟨modelFuel - 2, by unfold modelFuel; omega⟩
  have hf' : Trees.need ts ≤ f := by omega
  cases pv with
  | dict kvs =>
    by_cases hunk : kvs.any (fun kv => !((Trees.toParams ts).any fun p => p.name == kv.1)) = true
    · refine Or.inl ⟨by simp [PVal.acceptedBy, hunk], .odx, ?_, Or.inl (Or.inr rfl)⟩
      unfold encodeMessage
      rw [hf]
      simp only [encodeDop, encodeComposite, bind, pure, run_bind, run_getS, run_modifyS, run_pure, run_ite, hunk,
        if_true, odxraise, ne_eq, not_true_eq_false, if_false]
    · have hknown : kvs.any (fun kv => !((Trees.toParams ts).any fun p => p.name == kv.1)) = false := by
        simpa using hunk
      cases hfill : Trees.fill ts kvs with
      | none =>
        obtain ⟨e, s', hrun, he⟩ := Trees.encode_rej ts hd kvs hfill f hf' true { trig := trig, isEndOfPdu := false }
        refine Or.inl ⟨by simp [PVal.acceptedBy, hfill], e, ?_, he⟩
        have hrun' : encodeParams true kvs f (Trees.toParams ts) { trig := trig, isEndOfPdu := false } true
            = .error (e, s') := hrun
        unfold encodeMessage
        rw [hf]
        simp only [encodeDop, encodeComposite, bind, pure, run_bind, run_getS, run_modifyS, run_pure, run_ite, hknown,
          Bool.false_eq_true, if_false, ne_eq, not_true_eq_false]
        rw [hrun']
      | some ts' =>
        let s0 : EncState := { trig := trig, isEndOfPdu := false }
        refine Or.inr ⟨kvs, ts', s0, rfl, hfill, by simp [PVal.acceptedBy, hknown, hfill], rfl, rfl, rfl, rfl, rfl, ?_⟩
        obtain ⟨sp, hrun, hcore⟩ := Trees.encode_fill ts hd kvs ts' hfill f hf' true s0
        obtain ⟨e, rfl⟩ : ∃ e, f = ts.length + 1 + e := ⟨f - (ts.length + 1), by have := Trees.need_ge ts; omega⟩
        have hkeys := encodeKeyValues_trees ts e { sp with isEndOfPdu := false } true
        have hrun' : encodeParams true kvs (ts.length + 1 + e) (Trees.toParams ts)
            { trig := trig, isEndOfPdu := false } true = .ok ((), sp) := hrun
        unfold encodeMessage
        rw [hf]
        simp only [encodeDop, encodeComposite, bind, pure, run_bind, run_getS, run_modifyS, run_pure, run_ite, hknown,
          Bool.false_eq_true, if_false, ne_eq, not_true_eq_false]
        rw [hrun']
        simp only []
        rw [hkeys]
        simp only [hcore.1, hcore.2.2.1]
  | atom _ | list _ | none | pair _ _ | keyed _ _ | nokey _ | dtc _ =>
    refine Or.inl ⟨rfl, .encode, ?_, Or.inl (Or.inl rfl)⟩
    unfold encodeMessage
    rw [hf]
    simp only [encodeDop, encodeComposite, bind, pure, run_bind, run_getS, run_modifyS, run_pure, odxraise, if_true]

/-- the decoder on the PDU of an accepted value returns the completed value tree -/
theorem struct_roundtrip_fill (ts : List Tree) (hneed : Trees.need ts + 2 ≤ modelFuel) (hd : Trees.descOk ts)
    (kvs : List (String × PVal)) (ts' : List Tree) (hfill : Trees.fill ts kvs = some ts') (s0 : EncState)
    (hm : s0.msg = []) (hw : s0.warn = 0) (hc : s0.cursorByte = 0) (ho : s0.origin = 0)
    (hwarn : ((Trees.pair ts').enc s0).warn = 0) :
    ∃ cursor, decodeMessage none (Trees.toParams ts) ((Trees.pair ts').enc s0).msg true =
      .ok (.dict (Trees.complete ts kvs), cursor) := by
  obtain ⟨hok, htp, hnd, hval⟩ := Trees.fill_ok ts hd kvs ts' hfill
  have hg := Trees.good ts' hok
  have hall : AllBytes s0.msg := by rw [hm]; intro b hb; cases hb
  obtain ⟨hv, _, _, _, hfit⟩ := hg.rt s0 { msg := ((Trees.pair ts').enc s0).msg } hall (by rw [hwarn, hw]) (by simp [ho])
    (by simp [hc]) (hg.allBytes s0 hall) (Nat.le_refl _) (by intro a _; rfl)
  refine ⟨((Trees.pair ts').dec { msg := ((Trees.pair ts').enc s0).msg }).2.cursorByte, ?_⟩
  rw [← htp, decodeMessage_tree ts' (by rw [hnd]; exact hneed) hok _ hfit, hv, hval]

end OdxVerif.Codec
