import OdxVerif.Proofs.FlatCore
/-! `len(used_mask) ≥ len(coded_message)` through the whole encoder model (`encodeParam_keeps_usedCovers`; in odxtools both are
    always equally long, `EncodeState.__post_init__`).  `emplace_bytes` WITHOUT a mask pads the used-mask by as many bytes as
    it pads the message and then claims `used[pos:pos+n]` by slicing — with a shorter used-mask the claim lands on the wrong
    bytes.  The pure pairs (`Good`) quantify over all states, so a pair whose decoder reads back bytes written that way
    (MATCHING-REQUEST-PARAM) first repairs the mask, and agrees with the model on the states with this invariant only.
    Proof: the scheme of `Proofs/DynLeafEop.lean`.  Core Lean only. -/
namespace OdxVerif.Codec
open OdxVerif.OdxM OdxVerif.Bits

/-- the used-mask is at least as long as the message (`ref`: dummy, keeps the shape of `Proofs/DynLeafEop.lean`) -/
def UsedCovers (_ref : Unit) (s : EncState) : Prop := s.msg.length ≤ s.used.length

theorem placeUsed_length_ge (used : Bytes) (pos n : Nat) (mask : Bytes) (hm : n ≤ mask.length) :
    (placeUsed used pos n mask).length = max used.length (pos + n) := by
  unfold placeUsed
  simp only [List.length_append, List.length_take, List.length_drop, orBytes_length, padTo_length]
  omega

/-- a computation that keeps `UsedCovers ref` (on success) -/
def KU {α : Type} (ref : Unit) (m : EncM α) : Prop :=
  ∀ s st a s', UsedCovers ref s → m s st = .ok (a, s') → UsedCovers ref s'

theorem ku_pure {α : Type} (ref : Unit) (a : α) : KU ref (Pure.pure a : EncM α) := by
  intro s st b s' hs h; cases h; exact hs
theorem ku_pure' {α : Type} (ref : Unit) (a : α) : KU ref (OdxM.pure a : EncM α) := by
  intro s st b s' hs h; cases h; exact hs
theorem ku_odxraise (ref : Unit) (e : Err) : KU ref (odxraise e : EncM Unit) := by
  intro s st b s' hs h
  cases st <;> simp [odxraise] at h
  obtain ⟨_, rfl⟩ := h; exact hs
theorem ku_raise {α : Type} (ref : Unit) (e : Err) : KU ref (raise e : EncM α) := by
  intro s st b s' hs h; simp [raise] at h
theorem ku_odxassert (ref : Unit) (c : Bool) : KU ref (odxassert c : EncM Unit) := by
  unfold odxassert; split
  · exact ku_pure' ref ()
  · exact ku_odxraise ref _
theorem ku_modifyS (ref : Unit) (f : EncState → EncState) (hf : ∀ s, UsedCovers ref s → UsedCovers ref (f s)) :
    KU ref (modifyS f : EncM Unit) := by
  intro s st b s' hs h; cases h; exact hf s hs
theorem ku_setS (ref : Unit) (t : EncState) (ht : UsedCovers ref t) : KU ref (setS t : EncM Unit) := by
  intro s st b s' _ h; cases h; exact ht

theorem ku_bind' {α β : Type} (ref : Unit) (m : EncM α) (f : α → EncM β) (hm : KU ref m) (hf : ∀ a, KU ref (f a)) :
    KU ref (OdxM.bind m f) := by
  intro s st b s' hs h
  unfold OdxM.bind at h
  cases hms : m s st with
  | error e => rw [hms] at h; cases h
  | ok p =>
    obtain ⟨a, s1⟩ := p
    rw [hms] at h
    exact hf a s1 st b s' (hm s st a s1 hs hms) h
theorem ku_bind {α β : Type} (ref : Unit) (m : EncM α) (f : α → EncM β) (hm : KU ref m) (hf : ∀ a, KU ref (f a)) :
    KU ref (m >>= f) := ku_bind' ref m f hm hf

/-- reading the state: what follows may use that the state read satisfies the invariant (the save/restore pattern) -/
theorem ku_getS_bind' {β : Type} (ref : Unit) (f : EncState → EncM β) (hf : ∀ s0, UsedCovers ref s0 → KU ref (f s0)) :
    KU ref (OdxM.bind getS f) := by
  intro s st b s' hs h
  exact hf s hs s st b s' hs h
theorem ku_getS_bind {β : Type} (ref : Unit) (f : EncState → EncM β) (hf : ∀ s0, UsedCovers ref s0 → KU ref (f s0)) :
    KU ref (getS >>= f) := ku_getS_bind' ref f hf

theorem ku_ite {α : Type} (ref : Unit) (c : Prop) [Decidable c] (a b : EncM α) (ha : KU ref a) (hb : KU ref b) :
    KU ref (if c then a else b) := by split <;> assumption

attribute [irreducible] KU

/-- side goals of `ku_modifyS` / `ku_setS`: the flag is untouched, cleared, or restored from a state that had the invariant -/
macro "ku_side" : tactic =>
  `(tactic| ((try intro s hs); dsimp only [UsedCovers] at *; first | assumption | (simp only [List.length_append, List.length_take, List.length_drop, List.length_replicate] at *; omega)))

macro "ku_step" : tactic =>
  `(tactic| first
    | exact ku_pure _ _ | exact ku_pure' _ _ | exact ku_odxraise _ _ | exact ku_raise _ _ | exact ku_odxassert _ _
    | assumption
    | (with_reducible apply ku_getS_bind; intro s0 hs0) | (with_reducible apply ku_getS_bind'; intro s0 hs0)
    | (apply ku_modifyS; ku_side) | (apply ku_setS; ku_side)
    | apply ku_bind | apply ku_bind' | apply ku_ite
    | intro _)
macro "kuu" : tactic => `(tactic| repeat (first | split | ku_step))

theorem ku_emplaceBytes (ref : Unit) (new : Bytes) (mask : Option Bytes) : KU ref (emplaceBytes new mask) := by
  unfold emplaceBytes
  apply ku_getS_bind
  intro s hs
  have hkey : ∀ (u : Unit), KU ref ((fun (_ : Unit) =>
      (match mask with
      | none =>
        setS { s with msg := (padTo s.msg (s.cursorByte + new.length)).take s.cursorByte ++ new ++
                        (padTo s.msg (s.cursorByte + new.length)).drop (s.cursorByte + new.length),
                      used := (s.used ++ List.replicate ((padTo s.msg (s.cursorByte + new.length)).length - s.msg.length) 0).take s.cursorByte ++
                        List.replicate new.length 255 ++
                        (s.used ++ List.replicate ((padTo s.msg (s.cursorByte + new.length)).length - s.msg.length) 0).drop (s.cursorByte + new.length),
                      warn := s.warn + (if (((s.used ++ List.replicate ((padTo s.msg (s.cursorByte + new.length)).length - s.msg.length) 0).drop
                                s.cursorByte).take new.length).any (· ≠ 0) then 1 else 0),
                      cursorByte := s.cursorByte + new.length }
      | some m =>
        if m.length < new.length then raise .foreign
        else
          setS { s with msg := placeBytes s.msg s.cursorByte new m,
                        used := placeUsed (s.used ++ List.replicate ((padTo s.msg (s.cursorByte + new.length)).length - s.msg.length) 0)
                                  s.cursorByte new.length m,
                        warn := s.warn + overlapCount (((s.used ++ List.replicate
                                  ((padTo s.msg (s.cursorByte + new.length)).length - s.msg.length) 0).drop s.cursorByte).take new.length) m,
                        cursorByte := s.cursorByte + new.length } : EncM Unit)) u) := by
    intro _
    dsimp only
    split
    · apply ku_setS
      dsimp only [UsedCovers] at *
      simp only [List.length_append, List.length_take, List.length_drop, List.length_replicate, padTo_length]
      omega
    · split
      · exact ku_raise _ _
      · apply ku_setS
        dsimp only [UsedCovers] at *
        rw [placeBytes_length _ _ _ _ (by omega), placeUsed_length_ge _ _ _ _ (by omega)]
        simp only [List.length_append, List.length_replicate, padTo_length]
        omega
  dsimp only
  split
  · apply ku_bind
    · exact ku_odxraise _ _
    · intro u; exact hkey u
  · exact hkey ()

theorem ku_rawOfInt32 (ref : Unit) (enc : Option Enc) (bl : Nat) (v : Int) : KU ref (rawOfInt32 enc bl v) := by
  unfold rawOfInt32; kuu
theorem ku_rawOfUInt32 (ref : Unit) (enc : Option Enc) (bl : Nat) (v : Int) : KU ref (rawOfUInt32 enc bl v) := by
  unfold rawOfUInt32; kuu
theorem ku_fitBytes (ref : Unit) (raw : Bytes) (bl : Nat) : KU ref (fitBytes raw bl) := by
  unfold fitBytes; kuu


macro "kuu'" : tactic => `(tactic| repeat (first
    | exact ku_emplaceBytes _ _ _ | exact ku_rawOfInt32 _ _ _ _ | exact ku_rawOfUInt32 _ _ _ _ | exact ku_fitBytes _ _ _
    | ku_step | split))

theorem ku_emplaceAtomic (ref : Unit) (v : IVal) (bl : Nat) (bt : BaseType) (enc : Option Enc) (hl : Bool) (m : Option Bytes) :
    KU ref (emplaceAtomic v bl bt enc hl m) := by
  unfold emplaceAtomic
  dsimp only
  split
  · apply ku_bind
    · exact ku_raise _ _
    · intro _
      apply ku_bind
      · cases bt <;> cases v <;> simp only [] <;> kuu'
      · intro p
        kuu'
  · apply ku_bind
    · cases bt <;> cases v <;> simp only [] <;> kuu'
    · intro p
      kuu'

theorem ku_applyMask (ref : Unit) (m : Nat) (c : Bool) (v : IVal) : KU ref (applyMask m c v) := by
  unfold applyMask
  cases v <;> simp only [] <;> kuu'

macro "kuu''" : tactic => `(tactic| repeat (first
    | exact ku_emplaceAtomic _ _ _ _ _ _ _ | exact ku_applyMask _ _ _ _
    | exact ku_emplaceBytes _ _ _ | exact ku_rawOfInt32 _ _ _ _ | exact ku_rawOfUInt32 _ _ _ _ | exact ku_fitBytes _ _ _
    | ku_step | split))

theorem ku_encodeDct (ref : Unit) (dct : Dct) (v : IVal) : KU ref (encodeDct dct v) := by
  unfold encodeDct
  cases dct with
  | std bt enc hl bl mask c => cases mask <;> simp only [] <;> kuu''
  | minmax bt enc hl mn mx t =>
    simp only []
    apply ku_bind
    · cases v <;> simp only [] <;> kuu''
    · intro raw; kuu''
  | leading bt enc hl bl =>
    simp only []
    apply ku_bind
    · cases bt <;> cases v <;> simp only [] <;> kuu''
    · intro n; kuu''
  | paramLen bt enc hl key =>
    simp only []
    apply ku_getS_bind
    intro s hs
    apply ku_bind
    · split
      · kuu''
      · apply ku_bind
        · cases bt <;> cases v <;> simp only [] <;> kuu''
        · intro b; kuu''
    · intro b; kuu''

/-! ### the compu-method helpers (`Model/CodecCompu.lean`; they only raise / odxraise / return) -/

theorem ku_methodP2I (ref : Unit) (m : Compu.Method) (p : Compu.Val) : KU ref (methodP2I m p : EncM Compu.Val) := by
  unfold methodP2I
  cases m <;> simp only [] <;> kuu

theorem ku_methodI2P (ref : Unit) (arith : Err) (m : Compu.Method) (i : Compu.Val) :
    KU ref (methodI2P arith m i : EncM (Option Compu.Val)) := by
  unfold methodI2P
  cases m <;> simp only [] <;> kuu

macro "kuuc" : tactic => `(tactic| repeat (first
    | exact ku_methodP2I _ _ _ | exact ku_methodI2P _ _ _ _ | ku_step | split))

theorem ku_dopP2I (ref : Unit) (m : Compu.Method) (v : IVal) : KU ref (dopP2I m v : EncM IVal) := by
  unfold dopP2I
  kuuc

theorem ku_cmKeyValid (ref : Unit) (cm : CCompu) (ity pty : BaseType) (i : Int) : KU ref (cmKeyValid cm ity pty i) := by
  unfold cmKeyValid
  kuuc

theorem ku_keyValidCheck (ref : Unit) (dop : Dop) (i : Int) : KU ref (keyValidCheck dop i) := by
  unfold keyValidCheck
  split
  · exact ku_cmKeyValid _ _ _ _ _
  · exact ku_raise _ _
  · exact ku_pure _ _

theorem ku_cmKeyRepr (ref : Unit) (cm : CCompu) (ity pty : BaseType) (v : Int) : KU ref (cmKeyRepr cm ity pty v) := by
  unfold cmKeyRepr
  kuuc

theorem ku_keyReprCheck (ref : Unit) (dop : Dop) (v : Int) : KU ref (keyReprCheck dop v) := by
  unfold keyReprCheck
  split
  · exact ku_cmKeyRepr _ _ _ _ _
  · exact ku_pure _ _

macro "kuu3" : tactic => `(tactic| repeat (first
    | exact ku_emplaceAtomic _ _ _ _ _ _ _ | exact ku_encodeDct _ _ _
    | exact ku_emplaceBytes _ _ _ | exact ku_keyValidCheck _ _ _ | exact ku_keyReprCheck _ _ _
    | ku_step | split | dsimp only))

theorem ku_encodeKeyPlaceholder (ref : Unit) (name : String) (bytePos bitPos : Option Nat) (dop : Dop) (pv : Option PVal) :
    KU ref (encodeKeyPlaceholder name bytePos bitPos dop pv) := by
  unfold encodeKeyPlaceholder
  kuu3


/-- all seven mutually recursive encoding functions keep the invariant, by induction on the fuel; the item loops and
    the parameter loop re-install the flag value `eop` they are given for the last item / parameter -/
theorem ku_encode_all (fuel : Nat) : ∀ (ref : Unit),
    (∀ d pv, KU ref (encodeDop fuel d pv)) ∧
    (∀ item eop xs, KU ref (encodeItems item eop fuel xs)) ∧
    (∀ item sz eop xs, KU ref (encodeStaticItems item sz eop fuel xs)) ∧
    (∀ p pv, KU ref (encodeParam fuel p pv)) ∧
    (∀ eop values ps, KU ref (encodeParams eop values fuel ps)) ∧
    (∀ ps, KU ref (encodeKeyValues fuel ps)) ∧
    (∀ ps pv, KU ref (encodeComposite fuel ps pv)) := by
  induction fuel with
  | zero =>
    intro ref
    refine ⟨?_, ?_, ?_, ?_, ?_, ?_, ?_⟩ <;> intros
    · unfold encodeDop; exact ku_raise _ _
    · unfold encodeItems; exact ku_raise _ _
    · unfold encodeStaticItems; exact ku_raise _ _
    · unfold encodeParam; exact ku_raise _ _
    · unfold encodeParams; exact ku_raise _ _
    · unfold encodeKeyValues; exact ku_raise _ _
    · unfold encodeComposite; exact ku_raise _ _
  | succ fuel ih =>
    intro ref
    obtain ⟨ihDop, ihItems, ihStatic, ihParam, ihParams, ihKeys, ihComp⟩ := ih ref
    refine ⟨?_, ?_, ?_, ?_, ?_, ?_, ?_⟩
    · intro d pv
      cases d <;> unfold encodeDop <;>
        repeat (first
          | exact ihDop _ _ | exact ihItems _ _ _ | exact ihStatic _ _ _ _ | exact ihComp _ _ | exact ihParam _ _
          | exact ku_encodeDct _ _ _ | exact ku_emplaceBytes _ _ _ | exact ku_dopP2I _ _ _ | exact ku_methodP2I _ _ _
          | exact ku_methodI2P _ _ _ _ | exact ku_keyValidCheck _ _ _ | exact ku_keyReprCheck _ _ _
          | ku_step | split | dsimp only
          | (simp only [Nat.succ_eq_add_one, Nat.add_right_cancel_iff] at *; subst_vars))
    · intro item eop xs
      unfold encodeItems
      repeat (first
          | exact ihDop _ _ | exact ihItems _ _ _
          | ku_step | split | dsimp only
          | (simp only [Nat.succ_eq_add_one, Nat.add_right_cancel_iff] at *; subst_vars))
    · intro item sz eop xs
      unfold encodeStaticItems
      repeat (first
          | exact ihDop _ _ | exact ihStatic _ _ _ _ | exact ku_emplaceBytes _ _ _
          | ku_step | split | dsimp only
          | (simp only [Nat.succ_eq_add_one, Nat.add_right_cancel_iff] at *; subst_vars))
    · intro p pv
      unfold encodeParam
      repeat (first
          | exact ihDop _ _ | exact ku_encodeDct _ _ _ | exact ku_emplaceBytes _ _ _
          | ku_step | split | dsimp only
          | (simp only [Nat.succ_eq_add_one, Nat.add_right_cancel_iff] at *; subst_vars))
    · intro eop values ps
      unfold encodeParams
      repeat (first
          | exact ihParam _ _ | exact ihParams _ _ _ | exact ku_encodeKeyPlaceholder _ _ _ _ _ _
          | ku_step | split | dsimp only
          | (simp only [Nat.succ_eq_add_one, Nat.add_right_cancel_iff] at *; subst_vars))
    · intro ps
      unfold encodeKeyValues
      repeat (first
          | exact ihDop _ _ | exact ihKeys _ | exact ku_keyReprCheck _ _ _ | exact ku_keyValidCheck _ _ _
          | ku_step | split | dsimp only
          | (simp only [Nat.succ_eq_add_one, Nat.add_right_cancel_iff] at *; subst_vars))
    · intro ps pv
      unfold encodeComposite
      repeat (first
          | exact ihParams _ _ _ | exact ihKeys _
          | ku_step | split | dsimp only
          | (simp only [Nat.succ_eq_add_one, Nat.add_right_cancel_iff] at *; subst_vars))


/-- **the used-mask stays at least as long as the message**: any parameter of the model, any value, strict or lenient. -/
theorem encodeParam_keeps_usedCovers (fuel : Nat) (p : Param) (pv : Option PVal) (s : EncState) (st : Bool) (s' : EncState)
    (h : encodeParam fuel p pv s st = .ok ((), s')) (hs : s.msg.length ≤ s.used.length) : s'.msg.length ≤ s'.used.length := by
  have := (ku_encode_all fuel ()).2.2.2.1 p pv
  unfold KU at this
  exact this s st () s' hs h

end OdxVerif.Codec
