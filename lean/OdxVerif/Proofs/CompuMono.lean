import OdxVerif.Proofs.CompuLinear
/-! Monotonicity of the linear formula and what it means for derived physical limits. -/
namespace OdxVerif.Compu

theorem linear_sub (o f d a x : Rat) (hd : d ≠ 0) :
    linear o f d x - linear o f d a = (f * d / (d * d)) * (x - a) := by
  unfold linear; field_simp; ring

theorem linear_le_iff_pos {o f d a x : Rat} (h : 0 < f * d) : linear o f d a ≤ linear o f d x ↔ a ≤ x := by
  have hd : d ≠ 0 := by rintro rfl; simp at h
  have hk : 0 < f * d / (d * d) := div_pos h (mul_self_pos.mpr hd)
  have e := linear_sub o f d a x hd
  constructor
  · intro hle
    have : 0 ≤ (f * d / (d * d)) * (x - a) := by linarith
    have := (mul_nonneg_iff_of_pos_left hk).mp this
    linarith
  · intro hle
    have : 0 ≤ (f * d / (d * d)) * (x - a) := mul_nonneg hk.le (by linarith)
    linarith

theorem linear_lt_iff_pos {o f d a x : Rat} (h : 0 < f * d) : linear o f d a < linear o f d x ↔ a < x := by
  have h1 := @linear_le_iff_pos o f d x a h
  constructor
  · intro hlt; by_contra hc; exact absurd (h1.mpr (not_lt.mp hc)) (not_le.mpr hlt)
  · intro hlt; by_contra hc; exact absurd (h1.mp (not_lt.mp hc)) (not_le.mpr hlt)

theorem linear_le_iff_neg {o f d a x : Rat} (h : f * d < 0) : linear o f d a ≤ linear o f d x ↔ x ≤ a := by
  have hd : d ≠ 0 := by rintro rfl; simp at h
  have hk : 0 < -(f * d / (d * d)) := by
    have : f * d / (d * d) < 0 := by
      have hp := mul_self_pos.mpr hd
      rw [div_lt_iff₀ hp]; linarith
    linarith
  have e := linear_sub o f d a x hd
  constructor
  · intro hle
    have : 0 ≤ (-(f * d / (d * d))) * (a - x) := by nlinarith
    have := (mul_nonneg_iff_of_pos_left hk).mp this
    linarith
  · intro hle
    have : 0 ≤ (-(f * d / (d * d))) * (a - x) := mul_nonneg hk.le (by linarith)
    nlinarith

theorem linear_lt_iff_neg {o f d a x : Rat} (h : f * d < 0) : linear o f d a < linear o f d x ↔ x < a := by
  have h1 := @linear_le_iff_neg o f d x a h
  constructor
  · intro hlt; by_contra hc; exact absurd (h1.mpr (not_lt.mp hc)) (not_le.mpr hlt)
  · intro hlt; by_contra hc; exact absurd (h1.mp (not_lt.mp hc)) (not_le.mpr hlt)

theorem linear_mono_nonneg {o f d a x : Rat} (hd : d ≠ 0) (h : 0 ≤ f * d) (hax : a ≤ x) : linear o f d a ≤ linear o f d x := by
  have e := linear_sub o f d a x hd
  have hk : 0 ≤ f * d / (d * d) := div_nonneg h (mul_self_pos.mpr hd).le
  have : 0 ≤ (f * d / (d * d)) * (x - a) := mul_nonneg hk (by linarith)
  linarith

theorem linear_anti_neg {o f d a x : Rat} (hd : d ≠ 0) (h : f * d ≤ 0) (hax : a ≤ x) : linear o f d x ≤ linear o f d a := by
  have e := linear_sub o f d a x hd
  have hk : f * d / (d * d) ≤ 0 := div_nonpos_of_nonpos_of_nonneg h (mul_self_pos.mpr hd).le
  have : (f * d / (d * d)) * (x - a) ≤ 0 := mul_nonpos_of_nonpos_of_nonneg hk (by linarith)
  linarith

/-- the number a converted value denotes: rounded for integer types -/
def mkNumQ (ty : DType) (r : Rat) : Rat := if ty.isInt then ((roundHalfEven r : Int) : Rat) else r

theorem mkNum_num' (ty : DType) (r : Rat) : (mkNum ty r).num? = some (mkNumQ ty r) := mkNum_num ty r

theorem mkNumQ_mono (ty : DType) {a b : Rat} (h : a ≤ b) : mkNumQ ty a ≤ mkNumQ ty b := by
  unfold mkNumQ; split
  · exact_mod_cast roundHalfEven_mono h
  · exact h

theorem mkNumQ_real {ty : DType} (h : ty.isInt = false) (r : Rat) : mkNumQ ty r = r := by simp [mkNumQ, h]

@[simp] theorem lowerSemO_some (l : Limit) (x : Rat) : lowerSemO (some l) x ↔ l.lowerSem x := by simp [lowerSemO]
@[simp] theorem upperSemO_some (l : Limit) (x : Rat) : upperSemO (some l) x ↔ l.upperSem x := by simp [upperSemO]
@[simp] theorem lowerSemO_none (x : Rat) : lowerSemO none x ↔ True := by simp [lowerSemO]
@[simp] theorem upperSemO_none (x : Rat) : upperSemO none x ↔ True := by simp [upperSemO]

/-- shape of the image of a limit -/
theorem imageLimit_cases (s : LinSeg) (l : Option Limit) :
    (imageLimit s l = none ∧ (∀ l', l = some l' → l'.value.bind Val.num? = none)) ∨
    (∃ l' q, l = some l' ∧ l'.value.bind Val.num? = some q ∧
      imageLimit s l = some { value := some (mkNum s.pty (linear s.offset s.factor s.denom q)), itype := l'.itype }) := by
  cases l with
  | none => left; exact ⟨rfl, by intro l' h; cases h⟩
  | some l' =>
    cases hq : l'.value.bind Val.num? with
    | none => left; exact ⟨by simp [imageLimit, hq], by intro l'' h; cases h; exact hq⟩
    | some q => right; exact ⟨l', q, rfl, hq, by simp [imageLimit, hq]⟩

theorem lowerSem_mk (p : Val) (t : Option IType) (y q : Rat) (hp : p.num? = some q) :
    ({ value := some p, itype := t } : Limit).lowerSem y ↔ lowerOk t q y := by
  simp [Limit.lowerSem, hp]

theorem upperSem_mk (p : Val) (t : Option IType) (y q : Rat) (hp : p.num? = some q) :
    ({ value := some p, itype := t } : Limit).upperSem y ↔ upperOk t q y := by
  simp [Limit.upperSem, hp]

/-! ### real physical type, non-zero slope: limits correspond exactly -/

section real
variable (s : LinSeg) (hreal : s.pty.isInt = false)
include hreal

theorem lower_image_pos (hpos : 0 < s.factor * s.denom) (l : Option Limit) (x : Rat) :
    lowerSemO (imageLimit s l) (linear s.offset s.factor s.denom x) ↔ lowerSemO l x := by
  rcases imageLimit_cases s l with ⟨h1, h2⟩ | ⟨l', q, rfl, hq, him⟩
  · rw [h1]
    cases l with
    | none => simp
    | some l' => simp [Limit.lowerSem, h2 l' rfl]
  · rw [him]
    simp only [lowerSemO_some]
    rw [lowerSem_mk _ _ _ _ (mkNum_num' _ _), mkNumQ_real hreal]
    simp only [Limit.lowerSem, hq]
    cases l'.itype with
    | none => exact linear_le_iff_pos hpos
    | some t => cases t with
      | closed => exact linear_le_iff_pos hpos
      | open_ => exact linear_lt_iff_pos hpos
      | infinite => simp [lowerOk]

theorem upper_image_pos (hpos : 0 < s.factor * s.denom) (l : Option Limit) (x : Rat) :
    upperSemO (imageLimit s l) (linear s.offset s.factor s.denom x) ↔ upperSemO l x := by
  rcases imageLimit_cases s l with ⟨h1, h2⟩ | ⟨l', q, rfl, hq, him⟩
  · rw [h1]
    cases l with
    | none => simp
    | some l' => simp [Limit.upperSem, h2 l' rfl]
  · rw [him]
    simp only [upperSemO_some]
    rw [upperSem_mk _ _ _ _ (mkNum_num' _ _), mkNumQ_real hreal]
    simp only [Limit.upperSem, hq]
    cases l'.itype with
    | none => exact linear_le_iff_pos hpos
    | some t => cases t with
      | closed => exact linear_le_iff_pos hpos
      | open_ => exact linear_lt_iff_pos hpos
      | infinite => simp [upperOk]

/-- negative slope: the image of the *upper* internal limit is a *lower* physical limit -/
theorem lower_image_neg (hneg : s.factor * s.denom < 0) (l : Option Limit) (x : Rat) :
    lowerSemO (imageLimit s l) (linear s.offset s.factor s.denom x) ↔ upperSemO l x := by
  rcases imageLimit_cases s l with ⟨h1, h2⟩ | ⟨l', q, rfl, hq, him⟩
  · rw [h1]
    cases l with
    | none => simp
    | some l' => simp [Limit.upperSem, h2 l' rfl]
  · rw [him]
    simp only [lowerSemO_some, upperSemO_some]
    rw [lowerSem_mk _ _ _ _ (mkNum_num' _ _), mkNumQ_real hreal]
    simp only [Limit.upperSem, hq]
    cases l'.itype with
    | none => exact linear_le_iff_neg hneg
    | some t => cases t with
      | closed => exact linear_le_iff_neg hneg
      | open_ => exact linear_lt_iff_neg hneg
      | infinite => simp [lowerOk, upperOk]

theorem upper_image_neg (hneg : s.factor * s.denom < 0) (l : Option Limit) (x : Rat) :
    upperSemO (imageLimit s l) (linear s.offset s.factor s.denom x) ↔ lowerSemO l x := by
  rcases imageLimit_cases s l with ⟨h1, h2⟩ | ⟨l', q, rfl, hq, him⟩
  · rw [h1]
    cases l with
    | none => simp
    | some l' => simp [Limit.lowerSem, h2 l' rfl]
  · rw [him]
    simp only [lowerSemO_some, upperSemO_some]
    rw [upperSem_mk _ _ _ _ (mkNum_num' _ _), mkNumQ_real hreal]
    simp only [Limit.lowerSem, hq]
    cases l'.itype with
    | none => exact linear_le_iff_neg hneg
    | some t => cases t with
      | closed => exact linear_le_iff_neg hneg
      | open_ => exact linear_lt_iff_neg hneg
      | infinite => simp [lowerOk, upperOk]

/-- **limits correspond**: for a real physical type and non-zero slope, `y = f(x)` lies inside the derived
    physical limits exactly when `x` lies inside the internal limits -/
theorem inLimits_image_iff (hder : s.Derived) (hf : s.factor ≠ 0) (hd : s.denom ≠ 0) (x : Rat) :
    inLimits s.plo s.phi (linear s.offset s.factor s.denom x) ↔ inLimits s.ilo s.ihi x := by
  have hne : s.factor * s.denom ≠ 0 := mul_ne_zero hf hd
  unfold inLimits
  rw [hder.plo, hder.phi]
  rcases lt_or_gt_of_ne hne with hneg | hpos
  · rw [if_neg (not_le.mpr hneg), if_neg (not_le.mpr hneg), lower_image_neg s hreal hneg, upper_image_neg s hreal hneg]
    exact And.comm
  · rw [if_pos hpos.le, if_pos hpos.le, lower_image_pos s hreal hpos, upper_image_pos s hreal hpos]

end real

/-! ### any physical type, no OPEN limit: weak monotonicity suffices -/

def notOpen (l : Option Limit) : Prop := ∀ l', l = some l' → l'.itype ≠ some IType.open_

theorem lower_image_mono (s : LinSeg) (hd : s.denom ≠ 0) (hnn : 0 ≤ s.factor * s.denom) (l : Option Limit) (hno : notOpen l)
    (x : Rat) (h : lowerSemO l x) :
    lowerSemO (imageLimit s l) (mkNumQ s.pty (linear s.offset s.factor s.denom x)) := by
  rcases imageLimit_cases s l with ⟨h1, _⟩ | ⟨l', q, rfl, hq, him⟩
  · rw [h1]; simp
  · rw [him]
    simp only [lowerSemO_some] at h ⊢
    rw [lowerSem_mk _ _ _ _ (mkNum_num' _ _)]
    simp only [Limit.lowerSem, hq] at h
    have hno' := hno l' rfl
    cases ht : l'.itype with
    | none => rw [ht] at h; exact mkNumQ_mono _ (linear_mono_nonneg hd hnn h)
    | some t => cases t with
      | closed => rw [ht] at h; exact mkNumQ_mono _ (linear_mono_nonneg hd hnn h)
      | open_ => exact absurd ht hno'
      | infinite => simp [lowerOk]

theorem upper_image_mono (s : LinSeg) (hd : s.denom ≠ 0) (hnn : 0 ≤ s.factor * s.denom) (l : Option Limit) (hno : notOpen l)
    (x : Rat) (h : upperSemO l x) :
    upperSemO (imageLimit s l) (mkNumQ s.pty (linear s.offset s.factor s.denom x)) := by
  rcases imageLimit_cases s l with ⟨h1, _⟩ | ⟨l', q, rfl, hq, him⟩
  · rw [h1]; simp
  · rw [him]
    simp only [upperSemO_some] at h ⊢
    rw [upperSem_mk _ _ _ _ (mkNum_num' _ _)]
    simp only [Limit.upperSem, hq] at h
    have hno' := hno l' rfl
    cases ht : l'.itype with
    | none => rw [ht] at h; exact mkNumQ_mono _ (linear_mono_nonneg hd hnn h)
    | some t => cases t with
      | closed => rw [ht] at h; exact mkNumQ_mono _ (linear_mono_nonneg hd hnn h)
      | open_ => exact absurd ht hno'
      | infinite => simp [upperOk]

theorem lower_image_anti (s : LinSeg) (hd : s.denom ≠ 0) (hneg : s.factor * s.denom ≤ 0) (l : Option Limit) (hno : notOpen l)
    (x : Rat) (h : upperSemO l x) :
    lowerSemO (imageLimit s l) (mkNumQ s.pty (linear s.offset s.factor s.denom x)) := by
  rcases imageLimit_cases s l with ⟨h1, _⟩ | ⟨l', q, rfl, hq, him⟩
  · rw [h1]; simp
  · rw [him]
    simp only [lowerSemO_some, upperSemO_some] at h ⊢
    rw [lowerSem_mk _ _ _ _ (mkNum_num' _ _)]
    simp only [Limit.upperSem, hq] at h
    have hno' := hno l' rfl
    cases ht : l'.itype with
    | none => rw [ht] at h; exact mkNumQ_mono _ (linear_anti_neg hd hneg h)
    | some t => cases t with
      | closed => rw [ht] at h; exact mkNumQ_mono _ (linear_anti_neg hd hneg h)
      | open_ => exact absurd ht hno'
      | infinite => simp [lowerOk]

theorem upper_image_anti (s : LinSeg) (hd : s.denom ≠ 0) (hneg : s.factor * s.denom ≤ 0) (l : Option Limit) (hno : notOpen l)
    (x : Rat) (h : lowerSemO l x) :
    upperSemO (imageLimit s l) (mkNumQ s.pty (linear s.offset s.factor s.denom x)) := by
  rcases imageLimit_cases s l with ⟨h1, _⟩ | ⟨l', q, rfl, hq, him⟩
  · rw [h1]; simp
  · rw [him]
    simp only [lowerSemO_some, upperSemO_some] at h ⊢
    rw [upperSem_mk _ _ _ _ (mkNum_num' _ _)]
    simp only [Limit.lowerSem, hq] at h
    have hno' := hno l' rfl
    cases ht : l'.itype with
    | none => rw [ht] at h; exact mkNumQ_mono _ (linear_anti_neg hd hneg h)
    | some t => cases t with
      | closed => rw [ht] at h; exact mkNumQ_mono _ (linear_anti_neg hd hneg h)
      | open_ => exact absurd ht hno'
      | infinite => simp [upperOk]

/-- without OPEN limits the (possibly rounded) image of a value inside the internal limits lies inside
    the derived physical limits — for every physical type and every slope, zero included -/
theorem inLimits_image_closed (s : LinSeg) (hder : s.Derived) (hd : s.denom ≠ 0) (hlo : notOpen s.ilo) (hhi : notOpen s.ihi)
    (x : Rat) (h : inLimits s.ilo s.ihi x) :
    inLimits s.plo s.phi (mkNumQ s.pty (linear s.offset s.factor s.denom x)) := by
  unfold inLimits at h ⊢
  rw [hder.plo, hder.phi]
  by_cases hnn : 0 ≤ s.factor * s.denom
  · rw [if_pos hnn, if_pos hnn]
    exact ⟨lower_image_mono s hd hnn _ hlo x h.1, upper_image_mono s hd hnn _ hhi x h.2⟩
  · rw [if_neg hnn, if_neg hnn]
    have hneg : s.factor * s.denom ≤ 0 := (not_le.mp hnn).le
    exact ⟨lower_image_anti s hd hneg _ hhi x h.2, upper_image_anti s hd hneg _ hlo x h.1⟩

end OdxVerif.Compu
