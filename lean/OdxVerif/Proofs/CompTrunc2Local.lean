import OdxVerif.Proofs.CompTrunc2Mono
/-! C05, nested tier, second part (task W26): what a logged request *means* — the value (or error) `extractCore` returns is a
    function of the requested bytes `msg[start … stop-1]` (and of the cursor / description), of nothing else in the message
    (`extractCore_local`).  So a request that lies inside the message yields a value made of bytes of the message.  Core Lean only. -/
namespace OdxVerif.Codec
open OdxVerif.OdxM OdxVerif.Bits

/-- the result of a run without the final state -/
def resVal {α : Type} : Except (Err × DecState) (α × DecState) → Except Err α
  | .ok (a, _) => .ok a
  | .error (e, _) => .error e

/-- the computation neither looks at the state nor changes it: its result is a function of the mode alone -/
def StateFree {α : Type} (m : DecM α) : Prop :=
  ∃ g : Bool → Except Err α, ∀ s b, m s b = match g b with | .ok a => .ok (a, s) | .error e => .error (e, s)

theorem sf_pure {α} (a : α) : StateFree (Pure.pure a : DecM α) := ⟨fun _ => .ok a, fun _ _ => rfl⟩
theorem sf_pure' {α} (a : α) : StateFree (OdxM.pure a : DecM α) := ⟨fun _ => .ok a, fun _ _ => rfl⟩
theorem sf_raise {α} (e : Err) : StateFree (raise e : DecM α) := ⟨fun _ => .error e, fun _ _ => rfl⟩
theorem sf_odxraise (e : Err) : StateFree (odxraise e : DecM Unit) :=
  ⟨fun b => if b then .error e else .ok (), fun s b => by cases b <;> rfl⟩
theorem sf_odxassert (c : Bool) : StateFree (odxassert c : DecM Unit) := by
  unfold odxassert; split
  · exact sf_pure' ()
  · exact sf_odxraise _
theorem sf_bind' {α β} (m : DecM α) (f : α → DecM β) (hm : StateFree m) (hf : ∀ a, StateFree (f a)) :
    StateFree (OdxM.bind m f) := by
  obtain ⟨g1, h1⟩ := hm
  refine ⟨fun b => match g1 b with | .ok a => Classical.choose (hf a) b | .error e => .error e, fun s b => ?_⟩
  unfold OdxM.bind
  rw [h1 s b]
  dsimp only
  cases hg : g1 b with
  | ok a => dsimp only; exact Classical.choose_spec (hf a) s b
  | error e => rfl
theorem sf_bind {α β} (m : DecM α) (f : α → DecM β) (hm : StateFree m) (hf : ∀ a, StateFree (f a)) : StateFree (m >>= f) :=
  sf_bind' m f hm hf
theorem sf_ite {α} (c : Prop) [Decidable c] (a b : DecM α) (ha : StateFree a) (hb : StateFree b) :
    StateFree (if c then a else b) := by split <;> assumption

macro "sf_step" : tactic =>
  `(tactic| first
    | exact sf_pure _ | exact sf_pure' _ | exact sf_raise _ | exact sf_odxraise _ | exact sf_odxassert _
    | assumption
    | apply sf_bind | apply sf_bind' | apply sf_ite
    | intro _)

/-- the interpretation of the raw bits is a pure function of base type, encoding, bit length, raw value and mode -/
theorem sf_convertRaw (bt : BaseType) (enc : Option Enc) (hl : Bool) (bl raw : Nat) : StateFree (convertRaw bt enc hl bl raw) := by
  unfold convertRaw
  cases bt <;> simp only [] <;> repeat (first | split | sf_step)

/-- **Locality of a request.**  Two messages that agree on the requested bytes `cursorByte ≤ … < readEnd bl` (both long enough
    to contain them): `extractCore` returns the same value, or raises the same error, on both — whatever else the messages
    contain and however long they are. -/
theorem extractCore_local (bl : Nat) (bt : BaseType) (enc : Option Enc) (hl : Bool) (s : DecState) (msg' : Bytes) (b : Bool)
    (hfit : s.readEnd bl ≤ s.msg.length) (hfit' : s.readEnd bl ≤ msg'.length)
    (hsame : (s.msg.drop s.cursorByte).take ((bl + s.cursorBit + 7) / 8) = (msg'.drop s.cursorByte).take ((bl + s.cursorBit + 7) / 8)) :
    resVal (extractCore bl bt enc hl s b) = resVal (extractCore bl bt enc hl { s with msg := msg' } b) := by
  unfold DecState.readEnd at hfit hfit'
  unfold extractCore
  simp only [bind, run_bind, run_getS, run_ite]
  by_cases hi : (bt = .int32 ∨ bt = .uint32) ∧ bl > 64
  · simp only [hi, and_self, if_true]; rfl
  · have h1 : ¬ s.cursorByte + (bl + s.cursorBit + 7) / 8 > s.msg.length := by omega
    have h2 : ¬ s.cursorByte + (bl + s.cursorBit + 7) / 8 > msg'.length := by omega
    simp only [hi, if_false, h1, h2]
    have hnum : readNum s.msg s.cursorByte ((bl + s.cursorBit + 7) / 8) (!(!hl && bt.isNumeric)) =
        readNum msg' s.cursorByte ((bl + s.cursorBit + 7) / 8) (!(!hl && bt.isNumeric)) := by
      unfold readNum; rw [hsame]
    rw [hnum]
    obtain ⟨g, hg⟩ := sf_convertRaw bt enc hl bl
      (readNum msg' s.cursorByte ((bl + s.cursorBit + 7) / 8) (!(!hl && bt.isNumeric)) / 2 ^ s.cursorBit % 2 ^ bl)
    rw [hg s b, hg { s with msg := msg' } b]
    cases g b <;> rfl

end OdxVerif.Codec
