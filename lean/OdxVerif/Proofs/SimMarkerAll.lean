import OdxVerif.Proofs.SimMarker
/-! C17 (task W19): `Sim` (strict success ⇒ identical lenient result) for the whole decoder model *including*
    DYNAMIC-ENDMARKER-FIELDs whose termination DOP is `Dop.probeSafe` — the scheme of `sim_decode_all`
    (`Proofs/SimCodec.lean`), with the probe's `tryCatch` discharged by `Hard` (`Proofs/SimMarker.lean`). -/
namespace OdxVerif.Codec
open OdxVerif.OdxM OdxVerif.Bits

/-- the catch-site obligation for a body that can only fail hard -/
theorem sim_tryCatch_hard {σ α : Type} (m : OdxM σ α) (handles : Err → Bool) (h : Err → OdxM σ α)
    (hm : Hard m) (hh : ∀ e, Sim (h e)) (hc : ∀ e, handles e = true → Caught e) : Sim (tryCatch m handles h) :=
  sim_tryCatch m handles h hm.sim hh (fun s e s' hr he => hm.same s e s' hr (hc e he))

mutual
/-- every DYNAMIC-ENDMARKER-FIELD of the description has a termination DOP whose probe can only fail hard (`Dop.probeSafe`) -/
def Dop.markerSafe : Dop → Bool
  | .simple .. => true
  | .struct _ ps => paramsMarkerSafe ps
  | .staticField _ _ item => item.markerSafe
  | .dynLenField _ _ _ cd item => cd.markerSafe && item.markerSafe
  | .endMarkerField _ td item => td.probeSafe && item.markerSafe
  | .eopField _ _ item => item.markerSafe
  | .mux _ _ _ sd cases dflt => sd.markerSafe && casesMarkerSafe cases &&
      (match dflt with | some (_, some d) => d.markerSafe | _ => true)
  | .unsupported => true
  | .dtc .. => true
def casesMarkerSafe : List MuxCaseD → Bool
  | [] => true
  | .mk _ _ _ st :: cs => (match st with | some d => d.markerSafe | none => true) && casesMarkerSafe cs
def Param.markerSafe : Param → Bool
  | .mk _ _ _ k => k.markerSafe
def PKind.markerSafe : PKind → Bool
  | .physConst d _ | .value d _ | .lengthKey d => d.markerSafe
  | _ => true
def paramsMarkerSafe : List Param → Bool
  | [] => true
  | p :: ps => p.markerSafe && paramsMarkerSafe ps
end

theorem casesMarkerSafe_cons (n : String) (lo up : Int) (st : Option Dop) (cs : List MuxCaseD) :
    casesMarkerSafe (.mk n lo up st :: cs) =
      ((match st with | some d => d.markerSafe | none => true) && casesMarkerSafe cs) := by
  cases st <;> rfl

theorem caseOfKey_markerSafe (key : Int) (cs : List MuxCaseD) (h : casesMarkerSafe cs = true) (c : MuxCaseD)
    (hc : caseOfKey key cs = some c) : ∀ d, c.struct = some d → d.markerSafe = true := by
  induction cs with
  | nil => simp [caseOfKey] at hc
  | cons x xs ih =>
    obtain ⟨n, lo, up, st⟩ := x
    rw [casesMarkerSafe_cons, Bool.and_eq_true] at h
    unfold caseOfKey at hc
    by_cases hk : (MuxCaseD.mk n lo up st).lower ≤ key ∧ key ≤ (MuxCaseD.mk n lo up st).upper
    · rw [if_pos hk] at hc
      injection hc with hc
      subst hc
      intro d hd
      have : st = some d := hd
      subst this
      exact h.1
    · rw [if_neg hk] at hc
      exact ih h.2 hc

theorem markerSafe_valueParam (n : String) (bp bit : Option Nat) (d : Dop) (dflt : Option PVal) :
    (Param.mk n bp bit (.value d dflt)).markerSafe = d.markerSafe := rfl

theorem markerSafe_mux (bp sbp : Nat) (sbit : Option Nat) (sd : Dop) (cases : List MuxCaseD) (dflt : Option (String × Option Dop)) :
    (Dop.mux bp sbp sbit sd cases dflt).markerSafe =
      (sd.markerSafe && casesMarkerSafe cases && (match dflt with | some (_, some d) => d.markerSafe | _ => true)) := by
  rcases dflt with _ | ⟨n, _ | d⟩ <;> rfl

/-- the structure of the case the decoder selects is marker free -/
theorem selCase_markerSafe (cases : List MuxCaseD) (dflt : Option (String × Option Dop)) (hc : casesMarkerSafe cases = true)
    (hd : (match dflt with | some (_, some d) => d.markerSafe | _ => true) = true) (key : Int) (name : String) (d : Dop)
    (h : (match caseOfKey key cases with | some c => some (c.name, c.struct) | none => dflt) = some (name, some d)) :
    d.markerSafe = true := by
  cases hk : caseOfKey key cases with
  | some c =>
    rw [hk] at h
    simp only [Option.some.injEq, Prod.mk.injEq] at h
    exact caseOfKey_markerSafe key cases hc c hk d h.2
  | none =>
    rw [hk] at h
    simp only at h
    subst h
    simpa using hd

set_option maxHeartbeats 1600000 in
theorem sim_decode_all_marker (fuel : Nat) :
    (∀ d, d.markerSafe = true → Sim (decodeDop fuel d)) ∧
    (∀ item sz n, item.markerSafe = true → Sim (decodeStaticItems item sz fuel n)) ∧
    (∀ item n, item.markerSafe = true → Sim (decodeNItems item fuel n)) ∧
    (∀ item, item.markerSafe = true → Sim (decodeToEnd item fuel)) ∧
    (∀ tv td item, td.probeSafe = true → item.markerSafe = true → Sim (decodeUntilMarker tv td item fuel)) ∧
    (∀ p, p.markerSafe = true → Sim (decodeParam fuel p)) ∧
    (∀ ps, paramsMarkerSafe ps = true → Sim (decodeParams fuel ps)) ∧
    (∀ ps, paramsMarkerSafe ps = true → Sim (decodeComposite fuel ps)) := by
  induction fuel with
  | zero =>
    refine ⟨?_, ?_, ?_, ?_, ?_, ?_, ?_, ?_⟩ <;> intros
    · unfold decodeDop; exact sim_raise _
    · unfold decodeStaticItems; exact sim_raise _
    · unfold decodeNItems; exact sim_raise _
    · unfold decodeToEnd; exact sim_raise _
    · unfold decodeUntilMarker; exact sim_raise _
    · unfold decodeParam; exact sim_raise _
    · unfold decodeParams; exact sim_raise _
    · unfold decodeComposite; exact sim_raise _
  | succ fuel ih =>
    obtain ⟨ihDop, ihStatic, ihN, ihEnd, ihMark, ihParam, ihParams, ihComp⟩ := ih
    refine ⟨?_, ?_, ?_, ?_, ?_, ?_, ?_, ?_⟩
    · intro d hd
      cases d with
      | mux bp sbp sbit sd cases dflt =>
        rw [markerSafe_mux, Bool.and_eq_true, Bool.and_eq_true] at hd
        obtain ⟨⟨hsd, hcs⟩, hdf⟩ := hd
        unfold decodeDop
        repeat (first
          | exact ihDop _ hsd
          | exact ihParam _ ((markerSafe_valueParam _ _ _ _ _).trans hsd)
          | exact ihDop _ (caseOfKey_markerSafe _ _ hcs _ (by assumption) _ (by assumption))
          | exact ihDop _ (by simp_all)
          | exact ihParam _ ((markerSafe_valueParam _ _ _ _ _).trans (caseOfKey_markerSafe _ _ hcs _ (by assumption) _ (by assumption)))
          | exact ihParam _ ((markerSafe_valueParam _ _ _ _ _).trans (by simp_all))
          | sim_step | split | dsimp only
          | (simp only [Nat.succ_eq_add_one, Nat.add_right_cancel_iff] at *; subst_vars))
      | simple dct phys cm =>
        unfold decodeDop
        repeat (first
          | exact sim_decodeDct _ | exact sim_dopI2P _ _
          | sim_step | split | dsimp only)
      | dtc dct phys cm dtcs =>
        unfold decodeDop
        repeat (first
          | exact sim_decodeDct _ | exact sim_methodI2P _ _ _
          | sim_step | split | dsimp only)
      | endMarkerField tv td item =>
        simp only [Dop.markerSafe, Bool.and_eq_true] at hd
        unfold decodeDop
        repeat (first | exact ihMark _ _ _ hd.1 hd.2 | sim_step | split | dsimp only)
      | _ =>
        unfold decodeDop <;> simp only [Dop.markerSafe, Bool.and_eq_true, Bool.false_eq_true] at hd <;>
        repeat (first
          | exact ihDop _ (by simp_all) | exact ihStatic _ _ _ (by simp_all) | exact ihN _ _ (by simp_all)
          | exact ihEnd _ (by simp_all) | exact ihComp _ (by simp_all)
          | exact sim_decodeDct _
          | sim_step | split | dsimp only
          | (simp only [Nat.succ_eq_add_one, Nat.add_right_cancel_iff] at *; subst_vars))
    · intro item sz n hd
      unfold decodeStaticItems
      repeat (first
          | exact ihDop _ hd | exact ihStatic _ _ _ hd
          | sim_step | split | dsimp only
          | (simp only [Nat.succ_eq_add_one, Nat.add_right_cancel_iff] at *; subst_vars))
    · intro item n hd
      unfold decodeNItems
      repeat (first
          | exact ihDop _ hd | exact ihN _ _ hd
          | sim_step | split | dsimp only
          | (simp only [Nat.succ_eq_add_one, Nat.add_right_cancel_iff] at *; subst_vars))
    · intro item hd
      unfold decodeToEnd
      repeat (first
          | exact ihDop _ hd | exact ihEnd _ hd
          | sim_step | split | dsimp only
          | (simp only [Nat.succ_eq_add_one, Nat.add_right_cancel_iff] at *; subst_vars))
    · intro tv td item htd hd
      unfold decodeUntilMarker
      repeat (first
          | exact ihDop _ hd | exact ihMark _ _ _ htd hd
          | exact hard_probe _ _ htd | exact hard_pure _ | apply hard_bind
          | (apply sim_tryCatch_hard)
          | (intro e he; simpa [Caught] using he)
          | sim_step | split | dsimp only
          | (simp only [Nat.succ_eq_add_one, Nat.add_right_cancel_iff] at *; subst_vars))
    · intro p hp
      cases p with
      | mk name bytePos bitPos kind =>
        unfold decodeParam
        cases kind <;> simp only [Param.markerSafe, PKind.markerSafe] at hp <;>
        repeat (first
          | exact ihDop _ hp | exact sim_decodeDct _ | exact sim_extractAtomic _ _ _ _
          | sim_step | split | dsimp only
          | (simp only [Nat.succ_eq_add_one, Nat.add_right_cancel_iff] at *; subst_vars))
    · intro ps hps
      cases ps with
      | nil => unfold decodeParams; exact sim_pure _
      | cons p rest =>
        simp only [paramsMarkerSafe, Bool.and_eq_true] at hps
        unfold decodeParams
        repeat (first
          | exact ihParam _ hps.1 | exact ihParams _ hps.2
          | sim_step | split | dsimp only
          | (simp only [Nat.succ_eq_add_one, Nat.add_right_cancel_iff] at *; subst_vars))
    · intro ps hps
      unfold decodeComposite
      repeat (first
          | exact ihParams _ hps
          | sim_step | split | dsimp only
          | (simp only [Nat.succ_eq_add_one, Nat.add_right_cancel_iff] at *; subst_vars))

/-! a description without DYNAMIC-ENDMARKER-FIELD is marker safe: `sim_decode_all_marker` subsumes `sim_decode_all` -/
mutual
theorem Dop.safe_of_free : (d : Dop) → d.markerFree = true → d.markerSafe = true
  | .simple .., _ => rfl
  | .struct _ ps, h => by
    simp only [Dop.markerFree] at h; simp only [Dop.markerSafe]; exact params_safe_of_free ps h
  | .staticField _ _ item, h => by
    simp only [Dop.markerFree] at h; simp only [Dop.markerSafe]; exact Dop.safe_of_free item h
  | .dynLenField _ _ _ cd item, h => by
    simp only [Dop.markerFree, Bool.and_eq_true] at h; simp only [Dop.markerSafe, Bool.and_eq_true]
    exact ⟨Dop.safe_of_free cd h.1, Dop.safe_of_free item h.2⟩
  | .endMarkerField .., h => by simp [Dop.markerFree] at h
  | .eopField _ _ item, h => by
    simp only [Dop.markerFree] at h; simp only [Dop.markerSafe]; exact Dop.safe_of_free item h
  | .mux _ _ _ sd cases none, h => by
    simp only [Dop.markerFree, Bool.and_eq_true] at h; simp only [Dop.markerSafe, Bool.and_eq_true]
    exact ⟨⟨Dop.safe_of_free sd h.1.1, cases_safe_of_free cases h.1.2⟩, trivial⟩
  | .mux _ _ _ sd cases (some (_, none)), h => by
    simp only [Dop.markerFree, Bool.and_eq_true] at h; simp only [Dop.markerSafe, Bool.and_eq_true]
    exact ⟨⟨Dop.safe_of_free sd h.1.1, cases_safe_of_free cases h.1.2⟩, trivial⟩
  | .mux _ _ _ sd cases (some (_, some d)), h => by
    simp only [Dop.markerFree, Bool.and_eq_true] at h; simp only [Dop.markerSafe, Bool.and_eq_true]
    exact ⟨⟨Dop.safe_of_free sd h.1.1, cases_safe_of_free cases h.1.2⟩, Dop.safe_of_free d h.2⟩
  | .unsupported, _ => rfl
  | .dtc .., _ => rfl
theorem cases_safe_of_free : (cs : List MuxCaseD) → casesMarkerFree cs = true → casesMarkerSafe cs = true
  | [], _ => rfl
  | .mk _ _ _ none :: cs, h => by
    simp only [casesMarkerFree, Bool.and_eq_true] at h; simp only [casesMarkerSafe, Bool.and_eq_true]
    exact ⟨trivial, cases_safe_of_free cs h.2⟩
  | .mk _ _ _ (some d) :: cs, h => by
    simp only [casesMarkerFree, Bool.and_eq_true] at h; simp only [casesMarkerSafe, Bool.and_eq_true]
    exact ⟨Dop.safe_of_free d h.1, cases_safe_of_free cs h.2⟩
theorem Param.safe_of_free : (p : Param) → p.markerFree = true → p.markerSafe = true
  | .mk _ _ _ k, h => by
    simp only [Param.markerFree] at h; simp only [Param.markerSafe]; exact PKind.safe_of_free k h
theorem PKind.safe_of_free : (k : PKind) → k.markerFree = true → k.markerSafe = true
  | .physConst d _, h => by simp only [PKind.markerFree] at h; simp only [PKind.markerSafe]; exact Dop.safe_of_free d h
  | .value d _, h => by simp only [PKind.markerFree] at h; simp only [PKind.markerSafe]; exact Dop.safe_of_free d h
  | .lengthKey d, h => by simp only [PKind.markerFree] at h; simp only [PKind.markerSafe]; exact Dop.safe_of_free d h
  | .codedConst .., _ => rfl
  | .reserved .., _ => rfl
  | .matchingReq .., _ => rfl
  | .nrcConst .., _ => rfl
  | .unsupported, _ => rfl
theorem params_safe_of_free : (ps : List Param) → paramsMarkerFree ps = true → paramsMarkerSafe ps = true
  | [], _ => rfl
  | p :: ps, h => by
    simp only [paramsMarkerFree, Bool.and_eq_true] at h; simp only [paramsMarkerSafe, Bool.and_eq_true]
    exact ⟨Param.safe_of_free p h.1, params_safe_of_free ps h.2⟩
end

end OdxVerif.Codec
