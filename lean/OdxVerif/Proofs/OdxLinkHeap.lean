import OdxVerif.Proofs.OdxLink
/-! Lemmas for C10, heap level: the heap model refines the value model; `copyFixed` separates the copy
    from the original; hence resolving a layer with IMPORT-REFS leaves the global database untouched. -/
namespace OdxVerif.OdxLink

/-- the inner dictionaries of a database object exist and are pairwise distinct objects -/
def WF (h : Heap) (d : DbObj) : Prop :=
  (∀ e ∈ d, e.2 < h.cells.length) ∧ (d.map (·.2)).Nodup

theorem WF_nil (h : Heap) : WF h [] := by simp [WF]

/-! ### heap primitives -/
@[simp] theorem write_length (h : Heap) (a : Nat) (x : FragDb) :
    (h.write a x).cells.length = h.cells.length := by simp [Heap.write]

theorem read_write_same (h : Heap) (a : Nat) (x : FragDb) (ha : a < h.cells.length) :
    (h.write a x).read a = x := by
  simp [Heap.read, Heap.write, ha]

theorem read_write_ne (h : Heap) (a b : Nat) (x : FragDb) (hab : a ≠ b) :
    (h.write a x).read b = h.read b := by
  simp [Heap.read, Heap.write, List.getElem?_set_ne hab]

@[simp] theorem alloc_length (h : Heap) (x : FragDb) :
    (h.alloc x).1.cells.length = h.cells.length + 1 := by simp [Heap.alloc]

@[simp] theorem alloc_addr (h : Heap) (x : FragDb) : (h.alloc x).2 = h.cells.length := rfl

theorem read_alloc_old (h : Heap) (x : FragDb) (a : Nat) (ha : a < h.cells.length) :
    (h.alloc x).1.read a = h.read a := by
  simp [Heap.read, Heap.alloc, List.getElem?_append_left ha]

theorem read_alloc_new (h : Heap) (x : FragDb) : (h.alloc x).1.read h.cells.length = x := by
  simp [Heap.read, Heap.alloc]

/-! ### dictionaries -/
section Dict
variable {κ ν : Type} [DecidableEq κ]

theorem dget_some_mem (d : List (κ × ν)) (k : κ) (v : ν) (h : dget d k = some v) : (k, v) ∈ d := by
  induction d with
  | nil => simp [dget] at h
  | cons e r ih =>
    obtain ⟨a, b⟩ := e
    simp only [dget] at h
    by_cases hk : a = k
    · simp [hk] at h; subst hk; subst h; simp
    · simp [hk] at h; exact List.mem_cons_of_mem _ (ih h)

theorem dset_of_dget_none (d : List (κ × ν)) (k : κ) (v : ν) (h : dget d k = none) :
    dset k v d = d ++ [(k, v)] := by
  induction d with
  | nil => simp [dset]
  | cons e r ih =>
    obtain ⟨a, b⟩ := e
    simp only [dget] at h
    by_cases hk : a = k
    · simp [hk] at h
    · simp [hk] at h; simp [dset, hk, ih h]

end Dict

theorem dget_view (h : Heap) (d : DbObj) (f : Frag) : dget (view h d) f = (dget d f).map h.read := by
  induction d with
  | nil => simp [view, dget]
  | cons e r ih =>
    obtain ⟨a, b⟩ := e
    have ih' : dget (List.map (fun e => (e.1, h.read e.2)) r) f = (dget r f).map h.read := ih
    simp only [view, List.map_cons, dget]
    by_cases hk : a = f <;> simp [hk, ih']

theorem view_congr (h h' : Heap) (d : DbObj) (hr : ∀ e ∈ d, h'.read e.2 = h.read e.2) :
    view h' d = view h d := by
  unfold view
  apply List.map_congr_left
  intro e he
  rw [hr e he]

theorem view_write (h : Heap) (d : DbObj) (f : Frag) (a : Nat) (x : FragDb) (hw : WF h d)
    (hf : dget d f = some a) : view (h.write a x) d = dset f x (view h d) := by
  induction d with
  | nil => simp [dget] at hf
  | cons e r ih =>
    obtain ⟨f', a'⟩ := e
    have hnd : a' ∉ r.map (·.2) ∧ (r.map (·.2)).Nodup := by simpa using hw.2
    have hwr : WF h r := ⟨fun e he => hw.1 e (List.mem_cons_of_mem _ he), hnd.2⟩
    simp only [dget] at hf
    by_cases hk : f' = f
    · simp [hk] at hf
      subst hf
      have ha : a' < h.cells.length := hw.1 (f', a') (by simp)
      have htail : view (h.write a' x) r = view h r := by
        apply view_congr
        intro e he
        apply read_write_ne
        intro heq
        exact hnd.1 (by rw [heq]; exact List.mem_map_of_mem he)
      have : view (h.write a' x) ((f', a') :: r) = (f', x) :: view h r := by
        simp only [view, List.map_cons, read_write_same h a' x ha]
        exact congrArg _ htail
      rw [this]
      simp [view, dset, hk]
    · simp [hk] at hf
      have hmem : a ∈ r.map (·.2) := List.mem_map_of_mem (dget_some_mem _ _ _ hf)
      have hne : a ≠ a' := fun heq => hnd.1 (heq ▸ hmem)
      have : view (h.write a x) ((f', a') :: r) = (f', h.read a') :: view (h.write a x) r := by
        simp only [view, List.map_cons, read_write_ne h a a' x hne]
      rw [this, ih hwr hf]
      simp [view, dset, hk]

theorem view_alloc (h : Heap) (d : DbObj) (x : FragDb) (hv : ∀ e ∈ d, e.2 < h.cells.length) :
    view (h.alloc x).1 d = view h d :=
  view_congr _ _ _ fun e he => read_alloc_old h x e.2 (hv e he)

/-! ### one database object evolves: what it may touch -/

/-- `(h', d')` arises from `(h, d)` by operations on the database object `d` only -/
structure Ext (h : Heap) (d : DbObj) (h' : Heap) (d' : DbObj) : Prop where
  wf : WF h' d'
  len : h.cells.length ≤ h'.cells.length
  frame : ∀ a, a < h.cells.length → a ∉ d.map (·.2) → h'.read a = h.read a
  addrs : ∀ a ∈ d'.map (·.2), a ∈ d.map (·.2) ∨ h.cells.length ≤ a

theorem Ext.refl {h d} (hw : WF h d) : Ext h d h d :=
  ⟨hw, Nat.le_refl _, fun _ _ _ => rfl, fun _ ha => Or.inl ha⟩

theorem Ext.trans {h d h1 d1 h2 d2} (e1 : Ext h d h1 d1) (e2 : Ext h1 d1 h2 d2) : Ext h d h2 d2 := by
  refine ⟨e2.wf, Nat.le_trans e1.len e2.len, ?_, ?_⟩
  · intro a ha hn
    have hn1 : a ∉ d1.map (·.2) := by
      intro hm
      rcases e1.addrs a hm with h' | h'
      · exact hn h'
      · omega
    rw [e2.frame a (Nat.lt_of_lt_of_le ha e1.len) hn1, e1.frame a ha hn]
  · intro a ha
    rcases e2.addrs a ha with h' | h'
    · exact e1.addrs a h'
    · exact Or.inr (Nat.le_trans e1.len h')

theorem hUpdateFrags_spec (ow : Bool) (lid : String) (o : Obj) (fs : List Frag) (h : Heap) (d : DbObj)
    (hw : WF h d) :
    view (hUpdateFrags ow lid o fs (h, d)).1 (hUpdateFrags ow lid o fs (h, d)).2
        = updateFrags ow lid o fs (view h d)
      ∧ Ext h d (hUpdateFrags ow lid o fs (h, d)).1 (hUpdateFrags ow lid o fs (h, d)).2 := by
  induction fs generalizing h d with
  | nil => exact ⟨rfl, Ext.refl hw⟩
  | cons f fs ih =>
    simp only [hUpdateFrags, updateFrags]
    have hfd : fragDict (view h d) f = match dget d f with | some a => h.read a | none => [] := by
      unfold fragDict
      rw [dget_view]
      cases dget d f <;> rfl
    cases hf : dget d f with
    | some a =>
      simp only
      have hmem : a ∈ d.map (·.2) := List.mem_map_of_mem (dget_some_mem _ _ _ hf)
      have ha : a < h.cells.length := by
        obtain ⟨e, he, rfl⟩ := List.mem_map.1 hmem
        exact hw.1 e he
      let x := storeIn ow lid o (h.read a)
      have hw1 : WF (h.write a x) d := ⟨by simpa using hw.1, hw.2⟩
      have e1 : Ext h d (h.write a x) d :=
        ⟨hw1, by simp, fun b _ hb => read_write_ne h a b x (fun e => hb (e ▸ hmem)), fun _ hb => Or.inl hb⟩
      obtain ⟨hv, e2⟩ := ih (h.write a x) d hw1
      refine ⟨?_, e1.trans e2⟩
      rw [hv, view_write h d f a x hw hf, hfd, hf]
    | none =>
      simp only
      let x := storeIn ow lid o []
      have hlen : (h.alloc x).1.cells.length = h.cells.length + 1 := alloc_length h x
      have hw1 : WF (h.alloc x).1 (d ++ [(f, (h.alloc x).2)]) := by
        constructor
        · intro e he
          rcases List.mem_append.1 he with he | he
          · have := hw.1 e he; omega
          · simp at he; subst he; simp
        · rw [List.map_append, List.nodup_append]
          refine ⟨hw.2, by simp, ?_⟩
          intro a ha b hb
          simp at hb; subst hb
          obtain ⟨e, he, rfl⟩ := List.mem_map.1 ha
          have := hw.1 e he
          simp; omega
      have e1 : Ext h d (h.alloc x).1 (d ++ [(f, (h.alloc x).2)]) := by
        refine ⟨hw1, by omega, fun b hb _ => read_alloc_old h x b hb, ?_⟩
        intro a ha
        rw [List.map_append, List.mem_append] at ha
        rcases ha with ha | ha
        · exact Or.inl ha
        · simp at ha; subst ha; exact Or.inr (Nat.le_refl _)
      obtain ⟨hv, e2⟩ := ih (h.alloc x).1 (d ++ [(f, (h.alloc x).2)]) hw1
      refine ⟨?_, e1.trans e2⟩
      rw [hv]
      congr 1
      have hdn : dget (view h d) f = none := by rw [dget_view, hf]; rfl
      rw [hfd, hf, dset_of_dget_none _ _ _ hdn]
      simp only [view, List.map_append, List.map_cons, List.map_nil, alloc_addr]
      rw [read_alloc_new]
      congr 1
      exact view_alloc h d x hw.1

theorem hUpdate_spec' (es : List (Id × Obj)) (ow : Bool) (h : Heap) (d : DbObj) (hw : WF h d) :
    view (hUpdate (h, d) es ow).1 (hUpdate (h, d) es ow).2 = update (view h d) es ow
      ∧ Ext h d (hUpdate (h, d) es ow).1 (hUpdate (h, d) es ow).2 := by
  unfold hUpdate update
  induction es generalizing h d with
  | nil => exact ⟨rfl, Ext.refl hw⟩
  | cons e es ih =>
    simp only [List.foldl_cons]
    obtain ⟨hv, e1⟩ := hUpdateFrags_spec ow e.1.localId e.2 e.1.frags h d hw
    obtain ⟨hv2, e2⟩ := ih (hUpdateFrags ow e.1.localId e.2 e.1.frags (h, d)).1
      (hUpdateFrags ow e.1.localId e.2 e.1.frags (h, d)).2 e1.wf
    exact ⟨by rw [hv2, hv], e1.trans e2⟩

theorem hUpdate_spec (es : List (Id × Obj)) (ow : Bool) (s : Heap × DbObj) (hw : WF s.1 s.2) :
    view (hUpdate s es ow).1 (hUpdate s es ow).2 = update (view s.1 s.2) es ow
      ∧ Ext s.1 s.2 (hUpdate s es ow).1 (hUpdate s es ow).2 := by
  obtain ⟨h, d⟩ := s
  exact hUpdate_spec' es ow h d hw

/-! ### the repaired copy -/

theorem copyFixedAux_spec (h0 : Heap) (d : DbObj) (hv : ∀ e ∈ d, e.2 < h0.cells.length) (h : Heap)
    (hle : h0.cells.length ≤ h.cells.length) (hold : ∀ a, a < h0.cells.length → h.read a = h0.read a) :
    (∀ a, a < h.cells.length → (copyFixedAux h d).1.read a = h.read a)
      ∧ h.cells.length ≤ (copyFixedAux h d).1.cells.length
      ∧ view (copyFixedAux h d).1 (copyFixedAux h d).2 = view h0 d
      ∧ (∀ e ∈ (copyFixedAux h d).2, h.cells.length ≤ e.2 ∧ e.2 < (copyFixedAux h d).1.cells.length)
      ∧ ((copyFixedAux h d).2.map (·.2)).Nodup := by
  induction d generalizing h with
  | nil => simp [copyFixedAux, view]
  | cons e r ih =>
    obtain ⟨f, a⟩ := e
    simp only [copyFixedAux]
    have ha : a < h0.cells.length := hv (f, a) (by simp)
    have hx : (h.alloc (h.read a)).1.cells.length = h.cells.length + 1 := alloc_length _ _
    have hx2 : (h.alloc (h.read a)).2 = h.cells.length := rfl
    have hxnew : (h.alloc (h.read a)).1.read h.cells.length = h.read a := read_alloc_new _ _
    have hxold' : ∀ b, b < h.cells.length → (h.alloc (h.read a)).1.read b = h.read b :=
      fun b hb => read_alloc_old h _ b hb
    generalize h.alloc (h.read a) = x at hx hx2 hxnew hxold' ⊢
    have hxold : ∀ b, b < h0.cells.length → x.1.read b = h0.read b := by
      intro b hb
      rw [hxold' b (by omega), hold b hb]
    obtain ⟨i1, i2, i3, i4, i5⟩ := ih (fun e he => hv e (List.mem_cons_of_mem _ he)) x.1 (by omega) hxold
    refine ⟨?_, by omega, ?_, ?_, ?_⟩
    · intro b hb
      rw [i1 b (by omega), hxold' b hb]
    · simp only [view, List.map_cons]
      have hnew : (copyFixedAux x.1 r).1.read x.2 = h0.read a := by
        rw [i1 x.2 (by omega), hx2, hxnew, hold a ha]
      rw [hnew]
      exact congrArg _ i3
    · intro e he
      simp at he
      rcases he with rfl | he
      · simp; omega
      · have := i4 e (by simpa using he); omega
    · simp only [List.map_cons, List.nodup_cons]
      refine ⟨?_, i5⟩
      intro hm
      obtain ⟨e, he, heq⟩ := List.mem_map.1 hm
      have := (i4 e he).1
      omega

theorem copyFixed_spec (h : Heap) (g : DbObj) (hw : WF h g) :
    (∀ a, a < h.cells.length → (copyFixed (h, g)).1.read a = h.read a)
      ∧ h.cells.length ≤ (copyFixed (h, g)).1.cells.length
      ∧ view (copyFixed (h, g)).1 (copyFixed (h, g)).2 = view h g
      ∧ (∀ e ∈ (copyFixed (h, g)).2, h.cells.length ≤ e.2)
      ∧ WF (copyFixed (h, g)).1 (copyFixed (h, g)).2 := by
  obtain ⟨i1, i2, i3, i4, i5⟩ := copyFixedAux_spec h g hw.1 h (Nat.le_refl _) (fun _ _ => rfl)
  exact ⟨i1, i2, i3, fun e he => (i4 e he).1, fun e he => (i4 e he).2, i5⟩

/-- **Isolation.** Updating a (repaired) copy of a database object changes neither what the original
    stores nor its well-formedness; the copy stores the value-level update. -/
theorem update_on_copy (h : Heap) (g : DbObj) (hw : WF h g) (es : List (Id × Obj)) (ow : Bool) :
    view (hUpdate (copyFixed (h, g)) es ow).1 g = view h g
      ∧ WF (hUpdate (copyFixed (h, g)) es ow).1 g
      ∧ view (hUpdate (copyFixed (h, g)) es ow).1 (hUpdate (copyFixed (h, g)) es ow).2
          = update (view h g) es ow := by
  obtain ⟨c1, c2, c3, c4, c5⟩ := copyFixed_spec h g hw
  obtain ⟨u1, u2⟩ := hUpdate_spec es ow (copyFixed (h, g)) c5
  have hread : ∀ e ∈ g, (hUpdate (copyFixed (h, g)) es ow).1.read e.2 = h.read e.2 := by
    intro e he
    have hlt := hw.1 e he
    rw [u2.frame e.2 (by omega) ?_, c1 e.2 hlt]
    intro hm
    obtain ⟨e', he', heq⟩ := List.mem_map.1 hm
    have := c4 e' he'
    omega
  refine ⟨view_congr _ _ _ hread, ⟨?_, hw.2⟩, by rw [u1, c3]⟩
  intro e he
  have := hw.1 e he
  have := u2.len
  omega

end OdxVerif.OdxLink
