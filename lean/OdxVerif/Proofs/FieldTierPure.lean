import OdxVerif.Proofs.MuxTier
/-! Field tier, pure part: the combinators the field kinds add to the compositional framework of `Proofs/Compose.lean`
    — zero padding up to a position (`padEnc`, `Pair.padTo`: the ITEM-BYTE-SIZE padding of static fields; `Pair.touch`:
    `emplace_bytes(b"")` of an empty dynamic-length field), lists of pairs (`Pair.list`), items that must consume data
    (`Pair.advancing`), independence of the origin (`OriginFree`), and the encoder's cursor as a function of the
    description alone (`Tree.cursor`, `Trees.size`). Core Lean only. -/
namespace OdxVerif.Codec
open OdxVerif.Bits OdxVerif.OdxM

/-! ### `emplace_bytes(b"\0" * n)` as a pure function -/

/-- the effect of `EncodeState.emplace_bytes(b"\0" * n)` (no mask: all `n` bytes are claimed) -/
def padEnc (n : Nat) (s : EncState) : EncState :=
  { s with msg := (padTo s.msg (s.cursorByte + n)).take s.cursorByte ++ List.replicate n 0 ++
                    (padTo s.msg (s.cursorByte + n)).drop (s.cursorByte + n),
           used := (s.used ++ List.replicate ((padTo s.msg (s.cursorByte + n)).length - s.msg.length) 0).take s.cursorByte ++
                    List.replicate n 255 ++
                    (s.used ++ List.replicate ((padTo s.msg (s.cursorByte + n)).length - s.msg.length) 0).drop (s.cursorByte + n),
           warn := s.warn + (if (((s.used ++ List.replicate ((padTo s.msg (s.cursorByte + n)).length - s.msg.length) 0).drop
                      s.cursorByte).take n).any (· ≠ 0) then 1 else 0),
           cursorByte := s.cursorByte + n }

theorem emplaceBytes_zeros (n : Nat) (s : EncState) (hcb : s.cursorBit = 0) :
    emplaceBytes (List.replicate n 0) none s true = .ok ((), padEnc n s) := by
  simp only [emplaceBytes, bind, run_bind, run_getS, run_ite, run_setS, hcb, ne_eq, not_true_eq_false,
    if_false, List.length_replicate, padEnc]

theorem padEnc_warn_ge (n : Nat) (s : EncState) : s.warn ≤ (padEnc n s).warn := by
  simp [padEnc]

theorem padEnc_origin (n : Nat) (s : EncState) : (padEnc n s).origin = s.origin := rfl
theorem padEnc_cursor (n : Nat) (s : EncState) : (padEnc n s).cursorByte = s.cursorByte + n := rfl
theorem padEnc_cursorBit (n : Nat) (s : EncState) : (padEnc n s).cursorBit = s.cursorBit := rfl

theorem padEnc_length (n : Nat) (s : EncState) : (padEnc n s).msg.length = max s.msg.length (s.cursorByte + n) := by
  simp only [padEnc, List.length_append, List.length_take, List.length_replicate, List.length_drop, padTo_length]
  omega

theorem allBytes_replicate_zero (n : Nat) : AllBytes (List.replicate n 0) := by
  intro b hb
  rw [List.mem_replicate] at hb
  omega

theorem padEnc_allBytes (n : Nat) (s : EncState) (h : AllBytes s.msg) : AllBytes (padEnc n s).msg := by
  have hp := allBytes_padTo s.msg (s.cursorByte + n) h
  intro b hb
  simp only [padEnc, List.mem_append] at hb
  rcases hb with (hb | hb) | hb
  · exact hp b (List.mem_of_mem_take hb)
  · exact allBytes_replicate_zero n b hb
  · exact hp b (List.mem_of_mem_drop hb)

theorem padEnc_sameCore (n : Nat) (s t : EncState) (h : SameCore s t) : SameCore (padEnc n s) (padEnc n t) := by
  obtain ⟨h1, h2, h3, h4, h5⟩ := h
  simp only [SameCore, padEnc, h1, h2, h3, h4, h5, and_self]

/-- byte `i` of `a.take p ++ mid ++ a.drop (p + mid.length)` outside the replaced range -/
theorem getD_splice_outside (a mid : Bytes) (p i : Nat) (h : (i < p ∧ i < a.length) ∨ (p + mid.length ≤ i ∧ p ≤ a.length)) :
    (a.take p ++ mid ++ a.drop (p + mid.length)).getD i 0 = a.getD i 0 := by
  simp only [List.getD_eq_getElem?_getD]
  rcases h with ⟨h, hi⟩ | ⟨h, hp⟩
  · rw [List.append_assoc, List.getElem?_append_left (by rw [List.length_take]; omega), List.getElem?_take, if_pos h]
  · have hl : (a.take p ++ mid).length = p + mid.length := by simp; omega
    rw [List.getElem?_append_right (by rw [hl]; exact h), hl, List.getElem?_drop]
    congr 2; omega

/-- **Frame** for the padding: without an overlap warning a claimed bit keeps its value and stays claimed -/
theorem padEnc_frame (n : Nat) (s : EncState) (hw : (padEnc n s).warn = s.warn) (a : Nat)
    (hu : getBit s.used a = true) :
    getBit (padEnc n s).msg a = getBit s.msg a ∧ getBit (padEnc n s).used a = true := by
  -- the claimed bit lies inside the old used mask
  have hlt : a / 8 < s.used.length := by
    cases hlt : decide (a / 8 < s.used.length) with
    | true => exact of_decide_eq_true hlt
    | false =>
      have := of_decide_eq_false hlt
      unfold getBit at hu
      rw [List.getD_eq_getElem?_getD, List.getElem?_eq_none (by omega)] at hu
      simp at hu
  have hbyte : s.used.getD (a / 8) 0 ≠ 0 := by
    intro h0
    unfold getBit at hu
    rw [h0] at hu
    simp at hu
  -- it is not one of the padding bytes (they were all unclaimed)
  have hout : a / 8 < s.cursorByte ∨ s.cursorByte + n ≤ a / 8 := by
    cases hdec : decide (a / 8 < s.cursorByte ∨ s.cursorByte + n ≤ a / 8) with
    | true => exact of_decide_eq_true hdec
    | false =>
      exfalso
      have hin := of_decide_eq_false hdec
      have hany : (((s.used ++ List.replicate ((padTo s.msg (s.cursorByte + n)).length - s.msg.length) 0).drop
          s.cursorByte).take n).any (· ≠ 0) = true := by
        rw [List.any_eq_true]
        refine ⟨s.used.getD (a / 8) 0, ?_, by simpa using hbyte⟩
        rw [List.mem_iff_getElem?]
        refine ⟨a / 8 - s.cursorByte, ?_⟩
        rw [List.getElem?_take, if_pos (by omega), List.getElem?_drop,
          show s.cursorByte + (a / 8 - s.cursorByte) = a / 8 by omega, List.getElem?_append_left hlt,
          List.getD_eq_getElem?_getD, List.getElem?_eq_getElem hlt]
        rfl
      have : (padEnc n s).warn = s.warn + 1 := by simp only [padEnc, hany, if_true]
      omega
  have hlen0 : s.cursorByte + n ≤ a / 8 → s.cursorByte ≤ (s.used ++ List.replicate
      ((padTo s.msg (s.cursorByte + n)).length - s.msg.length) 0).length := by
    intro h; simp only [List.length_append]; omega
  have hlenm : s.cursorByte ≤ (padTo s.msg (s.cursorByte + n)).length := by rw [padTo_length]; omega
  constructor
  · unfold getBit
    have := getD_splice_outside (padTo s.msg (s.cursorByte + n)) (List.replicate n 0) s.cursorByte (a / 8)
      (by rw [List.length_replicate]; rcases hout with h | h
          · exact Or.inl ⟨h, by omega⟩
          · exact Or.inr ⟨h, hlenm⟩)
    rw [List.length_replicate] at this
    simp only [padEnc]
    rw [this, getD_padTo]
  · unfold getBit at hu ⊢
    have := getD_splice_outside (s.used ++ List.replicate ((padTo s.msg (s.cursorByte + n)).length - s.msg.length) 0)
      (List.replicate n 255) s.cursorByte (a / 8)
      (by rw [List.length_replicate]; rcases hout with h | h
          · exact Or.inl ⟨h, by simp only [List.length_append]; omega⟩
          · exact Or.inr ⟨h, hlen0 h⟩)
    rw [List.length_replicate] at this
    simp only [padEnc]
    rw [this, getD_append_zeros]
    exact hu

/-! ### padding as pairs -/

/-- pad with zero bytes up to `origin + n` (the encoder of a static-field item, seen from inside the item), the decoder
    just moves the cursor there -/
def Pair.padTo (n : Nat) : Pair Unit where
  enc := fun s => if s.cursorByte < s.origin + n then padEnc (s.origin + n - s.cursorByte) s
                  else { s with cursorByte := s.origin + n }
  dec := fun d => ((), { d with cursorByte := d.origin + n })
  val := ()
  fits := fun _ => True

theorem Good.padTo (n : Nat) : Good (Pair.padTo n) where
  warn_mono := fun s => by
    simp only [Pair.padTo]; split
    · exact padEnc_warn_ge _ s
    · exact Nat.le_refl _
  frame := fun s hw a hu => by
    simp only [Pair.padTo] at hw ⊢
    split
    · rename_i h; rw [if_pos h] at hw; exact padEnc_frame _ s hw a hu
    · exact ⟨rfl, hu⟩
  allBytes := fun s h => by
    simp only [Pair.padTo]; split
    · exact padEnc_allBytes _ s h
    · exact h
  len_mono := fun s => by
    simp only [Pair.padTo]; split
    · rw [padEnc_length]; omega
    · exact Nat.le_refl _
  origin := fun s => by
    simp only [Pair.padTo]; split <;> rfl
  rt := by
    intro s d _ _ horig _ _ _ _
    refine ⟨rfl, ?_, rfl, rfl, trivial⟩
    simp only [Pair.padTo]
    split
    · rw [padEnc_cursor, horig]; omega
    · rw [horig]
  core := by
    intro s t h
    have h4 := h.2.2.2.1
    have h5 := h.2.2.2.2
    simp only [Pair.padTo, h4, h5]
    split
    · exact padEnc_sameCore _ s t h
    · exact ⟨h.1, h.2.1, h.2.2.1, rfl, rfl⟩

/-- `emplace_bytes(b"")`: the message is extended up to the cursor -/
def Pair.touch : Pair Unit where
  enc := padEnc 0
  dec := fun d => ((), d)
  val := ()
  fits := fun _ => True

theorem Good.touch : Good Pair.touch where
  warn_mono := padEnc_warn_ge 0
  frame := padEnc_frame 0
  allBytes := padEnc_allBytes 0
  len_mono := fun s => by simp only [Pair.touch]; rw [padEnc_length]; omega
  origin := fun _ => rfl
  rt := by
    intro s d _ _ _ hcur _ _ _
    exact ⟨rfl, by simp only [Pair.touch, padEnc_cursor]; omega, rfl, rfl, trivial⟩
  core := padEnc_sameCore 0

/-! ### lists of pairs -/

def Pair.list {α : Type} : List (Pair α) → Pair (List α)
  | [] => Pair.nil []
  | c :: cs => (c.seq (Pair.list cs)).map (fun p => p.1 :: p.2)

theorem Good.list {α : Type} : (cs : List (Pair α)) → (∀ c ∈ cs, Good c) → Good (Pair.list cs)
  | [], _ => Good.nil _
  | c :: cs, h => ((h c (List.mem_cons_self ..)).seq (Good.list cs (fun x hx => h x (List.mem_cons_of_mem _ hx)))).map _

theorem Pair.list_val_cons {α : Type} (c : Pair α) (cs : List (Pair α)) :
    (Pair.list (c :: cs)).val = c.val :: (Pair.list cs).val := rfl

theorem Pair.list_val {α : Type} (cs : List (Pair α)) : (Pair.list cs).val = cs.map (·.val) := by
  induction cs with
  | nil => rfl
  | cons c cs ih => rw [Pair.list_val_cons, ih]; rfl

/-! ### items that must consume data -/

/-- decoder precondition strengthened by "the cursor moves forward" (`decodeNItems` raises otherwise) -/
def Pair.advancing {α : Type} (c : Pair α) : Pair α :=
  { c with fits := fun d => c.fits d ∧ d.cursorByte < (c.dec d).2.cursorByte }

theorem Good.advancing {α : Type} {c : Pair α} (hc : Good c) (hadv : ∀ s, s.cursorByte < (c.enc s).cursorByte) :
    Good c.advancing where
  warn_mono := hc.warn_mono
  frame := hc.frame
  allBytes := hc.allBytes
  len_mono := hc.len_mono
  origin := hc.origin
  rt := by
    intro s d hall hw horig hcur hdall hlen hagree
    obtain ⟨v, c1, o1, g1, f1⟩ := hc.rt s d hall hw horig hcur hdall hlen hagree
    refine ⟨v, c1, o1, g1, f1, ?_⟩
    show d.cursorByte < (c.dec d).2.cursorByte
    rw [c1, hcur]
    exact hadv s
  core := hc.core

/-! ### independence of the origin -/

/-- the encoder does not look at the origin it is started with (composite objects set their own) -/
def OriginFree {α : Type} (c : Pair α) : Prop :=
  ∀ (s : EncState) (o : Nat), c.enc { s with origin := o } = { c.enc s with origin := o }

theorem OriginFree.inOrigin {α : Type} (c : Pair α) : OriginFree c.inOrigin := fun _ _ => rfl

theorem OriginFree.map {α β : Type} (f : α → β) {c : Pair α} (h : OriginFree c) : OriginFree (c.map f) := h

theorem OriginFree.advancing {α : Type} {c : Pair α} (h : OriginFree c) : OriginFree c.advancing := h

theorem OriginFree.nil {α : Type} (a : α) : OriginFree (Pair.nil a) := fun _ _ => rfl

theorem OriginFree.seq {α β : Type} {a : Pair α} {b : Pair β} (ha : OriginFree a) (hb : OriginFree b) :
    OriginFree (a.seq b) := by
  intro s o
  show b.enc (a.enc { s with origin := o }) = { b.enc (a.enc s) with origin := o }
  rw [ha s o, hb (a.enc s) o]

theorem OriginFree.list {α : Type} : (cs : List (Pair α)) → (∀ c ∈ cs, OriginFree c) → OriginFree (Pair.list cs)
  | [], _ => OriginFree.nil _
  | c :: cs, h => ((h c (List.mem_cons_self ..)).seq
      (OriginFree.list cs (fun x hx => h x (List.mem_cons_of_mem _ hx)))).map _

/-- started at its own first byte or anywhere else: the same bytes -/
theorem OriginFree.sameCore_inOrigin {α : Type} {c : Pair α} (h : OriginFree c) (hc : Good c) (s : EncState) :
    SameCore (c.enc s) (c.inOrigin.enc s) := by
  have := h s s.cursorByte
  show SameCore (c.enc s) { c.enc { s with origin := s.cursorByte } with origin := s.origin }
  rw [this]
  exact ⟨rfl, rfl, rfl, rfl, hc.origin s⟩

/-! ### where the encoder's cursor ends up -/

mutual
/-- the cursor behind a described object, from the origin and the cursor before it (no encoder state) -/
def Tree.cursor : Tree → (origin cursor : Nat) → Nat
  | .int o _, org, c => o.pos org c + o.k
  | .const o _, org, c => o.pos org c + o.k
  | .struct _ bp kids, org, c => Trees.cursor kids (posOf bp org c) (posOf bp org c)
def Trees.cursor : List Tree → (origin cursor : Nat) → Nat
  | [], _, c => c
  | t :: ts, org, c => Trees.cursor ts org (t.cursor org c)
end

/-- the number of bytes a structure occupies according to the encoder's cursor: the position behind its *last*
    parameter relative to its first byte -/
def Trees.size (ts : List Tree) : Nat := Trees.cursor ts 0 0

mutual
theorem Tree.enc_cursor : (t : Tree) → ∀ (s : EncState),
    (t.pair.enc s).cursorByte = t.cursor s.origin s.cursorByte ∧ (t.pair.enc s).origin = s.origin
  | .int o v, s => ⟨rfl, rfl⟩
  | .const o v, s => ⟨rfl, rfl⟩
  | .struct n bp kids, s => by
    have := Trees.enc_cursor kids { s with cursorByte := posOf bp s.origin s.cursorByte,
                                           origin := posOf bp s.origin s.cursorByte }
    exact ⟨this.1, rfl⟩
theorem Trees.enc_cursor : (ts : List Tree) → ∀ (s : EncState),
    ((Trees.pair ts).enc s).cursorByte = Trees.cursor ts s.origin s.cursorByte ∧ ((Trees.pair ts).enc s).origin = s.origin
  | [], s => ⟨rfl, rfl⟩
  | t :: ts, s => by
    have h1 := Tree.enc_cursor t s
    have h2 := Trees.enc_cursor ts (t.pair.enc s)
    simp only [Trees.pair, Pair.map, Pair.seq, Trees.cursor]
    rw [h2.1, h2.2, h1.1, h1.2]
    exact ⟨rfl, rfl⟩
end

theorem Obj.pos_shift (o : Obj) (org c p : Nat) : o.pos (org + p) (c + p) = o.pos org c + p := by
  unfold Obj.pos; cases o.bytePos <;> simp only <;> omega

theorem posOf_shift (bp : Option Nat) (org c p : Nat) : posOf bp (org + p) (c + p) = posOf bp org c + p := by
  unfold posOf; cases bp <;> simp only <;> omega

mutual
theorem Tree.cursor_shift : (t : Tree) → ∀ (org c p : Nat), t.cursor (org + p) (c + p) = t.cursor org c + p
  | .int o v, org, c, p => by simp only [Tree.cursor, Obj.pos_shift]; omega
  | .const o v, org, c, p => by simp only [Tree.cursor, Obj.pos_shift]; omega
  | .struct n bp kids, org, c, p => by
    simp only [Tree.cursor, posOf_shift]
    exact Trees.cursor_shift kids _ _ p
theorem Trees.cursor_shift : (ts : List Tree) → ∀ (org c p : Nat), Trees.cursor ts (org + p) (c + p) = Trees.cursor ts org c + p
  | [], org, c, p => rfl
  | t :: ts, org, c, p => by
    simp only [Trees.cursor, Tree.cursor_shift t org c p]
    exact Trees.cursor_shift ts org _ p
end

/-- a structure started at byte `p` ends at `p + size` -/
theorem Trees.enc_cursor_inOrigin (ts : List Tree) (s : EncState) :
    ((Trees.pair ts).inOrigin.enc s).cursorByte = s.cursorByte + Trees.size ts := by
  have h := (Trees.enc_cursor ts { s with origin := s.cursorByte }).1
  have hs := Trees.cursor_shift ts 0 0 s.cursorByte
  simp only [Nat.zero_add] at hs
  show ((Trees.pair ts).enc { s with origin := s.cursorByte }).cursorByte = _
  rw [h, hs, Trees.size]
  omega

mutual
theorem Tree.dec_origin : (t : Tree) → ∀ (d : DecState), (t.pair.dec d).2.origin = d.origin
  | .int _ _, _ => rfl
  | .const _ _, _ => rfl
  | .struct _ _ _, _ => rfl
theorem Trees.dec_origin : (ts : List Tree) → ∀ (d : DecState), ((Trees.pair ts).dec d).2.origin = d.origin
  | [], d => rfl
  | t :: ts, d => by
    simp only [Trees.pair, Pair.map, Pair.seq]
    rw [Trees.dec_origin ts, Tree.dec_origin t]
end

end OdxVerif.Codec
