import OdxVerif.Spec.Attribution
/-! Lemmas about the constant prefix and the prefix tree (property C06). Core Lean only. -/
namespace OdxVerif.Dispatch
open Spec

/-! ### the accumulator loop computes the declarative constant prefix -/

theorem codedConstPrefixLoop_eq (rp : Bytes) :
    ∀ (ps : List Param) (acc : Bytes), codedConstPrefixLoop rp ps acc = acc ++ constPrefix rp ps
  | [], acc => by simp [codedConstPrefixLoop, constPrefix]
  | .const bs :: ps, acc => by
    simp [codedConstPrefixLoop, constPrefix, codedConstPrefixLoop_eq rp ps]
  | .matchReq pos len :: ps, acc => by
    simp only [codedConstPrefixLoop, constPrefix]
    split <;> simp [codedConstPrefixLoop_eq rp ps]
  | .other :: _, acc => by simp [codedConstPrefixLoop, constPrefix]

theorem codedConstPrefix_eq (rp : Bytes) (c : Coding) : codedConstPrefix rp c = constPrefix rp c.params := by
  simp [codedConstPrefix, codedConstPrefixLoop_eq]

theorem requestPrefix_eq (s : Service) : requestPrefix s = Spec.requestPrefix s := by
  unfold requestPrefix Spec.requestPrefix
  cases s.request <;> simp [codedConstPrefix_eq]

/-- the constant prefix computed without a request prefix is a prefix of the one computed with it -/
theorem constPrefix_nil_prefix (rp : Bytes) : ∀ ps : List Param, constPrefix [] ps <+: constPrefix rp ps
  | [] => by simp [constPrefix]
  | .const bs :: ps => by
    simp only [constPrefix]
    exact (List.prefix_append_right_inj bs).mpr (constPrefix_nil_prefix rp ps)
  | .matchReq pos len :: ps => by
    simp only [constPrefix]
    by_cases h : pos = 0 ∧ len = 0
    · obtain ⟨rfl, rfl⟩ := h
      simpa using constPrefix_nil_prefix rp ps
    · simp [h]
  | .other :: _ => by simp [constPrefix]

namespace Trie
variable {α : Type}

/-- the leaf list stored at exactly the path `p` (`[]` if the path does not exist) -/
def leafAt : Trie α → Bytes → List α
  | t, [] => t.leaf
  | t, b :: p =>
    match t.find? b with
    | none => []
    | some t' => leafAt t' p

@[simp] theorem leafAt_tip_nil (l : List α) : (tip l).leafAt [] = l := rfl
@[simp] theorem leafAt_tip_cons (l : List α) (c : Byte) (q : Bytes) : (tip l).leafAt (c :: q) = [] := rfl
@[simp] theorem leafAt_child_nil (b : Byte) (t r : Trie α) : (child b t r).leafAt [] = r.leafAt [] := rfl
theorem leafAt_child_cons (b c : Byte) (t r : Trie α) (q : Bytes) :
    (child b t r).leafAt (c :: q) = if c = b then t.leafAt q else r.leafAt (c :: q) := by
  by_cases h : c = b <;> simp [leafAt, find?, h]

@[simp] theorem leaf_addLeaf (x : α) : ∀ t : Trie α, (t.addLeaf x).leaf = t.leaf ++ [x]
  | tip l => rfl
  | child _ _ r => by simp [addLeaf, leaf, leaf_addLeaf x r]

@[simp] theorem find?_addLeaf (x : α) (b : Byte) : ∀ t : Trie α, (t.addLeaf x).find? b = t.find? b
  | tip l => rfl
  | child b' t r => by simp [addLeaf, find?, find?_addLeaf x b r]

theorem leafAt_addLeaf (x : α) (t : Trie α) (q : Bytes) :
    (t.addLeaf x).leafAt q = if q = [] then t.leafAt q ++ [x] else t.leafAt q := by
  cases q with
  | nil => simp [leafAt]
  | cons c q => simp [leafAt]

theorem leafAt_chain (x : α) : ∀ p q : Bytes, (chain x p).leafAt q = if q = p then [x] else []
  | [], [] => rfl
  | [], c :: q => by simp [chain]
  | b :: p, [] => by simp [chain]
  | b :: p, c :: q => by
    simp only [chain, leafAt_child_cons, leafAt_tip_cons, leafAt_chain x p q, List.cons.injEq]
    by_cases h : c = b <;> simp [h]

theorem leafAt_insert (x : α) (p : Bytes) (t : Trie α) (q : Bytes) :
    (insert x p t).leafAt q = if q = p then t.leafAt q ++ [x] else t.leafAt q := by
  fun_induction insert x p t generalizing q with
  | case1 t =>
    rw [leafAt_addLeaf]
  | case2 b bs l =>
    cases q with
    | nil => simp
    | cons c q =>
      simp only [leafAt_child_cons, leafAt_tip_cons, leafAt_chain, List.cons.injEq, List.nil_append]
      by_cases h : c = b <;> simp [h]
  | case3 bs b t r ih =>
    cases q with
    | nil => simp
    | cons c q =>
      simp only [leafAt_child_cons, ih, List.cons.injEq]
      by_cases h : c = b <;> simp [h]
  | case4 b bs b' t r hne ih =>
    cases q with
    | nil => simpa using ih []
    | cons c q =>
      simp only [leafAt_child_cons, ih, List.cons.injEq]
      by_cases h : c = b'
      · subst h
        have : ¬ c = b := fun h' => hne h'.symm
        simp [this]
      · simp [h]

theorem mem_leafAt_insert (x y : α) (p : Bytes) (t : Trie α) (q : Bytes) :
    y ∈ (insert x p t).leafAt q ↔ y ∈ t.leafAt q ∨ (y = x ∧ q = p) := by
  rw [leafAt_insert]
  by_cases h : q = p <;> simp [h]

/-- inserting one value under a list of prefixes -/
theorem mem_leafAt_foldl_insert (x y : α) (q : Bytes) :
    ∀ (ps : List Bytes) (t : Trie α),
      y ∈ (ps.foldl (fun t p => t.insert x p) t).leafAt q ↔ y ∈ t.leafAt q ∨ (y = x ∧ q ∈ ps)
  | [], t => by simp
  | p :: ps, t => by
    rw [List.foldl_cons, mem_leafAt_foldl_insert x y q ps, mem_leafAt_insert]
    simp only [List.mem_cons]
    constructor
    · rintro ((h | ⟨h1, h2⟩) | ⟨h1, h2⟩)
      · exact .inl h
      · exact .inr ⟨h1, .inl h2⟩
      · exact .inr ⟨h1, .inr h2⟩
    · rintro (h | ⟨h1, h2 | h2⟩)
      · exact .inl (.inl h)
      · exact .inl (.inr ⟨h1, h2⟩)
      · exact .inr ⟨h1, h2⟩

/-- inserting every value of a list under its prefixes -/
theorem mem_leafAt_foldl_all (f : α → List Bytes) (y : α) (q : Bytes) :
    ∀ (xs : List α) (t : Trie α),
      y ∈ (xs.foldl (fun t x => (f x).foldl (fun t p => t.insert x p) t) t).leafAt q ↔
        y ∈ t.leafAt q ∨ (y ∈ xs ∧ q ∈ f y)
  | [], t => by simp
  | x :: xs, t => by
    rw [List.foldl_cons, mem_leafAt_foldl_all f y q xs, mem_leafAt_foldl_insert]
    simp only [List.mem_cons]
    constructor
    · rintro ((h | ⟨h1, h2⟩) | ⟨h1, h2⟩)
      · exact .inl h
      · exact .inr ⟨.inl h1, h1 ▸ h2⟩
      · exact .inr ⟨.inr h1, h2⟩
    · rintro (h | ⟨h1 | h1, h2⟩)
      · exact .inl (.inl h)
      · exact .inl (.inr ⟨h1, h1 ▸ h2⟩)
      · exact .inr ⟨h1, h2⟩

/-- the tree walk returns exactly what is stored at the non-empty prefixes of the message -/
theorem mem_walk (y : α) : ∀ (M : Bytes) (t : Trie α),
    y ∈ t.walk M ↔ ∃ q, q ≠ [] ∧ q <+: M ∧ y ∈ t.leafAt q
  | [], t => by
    simp only [walk, List.not_mem_nil, false_iff]
    rintro ⟨q, hq, hp, _⟩
    exact hq (List.prefix_nil.mp hp)
  | b :: m, t => by
    cases hf : t.find? b with
    | none =>
      simp only [walk, hf, List.not_mem_nil, false_iff]
      rintro ⟨q, hq, hp, hy⟩
      cases q with
      | nil => exact hq rfl
      | cons c q =>
        obtain ⟨rfl, _⟩ := List.cons_prefix_cons.mp hp
        simp [leafAt, hf] at hy
    | some t' =>
      simp only [walk, hf, List.mem_append, mem_walk y m t']
      constructor
      · rintro (h | ⟨q, hq, hp, hy⟩)
        · exact ⟨[b], by simp, by simp [List.cons_prefix_cons], by simpa [leafAt, hf] using h⟩
        · exact ⟨b :: q, by simp, List.cons_prefix_cons.mpr ⟨rfl, hp⟩, by simpa [leafAt, hf] using hy⟩
      · rintro ⟨q, hq, hp, hy⟩
        cases q with
        | nil => exact absurd rfl hq
        | cons c q =>
          obtain ⟨rfl, hp'⟩ := List.cons_prefix_cons.mp hp
          simp only [leafAt, hf] at hy
          cases q with
          | nil => exact .inl (by simpa [leafAt] using hy)
          | cons d q => exact .inr ⟨d :: q, by simp, hp', hy⟩

end Trie

/-- **the candidates**: the tree walk finds exactly the services of the layer one of whose tree prefixes
    is a non-empty prefix of the message -/
theorem mem_walk_buildTree (L : Layer) (M : Bytes) (s : Service) :
    s ∈ (buildTree L).walk M ↔ s ∈ L.services ∧ ∃ p ∈ treePrefixes L s, p ≠ [] ∧ p <+: M := by
  unfold buildTree
  rw [Trie.mem_walk]
  constructor
  · rintro ⟨q, hq, hp, hy⟩
    rw [Trie.mem_leafAt_foldl_all (treePrefixes L)] at hy
    rcases hy with hy | ⟨h1, h2⟩
    · cases q <;> simp at hy
    · exact ⟨h1, q, h2, hq, hp⟩
  · rintro ⟨h1, p, h2, hq, hp⟩
    exact ⟨p, hq, hp, (Trie.mem_leafAt_foldl_all (treePrefixes L) s p _ _).mpr (.inr ⟨h1, h2⟩)⟩

end OdxVerif.Dispatch
