import OdxVerif.Model.Comparam
/-! Lemmas for C15, part 3: the model of Python's `int()` reads back the decimal numeral of every
natural number (`str(n)`), so "the typed accessors return the numeric content" is about numbers and
not only about strings. -/
namespace OdxVerif.Comparam

theorem digit_not_ws {c : Char} (h : c.isDigit = true) : isWs c = false := by
  unfold isWs
  simp only [decide_eq_false_iff_not, not_or]
  refine ⟨?_, ?_, ?_, ?_, ?_, ?_⟩ <;> (intro e; subst e; revert h; decide)

theorem digit_ne_underscore {c : Char} (h : c.isDigit = true) : c ≠ '_' := by
  intro e; subst e; revert h; decide

theorem dropWhile_ws_digits {cs : List Char} (h : ∀ c ∈ cs, c.isDigit = true) : cs.dropWhile isWs = cs := by
  cases cs with
  | nil => rfl
  | cons c cs => simp [List.dropWhile, digit_not_ws (h c List.mem_cons_self)]

theorem strip_digits {cs : List Char} (h : ∀ c ∈ cs, c.isDigit = true) : strip cs = cs := by
  unfold strip
  rw [dropWhile_ws_digits h, dropWhile_ws_digits (fun c hc => h c (List.mem_reverse.mp hc)), List.reverse_reverse]

theorem underscoresOk_digits {cs : List Char} (h : ∀ c ∈ cs, c.isDigit = true) (prev : Bool) :
    underscoresOk prev cs = true := by
  induction cs generalizing prev with
  | nil => rfl
  | cons c cs ih =>
    unfold underscoresOk
    simp only [digit_ne_underscore (h c List.mem_cons_self), if_false]
    exact ih (fun x hx => h x (List.mem_cons_of_mem _ hx)) _

theorem filter_digits {cs : List Char} (h : ∀ c ∈ cs, c.isDigit = true) : cs.filter (· ≠ '_') = cs := by
  rw [List.filter_eq_self]
  intro c hc
  simpa using digit_ne_underscore (h c hc)

theorem digitsVal_eq (cs : List Char) : digitsVal cs = Nat.ofDigitChars 10 cs 0 := by
  unfold digitsVal
  rw [Nat.ofDigitChars_eq_foldl]
  congr 1
  funext n c
  have : '0'.toNat = 48 := by decide
  rw [this, Nat.mul_comm]

theorem splitSign_digits {c : Char} {cs : List Char} (h : c.isDigit = true) : splitSign (c :: cs) = (false, c :: cs) := by
  unfold splitSign
  have h1 : c ≠ '-' := by intro e; subst e; revert h; decide
  have h2 : c ≠ '+' := by intro e; subst e; revert h; decide
  simp [h1, h2]

/-- `int(str(n)) == n` in the model -/
theorem pyInt_repr (n : Nat) : pyInt (Nat.repr n) = some (n : Int) := by
  have hd : ∀ c ∈ Nat.toDigits 10 n, c.isDigit = true :=
    fun c hc => Nat.isDigit_of_mem_toDigits (by decide) (by decide) hc
  unfold pyInt
  rw [Nat.toList_repr, strip_digits hd]
  cases hcs : Nat.toDigits 10 n with
  | nil => exact absurd hcs Nat.toDigits_ne_nil
  | cons c cs =>
    rw [hcs] at hd
    rw [splitSign_digits (hd c List.mem_cons_self)]
    simp only [underscoresOk_digits hd, filter_digits hd, Bool.not_true, Bool.false_eq_true, if_false]
    have hall : (c :: cs).all isDig = true := by
      rw [List.all_eq_true]
      exact fun x hx => hd x hx
    simp only [List.isEmpty_cons, hall, Bool.not_true, Bool.or_self, Bool.false_eq_true, if_false]
    rw [digitsVal_eq, ← hcs, Nat.ofDigitChars_ten_toDigits]

end OdxVerif.Comparam
