import OdxVerif.Proofs.FieldTier
/-! Leaves of input-dependent size, pure part: `emplace_bytes(t)` without a used-mask as a pure step (`rawStep`: the
    termination sequence of a MIN-MAX-LENGTH-TYPE object, the empty payload), byte strings as positioned objects whose
    decoder returns the bytes of the message (`Pair.bytesAt`), a payload followed by a byte sequence the decoder looks
    for (`Pair.thenRaw`), and a change of the decoder of a `Good` pair (`Good.reDec`). Core Lean only. -/
namespace OdxVerif.Codec
open OdxVerif.Bits OdxVerif.OdxM

/-- `AllBytes` by evaluation -/
theorem allBytes_of_all (bs : Bytes) (h : bs.all (fun b => decide (b < 256)) = true) : AllBytes bs := by
  intro b hb
  rw [List.all_eq_true] at h
  exact of_decide_eq_true (h b hb)

/-! ### a different decoder for the same encoder -/

/-- same encoder, another decoder that agrees with the old one whenever the old one returns the encoded value on a
    message of bytes (the new `fits` may say more about the message) -/
theorem Good.reDec {α β : Type} {c : Pair α} (hc : Good c) (c' : Pair β) (henc : c'.enc = c.enc)
    (h : ∀ d, AllBytes d.msg → (c.dec d).1 = c.val → c.fits d →
      (c'.dec d).1 = c'.val ∧ (c'.dec d).2 = (c.dec d).2 ∧ c'.fits d) : Good c' where
  warn_mono := by rw [henc]; exact hc.warn_mono
  frame := by rw [henc]; exact hc.frame
  allBytes := by rw [henc]; exact hc.allBytes
  len_mono := by rw [henc]; exact hc.len_mono
  origin := by rw [henc]; exact hc.origin
  rt := by
    rw [henc]
    intro s d hall hw horig hcur hdall hlen hagree
    obtain ⟨v, c1, o1, g1, f1⟩ := hc.rt s d hall hw horig hcur hdall hlen hagree
    obtain ⟨v', e', f'⟩ := h d hdall v f1
    rw [e']
    exact ⟨v', c1, o1, g1, f'⟩
  core := by rw [henc]; exact hc.core

/-! ### `emplace_bytes(t)` (no used-mask) as a pure function -/

/-- the effect of `EncodeState.emplace_bytes(t)` at a byte-aligned cursor: all bytes of `t` are claimed -/
def rawStep (t : Bytes) (s : EncState) : EncState :=
  { s with msg := (padTo s.msg (s.cursorByte + t.length)).take s.cursorByte ++ t ++
                    (padTo s.msg (s.cursorByte + t.length)).drop (s.cursorByte + t.length),
           used := (s.used ++ List.replicate ((padTo s.msg (s.cursorByte + t.length)).length - s.msg.length) 0).take s.cursorByte ++
                    List.replicate t.length 255 ++
                    (s.used ++ List.replicate ((padTo s.msg (s.cursorByte + t.length)).length - s.msg.length) 0).drop (s.cursorByte + t.length),
           warn := s.warn + (if (((s.used ++ List.replicate ((padTo s.msg (s.cursorByte + t.length)).length - s.msg.length) 0).drop
                      s.cursorByte).take t.length).any (· ≠ 0) then 1 else 0),
           cursorByte := s.cursorByte + t.length }

theorem emplaceBytes_raw (t : Bytes) (s : EncState) (hcb : s.cursorBit = 0) (st : Bool) :
    emplaceBytes t none s st = .ok ((), rawStep t s) := by
  simp only [emplaceBytes, bind, run_bind, run_getS, run_ite, run_setS, hcb, ne_eq, not_true_eq_false,
    if_false, rawStep]

theorem rawStep_warn_ge (t : Bytes) (s : EncState) : s.warn ≤ (rawStep t s).warn := by
  simp [rawStep]

theorem rawStep_origin (t : Bytes) (s : EncState) : (rawStep t s).origin = s.origin := rfl
theorem rawStep_cursor (t : Bytes) (s : EncState) : (rawStep t s).cursorByte = s.cursorByte + t.length := rfl
theorem rawStep_cursorBit (t : Bytes) (s : EncState) : (rawStep t s).cursorBit = s.cursorBit := rfl
theorem rawStep_isEndOfPdu (t : Bytes) (s : EncState) : (rawStep t s).isEndOfPdu = s.isEndOfPdu := rfl

theorem rawStep_length (t : Bytes) (s : EncState) : (rawStep t s).msg.length = max s.msg.length (s.cursorByte + t.length) := by
  simp only [rawStep, List.length_append, List.length_take, List.length_drop, padTo_length]
  omega

theorem rawStep_allBytes (t : Bytes) (ht : AllBytes t) (s : EncState) (h : AllBytes s.msg) : AllBytes (rawStep t s).msg := by
  have hp := allBytes_padTo s.msg (s.cursorByte + t.length) h
  intro b hb
  simp only [rawStep, List.mem_append] at hb
  rcases hb with (hb | hb) | hb
  · exact hp b (List.mem_of_mem_take hb)
  · exact ht b hb
  · exact hp b (List.mem_of_mem_drop hb)

theorem rawStep_sameCore (t : Bytes) (s u : EncState) (h : SameCore s u) : SameCore (rawStep t s) (rawStep t u) := by
  obtain ⟨h1, h2, h3, h4, h5⟩ := h
  simp only [SameCore, rawStep, h1, h2, h3, h4, h5, and_self]

/-- **Frame** for `emplace_bytes`: without an overlap warning a claimed bit keeps its value and stays claimed -/
theorem rawStep_frame (t : Bytes) (s : EncState) (hw : (rawStep t s).warn = s.warn) (a : Nat)
    (hu : getBit s.used a = true) :
    getBit (rawStep t s).msg a = getBit s.msg a ∧ getBit (rawStep t s).used a = true := by
  have hlt : a / 8 < s.used.length := by
    cases hlt : decide (a / 8 < s.used.length) with
    | true => exact of_decide_eq_true hlt
    | false =>
      have := of_decide_eq_false hlt
      unfold getBit at hu
      rw [List.getD_eq_getElem?_getD, List.getElem?_eq_none (by omega)] at hu
      simp at hu
  have hbyte : s.used.getD (a / 8) 0 ≠ 0 := by
    intro h0
    unfold getBit at hu
    rw [h0] at hu
    simp at hu
  have hout : a / 8 < s.cursorByte ∨ s.cursorByte + t.length ≤ a / 8 := by
    cases hdec : decide (a / 8 < s.cursorByte ∨ s.cursorByte + t.length ≤ a / 8) with
    | true => exact of_decide_eq_true hdec
    | false =>
      exfalso
      have hin := of_decide_eq_false hdec
      have hany : (((s.used ++ List.replicate ((padTo s.msg (s.cursorByte + t.length)).length - s.msg.length) 0).drop
          s.cursorByte).take t.length).any (· ≠ 0) = true := by
        rw [List.any_eq_true]
        refine ⟨s.used.getD (a / 8) 0, ?_, by simpa using hbyte⟩
        rw [List.mem_iff_getElem?]
        refine ⟨a / 8 - s.cursorByte, ?_⟩
        rw [List.getElem?_take, if_pos (by omega), List.getElem?_drop,
          show s.cursorByte + (a / 8 - s.cursorByte) = a / 8 by omega, List.getElem?_append_left hlt,
          List.getD_eq_getElem?_getD, List.getElem?_eq_getElem hlt]
        rfl
      have : (rawStep t s).warn = s.warn + 1 := by simp only [rawStep, hany, if_true]
      omega
  have hlen0 : s.cursorByte + t.length ≤ a / 8 → s.cursorByte ≤ (s.used ++ List.replicate
      ((padTo s.msg (s.cursorByte + t.length)).length - s.msg.length) 0).length := by
    intro h; simp only [List.length_append]; omega
  have hlenm : s.cursorByte ≤ (padTo s.msg (s.cursorByte + t.length)).length := by rw [padTo_length]; omega
  constructor
  · unfold getBit
    have := getD_splice_outside (padTo s.msg (s.cursorByte + t.length)) t s.cursorByte (a / 8)
      (by rcases hout with h | h
          · exact Or.inl ⟨h, by omega⟩
          · exact Or.inr ⟨h, hlenm⟩)
    simp only [rawStep]
    rw [this, getD_padTo]
  · unfold getBit at hu ⊢
    have := getD_splice_outside (s.used ++ List.replicate ((padTo s.msg (s.cursorByte + t.length)).length - s.msg.length) 0)
      (List.replicate t.length 255) s.cursorByte (a / 8)
      (by rw [List.length_replicate]; rcases hout with h | h
          · exact Or.inl ⟨h, by simp only [List.length_append]; omega⟩
          · exact Or.inr ⟨h, hlen0 h⟩)
    rw [List.length_replicate] at this
    simp only [rawStep]
    rw [this, getD_append_zeros]
    exact hu

/-- byte `i` of `a.take p ++ mid ++ a.drop (p + mid.length)` inside the replaced range -/
theorem getD_splice_inside (a mid : Bytes) (p i : Nat) (hp : p ≤ a.length) (hi : i < mid.length) :
    (a.take p ++ mid ++ a.drop (p + mid.length)).getD (p + i) 0 = mid.getD i 0 := by
  simp only [List.getD_eq_getElem?_getD]
  have hl : (a.take p).length = p := by rw [List.length_take]; omega
  rw [List.getElem?_append_left (by simp only [List.length_append, hl]; omega),
    List.getElem?_append_right (by rw [hl]; omega), hl, Nat.add_sub_cancel_left]

/-- the bytes of `t` are in the message … -/
theorem rawStep_own_byte (t : Bytes) (s : EncState) (i : Nat) (hi : i < t.length) :
    (rawStep t s).msg.getD (s.cursorByte + i) 0 = t.getD i 0 := by
  simp only [rawStep]
  exact getD_splice_inside _ t _ i (by rw [padTo_length]; omega) hi

/-- … and claimed, provided the used-mask reaches the cursor (it does when `used` is as long as `msg`, or behind an
    object emplaced with a mask) -/
theorem rawStep_own_used (t : Bytes) (s : EncState) (hU : s.cursorByte ≤ s.used.length) (i : Nat) (hi : i < t.length) :
    (rawStep t s).used.getD (s.cursorByte + i) 0 = 255 := by
  simp only [rawStep]
  have := getD_splice_inside (s.used ++ List.replicate ((padTo s.msg (s.cursorByte + t.length)).length - s.msg.length) 0)
    (List.replicate t.length 255) s.cursorByte i (by simp only [List.length_append]; omega) (by simpa using hi)
  rw [List.length_replicate] at this
  rw [this]
  simp [List.getD_eq_getElem?_getD, hi]

theorem rawStep_used_length (t : Bytes) (s : EncState) (hU : s.cursorByte ≤ s.used.length) :
    (rawStep t s).cursorByte ≤ (rawStep t s).used.length := by
  simp only [rawStep, List.length_append, List.length_take, List.length_drop, List.length_replicate, padTo_length]
  omega

/-- two bytes that agree in their eight bits are equal -/
theorem byte_eq_of_bits (x y : Nat) (hx : x < 256) (hy : y < 256) (h : ∀ j, j < 8 → x.testBit j = y.testBit j) : x = y := by
  apply Nat.eq_of_testBit_eq
  intro j
  by_cases hj : j < 8
  · exact h j hj
  · have h8 : (256 : Nat) ≤ 2 ^ j := by
      rw [show (256:Nat) = 2 ^ 8 from rfl]; exact Nat.pow_le_pow_right (by decide) (by omega)
    rw [Nat.testBit_lt_two_pow (Nat.lt_of_lt_of_le hx h8), Nat.testBit_lt_two_pow (Nat.lt_of_lt_of_le hy h8)]

/-- a message of bytes that agrees with the encoder's message on the claimed bits contains `t` at the cursor -/
theorem rawStep_read (t : Bytes) (ht : AllBytes t) (s : EncState) (hU : s.cursorByte ≤ s.used.length) (m : Bytes)
    (hm : AllBytes m) (hlen : (rawStep t s).msg.length ≤ m.length)
    (hagree : ∀ a, getBit (rawStep t s).used a = true → getBit m a = getBit (rawStep t s).msg a) :
    (m.drop s.cursorByte).take t.length = t := by
  have hl : s.cursorByte + t.length ≤ m.length := by rw [rawStep_length] at hlen; omega
  apply List.ext_getElem
  · simp only [List.length_take, List.length_drop]; omega
  · intro i h1 h2
    rw [List.getElem_take, List.getElem_drop]
    have hti : t[i] < 256 := ht _ (List.getElem_mem h2)
    have hmi : m[s.cursorByte + i] < 256 := hm _ (List.getElem_mem _)
    apply byte_eq_of_bits _ _ hmi hti
    intro j hj
    have hu := rawStep_own_used t s hU i h2
    have hb := rawStep_own_byte t s i h2
    have := hagree (8 * (s.cursorByte + i) + j) (by
      unfold getBit
      rw [show (8 * (s.cursorByte + i) + j) / 8 = s.cursorByte + i by omega,
        show (8 * (s.cursorByte + i) + j) % 8 = j by omega, hu]
      revert j; decide)
    unfold getBit at this
    rw [show (8 * (s.cursorByte + i) + j) / 8 = s.cursorByte + i by omega,
      show (8 * (s.cursorByte + i) + j) % 8 = j by omega, hb] at this
    simpa [List.getD_eq_getElem?_getD, h2, show s.cursorByte + i < m.length by omega] using this

/-- `emplace_bytes(t)` whose bytes the decoder skips without looking at them -/
def Pair.rawSkip (t : Bytes) : Pair Unit where
  enc := rawStep t
  dec := fun d => ((), { d with cursorByte := d.cursorByte + t.length, cursorBit := 0 })
  val := ()
  fits := fun d => d.cursorByte + t.length ≤ d.msg.length

theorem Good.rawSkip (t : Bytes) (ht : AllBytes t) : Good (Pair.rawSkip t) where
  warn_mono := rawStep_warn_ge t
  frame := rawStep_frame t
  allBytes := rawStep_allBytes t ht
  len_mono := fun s => by simp only [Pair.rawSkip]; rw [rawStep_length]; omega
  origin := fun _ => rfl
  rt := by
    intro s d _ _ _ hcur _ hlen _
    have hlen' : (rawStep t s).msg.length ≤ d.msg.length := hlen
    rw [rawStep_length] at hlen'
    exact ⟨rfl, by simp only [Pair.rawSkip, rawStep_cursor]; omega, rfl, rfl, by show _ ≤ _; omega⟩
  core := rawStep_sameCore t

/-! ### a payload followed by a byte sequence the decoder relies on -/

/-- the encoder of `c`, then `emplace_bytes(t)`; the decoder of `c`, then `t.length` bytes are skipped — `fits` records
    that these bytes are `t` -/
def Pair.thenRaw {α : Type} (c : Pair α) (t : Bytes) : Pair α where
  enc := fun s => rawStep t (c.enc s)
  dec := fun d => let r := c.dec d; (r.1, { r.2 with cursorByte := r.2.cursorByte + t.length })
  val := c.val
  fits := fun d => c.fits d ∧ ((c.dec d).2.msg.drop (c.dec d).2.cursorByte).take t.length = t

/-- `Good` needs the used-mask behind `c`'s object to reach the cursor: `emplace_bytes` pads `used` by as many bytes as
    it pads the message, so with a shorter `used` (no reachable state has one; `Good` quantifies over all states) the
    claim would land on the wrong bytes -/
theorem Good.thenRaw {α : Type} {c : Pair α} (hc : Good c) (hU : ∀ s, (c.enc s).cursorByte ≤ (c.enc s).used.length)
    (t : Bytes) (ht : AllBytes t) : Good (c.thenRaw t) where
  warn_mono := fun s => Nat.le_trans (hc.warn_mono s) (rawStep_warn_ge t _)
  frame := by
    intro s hw x hu
    have h1 := hc.warn_mono s
    have h2 := rawStep_warn_ge t (c.enc s)
    have hwa : (c.enc s).warn = s.warn := by simp only [Pair.thenRaw] at hw; omega
    have hwb : (rawStep t (c.enc s)).warn = (c.enc s).warn := by simp only [Pair.thenRaw] at hw; omega
    obtain ⟨m1, u1⟩ := hc.frame s hwa x hu
    obtain ⟨m2, u2⟩ := rawStep_frame t (c.enc s) hwb x u1
    exact ⟨by simp only [Pair.thenRaw]; rw [m2, m1], u2⟩
  allBytes := fun s h => rawStep_allBytes t ht _ (hc.allBytes s h)
  len_mono := fun s => by
    have := hc.len_mono s
    simp only [Pair.thenRaw]; rw [rawStep_length]; omega
  origin := fun s => by simp only [Pair.thenRaw]; rw [rawStep_origin, hc.origin]
  rt := by
    intro s d hall hw horig hcur hdall hlen hagree
    have h1 := hc.warn_mono s
    have h2 := rawStep_warn_ge t (c.enc s)
    have hwa : (c.enc s).warn = s.warn := by simp only [Pair.thenRaw] at hw; omega
    have hwb : (rawStep t (c.enc s)).warn = (c.enc s).warn := by simp only [Pair.thenRaw] at hw; omega
    have hlen' : (rawStep t (c.enc s)).msg.length ≤ d.msg.length := hlen
    have hagree' : ∀ a, getBit (rawStep t (c.enc s)).used a = true → getBit d.msg a = getBit (rawStep t (c.enc s)).msg a :=
      hagree
    have hagree1 : ∀ x, getBit (c.enc s).used x = true → getBit d.msg x = getBit (c.enc s).msg x := by
      intro x hx
      obtain ⟨m2, u2⟩ := rawStep_frame t (c.enc s) hwb x hx
      rw [hagree' x u2, ← m2]
    obtain ⟨v1, c1, o1, g1, f1⟩ := hc.rt s d hall hwa horig hcur hdall
      (by rw [rawStep_length] at hlen'; omega) hagree1
    have hread := rawStep_read t ht (c.enc s) (hU s) d.msg hdall hlen' hagree'
    simp only [Pair.thenRaw]
    refine ⟨v1, by rw [c1, rawStep_cursor], o1, g1, f1, ?_⟩
    rw [g1, c1]
    exact hread
  core := fun s u h => rawStep_sameCore t _ _ (hc.core s u h)

end OdxVerif.Codec
