import OdxVerif.Proofs.CompCompu3Reject
/-! Compositional tier, rejection side (task W24, C04): the class **`DescribedP3`** of parameter DESCRIPTIONS — `DescribedP2`
    (`Proofs/CompReject2Described.lean`) plus VALUE parameters over a DOP with a conversion specification (`PDesc.ofConv`:
    compu-method DOPs, DTC-DOPs) as leaves at any depth of structures (with or without BYTE-SIZE), fields and multiplexers.
    The composite constructors are those of `DescribedP2` verbatim (children `DescribedP3`); `old` embeds `DescribedP2`.
    Soundness `DescribedP3.okW` uses every closure lemma of W14 / W18 unchanged. -/
namespace OdxVerif.Codec
open OdxVerif.Bits OdxVerif.OdxM

inductive DescribedP3 : PDesc → Prop
  | old (p : PDesc) : DescribedP2 p → DescribedP3 p
  | conv (o : Obj) (dop : Dop) (c : ConvSpec) : o.ok → c.Ok o dop → DescribedP3 (PDesc.ofConv o dop c)
  | struct (name : String) (bp : Option Nat) (ps : List PDesc) :
      (∀ p ∈ ps, DescribedP3 p) → PDescs.namesOk ps → PDescs.eopLast ps →
      DescribedP3 (PDesc.ofValue name bp (DDesc.struct ps))
  | structBS (name : String) (bp : Option Nat) (bs : Nat) (ps : List PDesc) :
      (∀ p ∈ ps, DescribedP3 p) → PDescs.namesOk ps → PDescs.anyEop ps = false →
      DescribedP3 (PDesc.ofValue name bp (DDesc.structBS bs ps))
  | staticField (name : String) (bp : Option Nat) (count itemSize : Nat) (bso : Option Nat) (shape : List PDesc) :
      (∀ p ∈ shape, DescribedP3 p) → PDescs.namesOk shape → PDescs.anyEop shape = false →
      DescribedP3 (PDesc.ofValue name bp (DDesc.staticField count itemSize (DDesc.structO bso shape)))
  | dynLenField (name : String) (bp : Option Nat) (l : DynLayout) (bso : Option Nat) (shape : List PDesc) :
      (∀ p ∈ shape, DescribedP3 p) → PDescs.namesOk shape → PDescs.anyEop shape = false →
      1 ≤ (DDesc.structO bso shape).minSize →
      l.cntObj.ok → l.cntObj.isInt → l.cntBp + l.cntObj.k ≤ l.offset →
      DescribedP3 (PDesc.ofValue name bp (DDesc.dynLenField l (DDesc.structO bso shape)))
  | eopField (name : String) (bp : Option Nat) (mn mx : Option Nat) (bso : Option Nat) (shape : List PDesc) :
      (∀ p ∈ shape, DescribedP3 p) → PDescs.namesOk shape → PDescs.anyEop shape = false →
      1 ≤ (DDesc.structO bso shape).minSize →
      DescribedP3 (PDesc.ofValue name bp (DDesc.eopField mn mx (DDesc.structO bso shape)))
  | mux (name : String) (bp : Option Nat) (m : MuxShape) :
      (∀ c ∈ m.cases, ∀ p ∈ c.kids, DescribedP3 p) → (∀ c ∈ m.cases, PDescs.namesOk c.kids ∧ PDescs.eopLast c.kids) →
      (∀ dn kids, m.dflt = some (dn, kids) → (∀ p ∈ kids, DescribedP3 p)) →
      (∀ dn kids, m.dflt = some (dn, kids) → PDescs.namesOk kids ∧ PDescs.eopLast kids) →
      m.toDesc.keyObj.ok → m.toDesc.keyObj.isInt → m.toDesc.casesOk →
      DescribedP3 (PDesc.ofValue name bp (DDesc.mux m.toDesc))

/-- **soundness of `DescribedP3`** -/
theorem DescribedP3.okW {p : PDesc} (h : DescribedP3 p) : p.OkW := by
  induction h with
  | old p hp => exact hp.okW
  | conv o dop c ho hc => exact PDesc.ofConv_okW o dop c ho hc
  | struct name bp ps _ hn hl ih => exact PDesc.ofValue_okW name bp _ (DDesc.struct_okW ps ih hn hl)
  | structBS name bp bs ps _ hn hne ih => exact PDesc.ofValue_okW name bp _ (DDesc.structBS_okW bs ps ih hn hne)
  | staticField name bp count n bso shape _ hn hne ih =>
    exact PDesc.ofValue_okW name bp _ (DDesc.staticField_okW count n _
      (DDesc.structO_okW bso shape ih hn hne) (DDesc.structO_mayEop bso shape hne))
  | dynLenField name bp l bso shape _ hn hne hadv hc hint hoff ih =>
    exact PDesc.ofValue_okW name bp _ (DDesc.dynLenField_okW l _
      (DDesc.structO_okW bso shape ih hn hne) (DDesc.structO_mayEop bso shape hne) hadv hc hint hoff)
  | eopField name bp mn mx bso shape _ hn hne hadv ih =>
    exact PDesc.ofValue_okW name bp _ (DDesc.eopField_okW mn mx _
      (DDesc.structO_okW bso shape ih hn hne) (DDesc.structO_mayEop bso shape hne) hadv)
  | mux name bp m _ hcs _ hds hk hint hcases ih ihd =>
    refine PDesc.ofValue_okW name bp _ (DDesc.mux_okW m.toDesc hk hint ?_ hcases)
    intro d hd
    rcases hd with ⟨c, hc, rfl⟩ | ⟨dn, hdf⟩
    · obtain ⟨c0, hc0, rfl⟩ := List.mem_map.mp hc
      exact DDesc.struct_okW c0.kids (ih c0 hc0) (hcs c0 hc0).1 (hcs c0 hc0).2
    · cases hm : m.dflt with
      | none => simp [MuxShape.toDesc, hm] at hdf
      | some q =>
        obtain ⟨n, kids⟩ := q
        simp only [MuxShape.toDesc, hm, Option.some.injEq, Prod.mk.injEq] at hdf
        rw [← hdf.2]
        exact DDesc.struct_okW kids (ihd n kids hm) (hds n kids hm).1 (hds n kids hm).2

theorem DescribedP2.to3 {p : PDesc} (h : DescribedP2 p) : DescribedP3 p := .old p h

/-- a DTC-DOP parameter is described -/
theorem DtcShape.described (l : DtcShape) (h : l.ok) : DescribedP3 l.pdesc := .conv _ _ _ h.1 (l.spec_ok h)

end OdxVerif.Codec
