import OdxVerif.Proofs.CompTrunc2
/-! C05, nested tier, second part (task W26): erasing the ghost fields of the instrumented decoder gives the model's decoder —
    for every description, every state, both modes, returned or raised (`erases_decode_all`, same induction on the fuel as
    `sim_decode_all` / `keeps_decode_all`).  Core Lean only. -/
namespace OdxVerif.Codec
open OdxVerif.OdxM OdxVerif.Bits

/-- forget the ghost fields of a result -/
def eraseR {α : Type} : Except (Err × LState) (α × LState) → Except (Err × DecState) (α × DecState)
  | .ok (a, ls) => .ok (a, ls.st)
  | .error (e, ls) => .error (e, ls.st)

/-- `ml` is `m` plus ghost actions -/
def Erases {α : Type} (ml : LogM α) (m : DecM α) : Prop := ∀ ls b, eraseR (ml ls b) = m ls.st b

theorem erases_pure {α} (a : α) : Erases (Pure.pure a : LogM α) (Pure.pure a) := fun _ _ => rfl
theorem erases_pure' {α} (a : α) : Erases (OdxM.pure a : LogM α) (OdxM.pure a) := fun _ _ => rfl
theorem erases_raise {α} (e : Err) : Erases (raise e : LogM α) (raise e) := fun _ _ => rfl
theorem erases_odxraise (e : Err) : Erases (odxraise e : LogM Unit) (odxraise e) := by intro ls b; cases b <;> rfl
theorem erases_odxassert (c : Bool) : Erases (odxassert c : LogM Unit) (odxassert c) := by
  unfold odxassert; split
  · exact erases_pure' ()
  · exact erases_odxraise _
theorem erases_liftD {α} (m : DecM α) : Erases (liftD m) m := by
  intro ls b
  unfold liftD
  cases h : m ls.st b with
  | ok p => obtain ⟨a, s⟩ := p; rfl
  | error p => obtain ⟨e, s⟩ := p; rfl
theorem erases_getD : Erases getD getS := erases_liftD _
theorem erases_modD (f : DecState → DecState) : Erases (modD f) (modifyS f) := erases_liftD _

theorem erases_bind' {α β} {ml : LogM α} {m : DecM α} {fl : α → LogM β} {f : α → DecM β}
    (hm : Erases ml m) (hf : ∀ a, Erases (fl a) (f a)) : Erases (OdxM.bind ml fl) (OdxM.bind m f) := by
  intro ls b
  unfold OdxM.bind
  have h1 := hm ls b
  cases hml : ml ls b with
  | error x =>
    obtain ⟨e0, l0⟩ := x
    rw [hml] at h1
    simp only [eraseR] at h1
    rw [← h1]; rfl
  | ok p =>
    obtain ⟨a, l1⟩ := p
    rw [hml] at h1
    simp only [eraseR] at h1
    rw [← h1]
    exact hf a l1 b
theorem erases_bind {α β} {ml : LogM α} {m : DecM α} {fl : α → LogM β} {f : α → DecM β}
    (hm : Erases ml m) (hf : ∀ a, Erases (fl a) (f a)) : Erases (ml >>= fl) (m >>= f) := erases_bind' hm hf
theorem erases_ite {α} {c : Prop} [Decidable c] {a b : LogM α} {a' b' : DecM α} (ha : Erases a a') (hb : Erases b b') :
    Erases (if c then a else b) (if c then a' else b') := by
  split <;> assumption

/-- the ghost action is invisible -/
theorem erases_extractCoreL (bl : Nat) (bt : BaseType) (enc : Option Enc) (hl : Bool) :
    Erases (extractCoreL bl bt enc hl) (extractCore bl bt enc hl) := by
  intro ls b
  unfold extractCoreL
  show eraseR (OdxM.bind (logRead bl) (fun _ => liftD (extractCore bl bt enc hl)) ls b) = _
  unfold OdxM.bind logRead
  exact erases_liftD _ _ b

/-- the probe wrapper is `tryCatch` -/
theorem erases_probeL {α} {ml : LogM α} {m : DecM α} (handles : Err → Bool) {hl : Err → LogM α} {h : Err → DecM α}
    (hm : Erases ml m) (hh : ∀ e, Erases (hl e) (h e)) : Erases (probeL ml handles hl) (OdxM.tryCatch m handles h) := by
  intro ls b
  unfold probeL OdxM.tryCatch
  have h1 := hm { ls with probe := true } b
  cases hml : ml { ls with probe := true } b with
  | ok p =>
    obtain ⟨a, l1⟩ := p
    rw [hml] at h1
    simp only [eraseR] at h1
    rw [← h1]; rfl
  | error x =>
    obtain ⟨e0, l0⟩ := x
    rw [hml] at h1
    simp only [eraseR] at h1
    rw [← h1]
    simp only []
    split
    · exact hh e0 { l0 with probe := ls.probe } b
    · rfl

attribute [irreducible] Erases

macro "er_step" : tactic =>
  `(tactic| first
    | exact erases_pure _ | exact erases_pure' _ | exact erases_raise _ | exact erases_odxraise _ | exact erases_odxassert _
    | exact erases_getD | exact erases_modD _
    | assumption
    | apply erases_bind | apply erases_bind' | apply erases_ite
    | intro _)

/-- a `match` on both sides: split one, the other one reduces or is split in turn; impossible combinations are closed -/
macro "er1" : tactic => `(tactic| first
    | er_step | dsimp only | (split <;> (try simp only [*]))
    | (exfalso; simp_all; done)
    | (simp only [Nat.succ_eq_add_one, Nat.add_right_cancel_iff] at *; subst_vars))
macro "er" : tactic => `(tactic| repeat er1)

theorem erases_extractAtomicL (bl : Nat) (bt : BaseType) (enc : Option Enc) (hl : Bool) :
    Erases (extractAtomicL bl bt enc hl) (extractAtomic bl bt enc hl) := by
  unfold extractAtomicL extractAtomic
  repeat (first | exact erases_extractCoreL _ _ _ _ | er1)

theorem erases_unapplyMask (m : Nat) (c : Bool) (v : IVal) : Erases (unapplyMask m c v) (unapplyMask m c v) := by
  unfold unapplyMask
  cases v <;> simp only [] <;> er

macro "er2" : tactic => `(tactic| first
    | exact erases_extractAtomicL _ _ _ _ | exact erases_unapplyMask _ _ _ | er1)

theorem erases_decodeDctL (dct : Dct) : Erases (decodeDctL dct) (decodeDct dct) := by
  unfold decodeDctL decodeDct
  cases dct with
  | std bt enc hl bl mask c => cases mask <;> simp only [] <;> repeat er2
  | minmax bt enc hl mn mx t => simp only []; repeat er2
  | leading bt enc hl bl => simp only []; repeat er2
  | paramLen bt enc hl key => simp only []; repeat er2

theorem erases_methodI2P (arith : Err) (m : Compu.Method) (i : Compu.Val) :
    Erases (methodI2P arith m i) (methodI2P arith m i) := by
  unfold methodI2P
  cases m <;> simp only [] <;> er

theorem erases_dopI2P (m : Compu.Method) (v : IVal) : Erases (dopI2P m v) (dopI2P m v) := by
  unfold dopI2P
  repeat (first | exact erases_methodI2P _ _ _ | er1)

macro "er3" : tactic => `(tactic| first
    | exact erases_decodeDctL _ | exact erases_dopI2P _ _ | exact erases_methodI2P _ _ _ | er2)

set_option maxHeartbeats 1600000 in
/-- **Erasure.**  Every decoding function of the instrumented decoder is the model's function plus ghost actions: for all
    descriptions, all states, both modes, whether it returns or raises.  By induction on the fuel. -/
theorem erases_decode_all (fuel : Nat) :
    (∀ d, Erases (decodeDopL fuel d) (decodeDop fuel d)) ∧
    (∀ item sz n, Erases (decodeStaticItemsL item sz fuel n) (decodeStaticItems item sz fuel n)) ∧
    (∀ item n, Erases (decodeNItemsL item fuel n) (decodeNItems item fuel n)) ∧
    (∀ item, Erases (decodeToEndL item fuel) (decodeToEnd item fuel)) ∧
    (∀ tv td item, Erases (decodeUntilMarkerL tv td item fuel) (decodeUntilMarker tv td item fuel)) ∧
    (∀ p, Erases (decodeParamL fuel p) (decodeParam fuel p)) ∧
    (∀ ps, Erases (decodeParamsL fuel ps) (decodeParams fuel ps)) ∧
    (∀ ps, Erases (decodeCompositeL fuel ps) (decodeComposite fuel ps)) := by
  induction fuel with
  | zero =>
    refine ⟨?_, ?_, ?_, ?_, ?_, ?_, ?_, ?_⟩ <;> intros
    · unfold decodeDopL decodeDop; exact erases_raise _
    · unfold decodeStaticItemsL decodeStaticItems; exact erases_raise _
    · unfold decodeNItemsL decodeNItems; exact erases_raise _
    · unfold decodeToEndL decodeToEnd; exact erases_raise _
    · unfold decodeUntilMarkerL decodeUntilMarker; exact erases_raise _
    · unfold decodeParamL decodeParam; exact erases_raise _
    · unfold decodeParamsL decodeParams; exact erases_raise _
    · unfold decodeCompositeL decodeComposite; exact erases_raise _
  | succ fuel ih =>
    obtain ⟨ihDop, ihStatic, ihN, ihEnd, ihMark, ihParam, ihParams, ihComp⟩ := ih
    refine ⟨?_, ?_, ?_, ?_, ?_, ?_, ?_, ?_⟩
    · intro d
      cases d with
      | mux bp sbp sbit sd cs dflt =>
        unfold decodeDopL decodeDop
        refine erases_bind erases_getD fun s => erases_bind (erases_modD _) fun _ => erases_bind (ihParam _) fun kv => ?_
        cases kv with
        | atom v =>
          cases v with
          | int key =>
            dsimp only
            refine erases_bind (erases_modD _) fun _ => ?_
            cases hk : caseOfKey key cs with
            | some c => dsimp only; repeat (first | exact ihParam _ | er3)
            | none =>
              dsimp only
              rcases dflt with _ | ⟨n, _ | d⟩ <;> dsimp only <;> repeat (first | exact ihParam _ | er3)
          | _ => dsimp only; repeat er3
        | _ => dsimp only; repeat er3
      | _ =>
        unfold decodeDopL decodeDop <;>
        repeat (first
          | exact ihDop _ | exact ihStatic _ _ _ | exact ihN _ _ | exact ihEnd _ | exact ihMark _ _ _ | exact ihComp _
          | exact ihParam _ | er3)
    · intro item sz n
      cases n <;> unfold decodeStaticItemsL decodeStaticItems <;>
      repeat (first | exact ihDop _ | exact ihStatic _ _ _ | er3)
    · intro item n
      cases n <;> unfold decodeNItemsL decodeNItems <;>
      repeat (first | exact ihDop _ | exact ihN _ _ | er3)
    · intro item
      unfold decodeToEndL decodeToEnd
      repeat (first | exact ihDop _ | exact ihEnd _ | er3)
    · intro tv td item
      unfold decodeUntilMarkerL decodeUntilMarker
      repeat (first
        | exact ihDop _ | exact ihMark _ _ _
        | (apply erases_probeL)
        | er3)
    · intro p
      cases p with
      | mk name bytePos bitPos kind =>
        unfold decodeParamL decodeParam
        cases kind <;>
        repeat (first | exact ihDop _ | er3)
    · intro ps
      cases ps <;> unfold decodeParamsL decodeParams <;>
      repeat (first | exact ihParam _ | exact ihParams _ | er3)
    · intro ps
      unfold decodeCompositeL decodeComposite
      repeat (first | exact ihParams _ | er3)

end OdxVerif.Codec
