import OdxVerif.Proofs.CompResBits
/-! Compositional components, extension W25 (C): **a supplied value for a RESERVED parameter is ignored by the encoder.**

    odxtools (`parameters/reservedparameter.py`): `is_settable = False`, `_encode_positioned_into_pdu` never looks at the physical
    value; `BasicStructure.encode_into_pdu` accepts the entry (the name is a parameter of the structure).  The model: the branch
    `.reserved` of `encodeParam` does not use `pv`.  As a theorem for `Desc2R`: `Desc2R.mcFull` = the components of a description
    with the value `r` of every RESERVED node SUPPLIED (`Comp.reservedSup`: `sup := some r`, everything else as `Comp.reserved`);
    the two families agree in everything but `sup` (`Comp.SameButSup`, by induction over `Desc2R`), both are components, hence
    strict `encodeMessage` of `Descs2R.suppliedFull ds` — the supplied dictionary with the entries `name ↦ r` of the RESERVED
    parameters at every depth of STRUCTUREs, i.e. for descriptions without NRC-CONST / omitted constants / MATCHING-REQUEST-PARAMs
    the DECODED dictionary — equals that of `Descs2R.supplied ds` (`descs2R_encodeMessage_full`). -/
namespace OdxVerif.Codec
open OdxVerif.Bits OdxVerif.OdxM

/-- a RESERVED parameter for which the value `r` is supplied -/
def Comp.reservedSup (n : String) (bp bitp : Option Nat) (bl : Nat) (r : Nat) : Comp :=
  { Comp.reserved n bp bitp bl r with sup := some (.atom (.int r)) }

theorem Comp.reservedSup_ok (n : String) (bp bitp : Option Nat) (bl : Nat) (r : Nat) (h1 : 1 ≤ bl) (h64 : bl ≤ 64) :
    (Comp.reservedSup n bp bitp bl r).Ok :=
  let h0 := Comp.reserved_ok n bp bitp bl r h1 h64
  { good := h0.good
    notKey := rfl
    supplied := fun _ => rfl
    sup_ne_none := by simp [Comp.reservedSup]
    encode_eq := by
      intro fuel hf s _
      obtain ⟨f, rfl⟩ : ∃ f, fuel = f + 1 := ⟨fuel - 1, by simp only [Comp.reservedSup, Comp.reserved] at hf; omega⟩
      obtain ⟨s', hrun, hcore⟩ := encode_skip (reservedObj n bp bitp bl) (.atom (.int r)) s
      refine ⟨{ s' with cursorBit := 0 }, ?_, hcore⟩
      have hrun' : emplaceBytes [] none
          { s with cursorByte := posOf bp s.origin s.cursorByte + (bitp.getD 0 + bl + 7) / 8, cursorBit := 0 } true = .ok ((), s') := hrun
      cases bp <;>
      · simp only [posOf] at hrun'
        simp only [Comp.reservedSup, Comp.reserved, encodeParam, bind, run_bind, run_modifyS]
        rw [hrun']
    enc_cursor := h0.enc_cursor
    cur_shift := h0.cur_shift
    dec_cursorBit := h0.dec_cursorBit
    dec_msg := h0.dec_msg
    dec_origin := h0.dec_origin
    decode_eq := h0.decode_eq }

/-! ### components that differ in the supplied value only -/

structure Comp.SameButSup (g h : Comp) : Prop where
  param : g.param = h.param
  pair : g.pair = h.pair
  need : g.need = h.need
  cur : g.cur = h.cur
  eopOnly : g.eopOnly = h.eopOnly
  decPre : g.decPre = h.decPre

theorem Comp.SameButSup.refl (g : Comp) : g.SameButSup g := ⟨rfl, rfl, rfl, rfl, rfl, rfl⟩

def CompsSame : List Comp → List Comp → Prop
  | [], [] => True
  | g :: gs, h :: hs => g.SameButSup h ∧ CompsSame gs hs
  | _, _ => False

theorem CompsSame.toParams : (gs hs : List Comp) → CompsSame gs hs → Comps.toParams gs = Comps.toParams hs
  | [], [], _ => rfl
  | g :: gs, h :: hs, hh => by
    show g.param :: Comps.toParams gs = h.param :: Comps.toParams hs
    rw [hh.1.param, CompsSame.toParams gs hs hh.2]
  | [], _ :: _, hh => hh.elim
  | _ :: _, [], hh => hh.elim

theorem CompsSame.pair : (gs hs : List Comp) → CompsSame gs hs → Comps.pair gs = Comps.pair hs
  | [], [], _ => rfl
  | g :: gs, h :: hs, hh => by
    simp only [Comps.pair, Comp.name, hh.1.param, hh.1.pair, CompsSame.pair gs hs hh.2]
  | [], _ :: _, hh => hh.elim
  | _ :: _, [], hh => hh.elim

theorem CompsSame.need : (gs hs : List Comp) → CompsSame gs hs → Comps.need gs = Comps.need hs
  | [], [], _ => rfl
  | g :: gs, h :: hs, hh => by
    simp only [Comps.need, hh.1.need, CompsSame.need gs hs hh.2]
  | [], _ :: _, hh => hh.elim
  | _ :: _, [], hh => hh.elim

theorem CompsSame.cur : (gs hs : List Comp) → CompsSame gs hs → ∀ org c, Comps.cur gs org c = Comps.cur hs org c
  | [], [], _, _, _ => rfl
  | g :: gs, h :: hs, hh, org, c => by
    simp only [Comps.cur, hh.1.cur, CompsSame.cur gs hs hh.2]
  | [], _ :: _, hh, _, _ => hh.elim
  | _ :: _, [], hh, _, _ => hh.elim

theorem CompsSame.anyEop : (gs hs : List Comp) → CompsSame gs hs → Comps.anyEop gs = Comps.anyEop hs
  | [], [], _ => rfl
  | g :: gs, h :: hs, hh => by
    have ih := CompsSame.anyEop gs hs hh.2
    simp only [Comps.anyEop, List.any_cons] at ih ⊢
    rw [hh.1.eopOnly, ih]
  | [], _ :: _, hh => hh.elim
  | _ :: _, [], hh => hh.elim

theorem CompsSame.eopLast : (gs hs : List Comp) → CompsSame gs hs → Comps.eopLast gs → Comps.eopLast hs
  | [], [], _, _ => trivial
  | [_], [_], _, _ => trivial
  | g :: g2 :: gs, h :: h2 :: hs, hh, hl => by
    have hl' : g.eopOnly = false ∧ Comps.eopLast (g2 :: gs) := hl
    exact ⟨by rw [← hh.1.eopOnly]; exact hl'.1, CompsSame.eopLast (g2 :: gs) (h2 :: hs) hh.2 hl'.2⟩
  | [], _ :: _, hh, _ => hh.elim
  | _ :: _, [], hh, _ => hh.elim
  | [_], _ :: _ :: _, hh, _ => hh.2.elim
  | _ :: _ :: _, [_], hh, _ => hh.2.elim

theorem CompsSame.names : (gs hs : List Comp) → CompsSame gs hs → gs.map Comp.name = hs.map Comp.name
  | [], [], _ => rfl
  | g :: gs, h :: hs, hh => by
    have ih := CompsSame.names gs hs hh.2
    show g.param.name :: gs.map Comp.name = h.param.name :: hs.map Comp.name
    rw [hh.1.param, ih]
  | [], _ :: _, hh => hh.elim
  | _ :: _, [], hh => hh.elim

theorem Comps.namesOk_iff_names : (gs : List Comp) → (Comps.namesOk gs ↔ (gs.map Comp.name).Nodup)
  | [] => by simp [Comps.namesOk]
  | g :: gs => by
    simp only [Comps.namesOk, List.map_cons, List.nodup_cons, List.mem_map, not_exists, not_and, Comps.namesOk_iff_names gs]

theorem CompsSame.namesOk (gs hs : List Comp) (hh : CompsSame gs hs) (hn : Comps.namesOk gs) : Comps.namesOk hs := by
  rw [Comps.namesOk_iff_names] at hn ⊢
  rw [← CompsSame.names gs hs hh]
  exact hn

theorem CompsSame.decPre : (gs hs : List Comp) → CompsSame gs hs → ∀ d, Comps.decPre gs d = Comps.decPre hs d
  | [], [], _, _ => rfl
  | g :: gs, h :: hs, hh, d => by
    simp only [Comps.decPre, hh.1.decPre, hh.1.pair, CompsSame.decPre gs hs hh.2]
  | [], _ :: _, hh, _ => hh.elim
  | _ :: _, [], hh, _ => hh.elim

/-- STRUCTUREs (with or without BYTE-SIZE) over lists that differ in the supplied values only -/
theorem Comp.ofValue_structO_same (name : String) (bp : Option Nat) (bso : Option Nat) (gs hs : List Comp) (hh : CompsSame gs hs) :
    (Comp.ofValue name bp (DComp.structO bso gs)).SameButSup (Comp.ofValue name bp (DComp.structO bso hs)) := by
  have h1 := CompsSame.toParams gs hs hh
  have h2 := CompsSame.pair gs hs hh
  have h3 := CompsSame.need gs hs hh
  have h4 := CompsSame.cur gs hs hh 0 0
  have h5 := CompsSame.anyEop gs hs hh
  have h6 : Comps.decPre gs = Comps.decPre hs := funext (CompsSame.decPre gs hs hh)
  cases bso with
  | none =>
    refine ⟨?_, ?_, ?_, ?_, ?_, ?_⟩ <;>
      simp only [Comp.ofValue, DComp.structO, DComp.struct, h1, h2, h3, h4, h5, h6]
  | some bs =>
    refine ⟨?_, ?_, ?_, ?_, ?_, ?_⟩ <;>
      simp only [Comp.ofValue, DComp.structO, DComp.structBS, DComp.withByteSize, DComp.struct, h1, h2, h3, h4, h5, h6]

/-! ### the description with the RESERVED values supplied -/

mutual
/-- as `Desc2R.mc`, the value `r` of every RESERVED node supplied -/
def Desc2R.mcFull : Desc2R → MComp
  | .base d => d.mc
  | .reserved n bp bitp bl r => ⟨Comp.reservedSup n bp bitp bl r, false⟩
  | .nrcConst o values r => ⟨Comp.nrcConst o values r, false⟩
  | .u16le u cps bs => ⟨Comp.ofU16LE u cps bs, false⟩
  | .struct name bp bso kids =>
    ⟨Comp.ofValue name bp (DComp.structO bso (MComps.cs (Descs2R.mcsFull kids))), MComps.lastMid (Descs2R.mcs kids)⟩
def Descs2R.mcsFull : List Desc2R → List MComp
  | [] => []
  | d :: ds => d.mcFull :: Descs2R.mcsFull ds
end

def Descs2R.compsFull (ds : List Desc2R) : List Comp := MComps.cs (Descs2R.mcsFull ds)

/-- the supplied dictionary with the entries `name ↦ r` of the RESERVED parameters, at every depth -/
def Descs2R.suppliedFull (ds : List Desc2R) : List (String × PVal) := Comps.values (Descs2R.compsFull ds)

theorem Desc2R.mcFull_mid (x : Desc2R) : x.mcFull.mid = x.mc.mid := by
  cases x <;> rfl

theorem Descs2R.mcsFull_lastMid : (ks : List Desc2R) → MComps.lastMid (Descs2R.mcsFull ks) = MComps.lastMid (Descs2R.mcs ks)
  | [] => rfl
  | [k] => Desc2R.mcFull_mid k
  | _ :: k2 :: ks => Descs2R.mcsFull_lastMid (k2 :: ks)

mutual
theorem Desc2R.mcFull_same : (x : Desc2R) → x.mcFull.c.SameButSup x.mc.c
  | .base _ => Comp.SameButSup.refl _
  | .reserved _ _ _ _ _ => ⟨rfl, rfl, rfl, rfl, rfl, rfl⟩
  | .nrcConst _ _ _ => Comp.SameButSup.refl _
  | .u16le _ _ _ => Comp.SameButSup.refl _
  | .struct name bp bso kids => Comp.ofValue_structO_same name bp bso _ _ (Descs2R.mcsFull_same kids)
theorem Descs2R.mcsFull_same : (ks : List Desc2R) → CompsSame (Descs2R.compsFull ks) (Descs2R.comps ks)
  | [] => trivial
  | k :: ks => ⟨Desc2R.mcFull_same k, Descs2R.mcsFull_same ks⟩
end

theorem sizeSide_same (bso : Option Nat) (gs hs : List Comp) (hh : CompsSame gs hs) (h : sizeSide bso gs) : sizeSide bso hs := by
  intro bs hb
  rw [← CompsSame.cur gs hs hh, ← CompsSame.anyEop gs hs hh]
  exact h bs hb

theorem CompsSame.symm : (gs hs : List Comp) → CompsSame gs hs → CompsSame hs gs
  | [], [], _ => trivial
  | _ :: gs, _ :: hs, hh =>
    ⟨⟨hh.1.param.symm, hh.1.pair.symm, hh.1.need.symm, hh.1.cur.symm, hh.1.eopOnly.symm, hh.1.decPre.symm⟩, CompsSame.symm gs hs hh.2⟩
  | [], _ :: _, hh => hh.elim
  | _ :: _, [], hh => hh.elim

mutual
/-- the full variant is a component as well -/
theorem Desc2R.okMFull : (x : Desc2R) → x.wf → ∀ P, x.mcFull.c.OkM x.mcFull.mid P
  | .base d, h, P => by
    simp only [Desc2R.wf] at h
    exact (Desc2.described d h).ok.1 P
  | .reserved n bp bitp bl r, h, P => by
    simp only [Desc2R.wf] at h
    exact (Comp.reservedSup_ok n bp bitp bl r h.1 h.2).toM _ P
  | .nrcConst o values r, h, P => by
    simp only [Desc2R.wf] at h
    exact (Comp.nrcConst_ok o values r h.1 h.2).toM _ P
  | .u16le u cps bs, h, P => by
    simp only [Desc2R.wf] at h
    exact (Comp.ofU16LE_ok u cps bs h.1 h.2).toM _ P
  | .struct name bp bso kids, h, P => by
    simp only [Desc2R.wf] at h
    have hs := CompsSame.symm _ _ (Descs2R.mcsFull_same kids)
    have hok := MComps.okAll_of_forall (fun _ => True) _ (Descs2R.okMFull kids h.1 (fun _ => True))
    have := Comp.ofValueM_ok name bp _ _ (DComp.structOM_okM bso (Descs2R.mcsFull kids) hok
      (CompsSame.namesOk _ _ hs h.2.1) (CompsSame.eopLast _ _ hs h.2.2.1) (sizeSide_same bso _ _ hs h.2.2.2)) P
    rw [Descs2R.mcsFull_lastMid] at this
    exact this
theorem Descs2R.okMFull : (ds : List Desc2R) → Descs2R.wf ds → ∀ P, ∀ m ∈ Descs2R.mcsFull ds, m.c.OkM m.mid P
  | [], _, _ => by intro m hm; simp [Descs2R.mcsFull] at hm
  | d :: ds, h, P => by
    simp only [Descs2R.wf] at h
    intro m hm
    simp only [Descs2R.mcsFull, List.mem_cons] at hm
    rcases hm with rfl | hm
    · exact Desc2R.okMFull d h.1 P
    · exact Descs2R.okMFull ds h.2 P m hm
end

theorem Desc2R.okTopFull (trig : Option Bytes) (x : Desc2R) (h : x.wfTop trig) : x.mcFull.c.OkM x.mcFull.mid (TopInv trig) := by
  cases x with
  | base d => exact (Desc2.describedTop trig d h).ok.1
  | reserved n bp bitp bl r => exact Desc2R.okMFull _ h _
  | nrcConst o values r => exact Desc2R.okMFull _ h _
  | u16le u cps bs => exact Desc2R.okMFull _ h _
  | struct name bp bso kids => exact Desc2R.okMFull _ h _

theorem Descs2R.okAllTopFull (trig : Option Bytes) : (ds : List Desc2R) → Descs2R.wfTop trig ds →
    MComps.okAll (TopInv trig) (Descs2R.mcsFull ds)
  | [], _ => trivial
  | d :: ds, h => ⟨Desc2R.okTopFull trig d h.1, Descs2R.okAllTopFull trig ds h.2⟩

/-- strict `encodeMessage` of the dictionary WITH the RESERVED entries = the pure encoder of the description from the empty state
    — the same as for the dictionary without them (`descs2R_encodeMessage`) -/
theorem descs2R_encodeMessage_full (trig : Option Bytes) (ds : List Desc2R) (hok : Descs2R.ok trig ds) :
    encodeMessage none (Descs2R.params ds) (.dict (Descs2R.suppliedFull ds)) trig true =
      .ok (((Comps.pair (Descs2R.comps ds)).enc {}).msg, ((Comps.pair (Descs2R.comps ds)).enc {}).warn) := by
  obtain ⟨hwf, hn, hlast, hmid, hneed⟩ := hok
  have hsame := Descs2R.mcsFull_same ds
  have hs := CompsSame.symm _ _ hsame
  have hokAll := Descs2R.okAllTopFull trig ds hwf
  have hneed' : Comps.need (Descs2R.compsFull ds) + 2 ≤ modelFuel := by rw [CompsSame.need _ _ hsame]; exact hneed
  let s0 : EncState := { trig := trig, isEndOfPdu := true }
  obtain ⟨s1, hrun, hcore, _⟩ := DComp.structM_encode_eq (ModelInv.top trig) (Descs2R.mcsFull ds) hokAll
    (CompsSame.namesOk _ _ hs hn) (CompsSame.eopLast _ _ hs hlast) modelFuel hneed'
    s0 rfl (fun _ => rfl) (fun h => by
      rw [Descs2R.mcsFull_lastMid, show MComps.lastMid (Descs2R.mcs ds) = false from hmid] at h; cases h)
    ⟨rfl, Nat.le_refl _⟩
  have hrun' : encodeDop modelFuel (.struct none (Comps.toParams (Descs2R.compsFull ds))) (.dict (Comps.values (Descs2R.compsFull ds)))
      { trig := trig, isEndOfPdu := true } true = .ok ((), s1) := hrun
  rw [CompsSame.toParams _ _ hsame] at hrun'
  unfold encodeMessage Descs2R.params Descs2R.suppliedFull
  rw [hrun']
  have hcore' : SameCore s1 ((DComp.struct (Descs2R.compsFull ds)).pair.enc s0) := hcore
  have hpe : (DComp.struct (Descs2R.compsFull ds)).pair = (DComp.struct (Descs2R.comps ds)).pair := by
    simp only [DComp.struct, CompsSame.pair _ _ hsame]
  rw [hpe] at hcore'
  have hs0 : SameCore ({ s0 with origin := s0.cursorByte } : EncState) {} := ⟨rfl, rfl, rfl, rfl, rfl⟩
  have h2 := (MComps.good _ (Descs2R.okAllTop trig ds hwf)).core _ _ hs0
  have hm : s1.msg = ((Comps.pair (Descs2R.comps ds)).enc {}).msg := hcore'.1.trans h2.1
  have hw : s1.warn = ((Comps.pair (Descs2R.comps ds)).enc {}).warn := hcore'.2.2.1.trans h2.2.2.1
  simp only [hm, hw]

end OdxVerif.Codec
